import IOptModel.Solver
import IOptProofs.ComposeInv
import IOptProofs.MethodFacts
import IOptProofs.ProcessField
import IOptProps.C07num
import IOptProps.C05
import IOptProps.C04
import IOptProofs.ProcessReported
import Mathlib.Algebra.Order.Archimedean.Real.Basic
import Mathlib.Tactic.NormNum
/-!
# C05 (box part) — every trial of the global phase, and the reported best trial, lie in the box

"Every point at which the objective is evaluated lies inside the box [lower, upper]; the returned best
trial does too, also after the local refinement."

Setting: `Solver.mk c` (`IOptModel/Solver.lean`), `Ev.DimOK1 N`, bounds of length `N` with
`lower_i < upper_i`; `int(d)` = natural floor.  The statements at process level hold after ANY sequence
of `DoGlobalIteration(k)` / `Solve` calls on a fresh solver, for ANY objective (raising or not), with no
assumption on `r`, `eps` or the library functions.  The refinement results are inputs of the model
(`LocalResult`); their contract is that the returned point is in the box (`C05.NM.inside`).
-/
set_option linter.unusedSectionVars false

namespace C05
open AGP Proc
variable {α : Type} [Field α] [LinearOrder α] [IsStrictOrderedRing α] [FloorSemiring α] [Fns α]
attribute [local instance] Ev.Num.floorTrunc

/-- `pt` has `c.n` coordinates, each strictly between the bounds -/
def StrictlyInBox (c : Solver.Config α) (pt : List α) : Prop :=
  pt.length = c.n ∧
  ∀ i (_ : i < pt.length) (_ : i < c.lower.length) (_ : i < c.upper.length),
    c.lower[i] < pt[i] ∧ pt[i] < c.upper[i]

/-- strictly inside implies inside (the closed box of `C05.InBox`) -/
theorem StrictlyInBox.inBox {c : Solver.Config α} {pt : List α} (hl : c.lower.length = c.n)
    (hu : c.upper.length = c.n) (h : StrictlyInBox c pt) : InBox c.lower c.upper pt := by
  obtain ⟨hlen, hc⟩ := h
  refine ⟨by omega, by omega, ?_⟩
  intro i l u v h1 h2 h3
  obtain ⟨hi1, rfl⟩ := List.getElem?_eq_some_iff.1 h1
  obtain ⟨hi2, rfl⟩ := List.getElem?_eq_some_iff.1 h2
  obtain ⟨hi3, rfl⟩ := List.getElem?_eq_some_iff.1 h3
  exact ⟨(hc i hi3 hi1 hi2).1.le, (hc i hi3 hi1 hi2).2.le⟩

/-- the evolvent of the solver maps `(0,1)` strictly inside the box (N = 1: the affine branch;
`Ev.DimOK N`: cell centres) -/
theorem image_strictlyInBox (c : Solver.Config α) (hn : Ev.DimOK1 c.n) (hl : c.lower.length = c.n)
    (hu : c.upper.length = c.n)
    (hlt : ∀ i (h1 : i < c.lower.length) (h2 : i < c.upper.length), c.lower[i] < c.upper[i])
    {x : α} (h0 : 0 < x) (h1 : x < 1) : StrictlyInBox c ((Solver.mk c).image x) := by
  rcases hn.cases with h2 | h2
  · -- N = 1
    obtain ⟨n, lower, upper, eps, r, il, m⟩ := c
    simp only at hn hl hu hlt h2
    subst h2
    match lower, upper, hl, hu with
    | [a], [b], _, _ =>
      have hab : a < b := hlt 0 (by simp) (by simp)
      show StrictlyInBox _ (Ev.getImage 1 m [a] [b] x)
      rw [Ev.C07_dim1_image]
      refine ⟨rfl, ?_⟩
      intro i hi _ _
      have hi0 : i = 0 := by simpa using hi
      subst hi0
      have hd : 0 < b - a := sub_pos.2 hab
      simp only [List.getElem_cons_zero]
      constructor
      · have := mul_pos h0 hd; linarith
      · have := mul_lt_mul_of_pos_right h1 hd; linarith
  · exact Ev.C07_getImage_in_box h2 c.evolventDensity c.lower c.upper hl hu hlt x

/-- and `[0,1]` into the closed box -/
theorem image_inBox (c : Solver.Config α) (hn : Ev.DimOK1 c.n) (hl : c.lower.length = c.n)
    (hu : c.upper.length = c.n)
    (hlt : ∀ i (h1 : i < c.lower.length) (h2 : i < c.upper.length), c.lower[i] < c.upper[i])
    {x : α} (h0 : 0 ≤ x) (h1 : x ≤ 1) : InBox c.lower c.upper ((Solver.mk c).image x) := by
  rcases hn.cases with h2 | h2
  · obtain ⟨n, lower, upper, eps, r, il, m⟩ := c
    simp only at hn hl hu hlt h2
    subst h2
    match lower, upper, hl, hu with
    | [a], [b], _, _ =>
      have hab : a < b := hlt 0 (by simp) (by simp)
      show InBox [a] [b] (Ev.getImage 1 m [a] [b] x)
      rw [Ev.C07_dim1_image]
      refine ⟨rfl, rfl, ?_⟩
      intro i l u v hl' hu' hv'
      cases i with
      | succ i => simp at hl'
      | zero =>
        simp only [List.getElem?_cons_zero, Option.some.injEq] at hl' hu' hv'
        subst hl' hu' hv'
        have hd : 0 < b - a := sub_pos.2 hab
        constructor
        · have := mul_nonneg h0 hd.le; linarith
        · have := mul_le_mul_of_nonneg_right h1 hd.le; linarith
  · exact StrictlyInBox.inBox hl hu
      (Ev.C07_getImage_in_box h2 c.evolventDensity c.lower c.upper hl hu hlt x)

/-- **C05, first sentence (global phase).** For `Ev.DimOK1 N` and bounds with `lower_i < upper_i`:
after any sequence `ops` of `DoGlobalIteration(k)` / `Solve` calls on a fresh solver, with any
objective (raising or not) and any refinement, every point that the global search handed to the
objective has `N` coordinates with `lower_i < pt_i < upper_i` for every `i`. -/
theorem C05_trials_in_box (c : Solver.Config α) (hn : Ev.DimOK1 c.n) (hl : c.lower.length = c.n)
    (hu : c.upper.length = c.n)
    (hlt : ∀ i (h1 : i < c.lower.length) (h2 : i < c.upper.length), c.lower[i] < c.upper[i])
    (f : Nat → List α → Option α) (refine : PState α → Option (LocalResult α)) (ops : List Op) :
    ∀ e ∈ (runOps (Solver.mk c) f refine ops {}).evals, StrictlyInBox c e.1 := by
  intro e he
  obtain ⟨x, h0, h1, hx⟩ := (curveInv_runOps (Solver.mk c) f refine ops).1 e he
  rw [hx]; exact image_strictlyInBox c hn hl hu hlt h0 h1

/-- the same for the states of the method (`AGP.Reach`): every logged point and the stored point of
every evaluated item are strictly inside the box; the two end items are in the closed box. -/
theorem C05_trials_in_box_reach (c : Solver.Config α) (hn : Ev.DimOK1 c.n)
    (hl : c.lower.length = c.n) (hu : c.upper.length = c.n)
    (hlt : ∀ i (h1 : i < c.lower.length) (h2 : i < c.upper.length), c.lower[i] < c.upper[i])
    {s : State α} {log : List (List α × α)} (h : Reach (Solver.mk c) s log) :
    (∀ e ∈ log, StrictlyInBox c e.1) ∧ ∀ it ∈ s.items, InBox c.lower c.upper it.point := by
  obtain ⟨hpt, hxr, hlog⟩ := h.curve
  constructor
  · intro e he
    obtain ⟨x, h0, h1, hx⟩ := hlog e he
    rw [hx]; exact image_strictlyInBox c hn hl hu hlt h0 h1
  · intro it hit
    rw [hpt it hit]; exact image_inBox c hn hl hu hlt (hxr it hit).1 (hxr it hit).2

/-- **C05, the reported best trial is in the box, also after refinement.**  After any sequence of
operations on a fresh solver, if every result `lr` of the local search satisfies the contract
"`lr.x` is inside the bounds" (`NM.inside`), the stored point of EVERY item of the search information
— in particular of the method's best trial `findItem s.items s.best` and of the trial
`findItem s.items (reportedId ps s)` that `GetResults` reports — lies in the closed box. -/
theorem C05_best_in_box (c : Solver.Config α) (hn : Ev.DimOK1 c.n) (hl : c.lower.length = c.n)
    (hu : c.upper.length = c.n)
    (hlt : ∀ i (h1 : i < c.lower.length) (h2 : i < c.upper.length), c.lower[i] < c.upper[i])
    (f : Nat → List α → Option α) (refine : PState α → Option (LocalResult α))
    (href : ∀ ps lr, refine ps = some lr → InBox c.lower c.upper lr.x) (ops : List Op) :
    ∀ s, (runOps (Solver.mk c) f refine ops {}).m = some s →
      (∀ it ∈ s.items, InBox c.lower c.upper it.point) ∧
      (∀ b, findItem s.items s.best = some b → InBox c.lower c.upper b.point) ∧
      ∀ b, findItem s.items (reportedId (runOps (Solver.mk c) f refine ops {}) s) = some b →
        InBox c.lower c.upper b.point := by
  intro s hs
  have h := (pointsInv_runOps (Solver.mk c) f (InBox c.lower c.upper)
    (fun x h0 h1 => image_inBox c hn hl hu hlt h0 h1) refine href ops).2 s hs
  exact ⟨h, fun b hb => h b (findItem_mem hb), fun b hb => h b (findItem_mem hb)⟩

/-- **C05, the best trial of the global phase is strictly inside.**  In every reachable state of the
method (laws of the library functions, `1 < r`) the best trial exists, is one of the evaluated trials
(`C04_best`) and its point is strictly inside the box. -/
theorem C05_best_strictly_in_box (c : Solver.Config α) (hn : Ev.DimOK1 c.n)
    (hl : c.lower.length = c.n) (hu : c.upper.length = c.n)
    (hlt : ∀ i (h1 : i < c.lower.length) (h2 : i < c.upper.length), c.lower[i] < c.upper[i])
    (hL : FnsLaws α) (hr : 1 < c.r) {s : State α} {log : List (List α × α)}
    (h : Reach (Solver.mk c) s log) :
    ∃ b, findItem s.items s.best = some b ∧ (b.point, b.hv) ∈ log ∧ StrictlyInBox c b.point := by
  obtain ⟨b, hb, -, -, -, hmem, -⟩ := C04_best (p := Solver.mk c) hL hr (by show 0 < c.n; exact hn.one_le) h
  exact ⟨b, hb, hmem, (C05_trials_in_box_reach c hn hl hu hlt h).1 _ hmem⟩

/-- **C05, after `DoLocalRefinement` under the Nelder–Mead contract.**  If the process holds the method
state `s` and `lr` satisfies `NM obj lower upper lr b.point` for the reported trial `b` (the trial with id
`reportedId ps s`, which is the method's best `s.best` when nothing was refined before), then after
`doLocalRefinement` that trial has point `lr.x`, inside the box; and if moreover the old record is faithful
(`b.hv = obj b.point`) it is still the reported trial. -/
theorem C05_refined_best_in_box (c : Solver.Config α) (ps : PState α) (s : State α) (lr : LocalResult α)
    (hm : ps.m = some s) (b : Item α) (hb : findItem s.items (reportedId ps s) = some b) (obj : List α → α)
    (hnm : NM obj c.lower c.upper lr b.point) :
    ∃ s' b', (doLocalRefinement ps lr).m = some s' ∧ findItem s'.items (reportedId ps s) = some b' ∧
      b'.point = lr.x ∧ InBox c.lower c.upper b'.point ∧
      (ps.refined = none → reportedId ps s = s.best) ∧
      (b.hv = obj b.point → reportedId (doLocalRefinement ps lr) s' = reportedId ps s) := by
  obtain ⟨s', hm', hs', -, -, -, -, -, -, -, -, -, -, -, -, -, -, -, -, hbest⟩ := C05_refine ps s lr hm
  refine ⟨s', _, hm', (hbest b hb).1, rfl, hnm.inside, fun h => reportedId_of_none s h, fun hfid => ?_⟩
  subst hs'
  exact reportedId_refine_of_le lr hm hb (by rw [hfid]; exact hnm.le_start)

/-! ## Non-vacuity (over ℝ with the real-number library functions) -/
section NonVacuity
attribute [local instance] Fns.real

/-- a two-dimensional configuration -/
noncomputable def exampleConfig : Solver.Config ℝ :=
  { n := 2, lower := [-1, 0], upper := [2, 3], eps := 1 / 100, r := 3, itersLimit := 50, evolventDensity := 4 }

/-- a one-dimensional configuration -/
noncomputable def exampleConfig1 : Solver.Config ℝ :=
  { n := 1, lower := [-1], upper := [2], eps := 1 / 100, r := 3, itersLimit := 50, evolventDensity := 10 }

theorem exampleConfig_lt : ∀ i (_ : i < exampleConfig.lower.length) (_ : i < exampleConfig.upper.length),
    exampleConfig.lower[i] < exampleConfig.upper[i] := by
  intro i h1 h2
  have : i = 0 ∨ i = 1 := by simp [exampleConfig] at h1; omega
  rcases this with rfl | rfl <;> norm_num [exampleConfig]

theorem exampleConfig1_lt : ∀ i (_ : i < exampleConfig1.lower.length) (_ : i < exampleConfig1.upper.length),
    exampleConfig1.lower[i] < exampleConfig1.upper[i] := by
  intro i h1 h2
  have : i = 0 := by simp [exampleConfig1] at h1; omega
  subst this; norm_num [exampleConfig1]

/-- `C05_trials_in_box` for one `Solve()` in dimension 2; at least one trial is made -/
example : (∀ e ∈ (runOps (Solver.mk exampleConfig) (fun _ pt => some pt.sum) (fun _ => none) [Op.solve] {}).evals,
      StrictlyInBox exampleConfig e.1) ∧
    (runOps (Solver.mk exampleConfig) (fun _ pt => some pt.sum) (fun _ => none) [Op.solve] {}).evals ≠ [] := by
  refine ⟨C05_trials_in_box exampleConfig (by show Ev.DimOK1 2; decide) rfl rfl
    exampleConfig_lt _ _ _, ?_⟩
  obtain ⟨K, -, hK, -, h1, -⟩ := C03.C03_stop_exact_field (Solver.mk exampleConfig) (fun _ pt => some pt.sum)
    (fun _ => none) FnsLaws.real (by norm_num [Solver.mk, exampleConfig]) (by norm_num [Solver.mk, exampleConfig])
    (by intro i pt; simp) (by norm_num [Solver.mk, exampleConfig])
  intro he
  have he' : (solve (Solver.mk exampleConfig) (fun _ pt => some pt.sum) (fun _ => none) {}).evals = [] := he
  rw [he'] at hK
  simp at hK
  omega

/-- the hypotheses of `C05_trials_in_box_reach` / `C05_best_strictly_in_box` are satisfiable in
dimension 1: a reachable state with 6 trials -/
example : ∃ (s : State ℝ) (log : List (List ℝ × ℝ)),
    (Ev.DimOK1 exampleConfig1.n) ∧ FnsLaws ℝ ∧ 1 < exampleConfig1.r ∧
    Reach (Solver.mk exampleConfig1) s log ∧ log.length = 6 ∧
    ∃ b, findItem s.items s.best = some b ∧ (b.point, b.hv) ∈ log ∧ StrictlyInBox exampleConfig1 b.point := by
  have hr : (1 : ℝ) < (Solver.mk exampleConfig1).r := by norm_num [Solver.mk, exampleConfig1]
  have hn : 0 < (Solver.mk exampleConfig1).n := by norm_num [Solver.mk, exampleConfig1]
  obtain ⟨s, log, hre, hlen, -⟩ := exists_reach_obj (p := Solver.mk exampleConfig1) FnsLaws.real hr hn
    (fun pt => pt.sum) 5
  have h1 : Ev.DimOK1 exampleConfig1.n := by show Ev.DimOK1 1; decide
  exact ⟨s, log, h1, FnsLaws.real, hr, hre, hlen,
    C05_best_strictly_in_box exampleConfig1 h1 rfl rfl exampleConfig1_lt FnsLaws.real hr hre⟩

/-- the hypotheses of `C05_best_in_box` are satisfiable with a refinement that returns the box point
`(0, 1)` -/
example : ∀ s, (runOps (Solver.mk exampleConfig) (fun _ pt => some pt.sum)
      (fun _ => some { x := [0, 1], fx := 1, nfev := 3 }) [Op.iter 3, Op.solve] {}).m = some s →
    ∀ b, findItem s.items s.best = some b → InBox exampleConfig.lower exampleConfig.upper b.point := by
  intro s hs
  refine (C05_best_in_box exampleConfig (by show Ev.DimOK1 2; decide) rfl rfl
    exampleConfig_lt _ _ ?_ _ s hs).2.1
  intro ps lr hlr
  simp only [Option.some.injEq] at hlr
  subst hlr
  refine ⟨rfl, rfl, ?_⟩
  intro i l u v h1 h2 h3
  match i with
  | 0 =>
    simp [exampleConfig] at h1 h2 h3
    subst h1 h2 h3
    constructor <;> norm_num
  | 1 =>
    simp [exampleConfig] at h1 h2 h3
    subst h1 h2 h3
    constructor <;> norm_num
  | i + 2 => simp [exampleConfig] at h1

end NonVacuity
end C05
