import IOptProofs.ProcessMin
import IOptProofs.ProcessToy
import Mathlib.Algebra.Order.Ring.Unbundled.Rat
/-!
# C03 — termination and budget of `Solve`

"Solve always terminates; the number of objective evaluations made by the global search equals the
reported number of global trials and never exceeds itersLimit (>=1). The search stops immediately
after the first iteration that subdivides an interval of Hoelder length below eps, or when the budget
is exhausted - never earlier, never later - and the reported accuracy equals the smallest Hoelder
length of any interval that was subdivided."

All statements are about the model `Proc.solve` / `Proc.solveLoop` / `Proc.doGlobalIteration`
(`IOptModel/Process.lean`), generic in the numeric type; the two statements that speak of a *minimum*
are in addition given over a linear order.  `({} : PState α)` is a freshly constructed solver.
-/

set_option linter.unusedSectionVars false

namespace C03
open AGP AGP.Ctl Proc

section generic
variable {α : Type} [Add α] [Sub α] [Mul α] [Div α] [Neg α] [LT α] [LE α]
  [DecidableLT α] [DecidableLE α] [OfNat α 0] [OfNat α 1] [OfNat α 2] [OfNat α 4] [Fns α]

/-- **C03, termination.**  From any state, the `while` loop of `Solve` gives the same result for every
fuel `≥ itersLimit + 1` (the amount `solve` uses), and that result either satisfies the stop criterion
or was ended by an exception: the loop never ends because the fuel ran out.  (No assumption on
`itersLimit` or on the state is needed.) -/
theorem C03_fuel_suffices (p : Params α) (f : Nat → List α → Option α) (ps : PState α) (fuel : Nat)
    (hfuel : p.itersLimit + 1 ≤ fuel) :
    solveLoop p f fuel ps = solveLoop p f (p.itersLimit + 1) ps ∧
    ((solveLoop p f fuel ps).2 = true ∨ stopNow p (solveLoop p f fuel ps).1 = true) := by
  have h1 : remaining p ps < fuel := Nat.lt_of_lt_of_le (Nat.lt_succ_of_le (remaining_le p ps)) hfuel
  have h2 : remaining p ps < p.itersLimit + 1 := Nat.lt_succ_of_le (remaining_le p ps)
  exact ⟨solveLoop_fuel p f fuel _ ps h1 h2, solveLoop_end p f fuel ps h1⟩

/-- **C03, the termination measure.**  Whenever the loop condition lets a pass start and the pass does
not raise, `itersLimit - iterationsCount` strictly decreases. -/
theorem C03_measure_decreases (p : Params α) (f : Nat → List α → Option α) (ps ps' : PState α) (id : Nat)
    (hs : stopNow p ps = false) (h : oneIteration p f ps = .ok (ps', id)) :
    p.itersLimit - ps'.iters < p.itersLimit - ps.iters := by
  have := remaining_step hs h
  unfold remaining at this; omega

/-- **C03, trials = evaluations (any sequence of operations).**  After any sequence of `DoGlobalIteration(k)` /
`Solve` calls on a fresh solver: the reported number of global trials equals the number of recorded
(successful) evaluations and the iteration count; the number of calls of the objective is that number
plus the number of calls that raised (`failedCalls`: one for every operation that was ended by the
objective raising); for an objective that never raises the three numbers coincide. -/
theorem C03_trials_eq_evals_ops (p : Params α) (f : Nat → List α → Option α) (refine : PState α → Option (LocalResult α))
    (ops : List Op) :
    (runOps p f refine ops {}).nTrials = (runOps p f refine ops {}).evals.length ∧
    (runOps p f refine ops {}).iters = (runOps p f refine ops {}).nTrials ∧
    (runOps p f refine ops {}).calls = (runOps p f refine ops {}).evals.length + failedCalls p f refine ops {} ∧
    ((∀ j pt, f j pt ≠ none) → (runOps p f refine ops {}).calls = (runOps p f refine ops {}).nTrials) := by
  obtain ⟨hc, h⟩ := (Consistent.fresh (α := α)).runOps_pres (p := p) (f := f) (refine := refine) ops
  have h' : (runOps p f refine ops {}).calls =
      (runOps p f refine ops {}).evals.length + failedCalls p f refine ops {} := by
    have h0 : ({} : PState α).calls = 0 := rfl
    have h1 : ({} : PState α).evals.length = 0 := rfl
    omega
  refine ⟨hc.trials, hc.iters, h', fun hf => ?_⟩
  rw [h', failedCalls_total hf Consistent.fresh, hc.trials]; rfl

/-- **C03, trials = evaluations, and the budget (one `Solve` on a fresh solver).**
`numberOfGlobalTrials = iterationsCount =` number of recorded evaluations `≤ itersLimit`
(hence `≤ max itersLimit 1`); the `i`-th record is the value the objective returned at its `i`-th call;
the number of calls is the number of records plus one if the loop was ended by the objective raising
(then that last call is the one that raised), plus zero otherwise. -/
theorem C03_trials_eq_evals (p : Params α) (f : Nat → List α → Option α) (refine : PState α → Option (LocalResult α)) :
    (solve p f refine {}).nTrials = (solve p f refine {}).evals.length ∧
    (solve p f refine {}).iters = (solve p f refine {}).nTrials ∧
    (solve p f refine {}).nTrials ≤ p.itersLimit ∧
    (solve p f refine {}).nTrials ≤ max p.itersLimit 1 ∧
    (∀ i pt z, (solve p f refine {}).evals[i]? = some (pt, z) → f i pt = some z) ∧
    (solve p f refine {}).calls =
      (solve p f refine {}).evals.length + isObjective (solveRaise p f (p.itersLimit + 1) {}) ∧
    (isObjective (solveRaise p f (p.itersLimit + 1) {}) = 1 →
      ∃ pt, f (solve p f refine {}).evals.length pt = none) ∧
    ((∀ j pt, f j pt ≠ none) → (solve p f refine {}).calls = (solve p f refine {}).nTrials) := by
  obtain ⟨hc, h2, h3, h4, -⟩ := (Consistent.fresh (α := α)).solve_pres (p := p) (f := f) (refine := refine)
  have h0 : ({} : PState α).calls = 0 := rfl
  have h1 : ({} : PState α).evals.length = 0 := rfl
  have h5 : ({} : PState α).nTrials = 0 := rfl
  have hcalls : (solve p f refine {}).calls =
      (solve p f refine {}).evals.length + isObjective (solveRaise p f (p.itersLimit + 1) {}) := by omega
  have hgen : ∀ i pt z, (solve p f refine {}).evals[i]? = some (pt, z) → f i pt = some z := by
    have hfuel : remaining p ({} : PState α) < p.itersLimit + 1 := Nat.lt_succ_of_le (remaining_le p _)
    have he : (solve p f refine {}).evals = (solveLoop p f (p.itersLimit + 1) {}).1.evals := by
      rw [solve_eq]; exact (refineStep_fields (p := p) refine _).2.1
    rw [he]
    obtain ⟨K, psK, ids, hpre, hcase⟩ := solveLoop_spec p f (p.itersLimit + 1) {} hfuel
    obtain ⟨-, -, new, hnew, -, hg⟩ := iterN_ids_evals hpre.run
    have hev : (solveLoop p f (p.itersLimit + 1) ({} : PState α)).1.evals = new := by
      rcases hcase with ⟨-, -, ps', hsl, hc', -⟩ | ⟨-, pe, e, ps', herr, -, hsl, hc', -⟩
      · rw [hsl]; simp only []; rw [(PState.core_eq_iff.1 hc').2.1, hnew]; rfl
      · rw [hsl]; simp only []; rw [(PState.core_eq_iff.1 hc').2.1, (oneIteration_error herr).1, hnew]; rfl
    rw [hev]
    intro i pt z hi
    have := hg i pt z hi
    rwa [h0, Nat.zero_add] at this
  refine ⟨hc.trials, hc.iters, ?_, ?_, hgen, hcalls, ?_, fun hf => ?_⟩
  · rw [h5] at h4; simpa using h4
  · rw [h5] at h4; have : (solve p f refine {}).nTrials ≤ p.itersLimit := by simpa using h4
    exact Nat.le_trans this (Nat.le_max_left _ _)
  · intro h; obtain ⟨pt, hpt⟩ := h3 h
    refine ⟨pt, ?_⟩
    have : (solve p f refine {}).calls - 1 = (solve p f refine {}).evals.length := by omega
    rwa [this] at hpt
  · have := opRaise_total (p := p) hf (Consistent.fresh (α := α)) Op.solve
    simp only [opRaise] at this
    rw [hcalls, this, hc.trials]; rfl

/-- `δ_k`: the Hölder length `old.delta` of the interval subdivided by iteration `k` (`k ≥ 2`) of the run
from a fresh solver (`none` for `k ≤ 1`, or if the run does not get that far) -/
def delta (p : Params α) (f : Nat → List α → Option α) (k : Nat) : Option α := deltaAt p f {} (k - 1)

/-- **C03, the stop rule is exact (generic form).**  If nothing raises, `Solve` on a fresh solver performs
exactly `K` iterations, where `K` is the first index at which the criterion
"`min_delta < eps` or `itersLimit ≤ K`" holds along the canonical sequence: it holds after `K` iterations
and after no smaller number (so the loop stopped neither earlier nor later); `min_delta` is the running
Python-`min` (`foldMin`) of the lengths selected so far. -/
theorem C03_stop_exact_generic (p : Params α) (f : Nat → List α → Option α) (refine : PState α → Option (LocalResult α))
    (hnr : (solveLoop p f (p.itersLimit + 1) {}).2 = false) :
    ∃ K psK ids, iterN p f K {} = .ok (psK, ids) ∧
      (solve p f refine {}).nTrials = K ∧ (solve p f refine {}).evals = psK.evals ∧
      (solve p f refine {}).minDelta = foldMin none (deltas p f {} K) ∧
      stopNow p (solve p f refine {}) = true ∧
      Crit p f {} K ∧ ∀ j, j < K → ¬ Crit p f {} j := by
  have hfuel : remaining p ({} : PState α) < p.itersLimit + 1 := Nat.lt_succ_of_le (remaining_le p _)
  obtain ⟨K, psK, ids, hrun, heq, hcrit, hmin⟩ := solveLoop_stop_exact hfuel hnr
  obtain ⟨-, r2, -, -, r5, -, r7, r8, -⟩ := refineStep_fields (p := p) refine (solveLoop p f (p.itersLimit + 1) {}).1
  obtain ⟨-, c2, -, -, -, -, c7⟩ := iterN_counters hrun
  refine ⟨K, psK, ids, hrun, ?_, ?_, ?_, ?_, hcrit, hmin⟩
  · rw [solve_eq]; show (refineStep refine _).nTrials = K
    rw [r5, heq]; show psK.nTrials = K
    rw [c2]; exact Nat.zero_add K
  · rw [solve_eq]; show (refineStep refine _).evals = _
    rw [r2, heq]; rfl
  · rw [solve_eq]; show (refineStep refine _).minDelta = _
    rw [r7, heq]; show psK.minDelta = _
    rw [c7]; rfl
  · rw [solve_eq]; show stopNow p (refineStep refine _) = true
    rw [r8, heq]; show stopNow p psK = true
    exact (stopNow_iff_crit hrun).2 hcrit

/-- **C03, the criterion in terms of the reported quantities.**  In the state after `j` iterations of the canonical sequence
from a fresh solver, `CheckStopCondition` is `min_delta < eps ∨ itersLimit ≤ iterationsCount`, with `iterationsCount = j` and
`min_delta` the running Python-`min` of the lengths selected so far (`none` = `inf` before the second iteration). -/
theorem C03_criterion (p : Params α) (f : Nat → List α → Option α) (j : Nat) (psj : PState α) (ids : List Nat)
    (h : iterN p f j {} = .ok (psj, ids)) :
    (stopNow p psj = true ↔ (∃ d, psj.minDelta = some d ∧ d < p.eps) ∨ p.itersLimit ≤ psj.iters) ∧
    psj.iters = j ∧ psj.nTrials = j ∧ psj.minDelta = foldMin none (deltas p f {} j) := by
  obtain ⟨c1, c2, -, -, -, -, c7⟩ := iterN_counters h
  exact ⟨stopNow_iff p psj, by rw [c1]; exact Nat.zero_add j, by rw [c2]; exact Nat.zero_add j, c7⟩

end generic

section linear
variable {α : Type} [Add α] [Sub α] [Mul α] [Div α] [Neg α] [LinearOrder α]
  [OfNat α 0] [OfNat α 1] [OfNat α 2] [OfNat α 4] [Fns α]

/-- over a linear order the criterion reads: some selected length so far is below `eps`, or the budget is used up -/
theorem crit_fresh_iff (p : Params α) (f : Nat → List α → Option α) (j : Nat) :
    Crit p f {} j ↔ (∃ i d, i < j ∧ deltaAt p f {} i = some d ∧ d < p.eps) ∨ p.itersLimit ≤ j := by
  unfold Crit
  have h0 : ({} : PState α).iters = 0 := rfl
  have h1 : ({} : PState α).minDelta = none := rfl
  rw [h0, h1, Nat.zero_add, foldMin_lt_iff]
  constructor
  · rintro ((⟨a, ha, -⟩ | ⟨d, hd, hlt⟩) | h)
    · cases ha
    · obtain ⟨i, hi, hd⟩ := mem_deltas.1 hd
      exact .inl ⟨i, d, hi, hd, hlt⟩
    · exact .inr h
  · rintro (⟨i, d, hi, hd, hlt⟩ | h)
    · exact .inl (.inr ⟨d, mem_deltas.2 ⟨i, hi, hd⟩, hlt⟩)
    · exact .inr h

/-- **C03, the stop rule is exact.**  If nothing raises and `itersLimit ≥ 1`, `Solve` on a fresh solver
performs exactly `K` iterations with `1 ≤ K ≤ itersLimit`, where `K` is the least `k ≥ 2` with
`δ_k < eps`, capped by `itersLimit`: either `K = itersLimit` or `δ_K < eps`; `δ_k ≥ eps` (i.e. not `< eps`)
for all `2 ≤ k < K`; and the criterion holds in the final state.  (`δ_k` = `delta p f k` is the Hölder
length of the interval subdivided by iteration `k`.) -/
theorem C03_stop_exact (p : Params α) (f : Nat → List α → Option α) (refine : PState α → Option (LocalResult α))
    (hL : 1 ≤ p.itersLimit) (hnr : (solveLoop p f (p.itersLimit + 1) {}).2 = false) :
    ∃ K, (solve p f refine {}).nTrials = K ∧ (solve p f refine {}).evals.length = K ∧
      1 ≤ K ∧ K ≤ p.itersLimit ∧
      (K = p.itersLimit ∨ ∃ d, delta p f K = some d ∧ d < p.eps) ∧
      (∀ k d, k < K → delta p f k = some d → ¬ d < p.eps) ∧
      stopNow p (solve p f refine {}) = true := by
  obtain ⟨K, psK, ids, hrun, hn, he, -, hst, hcrit, hmin⟩ := C03_stop_exact_generic p f refine hnr
  have hlen : psK.evals.length = K := by
    have := (iterN_counters hrun).2.2.2.1
    rw [this]; exact Nat.zero_add K
  have hK1 : 1 ≤ K := by
    rcases Nat.eq_zero_or_pos K with rfl | h
    · rw [crit_fresh_iff] at hcrit
      rcases hcrit with ⟨i, d, hi, -⟩ | h
      · omega
      · omega
    · exact h
  have hKL : K ≤ p.itersLimit := by
    rcases Nat.lt_or_ge p.itersLimit K with h | h
    · exact absurd ((crit_fresh_iff p f _).2 (.inr (Nat.le_refl _))) (hmin _ h)
    · exact h
  have hbefore : ∀ k d, k < K → delta p f k = some d → ¬ d < p.eps := by
    intro k d hk hd hlt
    rcases Nat.eq_zero_or_pos k with rfl | hk0
    · have : delta p f 0 = none := deltaAt_fresh_zero p f
      rw [this] at hd; cases hd
    · exact hmin k hk ((crit_fresh_iff p f k).2 (.inl ⟨k - 1, d, by omega, hd, hlt⟩))
  refine ⟨K, hn, by rw [he, hlen], hK1, hKL, ?_, hbefore, hst⟩
  rcases (crit_fresh_iff p f K).1 hcrit with ⟨i, d, hi, hd, hlt⟩ | h
  · rcases Nat.lt_or_ge (i + 1) K with h' | h'
    · exact absurd hlt (hbefore (i + 1) d h' (by simpa [delta] using hd))
    · right
      have : i = K - 1 := by omega
      subst this
      exact ⟨d, hd, hlt⟩
  · left; omega

/-- **C03, the reported accuracy is the smallest subdivided length.**  If nothing raises, the final
`solutionAccuracy` (`min_delta`) after `Solve` on a fresh solver is `none` (= `inf`) when only the first
iteration ran, and otherwise is one of the lengths `δ_2, …, δ_K` of the subdivided intervals and is `≤` each of them;
the list `deltas p f {} K` is exactly `δ_2, …, δ_K` (one entry per iteration after the first). -/
theorem C03_accuracy_is_min (p : Params α) (f : Nat → List α → Option α) (refine : PState α → Option (LocalResult α))
    (hnr : (solveLoop p f (p.itersLimit + 1) {}).2 = false) :
    ∃ K, (solve p f refine {}).nTrials = K ∧
      (∀ d, d ∈ deltas p f {} K ↔ ∃ k, 2 ≤ k ∧ k ≤ K ∧ delta p f k = some d) ∧
      (∀ k, 2 ≤ k → k ≤ K → ∃ d, delta p f k = some d) ∧
      (K ≤ 1 → (solve p f refine {}).minDelta = none) ∧
      (2 ≤ K → ∃ m, (solve p f refine {}).minDelta = some m ∧ m ∈ deltas p f {} K ∧ ∀ d ∈ deltas p f {} K, m ≤ d) := by
  obtain ⟨K, psK, ids, hrun, hn, -, hmd, -, -, -⟩ := C03_stop_exact_generic p f refine hnr
  have hmem : ∀ d, d ∈ deltas p f {} K ↔ ∃ k, 2 ≤ k ∧ k ≤ K ∧ delta p f k = some d := by
    intro d
    rw [mem_deltas]
    constructor
    · rintro ⟨i, hi, hd⟩
      rcases Nat.eq_zero_or_pos i with rfl | h0
      · rw [deltaAt_fresh_zero] at hd; cases hd
      · exact ⟨i + 1, by omega, by omega, by simpa [delta] using hd⟩
    · rintro ⟨k, h2, hk, hd⟩
      exact ⟨k - 1, by omega, hd⟩
  have hdef : ∀ k, 2 ≤ k → k ≤ K → ∃ d, delta p f k = some d := by
    intro k h2 hk
    -- split the run at `k - 1`
    have hsplit : K = (k - 1) + (K - (k - 1)) := by omega
    rw [hsplit, iterN_add] at hrun
    split at hrun
    · cases hrun
    · next ps1 ids1 h1 =>
      have hm1 : ps1.m ≠ none := by
        have hk1 : k - 1 = (k - 2) + 1 := by omega
        rw [hk1, iterN_succ'] at h1
        split at h1
        · cases h1
        · next psa idsa ha =>
          split at h1
          · cases h1
          · next psb idb hb => cases h1; exact (oneIteration_ok_counters hb).1
      have hK2 : K - (k - 1) = (K - k) + 1 := by omega
      rw [hK2, iterN] at hrun
      cases ho : oneIteration p f ps1 with
      | error x => rw [ho] at hrun; cases hrun
      | ok x => exact deltaAt_isSome h1 hm1 ho
  refine ⟨K, hn, hmem, hdef, ?_, ?_⟩
  · intro hK
    rw [hmd]
    have : deltas p f ({} : PState α) K = [] := by
      rcases foldMin_spec (none : Option α) (deltas p f {} K) with ⟨-, h, -⟩ | ⟨m, -, -, -, h3⟩
      · exact h
      · rcases h3 with h3 | h3
        · obtain ⟨k, h2, hk, -⟩ := (hmem m).1 h3; omega
        · cases h3
    rw [this]; rfl
  · intro hK
    rw [hmd]
    rcases foldMin_spec (none : Option α) (deltas p f {} K) with ⟨-, h, -⟩ | ⟨m, hm, h1, -, h3⟩
    · obtain ⟨d, hd⟩ := hdef 2 (Nat.le_refl _) hK
      have := (hmem d).2 ⟨2, Nat.le_refl _, hK, hd⟩
      rw [h] at this; cases this
    · rcases h3 with h3 | h3
      · exact ⟨m, hm, h3, h1⟩
      · cases h3

end linear

/-! ### non-vacuity: a concrete run (dimension 1, `α = Rat`, objective `(x - 1/3)^2`) -/
section examples
open ProcToy

/-- a run stopped by the accuracy criterion after 12 of at most 50 iterations, nothing raises -/
example : (solveLoop (P 50 (1/10)) F 51 {}).2 = false ∧ 1 ≤ (P 50 (1/10)).itersLimit ∧
    (solve (P 50 (1/10)) F noRefine {}).nTrials = 12 ∧ (solve (P 50 (1/10)) F noRefine {}).calls = 12 := by
  decide +kernel

/-- a run stopped by the budget (5 iterations), nothing raises -/
example : (solveLoop (P 5 (1/100)) F 6 {}).2 = false ∧ (solve (P 5 (1/100)) F noRefine {}).nTrials = 5 := by
  decide +kernel

/-- a run in which the objective raises at its 4th call: 3 trials, 4 calls -/
example : isObjective (solveRaise (P 5 (1/100)) (failAt 3) 6 {}) = 1 ∧
    (solve (P 5 (1/100)) (failAt 3) noRefine {}).nTrials = 3 ∧
    (solve (P 5 (1/100)) (failAt 3) noRefine {}).calls = 4 := by
  decide +kernel

/-- a pass that the loop condition lets start and that does not raise -/
example : stopNow (P 5 (1/100)) ({} : PState Rat) = false ∧
    ∃ ps' id, oneIteration (P 5 (1/100)) F {} = .ok (ps', id) := by
  refine ⟨by decide +kernel, _, _, rfl⟩

/-- the two linear-order theorems instantiated at this run (hypotheses discharged by kernel evaluation) -/
example : ∃ K, (solve (P 50 (1/10)) F noRefine {}).nTrials = K ∧ (solve (P 50 (1/10)) F noRefine {}).evals.length = K ∧
    1 ≤ K ∧ K ≤ (P 50 (1/10)).itersLimit ∧
    (K = (P 50 (1/10)).itersLimit ∨ ∃ d, delta (P 50 (1/10)) F K = some d ∧ d < (P 50 (1/10)).eps) ∧
    (∀ k d, k < K → delta (P 50 (1/10)) F k = some d → ¬ d < (P 50 (1/10)).eps) ∧
    stopNow (P 50 (1/10)) (solve (P 50 (1/10)) F noRefine {}) = true :=
  C03_stop_exact (P 50 (1/10)) F noRefine (by decide) (by decide +kernel)

example := C03_accuracy_is_min (P 50 (1/10)) F noRefine (by decide +kernel)

/-- the reported accuracy of that run -/
example : (solve (P 50 (1/10)) F noRefine {}).minDelta = some (2875/49152) := by decide +kernel

end examples

end C03
