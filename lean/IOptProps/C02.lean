import IOptProofs.MethodFacts
/-!
# C02 — the decision rule of the AGP iteration

"The first trial is the evolvent image of x=0.5; every later trial subdivides an interval of the
current partition of [0,1] whose characteristic is maximal, where for neighbours with values z_l,z_r
and Hoelder length D=(x_r-x_l)^(1/N) the characteristic is D+(z_r-z_l)^2/(r^2 M^2 D)-2(z_r+z_l-2z*)/(rM)
(2D-4(z-z*)/(rM) for the two boundary intervals whose outer ends 0 and 1 are never evaluated), z* is
the best value so far and M is the largest |z_r-z_l|/D over every neighbouring pair seen so far,
floored at 1. The new point is (x_l+x_r)/2 - sign(z_r-z_l)*(|z_r-z_l|/M)^N/(2r) (the midpoint for
boundary intervals), hence strictly inside the chosen interval, and no curve point is evaluated twice."

The model is `IOptModel/Method.lean`; a run is `AGP.Run` / `AGP.Reach` (`IOptProofs/MethodRun.lean`):
`s₁ = firstIteration p z₁`, `s_{k+1} = commit p pr_k z_{k+1}` with `prepare p s_k = .ok pr_k`, the
values `z_k` being arbitrary.  `AGP.Inv` is the invariant (`IOptProofs/MethodDefs.lean`); every
reachable state satisfies it (`C02_reach_inv`).  `FnsLaws α` are the laws of `abs`, `pow`, root
(`IOptProofs/Laws.lean`), satisfied by the real-number functions (`FnsLaws.real`).
-/
set_option linter.unusedSectionVars false

namespace AGP
variable {α : Type} [Field α] [LinearOrder α] [IsStrictOrderedRing α] [Fns α]

/-! ## The specification-level formulas -/
namespace Spec

/-- Hoelder length `D = (x_r - x_l)^(1/N)` of the interval between the neighbours `a`, `b`. -/
def D (n : Nat) (a b : Item α) : α := Fns.root (b.x - a.x) n

/-- The characteristic of the interval between the neighbours `a` (left) and `b` (right), exactly as in
the statement of C02: `D + (z_r-z_l)²/(r² M² D) - 2 (z_r+z_l-2z*)/(r M)` for an interval with two
evaluated ends, `2D - 4 (z - z*)/(r M)` for a boundary interval (`z` the value at its evaluated end). -/
def R (n : Nat) (r M Z : α) (a b : Item α) : α :=
  if a.ev = true ∧ b.ev = true then
    D n a b + (b.z - a.z) ^ 2 / (r ^ 2 * M ^ 2 * D n a b) - 2 * (b.z + a.z - 2 * Z) / (r * M)
  else if b.ev = true then 2 * D n a b - 4 * (b.z - Z) / (r * M)
  else 2 * D n a b - 4 * (a.z - Z) / (r * M)

/-- the sign function -/
def sgn (d : α) : α := if 0 < d then 1 else if d < 0 then -1 else 0

/-- The point of the next trial in the interval between `a` and `b`:
`(x_l+x_r)/2 - sign(z_r-z_l) (|z_r-z_l|/M)^N/(2r)`, the midpoint for boundary intervals. -/
def newPoint (n : Nat) (r M : α) (a b : Item α) : α :=
  if a.ev = true ∧ b.ev = true then
    (a.x + b.x) / 2 - sgn (b.z - a.z) * (|b.z - a.z| / M) ^ n / (2 * r)
  else (a.x + b.x) / 2

end Spec

/-- `Method.CalculateGlobalR` computes the characteristic of the statement (for neighbours that are not
both unevaluated, which never happens: `InvItems.nb_ev`), when the stored length is the Hoelder length. -/
theorem calcR_eq_spec (n : Nat) (r M Z : α) (a b : Item α) (hd : b.delta = Fns.root (b.x - a.x) n)
    (hev : a.ev = true ∨ b.ev = true) : calcR r M Z a b = Spec.R n r M Z a b := by
  unfold calcR Spec.R Spec.D
  rw [← hd]
  cases ha : a.ev <;> cases hb : b.ev
  · rw [ha, hb] at hev; simp at hev
  · simp
  · simp
  · simp only [beq_self_eq_true, if_true, and_self]
    ring

/-- the characteristic does not depend on the characteristics stored in the items -/
theorem Spec.R_congr (n : Nat) (r M Z : α) {a a' b b' : Item α} (ha : eraseR a' = eraseR a)
    (hb : eraseR b' = eraseR b) : Spec.R n r M Z a' b' = Spec.R n r M Z a b := by
  show Spec.R n r M Z (eraseR a') (eraseR b') = Spec.R n r M Z (eraseR a) (eraseR b)
  rw [ha, hb]

section
variable {p : Params α} {s : State α}

/-- Every reachable state satisfies the invariant. -/
theorem C02_reach_inv (hL : FnsLaws α) (hr : 1 < p.r) (hn : 0 < p.n) {log : List (List α × α)}
    (h : Reach p s log) : Inv p s := h.inv hL hr hn

/-- **C02, first trial.** The first trial is the image of `x = 1/2`; in every reachable state the
search information is `left :: mid ++ [right]` where the end items `left` (at 0) and `right` (at 1)
are not evaluated and every other item is. -/
theorem C02_first_trial (hL : FnsLaws α) (hr : 1 < p.r) (hn : 0 < p.n) :
    firstPoint p = p.image (1 / 2) ∧
    ∀ s log, Reach p s log →
      ∃ left mid right, s.items = left :: mid ++ [right] ∧ left.x = 0 ∧ right.x = 1 ∧
        left.ev = false ∧ right.ev = false ∧ mid ≠ [] ∧ ∀ m ∈ mid, m.ev = true :=
  ⟨rfl, fun _ _ h => (h.inv hL hr hn).toInvItems.shape⟩

/-- **C02, the exceptions of `CalculateIterationPoint` are unreachable and the new point is strictly
inside the chosen interval.** Under the invariant `prepare` succeeds; `pr.left`, `pr.old` are
neighbouring items of the (recalculated) list `pr.s.items`, which is the list of `s` up to the
characteristics stored in the items. -/
theorem C02_prepare_ok (hL : FnsLaws α) (hr : 1 < p.r) (hn : 0 < p.n) (h : Inv p s) :
    ∃ pr, prepare p s = .ok pr ∧ Neighbours pr.s.items pr.left pr.old ∧
      pr.s.items.map eraseR = s.items.map eraseR ∧
      pr.left.x < pr.x ∧ pr.x < pr.old.x := by
  obtain ⟨pr, hp, hs⟩ := prepare_spec hL hr hn h
  exact ⟨pr, hp, hs.neighbours, hs.items_eq, hs.inside.1, hs.inside.2⟩

/-- **C02, the chosen interval has maximal characteristic.** For every neighbouring pair `(a, b)` of
items, its characteristic is at most that of the chosen pair `(pr.left, pr.old)`, all characteristics
being computed from the current `M` and `Z` (the queue is never stale when it is used). -/
theorem C02_selection_is_argmax (hL : FnsLaws α) (hr : 1 < p.r) (hn : 0 < p.n) (h : Inv p s)
    {pr : Prep α} (hp : prepare p s = .ok pr) :
    ∀ a b, Neighbours pr.s.items a b →
      Spec.R p.n p.r s.M s.Z a b ≤ Spec.R p.n p.r s.M s.Z pr.left pr.old := by
  have hs := prepare_spec' hL hr hn h hp
  have F := hs.inv.fresh hs.recalc_false
  have hR : ∀ a b, Neighbours pr.s.items a b → b.R = some (Spec.R p.n p.r s.M s.Z a b) := by
    intro a b hab
    have := isChain_iff_neighbours.1 F.chainR a b hab
    rw [this, calcR_eq_spec p.n _ _ _ a b (hs.inv.nb_delta hab) (hs.inv.nb_ev hab), hs.M_eq, hs.Z_eq]
  intro a b hab
  have h1 := hs.argmax b hab.mem_right
  rw [hR a b hab, hR _ _ hs.neighbours] at h1
  exact (keyLe_some_some _ _).1 h1

/-- The same with the neighbouring pairs taken in the list of `s` itself (which differs from
`pr.s.items` only in the characteristics stored in the items). -/
theorem C02_selection_is_argmax_items (hL : FnsLaws α) (hr : 1 < p.r) (hn : 0 < p.n) (h : Inv p s)
    {pr : Prep α} (hp : prepare p s = .ok pr) :
    ∀ a b, Neighbours s.items a b →
      Spec.R p.n p.r s.M s.Z a b ≤ Spec.R p.n p.r s.M s.Z pr.left pr.old := by
  intro a b hab
  have hs := prepare_spec' hL hr hn h hp
  obtain ⟨a', b', hab', ea, eb⟩ := neighbours_transfer hs.items_eq hab
  rw [← Spec.R_congr p.n p.r s.M s.Z ea eb]
  exact C02_selection_is_argmax hL hr hn h hp a' b' hab'

/-- **C02, the formula of the new point.** -/
theorem C02_new_point_formula (hL : FnsLaws α) (hr : 1 < p.r) (hn : 0 < p.n) (h : Inv p s)
    {pr : Prep α} (hp : prepare p s = .ok pr) :
    pr.x = Spec.newPoint p.n p.r s.M pr.left pr.old ∧ pr.point = p.image pr.x := by
  have hs := prepare_spec' hL hr hn h hp
  refine ⟨?_, hs.point_eq⟩
  rw [hs.x_eq, hs.M_eq]
  unfold nextX Spec.newPoint Spec.sgn
  have hmid : (half : α) * (pr.left.x + pr.old.x) = (pr.left.x + pr.old.x) / 2 := by unfold half; ring
  have hr0 : p.r ≠ 0 := (lt_trans one_pos hr).ne'
  cases ha : pr.left.ev <;> cases hb : pr.old.ev
  · have := hs.inv.nb_ev hs.neighbours
    rw [ha, hb] at this; simp at this
  · simp [hmid]
  · simp [hmid]
  · simp only [beq_self_eq_true, if_true, and_self, hL.powN_eq, hL.abs_eq, hmid]
    rcases lt_trichotomy (pr.old.z - pr.left.z) 0 with hlt | heq | hgt
    · rw [if_neg (not_lt.2 hlt.le), if_neg (not_lt.2 hlt.le), if_pos hlt]
      unfold half; field_simp; ring
    · rw [heq]
      simp only [lt_irrefl, if_false, abs_zero, zero_div, zero_pow (by omega : p.n ≠ 0)]
      unfold half; simp
    · rw [if_pos hgt, if_pos hgt]
      unfold half; field_simp

/-- **C02, no curve point is evaluated twice.** The new coordinate differs from the coordinate of every
stored item. -/
theorem C02_no_repeat (hL : FnsLaws α) (hr : 1 < p.r) (hn : 0 < p.n) (h : Inv p s)
    {pr : Prep α} (hp : prepare p s = .ok pr) : ∀ it ∈ s.items, it.x ≠ pr.x := by
  have hs := prepare_spec' hL hr hn h hp
  refine (forall_transfer (P := fun it => it.x ≠ pr.x) hs.items_eq (fun _ => Iff.rfl)).1 ?_
  obtain ⟨pre, post, e, _⟩ := hs.decomp
  have hpw := hs.inv.pairwise
  rw [e] at hpw ⊢
  rw [List.pairwise_append, List.pairwise_cons, List.pairwise_cons] at hpw
  have hob := hpw.2.1.2.1
  have hpre := hpw.2.2
  intro it hit
  rcases List.mem_append.1 hit with hm | hm
  · exact (lt_trans (hpre it hm pr.left (by simp)) hs.inside.1).ne
  · rcases List.mem_cons.1 hm with rfl | hm
    · exact hs.inside.1.ne
    · rcases List.mem_cons.1 hm with rfl | hm
      · exact hs.inside.2.ne'
      · exact (lt_trans hs.inside.2 (hob it hm)).ne'

/-- **C02, `M` is the largest slope seen so far, floored at 1.** Along any run (states `s :: hist`,
newest first): `M ≥ 1`, `M` dominates the slope `|z_r-z_l|/delta_r` of every neighbouring evaluated
pair of every state of the run so far, and `M` is `1` or equal to one of those slopes. -/
theorem C02_M_is_max_slope (hL : FnsLaws α) (hr : 1 < p.r) (hn : 0 < p.n) {hist : List (State α)}
    {log : List (List α × α)} (h : Run p (s :: hist) log) :
    1 ≤ s.M ∧
    (∀ s' ∈ s :: hist, ∀ a b, Neighbours s'.items a b → a.ev = true → b.ev = true →
      |b.z - a.z| / b.delta ≤ s.M) ∧
    (s.M = 1 ∨ ∃ s' ∈ s :: hist, ∃ a b, Neighbours s'.items a b ∧ a.ev = true ∧ b.ev = true ∧
      s.M = |b.z - a.z| / b.delta) :=
  h.M_hist hL hr hn

/-- **C02, `z*` is the best value so far.** `Z` is the minimum of all values in the evaluation log. -/
theorem C02_Z_is_min (hL : FnsLaws α) (hr : 1 < p.r) (hn : 0 < p.n) {log : List (List α × α)}
    (h : Reach p s log) : (∀ e ∈ log, s.Z ≤ e.2) ∧ ∃ e ∈ log, e.2 = s.Z := by
  have hI := h.inv hL hr hn
  have hl := h.logInv hL hr hn
  constructor
  · intro e he
    obtain ⟨it, hit, hev, rfl⟩ := mem_evalsOf.1 (hl.perm.mem_iff.2 he)
    exact hI.Z_le it hit hev
  · obtain ⟨bi, hbi, _, hbe, hz⟩ := hI.best
    exact ⟨(bi.point, bi.z), hl.perm.mem_iff.1 (mem_evalsOf.2 ⟨bi, hbi, hbe, rfl⟩), hz⟩

end
end AGP

/-! ## Non-vacuity

The hypotheses of the theorems above (`FnsLaws`, `1 < r`, `0 < n`, `Run`/`Reach`, `Inv`,
`prepare p s = .ok pr`) are simultaneously satisfiable: over ℝ with the real-number functions, `N = 1`,
`r = 2`, and objective values `z_k = (-1)^k · k` there is a run with 4 trials whose last state
satisfies the invariant and on which `prepare` succeeds. -/
section NonVacuity
attribute [local instance] Fns.real

/-- parameters of the example: `N = 1`, `r = 2`, identity evolvent -/
noncomputable def exampleParams : AGP.Params ℝ :=
  { n := 1, r := 2, eps := 1 / 100, itersLimit := 100, image := fun x => [x] }

example : ∃ (s : AGP.State ℝ) (hist : List (AGP.State ℝ)) (log : List (List ℝ × ℝ)) (pr : AGP.Prep ℝ),
    FnsLaws ℝ ∧ 1 < exampleParams.r ∧ 0 < exampleParams.n ∧
    AGP.Run exampleParams (s :: hist) log ∧ AGP.Reach exampleParams s log ∧
    log.map (·.2) = [0, -1, 2, -3] ∧ AGP.Inv exampleParams s ∧ AGP.prepare exampleParams s = .ok pr := by
  have hr : (1 : ℝ) < exampleParams.r := by norm_num [exampleParams]
  have hn : 0 < exampleParams.n := by norm_num [exampleParams]
  obtain ⟨s, log, hre, hlog⟩ :=
    AGP.exists_reach FnsLaws.real hr hn (fun k => (-1 : ℝ) ^ k * k) 3
  obtain ⟨pr, hp, _⟩ := AGP.C02_prepare_ok FnsLaws.real hr hn (hre.inv FnsLaws.real hr hn)
  obtain ⟨hist, hrun⟩ := hre
  refine ⟨s, hist, log, pr, FnsLaws.real, hr, hn, hrun, ⟨hist, hrun⟩, ?_, AGP.Reach.inv FnsLaws.real hr hn ⟨hist, hrun⟩, hp⟩
  rw [hlog]
  simp [List.range_succ]
  norm_num

end NonVacuity
