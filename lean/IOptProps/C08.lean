import IOptProofs.EvFwd
import IOptProofs.EvDimFacts
import IOptProps.C07
import Mathlib.Algebra.Order.Group.Abs
import Mathlib.Algebra.Order.Group.Int
/-!
# C08 (integer layer): the evolvent is continuous — adjacency, nesting, coordinate bound  (worker a1)

Statements about `Ev.cubeY n ds` (cube coordinates in units of `2^-(m+1)`, `m = ds.length`; one cell
width is `2` units) for every dimension `n` with `Ev.DimOK n` (`IOptProofs/EvDims.lean`: EVERY `n ≥ 2`) and
**every** density `m`.
`getI l i` is the model's coordinate accessor (`l.getD i 0`).
The analytic Hölder inequality over ℝ is not part of this file.
-/

namespace Ev

/-- **C08 (adjacent)**: consecutive subintervals (`indexOf n ds' = indexOf n ds + 1`, same density)
are mapped to face-adjacent cells: the centres differ in exactly one coordinate `c`, and there by
exactly `2` units = one cell width. -/
theorem C08_adjacent {n : Nat} (hn : Ev.DimOK n) {ds ds' : List Nat}
    (hd : validDigits n ds) (hd' : validDigits n ds') (hl : ds.length = ds'.length)
    (hi : indexOf n ds' = indexOf n ds + 1) :
    ∃ c, c < n ∧ (∀ i, i ≠ c → getI (cubeY n ds) i = getI (cubeY n ds') i) ∧
      |getI (cubeY n ds) c - getI (cubeY n ds') c| = 2 := by
  have F := evFacts_of_dimOK hn
  have hn0 : 0 < n := hn.pos
  obtain ⟨hlen, hY⟩ := cubeY_spec F hn0 hd
  obtain ⟨hlen', hY'⟩ := cubeY_spec F hn0 hd'
  obtain ⟨c, hc, h1, h2⟩ := Yc_adjacent F (validState_init hn0) hd hd' hl hi
  refine ⟨c, hc, fun i hic => ?_, ?_⟩
  · rcases Nat.lt_or_ge i n with hin | hin
    · rw [hY i hin, hY' i hin, h1 i hin hic]
    · rw [getI_of_le (by omega), getI_of_le (by omega)]
  · rw [hY c hc, hY' c hc, abs_eq (by omega)]; exact h2

/-- **C08 (nested)**: appending a digit `d` refines the cell: each coordinate becomes `2·Y + o`
with `o = ±1`, where `o` is the level-`(m+1)` offset vector — so the `2^n` children of a subinterval
lie inside the density-`m` cell of that subinterval. -/
theorem C08_nested {n : Nat} (hn : Ev.DimOK n) {ds : List Nat} {d : Nat}
    (hd : validDigits n (ds ++ [d])) :
    signVec n (step n (stateAfter n (St.init n) ds) d).2 ∧
    cubeY n (ds ++ [d]) =
      List.zipWith (fun Y s => 2 * Y + s) (cubeY n ds)
        (step n (stateAfter n (St.init n) ds) d).2 := by
  have F := evFacts_of_dimOK hn
  have hn0 : 0 < n := hn.pos
  have hd1 : validDigits n ds := (validDigits_append.1 hd).1
  have hd2 : d < 2^n := (validDigits_append.1 hd).2 d (List.mem_singleton.2 rfl)
  have hs := stateAfter_valid F (validState_init hn0) hd1
  obtain ⟨_, ho⟩ := F.closed _ d hs hd2
  obtain ⟨hlen, hY⟩ := cubeY_spec F hn0 hd1
  obtain ⟨hlen', hY'⟩ := cubeY_spec F hn0 hd
  refine ⟨ho, ?_⟩
  apply ext_getI hlen' (by simp [List.length_zipWith, hlen, ho.1])
  intro i hi
  rw [hY' i hi, Yc_snoc, getI_zipWith (by omega) (by rw [ho.1]; exact hi), hY i hi]

/-- **C08 (nested, ∃-form)**: `cubeY n (ds ++ [d]) = 2·cubeY n ds + o` for some sign vector `o`. -/
theorem C08_nested_exists {n : Nat} (hn : Ev.DimOK n) {ds : List Nat} {d : Nat}
    (hd : validDigits n (ds ++ [d])) :
    ∃ o, signVec n o ∧ cubeY n (ds ++ [d]) = List.zipWith (fun Y s => 2 * Y + s) (cubeY n ds) o :=
  ⟨_, C08_nested hn hd⟩

/-- **C08 (nested, distinct children)**: the `2^n` children of a subinterval are mapped to `2^n`
different sub-cells. -/
theorem C08_children_distinct {n : Nat} (hn : Ev.DimOK n) {ds : List Nat} {d d' : Nat}
    (hd : validDigits n (ds ++ [d])) (hd' : validDigits n (ds ++ [d'])) (hne : d ≠ d') :
    cubeY n (ds ++ [d]) ≠ cubeY n (ds ++ [d']) := by
  intro h
  have := C07_injective hn hd hd' (by simp) h
  exact hne (by simpa using this)

/-- **C08 (coordinate bound)**: two subintervals of density `m` whose density-`p` ancestors
(`p ≤ m`; the first `p` digits) are equal or consecutive are mapped to cells whose centres differ by
less than `2·2^(m-p+1)` units in every coordinate, and by less than `2^(m-p+1)` units in all but at
most one coordinate `c`.  (In cube units `2^-(m+1)`: `< 2·2^-p` resp. `< 2^-p`.)
The statement does not need `p ≤ m` (for `p > m` it is the case `p = m`). -/
theorem C08_coord_bound {n : Nat} (hn : Ev.DimOK n) {ds ds' : List Nat}
    (hd : validDigits n ds) (hd' : validDigits n ds') (hl : ds.length = ds'.length) (p : Nat)
    (hidx : |(indexOf n (ds.take p) : Int) - (indexOf n (ds'.take p) : Int)| ≤ 1) :
    (∀ i, |getI (cubeY n ds) i - getI (cubeY n ds') i| < 2 * 2^(ds.length - p + 1)) ∧
    ∃ c, c < n ∧
      ∀ i, i ≠ c → |getI (cubeY n ds) i - getI (cubeY n ds') i| < 2^(ds.length - p + 1) := by
  have F := evFacts_of_dimOK hn
  have hn0 : 0 < n := hn.pos
  obtain ⟨hlen, hY⟩ := cubeY_spec F hn0 hd
  obtain ⟨hlen', hY'⟩ := cubeY_spec F hn0 hd'
  rw [abs_le] at hidx
  obtain ⟨c, hc, h1, h2⟩ := Yc_coord_bound F (validState_init hn0) hd hd' hl p (by omega)
  have hQ := two_pow_pos_int (ds.length - p)
  have small : ∀ i, i ≠ c →
      |getI (cubeY n ds) i - getI (cubeY n ds') i| < 2^(ds.length - p + 1) := by
    intro i hic
    rw [abs_lt, pow_succ]
    rcases Nat.lt_or_ge i n with hin | hin
    · rw [hY i hin, hY' i hin]
      have := h1 i hin hic
      omega
    · rw [getI_of_le (by omega), getI_of_le (by omega)]
      omega
  refine ⟨fun i => ?_, c, hc, small⟩
  by_cases hic : i = c
  · subst hic
    rw [abs_lt, pow_succ, hY i hc, hY' i hc]
    omega
  · have := small i hic
    have h0 : (0:Int) < 2^(ds.length - p + 1) := two_pow_pos_int _
    omega

/-! ### non-vacuity: `n = 3`, `m = 2` -/

/-- hypotheses of `C08_adjacent` on a pair that crosses a level-1 boundary: subintervals `47`, `48`,
digits `[5, 7]`, `[6, 0]`; the centres `(3,1,1)`, `(3,-1,1)` differ in coordinate `1` by `2`. -/
example : validDigits 3 [5, 7] ∧ validDigits 3 [6, 0] ∧ [5, 7].length = [6, 0].length ∧
    indexOf 3 [6, 0] = indexOf 3 [5, 7] + 1 ∧
    cubeY 3 [5, 7] = [3, 1, 1] ∧ cubeY 3 [6, 0] = [3, -1, 1] := by
  decide

/-- `C08_adjacent` applied to that pair -/
example : ∃ c, c < 3 ∧ (∀ i, i ≠ c → getI (cubeY 3 [5, 7]) i = getI (cubeY 3 [6, 0]) i) ∧
    |getI (cubeY 3 [5, 7]) c - getI (cubeY 3 [6, 0]) c| = 2 :=
  C08_adjacent (by decide) (by decide) (by decide) (by decide) (by decide)

/-- hypotheses of `C08_nested`/`C08_children_distinct`: `ds = [5]`, children `2` and `3`. -/
example : validDigits 3 ([5] ++ [2]) ∧ validDigits 3 ([5] ++ [3]) ∧ 2 ≠ 3 ∧
    cubeY 3 [5] = [1, 1, 1] ∧ cubeY 3 ([5] ++ [2]) = [1, 3, 3] := by
  decide

/-- hypotheses of `C08_coord_bound`: `ds = [5, 7]`, `ds' = [6, 3]`, `p = 1` (ancestors `5`, `6`). -/
example : validDigits 3 [5, 7] ∧ validDigits 3 [6, 3] ∧ [5, 7].length = [6, 3].length ∧
    |(indexOf 3 ([5, 7].take 1) : Int) - (indexOf 3 ([6, 3].take 1) : Int)| ≤ 1 := by
  decide

/-- `C08_coord_bound` applied to that pair (`m - p + 1 = 2`) -/
example : ∀ i, |getI (cubeY 3 [5, 7]) i - getI (cubeY 3 [6, 3]) i| < 2 * 2^2 :=
  (C08_coord_bound (by decide) (by decide) (by decide) (by decide) 1 (by decide)).1

end Ev
