import IOptProofs.HolderRoot
import IOptProofs.HolderEuc
import Mathlib.Tactic.NormNum
/-!
# C08 (analytic part): the evolvent is a Hölder curve  (worker h)

Statements over `ℝ` about the code's loop `Ev.imageCube n m x` (`__GetYonX`, point of the cube
`[-1/2,1/2]^n`) and `Ev.getImage n m lower upper x` (`GetImage`, point of the box), with `int(d)` =
natural floor (`Ev.Num.floorTrunc`), for every dimension `n` with `Ev.DimOK n` and **every** density `m`.
Vectors are coordinate lists; `Ev.sqDist a b = Σ (a_i - b_i)²`, `Ev.dist2 a b = √(sqDist a b)` is
the Euclidean distance; `Ev.maxSide lower upper = max_i (upper_i - lower_i)`.

The chain is: `C08_coord_bound` (integer layer, worker a1) + `C07_image_cell` (numeric link, worker
a2) ⟹ `C08_holder_sq` ⟹ `C08_holder_rootfree` ⟹ `C08_holder` (`Real.rpow`) ⟹ `C08_holder_box`.
-/

namespace Ev
attribute [local instance] Ev.Num.floorTrunc

/-- **C08 (Hölder, squared form)**: for `x', x'' ∈ [0,1]` with `|x' - x''| ≤ 2^(-p n)`, `p ≤ m`:
`‖y(x') - y(x'')‖₂² ≤ (n+3)·4^(-p)` — one coordinate moves by less than `2·2^-p`, the others by
less than `2^-p`. -/
theorem C08_holder_sq {n : Nat} (hn : Ev.DimOK n) {m p : Nat} (hp : p ≤ m) {x' x'' : ℝ}
    (h0' : 0 ≤ x') (h1' : x' ≤ 1) (h0'' : 0 ≤ x'') (h1'' : x'' ≤ 1)
    (hd : |x' - x''| ≤ 1 / ((2:ℝ)^n)^p) :
    sqDist (imageCube n m x') (imageCube n m x'') ≤ ((n:ℝ) + 3) / 4^p :=
  sqDist_imageCube_le hn hp h0' h1' h0'' h1'' hd

/-- non-vacuity of `C08_holder_sq`: `n = 2`, `m = 3`, `p = 1`, `x' = 1/3`, `x'' = 1/2`. -/
example : (Ev.DimOK 2) ∧ 1 ≤ 3 ∧ (0:ℝ) ≤ 1/3 ∧ (1/3:ℝ) ≤ 1 ∧ (0:ℝ) ≤ 1/2 ∧ (1/2:ℝ) ≤ 1 ∧
    |(1/3:ℝ) - 1/2| ≤ 1 / ((2:ℝ)^2)^1 := by
  refine ⟨by decide, by omega, ?_, ?_, ?_, ?_, ?_⟩ <;> norm_num

/-- **C08 (Hölder, root-free form)**: for `x', x'' ∈ [0,1]` with `2^(-n m) ≤ |x' - x''| ≤ t^n`:
`‖y(x') - y(x'')‖₂ ≤ 2·√(n+3)·t`. -/
theorem C08_holder_rootfree {n : Nat} (hn : Ev.DimOK n) (m : Nat) {x' x'' : ℝ}
    (h0' : 0 ≤ x') (h1' : x' ≤ 1) (h0'' : 0 ≤ x'') (h1'' : x'' ≤ 1)
    (hlow : 1 / ((2:ℝ)^n)^m ≤ |x' - x''|) {t : ℝ} (ht : 0 ≤ t) (hd : |x' - x''| ≤ t^n) :
    dist2 (imageCube n m x') (imageCube n m x'') ≤ 2 * Real.sqrt (n + 3) * t :=
  dist2_imageCube_le_of_pow hn m h0' h1' h0'' h1'' hlow ht hd

/-- **C08 (Hölder, all pairs, root-free)**: without the lower bound on `|x' - x''|` the inequality
holds with `max(t, 2^-(m+1))` in place of `t` (below the resolution `2^(-n m)` of the curve the
image moves by at most one cell in one coordinate and stays in the same or a neighbouring cell). -/
theorem C08_holder_rootfree_all {n : Nat} (hn : Ev.DimOK n) (m : Nat) {x' x'' : ℝ}
    (h0' : 0 ≤ x') (h1' : x' ≤ 1) (h0'' : 0 ≤ x'') (h1'' : x'' ≤ 1)
    {t : ℝ} (ht : 0 ≤ t) (hd : |x' - x''| ≤ t^n) :
    dist2 (imageCube n m x') (imageCube n m x'') ≤
      2 * Real.sqrt (n + 3) * max t (1 / 2^(m+1)) :=
  dist2_imageCube_le_max hn m h0' h1' h0'' h1'' ht hd

/-- **C08 (Hölder)** — the stated inequality on the unit cube: for `n ∈ {2,…,5}`, every `m`, all
`x', x'' ∈ [0,1]` with `|x' - x''| ≥ 2^(-n m)`:
`‖y(x') - y(x'')‖₂ ≤ 2·√(n+3)·|x' - x''|^(1/n)`. -/
theorem C08_holder {n : Nat} (hn : Ev.DimOK n) (m : Nat) {x' x'' : ℝ}
    (h0' : 0 ≤ x') (h1' : x' ≤ 1) (h0'' : 0 ≤ x'') (h1'' : x'' ≤ 1)
    (hlow : 1 / ((2:ℝ)^n)^m ≤ |x' - x''|) :
    dist2 (imageCube n m x') (imageCube n m x'') ≤
      2 * Real.sqrt (n + 3) * |x' - x''| ^ (1 / (n:ℝ)) :=
  C08_holder_rootfree hn m h0' h1' h0'' h1'' hlow (rpow_inv_nonneg n (abs_nonneg _))
    (le_of_eq (rpow_inv_pow hn.ne_zero (abs_nonneg _)).symm)

/-- **C08 (Hölder, all pairs)**: for all `x', x'' ∈ [0,1]`:
`‖y(x') - y(x'')‖₂ ≤ 2·√(n+3)·|x' - x''|^(1/n) + √(n+3)·2^-m`. -/
theorem C08_holder_all {n : Nat} (hn : Ev.DimOK n) (m : Nat) {x' x'' : ℝ}
    (h0' : 0 ≤ x') (h1' : x' ≤ 1) (h0'' : 0 ≤ x'') (h1'' : x'' ≤ 1) :
    dist2 (imageCube n m x') (imageCube n m x'') ≤
      2 * Real.sqrt (n + 3) * |x' - x''| ^ (1 / (n:ℝ)) + Real.sqrt (n + 3) / 2^m :=
  dist2_imageCube_le_add hn m h0' h1' h0'' h1'' (rpow_inv_nonneg n (abs_nonneg _))
    (le_of_eq (rpow_inv_pow hn.ne_zero (abs_nonneg _)).symm)

/-- **C08 (Hölder, box, any side bound)**: after the affine map to the box `[lower, upper]`, for
every `S ≥ |upper_i - lower_i|` (all `i`):
`‖GetImage x' - GetImage x''‖₂ ≤ 2·√(n+3)·|x' - x''|^(1/n)·S`. -/
theorem C08_holder_box_of_le {n : Nat} (hn : Ev.DimOK n) (m : Nat) (lower upper : List ℝ)
    (hl : lower.length = n) (hu : upper.length = n) {S : ℝ}
    (hS : ∀ i, i < n → |getR upper i - getR lower i| ≤ S) {x' x'' : ℝ}
    (h0' : 0 ≤ x') (h1' : x' ≤ 1) (h0'' : 0 ≤ x'') (h1'' : x'' ≤ 1)
    (hlow : 1 / ((2:ℝ)^n)^m ≤ |x' - x''|) :
    dist2 (getImage n m lower upper x') (getImage n m lower upper x'') ≤
      2 * Real.sqrt (n + 3) * |x' - x''| ^ (1 / (n:ℝ)) * S := by
  have hS0 : 0 ≤ S := le_trans (abs_nonneg _) (hS 0 hn.pos)
  unfold getImage
  calc _ ≤ S * dist2 (imageCube n m x') (imageCube n m x'') :=
        dist2_p2d_le hl hu (length_imageCube hn m h0' h1') (length_imageCube hn m h0'' h1'') hS0 hS
    _ ≤ S * (2 * Real.sqrt (n + 3) * |x' - x''| ^ (1 / (n:ℝ))) :=
        mul_le_mul_of_nonneg_left (C08_holder hn m h0' h1' h0'' h1'' hlow) hS0
    _ = _ := by ring

/-- **C08 (Hölder, box)** — the stated inequality: for a box `lower ≤ upper` (coordinatewise),
`n ∈ {2,…,5}`, every `m`, all `x', x'' ∈ [0,1]` with `|x' - x''| ≥ 2^(-n m)`:
`‖GetImage x' - GetImage x''‖₂ ≤ 2·√(n+3)·|x' - x''|^(1/n)·max_i (upper_i - lower_i)`. -/
theorem C08_holder_box {n : Nat} (hn : Ev.DimOK n) (m : Nat) (lower upper : List ℝ)
    (hl : lower.length = n) (hu : upper.length = n)
    (hle : ∀ i (h1 : i < lower.length) (h2 : i < upper.length), lower[i] ≤ upper[i])
    {x' x'' : ℝ} (h0' : 0 ≤ x') (h1' : x' ≤ 1) (h0'' : 0 ≤ x'') (h1'' : x'' ≤ 1)
    (hlow : 1 / ((2:ℝ)^n)^m ≤ |x' - x''|) :
    dist2 (getImage n m lower upper x') (getImage n m lower upper x'') ≤
      2 * Real.sqrt (n + 3) * |x' - x''| ^ (1 / (n:ℝ)) * maxSide lower upper := by
  apply C08_holder_box_of_le hn m lower upper hl hu _ h0' h1' h0'' h1'' hlow
  intro i hi
  have h1 : i < lower.length := hl ▸ hi
  have h2 : i < upper.length := hu ▸ hi
  rw [abs_of_nonneg]
  · exact le_maxSide h1 h2
  · rw [getR_eq_getElem h1, getR_eq_getElem h2]
    exact sub_nonneg.2 (hle i h1 h2)

/-- non-vacuity of `C08_holder`/`C08_holder_box`: `n = 2`, `m = 2`, the box `[-1,2] × [0,3]`,
`x' = 1/4`, `x'' = 3/4` (`|Δx| = 1/2 ≥ 1/16`). -/
example : (Ev.DimOK 2) ∧ [(-1:ℝ), 0].length = 2 ∧ [(2:ℝ), 3].length = 2 ∧
    (∀ i (_ : i < [(-1:ℝ), 0].length) (h2 : i < [(2:ℝ), 3].length), [(-1:ℝ), 0][i] ≤ [(2:ℝ), 3][i]) ∧
    (0:ℝ) ≤ 1/4 ∧ (1/4:ℝ) ≤ 1 ∧ (0:ℝ) ≤ 3/4 ∧ (3/4:ℝ) ≤ 1 ∧
    1 / ((2:ℝ)^2)^2 ≤ |(1/4:ℝ) - 3/4| := by
  refine ⟨by decide, rfl, rfl, ?_, ?_, ?_, ?_, ?_, ?_⟩
  · intro i h1 h2
    have : i = 0 ∨ i = 1 := by simp at h1; omega
    rcases this with rfl | rfl <;> norm_num
  all_goals norm_num

/-- `C08_holder_box` applied to that instance -/
example : dist2 (getImage 2 2 [(-1:ℝ), 0] [2, 3] (1/4)) (getImage 2 2 [(-1:ℝ), 0] [2, 3] (3/4)) ≤
    2 * Real.sqrt ((2:ℕ) + 3) * |(1/4:ℝ) - 3/4| ^ (1 / ((2:ℕ):ℝ)) * maxSide [(-1:ℝ), 0] [2, 3] :=
  C08_holder_box (n := 2) (by decide) 2 [(-1:ℝ), 0] [2, 3] rfl rfl
    (by intro i h1 h2
        have : i = 0 ∨ i = 1 := by simp at h1; omega
        rcases this with rfl | rfl <;> norm_num)
    (by norm_num) (by norm_num) (by norm_num) (by norm_num)
    (by rw [le_abs]; right; norm_num)

/-- **(norm)** `Ev.dist2` on coordinate lists of length `n` is the distance of Mathlib's
`EuclideanSpace ℝ (Fin n)` (`Ev.toEuc n a` is the point with coordinates `a`), so the statements
above are about the Euclidean norm. -/
theorem C08_dist2_euclidean {n : Nat} {a b : List ℝ} (ha : a.length = n) (hb : b.length = n) :
    dist2 a b = dist (toEuc n a) (toEuc n b) :=
  dist2_eq_dist ha hb

end Ev
