import IOptProofs.EvNum
import Mathlib.Data.Rat.Floor
import Mathlib.Tactic.NormNum
/-!
# C09: `GetInverseImage` inverts `GetImage` up to the subinterval grid (worker a2)

Field-level statements about the code's loops (`Ev.imageCube`, `Ev.inverseCube`, `Ev.p2d`,
`Ev.d2p`), with `int(d)` = natural floor (`Ev.Num.floorTrunc`).
-/

set_option linter.unusedSectionVars false
namespace Ev
variable {α : Type} [Field α] [LinearOrder α] [IsStrictOrderedRing α] [FloorSemiring α]
attribute [local instance] Ev.Num.floorTrunc

/-- **C09 (affine maps)**: `__TransformD2P` and `__TransformP2D` are mutually inverse when
`lower_i ≠ upper_i` for every `i` (all three lists of the same length). -/
theorem C09_affine_inverse (lower upper y : List α) (hl : lower.length = y.length)
    (hu : upper.length = y.length)
    (hne : ∀ i (h1 : i < lower.length) (h2 : i < upper.length), lower[i] ≠ upper[i]) :
    d2p lower upper (p2d lower upper y) = y ∧ p2d lower upper (d2p lower upper y) = y :=
  ⟨Num.d2p_p2d lower upper y hl hu hne, Num.p2d_d2p lower upper y hl hu hne⟩

/-- non-vacuity of `C09_affine_inverse` -/
example : d2p [(-1 : ℚ), 0] [2, 3] (p2d [(-1 : ℚ), 0] [2, 3] [1/8, -3/8]) = [1/8, -3/8] :=
  (C09_affine_inverse [(-1 : ℚ), 0] [2, 3] [1/8, -3/8] rfl rfl
    (by intro i h1 h2
        have : i = 0 ∨ i = 1 := by simp at h1; omega
        rcases this with rfl | rfl <;> norm_num)).1

/-! ### N = 1 (the affine branch `if self.numberOfFloatVariables == 1`) -/

/-- **C09 (N = 1)**: `__GetYonX` is `x ↦ x - 1/2`. -/
theorem C09_dim1_imageCube (m : Nat) (x : α) : imageCube 1 m x = [x - 1/2] := by
  simp [imageCube, Num.half_eq]

/-- **C09 (N = 1)**: `__GetXonY` is `y ↦ y + 1/2`. -/
theorem C09_dim1_inverseCube (m : Nat) (y : α) : inverseCube 1 m [y] = y + 1/2 := by
  simp [inverseCube, Num.half_eq]

/-- **C09 (N = 1)**: `GetInverseImage (GetImage x) = x` for a non-degenerate interval `[a, b]`. -/
theorem C09_dim1_inverse_image (m : Nat) (a b x : α) (hab : a ≠ b) :
    getInverseImage 1 m [a] [b] (getImage 1 m [a] [b] x) = x := by
  have h : b - a ≠ 0 := sub_ne_zero.2 hab.symm
  simp only [getInverseImage, getImage, imageCube, inverseCube, p2d, d2p, Num.half_eq,
    beq_self_eq_true, if_true, List.zip_cons_cons, List.zip_nil_right, List.zipWith_cons_cons,
    List.zipWith_nil_right, List.headD_cons]
  field_simp
  ring

/-- **C09 (N = 1)**: `GetImage (GetInverseImage [y]) = [y]` for a non-degenerate interval. -/
theorem C09_dim1_image_inverse (m : Nat) (a b y : α) (hab : a ≠ b) :
    getImage 1 m [a] [b] (getInverseImage 1 m [a] [b] [y]) = [y] := by
  have h : b - a ≠ 0 := sub_ne_zero.2 hab.symm
  simp only [getInverseImage, getImage, imageCube, inverseCube, p2d, d2p, Num.half_eq,
    beq_self_eq_true, if_true, List.zip_cons_cons, List.zip_nil_right, List.zipWith_cons_cons,
    List.zipWith_nil_right, List.headD_cons, List.cons.injEq, and_true]
  field_simp
  ring

/-- non-vacuity of the N = 1 statements -/
example : getInverseImage 1 10 [(-2 : ℚ)] [5] (getImage 1 10 [(-2 : ℚ)] [5] (3/7)) = 3/7 :=
  C09_dim1_inverse_image 10 (-2) 5 (3/7) (by norm_num)

end Ev
