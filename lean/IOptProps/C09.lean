import IOptProofs.EvNumAll
import Mathlib.Data.Rat.Floor
import Mathlib.Tactic.NormNum
/-!
# C09: `GetInverseImage` inverts `GetImage` up to the subinterval grid (worker a2)

Field-level statements about the code's loops (`Ev.imageCube`, `Ev.inverseCube`, `Ev.p2d`,
`Ev.d2p`), with `int(d)` = natural floor (`Ev.Num.floorTrunc`).
-/

set_option linter.unusedSectionVars false
namespace Ev
variable {α : Type} [Field α] [LinearOrder α] [IsStrictOrderedRing α] [FloorSemiring α]
attribute [local instance] Ev.Num.floorTrunc

/-- **C09 (affine maps)**: `__TransformD2P` and `__TransformP2D` are mutually inverse when
`lower_i ≠ upper_i` for every `i` (all three lists of the same length). -/
theorem C09_affine_inverse (lower upper y : List α) (hl : lower.length = y.length)
    (hu : upper.length = y.length)
    (hne : ∀ i (h1 : i < lower.length) (h2 : i < upper.length), lower[i] ≠ upper[i]) :
    d2p lower upper (p2d lower upper y) = y ∧ p2d lower upper (d2p lower upper y) = y :=
  ⟨Num.d2p_p2d lower upper y hl hu hne, Num.p2d_d2p lower upper y hl hu hne⟩

/-- non-vacuity of `C09_affine_inverse` -/
example : d2p [(-1 : ℚ), 0] [2, 3] (p2d [(-1 : ℚ), 0] [2, 3] [1/8, -3/8]) = [1/8, -3/8] :=
  (C09_affine_inverse [(-1 : ℚ), 0] [2, 3] [1/8, -3/8] rfl rfl
    (by intro i h1 h2
        have : i = 0 ∨ i = 1 := by simp at h1; omega
        rcases this with rfl | rfl <;> norm_num)).1

/-! ### `Ev.DimOK N`: the inverse map on cell centres -/

/-- **C09 (inverse of a centre)**: for a valid digit list `ds` (length `m`, base-`2^n` digits), the
centre of its cell, `y_i = (cubeY n ds)_i / 2^(m+1)`, is mapped by `__GetXonY` to
`indexOf n ds / (2^n)^m`, the left end of the subinterval with these digits. -/
theorem C09_inverse_of_centre {n : Nat} (hn : Ev.DimOK n) (ds : List Nat)
    (hd : validDigits n ds) :
    inverseCube n ds.length ((cubeY n ds).map fun (Y : Int) => (Y : α) / 2^(ds.length + 1)) =
      (indexOf n ds : α) / (2^n)^ds.length :=
  Num.inverseCube_centre hn ds hd

/-- non-vacuity of `C09_inverse_of_centre`: `n = 2`, digits `[1, 2]`, subinterval `6` of `16`. -/
example : inverseCube 2 2 ((cubeY 2 [1, 2]).map fun (Y : Int) => (Y : ℚ) / 2^(2 + 1)) = 6 / 16 := by
  have h := C09_inverse_of_centre (α := ℚ) (n := 2) (by decide) [1, 2] (by decide)
  simp only [List.length_cons, List.length_nil] at h
  rw [h]; norm_num [indexOf]

/-- **C09 (inverse of the image)**: for `0 ≤ x < 1`, `__GetXonY (__GetYonX x)` is `x` rounded
down to the subinterval grid: `⌊x·(2^n)^m⌋₊ / (2^n)^m`. -/
theorem C09_inverse_image {n : Nat} (hn : Ev.DimOK n) (m : Nat) (x : α) (h0 : 0 ≤ x)
    (h1 : x < 1) :
    inverseCube n m (imageCube n m x) = (⌊x * (2^n)^m⌋₊ : α) / (2^n)^m :=
  Num.inverse_image_cube hn m x h0 h1

/-- **C09 (inverse of the image, end rule)**: for `x ≥ 1` the round trip gives the left end of the
last subinterval, `((2^n)^m - 1) / (2^n)^m`. -/
theorem C09_inverse_image_end {n : Nat} (hn : Ev.DimOK n) (m : Nat) (x : α) (h1 : 1 ≤ x) :
    inverseCube n m (imageCube n m x) = ((2^n)^m - 1) / (2^n)^m :=
  Num.inverse_image_cube_end hn m x h1

/-- non-vacuity of `C09_inverse_image`: `n = 2`, `m = 2`, `x = 3/7 ↦ 6/16`. -/
example : inverseCube 2 2 (imageCube 2 2 (3/7 : ℚ)) = 6 / 16 := by
  rw [C09_inverse_image (α := ℚ) (n := 2) (by decide) 2 (3/7) (by norm_num) (by norm_num)]
  have e : ⌊(3/7 : ℚ) * (2^2)^2⌋₊ = 6 := by
    rw [Nat.floor_eq_iff (by norm_num)]; norm_num
  rw [e]; norm_num

/-- non-vacuity of `C09_inverse_image_end` -/
example : inverseCube 2 2 (imageCube 2 2 (1 : ℚ)) = 15 / 16 := by
  rw [C09_inverse_image_end (α := ℚ) (n := 2) (by decide) 2 1 (le_refl _)]; norm_num

/-- **C09 (image of the inverse)**: for an arbitrary cube point `y` (`n` coordinates, each
`|y_i| ≤ 1/2`) the digits `ds` recovered by `__GetXonY` are valid, `__GetXonY y` is the left end
`indexOf n ds / (2^n)^m` of their subinterval, and `__GetYonX (__GetXonY y)` is the centre of the
cell of `ds`, which is within half a cell width `2^-(m+1)` of `y` in every coordinate — i.e. the
centre of the cell containing `y`. -/
theorem C09_image_of_inverse {n : Nat} (hn : Ev.DimOK n) (m : Nat) (y : List α)
    (hy : y.length = n) (hb : ∀ yi ∈ y, |yi| ≤ 1 / 2) :
    ∃ ds : List Nat, validDigits n ds ∧ ds.length = m ∧
      inverseCube n m y = (indexOf n ds : α) / (2^n)^m ∧
      imageCube n m (inverseCube n m y) = (cubeY n ds).map (fun (Y : Int) => (Y : α) / 2^(m+1)) ∧
      (imageCube n m (inverseCube n m y)).length = n ∧
      ∀ (i : Nat) (h1 : i < y.length) (h2 : i < (imageCube n m (inverseCube n m y)).length),
        |y[i] - (imageCube n m (inverseCube n m y))[i]| ≤ 1 / 2^(m+1) :=
  Num.image_inverse_cube hn m y hy hb

/-- non-vacuity of `C09_image_of_inverse`: `n = 2`, `m = 2`, `y = (1/5, -1/3)`. -/
example : ∀ (i : Nat) (h1 : i < [(1/5 : ℚ), -1/3].length)
    (h2 : i < (imageCube 2 2 (inverseCube 2 2 [(1/5 : ℚ), -1/3])).length),
    |[(1/5 : ℚ), -1/3][i] - (imageCube 2 2 (inverseCube 2 2 [(1/5 : ℚ), -1/3]))[i]| ≤ 1 / 2^(2+1) := by
  obtain ⟨_, _, _, _, _, _, h⟩ := C09_image_of_inverse (α := ℚ) (n := 2) (by decide) 2
    [1/5, -1/3] rfl (by
      intro yi hyi
      simp only [List.mem_cons, List.not_mem_nil, or_false] at hyi
      rcases hyi with rfl | rfl <;> rw [abs_le] <;> constructor <;> norm_num)
  exact h

/-! ### `Ev.DimOK N`: end-to-end on the box -/

/-- **C09 (GetInverseImage ∘ GetImage)**: for bounds with `lower_i ≠ upper_i` and `0 ≤ x < 1`,
`GetInverseImage (GetImage x)` is `x` rounded down to the subinterval grid. -/
theorem C09_getInverseImage_getImage {n : Nat} (hn : Ev.DimOK n) (m : Nat)
    (lower upper : List α) (hl : lower.length = n) (hu : upper.length = n)
    (hne : ∀ i (h1 : i < lower.length) (h2 : i < upper.length), lower[i] ≠ upper[i])
    (x : α) (h0 : 0 ≤ x) (h1 : x < 1) :
    getInverseImage n m lower upper (getImage n m lower upper x) =
      (⌊x * (2^n)^m⌋₊ : α) / (2^n)^m := by
  rw [Num.getInverseImage_getImage hn m lower upper hl hu hne x, C09_inverse_image hn m x h0 h1]

/-- **C09 (GetInverseImage ∘ GetImage, end rule)**: for `x ≥ 1` the result is the left end of the
last subinterval. -/
theorem C09_getInverseImage_getImage_end {n : Nat} (hn : Ev.DimOK n) (m : Nat)
    (lower upper : List α) (hl : lower.length = n) (hu : upper.length = n)
    (hne : ∀ i (h1 : i < lower.length) (h2 : i < upper.length), lower[i] ≠ upper[i])
    (x : α) (h1 : 1 ≤ x) :
    getInverseImage n m lower upper (getImage n m lower upper x) = ((2^n)^m - 1) / (2^n)^m := by
  rw [Num.getInverseImage_getImage hn m lower upper hl hu hne x, C09_inverse_image_end hn m x h1]

/-- **C09 (GetImage ∘ GetInverseImage)**: for bounds with `lower_i < upper_i` and a box point `y`
(`lower_i ≤ y_i ≤ upper_i`), `GetImage (GetInverseImage y)` has `n` coordinates and is within half
a cell width `(upper_i - lower_i) / 2^(m+1)` of `y` in every coordinate. -/
theorem C09_getImage_getInverseImage {n : Nat} (hn : Ev.DimOK n) (m : Nat)
    (lower upper y : List α) (hl : lower.length = n) (hu : upper.length = n) (hy : y.length = n)
    (hlt : ∀ i (h1 : i < lower.length) (h2 : i < upper.length), lower[i] < upper[i])
    (hin : ∀ i (h0 : i < y.length) (h1 : i < lower.length) (h2 : i < upper.length),
      lower[i] ≤ y[i] ∧ y[i] ≤ upper[i]) :
    (getImage n m lower upper (getInverseImage n m lower upper y)).length = n ∧
    ∀ i (hp : i < (getImage n m lower upper (getInverseImage n m lower upper y)).length)
      (h0 : i < y.length) (h1 : i < lower.length) (h2 : i < upper.length),
      |y[i] - (getImage n m lower upper (getInverseImage n m lower upper y))[i]| ≤
        (upper[i] - lower[i]) / 2^(m+1) :=
  Num.getImage_getInverseImage_close hn m lower upper y hl hu hy hlt hin

/-- non-vacuity of the end-to-end statements: box `[-1,2] × [0,3]`, `m = 2`. -/
example : getInverseImage 2 2 [(-1 : ℚ), 0] [2, 3] (getImage 2 2 [(-1 : ℚ), 0] [2, 3] (3/7)) =
    6 / 16 := by
  rw [C09_getInverseImage_getImage (α := ℚ) (n := 2) (by decide) 2 [(-1 : ℚ), 0] [2, 3] rfl rfl
    (by intro i h1 h2
        have : i = 0 ∨ i = 1 := by simp at h1; omega
        rcases this with rfl | rfl <;> norm_num) (3/7) (by norm_num) (by norm_num)]
  have e : ⌊(3/7 : ℚ) * (2^2)^2⌋₊ = 6 := by
    rw [Nat.floor_eq_iff (by norm_num)]; norm_num
  rw [e]; norm_num

example : (getImage 2 2 [(-1 : ℚ), 0] [2, 3]
    (getInverseImage 2 2 [(-1 : ℚ), 0] [2, 3] [1/2, 5/2])).length = 2 :=
  (C09_getImage_getInverseImage (α := ℚ) (n := 2) (by decide) 2 [(-1 : ℚ), 0] [2, 3] [1/2, 5/2]
    rfl rfl rfl
    (by intro i h1 h2
        have : i = 0 ∨ i = 1 := by simp at h1; omega
        rcases this with rfl | rfl <;> norm_num)
    (by intro i h0 h1 h2
        have : i = 0 ∨ i = 1 := by simp at h1; omega
        rcases this with rfl | rfl <;> norm_num)).1

/-! ### N = 1 (the affine branch `if self.numberOfFloatVariables == 1`) -/

/-- **C09 (N = 1)**: `__GetYonX` is `x ↦ x - 1/2`. -/
theorem C09_dim1_imageCube (m : Nat) (x : α) : imageCube 1 m x = [x - 1/2] := by
  simp [imageCube, Num.half_eq]

/-- **C09 (N = 1)**: `__GetXonY` is `y ↦ y + 1/2`. -/
theorem C09_dim1_inverseCube (m : Nat) (y : α) : inverseCube 1 m [y] = y + 1/2 := by
  simp [inverseCube, Num.half_eq]

/-- **C09 (N = 1)**: `GetInverseImage (GetImage x) = x` for a non-degenerate interval `[a, b]`. -/
theorem C09_dim1_inverse_image (m : Nat) (a b x : α) (hab : a ≠ b) :
    getInverseImage 1 m [a] [b] (getImage 1 m [a] [b] x) = x := by
  have h : b - a ≠ 0 := sub_ne_zero.2 hab.symm
  simp only [getInverseImage, getImage, imageCube, inverseCube, p2d, d2p, Num.half_eq,
    beq_self_eq_true, if_true, List.zip_cons_cons, List.zip_nil_right, List.zipWith_cons_cons,
    List.zipWith_nil_right, List.headD_cons]
  field_simp
  ring

/-- **C09 (N = 1)**: `GetImage (GetInverseImage [y]) = [y]` for a non-degenerate interval. -/
theorem C09_dim1_image_inverse (m : Nat) (a b y : α) (hab : a ≠ b) :
    getImage 1 m [a] [b] (getInverseImage 1 m [a] [b] [y]) = [y] := by
  have h : b - a ≠ 0 := sub_ne_zero.2 hab.symm
  simp only [getInverseImage, getImage, imageCube, inverseCube, p2d, d2p, Num.half_eq,
    beq_self_eq_true, if_true, List.zip_cons_cons, List.zip_nil_right, List.zipWith_cons_cons,
    List.zipWith_nil_right, List.headD_cons, List.cons.injEq, and_true]
  field_simp
  ring

/-- non-vacuity of the N = 1 statements -/
example : getInverseImage 1 10 [(-2 : ℚ)] [5] (getImage 1 10 [(-2 : ℚ)] [5] (3/7)) = 3/7 :=
  C09_dim1_inverse_image 10 (-2) 5 (3/7) (by norm_num)

end Ev
