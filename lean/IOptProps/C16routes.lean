import IOptProofs.ProcessFailRoutes
import IOptProofs.ProcessToy
/-!
# C16 on every route to the failing evaluation

"If the objective raises on its k-th evaluation (k>=2) during Solve, Solve still returns; the result reflects
exactly the k-1 completed trials - trial count, best point and value - the search information still satisfies
its ordering and fidelity rules, and the failed point is not recorded."

`IOptProps/C16.lean` proves this for `Solve` on a FRESH solver (`solve p f refine {}`), where the failing evaluation is
never the first one made inside `Solve` (`k ≥ 2`).  Here the `Solve` that meets the failing evaluation has a history:

* `C16_fail_after_batches` — `DoGlobalIteration` batches (`j` trials in all, `1 ≤ j ≤ k-1`), then `Solve`; the special case
  `j = k-1`, in which the failing evaluation is the FIRST one made inside `Solve`, is `C16_fail_first_iteration_of_solve`;
* `C16_fail_in_resumed_solve` — a `Solve` that ended normally after `k-1` trials, the parameters changed in place, `Solve`
  again: its first evaluation fails;
* `C16_fail_dgi_propagates` — for contrast: the same failure inside a `DoGlobalIteration` call made by the user is not
  contained, the exception reaches the caller and no `OnEndIteration` is emitted for that call.

As in `C16.lean`, `f` raises exactly at call index `k-1` (its `k`-th call), `g` is any oracle that agrees with `f` at every
other index, and "the search goes on" is expressed on the run with `g` (which makes at least `k` trials).  `Solve still
returns` is built into the model (`Proc.solve` is a total function).  The clause about `items` is up to the characteristics
`R` (`Ctl.eraseR`) for the reason explained in `C16.lean`.  Sequences of `DoGlobalIteration` calls are written as in
`IOptProps/C11.lean`: `runOps p f refine (bs.map Op.iter ++ [Op.solve]) {}`; "the batches do not raise" is
`iterN p g bs.sum {} = .ok _` (over an ordered field with the laws of the library functions and a total `g` this always
holds: `Proc.iterN_total` in `IOptProofs/ComposeRun.lean`; for a general numeric type `CalculateIterationPoint` may raise).
-/

set_option linter.unusedSectionVars false

namespace C16
open AGP AGP.Ctl Proc

section generic
variable {α : Type} [Add α] [Sub α] [Mul α] [Div α] [Neg α] [LT α] [LE α]
  [DecidableLT α] [DecidableLE α] [OfNat α 0] [OfNat α 1] [OfNat α 2] [OfNat α 4] [Fns α]

/-- the solver after the calls `DoGlobalIteration(b)`, `b ∈ bs` (in that order), made on a fresh solver -/
abbrev afterBatches (p : Params α) (f : Nat → List α → Option α) (bs : List Nat) : PState α :=
  runOps p f (fun _ => none) (bs.map Op.iter) {}

/-- the solver after the calls `DoGlobalIteration(b)`, `b ∈ bs`, followed by `Solve()`, made on a fresh solver -/
abbrev batchesThenSolve (p : Params α) (f : Nat → List α → Option α) (refine : PState α → Option (LocalResult α))
    (bs : List Nat) : PState α :=
  runOps p f refine (bs.map Op.iter ++ [Op.solve]) {}

/-- **C16, failure containment after batches.**  On a fresh solver the calls `DoGlobalIteration(b)`, `b ∈ bs`, make
`j = Σ b` trials, `1 ≤ j ≤ k-1` (none of them reaches the failing call, none raises: `h0`); then `Solve` is called.  The
objective `f` raises exactly at its `k`-th call (`k ≥ 2`), `g` agrees with `f` at every other call index, and the run of the
same operations with `g` still makes its `k`-th trial (`hK`: necessarily inside `Solve`, i.e. the stop rule does not hold
after `j, …, k-1` trials and the `k`-th pass does not raise).  Let `psk` (method state `s`) be state `k-1` of the canonical
sequence of `g` from a fresh solver, `pr` the selection made by its `k`-th pass.  Then the batches are the same with `f` and
with `g`, and the final state (method state `sf`) satisfies exactly the clauses of `C16_fail_contained_partial`:

* kept: `items` up to `R` (literally if `recalc` was not set), `M`, `Z`, `best`, the best item, `nTrials = iters = k-1`,
  `nextId`, `evals` (the failed point got no item, no id and no record);
* differing: `minDelta`, the popped queue entry, `recalc = false`, `calls = k`;
* the event log is the log of the batches followed by one `OnEndIteration` for each of the trials `j+1 … k-1` made inside
  `Solve` (ids `j+2 … k`), the printed line and `OnMethodStop`. -/
theorem C16_fail_after_batches (p : Params α) (f g : Nat → List α → Option α) (k : Nat) (hk : 2 ≤ k)
    (hf : ∀ j pt, f j pt = none ↔ j = k - 1) (hg : ∀ j pt, j ≠ k - 1 → g j pt = f j pt)
    (bs : List Nat) (hj1 : 1 ≤ bs.sum) (hjk : bs.sum ≤ k - 1)
    (h0 : ∃ ps0 ids0, iterN p g bs.sum {} = .ok (ps0, ids0))
    (hK : k ≤ (batchesThenSolve p g (fun _ => none) bs).nTrials) :
    ∃ psk s pr sf,
      iterN p g (k - 1) {} = .ok (psk, List.range' 2 (k - 1)) ∧ psk.m = some s ∧ prepare p s = .ok pr ∧
      f (k - 1) pr.point = none ∧
      -- the batches
      afterBatches p f bs = afterBatches p g bs ∧ (afterBatches p f bs).nTrials = bs.sum ∧
      (afterBatches p f bs).calls = bs.sum ∧
      (batchesThenSolve p f (fun _ => none) bs).m = some sf ∧
      -- what is kept
      sf.items.map Ctl.eraseR = s.items.map Ctl.eraseR ∧ (s.recalc = false → sf.items = s.items) ∧
      sf.M = s.M ∧ sf.Z = s.Z ∧ sf.best = s.best ∧
      (findItem sf.items sf.best).map Ctl.eraseR = (findItem s.items s.best).map Ctl.eraseR ∧
      sf.nTrials = s.nTrials ∧ sf.nTrials = k - 1 ∧ sf.iters = s.iters ∧ sf.iters = k - 1 ∧ sf.nextId = s.nextId ∧
      (batchesThenSolve p f (fun _ => none) bs).evals = psk.evals ∧
      (batchesThenSolve p f (fun _ => none) bs).evals.length = k - 1 ∧
      (batchesThenSolve p f (fun _ => none) bs).nLocal = 0 ∧
      -- what differs
      sf = pr.s ∧
      sf.minDelta = some (minOpt pr.old.delta s.minDelta) ∧
      (∃ key oid, (selState p s).queue = (key, oid) :: sf.queue) ∧
      sf.recalc = false ∧
      (batchesThenSolve p f (fun _ => none) bs).calls = k ∧
      (batchesThenSolve p f (fun _ => none) bs).log =
        (afterBatches p f bs).log ++ endEach (List.range' (bs.sum + 2) (k - 1 - bs.sum)) ++
          [Event.exceptionPrinted, Event.methodStop (stopCond p sf)] := by
  obtain ⟨ps0, ids0, h0⟩ := h0
  obtain ⟨psk, s, pr, hrun, -, hmk, hpr, hfail, hlen, hnt, hit, -, hcong, hB, hsolve⟩ :=
    fail_after_batches hk hf hg bs hj1 hjk h0 hK
  have hs : batchesThenSolve p f (fun _ => none) bs =
      (refineStep (fun _ => none)
        { m := some pr.s,
          log := (afterBatches p f bs).log ++ endEach (List.range' (bs.sum + 2) (k - 1 - bs.sum)) ++
            [Event.exceptionPrinted],
          evals := psk.evals, nLocal := 0, calls := k }).appendLog [Event.methodStop (stopCond p pr.s)] :=
    hsolve (fun _ => none)
  obtain ⟨q1, q2, q3, q4, q5, q6, q7, q8, q9, q10, q11, q12⟩ := prepare_fail_clauses hpr
  refine ⟨psk, s, pr, pr.s, hrun, hmk, hpr, hfail, hcong _ _, (hB _).1, (hB _).2.1, by rw [hs]; rfl,
    q1, q2, q3, q4, q5, q6, q7, by rw [q7, hnt], q8, by rw [q8, hit], q9,
    by rw [hs]; rfl, by rw [hs]; exact hlen, by rw [hs]; rfl, rfl, q10, q11, q12, by rw [hs]; rfl, ?_⟩
  rw [hs]; simp [refineStep, PState.appendLog]

/-- the same with a refinement step configured: `Solve` applies it to the state described above -/
theorem C16_fail_after_batches_refine (p : Params α) (f g : Nat → List α → Option α) (k : Nat) (hk : 2 ≤ k)
    (hf : ∀ j pt, f j pt = none ↔ j = k - 1) (hg : ∀ j pt, j ≠ k - 1 → g j pt = f j pt)
    (bs : List Nat) (hj1 : 1 ≤ bs.sum) (hjk : bs.sum ≤ k - 1)
    (h0 : ∃ ps0 ids0, iterN p g bs.sum {} = .ok (ps0, ids0))
    (hK : k ≤ (batchesThenSolve p g (fun _ => none) bs).nTrials) (refine : PState α → Option (LocalResult α)) :
    ∃ psk s pr, iterN p g (k - 1) {} = .ok (psk, List.range' 2 (k - 1)) ∧ psk.m = some s ∧ prepare p s = .ok pr ∧
      batchesThenSolve p f refine bs =
        (refineStep refine
          { m := some pr.s,
            log := (afterBatches p f bs).log ++ endEach (List.range' (bs.sum + 2) (k - 1 - bs.sum)) ++
              [Event.exceptionPrinted],
            evals := psk.evals, nLocal := 0, calls := k }).appendLog [Event.methodStop (stopCond p pr.s)] := by
  obtain ⟨ps0, ids0, h0⟩ := h0
  obtain ⟨psk, s, pr, hrun, -, hmk, hpr, -, -, -, -, -, -, -, hsolve⟩ :=
    fail_after_batches hk hf hg bs hj1 hjk h0 hK
  exact ⟨psk, s, pr, hrun, hmk, hpr, hsolve refine⟩

/-- **C16, the failing evaluation is the FIRST one made inside `Solve`.**  Special case `Σ b = k-1` of
`C16_fail_after_batches`: the batches made all the `k-1` successful trials (the solver is then exactly in state `k-1` of the
canonical sequence, method state `s`), the stop rule does not hold, and the very first evaluation of `Solve` raises.  `Solve`
contains the failure: the final state satisfies the same clauses, now relative to the state in which `Solve` was called; the
event log is the log of the batches followed by the printed line and `OnMethodStop` — no `OnEndIteration`. -/
theorem C16_fail_first_iteration_of_solve (p : Params α) (f g : Nat → List α → Option α) (k : Nat) (hk : 2 ≤ k)
    (hf : ∀ j pt, f j pt = none ↔ j = k - 1) (hg : ∀ j pt, j ≠ k - 1 → g j pt = f j pt)
    (bs : List Nat) (hjk : bs.sum = k - 1)
    (h0 : ∃ ps0 ids0, iterN p g bs.sum {} = .ok (ps0, ids0))
    (hK : k ≤ (batchesThenSolve p g (fun _ => none) bs).nTrials) :
    ∃ s pr sf,
      (afterBatches p f bs).m = some s ∧ stopNow p (afterBatches p f bs) = false ∧ prepare p s = .ok pr ∧
      f (k - 1) pr.point = none ∧
      afterBatches p f bs = afterBatches p g bs ∧ (afterBatches p f bs).nTrials = k - 1 ∧
      (afterBatches p f bs).calls = k - 1 ∧
      (batchesThenSolve p f (fun _ => none) bs).m = some sf ∧
      -- what is kept
      sf.items.map Ctl.eraseR = s.items.map Ctl.eraseR ∧ (s.recalc = false → sf.items = s.items) ∧
      sf.M = s.M ∧ sf.Z = s.Z ∧ sf.best = s.best ∧
      (findItem sf.items sf.best).map Ctl.eraseR = (findItem s.items s.best).map Ctl.eraseR ∧
      sf.nTrials = s.nTrials ∧ sf.nTrials = k - 1 ∧ sf.iters = s.iters ∧ sf.iters = k - 1 ∧ sf.nextId = s.nextId ∧
      (batchesThenSolve p f (fun _ => none) bs).evals = (afterBatches p f bs).evals ∧
      (batchesThenSolve p f (fun _ => none) bs).evals.length = k - 1 ∧
      (batchesThenSolve p f (fun _ => none) bs).nLocal = 0 ∧
      -- what differs
      sf = pr.s ∧
      sf.minDelta = some (minOpt pr.old.delta s.minDelta) ∧
      (∃ key oid, (selState p s).queue = (key, oid) :: sf.queue) ∧
      sf.recalc = false ∧
      (batchesThenSolve p f (fun _ => none) bs).calls = k ∧
      (batchesThenSolve p f (fun _ => none) bs).log =
        (afterBatches p f bs).log ++ [Event.exceptionPrinted, Event.methodStop (stopCond p sf)] := by
  obtain ⟨ps0, ids0, h0⟩ := h0
  obtain ⟨psk, s, pr, hrun, -, hmk, hpr, hfail, hlen, hnt, hit, hstk, hcong, hB, hsolve⟩ :=
    fail_after_batches hk hf hg bs (by omega) (by omega) h0 hK
  have hs : batchesThenSolve p f (fun _ => none) bs =
      (refineStep (fun _ => none)
        { m := some pr.s,
          log := (afterBatches p f bs).log ++ endEach (List.range' (bs.sum + 2) (k - 1 - bs.sum)) ++
            [Event.exceptionPrinted],
          evals := psk.evals, nLocal := 0, calls := k }).appendLog [Event.methodStop (stopCond p pr.s)] :=
    hsolve (fun _ => none)
  obtain ⟨q1, q2, q3, q4, q5, q6, q7, q8, q9, q10, q11, q12⟩ := prepare_fail_clauses hpr
  -- the state in which `Solve` is called is state `k-1` of the canonical sequence
  have hps0 : ps0 = psk := by
    rw [hjk, hrun] at h0
    simp only [Except.ok.injEq, Prod.mk.injEq] at h0
    exact h0.1.symm
  have hcore : (afterBatches p f bs).core = psk.core := by rw [← hps0]; exact (hB _).2.2
  obtain ⟨-, -, -, x4, -, x6⟩ := fields_of_core hcore
  have hsub : k - 1 - bs.sum = 0 := by omega
  refine ⟨s, pr, pr.s, by rw [x6]; exact hmk, by rw [stopNow_congr hcore]; exact hstk, hpr, hfail, hcong _ _,
    by rw [(hB _).1, hjk], by rw [(hB _).2.1, hjk], by rw [hs]; rfl,
    q1, q2, q3, q4, q5, q6, q7, by rw [q7, hnt], q8, by rw [q8, hit], q9,
    by rw [hs, x4]; rfl, by rw [hs]; exact hlen, by rw [hs]; rfl, rfl, q10, q11, q12, by rw [hs]; rfl, ?_⟩
  rw [hs, hsub]; simp [refineStep, PState.appendLog, endEach]

/-- **C16, failure containment in a resumed `Solve`.**  On a fresh solver a first `Solve` with parameters `p1` (refinement
`refine1`, possibly none) ends normally (`hnr1`) after `k-1` trials (`hK1`; stopped by its budget or its accuracy:
`stopNow p1 psk = true`).  The parameters are changed in place to `p2` (same `n`, `r`, evolvent: `SameMethod p1 p2`) and `Solve`
is called again.  The objective `f` raises exactly at its `k`-th call, which is the FIRST evaluation of the second `Solve`; `g`
agrees with `f` at every other call index and the run of the same two calls with `g` makes at least `k` trials (`hK`: under
`p2` the search is not finished, `stopNow p2 _ = false`, and the `k`-th pass does not raise).  Let `s` be the method state left
by the first `Solve` and `pr` the selection made in it (the same for `p1` and `p2`).  Then the second `Solve` contains the
failure: its final state (method state `sf`) keeps, relative to `s`, everything the `Solution` of the first `Solve` reported —
`items` up to `R`, `M`, `Z`, `best`, the best item, `nTrials = iters = k-1`, `nextId`, `evals`, `nLocal`, `refined` and hence the
reported trial `reportedId` — and differs in
`minDelta`, the popped queue entry, `recalc = false`, `calls = k`; the event log is that of the first `Solve` (ending in its
`OnMethodStop(True)`) followed by the printed line and a second `OnMethodStop`; no `OnEndIteration` is added. -/
theorem C16_fail_in_resumed_solve (p1 p2 : Params α) (f g : Nat → List α → Option α) (k : Nat) (hk : 2 ≤ k)
    (hf : ∀ j pt, f j pt = none ↔ j = k - 1) (hg : ∀ j pt, j ≠ k - 1 → g j pt = f j pt)
    (hs : SameMethod p1 p2) (refine1 : PState α → Option (LocalResult α))
    (hnr1 : (solveLoop p1 f (p1.itersLimit + 1) {}).2 = false)
    (hK1 : (solve p1 f refine1 {}).nTrials = k - 1)
    (hK : k ≤ (solve p2 g (fun _ => none) (solve p1 g refine1 {})).nTrials) :
    ∃ psk s pr sf,
      iterN p1 g (k - 1) {} = .ok (psk, List.range' 2 (k - 1)) ∧ stopNow p1 psk = true ∧
      -- the first `Solve`: the same with `f` and `g`
      solve p1 g refine1 {} = solve p1 f refine1 {} ∧
      solve p1 f refine1 {} =
        (refineStep refine1 (psk.appendLog (endEach (List.range' 2 (k - 1))))).appendLog [Event.methodStop true] ∧
      (solve p1 f refine1 {}).m = some s ∧
      -- under `p2` the search is not finished; the selection does not depend on `eps` / `itersLimit`
      stopNow p2 (solve p1 f refine1 {}) = false ∧
      prepare p2 s = .ok pr ∧ prepare p1 s = .ok pr ∧ f (k - 1) pr.point = none ∧
      (solve p2 f (fun _ => none) (solve p1 f refine1 {})).m = some sf ∧
      -- what is kept
      sf.items.map Ctl.eraseR = s.items.map Ctl.eraseR ∧ (s.recalc = false → sf.items = s.items) ∧
      sf.M = s.M ∧ sf.Z = s.Z ∧ sf.best = s.best ∧
      (findItem sf.items sf.best).map Ctl.eraseR = (findItem s.items s.best).map Ctl.eraseR ∧
      sf.nTrials = s.nTrials ∧ sf.nTrials = k - 1 ∧ sf.iters = s.iters ∧ sf.iters = k - 1 ∧ sf.nextId = s.nextId ∧
      (solve p2 f (fun _ => none) (solve p1 f refine1 {})).evals = (solve p1 f refine1 {}).evals ∧
      (solve p2 f (fun _ => none) (solve p1 f refine1 {})).evals = psk.evals ∧
      (solve p2 f (fun _ => none) (solve p1 f refine1 {})).evals.length = k - 1 ∧
      (solve p2 f (fun _ => none) (solve p1 f refine1 {})).nLocal = (solve p1 f refine1 {}).nLocal ∧
      (solve p2 f (fun _ => none) (solve p1 f refine1 {})).refined = (solve p1 f refine1 {}).refined ∧
      reportedId (solve p2 f (fun _ => none) (solve p1 f refine1 {})) sf = reportedId (solve p1 f refine1 {}) s ∧
      -- what differs
      sf = pr.s ∧
      sf.minDelta = some (minOpt pr.old.delta s.minDelta) ∧
      (∃ key oid, (selState p2 s).queue = (key, oid) :: sf.queue) ∧
      sf.recalc = false ∧
      (solve p2 f (fun _ => none) (solve p1 f refine1 {})).calls = k ∧
      (solve p2 f (fun _ => none) (solve p1 f refine1 {})).log =
        [Event.beforeStart] ++ endEach (List.range' 2 (k - 1)) ++
          [Event.methodStop true, Event.exceptionPrinted, Event.methodStop (stopCond p2 sf)] := by
  obtain ⟨psk, s, pr, hrun, -, hst1, hlogk, hlen, hall, hms, hpr, hfail, hst2, -, hevals, hsolve⟩ :=
    fail_in_resumed_solve (p1 := p1) (p2 := p2) hk hf hg hnr1 hK1 hK
  have hS := hsolve (fun _ => none)
  obtain ⟨q1, q2, q3, q4, q5, q6, q7, q8, q9, q10, q11, q12⟩ := prepare_fail_clauses hpr
  have hpr1 : prepare p1 s = .ok pr := by
    rw [← hpr, hs.eq_update]; rfl
  -- trial and iteration counts of the state left by the first `Solve`
  obtain ⟨-, -, -, r4, r5, -⟩ :=
    refineStep_fields (p := p1) refine1 (psk.appendLog (endEach (List.range' 2 (k - 1))))
  obtain ⟨c1, c2, -⟩ := iterN_counters hrun
  have hnt : s.nTrials = k - 1 := by
    have h1 : (solve p1 f refine1 {}).nTrials = s.nTrials := by simp [PState.nTrials, hms]
    rw [← h1, hK1]
  have hit : s.iters = k - 1 := by
    have h1 : (solve p1 f refine1 {}).iters = s.iters := by simp [PState.iters, hms]
    have h2 : (solve p1 f refine1 {}).iters = (refineStep refine1 (psk.appendLog (endEach (List.range' 2 (k - 1))))).iters := by
      rw [(hall refine1).2]; rfl
    have h3 : psk.iters = 0 + (k - 1) := c1
    have h4 : (psk.appendLog (endEach (List.range' 2 (k - 1)))).iters = psk.iters := rfl
    rw [← h1, h2, r4, h4, h3]; omega
  have hlog1 : (solve p1 f refine1 {}).log =
      [Event.beforeStart] ++ endEach (List.range' 2 (k - 1)) ++ [Event.methodStop true] := by
    rw [(hall refine1).2, PState.appendLog_log,
      (refineStep_fields (p := p1) refine1 (psk.appendLog (endEach (List.range' 2 (k - 1))))).1,
      PState.appendLog_log, hlogk]
  refine ⟨psk, s, pr, pr.s, hrun, hst1, (hall refine1).1, (hall refine1).2, hms, hst2, hpr, hpr1, hfail,
    by rw [hS]; rfl, q1, q2, q3, q4, q5, q6, q7, by rw [q7, hnt], q8, by rw [q8, hit], q9,
    by rw [hS, hevals]; rfl, by rw [hS]; rfl, by rw [hS]; exact hlen, by rw [hS]; rfl, by rw [hS]; rfl,
    reportedId_congr_eraseR (by rw [hS]; rfl) q1 q5, rfl, q10, q11, q12,
    by rw [hS]; rfl, ?_⟩
  rw [hS]
  show (solve p1 f refine1 {}).log ++ [Event.exceptionPrinted] ++ [Event.methodStop (stopCond p2 pr.s)] = _
  rw [hlog1]; simp

/-- the same with a refinement step configured in the second `Solve`: it is applied to the state described above -/
theorem C16_fail_in_resumed_solve_refine (p1 p2 : Params α) (f g : Nat → List α → Option α) (k : Nat) (hk : 2 ≤ k)
    (hf : ∀ j pt, f j pt = none ↔ j = k - 1) (hg : ∀ j pt, j ≠ k - 1 → g j pt = f j pt)
    (refine1 : PState α → Option (LocalResult α))
    (hnr1 : (solveLoop p1 f (p1.itersLimit + 1) {}).2 = false)
    (hK1 : (solve p1 f refine1 {}).nTrials = k - 1)
    (hK : k ≤ (solve p2 g (fun _ => none) (solve p1 g refine1 {})).nTrials)
    (refine2 : PState α → Option (LocalResult α)) :
    ∃ psk s pr, iterN p1 g (k - 1) {} = .ok (psk, List.range' 2 (k - 1)) ∧
      (solve p1 f refine1 {}).m = some s ∧ prepare p2 s = .ok pr ∧
      solve p2 f refine2 (solve p1 f refine1 {}) =
        (refineStep refine2
          { m := some pr.s, log := (solve p1 f refine1 {}).log ++ [Event.exceptionPrinted],
            evals := psk.evals, nLocal := (solve p1 f refine1 {}).nLocal, calls := k,
            refined := (solve p1 f refine1 {}).refined }).appendLog
        [Event.methodStop (stopCond p2 pr.s)] := by
  obtain ⟨psk, s, pr, hrun, -, -, -, -, -, hms, hpr, -, -, -, -, hsolve⟩ :=
    fail_in_resumed_solve (p1 := p1) (p2 := p2) hk hf hg hnr1 hK1 hK
  exact ⟨psk, s, pr, hrun, hms, hpr, hsolve refine2⟩

/-- **C16, for contrast: outside `Solve` the failure is NOT contained.**  On a fresh solver the calls `DoGlobalIteration(b)`,
`b ∈ bs`, make `j = Σ b ≤ k-1` trials (possibly none: `bs = []`); then the user calls `DoGlobalIteration(n)` with `k ≤ j + n`, so
that the `k`-th evaluation, at which `f` raises, is made inside this call (`g` agrees with `f` elsewhere and its canonical
sequence makes `k` passes).  Then, in the model:

* the call returns the exception of the objective to its caller (`raised = some .objective`);
* the state threaded through is that after the `k-1-j` passes completed earlier in this call — their trials ARE recorded
  (`nTrials = k-1`, `evals` those of `psk`) — with the selection of the failed pass applied (method state `pr.s`, as after a
  contained failure) and `calls = k`;
* nothing is appended to the event log except `BeforeMethodStart` if this call made the first iteration ever (`j = 0`): no
  `OnEndIteration` is emitted for this call, so its `k-1-j` new trials are reported by no notification. -/
theorem C16_fail_dgi_propagates (p : Params α) (f g : Nat → List α → Option α) (k : Nat) (hk : 2 ≤ k)
    (hf : ∀ j pt, f j pt = none ↔ j = k - 1) (hg : ∀ j pt, j ≠ k - 1 → g j pt = f j pt)
    (bs : List Nat) (n : Nat) (hjk : bs.sum ≤ k - 1) (hn : k ≤ bs.sum + n)
    (hrun : ∃ psk' ids', iterN p g k {} = .ok (psk', ids')) :
    ∃ psk s pr,
      iterN p g (k - 1) {} = .ok (psk, List.range' 2 (k - 1)) ∧ psk.m = some s ∧ prepare p s = .ok pr ∧
      f (k - 1) pr.point = none ∧
      afterBatches p f bs = afterBatches p g bs ∧ (afterBatches p f bs).nTrials = bs.sum ∧
      (afterBatches p f bs).calls = bs.sum ∧
      (doGlobalIteration p f n (afterBatches p f bs) []).raised = some .objective ∧
      (doGlobalIteration p f n (afterBatches p f bs) []).s =
        { m := some pr.s,
          log := (afterBatches p f bs).log ++ (if bs.sum = 0 then [Event.beforeStart] else []),
          evals := psk.evals, nLocal := 0, calls := k } ∧
      (doGlobalIteration p f n (afterBatches p f bs) []).s.nTrials = k - 1 ∧
      (doGlobalIteration p f n (afterBatches p f bs) []).s.evals.length = k - 1 ∧
      (∀ ids, Event.endIteration ids ∉ (if bs.sum = 0 then [Event.beforeStart] else [])) := by
  obtain ⟨psk', ids', hrun⟩ := hrun
  obtain ⟨psk, s, pr, hrunk, -, hmk, hpr, hfail, hlen, hnt, -, hcong, hB, hd⟩ :=
    fail_dgi_after_batches hk hf hg bs n hjk hn hrun []
  have hD : doGlobalIteration p f n (afterBatches p f bs) [] =
      { s := { m := some pr.s,
               log := (afterBatches p f bs).log ++ (if bs.sum = 0 then [Event.beforeStart] else []),
               evals := psk.evals, nLocal := 0, calls := k },
        raised := some .objective } := hd (fun _ => none)
  have hnt' : pr.s.nTrials = k - 1 := by rw [(prepare_ok_fields hpr).2.1, hnt]
  refine ⟨psk, s, pr, hrunk, hmk, hpr, hfail, hcong _ _, (hB _).1, (hB _).2, by rw [hD], by rw [hD],
    by rw [hD]; exact hnt', by rw [hD]; exact hlen, ?_⟩
  intro ids
  split <;> simp

end generic

/-! ### non-vacuity on the toy instance (`α = ℚ`, `N = 1`, objective `(x - 1/3)²` raising at its 4th call, `k = 4`) -/
section examples
open ProcToy

/-- a refinement result for the examples: `DoLocalRefinement` moves the best trial to `x = 1/3` with value `0` -/
def exRefine : PState Rat → Option (LocalResult Rat) := fun _ => some { x := [1/3], fx := 0, nfev := 7 }

theorem ex_h0 (n : Nat) (h : (iterN (P 5 (1/100)) F n {}).isOk = true) :
    ∃ ps0 ids0, iterN (P 5 (1/100)) F n {} = .ok (ps0, ids0) := by
  obtain ⟨x, hx⟩ := ok_of_isOk h
  exact ⟨x.1, x.2, hx⟩

/-- hypotheses of `C16_fail_after_batches` for the batches `DoGlobalIteration(1); DoGlobalIteration(1)` (`j = 2`), budget 5:
one trial (the third) is made inside `Solve` before the failing fourth evaluation -/
example : (2 ≤ 4) ∧ (∀ j pt, failAt 3 j pt = none ↔ j = 4 - 1) ∧ (∀ j pt, j ≠ 4 - 1 → F j pt = failAt 3 j pt) ∧
    1 ≤ [1, 1].sum ∧ [1, 1].sum ≤ 4 - 1 ∧ (∃ ps0 ids0, iterN (P 5 (1/100)) F [1, 1].sum {} = .ok (ps0, ids0)) ∧
    4 ≤ (batchesThenSolve (P 5 (1/100)) F (fun _ => none) [1, 1]).nTrials :=
  ⟨by decide, fun j pt => failAt_iff 3 j pt, fun j pt h => (failAt_agree 3 j pt h).symm, by decide, by decide,
    ex_h0 _ (by decide +kernel), by decide +kernel⟩

/-- the theorem instantiated at that run -/
example := C16_fail_after_batches (P 5 (1/100)) (failAt 3) F 4 (by decide) (fun j pt => failAt_iff 3 j pt)
  (fun j pt h => (failAt_agree 3 j pt h).symm) [1, 1] (by decide) (by decide) (ex_h0 _ (by decide +kernel))
  (by decide +kernel)

/-- that run: 3 trials, 4 calls, the log as stated -/
example : (batchesThenSolve (P 5 (1/100)) (failAt 3) (fun _ => none) [1, 1]).nTrials = 3 ∧
    (batchesThenSolve (P 5 (1/100)) (failAt 3) (fun _ => none) [1, 1]).calls = 4 ∧
    (batchesThenSolve (P 5 (1/100)) (failAt 3) (fun _ => none) [1, 1]).log =
      [Event.beforeStart, Event.endIteration [2], Event.endIteration [3], Event.endIteration [4],
       Event.exceptionPrinted, Event.methodStop false] := by
  decide +kernel

/-- hypotheses of `C16_fail_first_iteration_of_solve` for the batches `DoGlobalIteration(1); DoGlobalIteration(2)`
(`j = 3 = k-1`): the failing fourth evaluation is the first one made inside `Solve` -/
example : (2 ≤ 4) ∧ (∀ j pt, failAt 3 j pt = none ↔ j = 4 - 1) ∧ (∀ j pt, j ≠ 4 - 1 → F j pt = failAt 3 j pt) ∧
    [1, 2].sum = 4 - 1 ∧ (∃ ps0 ids0, iterN (P 5 (1/100)) F [1, 2].sum {} = .ok (ps0, ids0)) ∧
    4 ≤ (batchesThenSolve (P 5 (1/100)) F (fun _ => none) [1, 2]).nTrials :=
  ⟨by decide, fun j pt => failAt_iff 3 j pt, fun j pt h => (failAt_agree 3 j pt h).symm, by decide,
    ex_h0 _ (by decide +kernel), by decide +kernel⟩

example := C16_fail_first_iteration_of_solve (P 5 (1/100)) (failAt 3) F 4 (by decide) (fun j pt => failAt_iff 3 j pt)
  (fun j pt h => (failAt_agree 3 j pt h).symm) [1, 2] (by decide) (ex_h0 _ (by decide +kernel)) (by decide +kernel)

/-- that run: `Solve` returns; 3 trials, 4 calls; no `OnEndIteration` from `Solve` -/
example : (batchesThenSolve (P 5 (1/100)) (failAt 3) (fun _ => none) [1, 2]).nTrials = 3 ∧
    (batchesThenSolve (P 5 (1/100)) (failAt 3) (fun _ => none) [1, 2]).calls = 4 ∧
    (batchesThenSolve (P 5 (1/100)) (failAt 3) (fun _ => none) [1, 2]).log =
      [Event.beforeStart, Event.endIteration [2], Event.endIteration [3, 4],
       Event.exceptionPrinted, Event.methodStop false] := by
  decide +kernel

/-- hypotheses of `C16_fail_in_resumed_solve`: budget 3 (first `Solve`, with a local refinement, stops on the budget after 3
trials), budget raised in place to 5, the fourth evaluation — the first of the second `Solve` — raises -/
theorem ex_resume_hyps : SameMethod (P 3 (1/100)) (P 5 (1/100)) ∧
    (solveLoop (P 3 (1/100)) (failAt 3) ((P 3 (1/100)).itersLimit + 1) {}).2 = false ∧
    (solve (P 3 (1/100)) (failAt 3) exRefine {}).nTrials = 4 - 1 ∧
    4 ≤ (solve (P 5 (1/100)) F (fun _ => none) (solve (P 3 (1/100)) F exRefine {})).nTrials :=
  ⟨⟨rfl, rfl, rfl⟩, by decide +kernel, by decide +kernel, by decide +kernel⟩

example := C16_fail_in_resumed_solve (P 3 (1/100)) (P 5 (1/100)) (failAt 3) F 4 (by decide) (fun j pt => failAt_iff 3 j pt)
  (fun j pt h => (failAt_agree 3 j pt h).symm) ex_resume_hyps.1 exRefine ex_resume_hyps.2.1 ex_resume_hyps.2.2.1
  ex_resume_hyps.2.2.2

/-- that run: two `OnMethodStop` events, 3 trials, 4 calls, the refined best value of the first `Solve` is still reported -/
example : (solve (P 5 (1/100)) (failAt 3) (fun _ => none) (solve (P 3 (1/100)) (failAt 3) exRefine {})).nTrials = 3 ∧
    (solve (P 5 (1/100)) (failAt 3) (fun _ => none) (solve (P 3 (1/100)) (failAt 3) exRefine {})).calls = 4 ∧
    (solve (P 5 (1/100)) (failAt 3) (fun _ => none) (solve (P 3 (1/100)) (failAt 3) exRefine {})).nLocal = 7 ∧
    (solve (P 5 (1/100)) (failAt 3) (fun _ => none) (solve (P 3 (1/100)) (failAt 3) exRefine {})).log =
      [Event.beforeStart, Event.endIteration [2], Event.endIteration [3], Event.endIteration [4],
       Event.methodStop true, Event.exceptionPrinted, Event.methodStop false] := by
  decide +kernel

/-- hypotheses of `C16_fail_dgi_propagates` for `DoGlobalIteration(5)` on a fresh solver (`bs = []`), and for
`DoGlobalIteration(1); DoGlobalIteration(1); DoGlobalIteration(3)` -/
example : ([] : List Nat).sum ≤ 4 - 1 ∧ 4 ≤ ([] : List Nat).sum + 5 ∧ [1, 1].sum ≤ 4 - 1 ∧ 4 ≤ [1, 1].sum + 3 ∧
    (∃ psk' ids', iterN (P 5 (1/100)) F 4 {} = .ok (psk', ids')) :=
  ⟨by decide, by decide, by decide, by decide, ex_h0 _ (by decide +kernel)⟩

example := C16_fail_dgi_propagates (P 5 (1/100)) (failAt 3) F 4 (by decide) (fun j pt => failAt_iff 3 j pt)
  (fun j pt h => (failAt_agree 3 j pt h).symm) [] 5 (by decide) (by decide) (ex_h0 _ (by decide +kernel))

example := C16_fail_dgi_propagates (P 5 (1/100)) (failAt 3) F 4 (by decide) (fun j pt => failAt_iff 3 j pt)
  (fun j pt h => (failAt_agree 3 j pt h).symm) [1, 1] 3 (by decide) (by decide) (ex_h0 _ (by decide +kernel))

/-- those runs: the exception reaches the caller; 3 trials recorded; no `OnEndIteration` for the raising call -/
example : (doGlobalIteration (P 5 (1/100)) (failAt 3) 5 {} []).raised = some .objective ∧
    (doGlobalIteration (P 5 (1/100)) (failAt 3) 5 {} []).s.nTrials = 3 ∧
    (doGlobalIteration (P 5 (1/100)) (failAt 3) 5 {} []).s.log = [Event.beforeStart] ∧
    (doGlobalIteration (P 5 (1/100)) (failAt 3) 3 (afterBatches (P 5 (1/100)) (failAt 3) [1, 1]) []).raised =
      some .objective ∧
    (doGlobalIteration (P 5 (1/100)) (failAt 3) 3 (afterBatches (P 5 (1/100)) (failAt 3) [1, 1]) []).s.nTrials = 3 ∧
    (doGlobalIteration (P 5 (1/100)) (failAt 3) 3 (afterBatches (P 5 (1/100)) (failAt 3) [1, 1]) []).s.log =
      [Event.beforeStart, Event.endIteration [2], Event.endIteration [3]] := by
  decide +kernel

end examples

end C16
