import IOptProofs.ProbWorld
/-!
# Property C15 — benchmark evaluation is a pure function of the point

"For every shipped problem, evaluating at a point returns the same value no matter how many evaluations
were made before, in which order, or which other problem instances were created or evaluated in between;
the evaluation does not modify the point and it returns the supplied value holder with the value stored
in it."

Model: `IOptModel/ProbWorld.lean` — a heap of cells (module tables, per-instance tables, caller arrays,
holders) and the operations `construct`, `point`, `setPoint`, `holder`, `calculate`; a history is a list of
operations run from `World.init mod` (`mod` = content of the module-level tables).  All statements are for
EVERY history, any number of instances, any numeric type.

* `C15_calc_frame`       what one evaluation writes and returns;
* `C15_construct_frame`  what one construction writes;
* `C15_wrote_sound`      the `wrote` report of every operation is truthful;
* `C15_tables_stable`, `C15_tables_as_constructed`   tables never change after their allocation;
* `C15_eval_stable`, `C15_calc_pure`, `C15_calc_repeatable`   the value is `evalOn (tables as constructed) (point)`;
* `C15_leaky_cache_*`, `C15_leaky_point_*`   negative controls (`by decide`).
-/

namespace ProbWorld

section
variable {α : Type} [Add α] [Sub α] [Mul α] [Div α] [Neg α] [LT α]
  [DecidableLT α] [OfNat α 0] [OfNat α 1] [OfNat α 2] [NatCast α] [MathFns α]

/-- **C15, frame of an evaluation.**  In ANY world, `Calculate` of instance `i` on the array `p` with the
holder `h` (when the call is well-formed: `CalcOk`) returns the supplied holder `h` with the computed value,
stores that value in `h`, writes no other cell (not the point, no module table, no table of any instance, no
other holder), allocates nothing and leaves all instance records alone.  An ill-formed call changes nothing. -/
theorem C15_calc_frame (k : Prob.GklsConsts α) (w : World α) (i p h : Nat) :
    let res := exec k w (.calculate i p h)
    (CalcOk w i p h →
      ∃ inst, w.insts[i]? = some inst ∧
        res.out = .value h (evalInst k w inst (w.read p)) ∧
        res.world.read h = [evalInst k w inst (w.read p)] ∧
        res.world.owner? h = some .holder ∧
        res.wrote = [h] ∧ res.allocated = [] ∧
        p ≠ h ∧ res.world.read p = w.read p ∧
        res.world.cells.length = w.cells.length ∧
        (∀ r, r ≠ h → res.world.cells[r]? = w.cells[r]?) ∧
        res.world.insts = w.insts) ∧
    (¬ CalcOk w i p h → res.out = .error ∧ res.world = w ∧ res.wrote = [] ∧ res.allocated = []) := by
  intro res
  refine ⟨?_, ?_⟩
  · rintro ⟨inst, pc, hc, hi, hp, hh, g⟩
    have hres : res = _ := exec_calc_ok k w hi hp hh g
    have hph : p ≠ h := by
      intro e; subst e
      rw [hp] at hh; cases hh
      exact g.2.1 g.1
    have hrp : w.read p = pc.data := World.read_of_cell hp
    refine ⟨inst, hi, ?_, ?_, ?_, ?_, ?_, hph, ?_, ?_, ?_, ?_⟩
    · rw [hres, hrp]
    · rw [hres, hrp]; exact World.write_read_eq _ hh
    · rw [hres]; simp only [World.write_owner?, World.owner?_of_cell hh, g.1]
    · rw [hres]
    · rw [hres]
    · rw [hres]; exact World.read_congr (World.write_cells_ne w _ (Ne.symm hph))
    · rw [hres]; exact World.write_length _ _ _
    · intro r hr; rw [hres]; exact World.write_cells_ne w _ (Ne.symm hr)
    · rw [hres]; rfl
  · intro hn
    have hres : res = fail w := exec_calc_fail k w hn
    rw [hres]; exact ⟨rfl, rfl, rfl, rfl⟩

/-- **C15, frame of a construction.**  A construction leaves every existing cell (module tables, tables of
all existing instances, caller arrays, holders) and every existing instance record unchanged; it writes only
cells it allocates itself.  When the arguments are valid it allocates exactly the `Family.layout` cells, fills
them with the supplied tables, tags them with the new instance's number and returns that number. -/
theorem C15_construct_frame (k : Prob.GklsConsts α) (w : World α) (fam : Family) (args : List Nat)
    (tables : List (List α)) :
    let res := exec k w (.construct fam args tables)
    (∀ r, r < w.cells.length → res.world.cells[r]? = w.cells[r]?) ∧
    (∀ j, j < w.insts.length → res.world.insts[j]? = w.insts[j]?) ∧
    res.wrote = res.allocated ∧
    (∀ r ∈ res.allocated, w.cells.length ≤ r ∧ r < res.world.cells.length) ∧
    (ConstructOk fam args tables →
      res.out = .inst w.insts.length res.allocated ∧
      res.allocated = List.range' w.cells.length fam.privCount ∧
      res.world.insts = w.insts ++ [{ family := fam, args := args, priv := res.allocated }] ∧
      res.allocated.map res.world.read = tables ∧
      ∀ r ∈ res.allocated, res.world.owner? r = some (.inst w.insts.length)) ∧
    (¬ ConstructOk fam args tables → res.out = .error ∧ res.world = w) := by
  intro res
  by_cases hok : ConstructOk fam args tables
  · have hres : res = _ := exec_construct_ok k w hok
    have hlen := hok.length
    refine ⟨?_, ?_, ?_, ?_, fun _ => ⟨?_, ?_, ?_, ?_, ?_⟩, fun hn => absurd hok hn⟩
    · intro r hr; rw [hres]; exact List.getElem?_append_left hr
    · intro j hj; rw [hres]; exact List.getElem?_append_left hj
    · rw [hres]
    · intro r hr
      rw [hres] at hr ⊢
      simp only [List.mem_range'_1] at hr
      simp only [List.length_append, List.length_map]
      exact ⟨hr.1, hr.2⟩
    · rw [hres]
    · rw [hres, hlen]
    · rw [hres]
    · rw [hres]; exact construct_reads w _ tables
    · intro r hr
      rw [hres] at hr ⊢
      simp only [List.mem_range'_1] at hr
      have hidx : r - w.cells.length < tables.length := by omega
      have : (w.cells ++ tables.map (fun v => ({ owner := .inst w.insts.length, data := v } : Cell α)))[r]? =
          some { owner := .inst w.insts.length, data := tables[r - w.cells.length] } := by
        simp only [List.getElem?_append_right hr.1, List.getElem?_map, List.getElem?_eq_getElem hidx,
          Option.map_some]
      exact World.owner?_of_cell (w := ⟨_, _⟩) this
  · have hres : res = fail w := exec_construct_fail k w hok
    refine ⟨?_, ?_, ?_, ?_, fun h => absurd h hok, fun _ => ?_⟩
    · intro r _; rw [hres]; rfl
    · intro j _; rw [hres]; rfl
    · rw [hres]; rfl
    · intro r hr; rw [hres] at hr; cases hr
    · rw [hres]; exact ⟨rfl, rfl⟩

/-- **C15, the write report is truthful (every operation).**  A cell that existed before the operation and
is not listed in `wrote` has the same owner and content afterwards; `allocated` lists exactly the new refs. -/
theorem C15_wrote_sound (k : Prob.GklsConsts α) (w : World α) (op : Op α) :
    let res := exec k w op
    (∀ r, r < w.cells.length → r ∉ res.wrote → res.world.cells[r]? = w.cells[r]?) ∧
    res.allocated = List.range' w.cells.length (res.world.cells.length - w.cells.length) ∧
    w.cells.length ≤ res.world.cells.length := by
  intro res
  cases op with
  | construct fam args tables =>
    by_cases hok : ConstructOk fam args tables
    · have hres : res = _ := exec_construct_ok k w hok
      rw [hres]
      refine ⟨fun r hr _ => List.getElem?_append_left hr, ?_, ?_⟩
      · simp only [List.length_append, List.length_map, Nat.add_sub_cancel_left]
      · simp only [List.length_append]; exact Nat.le_add_right _ _
    · have hres : res = fail w := exec_construct_fail k w hok
      rw [hres]
      exact ⟨fun _ _ _ => rfl, by simp only [fail, Nat.sub_self, List.range'_zero], Nat.le_refl _⟩
  | point v =>
    have hres : res = _ := exec_point k w v
    rw [hres]
    refine ⟨fun r hr _ => List.getElem?_append_left hr, ?_, ?_⟩
    · simp only [List.length_append, List.length_cons, List.length_nil, Nat.add_sub_cancel_left]; rfl
    · simp only [List.length_append]; exact Nat.le_add_right _ _
  | holder =>
    have hres : res = _ := exec_holder k w
    rw [hres]
    refine ⟨fun r hr _ => List.getElem?_append_left hr, ?_, ?_⟩
    · simp only [List.length_append, List.length_cons, List.length_nil, Nat.add_sub_cancel_left]; rfl
    · simp only [List.length_append]; exact Nat.le_add_right _ _
  | setPoint r v =>
    by_cases h : w.owner? r = some .caller ∧ (w.read r).length = v.length
    · have hres : res = _ := exec_setPoint_ok k w h
      rw [hres]
      refine ⟨fun j _ hj => ?_, ?_, ?_⟩
      · simp only [List.mem_singleton] at hj
        exact World.write_cells_ne w v (Ne.symm hj)
      · simp only [World.write_length, Nat.sub_self, List.range'_zero]
      · simp only [World.write_length]; exact Nat.le_refl _
    · have hres : res = fail w := exec_setPoint_fail k w h
      rw [hres]
      exact ⟨fun _ _ _ => rfl, by simp only [fail, Nat.sub_self, List.range'_zero], Nat.le_refl _⟩
  | calculate i p h =>
    by_cases hc : CalcOk w i p h
    · obtain ⟨inst, pc, hcell, hi, hp, hh, g⟩ := hc
      have hres : res = _ := exec_calc_ok k w hi hp hh g
      rw [hres]
      refine ⟨fun j _ hj => ?_, ?_, ?_⟩
      · simp only [List.mem_singleton] at hj
        exact World.write_cells_ne w _ (Ne.symm hj)
      · simp only [World.write_length, Nat.sub_self, List.range'_zero]
      · simp only [World.write_length]; exact Nat.le_refl _
    · have hres : res = fail w := exec_calc_fail k w hc
      rw [hres]
      exact ⟨fun _ _ _ => rfl, by simp only [fail, Nat.sub_self, List.range'_zero], Nat.le_refl _⟩

/-- **C15, tables are stable (invariant over every history).**  After any history `pre ++ post` run from the
initial world: every module table still has the content it was created with; every instance that existed
after `pre` still has the same record, and each of its private tables has the same content (and owner) as
after `pre` — whatever `post` constructs or evaluates. -/
theorem C15_tables_stable (k : Prob.GklsConsts α) (mod : ModTab → List α) (pre post : List (Op α)) :
    let w1 := run k (World.init mod) pre
    let w2 := run k (World.init mod) (pre ++ post)
    (∀ t : ModTab, w2.read t.ref = mod t ∧ w2.owner? t.ref = some .module) ∧
    (∀ j inst, w1.insts[j]? = some inst →
      w2.insts[j]? = some inst ∧
      ∀ r ∈ inst.priv, w2.cells[r]? = w1.cells[r]? ∧ w2.owner? r = some (.inst j)) := by
  intro w1 w2
  refine ⟨fun t => ?_, fun j inst hj => ?_⟩
  · have := run_init_module k mod (pre ++ post) t
    exact ⟨World.read_of_cell this, World.owner?_of_cell this⟩
  · have he : Ext w1 w2 := by
      show Ext w1 (run k (World.init mod) (pre ++ post))
      rw [run_append]; exact run_ext k _ post
    have hwf : WF w1 := run_wf k (WF_init mod) pre
    refine ⟨he.insts j inst hj, fun r hr => ?_⟩
    obtain ⟨c, hc, hco⟩ := hwf j inst hj r hr
    have h2 := he.tables r c hc (by rw [hco]; rfl)
    exact ⟨by rw [h2, hc], by rw [World.owner?_of_cell h2, hco]⟩

/-- **C15, tables keep the content they were constructed with.**  If a construction with valid arguments
happens after the history `pre`, then after ANY continuation `post` the new instance (number
`#instances after pre`) has the record created by the construction and its private tables contain exactly the
supplied `tables`. -/
theorem C15_tables_as_constructed (k : Prob.GklsConsts α) (mod : ModTab → List α) (pre post : List (Op α))
    (fam : Family) (args : List Nat) (tables : List (List α)) (hok : ConstructOk fam args tables) :
    let w0 := run k (World.init mod) pre
    let w := run k (World.init mod) (pre ++ [.construct fam args tables] ++ post)
    let refs := List.range' w0.cells.length fam.privCount
    w.insts[w0.insts.length]? = some { family := fam, args := args, priv := refs } ∧
    refs.map w.read = tables := by
  intro w0 w refs
  have hw : w = run k (exec k w0 (.construct fam args tables)).world post := by
    show run k (World.init mod) (pre ++ [.construct fam args tables] ++ post) = _
    rw [run_append, run_append]; rfl
  have hc := exec_construct_ok k w0 hok
  have he : Ext (exec k w0 (.construct fam args tables)).world w := by rw [hw]; exact run_ext k _ post
  have hwf : WF (exec k w0 (.construct fam args tables)).world :=
    exec_wf k (run_wf k (WF_init mod) pre) _
  have hrefs : refs = List.range' w0.cells.length tables.length := by rw [hok.length]
  have hinst : (exec k w0 (.construct fam args tables)).world.insts[w0.insts.length]? =
      some { family := fam, args := args, priv := refs } := by
    rw [hc, hrefs]
    simp only [List.getElem?_append_right (Nat.le_refl _), Nat.sub_self, List.getElem?_cons_zero]
  refine ⟨he.insts _ _ hinst, ?_⟩
  have hreads : refs.map (exec k w0 (.construct fam args tables)).world.read = tables := by
    rw [hc, hrefs]; exact construct_reads w0 _ tables
  rw [← hreads]
  apply List.map_congr_left
  intro r hr
  obtain ⟨c, hcell, hco⟩ := hwf _ _ hinst r hr
  exact World.read_congr (by rw [he.tables r c hcell (by rw [hco]; rfl), hcell])

/-- **C15, an instance evaluates every point the same way at every later time.**  For any history `pre`
from the initial world, any instance present after `pre`, any continuation `post` (constructions of siblings,
evaluations of this or other instances, caller writes): the instance's evaluation function is unchanged. -/
theorem C15_eval_stable (k : Prob.GklsConsts α) (mod : ModTab → List α) (pre post : List (Op α))
    (j : Nat) (inst : Inst) (x : List α) :
    let w1 := run k (World.init mod) pre
    let w2 := run k (World.init mod) (pre ++ post)
    w1.insts[j]? = some inst → evalInst k w2 inst x = evalInst k w1 inst x := by
  intro w1 w2 hj
  have he : Ext w1 w2 := by
    show Ext w1 (run k (World.init mod) (pre ++ post))
    rw [run_append]; exact run_ext k _ post
  exact evalInst_ext k he (run_wf k (WF_init mod) pre) hj
    (fun t => ⟨_, run_init_module k mod pre t, rfl⟩) x

/-- **C15, purity of the evaluation.**  In every history
`pre ++ [construct fam args tables] ++ mid ++ [calculate i p h]` (where `i` is the number the construction
returned), the value returned by the evaluation — and stored in the returned holder `h` — is
`evalOn fam args (module tables as imported) (tables as constructed) (content of p)`:
it depends on nothing else — not on `pre`, not on `mid`, not on sibling instances, not on earlier evaluations. -/
theorem C15_calc_pure (k : Prob.GklsConsts α) (mod : ModTab → List α) (pre mid : List (Op α))
    (fam : Family) (args : List Nat) (tables : List (List α)) (p h : Nat)
    (hok : ConstructOk fam args tables) :
    let i := (run k (World.init mod) pre).insts.length
    let w1 := run k (World.init mod) (pre ++ [.construct fam args tables] ++ mid)
    let res := exec k w1 (.calculate i p h)
    CalcOk w1 i p h →
      res.out = .value h (evalOn k fam args mod tables (w1.read p)) ∧
      res.world.read h = [evalOn k fam args mod tables (w1.read p)] := by
  intro i w1 res hcalc
  obtain ⟨hinst, hreads⟩ := C15_tables_as_constructed k mod pre mid fam args tables hok
  obtain ⟨inst, hi, hout, hval, -⟩ := (C15_calc_frame k w1 i p h).1 hcalc
  have hinst' : w1.insts[i]? = some _ := hinst
  have hev : ∀ inst', w1.insts[i]? = some inst' → ∀ x, evalInst k w1 inst' x = evalOn k fam args mod tables x := by
    intro inst' hi' x
    rw [hinst'] at hi'
    cases hi'
    unfold evalInst
    have hm : (fun t : ModTab => w1.read t.ref) = mod := by
      funext t
      exact World.read_of_cell (run_init_module k mod _ t)
    have hr : (List.range' (run k (World.init mod) pre).cells.length fam.privCount).map w1.read = tables := hreads
    simp only [hm, hr]
  exact ⟨by rw [hout, hev inst hi], by rw [hval, hev inst hi]⟩

/-- **C15, corollary: evaluating the same point twice gives the same value, with anything in between.**
Two evaluations of the same instance at any two moments of a history (any operations `between`, including
the first evaluation itself, constructions of siblings and caller writes), on arrays with equal content (the
same array or not), through any holders, return the same value. -/
theorem C15_calc_repeatable (k : Prob.GklsConsts α) (mod : ModTab → List α) (pre mid between : List (Op α))
    (fam : Family) (args : List Nat) (tables : List (List α)) (p h p' h' : Nat)
    (hok : ConstructOk fam args tables) :
    let i := (run k (World.init mod) pre).insts.length
    let hist := pre ++ [.construct fam args tables] ++ mid
    let w1 := run k (World.init mod) hist
    let w2 := run k (World.init mod) (hist ++ ([.calculate i p h] ++ between))
    CalcOk w1 i p h → CalcOk w2 i p' h' → w2.read p' = w1.read p →
    ∃ v, (exec k w1 (.calculate i p h)).out = .value h v ∧
         (exec k w2 (.calculate i p' h')).out = .value h' v := by
  intro i hist w1 w2 h1 h2 hsame
  refine ⟨evalOn k fam args mod tables (w1.read p), (C15_calc_pure k mod pre mid fam args tables p h hok h1).1, ?_⟩
  have := (C15_calc_pure k mod pre (mid ++ ([.calculate i p h] ++ between)) fam args tables p' h' hok)
  have hw : run k (World.init mod) (pre ++ [.construct fam args tables] ++ (mid ++ ([.calculate i p h] ++ between))) = w2 := by
    show _ = run k (World.init mod) (pre ++ [.construct fam args tables] ++ mid ++ ([.calculate i p h] ++ between))
    simp only [List.append_assoc]
  rw [hw] at this
  rw [← hsame]
  exact (this h2).1

end

/-- The statements above hold for every numeric type; in particular for the `Float` instance that the
compiled driver executes against the real Python classes (`ProbWorld.stepCmd` calls `exec gklsConstsF`). -/
theorem C15_calc_pure_Float (mod : ModTab → List Float) (pre mid : List (Op Float))
    (fam : Family) (args : List Nat) (tables : List (List Float)) (p h : Nat)
    (hok : ConstructOk fam args tables) :
    let i := (run gklsConstsF (World.init mod) pre).insts.length
    let w1 := run gklsConstsF (World.init mod) (pre ++ [.construct fam args tables] ++ mid)
    CalcOk w1 i p h →
      (exec gklsConstsF w1 (.calculate i p h)).out =
        .value h (evalOn gklsConstsF fam args mod tables (w1.read p)) :=
  fun hc => (C15_calc_pure gklsConstsF mod pre mid fam args tables p h hok hc).1

/-! ### concrete instances: non-vacuity and negative controls

A small exact number type (`Int`, with stand-ins for the transcendental functions) lets the kernel run
histories. -/

/-- stand-in library functions on `Int` (only used to *run* small histories in the kernel) -/
local instance intFns : MathFns Int where
  sin := id
  cos := fun x => x + 1
  exp := id
  sqrt := id
  pi := 3
  pow := fun x _ => x * x

def kInt : Prob.GklsConsts Int :=
  { maxValue := 1000000, precision := 0, domainLeft := -1, domainRight := 1, three := 3, four := 4 }

/-- module tables of the examples: two rows of Hill coefficients, everything else empty -/
def modInt : ModTab → List Int
  | .hillA => (List.range 28).map fun (i : Nat) => (i : Int) - 9
  | .hillB => (List.range 28).map fun (i : Nat) => 5 - (i : Int)
  | _ => []

def tabsX : List (List Int) := [[-1, -1], [1, 1], [0, 0], [0], [7, 2]]
def tabsH : List (List Int) := [[0], [1], [0], [-3], [5, 1]]

/-- a history with two instances (`XSquared(2)`, `Hill(1)`), a sibling `XSquared(2)` constructed in between,
a caller write, and evaluations revisiting an earlier point.
Refs: 0–15 module tables, 16–20 instance 0, 21–25 instance 1, 26 27 points, 28 29 holders, 30–34 instance 2, 35 point. -/
def histInt : List (Op Int) :=
  [.construct .xsquared [2] tabsX, .construct .hill [1] tabsH, .point [3, -2], .point [2],
   .holder, .holder,
   .calculate 0 26 28, .calculate 1 27 29,
   .construct .xsquared [2] tabsX, .point [1, 1], .calculate 2 35 28, .setPoint 27 [4],
   .calculate 1 27 29]

example : ConstructOk .xsquared [2] tabsX := by decide
example : ConstructOk .hill [1] tabsH := by decide

/-- non-vacuity of `C15_calc_frame` / `C15_calc_pure` / `C15_calc_repeatable`: after the history above the
re-evaluation of instance 0 at the first point is a well-formed call, and so is the evaluation of the Hill
instance (which reads rows of the module tables). -/
example : CalcOk (run kInt (World.init modInt) histInt) 0 26 29 :=
  ⟨⟨.xsquared, [2], [16, 17, 18, 19, 20]⟩, ⟨.caller, [3, -2]⟩, ⟨.holder, [-8953]⟩, rfl, rfl, rfl, rfl,
   by decide, rfl⟩

example : CalcOk (run kInt (World.init modInt) (histInt.take 7)) 1 27 29 :=
  ⟨⟨.hill, [1], [21, 22, 23, 24, 25]⟩, ⟨.caller, [2]⟩, ⟨.holder, [0]⟩, rfl, rfl, rfl, rfl, by decide, rfl⟩

/-- the model computes: `XSquared` at (3,-2) is 13 — before and after the sibling was constructed and other
instances were evaluated -/
example : (exec kInt (run kInt (World.init modInt) (histInt.take 6)) (.calculate 0 26 28)).world.read 28 = [13] ∧
    (exec kInt (run kInt (World.init modInt) histInt) (.calculate 0 26 29)).world.read 29 = [13] := by decide

/-- values through the closed form `evalOn` (what `C15_calc_pure` promises) -/
example : evalOn kInt .xsquared [2] modInt tabsX [3, -2] = 13 := by decide

/-- runs a history with a (possibly leaky) step function -/
def runWith {α : Type} (step : World α → Op α → StepResult α) (w : World α) (ops : List (Op α)) : World α :=
  ops.foldl (fun w op => (step w op).world) w

def Out.value? {α : Type} : Out α → Option α
  | .value _ v => some v
  | _ => none

/-- "close": every coordinate within 1 -/
def closeInt (a b : List Int) : Bool := (List.zip a b).all fun (x, y) => (x - y).natAbs ≤ 1

/-- prefix shared by the negative controls: one `XSquared(1)`, points `[3]` (ref 21) and `[4]` (ref 22),
a holder (ref 23), one evaluation at `[3]` -/
def leakPrefix : List (Op Int) :=
  [.construct .xsquared [1] [[-1], [1], [0], [0], []], .point [3], .point [4], .holder, .calculate 0 21 23]

/-- **negative control 1 (purity).**  With a `Calculate` that caches its last result in an instance cell and
answers from the cache for a close point, the conclusion of `C15_calc_pure` FAILS on a concrete history: the
evaluation at `[4]` after an evaluation at `[3]` returns 9, while `evalOn … [4] = 16` (and the genuine `exec`
returns 16 on the same history). -/
theorem C15_leaky_cache_not_pure :
    let step := execLeakyCache closeInt kInt
    let w := runWith step (World.init modInt) leakPrefix
    (step w (.calculate 0 22 23)).out.value? = some 9 ∧
    evalOn kInt .xsquared [1] modInt [[-1], [1], [0], [0], []] (w.read 22) = 16 ∧
    (exec kInt (run kInt (World.init modInt) leakPrefix) (.calculate 0 22 23)).out.value? = some 16 := by
  decide

/-- **negative control 2 (frame / stability).**  The same leaky `Calculate` violates `C15_calc_frame` and
`C15_tables_stable`: it reports (truthfully) a write to the instance cell 20, whose content differs from the
content it was constructed with. -/
theorem C15_leaky_cache_not_framed :
    let step := execLeakyCache closeInt kInt
    let w0 := runWith step (World.init modInt) (leakPrefix.take 4)
    let r := step w0 (.calculate 0 21 23)
    r.wrote = [20, 23] ∧ w0.read 20 = [] ∧ r.world.read 20 = [9, 3] := by
  decide

/-- **negative control 3 (the point).**  A `Calculate` that rewrites the point array in place (here: doubles it)
violates "does not modify the point": after one evaluation the caller's array `[3]` contains `[6]`, and a second
evaluation of the SAME array returns another value (36 → 144). -/
theorem C15_leaky_point_modifies_point :
    let step := execLeakyPoint (fun x => x.map (· * 2)) kInt
    let w0 := runWith step (World.init modInt) (leakPrefix.take 4)
    let r1 := step w0 (.calculate 0 21 23)
    let r2 := step r1.world (.calculate 0 21 23)
    w0.read 21 = [3] ∧ r1.world.read 21 = [6] ∧ r1.wrote = [21, 23] ∧
    r1.out.value? = some 36 ∧ r2.out.value? = some 144 := by
  decide

end ProbWorld
