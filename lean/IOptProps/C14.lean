import IOptProofs.GklsMain
import IOptProofs.GklsClass
import IOptProofs.GklsCertAll
/-!
# C14 — structure of the GKLS test functions

For every regenerated GKLS data set `r : Gen.GklsRaw` that passes the decidable certificate `Gkls.WF`
(exact integer arithmetic; kernel-decided for all 400 shipped data sets, `Gkls.wf_all`), the function
`F r x = Prob.gkls Gkls.consts (Gkls.toData r) x` (the model of `GKLSFunction.CalculateDFunction`
over the reals) is the paraboloid `‖x - T‖² + f_0` outside the nine balls `B_i = {‖x - M_i‖ ≤ ρ_i}`,
takes the prescribed value `f_i` at every minimiser `M_i`, is continuous across every sphere, is bounded
below by `f_i` inside ball `i`, and has global minimum `-1` attained only in the guard region of `M_1`.

Notation: `Gkls.dist x y = √(Σ (x_i - y_i)²)` (`= GKLS_norm`), `Gkls.M r i`, `Gkls.ρ r i`, `Gkls.fv r i`.
-/

namespace Gkls
open Prob

/-- the GKLS function of data set `r`, over the reals -/
noncomputable def F (r : Gen.GklsRaw) (x : List ℝ) : ℝ := gkls consts (toData r) x
/-- minimiser `M_i` of data set `r` (`M_0 = T` is the paraboloid vertex, `M_1` the global minimiser) -/
noncomputable def M (r : Gen.GklsRaw) (i : Nat) : List ℝ := Mi (toData r) i
/-- radius `ρ_i` of ball `i` -/
noncomputable def ρ (r : Gen.GklsRaw) (i : Nat) : ℝ := rhoi (toData r) i
/-- prescribed value `f_i` at `M_i` -/
noncomputable def fv (r : Gen.GklsRaw) (i : Nat) : ℝ := fi (toData r) i

/-- **C14 (paraboloid outside the balls).** If `x` passes the domain check and lies outside all balls
`1..9`, then `F x = ‖x - T‖² + f_0`. -/
theorem C14_paraboloid_outside (r : Gen.GklsRaw) (hwf : WF r = true) (x : List ℝ) (hdom : InDomain x)
    (hout : ∀ i, 1 ≤ i → i < 10 → ρ r i < dist x (M r i)) :
    F r x = dist x (M r 0) ^ 2 + fv r 0 :=
  paraboloid_outside (good_of_WF r hwf) x hdom hout

/-- **C14 (value at the minimisers).** `F M_i = f_i` for every `i = 0..9`. -/
theorem C14_value_at_minimiser (r : Gen.GklsRaw) (hwf : WF r = true) (i : Nat) (hi : i < 10) :
    F r (M r i) = fv r i :=
  value_at_minimiser (good_of_WF r hwf) i hi

/-- **C14 (splice).** On the sphere `‖x - M_i‖ = ρ_i` of ball `i ≥ 1` the cubic branch equals the
paraboloid value `‖x - T‖² + f_0`, and so does `F` itself: the function is continuous across the sphere. -/
theorem C14_splice (r : Gen.GklsRaw) (hwf : WF r = true) (x : List ℝ) (hx : x.length = r.dim)
    (hdom : InDomain x) (i : Nat) (h1i : 1 ≤ i) (hi : i < 10) (hb : dist x (M r i) = ρ r i) :
    cubicVal (toData r) i x = dist x (M r 0) ^ 2 + fv r 0 ∧ F r x = dist x (M r 0) ^ 2 + fv r 0 :=
  ⟨cubicVal_on_sphere (good_of_WF r hwf) x hx i h1i hi hb, splice (good_of_WF r hwf) x hx hdom i h1i hi hb⟩

/-- **C14 (lower bound in a ball).** For `x` in ball `i ≥ 1`: `F x ≥ f_i`, with equality only in the
guard region `‖x - M_i‖ < 10⁻¹⁰`. -/
theorem C14_ball_lower_bound (r : Gen.GklsRaw) (hwf : WF r = true) (x : List ℝ) (hx : x.length = r.dim)
    (hdom : InDomain x) (i : Nat) (h1i : 1 ≤ i) (hi : i < 10) (hin : dist x (M r i) ≤ ρ r i) :
    fv r i ≤ F r x ∧ (F r x = fv r i → dist x (M r i) < 1e-10) :=
  ball_lower_bound (good_of_WF r hwf) x hx hdom i h1i hi hin

/-- **C14 (global minimum).** On the box `[-1,1]^n`: `F x ≥ -1`; `F M_1 = -1`; and `F x = -1` only
within `10⁻¹⁰` of `M_1`. -/
theorem C14_global_min (r : Gen.GklsRaw) (hwf : WF r = true) :
    (∀ x : List ℝ, x.length = r.dim → InBox x → -1 ≤ F r x) ∧
    F r (M r 1) = -1 ∧
    (∀ x : List ℝ, x.length = r.dim → InBox x → F r x = -1 → dist x (M r 1) < 1e-10) := by
  obtain ⟨h1, h2, h3⟩ := global_min (good_of_WF r hwf)
  exact ⟨fun x hx hb => h1 x hx hb.inDomain, h2, fun x hx hb => h3 x hx hb.inDomain⟩

/-- the same on the whole domain accepted by the domain check (box with slack `10⁻¹⁰`) -/
theorem C14_global_min_domain (r : Gen.GklsRaw) (hwf : WF r = true) :
    (∀ x : List ℝ, x.length = r.dim → InDomain x → -1 ≤ F r x) ∧
    (∀ x : List ℝ, x.length = r.dim → InDomain x → F r x = -1 → dist x (M r 1) < 1e-10) := by
  obtain ⟨h1, _, h3⟩ := global_min (good_of_WF r hwf)
  exact ⟨h1, h3⟩

/-- **C14 (class clauses).** For all 400 shipped data sets: the declared optimum point is `M_1`
(`gm_index[0] = 1`, exactly one global minimiser), the declared optimum value is `-1`, `ρ_1` is exactly the
class parameter `global_radius`, `‖M_1 - T‖²` agrees with `global_dist²` up to `10⁻⁹`, `isArgSet = 1`,
and the data set is the one requested (`dim = d`, `number = k`). -/
theorem C14_class : ∀ d ∈ [2, 3, 4, 5], ∀ k ∈ List.range' 1 100,
    ClassSpec (Gen.gkls d k) ∧ (Gen.gkls d k).dim = d ∧ (Gen.gkls d k).number = k := by
  intro d hd k hk
  have h := cert_all d hd k hk
  exact ⟨classSpec_of_ClassOK _ (Cert.wf h) (Cert.classOK h), Cert.dim_eq h, Cert.number_eq h⟩

/-! ### Non-vacuity -/

/-- the certificate holds on a concrete data set -/
example : WF (Gen.gkls 2 1) = true := wf_all 2 (by decide) 1 (by decide)

/-- the hypotheses of `C14_ball_lower_bound` / `C14_splice` are satisfiable: the minimiser `M_3` of
GKLS(2, 1) lies in ball 3, has the right length and passes the domain check. -/
example : ∃ x : List ℝ, x.length = (Gen.gkls 2 1).dim ∧ InDomain x ∧
    dist x (M (Gen.gkls 2 1) 3) ≤ ρ (Gen.gkls 2 1) 3 := by
  have hD := good_of_WF _ (wf_all 2 (by decide) 1 (by decide))
  refine ⟨M (Gen.gkls 2 1) 3, hD.len_M 3 (by omega), (Mi_inBox hD 3 (by omega)).inDomain, ?_⟩
  rw [dist_self]
  exact (hD.rho_pos 3 (by omega)).le

/-- the hypotheses of `C14_paraboloid_outside` are satisfiable: the vertex `T = M_0` of GKLS(2, 1) is in the
domain and outside every ball. -/
example : InDomain (M (Gen.gkls 2 1) 0) ∧
    ∀ i, 1 ≤ i → i < 10 → ρ (Gen.gkls 2 1) i < dist (M (Gen.gkls 2 1) 0) (M (Gen.gkls 2 1) i) := by
  have hD := good_of_WF _ (wf_all 2 (by decide) 1 (by decide))
  exact ⟨(Mi_inBox hD 0 (by omega)).inDomain, fun i h1i hi => vertex_outside hD i h1i hi⟩

end Gkls
