import IOptProofs.GklsMain
import IOptProofs.GklsCont
import IOptProofs.GklsClass
import IOptProofs.GklsCertAll
/-!
# C14 — structure of the GKLS test functions

For every regenerated GKLS data set `r : Gen.GklsRaw` that passes the decidable certificate `Gkls.WF`
(exact integer arithmetic; kernel-decided for all 400 shipped data sets, `Gkls.wf_all`), the function
`F r x = Prob.gkls Gkls.consts (Gkls.toData r) x` (the model of `GKLSFunction.CalculateDFunction`
over the reals) is the paraboloid `‖x - T‖² + f_0` outside the nine balls `B_i = {‖x - M_i‖ ≤ ρ_i}`,
takes the prescribed value `f_i` at every minimiser `M_i`, is continuous across every sphere, is bounded
below by `f_i` inside ball `i`, and has global minimum `-1` attained only in the guard region of `M_1`.

Notation: `Gkls.dist x y = √(Σ (x_i - y_i)²)` (`= GKLS_norm`), `Gkls.M r i`, `Gkls.ρ r i`, `Gkls.fv r i`.
-/

namespace Gkls
open Prob

/-- the GKLS function of data set `r`, over the reals -/
noncomputable def F (r : Gen.GklsRaw) (x : List ℝ) : ℝ := gkls consts (toData r) x
/-- minimiser `M_i` of data set `r` (`M_0 = T` is the paraboloid vertex, `M_1` the global minimiser) -/
noncomputable def M (r : Gen.GklsRaw) (i : Nat) : List ℝ := Mi (toData r) i
/-- radius `ρ_i` of ball `i` -/
noncomputable def ρ (r : Gen.GklsRaw) (i : Nat) : ℝ := rhoi (toData r) i
/-- prescribed value `f_i` at `M_i` -/
noncomputable def fv (r : Gen.GklsRaw) (i : Nat) : ℝ := fi (toData r) i

/-- **C14 (paraboloid outside the balls).** If `x` passes the domain check and lies outside all balls
`1..9`, then `F x = ‖x - T‖² + f_0`. -/
theorem C14_paraboloid_outside (r : Gen.GklsRaw) (hwf : WF r = true) (x : List ℝ) (hdom : InDomain x)
    (hout : ∀ i, 1 ≤ i → i < 10 → ρ r i < dist x (M r i)) :
    F r x = dist x (M r 0) ^ 2 + fv r 0 :=
  paraboloid_outside (good_of_WF r hwf) x hdom hout

/-- **C14 (value at the minimisers).** `F M_i = f_i` for every `i = 0..9`. -/
theorem C14_value_at_minimiser (r : Gen.GklsRaw) (hwf : WF r = true) (i : Nat) (hi : i < 10) :
    F r (M r i) = fv r i :=
  value_at_minimiser (good_of_WF r hwf) i hi

/-- **C14 (splice).** On the sphere `‖x - M_i‖ = ρ_i` of ball `i ≥ 1` the cubic branch equals the
paraboloid value `‖x - T‖² + f_0`, and so does `F` itself: the function is continuous across the sphere. -/
theorem C14_splice (r : Gen.GklsRaw) (hwf : WF r = true) (x : List ℝ) (hx : x.length = r.dim)
    (hdom : InDomain x) (i : Nat) (h1i : 1 ≤ i) (hi : i < 10) (hb : dist x (M r i) = ρ r i) :
    cubicVal (toData r) i x = dist x (M r 0) ^ 2 + fv r 0 ∧ F r x = dist x (M r 0) ^ 2 + fv r 0 :=
  ⟨cubicVal_on_sphere (good_of_WF r hwf) x hx i h1i hi hb, splice (good_of_WF r hwf) x hx hdom i h1i hi hb⟩

/-- **C14 (lower bound in a ball).** For `x` in ball `i ≥ 1`: `F x ≥ f_i`, with equality only in the
guard region `‖x - M_i‖ < 10⁻¹⁰`. -/
theorem C14_ball_lower_bound (r : Gen.GklsRaw) (hwf : WF r = true) (x : List ℝ) (hx : x.length = r.dim)
    (hdom : InDomain x) (i : Nat) (h1i : 1 ≤ i) (hi : i < 10) (hin : dist x (M r i) ≤ ρ r i) :
    fv r i ≤ F r x ∧ (F r x = fv r i → dist x (M r i) < 1e-10) :=
  ball_lower_bound (good_of_WF r hwf) x hx hdom i h1i hi hin

/-- **C14 (global minimum).** On the box `[-1,1]^n`: `F x ≥ -1`; `F M_1 = -1`; and `F x = -1` only
within `10⁻¹⁰` of `M_1`. -/
theorem C14_global_min (r : Gen.GklsRaw) (hwf : WF r = true) :
    (∀ x : List ℝ, x.length = r.dim → InBox x → -1 ≤ F r x) ∧
    F r (M r 1) = -1 ∧
    (∀ x : List ℝ, x.length = r.dim → InBox x → F r x = -1 → dist x (M r 1) < 1e-10) := by
  obtain ⟨h1, h2, h3⟩ := global_min (good_of_WF r hwf)
  exact ⟨fun x hx hb => h1 x hx hb.inDomain, h2, fun x hx hb => h3 x hx hb.inDomain⟩

/-- the same on the whole domain accepted by the domain check (box with slack `10⁻¹⁰`) -/
theorem C14_global_min_domain (r : Gen.GklsRaw) (hwf : WF r = true) :
    (∀ x : List ℝ, x.length = r.dim → InDomain x → -1 ≤ F r x) ∧
    (∀ x : List ℝ, x.length = r.dim → InDomain x → F r x = -1 → dist x (M r 1) < 1e-10) := by
  obtain ⟨h1, _, h3⟩ := global_min (good_of_WF r hwf)
  exact ⟨h1, h3⟩

/-- **C14 (class clauses).** For all 400 shipped data sets: the declared optimum point is `M_1`
(`gm_index[0] = 1`, exactly one global minimiser), the declared optimum value is `-1`, `ρ_1` is exactly the
class parameter `global_radius`, `‖M_1 - T‖²` agrees with `global_dist²` up to `10⁻⁹`, `isArgSet = 1`,
and the data set is the one requested (`dim = d`, `number = k`). -/
theorem C14_class : ∀ d ∈ [2, 3, 4, 5], ∀ k ∈ List.range' 1 100,
    ClassSpec (Gen.gkls d k) ∧ (Gen.gkls d k).dim = d ∧ (Gen.gkls d k).number = k := by
  intro d hd k hk
  have h := cert_all d hd k hk
  exact ⟨classSpec_of_ClassOK _ (Cert.wf h) (Cert.classOK h), Cert.dim_eq h, Cert.number_eq h⟩

/-- **C14 (quadratic bound at the centres).** In ball `i ≥ 1` the cubic branch satisfies
`|cubic(x) - f_i| ≤ C_i ‖x - M_i‖²` with `C_i = (ρ_i² + 4 ‖T - M_i‖ ρ_i + 3 |a_i|) / ρ_i²`
(so the guard value `f_i` differs from the cubic by at most `C_i · 10⁻²⁰` inside the guard region). -/
theorem C14_quadratic_bound (r : Gen.GklsRaw) (hwf : WF r = true) (x : List ℝ) (hx : x.length = r.dim)
    (i : Nat) (h1i : 1 ≤ i) (hi : i < 10) (hin : dist x (M r i) ≤ ρ r i) :
    |cubicVal (toData r) i x - fv r i| ≤ quadC (toData r) i * dist x (M r i) ^ 2 :=
  cubicVal_sub_le (good_of_WF r hwf) x hx i h1i hi hin

/-- the ideal GKLS function of data set `r`: the model with the PRECISION constant (guard threshold and
domain slack) set to `0` -/
noncomputable def Fideal (r : Gen.GklsRaw) (x : List ℝ) : ℝ := gkls (constsP 0) (toData r) x

/-- **C14 (continuity).** The ideal function (guard threshold `0`) is continuous on the box `[-1,1]^n`
(points are coordinate functions `v : Fin n → ℝ`, evaluated at the list `List.ofFn v`). -/
theorem C14_continuous (r : Gen.GklsRaw) (hwf : WF r = true) :
    ContinuousOn (fun v : Fin r.dim → ℝ => Fideal r (List.ofFn v)) (boxSet r.dim) :=
  ideal_continuousOn (good_of_WF r hwf)

/-- the ideal function and the code's function differ only inside the guard regions: if `x` is in the box and
at distance `≥ 10⁻¹⁰` from every `M_i` (`i ≥ 1`) then `F x = Fideal x`. -/
theorem C14_ideal_eq (r : Gen.GklsRaw) (hwf : WF r = true) (x : List ℝ) (hx : x.length = r.dim) (hbox : InBox x)
    (hfar : ∀ i, 1 ≤ i → i < 10 → (1e-10 : ℝ) ≤ dist x (M r i)) : F r x = Fideal r x := by
  have hD := good_of_WF r hwf
  unfold F Fideal
  by_cases h : ∃ i, 1 ≤ i ∧ i < 10 ∧ dist x (M r i) ≤ ρ r i
  · obtain ⟨i, h1i, hi, hin⟩ := h
    have h1 : ¬ dist x (Mi (toData r) i) < 1e-10 := not_lt.mpr (hfar i h1i hi)
    have h2 : ¬ dist x (Mi (toData r) i) < 0 := not_lt.mpr (dist_nonneg _ _)
    rw [value_inside hD x hx hbox.inDomain i h1i hi hin,
      value_insideP hD 0 x hx (hbox.inDomainP (le_refl 0)) i h1i hi hin, if_neg h1, if_neg h2]
  · have hout : ∀ i, 1 ≤ i → i < 10 → ρ r i < dist x (M r i) := by
      intro i h1i hi
      by_contra hc
      exact h ⟨i, h1i, hi, not_lt.mp hc⟩
    rw [paraboloid_outside hD x hbox.inDomain hout,
      paraboloid_outsideP hD 0 x (hbox.inDomainP (le_refl 0)) hout]

/-! ### Non-vacuity -/

/-- the certificate holds on a concrete data set (kernel-decided; all 400: `Gkls.wf_all`) -/
example : WF (Gen.gkls 2 1) = true := by
  set_option maxRecDepth 100000 in
  decide +kernel

/-- the certificate discriminates: GKLS(2, 1) with a second global minimum (`f_2 := -1`) or with ball 3
enlarged to radius 1 is rejected -/
example : WF { Gen.gkls 2 1 with f := (Gen.gkls 2 1).f.set 2 (-1, 0) } = false ∧
    WF { Gen.gkls 2 1 with rho := (Gen.gkls 2 1).rho.set 3 (1, 0) } = false := by
  set_option maxRecDepth 100000 in
  decide +kernel

/-- the hypotheses of `C14_ball_lower_bound` / `C14_splice` are satisfiable: the minimiser `M_3` of
GKLS(2, 1) lies in ball 3, has the right length and passes the domain check. -/
example : ∃ x : List ℝ, x.length = (Gen.gkls 2 1).dim ∧ InDomain x ∧
    dist x (M (Gen.gkls 2 1) 3) ≤ ρ (Gen.gkls 2 1) 3 := by
  have hD := good_of_WF _ (wf_all 2 (by decide) 1 (by decide))
  refine ⟨M (Gen.gkls 2 1) 3, hD.len_M 3 (by omega), (Mi_inBox hD 3 (by omega)).inDomain, ?_⟩
  rw [dist_self]
  exact (hD.rho_pos 3 (by omega)).le

/-- the hypotheses of `C14_paraboloid_outside` are satisfiable: the vertex `T = M_0` of GKLS(2, 1) is in the
domain and outside every ball. -/
example : InDomain (M (Gen.gkls 2 1) 0) ∧
    ∀ i, 1 ≤ i → i < 10 → ρ (Gen.gkls 2 1) i < dist (M (Gen.gkls 2 1) 0) (M (Gen.gkls 2 1) i) := by
  have hD := good_of_WF _ (wf_all 2 (by decide) 1 (by decide))
  exact ⟨(Mi_inBox hD 0 (by omega)).inDomain, fun i h1i hi => vertex_outside hD i h1i hi⟩

/-- the hypotheses of `C14_splice` are satisfiable for every well-formed data set and every ball: each sphere
contains a point of the box. -/
example (r : Gen.GklsRaw) (hwf : WF r = true) (i : Nat) (h1i : 1 ≤ i) (hi : i < 10) :
    ∃ x : List ℝ, x.length = r.dim ∧ InDomain x ∧ dist x (M r i) = ρ r i := by
  obtain ⟨x, hx, hb, hs⟩ := exists_on_sphere (good_of_WF r hwf) i h1i hi
  exact ⟨x, hx, hb.inDomain, hs⟩

/-- evaluating at a hypothesis-satisfying point: the value at the global minimiser of GKLS(2, 1) is `-1`. -/
example : F (Gen.gkls 2 1) (M (Gen.gkls 2 1) 1) = -1 :=
  (C14_global_min _ (wf_all 2 (by decide) 1 (by decide))).2.1

end Gkls
