import IOptGen.AllocSites
/-!
# Census of shared-state sites (serves C06, C10–C15, C17–C20)

Every property that quantifies over several objects or several calls ("whatever other instances were created or evaluated",
"not on earlier queries", "creating other Solver instances never changes …") presupposes that no state is shared between
instances beyond what the model accounts for.  `IOptGen/AllocSites.lean` is REGENERATED from the sources on every run: a
census, by `ast`, of every place under `iOpt/` where such state can live —

* mutable default arguments (list / dict / set / comprehension / call),
* class-level attributes bound to a mutable literal, a comprehension or the result of a call,
* module-level names bound to a mutable literal or comprehension (the data tables of the `*_generation` modules are
  regenerated and fingerprinted separately),
* memoising decorators (`functools.lru_cache`, `cache`, …), `global` statements, stores to class attributes from inside functions,
  calls that change interpreter-wide state (`np.seterr`, `random.seed`, `warnings.filterwarnings`, `sys.setrecursionlimit`, …),
* assignments to attributes of a parameters object (`parameters.x = …`, `self.parameters.x = …`).

The obligation below says that the census of the CURRENT sources is covered, with multiplicity and ignoring line numbers, by
the explicit allow-list of sites that the model accounts for.  A new site (a class-level cache, a shared generator object, a
memoised method, a write to the shared default `SolverParameters()` …) breaks it.
-/

namespace SharedState

/-- the sites present in the validated sources, with multiplicity: (file, function or class, kind, callee/name) -/
def allowedSites : List (String × String × String × String) := [
  -- `Evolvent.__init__(lowerBoundOfFloatVariables=[], upperBoundOfFloatVariables=[])`: copied with `np.copy`, never written
  ("iOpt/evolvent/evolvent.py", "__init__", "List", ""),
  ("iOpt/evolvent/evolvent.py", "__init__", "List", ""),
  -- `Evolvent.SetBounds(lowerBoundOfFloatVariables=[], upperBoundOfFloatVariables=[])`: copied with `np.copy`, never written
  ("iOpt/evolvent/evolvent.py", "SetBounds", "List", ""),
  ("iOpt/evolvent/evolvent.py", "SetBounds", "List", ""),
  -- `StaticNDPaintListener.__init__(varsIndxs=[0, 1])`, `AnimationNDPaintListener.__init__(varsIndxs=[0, 1])`: read only
  ("iOpt/method/listener.py", "__init__", "List", ""),
  ("iOpt/method/listener.py", "__init__", "List", ""),
  -- `Solver.__init__(parameters=SolverParameters())`: one shared parameters object, never written by the library
  ("iOpt/solver.py", "__init__", "Call", "SolverParameters"),
  -- `SolverParameters.__init__(startPoint=[])`: unused
  ("iOpt/solver_parametrs.py", "__init__", "List", "")]

/-- a generated site without its line number -/
def siteKey (s : String × String × String × String × Nat) : String × String × String × String :=
  (s.1, s.2.1, s.2.2.1, s.2.2.2.1)

/-- **No shared-state site that the model does not know.**  Every site of the regenerated census is one of the allow-list,
with multiplicity (a second mutable default in an allow-listed function is NOT covered). -/
theorem census_covered :
    ∀ k ∈ Gen.allocSites.map siteKey, (Gen.allocSites.map siteKey).count k ≤ allowedSites.count k := by
  decide

/-- in particular: no class-level mutable attribute, no module-level mutable name, no memoising decorator, no `global`
statement and no write to a parameters object anywhere under `iOpt/` -/
theorem only_default_arguments :
    ∀ s ∈ Gen.allocSites, s.2.2.1 = "List" ∨ s.2.2.1 = "Call" := by
  decide

/-- non-vacuity: the census is not empty, and the kinds of site introduced by known defects / seeded changes are rejected -/
example : 0 < Gen.allocSites.length ∧
    allowedSites.count ("iOpt/solution.py", "__init__", "List", "") = 0 ∧
    allowedSites.count ("iOpt/method/search_data.py", "SearchData", "classattr:Call", "CharacteristicsQueue") = 0 ∧
    allowedSites.count ("iOpt/solver.py", "<parameters-write>", "attribute-store", "evolventDensity") = 0 := by decide

end SharedState
