import IOptProofs.ProcessResume
import IOptProps.C03total
/-!
# C03 / C11 — resumed searches: `Solve` after the parameters object was changed in place

In the Python code `SolverParameters` is one mutable object shared by `Solver`, `Method` and `Process`, and
`Method.CheckStopCondition` reads `parameters.eps` and `parameters.itersLimit` live.  So a finished search can
be resumed: `Solve()`; `solver.parameters.itersLimit = L2` and/or `solver.parameters.eps = E2`; `Solve()` again.

In the model every operation takes the parameters as an argument, so the resumed run is
`solve p2 f refine (solve p1 f refine1 {})` where `p2` agrees with `p1` in `n`, `r` and the evolvent
(`AGP.SameMethod p1 p2`).  Local refinements may be configured in either phase: a refinement overwrites the point and
the value holder of the best trial (after which the method state is no longer a state of the canonical sequence), but
the global search never reads these (`C11_resume_refinement_irrelevant`), so every statement about trials, records,
counters, accuracy and the stop status holds with or without them.

* `C03_sequence_independent_of_stop_parameters`: `prepare`, `commit`, the canonical sequence, `δ_k`, reachability
  and the invariant `AGP.Inv` do not depend on `eps` / `itersLimit`.
* `C03_resume`: the resumed run continues the SAME trial sequence and stops at the first `K ≥ K1` at which the
  NEW criterion holds — never earlier, never later; at once if it already holds.
* `C11_resume_same_sequence`: the evaluations of the resumed run extend those of the first phase, and the run
  makes exactly `max K1 Ku` trials, `Ku` being the length of ONE uninterrupted run with the second parameters;
  if `K1 ≤ Ku` the two runs are equal (everything but the event log and what a refinement overwrites).
* `C03_resume_accuracy`: the reported accuracy is the least Hölder length of an interval subdivided in either phase.
* corollaries `C03_resume_unchanged`, `C03_resume_tighten`, `C03_resume_raise_budget`.
* `C03_resume_many`: any number of resumptions — after `Solve` with `q_1, …, q_n` in turn the solver has made
  exactly `max_i Ku(q_i)` trials of the one canonical sequence (`Ku(q)`: trials of one uninterrupted run with `q`).

Each statement comes in two forms: `…_generic` over any numeric type with a linear order, with "neither `Solve`
catches an exception" as hypotheses (so that it can be instantiated on executable runs over ℚ), and the headline
form over an ordered field with the laws of the library functions (`FnsLaws`), `1 < r`, `0 < n` and a total
objective, where those hypotheses are discharged.  Statements are written as
`∀ S1 S, S1 = solve p1 … {} → S = solve p2 … S1 → …` to keep them readable (instantiate with `_ _ rfl rfl`).
-/
set_option linter.unusedSectionVars false

namespace C03
open AGP AGP.Ctl Proc

/-- `StopsAt p f eps L K`, spelled out: `CheckStopCondition` with accuracy `eps` and budget `L`, read on the
trial sequence of `p` after `K` trials (`δ_k = delta p f k` is the Hölder length of the interval subdivided by
trial `k ≥ 2`). -/
theorem stopsAt_iff {α : Type} [Add α] [Sub α] [Mul α] [Div α] [Neg α] [LT α] [LE α]
    [DecidableLT α] [DecidableLE α] [OfNat α 0] [OfNat α 1] [OfNat α 2] [OfNat α 4] [Fns α]
    (p : Params α) (f : Nat → List α → Option α) (eps : α) (L K : Nat) :
    StopsAt p f eps L K ↔ (L ≤ K ∨ ∃ k d, k ≤ K ∧ delta p f k = some d ∧ d < eps) := Iff.rfl

/-- **The trial sequence does not depend on `eps` / `itersLimit`.**  For two parameter objects that agree in
`n`, `r` and the evolvent: one pass of `DoGlobalIteration` (selection `prepare`, evaluation, `commit`) gives the
same result, hence the canonical sequences, the selected lengths `δ_k`, the set of reachable method states and
the invariant `AGP.Inv` coincide. -/
theorem C03_sequence_independent_of_stop_parameters {α : Type} [Field α] [LinearOrder α] [IsStrictOrderedRing α]
    [Fns α] (p1 p2 : Params α) (hs : SameMethod p1 p2) (f : Nat → List α → Option α) :
    (∀ s, prepare p2 s = prepare p1 s) ∧ (∀ pr z, commit p2 pr z = commit p1 pr z) ∧
    (∀ z, firstIteration p2 z = firstIteration p1 z) ∧
    (∀ ps, oneIteration p2 f ps = oneIteration p1 f ps) ∧
    (∀ k ps, iterN p2 f k ps = iterN p1 f k ps) ∧
    (∀ k, delta p2 f k = delta p1 f k) ∧
    (∀ s log, Reach p2 s log ↔ Reach p1 s log) ∧ (∀ s, Inv p2 s ↔ Inv p1 s) := by
  refine ⟨?_, ?_, ?_, oneIteration_sameMethod hs f, iterN_sameMethod hs f, delta_sameMethod hs f,
    fun s log => Reach_sameMethod hs, fun s => Inv_sameMethod hs⟩
  · intro s; rw [hs.eq_update]; rfl
  · intro pr z; rw [hs.eq_update]; rfl
  · intro z; rw [hs.eq_update]; rfl

section linear
variable {α : Type} [Add α] [Sub α] [Mul α] [Div α] [Neg α] [LinearOrder α]
  [OfNat α 0] [OfNat α 1] [OfNat α 2] [OfNat α 4] [Fns α]

/-- **C03 for a resumed search (any ordered numeric type; "nothing raises" as hypotheses).**
Same statement as `C03_resume` below. -/
theorem C03_resume_generic (p1 p2 : Params α) (f : Nat → List α → Option α)
    (refine1 refine : PState α → Option (LocalResult α)) (hs : SameMethod p1 p2)
    (hnr1 : (solveLoop p1 f (p1.itersLimit + 1) {}).2 = false)
    (hnr2 : (solveLoop p2 f (p2.itersLimit + 1) (solve p1 f refine1 {})).2 = false) :
    ∀ S1 S : PState α, S1 = solve p1 f refine1 {} → S = solve p2 f refine S1 →
    ∃ K1 K2, S1.nTrials = K1 ∧ S.nTrials = K2 ∧ K1 ≤ K2 ∧ stopNow p2 S = true ∧
      StopsAt p1 f p2.eps p2.itersLimit K2 ∧
      (∀ K, K1 ≤ K → K < K2 → ¬ StopsAt p1 f p2.eps p2.itersLimit K) ∧
      (K2 = K1 ↔ StopsAt p1 f p2.eps p2.itersLimit K1) ∧
      (K2 = K1 ↔ stopNow p2 S1 = true) ∧
      (K2 = K1 → S = (refineStep refine S1).appendLog [Event.methodStop true]) ∧
      (∀ k, 2 ≤ k → k ≤ K2 → ∃ d, delta p1 f k = some d) ∧
      (S.evals.length = K2 ∧ S.iters = K2 ∧ S.calls = K2 ∧
        ∀ i pt z, S.evals[i]? = some (pt, z) → f i pt = some z) ∧
      K2 ≤ max p1.itersLimit p2.itersLimit := by
  rintro S1 S rfl rfl
  -- reduce to a first phase without refinement: the refinement is never read by the global search
  rw [resume_raised_forget p1 p2 f refine1 (fun _ => none)] at hnr2
  obtain ⟨hF1, hF⟩ := resume_forget p1 p2 f refine1 (fun _ => none) refine refine
  obtain ⟨-, -, -, gn1, -, -, gs1⟩ := fields_of_forget hF1
  obtain ⟨ge, gc, -, gn, gi, -, gs⟩ := fields_of_forget hF
  have hgen : stopNow p2 (solve p1 f refine1 {}) = true →
      solve p2 f refine (solve p1 f refine1 {}) =
        (refineStep refine (solve p1 f refine1 {})).appendLog [Event.methodStop true] := by
    intro hst
    rw [solve_eq, solveLoop_of_stop _ hst]
    simp only []
    rw [(refineStep_fields (p := p2) refine _).2.2.2.2.2.2.2.1, hst]
  rw [gn1, gn, gs p2, gs1 p2, ge, gi, gc]
  obtain ⟨K1, ps1, ids1, K2, ps2, ids2, X, hrun1, hc1, hcrit1, hmin1, h12, hrun2, hst2, hmin2, hstop2, hsl, hcX, hS⟩ :=
    resume_spec hs hnr1 hnr2 refine
  have hrun2' : iterN p2 f K2 {} = .ok (ps2, ids1 ++ ids2) := by rw [iterN_sameMethod hs]; exact hrun2
  have hrun1' : iterN p2 f K1 {} = .ok (ps1, ids1) := by rw [iterN_sameMethod hs]; exact hrun1
  obtain ⟨n1, -⟩ := fields_of_core hc1
  have hK1 : (solve p1 f (fun _ => none) {}).nTrials = K1 := by
    rw [n1, (iterN_counters hrun1).2.1]; exact Nat.zero_add K1
  obtain ⟨f1, f2, f3, -, f5, -, f7⟩ := fields_of_run hrun2 hcX refine [Event.methodStop true]
  have hstopS1 : stopNow p2 (solve p1 f (fun _ => none) {}) = true ↔ StopsAt p1 f p2.eps p2.itersLimit K1 := by
    rw [stopNow_congr hc1, stopNow_iff_crit hrun1', crit_iff_stopsAt hs]
  have heq : K2 = K1 ↔ StopsAt p1 f p2.eps p2.itersLimit K1 := by
    constructor
    · intro h; rw [← h]; exact hst2
    · intro h
      rcases Nat.eq_or_lt_of_le h12 with e | hlt
      · exact e.symm
      · exact absurd h (hmin2 K1 (Nat.le_refl _) hlt)
  have hK1L : K1 ≤ p1.itersLimit := by
    rcases Nat.lt_or_ge p1.itersLimit K1 with h | h
    · exact absurd ((crit_fresh_iff p1 f _).2 (.inr (Nat.le_refl _))) (hmin1 _ h)
    · exact h
  rw [hS]
  refine ⟨K1, K2, hK1, f1, h12, ?_, hst2, hmin2, heq, heq.trans hstopS1.symm, ?_, delta_defined_of_run hrun2,
    ⟨f5, f2, f3, f7⟩, ?_⟩
  · rw [stopNow_congr (PState.appendLog_core _ _), (refineStep_fields (p := p2) refine X).2.2.2.2.2.2.2.1,
      stopNow_congr hcX, hstop2]
  · intro h
    have hst : stopNow p2 (solve p1 f (fun _ => none) {}) = true := hstopS1.2 (heq.1 h)
    exact hgen (by rw [gs1 p2]; exact hst)
  · rcases Nat.eq_or_lt_of_le h12 with e | hlt
    · rw [← e]; exact Nat.le_trans hK1L (Nat.le_max_left _ _)
    · have hns := hmin2 (K2 - 1) (by omega) (by omega)
      have : ¬ p2.itersLimit ≤ K2 - 1 := fun h => hns (.inl h)
      exact Nat.le_trans (by omega) (Nat.le_max_right _ _)

/-- **C03, accuracy after a resumed search (any ordered numeric type; "nothing raises" as hypotheses).**
Same statement as `C03_resume_accuracy` below. -/
theorem C03_resume_accuracy_generic (p1 p2 : Params α) (f : Nat → List α → Option α)
    (refine1 refine : PState α → Option (LocalResult α)) (hs : SameMethod p1 p2)
    (hnr1 : (solveLoop p1 f (p1.itersLimit + 1) {}).2 = false)
    (hnr2 : (solveLoop p2 f (p2.itersLimit + 1) (solve p1 f refine1 {})).2 = false) :
    ∀ S1 S : PState α, S1 = solve p1 f refine1 {} → S = solve p2 f refine S1 →
    S.minDelta = foldMin none (deltas p1 f {} S.nTrials) ∧
    (∀ d, d ∈ deltas p1 f {} S.nTrials ↔ ∃ k, 2 ≤ k ∧ k ≤ S.nTrials ∧ delta p1 f k = some d) ∧
    (S.nTrials ≤ 1 → S.minDelta = none) ∧
    (2 ≤ S.nTrials → ∃ m, S.minDelta = some m ∧
      (∃ k, 2 ≤ k ∧ k ≤ S.nTrials ∧ delta p1 f k = some m) ∧
      ∀ k d, 2 ≤ k → k ≤ S.nTrials → delta p1 f k = some d → m ≤ d) ∧
    (∀ a, S1.minDelta = some a → ∃ m, S.minDelta = some m ∧ m ≤ a) := by
  rintro S1 S rfl rfl
  rw [resume_raised_forget p1 p2 f refine1 (fun _ => none)] at hnr2
  obtain ⟨hF1, hF⟩ := resume_forget p1 p2 f refine1 (fun _ => none) refine refine
  obtain ⟨-, -, -, -, -, gm1, -⟩ := fields_of_forget hF1
  obtain ⟨-, -, -, gn, -, gm, -⟩ := fields_of_forget hF
  rw [gm1, gn, gm]
  obtain ⟨K1, ps1, ids1, K2, ps2, ids2, X, hrun1, hc1, -, -, h12, hrun2, -, -, -, -, hcX, hS⟩ :=
    resume_spec hs hnr1 hnr2 refine
  obtain ⟨f1, -, -, -, -, f6, -⟩ := fields_of_run hrun2 hcX refine [Event.methodStop true]
  obtain ⟨-, -, m1, -⟩ := fields_of_core hc1
  obtain ⟨a1, a2⟩ := foldMin_deltas_spec hrun2
  obtain ⟨b1, b2⟩ := foldMin_deltas_spec hrun1
  have hm1 : (solve p1 f (fun _ => none) {}).minDelta = foldMin none (deltas p1 f {} K1) := by
    rw [m1, (iterN_counters hrun1).2.2.2.2.2.2]; rfl
  rw [hS, f1, f6]
  refine ⟨rfl, fun d => mem_deltas_fresh, a1, a2, ?_⟩
  intro a ha
  rw [hm1] at ha
  have hK1 : 2 ≤ K1 := by
    rcases Nat.lt_or_ge K1 2 with h | h
    · rw [b1 (by omega)] at ha; cases ha
    · exact h
  obtain ⟨m', hm', ⟨k, hk2, hk, hd⟩, -⟩ := b2 hK1
  rw [ha] at hm'; cases hm'
  obtain ⟨m, hm, -, hle⟩ := a2 (by omega)
  exact ⟨m, hm, hle k a hk2 (by omega) hd⟩

/-- **C11 for a resumed search (any ordered numeric type; "nothing raises" as hypotheses).**
Same statement as `C11_resume_same_sequence` below. -/
theorem C11_resume_same_sequence_generic (p1 p2 : Params α) (f : Nat → List α → Option α)
    (refine1 refine refineU : PState α → Option (LocalResult α)) (hs : SameMethod p1 p2)
    (hnr1 : (solveLoop p1 f (p1.itersLimit + 1) {}).2 = false)
    (hnr2 : (solveLoop p2 f (p2.itersLimit + 1) (solve p1 f refine1 {})).2 = false)
    (hnrU : (solveLoop p2 f (p2.itersLimit + 1) {}).2 = false) :
    ∀ S1 S U : PState α, S1 = solve p1 f refine1 {} → S = solve p2 f refine S1 →
      U = solve p2 f refineU {} →
    S1.evals <+: S.evals ∧ U.evals <+: S.evals ∧ S.nTrials = max S1.nTrials U.nTrials ∧
    (S1.nTrials ≤ U.nTrials →
      S.evals = U.evals ∧ S.nTrials = U.nTrials ∧ S.calls = U.calls ∧ S.iters = U.iters ∧
      S.minDelta = U.minDelta ∧ S.forget.core = U.forget.core ∧
      (solve p2 f (fun _ => none) (solve p1 f (fun _ => none) {})).core = (solve p2 f (fun _ => none) {}).core) ∧
    (U.nTrials ≤ S1.nTrials → S.evals = S1.evals ∧ S.nTrials = S1.nTrials) := by
  rintro S1 S U rfl rfl rfl
  rw [resume_raised_forget p1 p2 f refine1 (fun _ => none)] at hnr2
  obtain ⟨hF1, hF⟩ := resume_forget p1 p2 f refine1 (fun _ => none) refine refine
  obtain ⟨hF0, hFU⟩ : (solve p2 f refine (solve p1 f refine1 {})).forget =
        (solve p2 f (fun _ => none) (solve p1 f (fun _ => none) {})).forget ∧
      (solve p2 f refineU {}).forget = (solve p2 f (fun _ => none) {}).forget :=
    ⟨(resume_forget p1 p2 f refine1 (fun _ => none) refine (fun _ => none)).2,
      solve_forget_congr p2 f refineU (fun _ => none) (ps := {}) (ps' := {}) rfl⟩
  have hcoreF : (solve p2 f (fun _ => none) (solve p1 f (fun _ => none) {})).core = (solve p2 f (fun _ => none) {}).core →
      (solve p2 f refine (solve p1 f refine1 {})).forget.core = (solve p2 f refineU {}).forget.core := by
    intro h
    rw [hF0, hFU, PState.forget_core, PState.forget_core, h]
  obtain ⟨ge1, -, -, gn1, -, -, -⟩ := fields_of_forget hF1
  obtain ⟨ge, gc, -, gn, gi, gm, -⟩ := fields_of_forget hF
  rw [ge1, gn1, ge, gn, gc, gi, gm]
  revert hcoreF
  generalize (solve p2 f refine (solve p1 f refine1 {})).forget.core = SFC
  intro hcoreF
  obtain ⟨K1, ps1, ids1, K2, ps2, ids2, X, hrun1, hc1, -, -, h12, hrun2, hst2, hmin2, -, hsl, hcX, hS⟩ :=
    resume_spec hs hnr1 hnr2 refine
  obtain ⟨Ku, psU, idsU, XU, hrunU, hstU, hminU, hcXU, hU⟩ := uninterrupted_spec hs hnrU refineU
  have hmax := resume_max h12 hst2 hmin2 hstU hminU
  obtain ⟨n1, -, -, e1, -⟩ := fields_of_core hc1
  have hK1 : (solve p1 f (fun _ => none) {}).nTrials = K1 := by
    rw [n1, (iterN_counters hrun1).2.1]; exact Nat.zero_add K1
  obtain ⟨f1, f2, f3, f4, -, f6, -⟩ := fields_of_run hrun2 hcX refine [Event.methodStop true]
  obtain ⟨u1, u2, u3, u4, -, u6, -⟩ := fields_of_run hrunU hcXU refineU [Event.methodStop true]
  -- the two runs without refinement, for the statement about the whole state
  have hS0 : solve p2 f (fun _ => none) (solve p1 f (fun _ => none) {}) = X.appendLog [Event.methodStop true] := by
    rw [solve_eq, hsl]
    simp only []
    rw [(refineStep_fields (p := p2) (fun _ => none) X).2.2.2.2.2.2.2.1]
    have h := hS
    rw [solve_eq, hsl] at h
    simp only [] at h
    rw [(refineStep_fields (p := p2) refine X).2.2.2.2.2.2.2.1] at h
    have hl := congrArg PState.log h
    simp only [PState.appendLog_log, (refineStep_fields (p := p2) refine X).1, List.append_cancel_left_eq,
      List.cons.injEq, Event.methodStop.injEq, and_true] at hl
    rw [hl]; rfl
  obtain ⟨KuN, psUN, idsUN, XUN, hrunUN, hstUN, hminUN, hcXUN, hUN⟩ := uninterrupted_spec hs hnrU (fun _ => none)
  have hKuN : KuN = Ku := by
    rcases Nat.lt_trichotomy KuN Ku with h | h | h
    · exact absurd hstUN (hminU _ h)
    · exact h
    · exact absurd hstU (hminUN _ h)
  subst hKuN
  rw [hrunU] at hrunUN; cases hrunUN
  rw [hS, hU, f1, u1, hK1, f4, u4, e1, f2, u2, f3, u3, f6, u6]
  refine ⟨iterN_le_prefix h12 hrun1 hrun2, iterN_le_prefix (by rw [hmax]; exact Nat.le_max_right _ _) hrunU hrun2,
    hmax, ?_, ?_⟩
  · intro hle
    have hK : K2 = KuN := by rw [hmax]; exact Nat.max_eq_right hle
    subst hK
    rw [hrunU] at hrun2; cases hrun2
    have hcore : (solve p2 f (fun _ => none) (solve p1 f (fun _ => none) {})).core =
        (solve p2 f (fun _ => none) {}).core := by
      rw [hS0, hUN, PState.appendLog_core, PState.appendLog_core]
      show X.core = XUN.core
      rw [hcX, hcXUN]
    refine ⟨rfl, rfl, rfl, rfl, rfl, ?_, hcore⟩
    rw [hcoreF hcore, hU]
  · intro hle
    have hK : K2 = K1 := by rw [hmax]; exact Nat.max_eq_left hle
    subst hK
    have h := hrun1.symm.trans hrun2
    simp only [Except.ok.injEq, Prod.mk.injEq] at h
    obtain ⟨rfl, -⟩ := h
    exact ⟨rfl, rfl⟩

/-- **C03, tightening the criterion and resuming = one uninterrupted run (any ordered numeric type; "nothing
raises" as hypotheses).**  Same statement as `C03_resume_tighten` below. -/
theorem C03_resume_tighten_generic (p1 p2 : Params α) (f : Nat → List α → Option α)
    (refine1 refine refineU : PState α → Option (LocalResult α)) (hs : SameMethod p1 p2)
    (heps : p2.eps ≤ p1.eps) (hlim : p1.itersLimit ≤ p2.itersLimit)
    (hnr1 : (solveLoop p1 f (p1.itersLimit + 1) {}).2 = false)
    (hnr2 : (solveLoop p2 f (p2.itersLimit + 1) (solve p1 f refine1 {})).2 = false)
    (hnrU : (solveLoop p2 f (p2.itersLimit + 1) {}).2 = false) :
    ∀ S1 S U : PState α, S1 = solve p1 f refine1 {} → S = solve p2 f refine S1 →
      U = solve p2 f refineU {} →
    S1.nTrials ≤ U.nTrials ∧ S.evals = U.evals ∧ S.nTrials = U.nTrials ∧ S.calls = U.calls ∧
    S.iters = U.iters ∧ S.minDelta = U.minDelta ∧ S.forget.core = U.forget.core ∧
    (solve p2 f (fun _ => none) (solve p1 f (fun _ => none) {})).core = (solve p2 f (fun _ => none) {}).core := by
  intro S1 S U h1 h2 h3
  have hle : S1.nTrials ≤ U.nTrials := by
    subst h1; subst h3
    rw [(fields_of_forget (resume_forget p1 p2 f refine1 (fun _ => none) refine refine).1).2.2.2.1]
    obtain ⟨K1, ps1, ids1, hrun1, hc1, -, hmin1⟩ := first_phase_spec (p1 := p1) hnr1
    obtain ⟨Ku, psU, idsU, XU, hrunU, hstU, -, hcXU, hU⟩ := uninterrupted_spec hs hnrU refineU
    obtain ⟨n1, -⟩ := fields_of_core hc1
    obtain ⟨u1, -⟩ := fields_of_run hrunU hcXU refineU [Event.methodStop true]
    rw [hU, u1, n1, (iterN_counters hrun1).2.1]
    show 0 + K1 ≤ Ku
    rw [Nat.zero_add]
    rcases Nat.lt_or_ge Ku K1 with h | h
    · exact absurd ((crit_iff_stopsAt (SameMethod.refl p1) f Ku).2 (hstU.weaken heps hlim)) (hmin1 _ h)
    · exact h
  obtain ⟨-, -, -, h4, -⟩ :=
    C11_resume_same_sequence_generic p1 p2 f refine1 refine refineU hs hnr1 hnr2 hnrU S1 S U h1 h2 h3
  exact ⟨hle, h4 hle⟩

/-- **C03, raising the budget and resuming = one uninterrupted run with the larger budget (any ordered numeric
type; "nothing raises" as hypotheses).**  Same statement as `C03_resume_raise_budget` below. -/
theorem C03_resume_raise_budget_generic (p : Params α) (L2 : Nat) (f : Nat → List α → Option α)
    (refine1 refine refineU : PState α → Option (LocalResult α)) (hlim : p.itersLimit ≤ L2)
    (hnr1 : (solveLoop p f (p.itersLimit + 1) {}).2 = false)
    (hnr2 : (solveLoop { p with itersLimit := L2 } f (L2 + 1) (solve p f refine1 {})).2 = false)
    (hnrU : (solveLoop { p with itersLimit := L2 } f (L2 + 1) {}).2 = false) :
    ∀ S1 S U : PState α, S1 = solve p f refine1 {} → S = solve { p with itersLimit := L2 } f refine S1 →
      U = solve { p with itersLimit := L2 } f refineU {} →
    (S.evals = U.evals ∧ S.nTrials = U.nTrials ∧ S.calls = U.calls ∧ S.iters = U.iters ∧
      S.minDelta = U.minDelta ∧ S.forget.core = U.forget.core ∧
      (solve { p with itersLimit := L2 } f (fun _ => none) (solve p f (fun _ => none) {})).core =
        (solve { p with itersLimit := L2 } f (fun _ => none) {}).core) ∧
    (S1.nTrials < L2 → (¬ ∃ k d, k ≤ S1.nTrials ∧ delta p f k = some d ∧ d < p.eps) →
      S1.nTrials < S.nTrials) := by
  intro S1 S U h1 h2 h3
  have hs : SameMethod p { p with itersLimit := L2 } := ⟨rfl, rfl, rfl⟩
  obtain ⟨-, t⟩ := C03_resume_tighten_generic p { p with itersLimit := L2 } f refine1 refine refineU hs (le_refl _) hlim
    hnr1 hnr2 hnrU S1 S U h1 h2 h3
  refine ⟨t, ?_⟩
  obtain ⟨K1, K2, hK1, hK2, h12, -, -, -, heq, -⟩ :=
    C03_resume_generic p { p with itersLimit := L2 } f refine1 refine hs hnr1 hnr2 S1 S h1 h2
  intro hlt hno
  rw [hK1] at hlt hno
  rw [hK1, hK2]
  rcases Nat.eq_or_lt_of_le h12 with e | h
  · rcases heq.1 e.symm with hb | hd
    · exact absurd hb (by show ¬ L2 ≤ K1; omega)
    · exact absurd hd hno
  · exact h

end linear

section field
variable {α : Type} [Field α] [LinearOrder α] [IsStrictOrderedRing α] [Fns α]

/-- over an ordered field with a total objective neither `Solve` (nor the uninterrupted reference run) catches an
exception, whatever refinement is configured in the first phase -/
theorem resume_no_raise_refine (p1 p2 : Params α) (f : Nat → List α → Option α)
    (refine1 : PState α → Option (LocalResult α)) (hL : FnsLaws α) (hr : 1 < p1.r) (hn : 0 < p1.n)
    (htot : ∀ k pt, (f k pt).isSome = true) (hs : SameMethod p1 p2) :
    (solveLoop p1 f (p1.itersLimit + 1) {}).2 = false ∧
    (solveLoop p2 f (p2.itersLimit + 1) (solve p1 f refine1 {})).2 = false ∧
    (solveLoop p2 f (p2.itersLimit + 1) {}).2 = false := by
  obtain ⟨h1, h2, h3⟩ := resume_no_raise hL hr hn (ne_none_of_total htot) hs
  exact ⟨h1, by rw [resume_raised_forget p1 p2 f refine1 (fun _ => none)]; exact h2, h3⟩

/-- **C03 for a resumed search.**  Setting: ordered field with the laws of the library functions, `1 < r`,
`0 < n`, total objective; `p2` agrees with `p1` in `n`, `r` and the evolvent (`eps` and `itersLimit` may have been
changed in place).  `S1` is the solver after `Solve` with `p1` (with or without local refinement), `S` after a
further `Solve` with `p2`.
1. Neither call catches an exception.
2. With `K1`, `K2` the numbers of trials after the first and after the second call: `K1 ≤ K2`; the NEW criterion
   holds in the final state and (read on the trial sequence, `StopsAt`: `itersLimit₂ ≤ K ∨ ∃ k ≤ K, δ_k < eps₂`) at
   `K2`, and at no `K` with `K1 ≤ K < K2` — never earlier, never later.
3. `K2 = K1` iff the new criterion already held after the first phase (in both readings); then the second call
   does nothing but the optional refinement and the `OnMethodStop(True)` notification.
4. Every trial `2 ≤ k ≤ K2` subdivided an interval (`δ_k` defined).
5. `numberOfGlobalTrials = iterationsCount =` number of records `=` number of calls of the objective, every
   record is the value the objective returned at the call with that index, and `K2 ≤ max itersLimit₁ itersLimit₂`. -/
theorem C03_resume (p1 p2 : Params α) (f : Nat → List α → Option α)
    (refine1 refine : PState α → Option (LocalResult α)) (hL : FnsLaws α) (hr : 1 < p1.r) (hn : 0 < p1.n)
    (htot : ∀ k pt, (f k pt).isSome = true) (hs : SameMethod p1 p2) :
    ((solveLoop p1 f (p1.itersLimit + 1) {}).2 = false ∧
      (solveLoop p2 f (p2.itersLimit + 1) (solve p1 f refine1 {})).2 = false) ∧
    ∀ S1 S : PState α, S1 = solve p1 f refine1 {} → S = solve p2 f refine S1 →
    ∃ K1 K2, S1.nTrials = K1 ∧ S.nTrials = K2 ∧ K1 ≤ K2 ∧ stopNow p2 S = true ∧
      StopsAt p1 f p2.eps p2.itersLimit K2 ∧
      (∀ K, K1 ≤ K → K < K2 → ¬ StopsAt p1 f p2.eps p2.itersLimit K) ∧
      (K2 = K1 ↔ StopsAt p1 f p2.eps p2.itersLimit K1) ∧
      (K2 = K1 ↔ stopNow p2 S1 = true) ∧
      (K2 = K1 → S = (refineStep refine S1).appendLog [Event.methodStop true]) ∧
      (∀ k, 2 ≤ k → k ≤ K2 → ∃ d, delta p1 f k = some d) ∧
      (S.evals.length = K2 ∧ S.iters = K2 ∧ S.calls = K2 ∧
        ∀ i pt z, S.evals[i]? = some (pt, z) → f i pt = some z) ∧
      K2 ≤ max p1.itersLimit p2.itersLimit := by
  obtain ⟨h1, h2, -⟩ := resume_no_raise_refine p1 p2 f refine1 hL hr hn htot hs
  exact ⟨⟨h1, h2⟩, C03_resume_generic p1 p2 f refine1 refine hs h1 h2⟩

/-- **C03, accuracy after a resumed search.**  (Setting of `C03_resume`.)  The reported accuracy
(`solution.solutionAccuracy = min_delta`) after the resumed run is the running Python-`min` over the Hölder lengths
`δ_2 … δ_K2` of ALL intervals subdivided in either phase (`K2 = S.nTrials`; `deltas p1 f {} K2` is exactly that
list): `inf` (`none`) if `K2 ≤ 1`, otherwise one of them and `≤` each of them.  In particular it is never larger
than the accuracy reported after the first phase. -/
theorem C03_resume_accuracy (p1 p2 : Params α) (f : Nat → List α → Option α)
    (refine1 refine : PState α → Option (LocalResult α)) (hL : FnsLaws α) (hr : 1 < p1.r) (hn : 0 < p1.n)
    (htot : ∀ k pt, (f k pt).isSome = true) (hs : SameMethod p1 p2) :
    ∀ S1 S : PState α, S1 = solve p1 f refine1 {} → S = solve p2 f refine S1 →
    S.minDelta = foldMin none (deltas p1 f {} S.nTrials) ∧
    (∀ d, d ∈ deltas p1 f {} S.nTrials ↔ ∃ k, 2 ≤ k ∧ k ≤ S.nTrials ∧ delta p1 f k = some d) ∧
    (S.nTrials ≤ 1 → S.minDelta = none) ∧
    (2 ≤ S.nTrials → ∃ m, S.minDelta = some m ∧
      (∃ k, 2 ≤ k ∧ k ≤ S.nTrials ∧ delta p1 f k = some m) ∧
      ∀ k d, 2 ≤ k → k ≤ S.nTrials → delta p1 f k = some d → m ≤ d) ∧
    (∀ a, S1.minDelta = some a → ∃ m, S.minDelta = some m ∧ m ≤ a) := by
  obtain ⟨h1, h2, -⟩ := resume_no_raise_refine p1 p2 f refine1 hL hr hn htot hs
  exact C03_resume_accuracy_generic p1 p2 f refine1 refine hs h1 h2

end field

end C03

namespace C11
open AGP AGP.Ctl Proc C03
variable {α : Type} [Field α] [LinearOrder α] [IsStrictOrderedRing α] [Fns α]

/-- **C11 for a resumed search: resuming does not change the trials.**  (Setting of `C03_resume`.)  `S1`: after
`Solve` with `p1`; `S`: after a further `Solve` with `p2`; `U`: ONE uninterrupted `Solve` with `p2` on a fresh
solver (any local refinements configured).
1. The record of evaluations of `S` extends that of `S1`, and that of `U` (both are prefixes).
2. `S` has made exactly `max K1 Ku` trials (`K1`, `Ku` the numbers of trials of `S1`, `U`).
3. If the uninterrupted run makes at least `K1` trials, the resumed run IS the uninterrupted run: same
   evaluation sequence, same counters, same accuracy; the two solvers are equal in everything but the event log
   and what a local refinement overwrites (`forget`: point and value holder of the stored trials,
   `numberOfLocalTrials`; `core`: without the log), and literally equal up to the event log when no refinement is
   configured (method state incl. search information and queue, records, counters).
4. Otherwise (`Ku ≤ K1`) the second call makes no trial. -/
theorem C11_resume_same_sequence (p1 p2 : Params α) (f : Nat → List α → Option α)
    (refine1 refine refineU : PState α → Option (LocalResult α)) (hL : FnsLaws α) (hr : 1 < p1.r) (hn : 0 < p1.n)
    (htot : ∀ k pt, (f k pt).isSome = true) (hs : SameMethod p1 p2) :
    ∀ S1 S U : PState α, S1 = solve p1 f refine1 {} → S = solve p2 f refine S1 →
      U = solve p2 f refineU {} →
    S1.evals <+: S.evals ∧ U.evals <+: S.evals ∧ S.nTrials = max S1.nTrials U.nTrials ∧
    (S1.nTrials ≤ U.nTrials →
      S.evals = U.evals ∧ S.nTrials = U.nTrials ∧ S.calls = U.calls ∧ S.iters = U.iters ∧
      S.minDelta = U.minDelta ∧ S.forget.core = U.forget.core ∧
      (solve p2 f (fun _ => none) (solve p1 f (fun _ => none) {})).core = (solve p2 f (fun _ => none) {}).core) ∧
    (U.nTrials ≤ S1.nTrials → S.evals = S1.evals ∧ S.nTrials = S1.nTrials) := by
  obtain ⟨h1, h2, h3⟩ := resume_no_raise_refine p1 p2 f refine1 hL hr hn htot hs
  exact C11_resume_same_sequence_generic p1 p2 f refine1 refine refineU hs h1 h2 h3

/-- **C11, the global search never reads what a local refinement overwrites** (any numeric type, any objective,
raising or not, any parameters).  Two consecutive `Solve` calls with the refinements `refine1`, `refine` configured
give the same result as with `refine1'`, `refine'`, up to the point and the value holder of the stored trials,
`numberOfLocalTrials` and the mark `__refinedTrial` of the trial refined last (`PState.forget`; these are exactly what
`DoLocalRefinement` writes and what only `GetResults` reads); in particular the same evaluations, calls, event log, trial and iteration
counters, accuracy and stop status. -/
theorem C11_resume_refinement_irrelevant {α : Type} [Add α] [Sub α] [Mul α] [Div α] [Neg α] [LT α] [LE α]
    [DecidableLT α] [DecidableLE α] [OfNat α 0] [OfNat α 1] [OfNat α 2] [OfNat α 4] [Fns α]
    (p1 p2 : Params α) (f : Nat → List α → Option α)
    (refine1 refine1' refine refine' : PState α → Option (LocalResult α)) :
    ∀ S S' : PState α, S = solve p2 f refine (solve p1 f refine1 {}) →
      S' = solve p2 f refine' (solve p1 f refine1' {}) →
    S.forget = S'.forget ∧ S.evals = S'.evals ∧ S.calls = S'.calls ∧ S.log = S'.log ∧ S.nTrials = S'.nTrials ∧
    S.iters = S'.iters ∧ S.minDelta = S'.minDelta ∧ ∀ q : Params α, stopNow q S = stopNow q S' := by
  rintro S S' rfl rfl
  have h := (resume_forget p1 p2 f refine1 refine1' refine refine').2
  exact ⟨h, fields_of_forget h⟩

end C11

namespace C03
open AGP AGP.Ctl Proc
variable {α : Type} [Field α] [LinearOrder α] [IsStrictOrderedRing α] [Fns α]

/-- **C03, resuming with unchanged parameters makes no further trial** (restatement of
`C11.C11_solve_idempotent_total`): the second `Solve` is exactly the optional refinement step plus one
`OnMethodStop(True)`; records, calls and trials are unchanged. -/
theorem C03_resume_unchanged (p : Params α) (f : Nat → List α → Option α)
    (refine1 refine : PState α → Option (LocalResult α)) (hL : FnsLaws α) (hr : 1 < p.r) (hn : 0 < p.n)
    (htot : ∀ k pt, (f k pt).isSome = true) :
    ∀ S1 S : PState α, S1 = solve p f refine1 {} → S = solve p f refine S1 →
    S = (refineStep refine S1).appendLog [Event.methodStop true] ∧
    S.evals = S1.evals ∧ S.calls = S1.calls ∧ S.nTrials = S1.nTrials := by
  rintro S1 S rfl rfl
  obtain ⟨-, h2, h3, h4, h5⟩ := C11.C11_solve_idempotent_total p f refine1 refine hL hr hn htot
  exact ⟨h2, h3, h4, h5⟩

/-- **C03, tightening the criterion and resuming = one uninterrupted run.**  (Setting of `C03_resume`.)  If the
second parameters are at least as demanding as the first (`eps₂ ≤ eps₁` and `itersLimit₁ ≤ itersLimit₂`), the
uninterrupted run `U` with `p2` makes at least as many trials as the first phase, and the resumed run `S` equals it:
same evaluation sequence, counters and accuracy, the same solver state up to the event log and what a local
refinement overwrites, and — without refinement — literally the same solver state up to the event log. -/
theorem C03_resume_tighten (p1 p2 : Params α) (f : Nat → List α → Option α)
    (refine1 refine refineU : PState α → Option (LocalResult α)) (hL : FnsLaws α) (hr : 1 < p1.r) (hn : 0 < p1.n)
    (htot : ∀ k pt, (f k pt).isSome = true) (hs : SameMethod p1 p2)
    (heps : p2.eps ≤ p1.eps) (hlim : p1.itersLimit ≤ p2.itersLimit) :
    ∀ S1 S U : PState α, S1 = solve p1 f refine1 {} → S = solve p2 f refine S1 →
      U = solve p2 f refineU {} →
    S1.nTrials ≤ U.nTrials ∧ S.evals = U.evals ∧ S.nTrials = U.nTrials ∧ S.calls = U.calls ∧
    S.iters = U.iters ∧ S.minDelta = U.minDelta ∧ S.forget.core = U.forget.core ∧
    (solve p2 f (fun _ => none) (solve p1 f (fun _ => none) {})).core = (solve p2 f (fun _ => none) {}).core := by
  obtain ⟨h1, h2, h3⟩ := resume_no_raise_refine p1 p2 f refine1 hL hr hn htot hs
  exact C03_resume_tighten_generic p1 p2 f refine1 refine refineU hs heps hlim h1 h2 h3

/-- **C03, raising the budget and resuming = one uninterrupted run with the larger budget.**  (Setting of
`C03_resume`; `eps` unchanged, `itersLimit` raised in place from `p.itersLimit` to `L2 ≥ p.itersLimit`.)
1. The resumed run `S` equals the uninterrupted run `U` with budget `L2` (evaluation sequence, counters, accuracy,
   the solver state up to the event log and what a local refinement overwrites; without refinement the whole solver
   state up to the event log) — whether the first phase stopped on the budget or on the accuracy.
2. If the first phase stopped on the budget alone (`K1 < L2` trials made and no subdivided interval shorter than
   `eps` so far), the second call really continues: it makes at least one further trial. -/
theorem C03_resume_raise_budget (p : Params α) (L2 : Nat) (f : Nat → List α → Option α)
    (refine1 refine refineU : PState α → Option (LocalResult α)) (hL : FnsLaws α) (hr : 1 < p.r) (hn : 0 < p.n)
    (htot : ∀ k pt, (f k pt).isSome = true) (hlim : p.itersLimit ≤ L2) :
    ∀ S1 S U : PState α, S1 = solve p f refine1 {} → S = solve { p with itersLimit := L2 } f refine S1 →
      U = solve { p with itersLimit := L2 } f refineU {} →
    (S.evals = U.evals ∧ S.nTrials = U.nTrials ∧ S.calls = U.calls ∧ S.iters = U.iters ∧
      S.minDelta = U.minDelta ∧ S.forget.core = U.forget.core ∧
      (solve { p with itersLimit := L2 } f (fun _ => none) (solve p f (fun _ => none) {})).core =
        (solve { p with itersLimit := L2 } f (fun _ => none) {}).core) ∧
    (S1.nTrials < L2 → (¬ ∃ k d, k ≤ S1.nTrials ∧ delta p f k = some d ∧ d < p.eps) →
      S1.nTrials < S.nTrials) := by
  have hs : SameMethod p { p with itersLimit := L2 } := ⟨rfl, rfl, rfl⟩
  obtain ⟨h1, h2, h3⟩ := resume_no_raise_refine p { p with itersLimit := L2 } f refine1 hL hr hn htot hs
  exact C03_resume_raise_budget_generic p L2 f refine1 refine refineU hlim h1 h2 h3

end C03

namespace C03
open AGP AGP.Ctl Proc

section linear
variable {α : Type} [Add α] [Sub α] [Mul α] [Div α] [Neg α] [LinearOrder α]
  [OfNat α 0] [OfNat α 1] [OfNat α 2] [OfNat α 4] [Fns α]

/-- **C03 / C11, any number of resumptions (any ordered numeric type; "nothing raises" as hypotheses).**
Same statement as `C03_resume_many` below. -/
theorem C03_resume_many_generic (p : Params α) (f : Nat → List α → Option α)
    (qs : List (Params α × (PState α → Option (LocalResult α)))) (hs : ∀ x ∈ qs, SameMethod p x.1)
    (hnr : NoRaiseMany f qs {}) (hU : ∀ x ∈ qs, (solveLoop x.1 f (x.1.itersLimit + 1) {}).2 = false) :
    ∀ S : PState α, S = solveMany f qs {} →
    ∃ K psK ids, S.nTrials = K ∧
      K = (qs.map fun x => (solve x.1 f (fun _ => none) {}).nTrials).foldl max 0 ∧
      iterN p f K {} = .ok (psK, ids) ∧ S.evals = psK.evals ∧ S.forget.core = psK.forget.core ∧
      S.evals.length = K ∧ S.iters = K ∧ S.calls = K ∧
      S.minDelta = foldMin none (deltas p f {} K) ∧
      (∀ i pt z, S.evals[i]? = some (pt, z) → f i pt = some z) ∧
      (∀ x, qs.getLast? = some x → stopNow x.1 S = true) ∧
      (∀ x ∈ qs, ∀ r U, U = solve x.1 f r {} → U.nTrials ≤ K ∧ U.evals <+: S.evals ∧
        (U.nTrials = K → S.evals = U.evals ∧ S.forget.core = U.forget.core)) := by
  rintro S rfl
  obtain ⟨⟨psK, ids, hrun, hc⟩, hlast⟩ := solveMany_along (p := p) qs hs hU (along_fresh p f) hnr
  obtain ⟨e1, e2, e3, e4, e5, -⟩ := fields_of_forget_core hc
  obtain ⟨c1, c2, c3, c4, -, -, c7⟩ := iterN_counters hrun
  obtain ⟨-, -, new, hnew, -, hg⟩ := iterN_ids_evals hrun
  have hfold : (qs.map fun x => trialsAlone f x.1).foldl max 0 =
      (qs.map fun x => (solve x.1 f (fun _ => none) {}).nTrials).foldl max 0 := rfl
  rw [hfold] at hrun c1 c2 c3 c4 c7
  refine ⟨_, psK, ids, ?_, rfl, hrun, e1, hc, ?_, ?_, ?_, ?_, ?_, hlast, ?_⟩
  · rw [e3, c2]; exact Nat.zero_add _
  · rw [e1, c4]; exact Nat.zero_add _
  · rw [e4, c1]; exact Nat.zero_add _
  · rw [e2, c3]; exact Nat.zero_add _
  · rw [e5, c7]; rfl
  · intro i pt z hi
    rw [e1, hnew] at hi
    have := hg i pt z (by simpa using hi)
    have h0 : ({} : PState α).calls = 0 := rfl
    rwa [h0, Nat.zero_add] at this
  · rintro x hx r U rfl
    obtain ⟨Ku, psU, idsU, XU, hrunU, -, -, hcXU, hUeq⟩ := uninterrupted_spec (hs x hx) (hU x hx) r
    obtain ⟨u1, -, -, u4, -⟩ := fields_of_run hrunU hcXU r [Event.methodStop true]
    have hUc : (solve x.1 f r {}).forget.core = psU.forget.core := by
      rw [hUeq, PState.forget_appendLog, refineStep_forget, PState.appendLog_core]
      show XU.core.forget = psU.core.forget
      rw [hcXU]
    have hKu : Ku = (solve x.1 f (fun _ => none) {}).nTrials := by
      rw [← u1, ← hUeq]
      exact (fields_of_forget (solve_forget_congr x.1 f r (fun _ => none) (ps := {}) (ps' := {}) rfl)).2.2.2.1
    have hle : Ku ≤ (qs.map fun x => (solve x.1 f (fun _ => none) {}).nTrials).foldl max 0 := by
      rw [hKu]
      exact (le_foldl_max _ 0).2 _ (List.mem_map.2 ⟨x, hx, rfl⟩)
    rw [hUeq, u1, u4, e1]
    refine ⟨hle, iterN_le_prefix hle hrunU hrun, ?_⟩
    intro hK
    rw [hK] at hrunU
    rw [hrun] at hrunU
    cases hrunU
    exact ⟨rfl, by rw [hc, ← hUeq, hUc]⟩

end linear

section field
variable {α : Type} [Field α] [LinearOrder α] [IsStrictOrderedRing α] [Fns α]

/-- **C03 / C11, any number of resumptions.**  Setting of `C03_resume`; `qs` lists the parameter objects (each
agreeing with `p` in `n`, `r`, evolvent — i.e. `eps` / `itersLimit` changed in place any number of times) together
with the refinement configured for each call; `S = solveMany f qs {}` is the solver after `Solve` with each of them
in turn, starting fresh.
1. No call catches an exception.
2. `S` has made exactly `K = max_q Ku(q)` trials, `Ku(q)` being the number of trials of ONE uninterrupted `Solve`
   with `q` on a fresh solver (`0` for the empty list): the search never runs past the most demanding criterion met
   so far and never stops short of it.
3. `S` is, up to the event log and what a local refinement overwrites, state `K` of the canonical sequence:
   its records are exactly the first `K` trials of that sequence, `numberOfGlobalTrials = iterationsCount =`
   number of records `=` number of calls, each record is the value the objective returned at that call, and the
   reported accuracy is the running `min` over `δ_2 … δ_K`.
4. The criterion of the LAST parameter object holds in `S`.
5. For every `q ∈ qs` the uninterrupted run `U` with `q` (any refinement) makes at most `K` trials, its records are
   a prefix of those of `S`, and if it makes exactly `K` trials then `S` equals `U` (records; whole state up to the
   event log and what a refinement overwrites). -/
theorem C03_resume_many (p : Params α) (f : Nat → List α → Option α)
    (qs : List (Params α × (PState α → Option (LocalResult α)))) (hL : FnsLaws α) (hr : 1 < p.r) (hn : 0 < p.n)
    (htot : ∀ k pt, (f k pt).isSome = true) (hs : ∀ x ∈ qs, SameMethod p x.1) :
    NoRaiseMany f qs {} ∧
    ∀ S : PState α, S = solveMany f qs {} →
    ∃ K psK ids, S.nTrials = K ∧
      K = (qs.map fun x => (solve x.1 f (fun _ => none) {}).nTrials).foldl max 0 ∧
      iterN p f K {} = .ok (psK, ids) ∧ S.evals = psK.evals ∧ S.forget.core = psK.forget.core ∧
      S.evals.length = K ∧ S.iters = K ∧ S.calls = K ∧
      S.minDelta = foldMin none (deltas p f {} K) ∧
      (∀ i pt z, S.evals[i]? = some (pt, z) → f i pt = some z) ∧
      (∀ x, qs.getLast? = some x → stopNow x.1 S = true) ∧
      (∀ x ∈ qs, ∀ r U, U = solve x.1 f r {} → U.nTrials ≤ K ∧ U.evals <+: S.evals ∧
        (U.nTrials = K → S.evals = U.evals ∧ S.forget.core = U.forget.core)) := by
  have hne := ne_none_of_total htot
  have hnr := noRaiseMany_total hL hr hn hne qs hs (along_fresh p f)
  have hU : ∀ x ∈ qs, (solveLoop x.1 f (x.1.itersLimit + 1) {}).2 = false :=
    fun x hx => along_no_raise hL hr hn hne (hs x hx) (along_fresh p f) _
  exact ⟨hnr, C03_resume_many_generic p f qs hs hnr hU⟩

end field
end C03

/-! ## Non-vacuity over ℝ (real-number library functions, `N = 1`): all hypotheses of the headline theorems hold,
and the resumed run really continues -/
section NonVacuityReal
open AGP AGP.Ctl Proc
attribute [local instance] Fns.real

/-- first parameters of the example: as `C03.exampleParams` (`N = 1`, `r = 2`, `eps = 1/100`) with a budget of ONE iteration -/
noncomputable def C03.resumeParams1 : Params ℝ := { C03.exampleParams with itersLimit := 1 }

/-- The hypotheses of `C03_resume`, `C03_resume_accuracy`, `C11_resume_same_sequence`, `C03_resume_tighten`,
`C03_resume_raise_budget` hold for `p1 = resumeParams1` (budget 1), `p2 = p1` with the budget raised in place to 20,
objective `(x - 1/3)^2`; the first phase makes exactly one trial and the resumed run makes more: the second `Solve`
is not a no-op. -/
example : FnsLaws ℝ ∧ 1 < C03.resumeParams1.r ∧ 0 < C03.resumeParams1.n ∧
    (∀ k pt, (C03.exampleObj k pt).isSome = true) ∧
    SameMethod C03.resumeParams1 { C03.resumeParams1 with itersLimit := 20 } ∧
    ({ C03.resumeParams1 with itersLimit := 20 } : Params ℝ).eps ≤ C03.resumeParams1.eps ∧
    C03.resumeParams1.itersLimit ≤ 20 ∧
    (solve C03.resumeParams1 C03.exampleObj (fun _ => none) {}).nTrials = 1 ∧
    1 < (solve { C03.resumeParams1 with itersLimit := 20 } C03.exampleObj (fun _ => none)
          (solve C03.resumeParams1 C03.exampleObj (fun _ => none) {})).nTrials := by
  have hr : (1 : ℝ) < C03.resumeParams1.r := by norm_num [C03.resumeParams1, C03.exampleParams]
  have hn : 0 < C03.resumeParams1.n := by norm_num [C03.resumeParams1, C03.exampleParams]
  have htot : ∀ k pt, (C03.exampleObj k pt).isSome = true := fun _ _ => rfl
  have hlim : C03.resumeParams1.itersLimit ≤ 20 := by norm_num [C03.resumeParams1]
  obtain ⟨-, -, -, K, hK, hK1, hK2, -⟩ := C03.C03_total C03.resumeParams1 C03.exampleObj (fun _ => none)
    FnsLaws.real hr hn htot
  have hone : (solve C03.resumeParams1 C03.exampleObj (fun _ => none) {}).nTrials = 1 := by
    have h1 : K ≤ 1 := hK1
    have h2 : 1 ≤ K := hK2 (Nat.le_refl _)
    omega
  refine ⟨FnsLaws.real, hr, hn, htot, ⟨rfl, rfl, rfl⟩, le_refl _, hlim, hone, ?_⟩
  obtain ⟨-, hcont⟩ := C03.C03_resume_raise_budget C03.resumeParams1 20 C03.exampleObj (fun _ => none) (fun _ => none)
    (fun _ => none) FnsLaws.real hr hn htot hlim _ _ _ rfl rfl rfl
  have := hcont (by rw [hone]; norm_num) (by
    rw [hone]
    rintro ⟨k, d, hk, hd, -⟩
    have h0 : k - 1 = 0 := by omega
    have : C03.delta C03.resumeParams1 C03.exampleObj k = none := by
      show deltaAt _ _ {} (k - 1) = none
      rw [h0]; rfl
    rw [this] at hd; cases hd)
  rwa [hone] at this

/-- the hypotheses of `C03_resume_many` for three parameter objects obtained from `exampleParams` by changing
`itersLimit` and `eps` in place (budget 1; budget 20; `eps = 1/1000`) -/
example : (∀ x ∈ [(C03.resumeParams1, fun _ => none), (C03.exampleParams, fun _ => none),
      ({ C03.exampleParams with eps := 1 / 1000 }, fun _ => none)],
      SameMethod C03.exampleParams (x : Params ℝ × (PState ℝ → Option (LocalResult ℝ))).1) ∧
    FnsLaws ℝ ∧ 1 < C03.exampleParams.r ∧ 0 < C03.exampleParams.n := by
  refine ⟨?_, FnsLaws.real, by norm_num [C03.exampleParams], by norm_num [C03.exampleParams]⟩
  intro x hx
  simp only [List.mem_cons, List.not_mem_nil, or_false] at hx
  rcases hx with rfl | rfl | rfl <;> exact ⟨rfl, rfl, rfl⟩

end NonVacuityReal

/-! ## Executable instances over ℚ (the toy instance `ProcToy`: `N = 1`, `root x _ = x`, objective `(x - 1/3)^2`).
The `…_generic` theorems apply (their hypotheses are checked by kernel evaluation), and the numbers are computed. -/
section examples
open AGP AGP.Ctl Proc ProcToy C03

/-- a refinement result for the examples: `DoLocalRefinement` moves the best trial to `x = 1/3` with value `0` -/
def C03.exRefine : PState Rat → Option (LocalResult Rat) := fun _ => some { x := [1/3], fx := 0, nfev := 7 }

/-- **budget raised in place 5 → 50** (`eps = 1/10` unchanged): the first phase stops on the budget after 5 trials;
the resumed run stops after 12 trials, exactly like the uninterrupted run with budget 50, with the same evaluations
and the same accuracy `2875/49152 < 1/10`. -/
example :
    (solve (P 5 (1/10)) F noRefine {}).nTrials = 5 ∧
    (solve (P 50 (1/10)) F noRefine (solve (P 5 (1/10)) F noRefine {})).nTrials = 12 ∧
    (solve (P 50 (1/10)) F noRefine {}).nTrials = 12 ∧
    (solve (P 50 (1/10)) F noRefine (solve (P 5 (1/10)) F noRefine {})).evals = (solve (P 50 (1/10)) F noRefine {}).evals ∧
    (solve (P 5 (1/10)) F noRefine {}).minDelta = some (1/4) ∧
    (solve (P 50 (1/10)) F noRefine (solve (P 5 (1/10)) F noRefine {})).minDelta = some (2875/49152) := by
  decide +kernel

/-- the same with a local refinement after each `Solve`: same trials; the refined solver differs from the
unrefined one (in the point / value holder of the best trial), but not after `forget` -/
example :
    (solve (P 50 (1/10)) F exRefine (solve (P 5 (1/10)) F exRefine {})).nTrials = 12 ∧
    (solve (P 50 (1/10)) F exRefine (solve (P 5 (1/10)) F exRefine {})).evals = (solve (P 50 (1/10)) F noRefine {}).evals ∧
    (solve (P 50 (1/10)) F exRefine (solve (P 5 (1/10)) F exRefine {})).nLocal = 7 ∧
    (solve (P 50 (1/10)) F exRefine (solve (P 5 (1/10)) F exRefine {})).m.map (fun s => s.items.map (·.hv)) ≠
      (solve (P 50 (1/10)) F noRefine (solve (P 5 (1/10)) F noRefine {})).m.map (fun s => s.items.map (·.hv)) := by
  decide +kernel

/-- point and value holder of the METHOD's best trial (`Method.best`; before the repair of `GetResults` this was what a
`Solution` reported as the optimum) -/
def C03.exBest (ps : PState Rat) : Option (List Rat × Rat) :=
  ps.m.bind fun s => (findItem s.items s.best).map fun it => (it.point, it.hv)

/-- what `GetResults()` reports as the optimum: point and value holder of the reported trial (`Proc.reportedId`) -/
def C03.exReported (ps : PState Rat) : Option (List Rat × Rat) :=
  ps.m.bind fun s => (findItem s.items (reportedId ps s)).map fun it => (it.point, it.hv)

/-- **Remark (behaviour of the repaired code, reproduced by the model).**  `UpdateOptimum` compares a new value with the
stored `z` of the best trial, not with the value holder that `DoLocalRefinement` overwrote.  So resuming after a
refined `Solve` moves the METHOD's best to a trial with a WORSE (positive) value — the same trial an unrefined first phase
leads to (`C11_resume_refinement_irrelevant`): here the first `Solve` (with refinement) reports `(1/3, 0)`, and after the
resumed `Solve` (raised budget, no refinement) `Method.best` is a trial with a positive value.  But `GetResults()` remembers the
refined trial (`Process.__refinedTrial`) and the reported optimum of the resumed run is still the refined `(1/3, 0)`
(in general: `C04.C04_reported_after_resume`, `C04.C04_reported_mono`). -/
example :
    exReported (solve (P 5 (1/10)) F exRefine {}) = some ([1/3], 0) ∧
    exReported (solve (P 50 (1/10)) F noRefine (solve (P 5 (1/10)) F exRefine {})) = some ([1/3], 0) ∧
    exBest (solve (P 5 (1/10)) F exRefine {}) = some ([1/3], 0) ∧
    exBest (solve (P 50 (1/10)) F noRefine (solve (P 5 (1/10)) F exRefine {})) =
      exBest (solve (P 50 (1/10)) F noRefine (solve (P 5 (1/10)) F noRefine {})) ∧
    (exBest (solve (P 50 (1/10)) F noRefine (solve (P 5 (1/10)) F exRefine {}))).any (fun b => decide (0 < b.2)) = true := by
  decide +kernel

/-- the hypotheses of the generic theorems for that pair of runs (with the refinement `exRefine` in the first phase) -/
theorem C03.resume_example_hyps :
    SameMethod (P 5 (1/10)) (P 50 (1/10)) ∧
    (solveLoop (P 5 (1/10)) F ((P 5 (1/10)).itersLimit + 1) {}).2 = false ∧
    (solveLoop (P 50 (1/10)) F ((P 50 (1/10)).itersLimit + 1) (solve (P 5 (1/10)) F exRefine {})).2 = false ∧
    (solveLoop (P 50 (1/10)) F ((P 50 (1/10)).itersLimit + 1) {}).2 = false :=
  ⟨⟨rfl, rfl, rfl⟩, by decide +kernel, by decide +kernel, by decide +kernel⟩

example := C03_resume_generic (P 5 (1/10)) (P 50 (1/10)) F exRefine exRefine C03.resume_example_hyps.1
  C03.resume_example_hyps.2.1 C03.resume_example_hyps.2.2.1
example := C03_resume_accuracy_generic (P 5 (1/10)) (P 50 (1/10)) F exRefine exRefine C03.resume_example_hyps.1
  C03.resume_example_hyps.2.1 C03.resume_example_hyps.2.2.1
example := C11_resume_same_sequence_generic (P 5 (1/10)) (P 50 (1/10)) F exRefine exRefine noRefine
  C03.resume_example_hyps.1 C03.resume_example_hyps.2.1 C03.resume_example_hyps.2.2.1 C03.resume_example_hyps.2.2.2
example := C03_resume_tighten_generic (P 5 (1/10)) (P 50 (1/10)) F exRefine exRefine noRefine C03.resume_example_hyps.1
  (le_refl _) (by decide) C03.resume_example_hyps.2.1 C03.resume_example_hyps.2.2.1 C03.resume_example_hyps.2.2.2
example := C03_resume_raise_budget_generic (P 5 (1/10)) 50 F exRefine exRefine noRefine (by decide)
  C03.resume_example_hyps.2.1 C03.resume_example_hyps.2.2.1 C03.resume_example_hyps.2.2.2
example := C11.C11_resume_refinement_irrelevant (P 5 (1/10)) (P 50 (1/10)) F exRefine noRefine exRefine noRefine

/-- **`eps` lowered in place 1/10 → 1/20** (budget 50 unchanged): the first phase stops on the accuracy after 12
trials; the resumed run goes on and ends like the uninterrupted run with `eps = 1/20`. -/
example :
    (solve (P 50 (1/10)) F noRefine {}).nTrials = 12 ∧
    (solve (P 50 (1/20)) F noRefine (solve (P 50 (1/10)) F noRefine {})).nTrials =
      (solve (P 50 (1/20)) F noRefine {}).nTrials ∧
    12 < (solve (P 50 (1/20)) F noRefine {}).nTrials ∧
    (solve (P 50 (1/20)) F noRefine (solve (P 50 (1/10)) F noRefine {})).evals = (solve (P 50 (1/20)) F noRefine {}).evals := by
  decide +kernel

/-- **the new criterion already holds** (budget lowered in place 50 → 8 after 12 trials were made): the second
`Solve` makes no trial (`K2 = K1 = 12 = max 12 8`), the records are those of the first phase — NOT those of an
uninterrupted run with budget 8, which has 8 trials — and the log gains one more `OnMethodStop(True)`. -/
example :
    (solve (P 50 (1/10)) F noRefine {}).nTrials = 12 ∧
    stopNow (P 8 (1/10)) (solve (P 50 (1/10)) F noRefine {}) = true ∧
    (solve (P 8 (1/10)) F noRefine (solve (P 50 (1/10)) F noRefine {})).nTrials = 12 ∧
    (solve (P 8 (1/10)) F noRefine {}).nTrials = 8 ∧
    (solve (P 8 (1/10)) F noRefine (solve (P 50 (1/10)) F noRefine {})).evals = (solve (P 50 (1/10)) F noRefine {}).evals ∧
    (solve (P 8 (1/10)) F noRefine (solve (P 50 (1/10)) F noRefine {})) =
      (solve (P 50 (1/10)) F noRefine {}).appendLog [Event.methodStop true] := by
  refine ⟨by decide +kernel, by decide +kernel, by decide +kernel, by decide +kernel, by decide +kernel, ?_⟩
  exact C11.C11_solve_nothing_to_do (P 8 (1/10)) F _ (by decide +kernel)

/-- **three resumptions**: budget 5, then budget 50 (12 trials), then budget 8 (no further trial), then `eps = 1/20`
with budget 20: the solver ends with `max(5, 12, 8, 16) = 16` trials, and its records are those of the fourth
uninterrupted run -/
def C03.exMany : List (Params Rat × (PState Rat → Option (LocalResult Rat))) :=
  [(P 5 (1/10), exRefine), (P 50 (1/10), noRefine), (P 8 (1/10), exRefine), (P 20 (1/20), noRefine)]

example :
    (C03.exMany.map fun x => (solve x.1 F noRefine {}).nTrials) = [5, 12, 8, 16] ∧
    (solveMany F C03.exMany {}).nTrials = 16 ∧
    (solveMany F C03.exMany {}).evals = (solve (P 20 (1/20)) F noRefine {}).evals := by
  decide +kernel

example := C03_resume_many_generic (P 5 (1/10)) F C03.exMany
  (by intro x hx
      simp only [C03.exMany, List.mem_cons, List.not_mem_nil, or_false] at hx
      rcases hx with rfl | rfl | rfl | rfl <;> exact ⟨rfl, rfl, rfl⟩)
  (by refine ⟨by decide +kernel, by decide +kernel, by decide +kernel, by decide +kernel, trivial⟩)
  (by intro x hx
      simp only [C03.exMany, List.mem_cons, List.not_mem_nil, or_false] at hx
      rcases hx with rfl | rfl | rfl | rfl <;> decide +kernel)

end examples
