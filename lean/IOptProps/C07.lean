import IOptProofs.EvFwd
import IOptProofs.EvDimFacts
import Mathlib.Algebra.Order.Group.Abs
import Mathlib.Algebra.Order.Group.Int
/-!
# C07 (integer layer): the evolvent visits every grid cell exactly once  (worker a1)

Statements about `Ev.cubeY n ds` — the cube coordinates, in units of `2^-(m+1)`, of the image of the
subinterval with base-`2^n` digits `ds` (`m = ds.length`) — for every dimension `n` with `Ev.DimOK n`
(`IOptProofs/EvDims.lean`: EVERY `n ≥ 2`) and **every** density `m` (induction over the digit list; no bound on `m`).
The centre of cell `k` (`0 ≤ k < 2^m`) on an axis is `Y = 2k + 1 - 2^m`: `Y` odd, `|Y| ≤ 2^m - 1`.

The finite facts about one level (`Ev.EvFacts n`) are proved for every `n ≥ 2` in `IOptProofs/EvGen*.lean`
(`Ev.evFacts_all`) and handed over in `IOptProofs/EvDimFacts.lean`; for n = 2..7 they are also kernel-evaluated
(`IOptProofs/EvFinCert.lean`, `EvFinCert6.lean`, `EvFinCert7.lean`).
-/

namespace Ev

/-- **C07 (centres)**: for valid digits, `cubeY n ds` has `n` coordinates, each of them odd (for
`m = ds.length ≥ 1`; at `m = 0` there is one cell, with centre `0`) and of absolute value at most
`2^m - 1`: every image is the centre of a cell of the grid with `2^m` cells per axis. -/
theorem C07_centres {n : Nat} (hn : Ev.DimOK n) {ds : List Nat} (hd : validDigits n ds) :
    (cubeY n ds).length = n ∧
    ∀ y ∈ cubeY n ds, (ds ≠ [] → y % 2 = 1) ∧ |y| ≤ 2^ds.length - 1 := by
  have F := evFacts_of_dimOK hn
  have hn0 : 0 < n := hn.pos
  obtain ⟨hlen, hY⟩ := cubeY_spec F hn0 hd
  refine ⟨hlen, ?_⟩
  rw [forall_mem_iff_getI, hlen]
  intro i hi
  have hc := Yc_cell F (validState_init hn0) hd hi
  rw [← hY i hi] at hc
  refine ⟨fun hne => ?_, ?_⟩
  · have hm : 0 < ds.length := List.length_pos_iff.2 hne
    exact ((cell_iff_odd hm _).1 hc).1
  · rw [abs_le]; exact ⟨hc.1, hc.2.1⟩

/-- **C07 (centres, cell index form)**: every coordinate of `cubeY n ds` is `2k + 1 - 2^m` for a
cell index `0 ≤ k < 2^m` (uniformly in `m ≥ 0`). -/
theorem C07_centres_index {n : Nat} (hn : Ev.DimOK n) {ds : List Nat}
    (hd : validDigits n ds) :
    ∀ y ∈ cubeY n ds, ∃ k : Nat, k < 2^ds.length ∧ y = 2 * (k : Int) + 1 - 2^ds.length := by
  have F := evFacts_of_dimOK hn
  have hn0 : 0 < n := hn.pos
  obtain ⟨hlen, hY⟩ := cubeY_spec F hn0 hd
  rw [forall_mem_iff_getI, hlen]
  intro i hi
  have hc := Yc_cell F (validState_init hn0) hd hi
  rw [← hY i hi] at hc
  obtain ⟨h1, h2, h3⟩ := hc
  have hP : ((2^ds.length : Nat) : Int) = (2:Int)^ds.length := by simp
  generalize getI (cubeY n ds) i = y at h1 h2 h3 ⊢
  refine ⟨((y + 2^ds.length - 1) / 2).toNat, ?_, ?_⟩
  · have : 0 < 2^ds.length := Nat.two_pow_pos _
    generalize (2:Int)^ds.length = Q at *
    generalize 2^ds.length = Qn at *
    omega
  · generalize (2:Int)^ds.length = Q at *
    omega

/-- **C07 (injectivity)**: different subintervals (digit lists of the same length) are mapped to
different cells. -/
theorem C07_injective {n : Nat} (hn : Ev.DimOK n) {ds ds' : List Nat}
    (hd : validDigits n ds) (hd' : validDigits n ds') (hl : ds.length = ds'.length)
    (he : cubeY n ds = cubeY n ds') : ds = ds' := by
  have F := evFacts_of_dimOK hn
  have hn0 : 0 < n := hn.pos
  apply Yc_inj F (validState_init hn0) hd hd' hl
  intro i hi
  rw [← (cubeY_spec F hn0 hd).2 i hi, ← (cubeY_spec F hn0 hd').2 i hi, he]

/-- **C07 (surjectivity)**: every cell is reached — every integer vector of length `n` with odd
entries of absolute value at most `2^m - 1` is `cubeY n ds` for a valid digit list of length `m`. -/
theorem C07_surjective {n : Nat} (hn : Ev.DimOK n) (m : Nat) (Y : List Int)
    (hY : Y.length = n) (hc : ∀ y ∈ Y, y % 2 = 1 ∧ |y| ≤ 2^m - 1) :
    ∃ ds, ds.length = m ∧ validDigits n ds ∧ cubeY n ds = Y := by
  have F := evFacts_of_dimOK hn
  have hn0 : 0 < n := hn.pos
  have hcell : ∀ i, i < n → cell m (getI Y i) := by
    intro i hi
    obtain ⟨h1, h2⟩ := hc _ (getI_mem (by rw [hY]; exact hi))
    rw [abs_le] at h2
    rcases Nat.eq_zero_or_pos m with rfl | hm
    · simp only [pow_zero] at h2; omega
    · exact (cell_iff_odd hm _).2 ⟨h1, h2.1, h2.2⟩
  obtain ⟨ds, hl, hv, hds⟩ := Yc_surj F m (validState_init hn0) hY hcell
  refine ⟨ds, hl, hv, ?_⟩
  obtain ⟨hlen, hg⟩ := cubeY_spec F hn0 hv
  apply ext_getI hlen hY
  intro i hi
  rw [hg i hi, hds i hi]

/-- **C07 (digits = subinterval index)**: the digit list is the base-`2^n` representation of the
subinterval index: `digitsOf n m i` is a valid digit list of length `m` with index `i` for every
`i < (2^n)^m`; conversely a valid digit list has an index below `(2^n)^m` and is recovered from it.
(Any `n`.) -/
theorem C07_index_digits (n : Nat) :
    (∀ m i, i < (2^n)^m →
      (digitsOf n m i).length = m ∧ validDigits n (digitsOf n m i) ∧
      indexOf n (digitsOf n m i) = i) ∧
    (∀ ds, validDigits n ds →
      indexOf n ds < (2^n)^ds.length ∧ digitsOf n ds.length (indexOf n ds) = ds) :=
  ⟨fun m i hi => ⟨digitsOf_length n m i, digitsOf_valid n m i, indexOf_digitsOf hi⟩,
   fun _ hd => ⟨indexOf_lt hd, digitsOf_indexOf hd⟩⟩

/-- **C07 (exactly once, by index)**: for every cell `Y` of the `2^m`-per-axis grid there is exactly
one subinterval index `i < 2^(n·m)` whose image is `Y`. -/
theorem C07_cells_by_index {n : Nat} (hn : Ev.DimOK n) (m : Nat) (Y : List Int)
    (hY : Y.length = n) (hc : ∀ y ∈ Y, y % 2 = 1 ∧ |y| ≤ 2^m - 1) :
    ∃ i, (i < (2^n)^m ∧ cubeY n (digitsOf n m i) = Y) ∧
      ∀ j, j < (2^n)^m ∧ cubeY n (digitsOf n m j) = Y → j = i := by
  obtain ⟨ds, hl, hv, hds⟩ := C07_surjective hn m Y hY hc
  subst hl
  refine ⟨indexOf n ds, ⟨indexOf_lt hv, by rw [digitsOf_indexOf hv, hds]⟩, ?_⟩
  rintro j ⟨hj, hjY⟩
  have := C07_injective hn (digitsOf_valid n ds.length j) hv (digitsOf_length _ _ _)
    (by rw [hjY, hds])
  rw [← this, indexOf_digitsOf hj]

/-! ### non-vacuity: `n = 3`, `m = 2` -/

/-- the hypotheses of `C07_centres`/`C07_injective` hold for the digits `[5, 2]`, `[5, 3]` (n = 3),
whose images are the distinct cell centres `(1,3,3)` and `(1,3,1)` -/
example : (Ev.DimOK 3) ∧ validDigits 3 [5, 2] ∧ validDigits 3 [5, 3] ∧ [5, 2] ≠ [] ∧
    [5, 2].length = [5, 3].length ∧ cubeY 3 [5, 2] = [1, 3, 3] ∧ cubeY 3 [5, 3] = [1, 3, 1] := by
  decide

/-- the same in the largest covered dimensions: `n = 7` (digits `[100, 5]`, `[100, 6]`: neighbouring
subintervals, images differ in one coordinate) and `n = 6` (digits `[37, 63]`, `[38, 0]`: neighbours across a
first-level boundary) -/
example : (Ev.DimOK 7) ∧ validDigits 7 [100, 5] ∧ validDigits 7 [100, 6] ∧
    cubeY 7 [100, 5] = [1, -3, 3, -3, 1, 1, -3] ∧ cubeY 7 [100, 6] = [1, -3, 3, -3, 1, 3, -3] ∧
    (Ev.DimOK 6) ∧ validDigits 6 [37, 63] ∧ validDigits 6 [38, 0] ∧
    cubeY 6 [37, 63] = [3, 3, -3, 3, 1, 1] ∧ cubeY 6 [38, 0] = [3, 3, -3, 3, -1, 1] := by
  decide +kernel

/-- a dimension beyond the kernel-evaluated certificates: `n = 10`, neighbouring subintervals `[700, 3]`, `[700, 4]` -/
example : (Ev.DimOK 10) ∧ validDigits 10 [700, 3] ∧ validDigits 10 [700, 4] ∧
    cubeY 10 [700, 3] = [3, 3, 3, 3, 3, -3, -3, -1, 1, -1] ∧
    cubeY 10 [700, 4] = [1, 3, 3, 3, 3, -3, -3, -1, 1, -1] := by
  decide +kernel

/-- the hypotheses of `C07_surjective`/`C07_cells_by_index` hold for the cell `(3,-1,1)`,
`n = 3`, `m = 2`; it is reached by the digits `[6, 0]`, i.e. by subinterval `48` -/
example : [(3:Int), -1, 1].length = 3 ∧ (∀ y ∈ [(3:Int), -1, 1], y % 2 = 1 ∧ |y| ≤ 2^2 - 1) ∧
    cubeY 3 [6, 0] = [3, -1, 1] ∧ digitsOf 3 2 48 = [6, 0] ∧ 48 < (2^3)^2 := by
  decide

/-- `C07_surjective` applied to that cell -/
example : ∃ ds, ds.length = 2 ∧ validDigits 3 ds ∧ cubeY 3 ds = [3, -1, 1] :=
  C07_surjective (by decide) 2 [3, -1, 1] (by decide) (by decide)

/-- `C07_index_digits`: subinterval `48` of `n = 3`, `m = 2` -/
example : (48 < (2^3)^2) ∧ digitsOf 3 2 48 = [6, 0] ∧ indexOf 3 [6, 0] = 48 := by decide

end Ev
