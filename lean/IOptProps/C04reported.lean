import IOptProofs.ProcessReported
import IOptProofs.ProcessToy
import IOptProps.C03total
/-!
# C04 for the REPORTED optimum — it survives continued iterations after a local refinement (repair F14)

`Process.DoLocalRefinement` overwrites point and value holder of a trial in place, but the global search keeps comparing new trials
with the `z` it stored before.  Before the repair, `Solve()` with `refineSolution=True` followed by further global iterations could
replace the refined optimum by a WORSE trial.  The repair is reporting-only: `Process.GetResults()` returns the trial improved by
the last refinement (`Process.__refinedTrial`, model `PState.refined`) while it is another trial than the method's best and its value
holder is strictly smaller, else the method's best (model `Proc.reportedId`, `Proc.reported`); `DoLocalRefinement` refines the
reported trial.  The search itself is untouched (`C11.C11_resume_refinement_irrelevant`).

Setting: ordered field, laws of the library functions, `1 < r`, `0 < n`, an objective that never raises, and local searches whose
result is not worse than their start (`Proc.RefineLe`, the clause `le_start` of the Nelder–Mead contract `C05.NM`).  Then, after ANY
sequence of `DoGlobalIteration(k)` / `Solve` calls on a fresh solver:

* `C04_reported_min` — the reported trial is an evaluated stored trial whose value holder is the SMALLEST value holder of all
  evaluated trials; hence no value seen by the global search is smaller, and it is not worse than the method's best;
* `C04_reported_mono` — the reported value never increases when the solver is used further;
* `C04_reported_le_every_refinement` — it is at most the value returned by ANY refinement made along the way
  (right after a refinement it EQUALS the value returned: `C04_reported_after_refinement`);
* `C04_reported_eq_best_without_refinement` — without refinement it is the method's best (`C04_best` is that special case);
* `C04_reported_after_resume` — the scenario of the defect: `Solve`, parameters changed in place, `Solve` again.
-/
set_option linter.unusedSectionVars false

namespace C04
open AGP AGP.Ctl Proc

section generic
variable {α : Type} [Add α] [Sub α] [Mul α] [Div α] [Neg α] [LT α] [LE α]
  [DecidableLT α] [DecidableLE α] [OfNat α 0] [OfNat α 1] [OfNat α 2] [OfNat α 4] [Fns α]

/-- **C04, no refinement: the reported trial is the method's best.**  (Any numeric type, any objective, raising or not.)
While nothing has been refined (`ps.refined = none`) `GetResults()` reports the method's best; and after any sequence of operations
with no refinement configured nothing has been refined.  So `AGP.C04_best` is the special case "no refinement" of `C04_reported_min`. -/
theorem C04_reported_eq_best_without_refinement (p : Params α) (f : Nat → List α → Option α) (ops : List Op) :
    (∀ (ps : PState α) (s : State α), ps.refined = none → reportedId ps s = s.best) ∧
    (runOps p f (fun _ => none) ops {}).refined = none ∧
    (∀ s, reportedId (runOps p f (fun _ => none) ops {}) s = s.best) ∧
    reported (runOps p f (fun _ => none) ops {}) = methodBest (runOps p f (fun _ => none) ops {}) := by
  have h0 : (runOps p f (fun _ => none) ops {}).refined = none := by
    have hI : ∀ (ps : PState α), ps.refined = none → (runOps p f (fun _ => none) ops ps).refined = none := by
      induction ops with
      | nil => intro ps h; exact h
      | cons op ops ih =>
        intro ps h
        apply ih
        cases op with
        | iter k =>
          show (doGlobalIteration p f k ps []).s.refined = none
          rw [doGlobalIteration_eq]
          cases hi : iterN p f k ps with
          | error x => obtain ⟨pe, e⟩ := x; simp only []; rw [iterN_error_refined hi]; exact h
          | ok x => obtain ⟨ps', ids⟩ := x; simp only []; rw [iterN_ok_refined hi]; exact h
        | solve =>
          show (solve p f (fun _ => none) ps).refined = none
          rw [solve_eq]
          show (solveLoop p f (p.itersLimit + 1) ps).1.refined = none
          obtain ⟨j, psj, ids, hpre, hcase⟩ :=
            solveLoop_spec p f (p.itersLimit + 1) ps (Nat.lt_succ_of_le (remaining_le p ps))
          have hj := iterN_ok_refined hpre.run
          rcases hcase with ⟨-, -, ps', hsl, hc, -⟩ | ⟨-, pe, e, ps', herr, -, hsl, hc, -⟩
          · rw [hsl]; simp only []
            rw [(PState.core_eq_iff.1 hc).2.2.2.2, hj]; exact h
          · rw [hsl]; simp only []
            rw [(PState.core_eq_iff.1 hc).2.2.2.2, oneIteration_error_refined herr, hj]; exact h
    exact hI {} rfl
  refine ⟨fun ps s h => reportedId_of_none s h, h0, fun s => reportedId_of_none s h0, ?_⟩
  unfold reported methodBest
  cases (runOps p f (fun _ => none) ops {}).m with
  | none => rfl
  | some s => simp only [Option.bind_some, reportedId_of_none s h0]

end generic

section field
variable {α : Type} [Field α] [LinearOrder α] [IsStrictOrderedRing α] [Fns α]

/-- **C04, the reported optimum is the smallest value holder.**  After any sequence `ops` of `DoGlobalIteration(k)` / `Solve`
calls on a fresh solver (objective never raises; every refinement returns a value `≤` the value holder of the reported trial it
starts from), if the first iteration has been done (method state `s`), the trial `reportedId ps s` that `GetResults()` reports

* exists in the search information (`it`), is the unique item with that id, and is an evaluated trial;
* its reported value `it.hv` is `≤` the value `it.z` the global search saw at that trial (they differ only through refinement);
* `it.hv` is `≤` the value holder of EVERY evaluated stored trial — refined or not: the reported value is the minimum of all values
  the `Solution` can show; for a trial that was refined, its value holder is the value returned by the last refinement of it;
* `it.hv` is `≤` the value of every evaluation of the global search (`ps.evals`): no global-phase trial is smaller;
* `it.hv` is `≤` the value holder of the method's best. -/
theorem C04_reported_min (p : Params α) (f : Nat → List α → Option α) (refine : PState α → Option (LocalResult α))
    (hL : FnsLaws α) (hr : 1 < p.r) (hn : 0 < p.n) (htot : ∀ k pt, (f k pt).isSome = true) (href : RefineLe refine)
    (ops : List Op) (s : State α) (hm : (runOps p f refine ops {}).m = some s) :
    ∃ it, findItem s.items (reportedId (runOps p f refine ops {}) s) = some it ∧ it ∈ s.items ∧
      it.id = reportedId (runOps p f refine ops {}) s ∧ it.ev = true ∧ it.hv ≤ it.z ∧
      (∀ a ∈ s.items, a.ev = true → it.hv ≤ a.hv) ∧
      (∀ e ∈ (runOps p f refine ops {}).evals, it.hv ≤ e.2) ∧
      (∀ b, findItem s.items s.best = some b → it.hv ≤ b.hv) := by
  have hne := C03.ne_none_of_total htot
  have hOK : RepOK p (runOps p f refine ops {}) :=
    (repOK_stepInv hL hr hn hne).runOps (repOK_refInv hL hr hn href) ops (repOK_fresh p)
  exact hOK.reported hL hr hn hm

/-- **C04, the reported value never increases.**  If after `ops` the solver reports the trial `r1`, then after `ops` followed by
any further operations `ops'` it reports a trial `r2` with `r2.hv ≤ r1.hv`. -/
theorem C04_reported_mono (p : Params α) (f : Nat → List α → Option α) (refine : PState α → Option (LocalResult α))
    (hL : FnsLaws α) (hr : 1 < p.r) (hn : 0 < p.n) (htot : ∀ k pt, (f k pt).isSome = true) (href : RefineLe refine)
    (ops ops' : List Op) (r1 : Item α) (h1 : reported (runOps p f refine ops {}) = some r1) :
    ∃ r2, reported (runOps p f refine (ops ++ ops') {}) = some r2 ∧ r2.hv ≤ r1.hv := by
  have hne := C03.ne_none_of_total htot
  have hOK : RepOK p (runOps p f refine ops {}) :=
    (repOK_stepInv hL hr hn hne).runOps (repOK_refInv hL hr hn href) ops (repOK_fresh p)
  cases hm : (runOps p f refine ops {}).m with
  | none => unfold reported at h1; rw [hm] at h1; cases h1
  | some s =>
    rw [reported_of_some hm] at h1
    have hle : RepLe p r1.hv (runOps p f refine ops {}) := ⟨hOK, s, r1, hm, h1, le_refl _⟩
    have := (repLe_stepInv hL hr hn hne r1.hv).runOps (repLe_refInv hL hr hn href r1.hv) ops' hle
    rw [← runOps_append] at this
    obtain ⟨-, s2, r2, hm2, hf2, hv2⟩ := this
    exact ⟨r2, by rw [reported_of_some hm2]; exact hf2, hv2⟩

/-- **C04, right after a refinement the reported optimum is the refined trial.**  `Solve` is called after `ops`; its loop ends in
the state `X` (first iteration done) and the local search returns `lr` there.  Then `Solve` returns (and `GetResults()` reports) the
trial that was reported in `X`, moved to the point `lr.x` with the value `lr.fx`. -/
theorem C04_reported_after_refinement (p : Params α) (f : Nat → List α → Option α)
    (refine : PState α → Option (LocalResult α))
    (hL : FnsLaws α) (hr : 1 < p.r) (hn : 0 < p.n) (htot : ∀ k pt, (f k pt).isSome = true) (href : RefineLe refine)
    (ops : List Op) (lr : LocalResult α)
    (hlr : refine (solveLoop p f (p.itersLimit + 1) (runOps p f refine ops {})).1 = some lr)
    (hm : (solveLoop p f (p.itersLimit + 1) (runOps p f refine ops {})).1.m ≠ none) :
    ∃ rep, reported (solveLoop p f (p.itersLimit + 1) (runOps p f refine ops {})).1 = some rep ∧
      reported (runOps p f refine (ops ++ [Op.solve]) {}) = some { rep with point := lr.x, hv := lr.fx } := by
  have hne := C03.ne_none_of_total htot
  have hOK : RepOK p (runOps p f refine ops {}) :=
    (repOK_stepInv hL hr hn hne).runOps (repOK_refInv hL hr hn href) ops (repOK_fresh p)
  have hOKX := (repOK_stepInv hL hr hn hne).solveLoop (p.itersLimit + 1) hOK
  cases hmX : (solveLoop p f (p.itersLimit + 1) (runOps p f refine ops {})).1.m with
  | none => exact absurd hmX hm
  | some sX =>
    obtain ⟨rep, h1, h2⟩ := reported_after_refine hL hr hn lr hmX (fun s b hs hb => href _ lr s b hlr hs hb) hOKX
    refine ⟨rep, h1, ?_⟩
    rw [runOps_append]
    show reported (solve p f refine (runOps p f refine ops {})) = _
    rw [solve_eq]
    have : refineStep refine (solveLoop p f (p.itersLimit + 1) (runOps p f refine ops {})).1 =
        doLocalRefinement (solveLoop p f (p.itersLimit + 1) (runOps p f refine ops {})).1 lr := by
      unfold refineStep; rw [hlr]
    rw [this, ← h2]
    rfl

/-- **C04, the reported value is at most the value returned by ANY refinement made along the way.**  As above (`Solve` after
`ops`, refinement result `lr`), followed by any further operations `ops'` — global iterations, more `Solve` calls with or without
refinement: the trial reported at the end has a value `≤ lr.fx`.  (Before the repair the reported value could exceed `lr.fx`.) -/
theorem C04_reported_le_every_refinement (p : Params α) (f : Nat → List α → Option α)
    (refine : PState α → Option (LocalResult α))
    (hL : FnsLaws α) (hr : 1 < p.r) (hn : 0 < p.n) (htot : ∀ k pt, (f k pt).isSome = true) (href : RefineLe refine)
    (ops ops' : List Op) (lr : LocalResult α)
    (hlr : refine (solveLoop p f (p.itersLimit + 1) (runOps p f refine ops {})).1 = some lr)
    (hm : (solveLoop p f (p.itersLimit + 1) (runOps p f refine ops {})).1.m ≠ none) :
    ∃ r, reported (runOps p f refine (ops ++ Op.solve :: ops') {}) = some r ∧ r.hv ≤ lr.fx := by
  obtain ⟨rep, -, h2⟩ := C04_reported_after_refinement p f refine hL hr hn htot href ops lr hlr hm
  have h3 := C04_reported_mono p f refine hL hr hn htot href (ops ++ [Op.solve]) ops' _ h2
  rw [List.append_assoc] at h3
  exact h3

/-- **C04, the scenario of the defect.**  `Solve` with parameters `p1` on a fresh solver (at least one iteration allowed), the
parameters changed in place to `p2` (same `n`, `r`, evolvent — e.g. the budget raised), `Solve` again; each `Solve` with its own
refinement or none.  Both calls report a trial, and the value reported by the second is `≤` the value reported by the first: the
reported optimum is never worse than what the first `Solve` returned.  If the first `Solve` refined (result `lr`), what it returned
is the refined optimum `(lr.x, lr.fx)`. -/
theorem C04_reported_after_resume (p1 p2 : Params α) (f : Nat → List α → Option α)
    (refine1 refine2 : PState α → Option (LocalResult α))
    (hL : FnsLaws α) (hr : 1 < p1.r) (hn : 0 < p1.n) (htot : ∀ k pt, (f k pt).isSome = true) (hs : SameMethod p1 p2)
    (hlim : 1 ≤ p1.itersLimit) (href1 : RefineLe refine1) (href2 : RefineLe refine2) :
    ∃ r1 r2, reported (solve p1 f refine1 {}) = some r1 ∧
      reported (solve p2 f refine2 (solve p1 f refine1 {})) = some r2 ∧ r2.hv ≤ r1.hv ∧
      (∀ lr, refine1 (solveLoop p1 f (p1.itersLimit + 1) {}).1 = some lr → r1.hv = lr.fx ∧ r1.point = lr.x) := by
  have hne := C03.ne_none_of_total htot
  have hr2 : 1 < p2.r := by rw [hs.2.1]; exact hr
  have hn2 : 0 < p2.n := by rw [hs.1]; exact hn
  have hOK1 : RepOK p1 (solve p1 f refine1 {}) :=
    (repOK_stepInv hL hr hn hne).solve (repOK_refInv hL hr hn href1) (repOK_fresh p1)
  obtain ⟨-, -, -, K, hK, -, hK1, -⟩ := C03.C03_total p1 f refine1 hL hr hn htot
  cases hm1 : (solve p1 f refine1 {}).m with
  | none =>
    have : (solve p1 f refine1 {}).nTrials = 0 := by simp [PState.nTrials, hm1]
    have := hK1 hlim
    omega
  | some s1 =>
    obtain ⟨r1, hf1, -⟩ := hOK1.reported hL hr hn hm1
    have hle1 : RepLe p1 r1.hv (solve p1 f refine1 {}) := ⟨hOK1, s1, r1, hm1, hf1, le_refl _⟩
    have hle2 := (repLe_stepInv hL hr2 hn2 hne r1.hv).solve (repLe_refInv hL hr2 hn2 href2 r1.hv)
      ((repLe_sameMethod hs).2 hle1)
    obtain ⟨-, s2, r2, hm2, hf2, hv2⟩ := hle2
    refine ⟨r1, r2, by rw [reported_of_some hm1]; exact hf1, by rw [reported_of_some hm2]; exact hf2, hv2, ?_⟩
    intro lr hlr
    have hmX : (solveLoop p1 f (p1.itersLimit + 1) (runOps p1 f refine1 [] {})).1.m ≠ none := by
      intro h0
      have := (refineStep_fields (p := p1) refine1 (solveLoop p1 f (p1.itersLimit + 1) {}).1).2.2.2.2.2.2.2.2.2 h0
      rw [solve_eq] at hm1
      rw [PState.appendLog_m, this] at hm1
      cases hm1
    obtain ⟨rep, -, h2⟩ := C04_reported_after_refinement p1 f refine1 hL hr hn htot href1 [] lr hlr hmX
    have h3 : reported (solve p1 f refine1 {}) = some r1 := by rw [reported_of_some hm1]; exact hf1
    have h4 : reported (solve p1 f refine1 {}) = some { rep with point := lr.x, hv := lr.fx } := h2
    rw [h3] at h4
    have := Option.some.inj h4
    rw [this]
    exact ⟨rfl, rfl⟩

/-- **C04, a refinement keeps the reported trial.**  `DoLocalRefinement` refines the reported trial `b`; if the value returned is
not larger than the value holder of `b`, the refined trial is still the reported one afterwards. -/
theorem C04_refine_keeps_reported (ps : PState α) (s : State α) (lr : LocalResult α) (hm : ps.m = some s) (b : Item α)
    (hb : findItem s.items (reportedId ps s) = some b) (hle : lr.fx ≤ b.hv) :
    (doLocalRefinement ps lr).m = some { s with items := s.items.map (refineItem (reportedId ps s) lr) } ∧
    reportedId (doLocalRefinement ps lr) { s with items := s.items.map (refineItem (reportedId ps s) lr) } =
      reportedId ps s :=
  ⟨by rw [doLocalRefinement_some lr hm], reportedId_refine_of_le lr hm hb hle⟩

end field

/-! ## Non-vacuity over ℝ (real-number library functions, `N = 1`) -/
section NonVacuityReal
attribute [local instance] Fns.real

/-- a local search that obeys the contract and really improves: it returns the start point with the value lowered by 1 -/
noncomputable def exampleRefine : PState ℝ → Option (LocalResult ℝ) :=
  fun ps => (reported ps).map fun b => { x := b.point, fx := b.hv - 1, nfev := 3 }

theorem exampleRefine_le : RefineLe exampleRefine := by
  intro ps lr s b hlr hm hb
  unfold exampleRefine at hlr
  rw [reported_of_some hm, hb] at hlr
  simp only [Option.map_some, Option.some.injEq] at hlr
  subst hlr
  show b.hv - 1 ≤ b.hv
  linarith

/-- the parameters of the first phase: `C03.exampleParams` (`N = 1`, `r = 2`, `eps = 1/100`) with a budget of ONE iteration -/
noncomputable def params1 : Params ℝ := { C03.exampleParams with itersLimit := 1 }

/-- All hypotheses of `C04_reported_min`, `C04_reported_mono`, `C04_reported_le_every_refinement`, `C04_reported_after_resume` hold
for `params1` (budget 1) / `C03.exampleParams` (budget raised in place to 20), the objective `(x - 1/3)^2` and the refinement
`exampleRefine`; the first `Solve` does its first iteration and refines (result `lr`), it returns the refined value, and the resumed
run reports a value `≤` the refined one. -/
example : FnsLaws ℝ ∧ 1 < params1.r ∧ 0 < params1.n ∧
    (∀ k pt, (C03.exampleObj k pt).isSome = true) ∧ RefineLe exampleRefine ∧ RefineLe (fun _ : PState ℝ => none) ∧
    SameMethod params1 C03.exampleParams ∧ 1 ≤ params1.itersLimit ∧
    ∃ r1 r2 lr, reported (solve params1 C03.exampleObj exampleRefine {}) = some r1 ∧
      exampleRefine (solveLoop params1 C03.exampleObj (params1.itersLimit + 1) {}).1 = some lr ∧
      r1.hv = lr.fx ∧
      reported (solve C03.exampleParams C03.exampleObj (fun _ => none)
        (solve params1 C03.exampleObj exampleRefine {})) = some r2 ∧
      r2.hv ≤ lr.fx := by
  have hr : (1 : ℝ) < params1.r := by norm_num [params1, C03.exampleParams]
  have hn : 0 < params1.n := by norm_num [params1, C03.exampleParams]
  have htot : ∀ k pt, (C03.exampleObj k pt).isSome = true := fun _ _ => rfl
  have hnone : RefineLe (fun _ : PState ℝ => none) := by intro ps lr s b h; cases h
  have hs : SameMethod params1 C03.exampleParams := ⟨rfl, rfl, rfl⟩
  have hlim : 1 ≤ params1.itersLimit := Nat.le_refl 1
  refine ⟨FnsLaws.real, hr, hn, htot, exampleRefine_le, hnone, hs, hlim, ?_⟩
  obtain ⟨r1, r2, h1, h2, h3, h4⟩ := C04_reported_after_resume params1 C03.exampleParams
    C03.exampleObj exampleRefine (fun _ => none) FnsLaws.real hr hn htot hs hlim exampleRefine_le hnone
  -- the first `Solve` refines: its loop ends with the first iteration done, so a trial is reported there
  have hOKX : RepOK params1 (solveLoop params1 C03.exampleObj (params1.itersLimit + 1) {}).1 :=
    (repOK_stepInv FnsLaws.real hr hn (C03.ne_none_of_total htot)).solveLoop _ (repOK_fresh _)
  have hmX : (solveLoop params1 C03.exampleObj (params1.itersLimit + 1) {}).1.m ≠ none := by
    intro h0
    have hm1 : (solve params1 C03.exampleObj exampleRefine {}).m = none := by
      rw [solve_eq, PState.appendLog_m]
      exact (refineStep_fields (p := params1) exampleRefine _).2.2.2.2.2.2.2.2.2 h0
    unfold reported at h1
    rw [hm1] at h1
    cases h1
  cases hm : (solveLoop params1 C03.exampleObj (params1.itersLimit + 1) {}).1.m with
  | none => exact absurd hm hmX
  | some sX =>
    obtain ⟨rep, hrep, -⟩ := hOKX.reported FnsLaws.real hr hn hm
    have hlr : exampleRefine (solveLoop params1 C03.exampleObj (params1.itersLimit + 1) {}).1 =
        some { x := rep.point, fx := rep.hv - 1, nfev := 3 } := by
      unfold exampleRefine
      rw [reported_of_some hm, hrep]; rfl
    have h5 := (h4 _ hlr).1
    exact ⟨r1, r2, _, h1, hlr, h5, h2, by rw [← h5]; exact h3⟩

end NonVacuityReal

/-! ## Executable instances over ℚ (the toy instance `ProcToy`: `N = 1`, `root x _ = x`, objective `(x - 1/3)^2`), by kernel evaluation -/
section examples
open ProcToy

/-- the refinement of the examples: `DoLocalRefinement` moves the reported trial to `x = 1/3` with value `0` -/
def exRefine : PState Rat → Option (LocalResult Rat) := fun _ => some { x := [1/3], fx := 0, nfev := 7 }

/-- point and value holder of a trial -/
def pv (o : Option (Item Rat)) : Option (List Rat × Rat) := o.map fun it => (it.point, it.hv)

/-- **The example of the defect** (the old remark of `C03resume.lean`): the first `Solve` (budget 5, with refinement) returns the
refined optimum `(1/3, 0)`; the budget is raised to 50 and `Solve` is called again without refinement.  The METHOD's best moves to
another trial with a positive value — before the repair that trial was reported — but `GetResults()` still reports `(1/3, 0)`. -/
example :
    pv (reported (solve (P 5 (1/10)) F exRefine {})) = some ([1/3], 0) ∧
    pv (reported (solve (P 50 (1/10)) F noRefine (solve (P 5 (1/10)) F exRefine {}))) = some ([1/3], 0) ∧
    (pv (methodBest (solve (P 50 (1/10)) F noRefine (solve (P 5 (1/10)) F exRefine {})))).any
      (fun b => decide (0 < b.2)) = true ∧
    (solve (P 50 (1/10)) F noRefine (solve (P 5 (1/10)) F exRefine {})).m.map (·.best) ≠
      (solve (P 5 (1/10)) F exRefine {}).m.map (·.best) ∧
    (solve (P 50 (1/10)) F noRefine (solve (P 5 (1/10)) F exRefine {})).refined =
      (solve (P 5 (1/10)) F exRefine {}).m.map (·.best) := by
  decide +kernel

/-- the same through `runOps`: `Solve` (refining), then three more global iterations, then `Solve` again (refining the REPORTED
trial, which is not the method's best any more): the reported value is `0` throughout -/
example :
    (pv (reported (runOps (P 5 (1/10)) F exRefine [Op.solve] {})) = some ([1/3], 0)) ∧
    (pv (reported (runOps (P 5 (1/10)) F exRefine [Op.solve, Op.iter 3] {})) = some ([1/3], 0)) ∧
    (runOps (P 5 (1/10)) F exRefine [Op.solve, Op.iter 3] {}).m.map (·.best) ≠
      (runOps (P 5 (1/10)) F exRefine [Op.solve, Op.iter 3] {}).refined ∧
    (pv (reported (runOps (P 5 (1/10)) F exRefine [Op.solve, Op.iter 3, Op.solve] {})) = some ([1/3], 0)) ∧
    (runOps (P 5 (1/10)) F exRefine [Op.solve, Op.iter 3, Op.solve] {}).refined =
      (runOps (P 5 (1/10)) F exRefine [Op.solve, Op.iter 3] {}).refined := by
  decide +kernel

/-- without refinement the reported trial is the method's best -/
example : pv (reported (runOps (P 5 (1/10)) F noRefine [Op.iter 2, Op.solve] {})) =
    pv (methodBest (runOps (P 5 (1/10)) F noRefine [Op.iter 2, Op.solve] {})) ∧
    (reported (runOps (P 5 (1/10)) F noRefine [Op.iter 2, Op.solve] {})).isSome = true := by
  decide +kernel

example := C04_reported_eq_best_without_refinement (P 5 (1/10)) F [Op.iter 2, Op.solve]

end examples

end C04
