import IOptModel.Solver
import IOptProofs.ComposeCert
import IOptProps.C01
import IOptProps.C01dimN
import IOptProps.C02
import IOptProps.C04
/-!
# C01 at the level of `Solve`: the accuracy certificate of a run that stopped by accuracy

"If Solve stops by the accuracy criterion and the reliability condition holds for the estimate M, the
reported best value exceeds the global minimum by less than (r M / 2) eps."

`Proc.pureObj g` is the objective `fun _ pt => some (g pt)` (never raises).  `Solve` on a fresh solver
"stopped by accuracy" means that the reported accuracy `min_delta` is below `eps`
(`∃ d, minDelta = some d ∧ d < eps`), i.e. not only by the budget.

`M⁻ = Proc.mBeforeLast p f refine`: the estimate in force when the LAST interval was selected (the `M` of
the method state after `numberOfGlobalTrials - 1` iterations).  The certificate holds with `M⁻`
(`1 ≤ M⁻ ≤ M_final`); with the final `M` the statement is false in a corner case (finding F7), it
holds literally when the last trial did not change `M`.

* `C01_solve_dim1`: `N = 1`, any evolvent `p.image` along which the objective is `L`-Lipschitz.
* `C01_solve_dimN`: over ℝ, `Ev.DimOK N`, `p = Solver.mk c`, with the grid term
  `L·2^-m·(√(N+3) + √N/2)` and w.r.t. the minimum over the whole BOX.
-/
set_option linter.unusedSectionVars false

namespace AGP
open AGP.Ctl Proc

section Dim1
variable {α : Type} [Field α] [LinearOrder α] [IsStrictOrderedRing α] [Fns α]

/-- **C01 for `Solve`, `N = 1`.**  Let `p.n = 1`, `1 < r`, the objective `g` pure and total, and
`F x = g (p.image x)` `L`-Lipschitz on `[0,1]`.  If `Solve` on a fresh solver stopped by accuracy, then
the final method state `sf` and the estimate `M⁻` in force at the last selection satisfy
`1 ≤ M⁻ ≤ sf.M` (`= M_final`), `eps > 0`, and:
1. if `2 L ≤ r M⁻` then `sf.Z - F x < (r M⁻/2)·eps ≤ (r M_final/2)·eps` for all `x ∈ [0,1]`;
2. if `2 L ≤ r` the same bound holds unconditionally;
3. (literal statement of C01) if the last trial did not change `M` (`M⁻ = M_final`) and
   `2 L ≤ r M_final` then `sf.Z - F x < (r M_final/2)·eps` for all `x ∈ [0,1]`;
4. `sf.Z` is the smallest recorded value, and without refinement it is the value of the reported best
   trial (`C04_best`). -/
theorem C01_solve_dim1 (p : Params α) (hn1 : p.n = 1) (hL : FnsLaws α) (hr : 1 < p.r)
    (g : List α → α) (L : α)
    (hLip : ∀ x y, 0 ≤ x → x ≤ 1 → 0 ≤ y → y ≤ 1 →
      |g (p.image x) - g (p.image y)| ≤ L * |x - y|)
    (refine : PState α → Option (LocalResult α))
    (hacc : ∃ d, (solve p (pureObj g) refine {}).minDelta = some d ∧ d < p.eps) :
    ∃ sf Mm, (solve p (pureObj g) refine {}).m = some sf ∧
      mBeforeLast p (pureObj g) refine = some Mm ∧
      1 ≤ Mm ∧ Mm ≤ sf.M ∧ 0 < p.eps ∧
      (p.r * Mm / 2) * p.eps ≤ (p.r * sf.M / 2) * p.eps ∧
      (2 * L ≤ p.r * Mm → ∀ x, 0 ≤ x → x ≤ 1 → sf.Z - g (p.image x) < (p.r * Mm / 2) * p.eps) ∧
      (2 * L ≤ p.r → ∀ x, 0 ≤ x → x ≤ 1 → sf.Z - g (p.image x) < (p.r * Mm / 2) * p.eps) ∧
      (Mm = sf.M → 2 * L ≤ p.r * sf.M →
        ∀ x, 0 ≤ x → x ≤ 1 → sf.Z - g (p.image x) < (p.r * sf.M / 2) * p.eps) ∧
      (∀ e ∈ (solve p (pureObj g) refine {}).evals, sf.Z ≤ e.2) ∧
      (∃ e ∈ (solve p (pureObj g) refine {}).evals, e.2 = sf.Z) ∧
      ((∀ ps, refine ps = none) → ∃ b, findItem sf.items sf.best = some b ∧ b.hv = sf.Z ∧
        (b.point, b.hv) ∈ (solve p (pureObj g) refine {}).evals) := by
  have hn : 0 < p.n := by rw [hn1]; exact one_pos
  obtain ⟨K, psk, idsk, s, pr, sf, -, -, -, hre, hlog, hpr, hlt, heps, hreK, hsf, hZ, hM, hno, hmb⟩ :=
    solve_last_step hL hr hn g refine hacc
  have hI := hre.inv hL hr hn
  have hF := C01_values_of_objective hL hr hn hre g hlog
  have hpt : pr.point = p.image pr.x := (prepare_spec' hL hr hn hI hpr).point_eq
  have hr0 : 0 < p.r := lt_trans one_pos hr
  -- the certificate of the last step, for any admissible reliability assumption
  have hcert : 2 * L ≤ p.r * s.M →
      ∀ x, 0 ≤ x → x ≤ 1 → sf.Z - g (p.image x) < (p.r * s.M / 2) * p.eps := by
    intro hrel
    have := (C01_cert_step hL hr hn1 hI (fun x => g (p.image x)) L hLip hF hpr hlt hrel).1
    rw [← hpt] at this
    rw [hZ]; exact this
  have hmono : s.M ≤ sf.M := by
    rw [hM]; exact prepare_commit_M_mono hL hr hn hI hpr _
  obtain ⟨hZmin, hZatt⟩ := C02_Z_is_min hL hr hn hreK
  refine ⟨sf, s.M, hsf, hmb, hI.M_ge, hmono, heps, ?_, hcert, ?_, ?_, ?_, ?_, ?_⟩
  · apply mul_le_mul_of_nonneg_right _ heps.le
    apply div_le_div_of_nonneg_right _ (by norm_num : (0:α) ≤ 2)
    exact mul_le_mul_of_nonneg_left hmono hr0.le
  · intro hflat
    exact hcert (le_trans hflat (le_mul_of_one_le_right hr0.le hI.M_ge))
  · intro hMM hrel
    rw [← hMM]; exact hcert (by rw [hMM]; exact hrel)
  · rw [hZ]; exact hZmin
  · rw [hZ]; exact hZatt
  · intro hnone
    obtain ⟨b, hb, -, -, -, hmem, -, -, -, -, hhv, hz⟩ := C04_best hL hr hn hreK
    rw [hno hnone]
    exact ⟨b, hb, by rw [hhv, hz], hmem⟩

/-- **C01 for `Solve`, `N = 1`, the literal statement.**  If `Solve` stopped by accuracy, its last
trial did not change the estimate (`M⁻ = M_final`, i.e. `mBeforeLast = some sf.M` for the final method
state `sf`) and the reliability condition `2 L ≤ r M_final` holds for the FINAL estimate, then the
reported best value `sf.Z` exceeds `F x` by less than `(r M_final / 2)·eps` at every `x ∈ [0,1]`. -/
theorem C01_solve_dim1_literal (p : Params α) (hn1 : p.n = 1) (hL : FnsLaws α) (hr : 1 < p.r)
    (g : List α → α) (L : α)
    (hLip : ∀ x y, 0 ≤ x → x ≤ 1 → 0 ≤ y → y ≤ 1 →
      |g (p.image x) - g (p.image y)| ≤ L * |x - y|)
    (refine : PState α → Option (LocalResult α))
    (hacc : ∃ d, (solve p (pureObj g) refine {}).minDelta = some d ∧ d < p.eps)
    (sf : State α) (hsf : (solve p (pureObj g) refine {}).m = some sf)
    (hsame : mBeforeLast p (pureObj g) refine = some sf.M) (hrel : 2 * L ≤ p.r * sf.M) :
    ∀ x, 0 ≤ x → x ≤ 1 → sf.Z - g (p.image x) < (p.r * sf.M / 2) * p.eps := by
  obtain ⟨sf', Mm, hsf', hmb, -, -, -, -, -, -, hlit, -⟩ :=
    C01_solve_dim1 p hn1 hL hr g L hLip refine hacc
  rw [hsf] at hsf'
  cases hsf'
  rw [hsame] at hmb
  exact hlit (Option.some.inj hmb).symm hrel

end Dim1

section DimN
open Ev
attribute [local instance] Ev.Num.floorTrunc
variable [Fns ℝ]

/-- **C01 for `Solve`, `Ev.DimOK N` (over ℝ), on the box.**  Let `c` be a solver configuration with
`Ev.DimOK N`, bounds `lower_i < upper_i`, `1 < r`; let the objective `fb` be pure and total, and let `L`
be its Lipschitz constant on the box normalised to unit side (`fb ∘ __TransformP2D` is `L`-Lipschitz on
the cube `[-1/2,1/2]^N`, Euclidean norm; e.g. `L = L_box · max_i (upper_i - lower_i)` by
`Ev.C01_lip_normalised`).  If `Solve` on a fresh solver stopped by accuracy, then with `M⁻` the estimate
in force at the last selection (`1 ≤ M⁻ ≤ M_final`), `K_N = 2^(3-1/N)·√(N+3)`, `m = evolventDensity`:
1. if `K_N·L ≤ r·M⁻` then at EVERY point `b` of the box
   `sf.Z - fb b < (r M⁻/2)·eps + L·2^-m·(√(N+3) + √N/2)`, and `(r M⁻/2)·eps ≤ (r M_final/2)·eps`;
2. if `K_N·L ≤ r` the same bound holds unconditionally;
3. if the last trial did not change `M`, the bound holds with `M_final` under `K_N·L ≤ r·M_final`;
4. `sf.Z` is the smallest recorded value. -/
theorem C01_solve_dimN (c : Solver.Config ℝ) (hn : Ev.DimOK c.n) (hl : c.lower.length = c.n)
    (hu : c.upper.length = c.n)
    (hlt : ∀ i (h1 : i < c.lower.length) (h2 : i < c.upper.length), c.lower[i] < c.upper[i])
    (hL : FnsLaws ℝ) (hr : 1 < c.r) (fb : List ℝ → ℝ) (L : ℝ)
    (hf : LipCube c.n (fun y => fb (p2d c.lower c.upper y)) L)
    (refine : PState ℝ → Option (LocalResult ℝ))
    (hacc : ∃ d, (solve (Solver.mk c) (pureObj fb) refine {}).minDelta = some d ∧ d < c.eps) :
    ∃ sf Mm, (solve (Solver.mk c) (pureObj fb) refine {}).m = some sf ∧
      mBeforeLast (Solver.mk c) (pureObj fb) refine = some Mm ∧
      1 ≤ Mm ∧ Mm ≤ sf.M ∧ 0 < c.eps ∧
      (c.r * Mm / 2) * c.eps ≤ (c.r * sf.M / 2) * c.eps ∧
      (Kn c.n * L ≤ c.r * Mm → ∀ b : List ℝ, b.length = c.n →
        (∀ i (h0 : i < b.length) (h1 : i < c.lower.length) (h2 : i < c.upper.length),
          c.lower[i] ≤ b[i] ∧ b[i] ≤ c.upper[i]) →
        sf.Z - fb b < (c.r * Mm / 2) * c.eps +
          L * (1 / 2 ^ c.evolventDensity) * (Real.sqrt (c.n + 3) + Real.sqrt c.n / 2)) ∧
      (Kn c.n * L ≤ c.r → ∀ b : List ℝ, b.length = c.n →
        (∀ i (h0 : i < b.length) (h1 : i < c.lower.length) (h2 : i < c.upper.length),
          c.lower[i] ≤ b[i] ∧ b[i] ≤ c.upper[i]) →
        sf.Z - fb b < (c.r * Mm / 2) * c.eps +
          L * (1 / 2 ^ c.evolventDensity) * (Real.sqrt (c.n + 3) + Real.sqrt c.n / 2)) ∧
      (Mm = sf.M → Kn c.n * L ≤ c.r * sf.M → ∀ b : List ℝ, b.length = c.n →
        (∀ i (h0 : i < b.length) (h1 : i < c.lower.length) (h2 : i < c.upper.length),
          c.lower[i] ≤ b[i] ∧ b[i] ≤ c.upper[i]) →
        sf.Z - fb b < (c.r * sf.M / 2) * c.eps +
          L * (1 / 2 ^ c.evolventDensity) * (Real.sqrt (c.n + 3) + Real.sqrt c.n / 2)) ∧
      (∀ e ∈ (solve (Solver.mk c) (pureObj fb) refine {}).evals, sf.Z ≤ e.2) ∧
      (∃ e ∈ (solve (Solver.mk c) (pureObj fb) refine {}).evals, e.2 = sf.Z) := by
  have hn0 : 0 < (Solver.mk c).n := by show 0 < c.n; exact hn.pos
  have hr' : 1 < (Solver.mk c).r := hr
  obtain ⟨K, psk, idsk, s, pr, sf, -, -, -, hre, hlog, hpr, hlt', heps, hreK, hsf, hZ, hM, -, hmb⟩ :=
    solve_last_step hL hr' hn0 fb refine hacc
  have hI := hre.inv hL hr' hn0
  have hF : ∀ it ∈ s.items, it.ev = true →
      it.z = fb (getImage (Solver.mk c).n c.evolventDensity c.lower c.upper it.x) :=
    C01_values_of_objective hL hr' hn0 hre fb hlog
  have hr0 : 0 < c.r := lt_trans one_pos hr
  have hcert : Kn c.n * L ≤ c.r * s.M → ∀ b : List ℝ, b.length = c.n →
      (∀ i (h0 : i < b.length) (h1 : i < c.lower.length) (h2 : i < c.upper.length),
        c.lower[i] ≤ b[i] ∧ b[i] ≤ c.upper[i]) →
      sf.Z - fb b < (c.r * s.M / 2) * c.eps +
        L * (1 / 2 ^ c.evolventDensity) * (Real.sqrt (c.n + 3) + Real.sqrt c.n / 2) := by
    intro hrel b hb hin
    have := (C01_cert_step_box (p := Solver.mk c) hL hr' hn hI c.evolventDensity c.lower c.upper hl hu hlt
      fb L hf hF hpr hlt' hrel (fb pr.point)).1 b hb hin
    rw [hZ]; exact this
  have hmono : s.M ≤ sf.M := by
    rw [hM]; exact prepare_commit_M_mono hL hr' hn0 hI hpr _
  obtain ⟨hZmin, hZatt⟩ := C02_Z_is_min hL hr' hn0 hreK
  refine ⟨sf, s.M, hsf, hmb, hI.M_ge, hmono, heps, ?_, hcert, ?_, ?_, ?_, ?_⟩
  · apply mul_le_mul_of_nonneg_right _ heps.le
    apply div_le_div_of_nonneg_right _ (by norm_num : (0:ℝ) ≤ 2)
    exact mul_le_mul_of_nonneg_left hmono hr0.le
  · intro hflat
    exact hcert (le_trans hflat (le_mul_of_one_le_right hr0.le hI.M_ge))
  · intro hMM hrel
    rw [← hMM]; exact hcert (by rw [hMM]; exact hrel)
  · rw [hZ]; exact hZmin
  · rw [hZ]; exact hZatt

end DimN

/-! ## Non-vacuity (over ℝ with the real-number library functions)

Nothing can be computed over ℝ; the examples use `eps > 1`, for which `Solve` provably stops by accuracy
at its second iteration (`Proc.solve_accuracy_of_big_eps`). -/
section NonVacuity
open Ev
attribute [local instance] Fns.real
attribute [local instance] Ev.Num.floorTrunc

/-- `N = 1`: identity evolvent, objective `g [x] = x` (`L = 1`), `r = 2` (so `2 L ≤ r`), `eps = 2`:
all hypotheses of `C01_solve_dim1` hold (and the flat-case premise `2 L ≤ r`). -/
example : ∃ (p : Params ℝ) (g : List ℝ → ℝ) (L : ℝ),
    p.n = 1 ∧ FnsLaws ℝ ∧ 1 < p.r ∧
    (∀ x y, 0 ≤ x → x ≤ 1 → 0 ≤ y → y ≤ 1 → |g (p.image x) - g (p.image y)| ≤ L * |x - y|) ∧
    (∃ d, (solve p (pureObj g) (fun _ => none) {}).minDelta = some d ∧ d < p.eps) ∧ 2 * L ≤ p.r := by
  let p : Params ℝ := { n := 1, r := 2, eps := 2, itersLimit := 100, image := fun x => [x] }
  refine ⟨p, fun pt => pt.headD 0, 1, rfl, FnsLaws.real, by norm_num [p], ?_, ?_, by norm_num [p]⟩
  · intro x y _ _ _ _; simp [p]
  · exact solve_accuracy_of_big_eps FnsLaws.real (by norm_num [p]) (by norm_num [p])
      (pureObj_ne_none _) (by norm_num [p]) (by norm_num [p]) _

/-- `N = 2`: box `[-1,2] × [0,3]`, density 3, objective `fb b = (b₀ + 1)/3` — the first cube
coordinate up to a shift, so `fb ∘ p2d` is `1`-Lipschitz on the cube — `r = 18 ≥ K_2`, `eps = 2`:
all hypotheses of `C01_solve_dimN` hold (and the flat-case premise `K_2·L ≤ r`). -/
example : ∃ (c : Solver.Config ℝ) (fb : List ℝ → ℝ) (L : ℝ),
    (Ev.DimOK c.n) ∧ c.lower.length = c.n ∧ c.upper.length = c.n ∧
    (∀ i (h1 : i < c.lower.length) (h2 : i < c.upper.length), c.lower[i] < c.upper[i]) ∧
    FnsLaws ℝ ∧ 1 < c.r ∧ LipCube c.n (fun y => fb (p2d c.lower c.upper y)) L ∧
    (∃ d, (solve (Solver.mk c) (pureObj fb) (fun _ => none) {}).minDelta = some d ∧ d < c.eps) ∧
    Kn c.n * L ≤ c.r := by
  let c : Solver.Config ℝ :=
    { n := 2, lower := [-1, 0], upper := [2, 3], eps := 2, r := 18, itersLimit := 50, evolventDensity := 3 }
  let fb : List ℝ → ℝ := fun b => (getR b 0 + 1) / 3 - 1 / 2
  have hlt : ∀ i (h1 : i < c.lower.length) (h2 : i < c.upper.length), c.lower[i] < c.upper[i] := by
    intro i h1 h2
    have : i = 0 ∨ i = 1 := by simp [c] at h1; omega
    rcases this with rfl | rfl <;> norm_num [c]
  have hfun : ∀ y, InCube 2 y → fb (p2d c.lower c.upper y) = getR y 0 := by
    intro y hy
    match y, hy.1 with
    | [a, b], _ => simp [fb, c, p2d, getR]; ring
  refine ⟨c, fb, 1, (by show Ev.DimOK 2; decide), rfl, rfl, hlt, FnsLaws.real, by norm_num [c], ?_, ?_, ?_⟩
  · intro a b ha hb
    show |fb (p2d c.lower c.upper a) - fb (p2d c.lower c.upper b)| ≤ 1 * dist2 a b
    rw [hfun a ha, hfun b hb]
    exact lipCube_coord (n := 2) (i := 0) (by norm_num) a b ha hb
  · exact solve_accuracy_of_big_eps (p := Solver.mk c) FnsLaws.real (by norm_num [Solver.mk, c])
      (by norm_num [Solver.mk, c]) (pureObj_ne_none _) (by norm_num [Solver.mk, c])
      (by norm_num [Solver.mk, c]) _
  · have : Kn c.n * 1 ≤ 18 := Kn_two_le
    exact this

/-- along a run in which the objective only returns `0`, the estimate `M` stays at its floor `1` -/
theorem M_eq_one_of_zero_values {p : Params ℝ} (hr : 1 < p.r) (hn : 0 < p.n) {s : State ℝ}
    {log : List (List ℝ × ℝ)} (h : Reach p s log) : (∀ e ∈ log, e.2 = 0) → s.M = 1 := by
  refine Reach.induction (P := fun s log => (∀ e ∈ log, e.2 = 0) → s.M = 1) ?_ ?_ h
  · intro z _; rfl
  · intro s log pr z hre ih hp hz
    have hM : s.M = 1 := ih (fun e he => hz e (List.mem_append_left _ he))
    have hI := hre.inv FnsLaws.real hr hn
    have hre' := hre.step z hp
    have hI' := hre'.inv FnsLaws.real hr hn
    rcases commit_M_attained FnsLaws.real (prepare_spec' FnsLaws.real hr hn hI hp) z with h1 | ⟨a, b, hab, ha, hb, h1⟩
    · rw [h1, hM]
    · exfalso
      have hv := C01_values_of_objective FnsLaws.real hr hn hre' (fun _ => 0) hz
      rw [hv a hab.mem_left ha, hv b hab.mem_right hb] at h1
      have := hI'.M_ge
      rw [h1] at this
      simp at this
      linarith

/-- the hypotheses of `C01_solve_dim1_literal` are satisfiable: for the constant objective `0`
(`L = 0`) the estimate never moves, so `M⁻ = M_final = 1`. -/
example : ∃ (p : Params ℝ) (g : List ℝ → ℝ) (L : ℝ) (sf : State ℝ),
    p.n = 1 ∧ FnsLaws ℝ ∧ 1 < p.r ∧
    (∀ x y, 0 ≤ x → x ≤ 1 → 0 ≤ y → y ≤ 1 → |g (p.image x) - g (p.image y)| ≤ L * |x - y|) ∧
    (∃ d, (solve p (pureObj g) (fun _ => none) {}).minDelta = some d ∧ d < p.eps) ∧
    (solve p (pureObj g) (fun _ => none) {}).m = some sf ∧
    mBeforeLast p (pureObj g) (fun _ => none) = some sf.M ∧ 2 * L ≤ p.r * sf.M := by
  let p : Params ℝ := { n := 1, r := 2, eps := 2, itersLimit := 100, image := fun x => [x] }
  have hr : (1 : ℝ) < p.r := by norm_num [p]
  have hn : 0 < p.n := by norm_num [p]
  have hacc := solve_accuracy_of_big_eps (p := p) (f := pureObj (fun _ => (0 : ℝ))) FnsLaws.real hr hn
    (pureObj_ne_none _) (by norm_num [p]) (by norm_num [p]) (fun _ => none)
  obtain ⟨K, psk, idsk, s, pr, sf, -, -, -, hre, hlog, hpr, -, -, hreK, hsf, -, hM, hno, hmb⟩ :=
    solve_last_step FnsLaws.real hr hn (fun _ => (0 : ℝ)) (fun _ => none) hacc
  have hsM : s.M = 1 := M_eq_one_of_zero_values hr hn hre hlog
  have hev : ∀ e ∈ (solve p (pureObj (fun _ => (0 : ℝ))) (fun _ => none) {}).evals, e.2 = 0 := by
    intro e he
    obtain ⟨i, hi, rfl⟩ := List.mem_iff_getElem.1 he
    have := (C03.C03_trials_eq_evals p (pureObj (fun _ => (0 : ℝ))) (fun _ => none)).2.2.2.2.1 i _ _
      (by rw [List.getElem?_eq_getElem hi])
    simp only [pureObj, Option.some.injEq] at this
    exact this.symm
  have hfM : sf.M = 1 := by
    rw [hM]; exact M_eq_one_of_zero_values hr hn hreK hev
  refine ⟨p, fun _ => 0, 0, sf, rfl, FnsLaws.real, hr, ?_, hacc, hsf, by rw [hmb, hsM, hfM], ?_⟩
  · intro x y _ _ _ _; simp
  · rw [hfM]; norm_num [p]

end NonVacuity
end AGP
