import IOptProofs.SDLinks
import Mathlib.Data.Nat.Basic

/-!
# C19 — the search-data containers

Property (verbatim): "For any sequence of insertions (with or without a right-neighbour hint), queue
clears and refills and best-interval requests, traversal yields the inserted items in increasing
coordinate with consistent neighbour links and the correct count, and covering-interval lookup
returns the first item to the right of the query.  A best-interval request returns an item whose
queued characteristic is maximal (in the dual-queue variant: maximal among entries whose
characteristic is still current), and a bounded queue retains the highest-priority entries."

Model: `IOptModel/SearchData.lean` (namespace `SD`).  Coordinates `χ` and keys `κ` are arbitrary
linear orders; the model's Boolean comparisons are instantiated with
`ltB a b = decide (a < b)`, `leB a b = decide (a ≤ b)`, `neB a b = decide (a ≠ b)`.

Helper lemmas: `IOptProofs/SDQueue.lean` (queues), `IOptProofs/SDLinks.lean` (linked list, pops).
-/

namespace SD

variable {χ κ : Type} [LinearOrder χ] [LinearOrder κ]

/-! ## Vocabulary of the statements -/

/-- The operations of the container.  `insert x g l hint` inserts a fresh item with coordinate `x`,
global/local characteristic `g`/`l`, with (`some r`) or without (`none`) a right-neighbour hint. -/
inductive Op (χ κ : Type) where
  | insert (x : χ) (g l : κ) (hint : Option Nat)
  | clear
  | refill
  | popG
  | popL
  | setG (i : Nat) (k : κ)
  | setL (i : Nat) (k : κ)

/-- Apply one operation.  Where the model returns an error (Python raises) the state is left
UNCHANGED.  `popG`/`popL` are the best-interval requests, exactly as the correspondence driver
issues them: the dual-queue variant uses `popCurrent` with fuel `queue length + #items + 2`, the
base class uses `popMaxGlobal`; `popL` exists only in the dual-queue variant. -/
def applyOp (s : State χ κ) : Op χ κ → State χ κ
  | .insert x g l hint =>
    match insert ltB leB s { x := x, globalR := g, localR := l } hint with
    | .ok s' => s'
    | .error _ => s
  | .clear => clearQueue s
  | .refill => refill leB s
  | .popG =>
    match (if s.dual then popCurrent leB neB true (s.gq.length + s.trials.size + 2) s
           else popMaxGlobal leB s) with
    | .ok (s', _, _) => s'
    | .error _ => s
  | .popL =>
    if s.dual then
      match popCurrent leB neB false (s.lq.length + s.trials.size + 2) s with
      | .ok (s', _, _) => s'
      | .error _ => s
    else s
  | .setG i k => setGlobalR s i k
  | .setL i k => setLocalR s i k

/-- run a sequence of operations -/
def run (s : State χ κ) (ops : List (Op χ κ)) : State χ κ := ops.foldl applyOp s

/-- `r` is the FIRST id in traversal order whose coordinate is `> x`
(`xOf s.trials i` is the coordinate of item `i`). -/
def IsFirstAbove (s : State χ κ) (x : χ) (r : Nat) : Prop :=
  ∃ pre post, traversal s = pre ++ r :: post ∧ (∃ xr, xOf s.trials r = some xr ∧ x < xr) ∧
    ∀ a ∈ pre, ∀ xa, xOf s.trials a = some xa → xa ≤ x

/-- Precondition of an insertion of coordinate `x` with hint `hint`: `x` is not left of the first
item (`x_first ≤ x`; for `x < x_first` the Python code raises — the strict `x_first < x` of the
informal statement is a special case), some stored coordinate is `> x`, and the hint, when given, is
the first item in traversal order with coordinate `> x`. -/
def InsertOk (s : State χ κ) (x : χ) (hint : Option Nat) : Prop :=
  (∃ f xf, s.first = some f ∧ xOf s.trials f = some xf ∧ xf ≤ x) ∧
  (∃ j xj, xOf s.trials j = some xj ∧ x < xj) ∧
  (hint = none ∨ ∃ r, hint = some r ∧ IsFirstAbove s x r)

/-- Precondition of an operation (only insertions have one). -/
def OpOk (s : State χ κ) : Op χ κ → Prop
  | .insert x _ _ hint => InsertOk s x hint
  | _ => True

/-- every operation of the sequence meets its precondition in the state it is applied to -/
def ValidSeq (s : State χ κ) : List (Op χ κ) → Prop
  | [] => True
  | op :: ops => OpOk s op ∧ ValidSeq (applyOp s op) ops

/-- coordinates inserted by a sequence of operations, in order -/
def insertedXs : List (Op χ κ) → List χ
  | [] => []
  | .insert x _ _ _ :: ops => x :: insertedXs ops
  | _ :: ops => insertedXs ops

/-- the initial container: two fresh end items `l`, `r`; `m` = `maxlen`, `d` = dual-queue variant -/
def init (m : Option Nat) (d : Bool) (l r : Item χ κ) : State χ κ :=
  insertFirst { maxlen := m, dual := d } l r

/-- The full invariant: well-formed list, sorted queues whose entries refer to stored items, and a
non-degenerate bound. -/
structure Inv (s : State χ κ) : Prop where
  wf : WF s
  gsorted : QSorted s.gq
  lsorted : QSorted s.lq
  gids : ∀ e ∈ s.gq, e.2 < s.trials.size
  lids : ∀ e ∈ s.lq, e.2 < s.trials.size
  maxlen_pos : s.maxlen ≠ some 0

/-! ## What `WF` says -/

omit [LinearOrder κ] in
/-- **Meaning of the well-formedness invariant `WF`** (`WF s` is `Rep s.trials s.first (traversal s)`):
the first pointer is the head of the traversal; the traversal enumerates every stored id exactly
once (so its length is the number of items); consecutive ids `a, b` of the traversal are linked
both ways; the head has no left neighbour, the last item has no right neighbour; coordinates are
non-decreasing along the traversal. -/
theorem C19_WF_spec {s : State χ κ} (h : WF s) :
    (∃ f, s.first = some f ∧ (traversal s).head? = some f ∧ f < s.trials.size) ∧
    (traversal s).Perm (List.range s.trials.size) ∧
    (traversal s).length = s.trials.size ∧
    (∀ A a b B, traversal s = A ++ a :: b :: B →
      ∃ ia ib, s.trials[a]? = some ia ∧ s.trials[b]? = some ib ∧
        ia.right = some b ∧ ib.left = some a) ∧
    (∀ a B, traversal s = a :: B → ∃ ia, s.trials[a]? = some ia ∧ ia.left = none) ∧
    (∀ A a, traversal s = A ++ [a] → ∃ ia, s.trials[a]? = some ia ∧ ia.right = none) ∧
    (coordsOf s.trials (traversal s)).Pairwise (· ≤ ·) ∧
    (coordsOf s.trials (traversal s)).length = s.trials.size := by
  have hlink : ∀ {a : Nat} {p q : Option Nat}, linkOf s.trials a = some (p, q) →
      ∃ ia, s.trials[a]? = some ia ∧ ia.left = p ∧ ia.right = q := by
    intro a p q hl
    unfold linkOf at hl
    cases hg : s.trials[a]? with
    | none => rw [hg] at hl; cases hl
    | some ia =>
      rw [hg] at hl
      simp only [Option.map_some, Option.some.injEq, Prod.mk.injEq] at hl
      exact ⟨ia, rfl, hl.1, hl.2⟩
  refine ⟨?_, h.perm, h.length_eq, ?_, ?_, ?_, h.coords_sorted, h.coords_length⟩
  · cases ht : traversal s with
    | nil => exact absurd ht h.ne_nil
    | cons f T =>
      refine ⟨f, by rw [h.first_eq, ht]; rfl, rfl, ?_⟩
      exact h.mem_iff.1 (by rw [ht]; exact List.mem_cons_self)
  · intro A a b B ht
    have hs := h.seg
    rw [ht, Seg_append, Seg_cons, Seg_cons] at hs
    obtain ⟨ia, hia, -, hra⟩ := hlink hs.2.1
    obtain ⟨ib, hib, hlb, -⟩ := hlink hs.2.2.1
    exact ⟨ia, ib, hia, hib, hra, hlb⟩
  · intro a B ht
    have hs := h.seg
    rw [ht, Seg_cons] at hs
    obtain ⟨ia, hia, hla, -⟩ := hlink hs.1
    exact ⟨ia, hia, hla⟩
  · intro A a ht
    have hs := h.seg
    rw [ht, Seg_append, Seg_cons] at hs
    obtain ⟨ia, hia, -, hra⟩ := hlink hs.2.1
    exact ⟨ia, hia, hra⟩

omit [LinearOrder κ] in
/-- **C19_WF_iff.** `WF` is EXACTLY the conjunction of the readable clauses: the first pointer is
the head of the traversal; the traversal is a permutation of all stored ids; consecutive ids are
linked both ways; the head has `left = none`; the last item has `right = none`; the coordinates
along the traversal are non-decreasing. -/
theorem C19_WF_iff (s : State χ κ) :
    WF s ↔
      (∃ f, s.first = some f ∧ (traversal s).head? = some f) ∧
      (traversal s).Perm (List.range s.trials.size) ∧
      (∀ A a b B, traversal s = A ++ a :: b :: B →
        ∃ ia ib, s.trials[a]? = some ia ∧ s.trials[b]? = some ib ∧
          ia.right = some b ∧ ib.left = some a) ∧
      (∀ a B, traversal s = a :: B → ∃ ia, s.trials[a]? = some ia ∧ ia.left = none) ∧
      (∀ A a, traversal s = A ++ [a] → ∃ ia, s.trials[a]? = some ia ∧ ia.right = none) ∧
      (coordsOf s.trials (traversal s)).Pairwise (· ≤ ·) := by
  constructor
  · intro h
    obtain ⟨⟨f, h1, h2, -⟩, h3, -, h4, h5, h6, h7, -⟩ := C19_WF_spec h
    exact ⟨⟨f, h1, h2⟩, h3, h4, h5, h6, h7⟩
  · rintro ⟨⟨f, h1, h2⟩, h3, h4, h5, h6, h7⟩
    refine ⟨by rw [h1, h2], ?_, h3, Seg_of_clauses _ none none h4 h5 h6, ?_⟩
    · intro hnil; rw [hnil] at h2; cases h2
    · unfold coordsOf at h7
      rw [List.pairwise_filterMap] at h7
      refine List.Pairwise.imp ?_ h7
      intro a b hab xa xb hxa hxb
      exact hab xa hxa xb hxb

/-! ## One step of the state machine (auxiliary) -/

omit [LinearOrder κ] in
theorem isFirstAbove_iff_find {s : State χ κ} (h : WF s) (x : χ) (r : Nat) :
    IsFirstAbove s x r ↔ find ltB s x = some r := by
  unfold IsFirstAbove
  rw [find_some_iff h x r]

theorem Inv.setq_sublist {s : State χ κ} (h : Inv s) (glob : Bool) {q' : List (κ × Nat)}
    (hsub : q'.Sublist (selq glob s)) : Inv (setq glob s q') := by
  have hwf : WF (setq glob s q') := (WF_congr (setq_trials _ _ _) (setq_first _ _ _)).2 h.wf
  cases glob
  · exact ⟨hwf, h.gsorted, h.lsorted.sublist hsub, h.gids, fun e he => h.lids e (hsub.subset he),
      h.maxlen_pos⟩
  · exact ⟨hwf, h.gsorted.sublist hsub, h.lsorted, fun e he => h.gids e (hsub.subset he), h.lids,
      h.maxlen_pos⟩

theorem Inv.clear {s : State χ κ} (h : Inv s) : Inv (clearQueue s) :=
  ⟨(WF_congr (s := s) (s' := clearQueue s) rfl rfl).2 h.wf, QSorted.nil, QSorted.nil,
    by simp [clearQueue], by simp [clearQueue], h.maxlen_pos⟩

theorem Inv.refill {s : State χ κ} (h : Inv s) : Inv (refill leB s) := by
  have hwf : WF (SD.refill leB s) := (WF_congr (refill_trials s) (refill_first s)).2 h.wf
  have hids : ∀ (c : Item χ κ → κ) (e : κ × Nat),
      e ∈ qinsertAll s.maxlen (entriesOf c s.trials (traversal s)) [] → e.2 < s.trials.size := by
    intro c e he
    exact (Rep.mem_iff h.wf).1 (mem_entriesOf.1 (mem_of_mem_qinsertAll_nil he)).1
  refine ⟨hwf, ?_, ?_, ?_, ?_, ?_⟩
  · rw [refill_eq]; exact qinsertAll_sorted _ _ QSorted.nil
  · rw [refill_eq]
    show QSorted (if s.dual then _ else _)
    split
    · exact qinsertAll_sorted _ _ QSorted.nil
    · exact QSorted.nil
  · rw [refill_trials]
    rw [refill_eq]
    exact hids _
  · rw [refill_trials]
    rw [refill_eq]
    show ∀ e ∈ (if s.dual then _ else _), _
    split
    · exact hids _
    · simp
  · rw [refill_maxlen]; exact h.maxlen_pos

/-- the effect of a valid insertion on the whole state -/
theorem insert_step {s : State χ κ} (h : Inv s) (x : χ) (g l : κ) (hint : Option Nat)
    (hok : InsertOk s x hint) :
    ∃ s' A r B, insert ltB leB s { x := x, globalR := g, localR := l } hint = .ok s' ∧
      Inv s' ∧ s'.maxlen = s.maxlen ∧ s'.dual = s.dual ∧
      storedXs s'.trials = storedXs s.trials ++ [x] ∧
      traversal s = A ++ r :: B ∧ IsFirstAbove s x r ∧
      traversal s' = A ++ s.trials.size :: r :: B ∧
      xOf s'.trials s.trials.size = some x ∧
      (∀ i, i < s.trials.size → xOf s'.trials i = xOf s.trials i) := by
  obtain ⟨⟨f, xf, hf, hxf, hlt⟩, hcover, hhint⟩ := hok
  have hhint' : hint = none ∨ hint = find ltB s x := by
    rcases hhint with h0 | ⟨r, hr, hfa⟩
    · exact Or.inl h0
    · right; rw [hr, (isFirstAbove_iff_find h.wf x r).1 hfa]
  obtain ⟨pre', lft, r, post, rit, s', ht, hfind, hrit, hins, hs', hrep⟩ :=
    insert_rep (κ := κ) h.wf { x := x, globalR := g, localR := l } hint
      (by
        intro f' xf' hf' hxf'
        rw [hf] at hf'; cases hf'
        rw [hxf] at hxf'; cases hxf'
        exact hlt)
      hcover hhint'
  have hrep0 : Rep s.trials s.first (pre' ++ lft :: r :: post) := by
    have := h.wf
    unfold WF at this
    rwa [ht] at this
  obtain ⟨hl, hr, hlr⟩ := hrep0.split_facts
  have htr : s'.trials = insTrials s.trials { x := x, globalR := g, localR := l } lft r := by
    rw [hs']
  have hsz : s'.trials.size = s.trials.size + 1 := by rw [htr, insTrials_size]
  refine ⟨s', pre' ++ [lft], r, post, hins, ?_, by rw [hs'], by rw [hs'], ?_, by rw [ht]; simp,
    (isFirstAbove_iff_find h.wf x r).2 hfind, ?_, ?_, ?_⟩
  · refine ⟨hrep.wf, ?_, ?_, ?_, ?_, by rw [hs']; exact h.maxlen_pos⟩
    · rw [hs']; exact insQ_sorted _ _ _ _ _ _ h.gsorted
    · rw [hs']
      show QSorted (if s.dual then _ else _)
      split
      · exact insQ_sorted _ _ _ _ _ _ h.lsorted
      · exact h.lsorted
    · intro e he
      rw [hsz]
      rw [hs'] at he
      rcases mem_insQ he with rfl | rfl | he
      · exact Nat.lt_succ_self _
      · exact Nat.lt_succ_of_lt hr
      · exact Nat.lt_succ_of_lt (h.gids e he)
    · intro e he
      rw [hsz]
      rw [hs'] at he
      change e ∈ (if s.dual then _ else _) at he
      split at he
      · rcases mem_insQ he with rfl | rfl | he
        · exact Nat.lt_succ_self _
        · exact Nat.lt_succ_of_lt hr
        · exact Nat.lt_succ_of_lt (h.lids e he)
      · exact Nat.lt_succ_of_lt (h.lids e he)
  · rw [htr]; exact storedXs_insTrials _ _ _ _ hl hr hlr
  · rw [hrep.traversal_eq]; simp
  · rw [htr, insTrials_xOf _ _ _ _ _ hl hr hlr, if_pos rfl]
  · intro i hi
    rw [htr, insTrials_xOf _ _ _ _ _ hl hr hlr, if_neg (by omega)]

theorem popCurrent_step {s : State χ κ} (h : Inv s) (glob : Bool)
    (hd : glob = false → s.dual = true) (fuel : Nat) (hfuel : (selq glob s).length + 1 ≤ fuel) :
    ∃ s' i k, popCurrent leB neB glob fuel s = .ok (s', i, k) ∧ Inv s' ∧
      s'.trials = s.trials ∧ s'.maxlen = s.maxlen ∧ s'.dual = s.dual := by
  have hids : ∀ e ∈ selq glob s, e.2 < s.trials.size := by
    cases glob
    · exact h.lids
    · exact h.gids
  obtain ⟨s', i, k, hrun, -, hcase⟩ := popCurrent_spec h.wf glob fuel hids hd h.maxlen_pos hfuel
  refine ⟨s', i, k, hrun, ?_⟩
  rcases hcase with ⟨pre, hq, -, hs'⟩ | ⟨-, hq, hs', -⟩
  · rw [hs']
    refine ⟨h.setq_sublist glob ?_, by simp, by simp, by simp⟩
    rw [hq]
    exact (List.sublist_cons_self _ _).trans (List.sublist_append_right _ _)
  · rw [hs']
    refine ⟨h.refill.setq_sublist glob ?_, by simp [refill_trials], by simp [refill_maxlen],
      by simp [refill_dual]⟩
    rw [hq]
    exact List.sublist_cons_self _ _

theorem popMaxGlobal_step {s : State χ κ} (h : Inv s) :
    ∃ s' i k, popMaxGlobal leB s = .ok (s', i, k) ∧ Inv s' ∧
      s'.trials = s.trials ∧ s'.maxlen = s.maxlen ∧ s'.dual = s.dual := by
  obtain ⟨s', i, k, hrun, hcase⟩ := popMaxGlobal_spec h.wf h.maxlen_pos
  refine ⟨s', i, k, hrun, ?_⟩
  rcases hcase with ⟨hq, hs'⟩ | ⟨-, hq, hs', -⟩
  · rw [hs']
    refine ⟨h.setq_sublist true ?_, rfl, rfl, rfl⟩
    show s'.gq.Sublist s.gq
    rw [hq]
    exact List.sublist_cons_self _ _
  · rw [hs']
    refine ⟨h.refill.setq_sublist true ?_, refill_trials s, refill_maxlen s, refill_dual s⟩
    show s'.gq.Sublist (SD.refill leB s).gq
    rw [hq]
    exact List.sublist_cons_self _ _

/-- One valid operation preserves the invariant and the configuration, and appends exactly the
inserted coordinate (if any) to the stored coordinates. -/
theorem step_inv {s : State χ κ} (h : Inv s) (op : Op χ κ) (hok : OpOk s op) :
    Inv (applyOp s op) ∧ (applyOp s op).maxlen = s.maxlen ∧ (applyOp s op).dual = s.dual ∧
      storedXs (applyOp s op).trials = storedXs s.trials ++ insertedXs [op] := by
  cases op with
  | insert x g l hint =>
    obtain ⟨s', A, r, B, hins, hinv, hm, hd, hxs, -⟩ := insert_step h x g l hint hok
    have : applyOp s (.insert x g l hint) = s' := by simp [applyOp, hins]
    rw [this]
    exact ⟨hinv, hm, hd, hxs⟩
  | clear => exact ⟨h.clear, rfl, rfl, by simp [applyOp, clearQueue, insertedXs]⟩
  | refill =>
    exact ⟨h.refill, refill_maxlen s, refill_dual s, by simp [applyOp, refill_trials, insertedXs]⟩
  | popG =>
    by_cases hdual : s.dual = true
    · obtain ⟨s', i, k, hrun, hinv, htr, hm, hd⟩ :=
        popCurrent_step h true (by simp) (s.gq.length + s.trials.size + 2)
          (by simp [selq]; omega)
      have : applyOp s .popG = s' := by simp [applyOp, hdual, hrun]
      rw [this]
      exact ⟨hinv, hm, hd, by simp [htr, insertedXs]⟩
    · obtain ⟨s', i, k, hrun, hinv, htr, hm, hd⟩ := popMaxGlobal_step h
      have : applyOp s .popG = s' := by simp [applyOp, hdual, hrun]
      rw [this]
      exact ⟨hinv, hm, hd, by simp [htr, insertedXs]⟩
  | popL =>
    by_cases hdual : s.dual = true
    · obtain ⟨s', i, k, hrun, hinv, htr, hm, hd⟩ :=
        popCurrent_step h false (fun _ => hdual) (s.lq.length + s.trials.size + 2)
          (by simp [selq]; omega)
      have : applyOp s .popL = s' := by simp [applyOp, hdual, hrun]
      rw [this]
      exact ⟨hinv, hm, hd, by simp [htr, insertedXs]⟩
    · have : applyOp s .popL = s := by simp [applyOp, hdual]
      rw [this]
      exact ⟨h, rfl, rfl, by simp [insertedXs]⟩
  | setG i k =>
    obtain ⟨h1, h2, h3⟩ := modify_char_view s.trials i (fun it => { it with globalR := k })
      (fun _ => ⟨rfl, rfl, rfl⟩)
    refine ⟨⟨(Rep_setGlobalR i k h.wf).wf, h.gsorted, h.lsorted, ?_, ?_, h.maxlen_pos⟩, rfl, rfl, ?_⟩
    · intro e he; show e.2 < (s.trials.modify i _).size; rw [h1]; exact h.gids e he
    · intro e he; show e.2 < (s.trials.modify i _).size; rw [h1]; exact h.lids e he
    · show storedXs (s.trials.modify i _) = _
      rw [storedXs_of_view_eq h1 h3]; simp [insertedXs]
  | setL i k =>
    obtain ⟨h1, h2, h3⟩ := modify_char_view s.trials i (fun it => { it with localR := k })
      (fun _ => ⟨rfl, rfl, rfl⟩)
    refine ⟨⟨(Rep_setLocalR i k h.wf).wf, h.gsorted, h.lsorted, ?_, ?_, h.maxlen_pos⟩, rfl, rfl, ?_⟩
    · intro e he; show e.2 < (s.trials.modify i _).size; rw [h1]; exact h.gids e he
    · intro e he; show e.2 < (s.trials.modify i _).size; rw [h1]; exact h.lids e he
    · show storedXs (s.trials.modify i _) = _
      rw [storedXs_of_view_eq h1 h3]; simp [insertedXs]

/-! ## Headline theorems: the linked list -/

omit [LinearOrder κ] in
/-- **C19_find_spec.** In a well-formed container the covering-interval lookup `find x` returns the
first id in traversal order whose coordinate is `> x`, and `none` exactly when no stored coordinate
is `> x`. -/
theorem C19_find_spec {s : State χ κ} (h : WF s) (x : χ) :
    (∀ r, find ltB s x = some r ↔ IsFirstAbove s x r) ∧
    (find ltB s x = none ↔ ∀ a xa, xOf s.trials a = some xa → xa ≤ x) :=
  ⟨fun r => (isFirstAbove_iff_find h x r).symm, find_none_iff h x⟩

omit [LinearOrder κ] in
/-- **C19_find_covering.** The item found is the right end of the covering interval: its
coordinate is the least stored coordinate `> x`, and its left neighbour (the item just before it in
the traversal, if any) has a coordinate `≤ x`. -/
theorem C19_find_covering {s : State χ κ} (h : WF s) (x : χ) (r : Nat)
    (hf : find ltB s x = some r) :
    ∃ xr, xOf s.trials r = some xr ∧ x < xr ∧
      (∀ j xj, xOf s.trials j = some xj → x < xj → xr ≤ xj) ∧
      (∀ A l B, traversal s = A ++ l :: r :: B → ∀ xl, xOf s.trials l = some xl → xl ≤ x) := by
  obtain ⟨pre, post, ht, ⟨xr, hxr, hlt⟩, hpre⟩ := (isFirstAbove_iff_find h x r).2 hf
  refine ⟨xr, hxr, hlt, ?_, ?_⟩
  · intro j xj hxj hj
    have hjm : j ∈ traversal s := by
      rw [Rep.mem_iff h]
      by_contra hge
      unfold xOf at hxj
      rw [Array.getElem?_eq_none (by omega)] at hxj
      cases hxj
    rw [ht] at hjm
    rcases List.mem_append.1 hjm with hj1 | hj2
    · exact absurd (hpre j hj1 xj hxj) (not_le_of_gt hj)
    · rcases List.mem_cons.1 hj2 with rfl | hj3
      · rw [hxr] at hxj; cases hxj; exact le_refl _
      · have hs := Rep.sorted h
        rw [ht, List.pairwise_append, List.pairwise_cons] at hs
        exact hs.2.1.1 j hj3 xr xj hxr hxj
  · intro A l B ht' xl hxl
    have hnd : (traversal s).Nodup := Rep.nodup h
    -- the two decompositions around `r` coincide
    have hApre : pre = A ++ [l] := by
      have e : pre ++ r :: post = (A ++ [l]) ++ r :: B := by rw [← ht, ht']; simp
      have hr1 : r ∉ pre := by
        intro hm
        rw [ht, List.nodup_append] at hnd
        exact hnd.2.2 r hm r List.mem_cons_self rfl
      have hr2 : r ∉ A ++ [l] := by
        intro hm
        have hnd' := hnd
        rw [ht', show A ++ l :: r :: B = (A ++ [l]) ++ r :: B by simp, List.nodup_append] at hnd'
        exact hnd'.2.2 r hm r List.mem_cons_self rfl
      exact append_cons_inj_left hr1 hr2 e
    exact hpre l (by rw [hApre]; simp) xl hxl

/-- **C19_insert_ok / C19_wf_preserved.** If the container is well-formed, the new coordinate is
not left of the first item, some stored coordinate is larger, and the hint (when given) is the
first item in traversal order with a larger coordinate, then `insert` succeeds, the result is
well-formed, has one more item, and its traversal is the old one with the new id (= old item count)
placed immediately before that item.  Without a hint `insert` finds the item itself. -/
theorem C19_insert_ok {s : State χ κ} (h : WF s) (new : Item χ κ)
    (hint : Option Nat) (hok : InsertOk s new.x hint) :
    ∃ s' A r B, insert ltB leB s new hint = .ok s' ∧ WF s' ∧
      s'.trials.size = s.trials.size + 1 ∧ s'.first = s.first ∧
      traversal s = A ++ r :: B ∧ IsFirstAbove s new.x r ∧
      traversal s' = A ++ s.trials.size :: r :: B ∧
      storedXs s'.trials = storedXs s.trials ++ [new.x] := by
  obtain ⟨⟨f, xf, hf, hxf, hlt⟩, hcover, hhint⟩ := hok
  have hhint' : hint = none ∨ hint = find ltB s new.x := by
    rcases hhint with h0 | ⟨r, hr, hfa⟩
    · exact Or.inl h0
    · right; rw [hr, (isFirstAbove_iff_find h new.x r).1 hfa]
  obtain ⟨pre', lft, r, post, rit, s', ht, hfind, hrit, hins, hs', hrep⟩ :=
    insert_rep (κ := κ) h new hint
      (by
        intro f' xf' hf' hxf'
        rw [hf] at hf'; cases hf'
        rw [hxf] at hxf'; cases hxf'
        exact hlt)
      hcover hhint'
  have hrep0 : Rep s.trials s.first (pre' ++ lft :: r :: post) := by
    have := h
    unfold WF at this
    rwa [ht] at this
  obtain ⟨hl, hr, hlr⟩ := hrep0.split_facts
  have htr : s'.trials = insTrials s.trials new lft r := by rw [hs']
  refine ⟨s', pre' ++ [lft], r, post, hins, hrep.wf, by rw [htr, insTrials_size], by rw [hs'],
    by rw [ht]; simp, (isFirstAbove_iff_find h new.x r).2 hfind, ?_, ?_⟩
  · rw [hrep.traversal_eq]; simp
  · rw [htr]; exact storedXs_insTrials _ _ _ _ hl hr hlr

/-- **C19_wf_preserved.** Whenever a precondition-respecting `insert` returns a state, that state
is well-formed (corollary of `C19_insert_ok`). -/
theorem C19_wf_preserved {s s' : State χ κ} (h : WF s) (new : Item χ κ) (hint : Option Nat)
    (hok : InsertOk s new.x hint) (hins : insert ltB leB s new hint = .ok s') : WF s' := by
  obtain ⟨s'', -, -, -, hins', hwf, -⟩ := C19_insert_ok h new hint hok
  rw [hins] at hins'
  cases hins'
  exact hwf

omit [LinearOrder κ] in
/-- `WF` = consistent links (`RepL`, the clauses of `C19_WF_iff` without the last) + sortedness -/
theorem C19_WF_iff_links (s : State χ κ) :
    WF s ↔ RepL s.trials s.first (traversal s) ∧
      (coordsOf s.trials (traversal s)).Pairwise (· ≤ ·) := by
  constructor
  · intro h; exact ⟨Rep.repL h, Rep.coords_sorted h⟩
  · rintro ⟨hL, h7⟩
    refine ⟨hL.first_eq, hL.ne_nil, hL.perm, hL.seg, ?_⟩
    unfold coordsOf at h7
    rw [List.pairwise_filterMap] at h7
    refine List.Pairwise.imp ?_ h7
    intro a b hab xa xb hxa hxb
    exact hab xa hxa xb hxb

/-- **C19_insert_any_hint** (what a WRONG hint does; the three cases are exhaustive).  The hint is
trusted blindly: if `r` is a stored item other than the first one, the insertion succeeds and the
new id is spliced in immediately before `r` with consistent links — whatever the coordinates are, so
the order is lost unless the hint was right (`C19_insert_ok`).  Hinting the first item, or an id
that is not stored, raises `AttributeError`. -/
theorem C19_insert_any_hint {s : State χ κ} (h : WF s) (new : Item χ κ) (r : Nat) :
    (∀ A l B, traversal s = A ++ l :: r :: B →
      ∃ s', insert ltB leB s new (some r) = .ok s' ∧
        traversal s' = A ++ l :: s.trials.size :: r :: B ∧
        RepL s'.trials s'.first (traversal s')) ∧
    (∀ B, traversal s = r :: B → insert ltB leB s new (some r) = .error .attributeError) ∧
    (s.trials.size ≤ r → insert ltB leB s new (some r) = .error .attributeError) := by
  have hL : RepL s.trials s.first (traversal s) := Rep.repL h
  refine ⟨?_, ?_, ?_⟩
  · intro A l B ht
    rw [ht] at hL
    obtain ⟨s', hins, -, -, hL'⟩ := insert_hint_links (κ := κ) hL new
    refine ⟨s', hins, hL'.traversal_eq, ?_⟩
    rw [hL'.traversal_eq]; exact hL'
  · intro B ht
    rw [ht] at hL
    exact insert_hint_first_err (κ := κ) hL new
  · intro hr
    exact insert_hint_oob_err (κ := κ) hr new

omit [LinearOrder χ] [LinearOrder κ] in
theorem insertedXs_cons (op : Op χ κ) (ops : List (Op χ κ)) :
    insertedXs (op :: ops) = insertedXs [op] ++ insertedXs ops := by
  cases op <;> simp [insertedXs]

/-- **C19_init.** The initial container (two fresh end items, `l.x ≤ r.x`) satisfies the
invariant; its traversal is `[0, 1]`. -/
theorem C19_init_inv (m : Option Nat) (d : Bool) (l r : Item χ κ) (hl : l.left = none)
    (hr : r.right = none) (hx : l.x ≤ r.x) (hm : m ≠ some 0) :
    Inv (init m d l r) ∧ traversal (init m d l r) = [0, 1] ∧
      storedXs (init m d l r).trials = [l.x, r.x] ∧
      (init m d l r).maxlen = m ∧ (init m d l r).dual = d := by
  have hrep := Rep_insertFirst m d l r hl hr hx
  refine ⟨⟨hrep.wf, QSorted.nil, QSorted.nil, ?_, ?_, hm⟩, hrep.traversal_eq, ?_, rfl, rfl⟩
  · intro e he; cases he
  · intro e he; cases he
  · rw [storedXs_eq]; rfl

/-- **C19_run_inv.** The invariant (well-formed list, sorted queues referring to stored items) holds
after EVERY finite sequence of operations whose insertions meet their precondition; the stored
coordinates are the old ones followed by the inserted ones. -/
theorem C19_run_inv {s : State χ κ} (h : Inv s) (ops : List (Op χ κ)) (hv : ValidSeq s ops) :
    Inv (run s ops) ∧ (run s ops).maxlen = s.maxlen ∧ (run s ops).dual = s.dual ∧
      storedXs (run s ops).trials = storedXs s.trials ++ insertedXs ops := by
  induction ops generalizing s with
  | nil => exact ⟨h, rfl, rfl, by simp [run, insertedXs]⟩
  | cons op ops ih =>
    obtain ⟨hok, hv'⟩ := hv
    obtain ⟨h1, hm1, hd1, hx1⟩ := step_inv h op hok
    obtain ⟨h2, hm2, hd2, hx2⟩ := ih h1 hv'
    refine ⟨h2, hm2.trans hm1, hd2.trans hd1, ?_⟩
    show storedXs (run (applyOp s op) ops).trials = _
    rw [hx2, hx1, insertedXs_cons op ops, List.append_assoc]

/-- **C19_traversal_sorted.** After any operation sequence (insertions with or without hint, queue
clears, refills, best-interval requests, characteristic updates) satisfying the insert
preconditions, started from the initial container: the container is well-formed (links consistent,
see `C19_WF_spec`), the coordinates along the traversal are sorted and are exactly the inserted
coordinates (strictly increasing if no coordinate was inserted twice), and
`traversal.length = trials.size = 2 + number of inserts`.  The invariant `Inv s` in the conclusion
supplies all hypotheses of the request theorems `C19_pop_max`, `C19_dual_pop_current`,
`C19_refill_spec`, `C19_find_spec`, `C19_insert_ok` in every reachable state.
(Non-vacuity: `Example.valid` below.) -/
theorem C19_traversal_sorted (m : Option Nat) (d : Bool) (l r : Item χ κ) (hl : l.left = none)
    (hr : r.right = none) (hx : l.x ≤ r.x) (hm : m ≠ some 0) (ops : List (Op χ κ))
    (hv : ValidSeq (init m d l r) ops) :
    let s := run (init m d l r) ops
    Inv s ∧ s.maxlen = m ∧ s.dual = d ∧
    (coordsOf s.trials (traversal s)).Pairwise (· ≤ ·) ∧
    (coordsOf s.trials (traversal s)).Perm (l.x :: r.x :: insertedXs ops) ∧
    ((l.x :: r.x :: insertedXs ops).Nodup → (coordsOf s.trials (traversal s)).Pairwise (· < ·)) ∧
    (traversal s).length = s.trials.size ∧
    s.trials.size = 2 + (insertedXs ops).length := by
  intro s
  obtain ⟨hinv0, -, hxs0, -, -⟩ := C19_init_inv m d l r hl hr hx hm
  obtain ⟨hinv, hmax, hdual, hxs⟩ := C19_run_inv hinv0 ops hv
  rw [hxs0] at hxs
  have hxs' : storedXs s.trials = l.x :: r.x :: insertedXs ops := hxs
  have hwf : Rep s.trials s.first (traversal s) := hinv.wf
  refine ⟨hinv, hmax, hdual, hwf.coords_sorted, ?_, ?_, hwf.length_eq, ?_⟩
  · rw [← hxs']; exact hwf.coords_perm
  · intro hnd
    exact hwf.coords_strict (by rw [hxs']; exact hnd)
  · have := congrArg List.length hxs'
    rw [storedXs_eq] at this
    simp at this
    omega

/-! ## Headline theorems: the priority queue -/

section queue
variable {β : Type}

omit [LinearOrder χ] in
/-- **C19_qinsert_sorted.** `DEPQ.insert` (`qinsertRaw`) and the bounded insert (`qinsert`, with or
without `maxlen`) keep the queue sorted by non-increasing key. -/
theorem C19_qinsert_sorted (m : Option Nat) (k : κ) (v : β) {q : List (κ × β)} (h : QSorted q) :
    QSorted (qinsertRaw leB k v q) ∧ QSorted (qinsert leB m k v q) :=
  ⟨qinsertRaw_sorted k v h, qinsert_sorted m k v h⟩

omit [LinearOrder χ] in
/-- **C19_qinsert_perm.** Without eviction (no bound, or bound not yet reached) the result is a
permutation of `(k, v) :: q`. -/
theorem C19_qinsert_perm (k : κ) (v : β) (q : List (κ × β)) :
    (qinsertRaw leB k v q).Perm ((k, v) :: q) ∧
    (qinsert leB none k v q).Perm ((k, v) :: q) ∧
    (∀ n, q.length < n → (qinsert leB (some n) k v q).Perm ((k, v) :: q)) := by
  refine ⟨qinsertRaw_perm k v q, qinsertRaw_perm k v q, ?_⟩
  intro n hn
  rw [qinsert_eq_raw_of_le k v hn]
  exact qinsertRaw_perm k v q

omit [LinearOrder χ] in
/-- **C19_qinsert_stable.** The new entry is placed after ALL entries with key `≥ k` (older equal
keys stay ahead) and before all entries with key `< k`; the old entries keep their order. -/
theorem C19_qinsert_stable (k : κ) (v : β) {q : List (κ × β)} (h : QSorted q) :
    ∃ a b, q = a ++ b ∧ qinsertRaw leB k v q = a ++ (k, v) :: b ∧
      (∀ e ∈ a, k ≤ e.1) ∧ (∀ e ∈ b, e.1 < k) :=
  qinsertRaw_split k v h

omit [LinearOrder χ] in
/-- **C19_qinsert_evict.** When the bound is exceeded exactly one entry is dropped, namely the last
one of the sorted queue: its key is `≤` every key retained. -/
theorem C19_qinsert_evict (n : Nat) (k : κ) (v : β) {q : List (κ × β)} (h : QSorted q)
    (hn : n ≤ q.length) :
    ∃ d, qinsertRaw leB k v q = qinsert leB (some n) k v q ++ [d] ∧
      ∀ e ∈ qinsert leB (some n) k v q, d.1 ≤ e.1 :=
  qinsert_evict n k v h hn

omit [LinearOrder χ] in
/-- **C19_bounded_keeps_top.** Start from the empty queue with `maxlen = some n` and insert the
entries `es` (oldest first).  The queue is sorted, has length `min n (#inserts)`, and is exactly the
first `n` entries of the stable descending sort `qsortAll es` of everything inserted
(`qsortAll es` is sorted, a permutation of `es`, and keeps entries with equal keys in insertion
order — so ties are resolved in favour of the OLDER entry).  Everything dropped is `≤` everything
retained. -/
theorem C19_bounded_keeps_top (n : Nat) (es : List (κ × β)) :
    QSorted (qinsertAll (some n) es []) ∧
    (qinsertAll (some n) es []).length = min n es.length ∧
    qinsertAll (some n) es [] = (qsortAll es).take n ∧
    (QSorted (qsortAll es) ∧ (qsortAll es).Perm es ∧
      ∀ k0, (qsortAll es).filter (fun e => decide (e.1 = k0)) =
              es.filter (fun e => decide (e.1 = k0))) ∧
    (∀ d ∈ (qsortAll es).drop n, ∀ e ∈ qinsertAll (some n) es [], d.1 ≤ e.1) := by
  have heq := qinsertAll_some_eq_take n es
  refine ⟨qinsertAll_sorted _ _ QSorted.nil, ?_, heq,
    ⟨qsortAll_sorted es, qsortAll_perm es, qsortAll_stable es⟩, ?_⟩
  · simpa using qinsertAll_nil_length (some n) es
  · intro d hd e he
    rw [heq] at he
    have hs := qsortAll_sorted es
    rw [← List.take_append_drop n (qsortAll es)] at hs
    exact (List.pairwise_append.1 hs).2.2 e he d hd

end queue

/-! ## Headline theorems: best-interval requests -/

/-- **C19_refill_spec.** `RefillQueue` rebuilds the queue from the traversal: it is sorted; in
general it is `qinsertAll maxlen` of the entries `(globalR i, i)` of the traversal (so with a bound
`n` it holds the `n` best, see `C19_bounded_keeps_top`); with `maxlen = none` it contains exactly
one entry per stored item, carrying that item's characteristic.  The items are not touched. -/
theorem C19_refill_spec {s : State χ κ} (h : WF s) :
    (refill leB s).trials = s.trials ∧ (refill leB s).first = s.first ∧
    QSorted (refill leB s).gq ∧
    (refill leB s).gq = qinsertAll s.maxlen (entriesOf Item.globalR s.trials (traversal s)) [] ∧
    (refill leB s).lq = (if s.dual then
        qinsertAll s.maxlen (entriesOf Item.localR s.trials (traversal s)) [] else []) ∧
    (∀ e ∈ (refill leB s).gq, ∃ it, s.trials[e.2]? = some it ∧ e.1 = it.globalR) ∧
    (s.maxlen = none →
      (refill leB s).gq.Perm (entriesOf Item.globalR s.trials (traversal s)) ∧
      ((refill leB s).gq.map Prod.snd).Perm (List.range s.trials.size)) := by
  have hgq : (refill leB s).gq =
      qinsertAll s.maxlen (entriesOf Item.globalR s.trials (traversal s)) [] := by
    rw [refill_eq]
  refine ⟨refill_trials s, refill_first s, ?_, hgq, by rw [refill_eq], ?_, ?_⟩
  · rw [hgq]; exact qinsertAll_sorted _ _ QSorted.nil
  · intro e he
    rw [hgq] at he
    exact (mem_entriesOf.1 (mem_of_mem_qinsertAll_nil he)).2
  · intro hm
    rw [hgq, hm]
    have hp0 := qsortAll_perm (entriesOf Item.globalR s.trials (traversal s))
    have hp := hp0.map Prod.snd
    rw [entriesOf_map_snd (fun a ha => (Rep.mem_iff h).1 ha)] at hp
    exact ⟨hp0, hp.trans (Rep.perm h)⟩

/-- **C19_pop_max.** The base-class best-interval request on a sorted queue returns `(i, k)` where
`k` is `≥` every key of the queue it popped from, and that entry is removed.  If the queue was empty
it is refilled first; then `k` is the current characteristic of `i` and `k ≥ globalR` of EVERY
stored item.  The request never fails (for a non-degenerate bound `maxlen ≠ some 0`). -/
theorem C19_pop_max {s : State χ κ} (h : WF s) (hs : QSorted s.gq) (hm : s.maxlen ≠ some 0) :
    ∃ s' i k, popMaxGlobal leB s = .ok (s', i, k) ∧
      s'.trials = s.trials ∧ s'.first = s.first ∧
      ((s.gq = (k, i) :: s'.gq ∧ s' = { s with gq := s'.gq } ∧ ∀ e ∈ s.gq, e.1 ≤ k) ∨
       (s.gq = [] ∧ (refill leB s).gq = (k, i) :: s'.gq ∧
          s' = { refill leB s with gq := s'.gq } ∧
          (∃ it, s.trials[i]? = some it ∧ k = it.globalR) ∧
          ∀ (j : Nat) (jt : Item χ κ), s.trials[j]? = some jt → jt.globalR ≤ k)) := by
  obtain ⟨s', i, k, hrun, hcase⟩ := popMaxGlobal_spec h hm
  refine ⟨s', i, k, hrun, ?_⟩
  rcases hcase with ⟨hq, hs'⟩ | ⟨hq0, hq, hs', hcur, hmax⟩
  · refine ⟨by rw [hs'], by rw [hs'], Or.inl ⟨hq, hs', ?_⟩⟩
    intro e he
    rw [hq] at he hs
    rcases List.mem_cons.1 he with rfl | he
    · exact le_refl _
    · exact hs.head_ge e he
  · exact ⟨by rw [hs']; exact refill_trials s, by rw [hs']; exact refill_first s,
      Or.inr ⟨hq0, hq, hs', hcur, hmax⟩⟩

/-- **C19_dual_pop_current.** The dual-queue best-interval request `popCurrent` on queue `glob`
(`true`: global characteristics, `false`: local ones — then the container must be the dual variant)
with `fuel ≥ queue length + 1` (the callers pass `queue length + #items + 2`):

* it terminates with `.ok (s', i, k)` — it never runs out of fuel and never raises;
* `k` is the CURRENT characteristic of item `i`;
* if the starting queue had a current entry: `(k, i)` is the first current entry, every entry in
  front of it was stale and is discarded, the queue continues right after it, and `k ≥` the key of
  every entry of the starting queue that was still current;
* otherwise (no entry of the starting queue was current) the queue is refilled and `k` is a global
  maximum: `k ≥` the current characteristic of every stored item.

The items themselves are not modified, and `s'` differs from `s` (resp. from the refilled `s`) only
in the queue worked on (`setq glob s q` replaces that queue by `q`). -/
theorem C19_dual_pop_current {s : State χ κ} (h : WF s) (glob : Bool) (fuel : Nat)
    (hs : QSorted (selq glob s)) (hids : ∀ e ∈ selq glob s, e.2 < s.trials.size)
    (hd : glob = false → s.dual = true) (hm : s.maxlen ≠ some 0)
    (hfuel : (selq glob s).length + 1 ≤ fuel) :
    ∃ s' i k,
      popCurrent leB neB glob fuel s = .ok (s', i, k) ∧
      s'.trials = s.trials ∧ s'.first = s.first ∧
      (∃ it, s.trials[i]? = some it ∧ k = curOf glob it) ∧
      (((∃ e ∈ selq glob s, IsCur glob s.trials e) ∧
          (∃ pre, selq glob s = pre ++ (k, i) :: selq glob s' ∧
            ∀ e ∈ pre, ¬ IsCur glob s.trials e) ∧
          s' = setq glob s (selq glob s') ∧
          (∀ e ∈ selq glob s, IsCur glob s.trials e → e.1 ≤ k)) ∨
       ((∀ e ∈ selq glob s, ¬ IsCur glob s.trials e) ∧
          selq glob (refill leB s) = (k, i) :: selq glob s' ∧
          s' = setq glob (refill leB s) (selq glob s') ∧
          ∀ (j : Nat) (jt : Item χ κ), s.trials[j]? = some jt → curOf glob jt ≤ k)) := by
  obtain ⟨s', i, k, hrun, hcur, hcase⟩ := popCurrent_spec h glob fuel hids hd hm hfuel
  refine ⟨s', i, k, hrun, ?_⟩
  rcases hcase with ⟨pre, hq, hpre, hs'⟩ | ⟨hall, hq, hs', hmax⟩
  · refine ⟨by rw [hs']; simp, by rw [hs']; simp, hcur, Or.inl ⟨?_, ⟨pre, hq, hpre⟩, hs', ?_⟩⟩
    · exact ⟨(k, i), by rw [hq]; simp, hcur⟩
    · intro e he hecur
      rw [hq] at he hs
      rcases List.mem_append.1 he with he1 | he2
      · exact absurd hecur (hpre e he1)
      · rcases List.mem_cons.1 he2 with rfl | he3
        · exact le_refl _
        · exact QSorted.head_ge (List.pairwise_append.1 hs).2.1 e he3
  · exact ⟨by rw [hs']; simp [refill_trials], by rw [hs']; simp [refill_first], hcur,
      Or.inr ⟨hall, hq, hs', hmax⟩⟩

/-- **C19_pop_total.** In every state satisfying the invariant (in particular after every valid
operation sequence, `C19_run_inv`) the best-interval requests issued by the driver succeed. -/
theorem C19_pop_total {s : State χ κ} (h : Inv s) :
    (∃ r, popMaxGlobal leB s = .ok r) ∧
    (∃ r, popCurrent leB neB true (s.gq.length + s.trials.size + 2) s = .ok r) ∧
    (s.dual = true → ∃ r, popCurrent leB neB false (s.lq.length + s.trials.size + 2) s = .ok r) := by
  refine ⟨?_, ?_, ?_⟩
  · obtain ⟨s', i, k, hrun, -⟩ := popMaxGlobal_step h
    exact ⟨_, hrun⟩
  · obtain ⟨s', i, k, hrun, -⟩ := popCurrent_step h true (by simp)
      (s.gq.length + s.trials.size + 2) (by simp [selq]; omega)
    exact ⟨_, hrun⟩
  · intro hdual
    obtain ⟨s', i, k, hrun, -⟩ := popCurrent_step h false (fun _ => hdual)
      (s.lq.length + s.trials.size + 2) (by simp [selq]; omega)
    exact ⟨_, hrun⟩

/-! ## Executable precondition checker and non-vacuity examples -/

/-- Boolean version of `InsertOk` (sound for well-formed containers, `insertOk_of_B`) -/
def insertOkB (s : State χ κ) (x : χ) (hint : Option Nat) : Bool :=
  (match s.first with
   | some f =>
     match xOf s.trials f with
     | some xf => decide (xf ≤ x)
     | none => false
   | none => false) &&
  (List.range s.trials.size).any (gtB s.trials x) &&
  (match hint with
   | none => true
   | some r => find ltB s x == some r)

def opOkB (s : State χ κ) : Op χ κ → Bool
  | .insert x _ _ hint => insertOkB s x hint
  | _ => true

def validSeqB (s : State χ κ) : List (Op χ κ) → Bool
  | [] => true
  | op :: ops => opOkB s op && validSeqB (applyOp s op) ops

omit [LinearOrder κ] in
theorem insertOk_of_B {s : State χ κ} (h : WF s) {x : χ} {hint : Option Nat}
    (hb : insertOkB s x hint = true) : InsertOk s x hint := by
  unfold insertOkB at hb
  simp only [Bool.and_eq_true] at hb
  obtain ⟨⟨h1, h2⟩, h3⟩ := hb
  refine ⟨?_, ?_, ?_⟩
  · cases hf : s.first with
    | none => rw [hf] at h1; cases h1
    | some f =>
      rw [hf] at h1
      cases hx : xOf s.trials f with
      | none => simp [hx] at h1
      | some xf =>
        simp only [hx, decide_eq_true_eq] at h1
        exact ⟨f, xf, rfl, hx, h1⟩
  · obtain ⟨j, -, hj⟩ := List.any_eq_true.1 h2
    obtain ⟨xj, hxj, hlt⟩ := gtB_iff.1 hj
    exact ⟨j, xj, hxj, hlt⟩
  · cases hint with
    | none => exact Or.inl rfl
    | some r =>
      right
      refine ⟨r, rfl, (isFirstAbove_iff_find h x r).2 ?_⟩
      simpa using h3

theorem validSeq_of_B {s : State χ κ} (h : Inv s) {ops : List (Op χ κ)}
    (hb : validSeqB s ops = true) : ValidSeq s ops := by
  induction ops generalizing s with
  | nil => trivial
  | cons op ops ih =>
    simp only [validSeqB, Bool.and_eq_true] at hb
    have hok : OpOk s op := by
      cases op with
      | insert x g l hint => exact insertOk_of_B h.wf hb.1
      | _ => trivial
    exact ⟨hok, ih (step_inv h op hok).1 hb.2⟩

omit [LinearOrder χ] [LinearOrder κ] in
theorem isCur_iff (glob : Bool) (tr : Array (Item χ κ)) (e : κ × Nat) :
    IsCur glob tr e ↔ tr[e.2]?.map (curOf glob) = some e.1 := by
  unfold IsCur
  cases tr[e.2]? with
  | none => simp
  | some it => simp [eq_comm]

namespace Example

/-- end items at coordinates 0 and 100 -/
def l0 : Item Nat Nat := { x := 0, globalR := 1, localR := 1 }
def r0 : Item Nat Nat := { x := 100, globalR := 1, localR := 1 }

/-- five insertions (with and without hint, equal keys 5,5,5 and 7,7), then item 5's global
characteristic is changed, which makes its queue entry `(7, 5)` stale -/
def ops : List (Op Nat Nat) :=
  [.insert 50 5 2 none, .insert 25 5 3 (some 2), .insert 75 5 1 none, .insert 60 7 0 (some 4),
   .insert 10 7 4 none, .setG 5 3]

/-- dual-queue variant, unbounded -/
def s0 : State Nat Nat := init none true l0 r0
def s1 : State Nat Nat := run s0 ops

theorem inv0 : Inv s0 := (C19_init_inv none true l0 r0 rfl rfl (by decide) (by simp)).1

/-- the hypotheses of the sequence theorems hold on this instance -/
theorem valid : ValidSeq s0 ops := validSeq_of_B inv0 (by decide)

theorem inv1 : Inv s1 := (C19_run_inv inv0 ops valid).1

/-- `C19_traversal_sorted` is applicable (hypotheses satisfiable), and this is what it describes: -/
example : traversal s1 = [0, 6, 3, 2, 5, 4, 1] ∧
    coordsOf s1.trials (traversal s1) = [0, 10, 25, 50, 60, 75, 100] ∧
    s1.trials.size = 2 + (insertedXs ops).length := by decide

example := C19_traversal_sorted none true l0 r0 rfl rfl (by decide) (by simp) ops valid

/-- hypotheses of `C19_insert_ok` / `C19_find_spec` (with a hint, and without) -/
example : WF s1 ∧ InsertOk s1 30 (some 2) ∧ InsertOk s1 30 none ∧ find ltB s1 30 = some 2 :=
  ⟨inv1.wf, insertOk_of_B inv1.wf (by decide), insertOk_of_B inv1.wf (by decide), by decide⟩

example := C19_find_covering inv1.wf 30 2 (by decide)
example := C19_refill_spec inv1.wf

/-- a WRONG hint (item 1, coordinate 100, although item 2 with coordinate 50 is the first one right
of 30) is trusted blindly: the insertion succeeds, the links stay consistent, but the traversal is
no longer sorted (this is why `InsertOk` demands a correct hint). -/
example : (match insert ltB leB s1 { x := 30, globalR := 0, localR := 0 } (some 1) with
    | .ok s' => coordsOf s'.trials (traversal s')
    | .error _ => []) = [0, 10, 25, 50, 60, 75, 30, 100] := by decide

/-- the first case of `C19_insert_any_hint` applies to that wrong hint -/
example : traversal s1 = [0, 6, 3, 2, 5] ++ 4 :: 1 :: [] := by decide
example := (C19_insert_any_hint inv1.wf { x := 30, globalR := 0, localR := 0 } 1).1
  [0, 6, 3, 2, 5] 4 [] (by decide)

/-- an insertion right of the last item raises (`find` returns `None`) -/
example : (match insert ltB leB s1 { x := 200, globalR := 0, localR := 0 } none with
    | .ok _ => false
    | .error e => e == .attributeError) = true := by decide

/-- the global queue: equal keys in insertion order (hinted inserts re-queue the right neighbour) -/
example : s1.gq = [(7, 5), (7, 6), (5, 2), (5, 3), (5, 2), (5, 4), (5, 4)] := by decide

/-- `(item, key, remaining global queue)` of a successful request -/
def popView (r : Except Err (State Nat Nat × Nat × Nat)) : Option (Nat × Nat × List (Nat × Nat)) :=
  match r with
  | .ok (s', i, k) => some (i, k, s'.gq)
  | .error _ => none

/-- hypotheses of `C19_dual_pop_current`: the head `(7, 5)` is STALE (item 5 now has `globalR = 3`),
the next entry `(7, 6)` is current; the request discards the first and returns the second. -/
example : ¬ IsCur true s1.trials (7, 5) ∧ IsCur true s1.trials (7, 6) ∧
    popView (popCurrent leB neB true (s1.gq.length + s1.trials.size + 2) s1)
      = some (6, 7, [(5, 2), (5, 3), (5, 2), (5, 4), (5, 4)]) := by
  refine ⟨by rw [isCur_iff]; decide, by rw [isCur_iff]; decide, by decide⟩

example := C19_dual_pop_current inv1.wf true (s1.gq.length + s1.trials.size + 2) inv1.gsorted
  inv1.gids (by simp) inv1.maxlen_pos (by simp [selq]; omega)

/-- base-class variant with a bound of 3 entries: hypotheses of `C19_pop_max` -/
def s2 : State Nat Nat := run (init (some 3) false l0 r0) ops

theorem inv2 : Inv s2 :=
  have h0 := (C19_init_inv (some 3) false l0 r0 rfl rfl (by decide) (by simp)).1
  (C19_run_inv h0 ops (validSeq_of_B h0 (by decide))).1

example : s2.gq = [(7, 5), (7, 6), (5, 2)] := by decide

example := C19_pop_max inv2.wf inv2.gsorted inv2.maxlen_pos

example : popView (popMaxGlobal leB s2) = some (5, 7, [(7, 6), (5, 2)]) := by decide

/-- after a clear the request refills first (bound 3: the three best of all seven items) -/
example : popView (popMaxGlobal leB (clearQueue s2)) = some (6, 7, [(5, 3), (5, 2)]) := by decide

/-- bounded queue, ties: of the three entries with key 5 the two OLDEST are retained -/
example : qinsertAll (some 3) [((5 : Nat), "a"), (5, "b"), (7, "c"), (5, "d"), (2, "e")] []
    = [(7, "c"), (5, "a"), (5, "b")] := by decide

/-- hypotheses of `C19_qinsert_evict`: a full sorted queue -/
example := C19_qinsert_evict 3 5 "new" (q := [((7 : Nat), "c"), (5, "a"), (5, "b")])
  (by unfold QSorted; decide) (by decide)

/-- `C19_qinsert_stable` on a sorted queue with equal keys -/
example : QSorted [((7 : Nat), "c"), (5, "a"), (5, "b"), (2, "e")] ∧
    qinsertRaw leB 5 "new" [((7 : Nat), "c"), (5, "a"), (5, "b"), (2, "e")]
      = [(7, "c"), (5, "a"), (5, "b"), (5, "new"), (2, "e")] := by
  refine ⟨by unfold QSorted; decide, by decide⟩

end Example

end SD
