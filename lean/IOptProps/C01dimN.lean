import IOptProofs.HolderMinorant
import IOptProofs.HolderEuc
import IOptProps.C08holder
import IOptProps.C01
/-!
# C01 in dimension N ≥ 2: the minorant hypothesis holds for Lipschitz objectives along the evolvent,
and the certificate on the whole cube / box  (worker h)

Setting (over `ℝ`): `n ∈ {2,…,5}`, density `m`, `y x = Ev.imageCube n m x` the evolvent on the cube
`[-1/2,1/2]^n` (`__GetYonX`, with `int(d)` = natural floor), `f` an objective that is `L`-Lipschitz
on the cube w.r.t. the Euclidean norm (`Ev.LipCube n f L` — "the Lipschitz constant on the box
normalised to unit side"), `F x = f (y x)` the reduced one-dimensional objective.
`Ev.Kn n = 2^(3-1/n)·√(n+3)`, `Ev.gridSlack n m L = L·√(n+3)·2^-m`.

* `Ev.C01_reduced_holder`: `|F x' - F x''| ≤ 2L√(n+3)·|x'-x''|^(1/n) + L√(n+3)·2^-m`.
* `Ev.C01_minorant_interval`: the two minorant inequalities on one interval (stand-alone).
* `Ev.C01_curve_vs_box`: `f q ≥ F x - L·√n·2^-(m+1)` for a suitable `x`, every cube point `q`.
* `AGP.C01_minorant_evolvent`: the hypothesis `Minorant` of `C01_cert_step_modMinorant` holds.
* `AGP.C01_cert_step_dimN`, `AGP.C01_flat_dimN`, `AGP.C01_cert_step_box`: the resulting certificate
  with the grid term `L·2^-m·(√(n+3) + √n/2)`.
-/
set_option linter.unusedSectionVars false

namespace Ev
attribute [local instance] Ev.Num.floorTrunc

/-- **C01 (the reduced objective is Hölder up to the resolution)**: for `f` `L`-Lipschitz on the
cube and all `x', x'' ∈ [0,1]`:
`|f(y x') - f(y x'')| ≤ 2·L·√(n+3)·|x' - x''|^(1/n) + L·√(n+3)·2^-m`. -/
theorem C01_reduced_holder {n : Nat} (hn : Ev.DimOK n) (m : Nat) {f : List ℝ → ℝ} {L : ℝ}
    (hf : LipCube n f L) {x' x'' : ℝ} (h0' : 0 ≤ x') (h1' : x' ≤ 1) (h0'' : 0 ≤ x'')
    (h1'' : x'' ≤ 1) :
    |f (imageCube n m x') - f (imageCube n m x'')| ≤
      2 * L * Real.sqrt (n + 3) * |x' - x''| ^ (1 / (n:ℝ)) + gridSlack n m L :=
  lip_along_curve hn m hf h0' h1' h0'' h1'' (rpow_inv_nonneg n (abs_nonneg _))
    (le_of_eq (rpow_inv_pow hn.ne_zero (abs_nonneg _)).symm)

/-- **C01 (minorant on one interval)**: let `0 ≤ x_l ≤ x ≤ x_r ≤ 1`, `δ = (x_r - x_l)^(1/n)` the
Hölder length of the interval and `K_n·L ≤ M`. Then
`F x ≥ (F x_l + F x_r)/2 - (M/4)·δ - g`, `F x ≥ F x_l - (M/2)·δ - g`, `F x ≥ F x_r - (M/2)·δ - g`
with `g = L·√(n+3)·2^-m`. -/
theorem C01_minorant_interval {n : Nat} (hn : Ev.DimOK n) (m : Nat) {f : List ℝ → ℝ} {L : ℝ}
    (hf : LipCube n f L) {xl xr x M : ℝ} (hl0 : 0 ≤ xl) (hr1 : xr ≤ 1) (hlx : xl ≤ x)
    (hxr : x ≤ xr) (hM : Kn n * L ≤ M) :
    (f (imageCube n m xl) + f (imageCube n m xr)) / 2 - (M / 4) * (xr - xl) ^ (1 / (n:ℝ))
        - gridSlack n m L ≤ f (imageCube n m x) ∧
    f (imageCube n m xl) - (M / 2) * (xr - xl) ^ (1 / (n:ℝ)) - gridSlack n m L
        ≤ f (imageCube n m x) ∧
    f (imageCube n m xr) - (M / 2) * (xr - xl) ^ (1 / (n:ℝ)) - gridSlack n m L
        ≤ f (imageCube n m x) := by
  have hd : 0 ≤ xr - xl := by linarith
  have hδ := rpow_inv_nonneg n hd
  have hδn := rpow_inv_pow (n := n) hn.ne_zero hd
  exact ⟨minorant_interior hn m hf hl0 hr1 hlx hxr hδ hδn hM,
    minorant_left hn m hf hl0 hr1 hlx hxr hδ hδn hM,
    minorant_right hn m hf hl0 hr1 hlx hxr hδ hδn hM⟩

/-- **C01 (curve versus cube)**: every cube point `q` is within half a cell diagonal
`√n·2^-(m+1)` of a curve point, so `f q ≥ F x - L·√n·2^-(m+1)` for some `x ∈ [0,1)`
(namely `x = __GetXonY q`). -/
theorem C01_curve_vs_box {n : Nat} (hn : Ev.DimOK n) (m : Nat) {f : List ℝ → ℝ} {L : ℝ}
    (hf : LipCube n f L) {q : List ℝ} (hq : InCube n q) :
    ∃ x : ℝ, 0 ≤ x ∧ x < 1 ∧ f (imageCube n m x) - L * (Real.sqrt n / 2^(m+1)) ≤ f q := by
  obtain ⟨x, h0, h1, hd⟩ := exists_curve_point_near hn m hq
  refine ⟨x, h0, h1, ?_⟩
  have hL := hf.nonneg hn.pos
  have h2 := hf _ _ hq (imageCube_inCube hn m x)
  have h3 : L * dist2 q (imageCube n m x) ≤ L * (Real.sqrt n / 2^(m+1)) :=
    mul_le_mul_of_nonneg_left hd hL
  have := (abs_le.1 h2).1
  linarith

/-- **C01 (curve versus cube, minimum form)**: a lower bound `c` of the reduced objective on `[0,1]`
gives the lower bound `c - L·2^-m·√n/2` of `f` on the whole cube:
`min_cube f ≥ min_{x ∈ [0,1]} F x - L·2^-m·√n/2`. -/
theorem C01_curve_vs_box_min {n : Nat} (hn : Ev.DimOK n) (m : Nat) {f : List ℝ → ℝ} {L : ℝ}
    (hf : LipCube n f L) {c : ℝ} (hc : ∀ x : ℝ, 0 ≤ x → x ≤ 1 → c ≤ f (imageCube n m x))
    {q : List ℝ} (hq : InCube n q) : c - L * (1 / 2^m) * Real.sqrt n / 2 ≤ f q := by
  obtain ⟨x, h0, h1, h⟩ := C01_curve_vs_box hn m hf hq
  have := hc x h0 h1.le
  have e : L * (Real.sqrt n / 2^(m+1)) = L * (1 / 2^m) * Real.sqrt n / 2 := by
    rw [pow_succ]; field_simp
  linarith

/-- **C01 (normalisation of the box)**: an objective `fb` that is `Lb`-Lipschitz on the box
`[lower, upper]` (Euclidean norm) is, on the box normalised to unit side (`fb ∘ __TransformP2D` on
the cube), Lipschitz with constant `L = Lb·max_i(upper_i - lower_i)` — this `L` can be used in
`C01_cert_step_box`. -/
theorem C01_lip_normalised {n : Nat} {lower upper : List ℝ} (hl : lower.length = n)
    (hu : upper.length = n)
    (hle : ∀ i (h1 : i < lower.length) (h2 : i < upper.length), lower[i] ≤ upper[i])
    {fb : List ℝ → ℝ} {Lb : ℝ} (hLb : 0 ≤ Lb)
    (hfb : ∀ b b', InBox lower upper b → InBox lower upper b' → |fb b - fb b'| ≤ Lb * dist2 b b') :
    LipCube n (fun y => fb (p2d lower upper y)) (Lb * maxSide lower upper) :=
  lipCube_of_lipBox hl hu hle hLb hfb

/-- non-vacuity of the `Ev.C01_*` statements: `n = 2`, `m = 3`, the objective `f q = q₀` is
`1`-Lipschitz on the cube; the interval `[1/4, 3/4] ∋ 1/2`, `M = 18 ≥ K_2`; the cube point
`(1/5, -1/3)`. -/
example : (Ev.DimOK 2) ∧ LipCube 2 (fun q => getR q 0) 1 ∧ (0:ℝ) ≤ 1/4 ∧ (3/4:ℝ) ≤ 1 ∧
    (1/4:ℝ) ≤ 1/2 ∧ (1/2:ℝ) ≤ 3/4 ∧ Kn 2 * 1 ≤ 18 ∧ InCube 2 [1/5, -1/3] := by
  refine ⟨by decide, lipCube_coord (by omega), by norm_num, by norm_num, by norm_num,
    by norm_num, ?_, ⟨rfl, ?_⟩⟩
  · exact Kn_two_le
  · intro v hv
    simp only [List.mem_cons, List.not_mem_nil, or_false] at hv
    rcases hv with rfl | rfl
    · rw [abs_of_nonneg (by norm_num)]; norm_num
    · rw [abs_of_nonpos (by norm_num)]; norm_num

end Ev

namespace AGP
open Ev
attribute [local instance] Ev.Num.floorTrunc

section Main
variable [Fns ℝ] {p : Params ℝ} {s : State ℝ} {pr : Prep ℝ}

/-- **C01 (the minorant hypothesis holds along the evolvent).** Let `Inv p s` with
`p.n ∈ {2,…,5}`, let `f` be `L`-Lipschitz on the cube, let every evaluated item carry
`z = f (y x)`, and let the reliability condition `K_n·L ≤ r·M` hold. Then the hypothesis
`Minorant` of `C01_cert_step_modMinorant` holds for `F = f ∘ y` with slack `g = L·√(n+3)·2^-m`. -/
theorem C01_minorant_evolvent (hL : FnsLaws ℝ) (hn : Ev.DimOK p.n) (h : Inv p s) (m : Nat)
    (f : List ℝ → ℝ) (L : ℝ) (hf : LipCube p.n f L)
    (hF : ∀ it ∈ s.items, it.ev = true → it.z = f (imageCube p.n m it.x))
    (hrel : Kn p.n * L ≤ p.r * s.M) :
    Minorant p s (fun x => f (imageCube p.n m x)) (gridSlack p.n m L) := by
  have hI := h.toInvItems
  have hn0 : 0 < p.n := hn.pos
  intro a b hab x hax hxb
  have hra := hI.x_range a hab.mem_left
  have hrb := hI.x_range b hab.mem_right
  have hδ := (hI.nb_delta_pos hL hn0 hab).le
  have hδn := hI.nb_delta_pow hL hn0 hab
  refine ⟨?_, ?_, ?_⟩
  · intro ha hb
    rw [hF a hab.mem_left ha, hF b hab.mem_right hb]
    exact minorant_interior hn m hf hra.1 hrb.2 hax hxb hδ hδn hrel
  · intro ha
    have hb : b.ev = true := by
      rcases hI.nb_ev hab with h' | h'
      · rw [ha] at h'; exact absurd h' Bool.false_ne_true
      · exact h'
    rw [hF b hab.mem_right hb]
    exact minorant_right hn m hf hra.1 hrb.2 hax hxb hδ hδn hrel
  · intro hb
    have ha : a.ev = true := by
      rcases hI.nb_ev hab with h' | h'
      · exact h'
      · rw [hb] at h'; exact absurd h' Bool.false_ne_true
    rw [hF a hab.mem_left ha]
    exact minorant_left hn m hf hra.1 hrb.2 hax hxb hδ hδn hrel

/-- **C01, the certificate for `N ∈ {2,…,5}` on the unit cube.** Let `f` be `L`-Lipschitz on the
cube `[-1/2,1/2]^n`, let every evaluated item carry `z = f (y x)` (`y` the evolvent of density `m`),
let `prepare` choose an interval of Hölder length `< eps` (the accuracy stop fires after this
iteration) and let the reliability condition `K_n·L ≤ r·M`, `K_n = 2^(3-1/n)·√(n+3)`, hold for the
estimate `M = s.M` used in that selection. Then after the trial (whatever value it returns) the
best value exceeds `f q` at EVERY point `q` of the cube by less than
`(r M/2)·eps + L·2^-m·(√(n+3) + √n/2)`; and `M` does not decrease. -/
theorem C01_cert_step_dimN (hL : FnsLaws ℝ) (hr : 1 < p.r) (hn : Ev.DimOK p.n) (h : Inv p s)
    (m : Nat) (f : List ℝ → ℝ) (L : ℝ) (hf : LipCube p.n f L)
    (hF : ∀ it ∈ s.items, it.ev = true → it.z = f (imageCube p.n m it.x))
    (hp : prepare p s = .ok pr) (heps : pr.old.delta < p.eps)
    (hrel : Kn p.n * L ≤ p.r * s.M) (z : ℝ) :
    (∀ q, InCube p.n q → (commit p pr z).Z - f q <
      (p.r * s.M / 2) * p.eps + L * (1 / 2^m) * (Real.sqrt (p.n + 3) + Real.sqrt p.n / 2)) ∧
    s.M ≤ (commit p pr z).M := by
  have hn0 : 0 < p.n := hn.pos
  obtain ⟨h1, h2⟩ := C01_cert_step_modMinorant hL hr hn0 h (fun x => f (imageCube p.n m x)) hp heps
    (gridSlack p.n m L) (C01_minorant_evolvent hL hn h m f L hf hF hrel) z
  refine ⟨?_, h2⟩
  intro q hq
  obtain ⟨x, hx0, hx1, hx⟩ := C01_curve_vs_box hn m hf hq
  have := h1 x hx0 hx1.le
  have e : L * (1 / 2^m) * (Real.sqrt (p.n + 3) + Real.sqrt p.n / 2) =
      gridSlack p.n m L + L * (Real.sqrt p.n / 2^(m+1)) := by
    unfold gridSlack; rw [pow_succ]; field_simp
  rw [e]
  linarith

/-- **C01 for `N ∈ {2,…,5}`, flat objectives need no reliability hypothesis.** If `K_n·L ≤ r` the
bound holds unconditionally (since `1 ≤ M`). -/
theorem C01_flat_dimN (hL : FnsLaws ℝ) (hr : 1 < p.r) (hn : Ev.DimOK p.n) (h : Inv p s)
    (m : Nat) (f : List ℝ → ℝ) (L : ℝ) (hf : LipCube p.n f L)
    (hF : ∀ it ∈ s.items, it.ev = true → it.z = f (imageCube p.n m it.x))
    (hp : prepare p s = .ok pr) (heps : pr.old.delta < p.eps)
    (hflat : Kn p.n * L ≤ p.r) (z : ℝ) :
    (∀ q, InCube p.n q → (commit p pr z).Z - f q <
      (p.r * s.M / 2) * p.eps + L * (1 / 2^m) * (Real.sqrt (p.n + 3) + Real.sqrt p.n / 2)) ∧
    s.M ≤ (commit p pr z).M := by
  have hr0 : 0 < p.r := lt_trans one_pos hr
  have : p.r ≤ p.r * s.M := le_mul_of_one_le_right hr0.le h.M_ge
  exact C01_cert_step_dimN hL hr hn h m f L hf hF hp heps (le_trans hflat this) z

/-- **C01, the certificate for `N ∈ {2,…,5}` on the box.** As `C01_cert_step_dimN`, for an objective
`fb` on the box `[lower, upper]` (`lower_i < upper_i`) evaluated at `GetImage x`; `L` is the Lipschitz
constant of the objective on the box normalised to unit side (`fb ∘ __TransformP2D` on the cube).
The bound holds at every point `b` of the box. -/
theorem C01_cert_step_box (hL : FnsLaws ℝ) (hr : 1 < p.r) (hn : Ev.DimOK p.n) (h : Inv p s)
    (m : Nat) (lower upper : List ℝ) (hl : lower.length = p.n) (hu : upper.length = p.n)
    (hlt : ∀ i (h1 : i < lower.length) (h2 : i < upper.length), lower[i] < upper[i])
    (fb : List ℝ → ℝ) (L : ℝ) (hf : LipCube p.n (fun y => fb (p2d lower upper y)) L)
    (hF : ∀ it ∈ s.items, it.ev = true → it.z = fb (getImage p.n m lower upper it.x))
    (hp : prepare p s = .ok pr) (heps : pr.old.delta < p.eps)
    (hrel : Kn p.n * L ≤ p.r * s.M) (z : ℝ) :
    (∀ b : List ℝ, b.length = p.n →
      (∀ i (h0 : i < b.length) (h1 : i < lower.length) (h2 : i < upper.length),
        lower[i] ≤ b[i] ∧ b[i] ≤ upper[i]) →
      (commit p pr z).Z - fb b <
        (p.r * s.M / 2) * p.eps + L * (1 / 2^m) * (Real.sqrt (p.n + 3) + Real.sqrt p.n / 2)) ∧
    s.M ≤ (commit p pr z).M := by
  obtain ⟨h1, h2⟩ := C01_cert_step_dimN hL hr hn h m (fun y => fb (p2d lower upper y)) L hf hF hp
    heps hrel z
  refine ⟨?_, h2⟩
  intro b hb hin
  have hq : InCube p.n (d2p lower upper b) := Num.d2p_in_cube lower upper b hl hu hb hlt hin
  have := h1 _ hq
  rw [Num.p2d_d2p lower upper b (by rw [hl, hb]) (by rw [hu, hb])
    (fun i h1 h2 => (hlt i h1 h2).ne)] at this
  exact this

end Main

/-! ## Non-vacuity

Over ℝ with the real-number functions: `N = 2`, density `m = 3`, `r = 18`, `eps = 2`, the curve
`image x = imageCube 2 3 x`, objective `f q = q₀` (`L = 1`, and `K_2·L ≤ 18 = r ≤ r M`). After 4
trials driven by `f` there is a reachable state satisfying every hypothesis of `C01_cert_step_dimN`
(and of `C01_flat_dimN`, `C01_minorant_evolvent`). -/
section NonVacuity
attribute [local instance] Fns.real

example : ∃ (p : Params ℝ) (s : State ℝ) (log : List (List ℝ × ℝ)) (pr : Prep ℝ) (m : Nat)
    (f : List ℝ → ℝ) (L : ℝ),
    FnsLaws ℝ ∧ 1 < p.r ∧ (Ev.DimOK p.n) ∧ Reach p s log ∧ log.length = 4 ∧ Inv p s ∧
    LipCube p.n f L ∧ 0 < L ∧
    (∀ it ∈ s.items, it.ev = true → it.z = f (imageCube p.n m it.x)) ∧
    prepare p s = .ok pr ∧ pr.old.delta < p.eps ∧ Kn p.n * L ≤ p.r * s.M ∧ Kn p.n * L ≤ p.r ∧
    Minorant p s (fun x => f (imageCube p.n m x)) (gridSlack p.n m L) := by
  let p : Params ℝ := { n := 2, r := 18, eps := 2, itersLimit := 100,
                        image := fun x => imageCube 2 3 x }
  let f : List ℝ → ℝ := fun q => getR q 0
  have hr : (1 : ℝ) < p.r := by norm_num [p]
  have hn : 0 < p.n := by norm_num [p]
  have hn2 : Ev.DimOK p.n := by show Ev.DimOK 2; decide
  obtain ⟨s, log, hre, hlen, hlog⟩ := exists_reach_obj (p := p) FnsLaws.real hr hn f 3
  have hI := hre.inv FnsLaws.real hr hn
  obtain ⟨pr, hp, hs⟩ := prepare_spec FnsLaws.real hr hn hI
  have hF : ∀ it ∈ s.items, it.ev = true → it.z = f (imageCube p.n 3 it.x) :=
    C01_values_of_objective FnsLaws.real hr hn hre f hlog
  have hf : LipCube p.n f 1 := lipCube_coord (by norm_num [p])
  have hflat : Kn p.n * 1 ≤ p.r := Kn_two_le
  have hrel : Kn p.n * 1 ≤ p.r * s.M := by
    have h1 := hI.M_ge
    have : p.r ≤ p.r * s.M := le_mul_of_one_le_right (by norm_num [p]) h1
    exact le_trans hflat this
  have heps : pr.old.delta < p.eps := by
    have hab := hs.neighbours
    have hd := hs.inv.nb_delta_pow FnsLaws.real hn hab
    have hpos := hs.inv.nb_delta_pos FnsLaws.real hn hab
    have h1 := (hs.inv.x_range _ hab.mem_right).2
    have h0 := (hs.inv.x_range _ hab.mem_left).1
    show pr.old.delta < 2
    have hd2 : pr.old.delta ^ 2 = pr.old.x - pr.left.x := hd
    nlinarith
  exact ⟨p, s, log, pr, 3, f, 1, FnsLaws.real, hr, hn2, hre, hlen, hI, hf, one_pos, hF, hp, heps,
    hrel, hflat, C01_minorant_evolvent FnsLaws.real hn2 hI 3 f 1 hf hF hrel⟩

end NonVacuity
end AGP
