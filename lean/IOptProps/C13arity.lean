import IOptGen.ListenerSig
/-!
# C13 — a listener overriding any subset of the base callbacks can be attached (arity clause)

`IOptGen/ListenerSig.lean` is regenerated on every run: `Gen.listenerArity` = (name, min, max) positional
arity of each base `Listener` callback (from `inspect.signature`), `Gen.listenerCalls` = (name, positional
args, keyword args, line) of every `listener.X(...)` call site in `process.py` (from `ast`).
A callback the user does not override is the base method, so every call site must fit the base arity;
defect F3 (signatures out of sync: `OnMethodStop` took 1 argument, was called with 3) makes this false.
-/
namespace C13

def callFits (c : String × Nat × Nat × Nat) : Bool :=
  Gen.listenerArity.any fun a => a.1 == c.1 && a.2.1 ≤ c.2.1 && c.2.1 ≤ a.2.2 && c.2.2.1 == 0

/-- every call site of a listener callback passes a number of positional arguments accepted by the base
method (and no keyword arguments) -/
theorem C13_arity_ok : Gen.listenerCalls.all callFits = true := by decide

/-- all three notifications are actually issued somewhere in `process.py` -/
theorem C13_all_callbacks_called :
    ["BeforeMethodStart", "OnEndIteration", "OnMethodStop"].all
      (fun n => Gen.listenerCalls.any fun c => c.1 == n) = true := by decide

/-- negative control: with the pre-repair base signatures (1, 2 and 1 positional arguments) the call
`OnMethodStop(searchData, solution, status)` does not fit -/
example : ([("OnMethodStop", 3, 0, 79)] : List (String × Nat × Nat × Nat)).all
    (fun c => ([("BeforeMethodStart", 1, 1), ("OnEndIteration", 2, 2), ("OnMethodStop", 1, 1)] :
      List (String × Nat × Nat)).any fun a => a.1 == c.1 && a.2.1 ≤ c.2.1 && c.2.1 ≤ a.2.2) = false := by decide

end C13
