import IOptProofs.MethodFacts
/-!
# C06 — the accumulated search information is a faithful record of the trials

"After any number of iterations the accumulated search information lists, in strictly increasing curve
coordinate from 0 to 1, exactly the evaluated trials plus the two unevaluated end points. Each stored
interval length equals (x - x_left)^(1/N), each stored point is the evolvent image of its coordinate
and each stored value is the objective at that point."

`AGP.Reach p s log`: the state `s` is reachable by a run whose evaluation log (the points handed to the
objective with the values it returned, oldest first) is `log` (`IOptProofs/MethodRun.lean`).
-/
set_option linter.unusedSectionVars false

namespace AGP
variable {α : Type} [Field α] [LinearOrder α] [IsStrictOrderedRing α] [Fns α]
variable {p : Params α} {s : State α}

/-- **C06, the record.** In every reachable state:
1. the items are `left :: mid ++ [right]`, strictly increasing in `x`, from `left.x = 0` to `right.x = 1`;
   `left`, `right` are not evaluated and every item of `mid` is; ids are pairwise distinct, all below
   `nextId = ` number of items;
2. every item stores the Hoelder length `(x - x_left)^(1/N)` of the interval to its left neighbour
   (hence `delta > 0` and `delta ^ N = x - x_left`);
3. every item stores the evolvent image of its coordinate;
4. the `(point, z)` pairs of the evaluated items are, as a multiset, exactly the evaluation log: every
   evaluated trial appears exactly once and nothing else appears;
5. the value holder of every evaluated item contains its `z`. -/
theorem C06_record (hL : FnsLaws α) (hr : 1 < p.r) (hn : 0 < p.n) {log : List (List α × α)}
    (h : Reach p s log) :
    (∃ left mid right, s.items = left :: mid ++ [right] ∧ left.x = 0 ∧ right.x = 1 ∧
        left.ev = false ∧ right.ev = false ∧ mid ≠ [] ∧ (∀ m ∈ mid, m.ev = true)) ∧
    s.items.Pairwise (fun a b => a.x < b.x) ∧
    (s.items.map (·.id)).Nodup ∧ (∀ it ∈ s.items, it.id < s.nextId) ∧ s.nextId = s.items.length ∧
    (∀ a b, Neighbours s.items a b →
        b.delta = Fns.root (b.x - a.x) p.n ∧ 0 < b.delta ∧ b.delta ^ p.n = b.x - a.x) ∧
    (∀ it ∈ s.items, it.point = p.image it.x) ∧
    ((s.items.filter (·.ev)).map (fun it => (it.point, it.z))).Perm log ∧
    (∀ it ∈ s.items, it.ev = true → it.hv = it.z) := by
  have hI := (h.inv hL hr hn).toInvItems
  have hl := h.logInv hL hr hn
  refine ⟨hI.shape, hI.pairwise, hI.ids_nodup, hI.ids_lt, hI.nextId_eq, ?_, hI.point_eq, ?_, hI.hv_eq⟩
  · intro a b hab
    exact ⟨hI.nb_delta hab, hI.nb_delta_pos hL hn hab, hI.nb_delta_pow hL hn hab⟩
  · rw [← evalsOf_eq]; exact hl.perm

/-- the number of trials equals the number of evaluated items and the length of the log -/
theorem C06_counts (hL : FnsLaws α) (hr : 1 < p.r) (hn : 0 < p.n) {log : List (List α × α)}
    (h : Reach p s log) :
    s.iters = log.length ∧ s.nTrials = log.length ∧ (s.items.filter (·.ev)).length = log.length := by
  have hI := (h.inv hL hr hn).toInvItems
  have hl := h.logInv hL hr hn
  have h1 : (s.items.filter (·.ev)).length = log.length := by
    have := hl.perm.length_eq
    rw [evalsOf_eq, List.length_map] at this; exact this
  have h2 : s.nTrials = log.length := by rw [hI.nTrials_eq, List.countP_eq_length_filter]; exact h1
  exact ⟨hI.iters_eq.trans h2, h2, h1⟩

theorem find?_append_first {β : Type} (P : β → Bool) (l₁ post : List β) (b : β)
    (h1 : ∀ c ∈ l₁, P c = false) (hb : P b = true) : (l₁ ++ b :: post).find? P = some b := by
  induction l₁ with
  | nil => simp [hb]
  | cons c t ih =>
    rw [List.cons_append, List.find?_cons, h1 c (by simp)]
    exact ih (fun c hc => h1 c (by simp [hc]))

/-- **C06, the insertion hint is correct.** The item `pr.old` before which `commit` inserts the new
item is the FIRST item of the list whose coordinate is `> pr.x` — what
`FindDataItemByOneDimensionalPoint` would return (the precondition under which the pointer-level
container of C19 behaves like the list). -/
theorem C06_hint_correct (hL : FnsLaws α) (hr : 1 < p.r) (hn : 0 < p.n) (h : Inv p s)
    {pr : Prep α} (hp : prepare p s = .ok pr) :
    pr.s.items.find? (fun it => decide (pr.x < it.x)) = some pr.old := by
  have hs := prepare_spec' hL hr hn h hp
  obtain ⟨pre, post, e, _⟩ := hs.decomp
  have hpw := hs.inv.pairwise
  rw [e] at hpw ⊢
  have hpre := (List.pairwise_append.1 hpw).2.2
  have : pre ++ pr.left :: pr.old :: post = (pre ++ [pr.left]) ++ pr.old :: post := by simp
  rw [this]
  apply find?_append_first
  · intro c hc
    simp only [decide_eq_false_iff_not, not_lt]
    rcases List.mem_append.1 hc with hc | hc
    · exact (lt_trans (hpre c hc pr.left (by simp)) hs.inside.1).le
    · simp at hc; subst hc; exact hs.inside.1.le
  · simpa using hs.inside.2

/-- and `commit` inserts the new trial immediately before it: the new list is the old one with
`pr.old` replaced by the new item followed by `pr.old` (with its updated length and characteristic). -/
theorem C06_commit_items (hL : FnsLaws α) (hr : 1 < p.r) (hn : 0 < p.n) (h : Inv p s)
    {pr : Prep α} (hp : prepare p s = .ok pr) (z : α) :
    ∃ pre post new old', pr.s.items = pre ++ pr.left :: pr.old :: post ∧
      (commit p pr z).items = pre ++ pr.left :: new :: old' :: post ∧
      new.x = pr.x ∧ new.point = pr.point ∧ new.z = z ∧ new.hv = z ∧ new.ev = true ∧
      new.id = pr.s.nextId ∧ new.delta = Fns.root (pr.x - pr.left.x) p.n ∧
      old' = { pr.old with delta := Fns.root (pr.old.x - pr.x) p.n, R := old'.R } := by
  have hs := prepare_spec' hL hr hn h hp
  obtain ⟨pre, post, e, _⟩ := hs.decomp
  exact ⟨pre, post, cNew2 p pr z, cOld2 p pr z, e, commit_items hs z e, rfl, rfl, rfl, rfl, rfl, rfl, rfl, rfl⟩

/-! ## Non-vacuity -/
section NonVacuity
attribute [local instance] Fns.real

example : ∃ (p : Params ℝ) (s : State ℝ) (log : List (List ℝ × ℝ)) (pr : Prep ℝ),
    FnsLaws ℝ ∧ 1 < p.r ∧ 0 < p.n ∧ Reach p s log ∧ log.length = 5 ∧ Inv p s ∧ prepare p s = .ok pr := by
  let p : Params ℝ := { n := 2, r := 3, eps := 1 / 100, itersLimit := 100, image := fun x => [x, 1 - x] }
  have hr : (1 : ℝ) < p.r := by norm_num [p]
  have hn : 0 < p.n := by norm_num [p]
  obtain ⟨s, log, hre, hlog⟩ := exists_reach (p := p) FnsLaws.real hr hn (fun k => (k : ℝ) ^ 2 - 3 * k) 4
  have hI := hre.inv FnsLaws.real hr hn
  obtain ⟨pr, hp, _⟩ := prepare_spec FnsLaws.real hr hn hI
  refine ⟨p, s, log, pr, FnsLaws.real, hr, hn, hre, ?_, hI, hp⟩
  have := congrArg List.length hlog
  simpa using this

end NonVacuity
end AGP
