import IOptProofs.MethodCert
import IOptProps.C02
/-!
# C01 — the accuracy certificate of the AGP iteration (dimension N = 1, and N ≥ 1 modulo a minorant)

If the accuracy stop fires (the chosen interval has length `< eps`) while the reliability condition
`2 L ≤ r M` holds for the `M` used in the selection, then the best value found is within
`(r M / 2) eps` of the global minimum of the objective along the curve.

`M` is the estimate at the LAST SELECTION (the state `s` on which `prepare` is run), not the one after
the final trial: with the post-final `M` the statement is false (known finding F7).
-/
set_option linter.unusedSectionVars false

namespace AGP
variable {α : Type} [Field α] [LinearOrder α] [IsStrictOrderedRing α] [Fns α]
variable {p : Params α} {s : State α} {pr : Prep α}

/-- The minorant hypothesis of the dimension-generic certificate: on every interval of the current
partition the objective along the curve `F` lies above the `(m/2)`-Hoelder cone(s) of the evaluated
end(s), up to a slack `g`, where `m = r M`:
`F x ≥ (z_a+z_b)/2 - (m/4) delta_b - g` on an interval with two evaluated ends, and
`F x ≥ z - (m/2) delta_b - g` on a boundary interval (`z` the value at its evaluated end). -/
def Minorant (p : Params α) (s : State α) (F : α → α) (g : α) : Prop :=
  ∀ a b, Neighbours s.items a b → ∀ x, a.x ≤ x → x ≤ b.x →
    (a.ev = true → b.ev = true → (a.z + b.z) / 2 - (p.r * s.M / 4) * b.delta - g ≤ F x) ∧
    (a.ev = false → b.z - (p.r * s.M / 2) * b.delta - g ≤ F x) ∧
    (b.ev = false → a.z - (p.r * s.M / 2) * b.delta - g ≤ F x)

/-- the characteristic of the chosen interval is below `2 eps` when its length is below `eps` -/
theorem chosen_char_small (hL : FnsLaws α) (hr : 1 < p.r) (hn : 0 < p.n) (h : Inv p s)
    (hp : prepare p s = .ok pr) (heps : pr.old.delta < p.eps) :
    Spec.R p.n p.r s.M s.Z pr.left pr.old < 2 * p.eps := by
  have hs := prepare_spec' hL hr hn h hp
  have hI := hs.inv
  have hab := hs.neighbours
  have hM : 0 < s.M := by rw [← hs.M_eq]; exact hI.M_pos
  have hr0 : 0 < p.r := lt_trans one_pos hr
  have hδ := hI.nb_delta_pos hL hn hab
  have hd := hI.nb_delta hab
  unfold Spec.R Spec.D
  rw [← hd]
  cases ha : pr.left.ev <;> cases hb : pr.old.ev
  · have := hI.nb_ev hab
    rw [ha, hb] at this; simp at this
  · have hz : s.Z ≤ pr.old.z := by rw [← hs.Z_eq]; exact hI.Z_le _ hab.mem_right hb
    simp only [Bool.false_eq_true, false_and, if_false, if_true]
    have := chosen_small_boundary p.r s.M pr.old.delta pr.old.z s.Z hr0 hM hz
    linarith
  · have hz : s.Z ≤ pr.left.z := by rw [← hs.Z_eq]; exact hI.Z_le _ hab.mem_left ha
    simp only [Bool.false_eq_true, and_false, if_false]
    have := chosen_small_boundary p.r s.M pr.old.delta pr.left.z s.Z hr0 hM hz
    linarith
  · have hzl : s.Z ≤ pr.left.z := by rw [← hs.Z_eq]; exact hI.Z_le _ hab.mem_left ha
    have hzr : s.Z ≤ pr.old.z := by rw [← hs.Z_eq]; exact hI.Z_le _ hab.mem_right hb
    have hsl := hI.nb_slope hab ha hb
    rw [hs.M_eq, div_le_iff₀ hδ] at hsl
    simp only [and_self, if_true]
    have := chosen_small p.r s.M pr.old.delta pr.left.z pr.old.z s.Z hr hM hδ hsl hzl hzr
    have e : p.r ^ 2 * s.M ^ 2 * pr.old.delta = (p.r * s.M) ^ 2 * pr.old.delta := by ring
    rw [e]
    linarith

/-- **C01, dimension-generic certificate modulo the minorant.** Let `Inv p s`, let `prepare` choose
an interval of length `< eps` (the accuracy stop fires after this iteration), and let `F` satisfy the
`Minorant` hypothesis with slack `g` for `m = r M` (`M = s.M`, the estimate used in the selection).
Then after the trial (whatever value `z` it returns, in particular `z = F pr.x`), the best value is
within `(m/2) eps + g` of every value of `F` on `[0,1]`; and `M` does not decrease. -/
theorem C01_cert_step_modMinorant (hL : FnsLaws α) (hr : 1 < p.r) (hn : 0 < p.n) (h : Inv p s)
    (F : α → α) (hp : prepare p s = .ok pr) (heps : pr.old.delta < p.eps) (g : α)
    (hmin : Minorant p s F g) (z : α) :
    (∀ x, 0 ≤ x → x ≤ 1 → (commit p pr z).Z - F x < (p.r * s.M / 2) * p.eps + g) ∧
    s.M ≤ (commit p pr z).M := by
  have hs := prepare_spec' hL hr hn h hp
  have hI := h.toInvItems
  have hM : 0 < s.M := hI.M_pos
  have hr0 : 0 < p.r := lt_trans one_pos hr
  have hm : 0 < p.r * s.M := mul_pos hr0 hM
  have hRt := chosen_char_small hL hr hn h hp heps
  have hZ' : (commit p pr z).Z ≤ s.Z := by
    have : (commit p pr z).Z = cZ pr z := by rw [commit_eq]
    rw [this, ← hs.Z_eq]; exact (cZ_le hs z).1
  refine ⟨?_, prepare_commit_M_mono hL hr hn h hp z⟩
  intro x h0 h1
  obtain ⟨a, b, hab, hax, hxb⟩ := hI.cover h0 h1
  obtain ⟨a', b', hab', ea, eb⟩ := neighbours_transfer hs.items_eq hab
  have hR : Spec.R p.n p.r s.M s.Z a b < 2 * p.eps := by
    rw [← Spec.R_congr p.n p.r s.M s.Z ea eb]
    exact lt_of_le_of_lt (C02_selection_is_argmax hL hr hn h hp a' b' hab') hRt
  have hδ := hI.nb_delta_pos hL hn hab
  have hd := hI.nb_delta hab
  obtain ⟨m1, m2, m3⟩ := hmin a b hab x hax hxb
  unfold Spec.R Spec.D at hR
  rw [← hd] at hR
  have key : s.Z - (p.r * s.M / 2) * p.eps < F x + g := by
    cases ha : a.ev <;> cases hb : b.ev
    · have := hI.nb_ev hab
      rw [ha, hb] at this; simp at this
    · simp only [ha, hb, Bool.false_eq_true, false_and, if_false, if_true] at hR
      exact boundary_cert (p.r * s.M) b.delta b.z s.Z p.eps (F x + g) hm hR (by linarith [m2 ha])
    · simp only [ha, hb, Bool.false_eq_true, and_false, if_false] at hR
      exact boundary_cert (p.r * s.M) b.delta a.z s.Z p.eps (F x + g) hm hR (by linarith [m3 hb])
    · simp only [ha, hb, and_self, if_true] at hR
      have e : p.r ^ 2 * s.M ^ 2 * b.delta = (p.r * s.M) ^ 2 * b.delta := by ring
      rw [e] at hR
      exact interior_cert (p.r * s.M) b.delta a.z b.z s.Z p.eps (F x + g) hm hδ hR
        (by linarith [m1 ha hb])
  linarith

/-- For `N = 1`, an `L`-Lipschitz objective along the curve with `2 L ≤ r M` satisfies the minorant
hypothesis with slack `0`. -/
theorem minorant_of_lipschitz (hL : FnsLaws α) (hn1 : p.n = 1) (h : Inv p s)
    (F : α → α) (L : α)
    (hLip : ∀ x y, 0 ≤ x → x ≤ 1 → 0 ≤ y → y ≤ 1 → |F x - F y| ≤ L * |x - y|)
    (hF : ∀ it ∈ s.items, it.ev = true → it.z = F it.x) (hrel : 2 * L ≤ p.r * s.M) :
    Minorant p s F 0 := by
  have hI := h.toInvItems
  have hL0 : 0 ≤ L := by
    have := hLip 0 1 le_rfl zero_le_one zero_le_one le_rfl
    have h2 : |(0:α) - 1| = 1 := by norm_num
    rw [h2, mul_one] at this
    exact le_trans (abs_nonneg _) this
  intro a b hab x hax hxb
  have hra := hI.x_range a hab.mem_left
  have hrb := hI.x_range b hab.mem_right
  have hx0 : 0 ≤ x := le_trans hra.1 hax
  have hx1 : x ≤ 1 := le_trans hxb hrb.2
  have hlt := hI.nb_lt hab
  have hd : b.delta = b.x - a.x := by
    rw [hI.nb_delta hab, hn1]; exact hL.root_one (sub_pos.2 hlt).le
  have hA : F a.x - L * (x - a.x) ≤ F x := by
    have := hLip a.x x hra.1 hra.2 hx0 hx1
    rw [abs_sub_comm a.x x, abs_of_nonneg (sub_nonneg.2 hax)] at this
    have := (abs_le.1 this).2
    linarith
  have hB : F b.x - L * (b.x - x) ≤ F x := by
    have := hLip b.x x hrb.1 hrb.2 hx0 hx1
    rw [abs_of_nonneg (sub_nonneg.2 hxb)] at this
    have := (abs_le.1 this).2
    linarith
  have h1 : L * (x - a.x) ≤ L * (b.x - a.x) := mul_le_mul_of_nonneg_left (by linarith) hL0
  have h2 : L * (b.x - x) ≤ L * (b.x - a.x) := mul_le_mul_of_nonneg_left (by linarith) hL0
  have h3 : L * (b.x - a.x) ≤ (p.r * s.M / 2) * (b.x - a.x) :=
    mul_le_mul_of_nonneg_right (by linarith) (sub_pos.2 hlt).le
  rw [hd]
  refine ⟨?_, ?_, ?_⟩
  · intro ha hb
    rw [hF a hab.mem_left ha, hF b hab.mem_right hb]
    have e : L * (x - a.x) + L * (b.x - x) = L * (b.x - a.x) := by ring
    linarith
  · intro ha
    have hb : b.ev = true := by
      rcases hI.nb_ev hab with h' | h'
      · rw [ha] at h'; exact absurd h' Bool.false_ne_true
      · exact h'
    rw [hF b hab.mem_right hb]
    linarith
  · intro hb
    have ha : a.ev = true := by
      rcases hI.nb_ev hab with h' | h'
      · exact h'
      · rw [hb] at h'; exact absurd h' Bool.false_ne_true
    rw [hF a hab.mem_left ha]
    linarith

/-- **C01, the certificate for `N = 1`.** Let `F` (the objective along the curve) be `L`-Lipschitz on
`[0,1]`, let every evaluated item carry `z = F x`, let `prepare` choose an interval of length `< eps`
(the accuracy stop fires after this iteration) and let the reliability condition `2 L ≤ r M` hold for
the estimate `M = s.M` used in that selection. Then after the trial, `s' = commit p pr (F pr.x)`, for
every `x ∈ [0,1]`: `s'.Z - F x < (r M / 2) eps`; and `M ≤ s'.M`. -/
theorem C01_cert_step (hL : FnsLaws α) (hr : 1 < p.r) (hn1 : p.n = 1) (h : Inv p s)
    (F : α → α) (L : α)
    (hLip : ∀ x y, 0 ≤ x → x ≤ 1 → 0 ≤ y → y ≤ 1 → |F x - F y| ≤ L * |x - y|)
    (hF : ∀ it ∈ s.items, it.ev = true → it.z = F it.x)
    (hp : prepare p s = .ok pr) (heps : pr.old.delta < p.eps) (hrel : 2 * L ≤ p.r * s.M) :
    (∀ x, 0 ≤ x → x ≤ 1 → (commit p pr (F pr.x)).Z - F x < (p.r * s.M / 2) * p.eps) ∧
    s.M ≤ (commit p pr (F pr.x)).M := by
  have hn : 0 < p.n := by rw [hn1]; exact one_pos
  have := C01_cert_step_modMinorant hL hr hn h F hp heps 0
    (minorant_of_lipschitz hL hn1 h F L hLip hF hrel) (F pr.x)
  simpa using this

/-- **C01, flat objectives need no reliability hypothesis.** If `2 L ≤ r` the bound holds
unconditionally (since `1 ≤ M`). -/
theorem C01_flat (hL : FnsLaws α) (hr : 1 < p.r) (hn1 : p.n = 1) (h : Inv p s)
    (F : α → α) (L : α)
    (hLip : ∀ x y, 0 ≤ x → x ≤ 1 → 0 ≤ y → y ≤ 1 → |F x - F y| ≤ L * |x - y|)
    (hF : ∀ it ∈ s.items, it.ev = true → it.z = F it.x)
    (hp : prepare p s = .ok pr) (heps : pr.old.delta < p.eps) (hflat : 2 * L ≤ p.r) :
    (∀ x, 0 ≤ x → x ≤ 1 → (commit p pr (F pr.x)).Z - F x < (p.r * s.M / 2) * p.eps) ∧
    s.M ≤ (commit p pr (F pr.x)).M := by
  have hr0 : 0 < p.r := lt_trans one_pos hr
  have : p.r ≤ p.r * s.M := le_mul_of_one_le_right hr0.le h.M_ge
  exact C01_cert_step hL hr hn1 h F L hLip hF hp heps (le_trans hflat this)

/-- The accuracy stop indeed fires after an iteration that chose an interval of length `< eps`. -/
theorem C01_stop_fires (hL : FnsLaws α) (hr : 1 < p.r) (hn : 0 < p.n) (h : Inv p s)
    (hp : prepare p s = .ok pr) (heps : pr.old.delta < p.eps) (z : α) :
    stopCond p (commit p pr z) = true := by
  have hs := prepare_spec' hL hr hn h hp
  have hmd : (commit p pr z).minDelta = some (minOpt pr.old.delta s.minDelta) := by
    rw [commit_eq]; exact hs.minDelta_eq
  have hle : minOpt pr.old.delta s.minDelta ≤ pr.old.delta := by
    unfold minOpt
    cases s.minDelta with
    | none => exact le_rfl
    | some b =>
      simp only
      split
      · rename_i hlt; exact hlt.le
      · exact le_rfl
  unfold stopCond
  rw [hmd]
  simp only [Bool.or_eq_true, decide_eq_true_eq]
  exact Or.inl (lt_of_le_of_lt hle heps)

/-- In a run driven by an objective `f` (every logged value is `f` of the logged point), every
evaluated item carries `z = f (image x)`: the hypothesis `hF` of `C01_cert_step` with
`F x = f (p.image x)`. -/
theorem C01_values_of_objective (hL : FnsLaws α) (hr : 1 < p.r) (hn : 0 < p.n) {log : List (List α × α)}
    (h : Reach p s log) (f : List α → α) (hlog : ∀ e ∈ log, e.2 = f e.1) :
    ∀ it ∈ s.items, it.ev = true → it.z = f (p.image it.x) := by
  intro it hit hev
  have hI := (h.inv hL hr hn).toInvItems
  have hl := h.logInv hL hr hn
  have := hlog _ (hl.perm.mem_iff.1 (mem_evalsOf.2 ⟨it, hit, hev, rfl⟩))
  rw [← hI.point_eq it hit]; exact this

/-! ## Non-vacuity

Over ℝ with the real-number functions: `N = 1`, `r = 2`, `eps = 2`, identity curve `image x = [x]`,
objective `f [x] = x` (so `F x = x`, `L = 1`, and `2 L = 2 ≤ r ≤ r M`).  After 4 trials driven by `f`
there is a reachable state satisfying every hypothesis of `C01_cert_step` (and of `C01_flat`, and of
`C01_cert_step_modMinorant` with `g = 0`). -/
section NonVacuity
attribute [local instance] Fns.real

example : ∃ (p : Params ℝ) (s : State ℝ) (log : List (List ℝ × ℝ)) (pr : Prep ℝ) (F : ℝ → ℝ) (L : ℝ),
    FnsLaws ℝ ∧ 1 < p.r ∧ p.n = 1 ∧ Reach p s log ∧ log.length = 4 ∧ Inv p s ∧
    (∀ x y, 0 ≤ x → x ≤ 1 → 0 ≤ y → y ≤ 1 → |F x - F y| ≤ L * |x - y|) ∧
    (∀ it ∈ s.items, it.ev = true → it.z = F it.x) ∧
    prepare p s = .ok pr ∧ pr.old.delta < p.eps ∧ 2 * L ≤ p.r * s.M ∧ 2 * L ≤ p.r ∧
    Minorant p s F 0 := by
  let p : Params ℝ := { n := 1, r := 2, eps := 2, itersLimit := 100, image := fun x => [x] }
  let f : List ℝ → ℝ := fun pt => pt.headD 0
  have hr : (1 : ℝ) < p.r := by norm_num [p]
  have hn : 0 < p.n := by norm_num [p]
  obtain ⟨s, log, hre, hlen, hlog⟩ := exists_reach_obj (p := p) FnsLaws.real hr hn f 3
  have hI := hre.inv FnsLaws.real hr hn
  have hs := prepare_spec FnsLaws.real hr hn hI
  obtain ⟨pr, hp, hs⟩ := hs
  have hF : ∀ it ∈ s.items, it.ev = true → it.z = (fun x : ℝ => x) it.x := by
    intro it hit hev
    have := C01_values_of_objective FnsLaws.real hr hn hre f hlog it hit hev
    simpa [p, f] using this
  have hLip : ∀ x y : ℝ, 0 ≤ x → x ≤ 1 → 0 ≤ y → y ≤ 1 → |(fun x : ℝ => x) x - (fun x : ℝ => x) y| ≤ 1 * |x - y| := by
    intro x y _ _ _ _; simp
  have hrel : 2 * (1 : ℝ) ≤ p.r * s.M := by
    have := hI.M_ge
    show 2 * (1 : ℝ) ≤ 2 * s.M
    linarith
  have heps : pr.old.delta < p.eps := by
    have hab := hs.neighbours
    have hd : pr.old.delta = pr.old.x - pr.left.x := by
      rw [hs.inv.nb_delta hab]
      exact FnsLaws.real.root_one (sub_pos.2 (hs.inv.nb_lt hab)).le
    have h1 := (hs.inv.x_range _ hab.mem_right).2
    have h0 := (hs.inv.x_range _ hab.mem_left).1
    show pr.old.delta < 2
    rw [hd]; linarith
  exact ⟨p, s, log, pr, fun x => x, 1, FnsLaws.real, hr, rfl, hre, hlen, hI, hLip, hF, hp, heps, hrel,
    by norm_num [p], minorant_of_lipschitz FnsLaws.real rfl hI _ 1 hLip hF hrel⟩

end NonVacuity
end AGP
