import IOptProofs.GrishSound7
import IOptProofs.GrishCertAll
import IOptProofs.GrishSoundMeta
/-!
# C10 (Grishagin part) — the declared optimum of each of the 100 Grishagin functions is the true global optimum

`Grish.grishFn k` is the model function `Prob.grishagin` (`GrishaginFunction.Calculate`) over `ℝ` with the
coefficient tables `Gen.grishMat k 0..3` (`af, bf, cf, df`) regenerated from the running Python objects;
`Gen.grishOptPoint k`, `Gen.grishOptValue k` are the optimum point and value that the `Grishagin(k)` object declares
(`C10_grishagin_declared`).  For every `k ∈ 1..100`, on the box `[0,1]²`:

* (V) the function value at the declared point is the declared value within `1e-4`;
* (G) no point of the box has a value below the declared value minus `2e-3·max(1,|v|)`;
* (P) a global minimiser exists, and every global minimiser is within `0.005` (0.5 % of the box side) of the
  declared point in both coordinates.

The proof is a kernel-evaluated certificate per function (`Grish.grishOK k`, adaptive bisection of the box with
first-order mean-value leaf tests in exact integer arithmetic, files `GrishCert0..19`) together with the soundness
theorem of the checker over `ℝ` (`Grish.grishOK_sound`, files `GrishSound1..7`).
No exception: all three clauses hold for all 100 functions with the tolerances above.
-/

namespace Grish

/-- the point `(x, y)` lies in the box `[0,1]²` -/
def InBox (x y : ℝ) : Prop := 0 ≤ x ∧ x ≤ 1 ∧ 0 ≤ y ∧ y ≤ 1

/-- `(x, y)` is a global minimiser of `f` on the box `[0,1]²` -/
def IsGlobalMin (f : ℝ → ℝ → ℝ) (x y : ℝ) : Prop := InBox x y ∧ ∀ x' y', InBox x' y' → f x y ≤ f x' y'

/-- **C10 (Grishagin).** For `k ∈ 1..100` let `f = grishFn k` (the model of `GrishaginFunction(k).Calculate` over `ℝ`),
`(p0, p1)` the declared optimum point and `v` the declared optimum value.  Then `v < 0`, the declared point lies in
the box, and
(V) `|f(p) - v| ≤ 1e-4`;
(G) `f ≥ v - 2e-3·max(1,|v|)` on the box;
(P) `f` has a global minimiser on the box, and every global minimiser `(x, y)` satisfies
    `|x - p0| ≤ 0.005` and `|y - p1| ≤ 0.005`. -/
theorem C10_grishagin (k : ℕ) (h1 : 1 ≤ k) (h100 : k ≤ 100) :
    ∃ p0 p1 : Dy, Gen.grishOptPoint k = [p0, p1] ∧
      dyR (Gen.grishOptValue k) < 0 ∧ InBox (dyR p0) (dyR p1) ∧
      |grishFn k (dyR p0) (dyR p1) - dyR (Gen.grishOptValue k)| ≤ 1e-4 ∧
      (∀ x y, InBox x y →
        dyR (Gen.grishOptValue k) - 2e-3 * max 1 |dyR (Gen.grishOptValue k)| ≤ grishFn k x y) ∧
      (∃ x y, IsGlobalMin (grishFn k) x y) ∧
      (∀ x y, IsGlobalMin (grishFn k) x y → |x - dyR p0| ≤ 0.005 ∧ |y - dyR p1| ≤ 0.005) := by
  obtain ⟨p0, p1, hp, hc⟩ := grishOK_sound (grish_all k h1 h100)
  refine ⟨p0, p1, hp, hc.vneg, hc.box, ?_, ?_, ?_, ?_⟩
  · have := hc.V; norm_num at this ⊢; exact this
  · intro x y ⟨a, b, c, d⟩
    have := hc.G x y a b c d; norm_num at this ⊢; exact this
  · obtain ⟨x, y, hb, hmin⟩ := hc.Pex
    exact ⟨x, y, hb, fun x' y' ⟨a, b, c, d⟩ => hmin x' y' a b c d⟩
  · intro x y ⟨⟨a, b, c, d⟩, hmin⟩
    have := hc.Pall x y a b c d (fun x' y' a' b' c' d' => hmin x' y' ⟨a', b', c', d'⟩)
    norm_num at this ⊢; exact this

/-- **C10 (Grishagin), the declared optimum.** For `k ∈ 1..100` the metadata table (read from the running
`Grishagin(k)` object: `knownOptimum`, bounds, dimension) has a row of family code 3 (Grishagin) with argument `k`,
and every such row declares the optimum point `Gen.grishOptPoint k`, the optimum value `Gen.grishOptValue k`,
dimension 2 and the box `[0,1]²`. -/
theorem C10_grishagin_declared (k : ℕ) (h1 : 1 ≤ k) (h100 : k ≤ 100) :
    (∃ i, i < Gen.metaRowsPacked.size ∧ (Gen.metaDecode Gen.metaRowsPacked[i]!).family = 3 ∧
      (Gen.metaDecode Gen.metaRowsPacked[i]!).arg0 = k) ∧
    ∀ i, i < Gen.metaRowsPacked.size → (Gen.metaDecode Gen.metaRowsPacked[i]!).family = 3 →
      (Gen.metaDecode Gen.metaRowsPacked[i]!).arg0 = k →
      (Gen.metaDecode Gen.metaRowsPacked[i]!).optPoint = Gen.grishOptPoint k ∧
      (Gen.metaDecode Gen.metaRowsPacked[i]!).optValue = Gen.grishOptValue k ∧
      (Gen.metaDecode Gen.metaRowsPacked[i]!).dimension = 2 ∧
      (Gen.metaDecode Gen.metaRowsPacked[i]!).lower = [BenchMeta.dyZero, BenchMeta.dyZero] ∧
      (Gen.metaDecode Gen.metaRowsPacked[i]!).upper = [BenchMeta.dyOne, BenchMeta.dyOne] := by
  refine ⟨BenchMeta.grish_meta_exists k h1 h100, ?_⟩
  intro i hi hf ha
  obtain ⟨_, _, e1, e2, e3, e4, e5⟩ := BenchMeta.grish_meta_rows i hi hf
  rw [ha] at e1 e2
  exact ⟨e1, e2, e5, e3, e4⟩

/-- the bounds of the declared box are the doubles `0.0` and `1.0` -/
example : dyR BenchMeta.dyZero = 0 ∧ dyR BenchMeta.dyOne = 1 := by
  constructor
  · exact dyR_eq_zero (by decide +kernel)
  · rw [dyR_def]
    have : BenchMeta.dyOne.toRat = 1 := by decide +kernel
    rw [this]; norm_num

/-- non-vacuity: the hypotheses hold e.g. for `k = 70` (the function with the largest distance, `3.2e-3`, between
the declared point and the true minimiser), the box is not empty and the function does have a global minimiser
there, which is then within `0.005` of the declared point -/
example : ∃ p0 p1 : Dy, Gen.grishOptPoint 70 = [p0, p1] ∧
    ∃ x y, IsGlobalMin (grishFn 70) x y ∧ |x - dyR p0| ≤ 0.005 ∧ |y - dyR p1| ≤ 0.005 := by
  obtain ⟨p0, p1, hp, _, _, _, _, ⟨x, y, hm⟩, hall⟩ := C10_grishagin 70 (by norm_num) (by norm_num)
  exact ⟨p0, p1, hp, x, y, hm, hall x y hm⟩

example : InBox (1 / 2) (1 / 3) := by unfold InBox; norm_num

end Grish
