import IOptProofs.WorldShape
import IOptGen.AllocSites
/-!
# C12 — solver instances are isolated

"Creating, running or interleaving the iterations of other Solver instances never changes a solver's trial sequence, its
search information or any Solution it has returned: after any interleaving each solver's result equals the result of
running it alone, and a Solution obtained earlier still reports its own optimum."

Model: `IOptModel/World.lean` — a heap of Python objects with explicit identity (`Ref` = allocating solver + serial
number; `owner = none` = module level), the fields of every `Solver`, and the user-level operations `construct`, `first`,
`iter`, `results` as pointer programs (every read / write goes through a `Ref` found by following pointers; nothing in
the step function confines it to the acting solver's region).  A schedule is a list of (solver id, operation);
`run repaired sched` runs it from the empty world; operations that are not applicable in the current state (e.g. a second
`construct` of the same id) leave the world unchanged.  The oracle inputs `z` (objective value of the new trial) and
`better` (the new trial became the best) are arbitrary: the theorems hold for every problem and every outcome of the
numeric search, for every number of solvers and every interleaving.

The component `(w.solver i)` consists of: the region of objects allocated by solver `i` (`heap`), its fields (`st`: Solution
reference, `_allTrials`, `method.best`, started flag) and the list `handed` of Solution references its user has received.
-/

namespace C12
open World

section
variable {V : Type} [OfNat V 0]

/-- **C12, ownership invariant.**  After every schedule, for every solver `i`: (1) every object reachable from its fields
— its Solution, the `bestTrials` list and the trial in it, every trial of `_allTrials`, `method.best`, with their
`functionValues` lists and `FunctionValue` holders — was allocated by `i` itself; (2) so is every pointer stored in any object
`i` ever allocated, and every Solution handed to its user; (3) objects reachable from two different solvers are disjoint. -/
theorem C12_ownership (sched : List (Nat × Op V)) :
    (∀ i, ∀ r ∈ reach (run repaired sched) i, r.owner = some i) ∧
    (∀ i, (∀ x ∈ ((run repaired sched).solver i).heap, ∀ r ∈ x.refs, r.owner = some i) ∧
          (∀ r ∈ ((run repaired sched).solver i).handed, r.owner = some i)) ∧
    (∀ i j, i ≠ j → ∀ r ∈ reach (run repaired sched) i, r ∉ reach (run repaired sched) j) := by
  have hw := allClosed_run sched
  refine ⟨fun i => mem_reach_owner _ (hw i), fun i => ⟨(hw i).heap, (hw i).handed⟩, ?_⟩
  intro i j hij r hri hrj
  have h1 := mem_reach_owner _ (hw i) r hri
  have h2 := mem_reach_owner _ (hw j) r hrj
  rw [h1] at h2
  exact hij (Option.some.inj h2)

/-- non-vacuity: after a genuine interleaving both solvers reach many objects (Solution, `bestTrials` list, and trial / list /
holder for `bestTrials[0]`, for every trial of `_allTrials` and for `best`; listed with repetitions) -/
example : (reach (run repaired ([(0, .construct), (1, .construct), (0, .first 5), (1, .first 7), (0, .iter 3 true)] :
    List (Nat × Op Int))) 0).length = 20 ∧
    (reach (run repaired ([(0, .construct), (1, .construct), (0, .first 5), (1, .first 7), (0, .iter 3 true)] :
    List (Nat × Op Int))) 1).length = 17 := by decide

/-- **C12, frame.**  After every schedule, an applicable step of solver `j` (result `w'`, report `o`):
assigns only to objects allocated by `j` (`o.wrote`); the objects it creates (`o.allocated`) are new and belong to `j`;
it leaves every object NOT allocated by `j` unchanged — in particular the whole component of every other solver `i ≠ j` and
all module-level objects; and inside `j`'s own region every pre-existing object not listed in `o.wrote` is unchanged
(the list of writes is complete). -/
theorem C12_frame (sched : List (Nat × Op V)) (j : Nat) (op : Op V) (w' : State V) (o : Out)
    (h : step repaired (run repaired sched) j op = some (w', o)) :
    (∀ r ∈ o.wrote, r.owner = some j) ∧
    (∀ r ∈ o.allocated, r.owner = some j ∧ (run repaired sched).read r = none ∧ (w'.read r).isSome) ∧
    (∀ r, r.owner ≠ some j → w'.read r = (run repaired sched).read r) ∧
    (∀ i, i ≠ j → w'.solver i = (run repaired sched).solver i) ∧
    w'.modHeap = (run repaired sched).modHeap ∧
    (∀ r, r ∉ o.wrote → ((run repaired sched).read r).isSome → w'.read r = (run repaired sched).read r) := by
  obtain ⟨h1, h2, h3, h4, h5, h6⟩ := step_frame (allClosed_run sched) h
  exact ⟨h3, h4, h5, h1, h2, h6⟩

/-- non-vacuity: the step is applicable and does write (4 assignments, 3 new objects) -/
example : (step repaired (run repaired ([(0, .construct), (1, .construct), (0, .first 5), (1, .first 7)] :
    List (Nat × Op Int))) 0 (.iter 3 true)).map (fun p => (p.2.wrote.length, p.2.allocated.length)) = some (4, 3) := by
  decide

/-- **C12, isolation.**  For every schedule `sched` and every solver `i`, let `alone` be the schedule restricted to `i`'s own
steps.  Then (1) the whole component of `i` — its objects with their contents (the trial sequence with the values, the
Solution with its counters), its fields (`_allTrials`, `best`, started) and the list of Solutions handed out — after `sched`
is literally EQUAL to the one after running `alone`; and (2) for every Solution reference `s` that `GetResults` handed to
`i`'s user at any earlier point of the schedule (after any prefix `pre`), the same reference was handed out in the run
alone, and what it reports now (`bestTrials[0].functionValues[0].value`, `numberOfGlobalTrials`) equals what it reports after
the run alone.  The module-level heap is not touched. -/
theorem C12_isolation (sched : List (Nat × Op V)) (i : Nat) :
    (run repaired sched).solver i = (run repaired (sched.filter (·.1 = i))).solver i ∧
    (∀ pre post, sched = pre ++ post → ∀ s ∈ ((run repaired pre).solver i).handed,
      s ∈ ((run repaired (sched.filter (·.1 = i))).solver i).handed ∧
      report (run repaired sched) s = report (run repaired (sched.filter (·.1 = i))) s ∧
      reportTrials (run repaired sched) s = reportTrials (run repaired (sched.filter (·.1 = i))) s) ∧
    (run repaired sched).modHeap = (init repaired : State V).modHeap := by
  have heq : (run repaired sched).solver i = (run repaired (sched.filter (·.1 = i))).solver i := by
    unfold run
    rw [runFrom_solver allClosed_init, runFrom_solver allClosed_init, List.filter_filter]
    simp
  refine ⟨heq, ?_, runFrom_modHeap allClosed_init sched⟩
  intro pre post hsplit s hs
  have hmem : s ∈ ((run repaired sched).solver i).handed := by
    rw [hsplit]; exact handed_mono pre post i s hs
  have hc := allClosed_run sched i
  have hown := hc.handed s hmem
  exact ⟨heq ▸ hmem, report_congr heq hc hown⟩

/-- non-vacuity: a Solution handed out early (after 3 steps), then both solvers go on; it reports solver 0's optimum -/
example :
    ∃ s ∈ ((run repaired ([(0, .construct), (0, .first 5), (0, .results)] : List (Nat × Op Int))).solver 0).handed,
      report (run repaired ([(0, .construct), (0, .first 5), (0, .results), (1, .construct), (1, .first 7),
        (0, .iter 3 true), (1, .iter 9 false), (0, .iter 4 false)] : List (Nat × Op Int))) s = some 3 ∧
      reportTrials (run repaired ([(0, .construct), (0, .first 5), (0, .results), (1, .construct), (1, .first 7),
        (0, .iter 3 true), (1, .iter 9 false), (0, .iter 4 false)] : List (Nat × Op Int))) s = some 3 := by decide

/-- **C12, a Solution reports its own solver's optimum.**  `absRun ops` (`IOptProofs/WorldShape.lean`) is the view a user is
entitled to from the solver's OWN operations `ops` alone: `opt` = the value `z` of its last trial that became the best
(`first z`, or `iter z true`), `trials` = the number of its applicable `first` / `iter` operations.  For every schedule, every
solver `i` and every Solution reference `s` handed to `i`'s user at any earlier point: what `s` reports at the end
(`bestTrials[0].functionValues[0].value`, `numberOfGlobalTrials`) is exactly that view of `i`'s own operations — whatever the other
solvers did in between. -/
theorem C12_own_optimum (sched : List (Nat × Op V)) (i : Nat) (pre post : List (Nat × Op V))
    (hsplit : sched = pre ++ post) :
    ∀ s ∈ ((run repaired pre).solver i).handed,
      report (run repaired sched) s = (absRun ((sched.filter (·.1 = i)).map (·.2))).opt ∧
      reportTrials (run repaired sched) s = some (absRun ((sched.filter (·.1 = i)).map (·.2))).trials := by
  intro s hs
  have hmem : s ∈ ((run repaired sched).solver i).handed := by
    rw [hsplit]; exact handed_mono pre post i s hs
  have hc := allClosed_run sched i
  have hown := hc.handed s hmem
  obtain ⟨h1, h2⟩ := shape_report (run_shape sched i) s hmem
  have e : run repaired sched = (run repaired sched).setComp i ((run repaired sched).solver i) :=
    (State.setComp_self _ i).symm
  constructor
  · rw [e, report_local _ hc hown]; exact h1
  · rw [e, reportTrials_local _ _ hown]; exact h2

/-- non-vacuity / sanity of the abstract view: own operations of solver 0 in the schedule of the previous example -/
example : (absRun ([.construct, .first 5, .results, .iter 3 true, .iter 4 false] : List (Op Int))).opt = some 3 ∧
    (absRun ([.construct, .first 5, .results, .iter 3 true, .iter 4 false] : List (Op Int))).trials = 3 := by decide

/-- **C12, the steps never get stuck.**  After every schedule an operation of solver `i` is applicable (the step function
returns a new world) exactly when `i`'s own history allows it — `construct` once, `first` once after it, `iter` after `first`,
`results` after `construct`; in particular no pointer of the model ever dangles or has the wrong kind (no Python
`AttributeError` / `IndexError` path is taken), so the isolation theorems do not hold vacuously. -/
theorem C12_progress (sched : List (Nat × Op V)) (i : Nat) (op : Op V) :
    (step repaired (run repaired sched) i op).isSome =
      applicable (absRun ((sched.filter (·.1 = i)).map (·.2))) op :=
  step_applicable sched i op

end

/-! ### negative control: the legacy code (mutable default arguments) is NOT isolated -/

/-- **C12, negative control (the repaired defect).**  In the legacy variant (`Solution.__init__(bestTrials=[Trial([], [])])`,
`SearchDataItem.__init__(functionValues=[FunctionValue()])`) the schedule
construct 0, first 0 (value 5), results 0, construct 1, first 1 (value 7) changes what solver 0's Solution reports: 5 when it was
handed out and in the run alone, 7 after solver 1's first iteration; and the two solvers reach common objects. -/
theorem C12_legacy_not_isolated :
    ∃ s ∈ ((run legacy ([(0, .construct), (0, .first 5), (0, .results)] : List (Nat × Op Int))).solver 0).handed,
      report (run legacy ([(0, .construct), (0, .first 5), (0, .results)] : List (Nat × Op Int))) s = some 5 ∧
      report (run legacy ([(0, .construct), (0, .first 5), (0, .results), (1, .construct), (1, .first 7)] :
        List (Nat × Op Int))) s = some 7 ∧
      report (run legacy (([(0, .construct), (0, .first 5), (0, .results), (1, .construct), (1, .first 7)] :
        List (Nat × Op Int)).filter (·.1 = 0))) s = some 5 ∧
      ∃ r ∈ reach (run legacy ([(0, .construct), (0, .first 5), (0, .results), (1, .construct), (1, .first 7)] :
        List (Nat × Op Int))) 0,
        r ∈ reach (run legacy ([(0, .construct), (0, .first 5), (0, .results), (1, .construct), (1, .first 7)] :
        List (Nat × Op Int))) 1 := by decide

/-- each of the two shared defaults alone already breaks isolation on the same schedule -/
theorem C12_legacy_each_default_not_isolated :
    ∀ vr ∈ [({ sharedBestTrials := true } : Variant), { sharedFunctionValues := true }],
    ∃ s ∈ ((run vr ([(0, .construct), (0, .first 5), (0, .results)] : List (Nat × Op Int))).solver 0).handed,
      report (run vr ([(0, .construct), (0, .first 5), (0, .results)] : List (Nat × Op Int))) s = some 5 ∧
      report (run vr ([(0, .construct), (0, .first 5), (0, .results), (1, .construct), (1, .first 7)] :
        List (Nat × Op Int))) s = some 7 := by decide

/-- … while the repaired code keeps reporting 5 on that schedule -/
example :
    ∃ s ∈ ((run repaired ([(0, .construct), (0, .first 5), (0, .results)] : List (Nat × Op Int))).solver 0).handed,
      report (run repaired ([(0, .construct), (0, .first 5), (0, .results), (1, .construct), (1, .first 7)] :
        List (Nat × Op Int))) s = some 5 := by decide

/-! ### allocation sites: no mutable default argument / class-level mutable attribute that the model does not know -/

/-- the mutable defaults present in the current sources that the model accounts for, with multiplicity:
(file, function, kind of default expression, callee) -/
def allowedSites : List (String × String × String × String) := [
  -- `Evolvent.__init__(lowerBoundOfFloatVariables=[], upperBoundOfFloatVariables=[])`: copied with `np.copy`, never written
  ("iOpt/evolvent/evolvent.py", "__init__", "List", ""),
  ("iOpt/evolvent/evolvent.py", "__init__", "List", ""),
  -- `Evolvent.SetBounds(lowerBoundOfFloatVariables=[], upperBoundOfFloatVariables=[])`: copied with `np.copy`, never written
  ("iOpt/evolvent/evolvent.py", "SetBounds", "List", ""),
  ("iOpt/evolvent/evolvent.py", "SetBounds", "List", ""),
  -- `StaticNDPaintListener.__init__(varsIndxs=[0, 1])`, `AnimationNDPaintListener.__init__(varsIndxs=[0, 1])`: read only
  ("iOpt/method/listener.py", "__init__", "List", ""),
  ("iOpt/method/listener.py", "__init__", "List", ""),
  -- `Solver.__init__(parameters=SolverParameters())`: one shared parameters object, never written by the library
  ("iOpt/solver.py", "__init__", "Call", "SolverParameters"),
  -- `SolverParameters.__init__(startPoint=[])`: unused
  ("iOpt/solver_parametrs.py", "__init__", "List", "")]

/-- a generated site without its line number -/
def siteKey (s : String × String × String × String × Nat) : String × String × String × String :=
  (s.1, s.2.1, s.2.2.1, s.2.2.2.1)

/-- **C12, allocation sites.**  Every mutable default argument / class-level mutable attribute that the translator finds
anywhere under `iOpt/` (`Gen.allocSites`, regenerated from the sources by `ast`) is one of the sites of the explicit
allow-list that the model accounts for — compared on (file, function, kind, callee), line numbers ignored, and with
multiplicity (a second mutable default in an allow-listed function is NOT covered).  A new mutable default such as the old
`Solution.__init__(bestTrials=[Trial([], [])])` breaks this obligation. -/
theorem C12_alloc_sites :
    ∀ k ∈ Gen.allocSites.map siteKey, (Gen.allocSites.map siteKey).count k ≤ allowedSites.count k := by
  decide

/-- non-vacuity: the generated list is not empty, and the legacy defaults would be rejected -/
example : 0 < Gen.allocSites.length ∧
    allowedSites.count ("iOpt/solution.py", "__init__", "List", "") = 0 ∧
    allowedSites.count ("iOpt/method/search_data.py", "__init__", "List", "") = 0 := by decide

end C12
