import IOptProofs.ShekelTabCor
import IOptProofs.ShekelTabCertAll
import IOptProofs.ShekelTabRemark
/-!
# C18, second sentence, Shekel half: the published min / max / Lipschitz tables agree with the functions

"For Hill and Shekel the published per-function minimum, maximum and Lipschitz-constant tables agree with
the functions they describe (values within 1e-4, locations within 1e-4 of the range, constants within 0.1%)."

Shekel function `i` (0 ≤ i < 1000) is `f(x) = -Σ_{j<10} 1/(kⱼ (x - aⱼ)² + cⱼ)` on `[0,10]`
(`Shk.shekelFn i = Prob.shekel` with the real values of row `i` of the generated tables), with derivative
`Shk.shekelDeriv i x = Σⱼ 2 kⱼ (x - aⱼ)/(kⱼ (x - aⱼ)² + cⱼ)²`.  The tables of `shekel_generation.py`
(`minShekel`, `maxHill` (sic), `lConstantHill` (sic)) are regenerated from the running Python on every run:
`Gen.shekelMinValue/MinPoint/MaxValue/MaxPoint/Lip i`.  The range is 10, so "within 1e-4 of the range" is `1e-3`.

Everything depends on the data only through the Boolean certificate `Shk.shekelTabOK i`, evaluated by the
kernel for all 1000 rows in `IOptProofs/ShekelTabCert0..49.lean` (no exceptions: every clause holds for every
row with the tolerances of the property).
-/

namespace C18shekel
open Shk

/-- **C18 (Shekel tables), generic theorem.** If the Boolean certificate `Shk.shekelTabOK i` (computed from
row `i` of the generated tables only) evaluates to `true`, the clauses `Shk.ShekelTables` hold over ℝ. -/
theorem C18_shekel_tables_generic (i : Nat) (h : shekelTabOK i = true) :
    ShekelTables (shekelFn i) (shekelDeriv i) (dyR (Gen.shekelMinValue i)) (dyR (Gen.shekelMinPoint i))
      (dyR (Gen.shekelMaxValue i)) (dyR (Gen.shekelMaxPoint i)) (dyR (Gen.shekelLip i)) :=
  shekelTabOK_sound i h

/-- the table clauses for every shipped Shekel function -/
theorem C18_shekel_tables_clauses (i : Nat) (hi : i < 1000) :
    ShekelTables (shekelFn i) (shekelDeriv i) (dyR (Gen.shekelMinValue i)) (dyR (Gen.shekelMinPoint i))
      (dyR (Gen.shekelMaxValue i)) (dyR (Gen.shekelMaxPoint i)) (dyR (Gen.shekelLip i)) :=
  shekelTabOK_sound i (shekel_tab_all i hi)

/-- **C18, Shekel half of the second sentence, for each of the 1000 shipped functions.**
With `f = Shk.shekelFn i`, `f' = Shk.shekelDeriv i` and the tabulated `(vmin, pmin)`, `(vmax, pmax)`, `L`:
* `f'` is the derivative of `f`;
* minimum: `f` has a global minimiser on `[0,10]`; at every global minimiser the value is within `1e-4` of
  `vmin` and the point is within `1e-3` (= `1e-4` of the range) of `pmin`; moreover every point of the box
  whose value is within `5e-7` of the minimum is within `1e-3` of `pmin`;
* maximum: the same with `vmax`, `pmax` (margin `3e-9`);
* Lipschitz constant: `sup_{[0,10]} |f'|` is within `0.1 %` of `L` (`|f'| ≤ 1.001 L` on the box and
  `|f'(w)| ≥ 0.999 L` for some `w` of the box), and `|f x - f y| ≤ 1.001 L |x - y|` on the box. -/
theorem C18_shekel_tables (i : Nat) (hi : i < 1000) :
    let f := shekelFn i
    let f' := shekelDeriv i
    let vmin := dyR (Gen.shekelMinValue i)
    let pmin := dyR (Gen.shekelMinPoint i)
    let vmax := dyR (Gen.shekelMaxValue i)
    let pmax := dyR (Gen.shekelMaxPoint i)
    let L := dyR (Gen.shekelLip i)
    (∀ x, HasDerivAt f (f' x) x) ∧
    -- minimum
    (∃ xs, 0 ≤ xs ∧ xs ≤ 10 ∧ ∀ x, 0 ≤ x → x ≤ 10 → f xs ≤ f x) ∧
    (∀ xs, 0 ≤ xs → xs ≤ 10 → (∀ x, 0 ≤ x → x ≤ 10 → f xs ≤ f x) →
      |f xs - vmin| ≤ 1e-4 ∧ |xs - pmin| ≤ 1e-3) ∧
    (∀ x, 0 ≤ x → x ≤ 10 → (∀ y, 0 ≤ y → y ≤ 10 → f x < f y + 5e-7) → |x - pmin| ≤ 1e-3) ∧
    -- maximum
    (∃ xs, 0 ≤ xs ∧ xs ≤ 10 ∧ ∀ x, 0 ≤ x → x ≤ 10 → f x ≤ f xs) ∧
    (∀ xs, 0 ≤ xs → xs ≤ 10 → (∀ x, 0 ≤ x → x ≤ 10 → f x ≤ f xs) →
      |f xs - vmax| ≤ 1e-4 ∧ |xs - pmax| ≤ 1e-3) ∧
    (∀ x, 0 ≤ x → x ≤ 10 → (∀ y, 0 ≤ y → y ≤ 10 → f y - 3e-9 < f x) → |x - pmax| ≤ 1e-3) ∧
    -- Lipschitz constant
    (∀ x, 0 ≤ x → x ≤ 10 → |f' x| ≤ 1.001 * L) ∧
    (∃ w, 0 ≤ w ∧ w ≤ 10 ∧ 0.999 * L ≤ |f' w|) ∧
    |sSup ((fun x => |f' x|) '' Set.Icc (0 : ℝ) 10) - L| ≤ 0.001 * L ∧
    (∀ x y, 0 ≤ x → x ≤ 10 → 0 ≤ y → y ≤ 10 → |f x - f y| ≤ 1.001 * L * |x - y|) := by
  intro f f' vmin pmin vmax pmax L
  have h := C18_shekel_tables_clauses i hi
  exact ⟨h.deriv, h.exists_min,
    fun xs h0 h10 hm => ⟨h.min_value xs h0 h10 hm, h.minimiser_near xs h0 h10 hm⟩, h.near_min,
    h.exists_max,
    fun xs h0 h10 hm => ⟨h.max_value xs h0 h10 hm, h.maximiser_near xs h0 h10 hm⟩, h.near_max,
    h.lip_upper, h.lip_lower, h.sup_deriv,
    fun x y hx0 hx10 hy0 hy10 => h.lipschitz x y hx0 hx10 hy0 hy10⟩

/-- the tables also contain the location of the minimum as the declared optimum of the problem (C10 uses
the same entries); here: the table points lie in the box -/
theorem C18_shekel_table_points_in_box (i : Nat) (hi : i < 1000) :
    0 ≤ dyR (Gen.shekelMinPoint i) ∧ dyR (Gen.shekelMinPoint i) ≤ 10 ∧
    0 ≤ dyR (Gen.shekelMaxPoint i) ∧ dyR (Gen.shekelMaxPoint i) ≤ 10 :=
  let h := C18_shekel_tables_clauses i hi
  ⟨h.pmin_in.1, h.pmin_in.2, h.pmax_in.1, h.pmax_in.2⟩

/-- **Remark (why the location clauses speak about true extremisers).** The tabulated locations are multiples of
`1e-3`; for the five rows 492, 640, 797, 913, 970 the true minimiser is slightly more than `5e-4` away from the
tabulated one, and some point of the box farther than `1e-3` from `pmin` has a value *below* `f pmin`.  So the
variant "every `x` with `f x ≤ f pmin` is within `1e-3` of `pmin`" is false for these rows, although every
global minimiser is within `1e-3` of `pmin` for all 1000 rows. -/
theorem C18_shekel_sublevel_remark : ∀ i ∈ [492, 640, 797, 913, 970],
    ∃ x : ℝ, 0 ≤ x ∧ x ≤ 10 ∧ 1e-3 < |x - dyR (Gen.shekelMinPoint i)| ∧
      shekelFn i x < shekelFn i (dyR (Gen.shekelMinPoint i)) :=
  fun i hi => sublevelOut_sound i (sublevelOut_rows i hi)

/-- non-vacuity: the certificate of a concrete row is `true`, and its table entries are non-trivial
(row 0: `vmin < -1.8`, `pmin = 7.288`, `vmax > -0.07`, `pmax = 10`, `L > 4`) -/
example : shekelTabOK 0 = true ∧ (Gen.shekelMinValue 0).toRat < -18 / 10 ∧
    (Gen.shekelMinPoint 0).toRat > 7 ∧ (Gen.shekelMaxValue 0).toRat > -7 / 100 ∧
    (Gen.shekelMaxPoint 0).toRat = 10 ∧ (Gen.shekelLip 0).toRat > 4 :=
  ⟨shekel_tab_all 0 (by norm_num), by decide +kernel, by decide +kernel, by decide +kernel, by decide +kernel,
   by decide +kernel⟩

/-- non-vacuity of the clauses: an interior maximum (row 4: `pmax = 2.138…`), so both rings of the
derivative-sign argument are non-empty there -/
example : (Gen.shekelMaxPoint 4).toRat > 2 ∧ (Gen.shekelMaxPoint 4).toRat < 3 := by
  constructor <;> decide +kernel

end C18shekel
