import IOptProofs.S3SoundFeas
/-!
# C10 for StronginC3: the declared optimum is the constrained global minimum (within the C10 tolerances)

"the objective at the declared optimum point equals the declared optimum value within 1e-4, no point of the
[feasible set] has a value lower than the declared one by more than 2e-3*max(1,|f*|), and the declared point lies
within 0.5% of the box side of a true global minimiser" — box `[0,4] × [-1,3]`, side 4, 0.5 % = 0.02.

**What the functions are.**  `S3.f`, `S3.g0`, `S3.g1`, `S3.g2 : ℝ → ℝ → ℝ` are `Gen.S3.objective`,
`Gen.S3.constraint0..2` — generated on every run from the Python SOURCE TEXT of `StronginC3.Calculate`
(`IOptGen/StronginC3Src.lean`) — instantiated at `ℝ` with `MathFns ℝ` (`Real.exp`, `Real.sin`, `pow = Real.rpow`) and
`lit k :=` the exact real value of the k-th double literal (`S3.litR`, e.g. `2.2` is `2476979795053773/2^50`).
The declared point `p`, value `v` and the box are read from the metadata row of family code 7
(`S3.metaRow`, the last row of `Gen.metaRowsPacked`, and the only row of that family).

**Results.**  (numeric scan: true constrained minimum ≈ -1.489679 at ≈ (0.94245, 0.94515), only `g1` active there)
* `C10_strongin_value` (V): `|f p − v| ≤ 1e-4` (actual difference 4.4e-7);
* `C10_strongin_global` (G): `v − 2e-3·max(1,|v|) ≤ f x` for every feasible `x` (margin 2.7e-3);
* `C10_strongin_location` (P): a feasible global minimiser exists, and EVERY feasible global minimiser `y` has
  `|y1 − p1| ≤ 0.008`, `|y2 − p2| ≤ 0.018`, hence Euclidean distance `< 0.02` from `p`;
* `C10_strongin_declared_feasible`: the declared point is itself feasible (`g1(p) ≈ −4.7e-5`: just inside), but it is NOT a
  global minimiser (`C10_strongin_declared_not_minimiser`: a feasible point with a smaller value exists; the true
  minimum is ≈ 2.35e-4 below the declared value).
* (G) and (P) use only the constraint `g1` (they hold on the superset `{x ∈ box : g1 x ≤ 0}`): `…_g1only`.

Route: kernel-evaluated interval branch-and-bound on dyadic boxes over `Nat` fixed point
(`IOptProofs/S3Defs.lean`, ~1200 boxes per clause, `decide +kernel` in `IOptProofs/S3Cert.lean`), sound over ℝ
(`IOptProofs/S3Sound*.lean`).
-/

namespace C10
open S3

/-! ### the obligations on the generated model -/

/-- the source translator followed all four cases of `StronginC3.Calculate` -/
theorem C10_strongin_translated : Gen.S3.translated = true := by decide

/-- the literal tables have the expected numbers of float literals (9, 6, 8, 5) -/
theorem C10_strongin_lits : Gen.S3.objectiveLits.length = 9 ∧ Gen.S3.constraint0Lits.length = 6 ∧
    Gen.S3.constraint1Lits.length = 8 ∧ Gen.S3.constraint2Lits.length = 5 := lits_lengths

/-- `S3.f`, `S3.g0..2` ARE the generated expression trees at `ℝ` (instance `instMathFnsReal`), with every float
literal replaced by the exact real value of its double (`S3.litR L k = dyR (Dy.ofBits (L.getD k 0))`) -/
theorem C10_strongin_model :
    f = Gen.S3.objective (α := ℝ) (litR Gen.S3.objectiveLits) ∧
    g0 = Gen.S3.constraint0 (α := ℝ) (litR Gen.S3.constraint0Lits) ∧
    g1 = Gen.S3.constraint1 (α := ℝ) (litR Gen.S3.constraint1Lits) ∧
    g2 = Gen.S3.constraint2 (α := ℝ) (litR Gen.S3.constraint2Lits) ∧
    (∀ L k, litR L k = dyR (Dy.ofBits (L.getD k 0))) := ⟨rfl, rfl, rfl, rfl, fun _ _ => rfl⟩

/-- the closed forms of the four functions over ℝ (exact constants: `c001, c22, c12, c6283` are the real values of
the doubles `0.01, 2.2, 1.2, 6.283`; all other literals are dyadic and exact) -/
theorem C10_strongin_forms (x1 x2 : ℝ) :
    f x1 x2 = -(3 / 2 * x1 ^ 2 * Real.exp (1 - x1 ^ 2 - 81 / 4 * (x1 - x2) ^ 2)
      + ((x1 - 1) / 2) ^ 4 * (x2 - 1) ^ 4 * Real.exp (2 - ((x1 - 1) / 2) ^ 4 - (x2 - 1) ^ 4)) ∧
    g0 x1 x2 = c001 * ((x1 - c22) ^ 2 + (x2 - c12) ^ 2 - 9 / 4) ∧
    g1 x1 x2 = 100 * (1 - ((x1 - 2) / c12) ^ 2 - (x2 / 2) ^ 2) ∧
    g2 x1 x2 = 10 * (x2 - 3 / 2 - 3 / 2 * Real.sin (c6283 * (x1 - 7 / 4))) :=
  ⟨by rw [f_eq]; rfl, g0_eq x1 x2, g1_eq x1 x2, g2_eq x1 x2⟩

/-! ### the declared optimum, read from the metadata row -/

/-- coordinate `i` of the declared optimum point -/
noncomputable def s3P (i : Nat) : ℝ := (metaRow.optPoint.map dyR).getD i 0
/-- the declared optimum value -/
noncomputable def s3V : ℝ := dyR metaRow.optValue
/-- the declared box -/
noncomputable def s3Lo (i : Nat) : ℝ := (metaRow.lower.map dyR).getD i 0
noncomputable def s3Hi (i : Nat) : ℝ := (metaRow.upper.map dyR).getD i 0

/-- the feasible set of StronginC3: the declared box and the three constraints -/
def S3Feasible (x1 x2 : ℝ) : Prop :=
  s3Lo 0 ≤ x1 ∧ x1 ≤ s3Hi 0 ∧ s3Lo 1 ≤ x2 ∧ x2 ≤ s3Hi 1 ∧ g0 x1 x2 ≤ 0 ∧ g1 x1 x2 ≤ 0 ∧ g2 x1 x2 ≤ 0

/-- **The metadata row of StronginC3**: it is the last row of the table and the only one of family code 7; it
declares dimension 2, one objective, three constraints, one optimum; the box is `[0,4] × [-1,3]`; the declared
point is `(p, p)` with `p` the double `0.941176`, the declared value is the double `-1.489444`. -/
theorem C10_strongin_declared :
    metaRow = Gen.metaDecode Gen.metaRowsPacked.back! ∧
    (∀ row ∈ Gen.metaRowsPacked.toList, (Gen.metaDecode row).family = 7 → row = Gen.metaRowsPacked.back!) ∧
    metaRow.family = 7 ∧ metaRow.dimension = 2 ∧ metaRow.nObjectives = 1 ∧ metaRow.nConstraints = 3 ∧
    metaRow.nOptima = 1 ∧
    s3Lo 0 = 0 ∧ s3Hi 0 = 4 ∧ s3Lo 1 = -1 ∧ s3Hi 1 = 3 ∧
    s3P 0 = 8477359765780108 / 2 ^ 53 ∧ s3P 1 = 8477359765780108 / 2 ^ 53 ∧
    s3V = -6707859443389221 / 2 ^ 52 := by
  obtain ⟨h1, h2, _, h4, h5, h6, h7, h8, h9, h10⟩ := metaRow_spec
  refine ⟨rfl, family7_unique, h1, h2, h4, h5, h6, ?_, ?_, ?_, ?_, ?_, ?_, ?_⟩
  · simp [s3Lo, h7, dy0_val]
  · simp [s3Hi, h8, dy4_val]
  · simp [s3Lo, h7, dyM1_val]
  · simp [s3Hi, h8, dy3_val]
  · simp only [s3P, h9, List.map_cons, List.getD_cons_zero]; exact pR_eq
  · simp only [s3P, h9, List.map_cons, List.getD_cons_succ, List.getD_cons_zero]; exact pR_eq
  · simp only [s3V, h10]; exact vR_eq

theorem s3P_eq : s3P 0 = pR ∧ s3P 1 = pR := by
  obtain ⟨_, _, _, _, _, _, _, _, h9, _⟩ := metaRow_spec
  constructor
  · simp only [s3P, h9, List.map_cons, List.getD_cons_zero]; rfl
  · simp only [s3P, h9, List.map_cons, List.getD_cons_succ, List.getD_cons_zero]; rfl

theorem s3V_eq : s3V = vR := by
  obtain ⟨_, _, _, _, _, _, _, _, _, h10⟩ := metaRow_spec
  simp only [s3V, h10]; rfl

theorem s3Feasible_iff (x1 x2 : ℝ) : S3Feasible x1 x2 ↔ Feasible x1 x2 := by
  obtain ⟨_, _, _, _, _, _, _, h8, h9, h10, h11, _⟩ := C10_strongin_declared
  unfold S3Feasible Feasible
  rw [h8, h9, h10, h11]

/-! ### the three clauses -/

/-- **C10 (V), StronginC3.** The objective at the declared optimum point equals the declared optimum value
within `1e-4`. -/
theorem C10_strongin_value : |f (s3P 0) (s3P 1) - s3V| ≤ 1e-4 := by
  rw [s3P_eq.1, s3P_eq.2, s3V_eq]
  have := clauseV
  norm_num at this ⊢
  exact this

/-- (G) on the superset of the feasible set given by the box and the constraint `g1` alone -/
theorem C10_strongin_global_g1only (x1 x2 : ℝ) (h1 : s3Lo 0 ≤ x1) (h2 : x1 ≤ s3Hi 0) (h3 : s3Lo 1 ≤ x2)
    (h4 : x2 ≤ s3Hi 1) (hg : g1 x1 x2 ≤ 0) : s3V - 2e-3 * max 1 |s3V| ≤ f x1 x2 := by
  obtain ⟨_, _, _, _, _, _, _, h8, h9, h10, h11, _⟩ := C10_strongin_declared
  rw [h8] at h1; rw [h9] at h2; rw [h10] at h3; rw [h11] at h4
  rw [s3V_eq]
  have := clauseG x1 x2 h1 h2 h3 h4 hg
  norm_num at this ⊢
  exact this

/-- **C10 (G), StronginC3.** No feasible point (declared box, `g0 ≤ 0`, `g1 ≤ 0`, `g2 ≤ 0`) has a value lower than
the declared one by more than `2e-3·max(1,|v|)`. -/
theorem C10_strongin_global (x1 x2 : ℝ) (h : S3Feasible x1 x2) : s3V - 2e-3 * max 1 |s3V| ≤ f x1 x2 :=
  C10_strongin_global_g1only x1 x2 h.1 h.2.1 h.2.2.1 h.2.2.2.1 h.2.2.2.2.2.1

/-- (P) on the superset: every point of the box with `g1 ≤ 0` whose value does not exceed that of the feasible
witness `w = (S3.w1, S3.w2)` lies within `0.008` / `0.018` (per coordinate) of the declared point -/
theorem C10_strongin_location_g1only (x1 x2 : ℝ) (h1 : s3Lo 0 ≤ x1) (h2 : x1 ≤ s3Hi 0) (h3 : s3Lo 1 ≤ x2)
    (h4 : x2 ≤ s3Hi 1) (hg : g1 x1 x2 ≤ 0) (hle : f x1 x2 ≤ f w1 w2) :
    |x1 - s3P 0| ≤ 0.008 ∧ |x2 - s3P 1| ≤ 0.018 := by
  obtain ⟨_, _, _, _, _, _, _, h8, h9, h10, h11, _⟩ := C10_strongin_declared
  rw [h8] at h1; rw [h9] at h2; rw [h10] at h3; rw [h11] at h4
  rw [s3P_eq.1, s3P_eq.2]
  have hin : InRect RP x1 x2 := by
    by_contra hout
    exact absurd (clauseP x1 x2 h1 h2 h3 h4 hg hout) (not_lt.2 hle)
  have := inRP_close x1 x2 hin
  norm_num at this ⊢
  exact this

/-- **C10 (P), StronginC3.** A feasible global minimiser exists, and EVERY feasible global minimiser `(y1, y2)` lies
within `0.008` (first coordinate) and `0.018` (second coordinate) of the declared point, hence at Euclidean distance
less than `0.02` = 0.5 % of the box side 4. -/
theorem C10_strongin_location :
    (∃ y1 y2 : ℝ, S3Feasible y1 y2 ∧ ∀ x1 x2 : ℝ, S3Feasible x1 x2 → f y1 y2 ≤ f x1 x2) ∧
    (∀ y1 y2 : ℝ, S3Feasible y1 y2 → (∀ x1 x2 : ℝ, S3Feasible x1 x2 → f y1 y2 ≤ f x1 x2) →
      |y1 - s3P 0| ≤ 0.008 ∧ |y2 - s3P 1| ≤ 0.018 ∧
      Real.sqrt ((y1 - s3P 0) ^ 2 + (y2 - s3P 1) ^ 2) < 0.02) := by
  constructor
  · obtain ⟨y1, y2, hy, hmin⟩ := exists_minimiser
    exact ⟨y1, y2, (s3Feasible_iff y1 y2).2 hy, fun x1 x2 hx => hmin x1 x2 ((s3Feasible_iff x1 x2).1 hx)⟩
  · intro y1 y2 hy hmin
    have hw : S3Feasible w1 w2 := (s3Feasible_iff w1 w2).2 w_feasible
    obtain ⟨c1, c2⟩ := C10_strongin_location_g1only y1 y2 hy.1 hy.2.1 hy.2.2.1 hy.2.2.2.1 hy.2.2.2.2.2.1
      (hmin w1 w2 hw)
    refine ⟨c1, c2, ?_⟩
    have s1 : (y1 - s3P 0) ^ 2 ≤ 0.008 ^ 2 := by rw [← sq_abs]; exact pow_le_pow_left₀ (abs_nonneg _) c1 2
    have s2 : (y2 - s3P 1) ^ 2 ≤ 0.018 ^ 2 := by rw [← sq_abs]; exact pow_le_pow_left₀ (abs_nonneg _) c2 2
    rw [show (0.02 : ℝ) = Real.sqrt (0.02 ^ 2) by rw [Real.sqrt_sq (by norm_num)]]
    apply Real.sqrt_lt_sqrt (by positivity)
    norm_num at s1 s2 ⊢
    linarith

/-- the declared point is feasible -/
theorem C10_strongin_declared_feasible : S3Feasible (s3P 0) (s3P 1) := by
  rw [s3P_eq.1, s3P_eq.2]; exact (s3Feasible_iff pR pR).2 p_feasible

/-- … but it is not a global minimiser: a feasible point with a strictly smaller value exists -/
theorem C10_strongin_declared_not_minimiser :
    ∃ x1 x2 : ℝ, S3Feasible x1 x2 ∧ f x1 x2 < f (s3P 0) (s3P 1) := by
  rw [s3P_eq.1, s3P_eq.2]
  exact ⟨w1, w2, (s3Feasible_iff w1 w2).2 w_feasible, f_w_lt_f_p⟩

/-! ### non-vacuity -/

/-- the feasible set is non-empty: the witness `w = (63246749/2^26, 130536807/2^26 - 1) ≈ (0.94245, 0.94515)` is
feasible and satisfies the hypotheses of (G); its value is below the declared one (so the bound of (G) is used) -/
example : S3Feasible w1 w2 ∧ s3V - 2e-3 * max 1 |s3V| ≤ f w1 w2 ∧ f w1 w2 < f (s3P 0) (s3P 1) := by
  have hw : S3Feasible w1 w2 := (s3Feasible_iff w1 w2).2 w_feasible
  refine ⟨hw, C10_strongin_global w1 w2 hw, ?_⟩
  rw [s3P_eq.1, s3P_eq.2]; exact f_w_lt_f_p

/-- the hypotheses of `C10_strongin_location_g1only` are satisfiable (by the witness itself) -/
example : |w1 - s3P 0| ≤ 0.008 ∧ |w2 - s3P 1| ≤ 0.018 := by
  have hw : S3Feasible w1 w2 := (s3Feasible_iff w1 w2).2 w_feasible
  exact C10_strongin_location_g1only w1 w2 hw.1 hw.2.1 hw.2.2.1 hw.2.2.2.1 hw.2.2.2.2.2.1 le_rfl

end C10
