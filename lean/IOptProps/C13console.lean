import IOptProofs.ConsoleInterp
import IOptProofs.ReportInterp
/-!
# C13 (console clause) — the console listener's reports show the fields of the solution it is handed

"… and the console listener's final report shows the solution's actual trial counts, point, value and accuracy."

`IOptGen/ConsoleSrc.lean` is regenerated on every run from the SOURCE TEXT of `iOpt/method/listener.py` and
`iOpt/output_system/console/console_output.py`.  `IOptProofs/ConsoleInterpDefs.lean` gives the generated statement trees and `print`
lists a semantics with SYMBOLIC values: the arguments of a callback are opaque objects, a printed datum is a `FieldRef` (WHICH field of
WHICH argument), a printed line is `Line.field label what fmt`; `entries` drops decoration (rules, headings) and formats;
`shownEntries a` reads the references against the data `a : Args V P` handed to the callback (`a.solution : SolutionView V P`,
`a.status`, point and value of `savedNewPoints[0]`).  `genProg` is the program made of the generated trees.

What is proved is which field is shown under which label and in which order, by which callback, on which call.  NOT modelled:
Python's `str.format` rendering (padding, `.8f` rounding, `str(list)`), the layout arithmetic (`dim`, `width=`, `end=`), `sys.stdout`.
The strings interpreted (trusted base) are the tables of `ConsoleInterpDefs.lean`.

The listener's object state: `Started mode n k h` says that in the attribute store `h` the listener has mode `mode`, period
`iters = n`, and a `FunctionConsoleFullOutput` with a `ConsoleOutputer` whose counter `self.iterNum` is `k`; this is what
`BeforeMethodStart` leaves with `k = 1` (`beforeMethodStart_run`) and what every `OnEndIteration` preserves, incrementing `k`.

Remarks (each is a `stuck` example in `IOptProofs/ConsoleInterp.lean` and was reproduced on the Python code):
* a console listener attached after the first iteration is never told `BeforeMethodStart`; `self.__fcfo` stays `None` and
  `OnMethodStop` raises `AttributeError` out of `Solve` - hence the hypothesis `Started`;
* mode `'custom'` with `iters = 0` raises `ZeroDivisionError` in the first `OnEndIteration`; inside `Solve` it is swallowed by
  `except BaseException` ("Exception was thrown") and the search ends after one trial - hence the hypothesis `n ≠ 0`;
* the counter `self.iterNum` counts NOTIFICATIONS (calls of `DoGlobalIteration`), not trials, and mode `'full'` shows only
  `savedNewPoints[0]`: after `DoGlobalIteration(3)` one line, numbered 1, with the first of the three new trials;
* the `status` argument reaches `printResult` (parameter `solved`) but the line showing it is commented out in the source.
-/

namespace C13
open ConsoleInterp

/-- the (label, field) pairs of the final report -/
def finalFields : List (String × FieldRef) :=
  [("global iteration count: ", .nGlobal), ("local iteration count: ", .nLocal), ("solving time: ", .time),
   ("solution point: ", .point), ("solution value: ", .value), ("accuracy: ", .accuracy)]

/-- the (label, field) pairs of the best-point block of mode `'custom'` printed when the counter is `k` -/
def bestFields (k : Nat) : List (String × FieldRef) :=
  [("current iteration # ", .num k), ("global iteration count: ", .nGlobal), ("local iteration count: ", .nLocal),
   ("current best point: ", .point), ("current best value: ", .value), ("currant accuracy: ", .accuracy)]

/-- **C13, the final report shows the solution handed over.**  On a listener that has been told `BeforeMethodStart` (any mode, any
period, any counter, anything printed before), `OnMethodStop(searchData, solution, status)` - the generated trees of
`ConsoleFullOutputListener.OnMethodStop`, `FunctionConsoleFullOutput.printFinalResult` and the `print` list of
`ConsoleOutputer.printResult` - appends to the output a block `report` and changes nothing else; the block consists of decoration
lines and, in this order, the six labelled lines of `finalFields`, each field read from the `solution` ARGUMENT of the callback
(the block does not depend on the object state, so not on any earlier solution); read against the data handed over, it shows
`s.nGlobal`, `s.nLocal`, `s.time`, `s.point`, `s.value`, `s.accuracy` of that solution `s = a.solution`.  (The `status` argument is
passed down to `printResult` but not printed.) -/
theorem C13_final_report_fields {V P : Type} {mode : String} {n k : Nat} (st : St) (hS : Started mode n k st.heap)
    (a : Args V P) :
    onMethodStop genProg st = some { st with out := st.out ++ finalReport } ∧
    entries finalReport = finalFields ∧
    shownEntries a finalReport =
      [("global iteration count: ", .nat a.solution.nGlobal), ("local iteration count: ", .nat a.solution.nLocal),
       ("solving time: ", .val a.solution.time), ("solution point: ", .pt a.solution.point),
       ("solution value: ", .val a.solution.value), ("accuracy: ", .val a.solution.accuracy)] :=
  ⟨onMethodStop_started st hS, entries_finalReport, shown_finalReport a⟩

/-- the state of `C13_final_report_fields` is reached by every life of a listener: constructed in any mode (for `'custom'` with a
period `≠ 0`), told `BeforeMethodStart`, then any number `j` of `OnEndIteration`: the final report follows, whatever was printed -/
theorem C13_final_report_after_run (mode : String) (n j : Nat) (hn : mode = "custom" → n ≠ 0) :
    ∃ st0 st1 st2, newListener genProg mode n = some st0 ∧ beforeMethodStart genProg st0 = some st1 ∧
      onEndIterations genProg j st1 = some st2 ∧
      onMethodStop genProg st2 = some { st2 with out := st2.out ++ finalReport } := by
  have hS := started_startedHeap mode n 1
  have key : ∃ st2, onEndIterations genProg j { heap := startedHeap mode n 1, out := [] ++ initReport } = some st2 ∧
      onMethodStop genProg st2 = some { st2 with out := st2.out ++ finalReport } := by
    by_cases hc : mode = "custom"
    · subst hc
      obtain ⟨st2, h2, hS2, -⟩ := onEndIterations_custom (hn rfl) 1 { heap := startedHeap "custom" n 1, out := [] ++ initReport } hS j
      exact ⟨st2, h2, onMethodStop_started st2 hS2⟩
    · by_cases hf : mode = "full"
      · subst hf
        obtain ⟨st2, h2, hS2, -⟩ := onEndIterations_full 1 { heap := startedHeap "full" n 1, out := [] ++ initReport } hS j
        exact ⟨st2, h2, onMethodStop_started st2 hS2⟩
      · exact ⟨_, onEndIterations_other hf hc { heap := startedHeap mode n 1, out := [] ++ initReport } hS j,
          onMethodStop_started _ hS⟩
  obtain ⟨st2, h2, h3⟩ := key
  exact ⟨_, _, st2, newListener_run mode n, beforeMethodStart_run mode n [], h2, h3⟩

/-- non-vacuity: a started listener, and a whole life in mode `'custom'` -/
example : Started "result" 100 1 (startedHeap "result" 100 1) := started_startedHeap _ _ _
example := C13_final_report_after_run "custom" 3 10 (fun _ => by decide)

/-- **C13, mode `'custom'`: every `iters`-th notification prints the best-point block, numbered by the call.**  A listener
constructed with mode `'custom'` and period `n ≠ 0` and told `BeforeMethodStart`: the `k`-th `OnEndIteration(savedNewPoints, solution)`
(`k ≥ 1`; the first `k - 1` are run before) appends a block that is empty unless `n ∣ k`, and for `n ∣ k` consists of the labelled
lines of `bestFields k` and one rule: "current iteration # " is `k`, the other five fields are read from the `solution` ARGUMENT of
THIS call.  (The label of the accuracy line is spelled "currant accuracy: " in the source.) -/
theorem C13_custom_report_fields {V P : Type} (n : Nat) (hn : n ≠ 0) (k : Nat) (hk : 1 ≤ k) (a : Args V P) :
    ∃ st0 st1 st2 block,
      (newListener genProg "custom" n).bind (beforeMethodStart genProg) = some st0 ∧
      onEndIterations genProg (k - 1) st0 = some st1 ∧
      onEndIteration genProg st1 = some st2 ∧
      st2.out = st1.out ++ block ∧
      (¬ n ∣ k → block = []) ∧
      (n ∣ k → entries block = bestFields k ∧
        shownEntries a block =
          [("current iteration # ", .nat k), ("global iteration count: ", .nat a.solution.nGlobal),
           ("local iteration count: ", .nat a.solution.nLocal), ("current best point: ", .pt a.solution.point),
           ("current best value: ", .val a.solution.value), ("currant accuracy: ", .val a.solution.accuracy)]) := by
  obtain ⟨st1, h1, hS1, -⟩ :=
    onEndIterations_custom hn 1 { heap := startedHeap "custom" n 1, out := initReport } (started_startedHeap _ _ _) (k - 1)
  have hk1 : 1 + (k - 1) = k := by omega
  rw [hk1] at hS1
  refine ⟨_, st1, _, customOut n k, start_run "custom" n, h1, onEndIteration_custom hn st1 hS1, rfl, ?_, ?_⟩
  · intro hd
    have : ¬ k % n = 0 := fun h => hd (Nat.dvd_of_mod_eq_zero h)
    simp only [customOut, this, ↓reduceIte]
  · intro hd
    simp only [customOut, Nat.mod_eq_zero_of_dvd hd, ↓reduceIte]
    exact ⟨entries_bestLines k, shown_bestLines a k⟩

/-- non-vacuity: period 2, the 4th notification -/
example := C13_custom_report_fields (V := Nat) (P := Nat) 2 (by decide) 4 (by decide)
  { solution := { nGlobal := 7, nLocal := 0, time := 1, accuracy := 2, value := 3, point := 4 }, status := true,
    newPoint := 5, newValue := 6 }

/-- **C13, mode `'full'`: one line per notification.**  A listener constructed with mode `'full'` and told `BeforeMethodStart`: the
`k`-th `OnEndIteration(savedNewPoints, solution)` appends the pieces of one line: the number `k`, then the value and the point of
`savedNewPoints[0]` (the FIRST of the new trials of the call). -/
theorem C13_full_iteration_line {V P : Type} (n : Nat) (k : Nat) (hk : 1 ≤ k) (a : Args V P) :
    ∃ st0 st1 st2 block,
      (newListener genProg "full" n).bind (beforeMethodStart genProg) = some st0 ∧
      onEndIterations genProg (k - 1) st0 = some st1 ∧
      onEndIteration genProg st1 = some st2 ∧
      st2.out = st1.out ++ block ∧
      entries block = [("", .num k), ("", .newValue), ("", .newPoint)] ∧
      shownEntries a block = [("", .nat k), ("", .val a.newValue), ("", .pt a.newPoint)] := by
  obtain ⟨st1, h1, hS1, -⟩ :=
    onEndIterations_full 1 { heap := startedHeap "full" n 1, out := initReport } (started_startedHeap _ _ _) (k - 1)
  have hk1 : 1 + (k - 1) = k := by omega
  rw [hk1] at hS1
  exact ⟨_, st1, _, iterLines .newPoint .newValue (.num k), start_run "full" n, h1, onEndIteration_full st1 hS1, rfl,
    entries_iterLines k, shown_iterLines a k⟩

example := C13_full_iteration_line (V := Nat) (P := Nat) 100 3 (by decide)
  { solution := { nGlobal := 7, nLocal := 0, time := 1, accuracy := 2, value := 3, point := 4 }, status := true,
    newPoint := 5, newValue := 6 }

/-- **C13, modes other than `'full'` and `'custom'`** (`'result'` in particular): `OnEndIteration` prints nothing and changes nothing -/
theorem C13_result_mode_silent {mode : String} {n k : Nat} (hf : mode ≠ "full") (hc : mode ≠ "custom") (st : St)
    (hS : Started mode n k st.heap) : onEndIteration genProg st = some st :=
  onEndIteration_other hf hc st hS

example := C13_result_mode_silent (mode := "result") (by decide) (by decide) { heap := startedHeap "result" 100 1 }
  (started_startedHeap "result" 100 1)

/-! ### whose solution it is: the reported trial of `GetResults()` -/

section reported
open AGP Proc
variable {α : Type} [Add α] [Sub α] [Mul α] [Div α] [Neg α] [LT α] [LE α]
  [DecidableLT α] [DecidableLE α] [OfNat α 0] [OfNat α 1] [OfNat α 2] [OfNat α 4] [Fns α]

/-- the call site of the final notification in the generated tree of `Process.Solve` -/
def stopSite : String × List String := ("listener.OnMethodStop", ["self.searchData", "self.GetResults()", "status"])

/-- the call site of the per-call notification in the generated tree of `Process.DoGlobalIteration` -/
def endSite : String × List String := ("listener.OnEndIteration", ["savedNewPoints", "self.GetResults()"])

/-- what THE `Solution` object shows when the method state is `s`, `numberOfLocalTrials` is `ps.nLocal`, the trial `it` is stored in
the slot `bestTrials[0]` and `solvingTime` holds `time` (not part of the model): the reading of the model's fields documented in
`IOptModel/Method.lean` / `Process.lean` (`nTrials` = `numberOfGlobalTrials`, `minDelta` = `solutionAccuracy` with `none` = `inf`,
`hv` = the content of the value holder `functionValues[0].value`) -/
def solutionView (ps : PState α) (s : State α) (it : Item α) (time : Option α) : SolutionView (Option α) (List α) :=
  { nGlobal := s.nTrials, nLocal := ps.nLocal, time := time, accuracy := s.minDelta, value := some it.hv, point := it.point }

/-- **C13, the solution reported on the console is the reported trial.**  Composition with the ties of `process.py`
(`IOptProofs/ProcInterp.lean`, `ReportInterp.lean`).  What is PROVED:

(a) in the generated trees of `process.py` the notifications are issued exactly at `stopSite` (the only one in `Solve`) and at
    `listener.BeforeMethodStart(self.method)`, `endSite` (the only ones in `DoGlobalIteration`); at both `stopSite` and `endSite` the
    expression bound (positionally) to the parameter `solution` of the callback is `self.GetResults()`;
(b) that expression, interpreted through the generated tree of `Process.GetResults` (`ReportInterp.getResults_src`) in any state
    `ps` after the first iteration whose stored ids resolve and whose slot `bestTrials[0]` holds `Method.best` or the reported
    trial, returns THE `Solution` object with the slot on `Proc.reportedId ps s`, the model state unchanged; that trial `it` is stored;
(c) the notification issued at `stopSite` on a started console listener prints `finalReport`, which - read against the view
    `solutionView ps s it time` of that object - shows `s.nTrials`, `ps.nLocal`, the time, `it.point`, `it.hv`, `s.minDelta`:
    trial counts, point, value holder and accuracy of the model's reported trial.

What is DEFINITION, not theorem: that the opaque value `Val.solution` handed to the callback stands for the object returned by the
argument expression (`ConsoleInterp.siteArgs` maps `"self.GetResults()"` to it), and the reading `solutionView` of that object's
fields from the model state. -/
theorem C13_report_is_reported_trial (c : ReportInterp.Ctx α) (depth : Nat) (ints : List (String × Int)) (ps : PState α)
    (s : State α) (slot : Nat) (hm : ps.m = some s) (hres : ReportInterp.Resolved ps s)
    (hslot : slot = s.best ∨ slot = reportedId ps s)
    {mode : String} {n k : Nat} (st : St) (hS : Started mode n k st.heap) (time : Option α) (status : Bool)
    (np : List α) (nv : Option α) :
    (sitesList Gen.ProcSrc.solve = [stopSite] ∧
      sitesList Gen.ProcSrc.doGlobalIteration = [("listener.BeforeMethodStart", ["self.method"]), endSite] ∧
      siteArgFor stopSite "solution" = some "self.GetResults()" ∧ siteArgFor endSite "solution" = some "self.GetResults()") ∧
    ReportInterp.run c depth Gen.ProcSrc.getResults ints ⟨ps, slot⟩ = .done ⟨ps, reportedId ps s⟩ (some .solution) ∧
    ∃ it, findItem s.items (reportedId ps s) = some it ∧
      notify genProg stopSite st = some { st with out := st.out ++ finalReport } ∧
      shownEntries { solution := solutionView ps s it time, status := status, newPoint := np, newValue := nv } finalReport =
        [("global iteration count: ", .nat s.nTrials), ("local iteration count: ", .nat ps.nLocal),
         ("solving time: ", .val time), ("solution point: ", .pt it.point),
         ("solution value: ", .val (some it.hv)), ("accuracy: ", .val s.minDelta)] := by
  refine ⟨⟨sites_solve, sites_doGlobalIteration, site_solution_arg.1, site_solution_arg.2⟩,
    ReportInterp.getResults_src c depth ints ps s slot hm hres hslot, ?_⟩
  obtain ⟨it, hit⟩ := Option.isSome_iff_exists.1 hres.reported
  exact ⟨it, hit, (notify_stop st).trans (onMethodStop_started st hS), rfl⟩

/-- the same for the best-point block of mode `'custom'`: the notification issued at `endSite` when the counter `k` is a multiple
of the period shows, besides `k`, the data of the reported trial of the state in which `self.GetResults()` is evaluated -/
theorem C13_custom_is_reported_trial (c : ReportInterp.Ctx α) (depth : Nat) (ints : List (String × Int)) (ps : PState α)
    (s : State α) (slot : Nat) (hm : ps.m = some s) (hres : ReportInterp.Resolved ps s)
    (hslot : slot = s.best ∨ slot = reportedId ps s)
    {n k : Nat} (hn : n ≠ 0) (hd : n ∣ k) (st : St) (hS : Started "custom" n k st.heap) (time : Option α) (status : Bool)
    (np : List α) (nv : Option α) :
    ReportInterp.run c depth Gen.ProcSrc.getResults ints ⟨ps, slot⟩ = .done ⟨ps, reportedId ps s⟩ (some .solution) ∧
    ∃ it block st', findItem s.items (reportedId ps s) = some it ∧
      notify genProg endSite st = some st' ∧ st'.out = st.out ++ block ∧
      shownEntries { solution := solutionView ps s it time, status := status, newPoint := np, newValue := nv } block =
        [("current iteration # ", .nat k), ("global iteration count: ", .nat s.nTrials),
         ("local iteration count: ", .nat ps.nLocal), ("current best point: ", .pt it.point),
         ("current best value: ", .val (some it.hv)), ("currant accuracy: ", .val s.minDelta)] := by
  refine ⟨ReportInterp.getResults_src c depth ints ps s slot hm hres hslot, ?_⟩
  obtain ⟨it, hit⟩ := Option.isSome_iff_exists.1 hres.reported
  refine ⟨it, customOut n k, _, hit, (notify_end st).trans (onEndIteration_custom hn st hS), rfl, ?_⟩
  simp only [customOut, Nat.mod_eq_zero_of_dvd hd, ↓reduceIte]
  rfl

end reported

/-- **… on every reachable state.**  After any sequence of `DoGlobalIteration(k)` / `Solve` calls on a fresh solver (over an ordered
field; objective never raises, refinements obey the Nelder-Mead contract) that has made the first iteration, with the slot as
`UpdateOptimum` or a previous `GetResults()` left it: `self.GetResults()` at the call site returns the solution with the slot on
the model's reported trial, and the final report of a started console listener shows that trial's data. -/
theorem C13_report_is_reported_trial_reachable {α : Type} [Field α] [LinearOrder α] [IsStrictOrderedRing α] [Fns α]
    (p : AGP.Params α) (f : Nat → List α → Option α) (refine : Proc.PState α → Option (Proc.LocalResult α))
    (hL : FnsLaws α) (hr : 1 < p.r) (hn : 0 < p.n) (htot : ∀ k pt, f k pt ≠ none) (href : Proc.RefineLe refine)
    (ops : List Proc.Op) (s : AGP.State α) (hm : (Proc.runOps p f refine ops {}).m = some s)
    (c : ReportInterp.Ctx α) (depth : Nat) (ints : List (String × Int)) (slot : Nat)
    (hslot : slot = s.best ∨ slot = Proc.reportedId (Proc.runOps p f refine ops {}) s)
    {mode : String} {n k : Nat} (st : St) (hS : Started mode n k st.heap) (time : Option α) (status : Bool)
    (np : List α) (nv : Option α) :
    ReportInterp.run c depth Gen.ProcSrc.getResults ints ⟨Proc.runOps p f refine ops {}, slot⟩ =
      .done ⟨Proc.runOps p f refine ops {}, Proc.reportedId (Proc.runOps p f refine ops {}) s⟩ (some .solution) ∧
    ∃ it, AGP.findItem s.items (Proc.reportedId (Proc.runOps p f refine ops {}) s) = some it ∧
      notify genProg stopSite st = some { st with out := st.out ++ finalReport } ∧
      shownEntries { solution := solutionView (Proc.runOps p f refine ops {}) s it time, status := status,
                     newPoint := np, newValue := nv } finalReport =
        [("global iteration count: ", .nat s.nTrials),
         ("local iteration count: ", .nat (Proc.runOps p f refine ops {}).nLocal),
         ("solving time: ", .val time), ("solution point: ", .pt it.point),
         ("solution value: ", .val (some it.hv)), ("accuracy: ", .val s.minDelta)] :=
  (C13_report_is_reported_trial c depth ints _ s slot hm
    (ReportInterp.resolved_reachable p f refine hL hr hn htot href ops s hm) hslot st hS time status np nv).2

section
attribute [local instance] Fns.real

/-- non-vacuity of the hypotheses of `C13_report_is_reported_trial_reachable` (over `ℝ`: `N = 1`, `r = 2`, the zero objective, no
refinement, one `DoGlobalIteration(1)`) -/
example : ∃ (p : AGP.Params ℝ) (f : Nat → List ℝ → Option ℝ) (s : AGP.State ℝ),
    (Proc.runOps p f (fun _ => none) [.iter 1] {}).m = some s ∧ FnsLaws ℝ ∧ 1 < p.r ∧ 0 < p.n ∧
    (∀ k pt, f k pt ≠ none) ∧ Proc.RefineLe (fun _ : Proc.PState ℝ => none) :=
  ⟨{ n := 1, r := 2, eps := 1/100, itersLimit := 5, image := fun x => [x] }, fun _ _ => some 0, _, rfl, FnsLaws.real,
    by norm_num, by norm_num, fun _ _ => by simp, fun _ _ _ _ h => by cases h⟩
end

open ProcToy in
/-- non-vacuity (`ProcToy` over `ℚ`, the state of `ReportInterp.Examples`: `Solve` with refinement, then three more iterations;
`Method.best` is trial 9, the reported trial is the refined trial 6): the hypotheses hold -/
example := C13_report_is_reported_trial ReportInterp.Examples.C 0 [] ReportInterp.Examples.PS1 ReportInterp.Examples.S1 9
  ReportInterp.Examples.hm1 ReportInterp.Examples.res1 (.inl (by decide +kernel))
  { heap := startedHeap "result" 100 1 } (started_startedHeap "result" 100 1) none true [] none

open ProcToy in
example := C13_custom_is_reported_trial ReportInterp.Examples.C 0 [] ReportInterp.Examples.PS1 ReportInterp.Examples.S1 9
  ReportInterp.Examples.hm1 ReportInterp.Examples.res1 (.inl (by decide +kernel)) (n := 2) (k := 4) (by decide) (by decide)
  { heap := startedHeap "custom" 2 4 } (started_startedHeap "custom" 2 4) none true [] none

end C13
