import IOptProofs.ProblemCtorInterp
/-!
# C18, open families: the SOURCE constructors of `Rastrigin(n)` / `XSquared(n)` declare well-formed metadata for EVERY `n`

`Gen.ProblemCtors.rastrigin_init` / `xSquared_init` are the statement trees of the two constructors, regenerated from the source
text of `iOpt/problems/rastrigin.py` / `xsquared.py` on every run.  `PCInterp.declares tree args arg0 arg1`
(`IOptProofs/ProblemCtorInterpDefs.lean`) runs such a tree (generic interpreter, strings are opaque keys of small tables, `super(…).__init__()`
runs the generated tree of `Problem.__init__`) and reads the metadata row off the constructed object: the family code from `self.name`,
`arg0` / `arg1` (the constructor arguments the table records) from outside, the numeric literals through the five-entry table `dyTable`.
`IOptProofs/ProblemCtorInterp.lean` proves, by induction over the `for` loop and `fill`, that the row is the model's
`rastriginMeta n` / `xsquaredMeta n` for every `n`; here this is combined with `C18_meta_open` (`MetaWF`).
For `n = 0` the real constructors succeed too (`np.ndarray(shape=0)`, empty loops) and give empty vectors: the vector clauses of `MetaWF`
hold vacuously; a negative `n` makes `np.ndarray` raise `ValueError`, no object is built.
-/

namespace C18
open Gen Gen.ProcSrc Gen.ProblemCtors BenchMeta PCInterp

/-- **C18, `Rastrigin(n)`, from the source.** For every `n`, the interpreted source constructor `Rastrigin.__init__(dimension = n)`
declares the row `rastriginMeta n` (family 5, box `[-2.2, 1.8]^n`, one objective, no constraints, one known optimum: value 0 at the
origin). -/
theorem C18_ctor_rastrigin_row (n : Nat) :
    declares rastrigin_init [("dimension", .int n)] n 0 = some (rastriginMeta n) := rastrigin_init_src n

/-- **C18, `XSquared(n)`, from the source.** For every `n`, `XSquared.__init__(dimension = n)` declares `xsquaredMeta n`
(family 6, box `[-1, 1]^n`, optimum value 0 at the origin). -/
theorem C18_ctor_xsquared_row (n : Nat) :
    declares xSquared_init [("dimension", .int n)] n 0 = some (xsquaredMeta n) := xsquared_init_src n

/-- **C18 for every `Rastrigin(n)`.** The source constructor declares a row, and the row is well-formed: dimension =
`numberOfFloatVariables` = number of names = lengths of the bound vectors and of the optimum point, `lower_i < upper_i`,
`lower_i ≤ optimum_i ≤ upper_i`, exactly one objective and one known optimum. -/
theorem C18_ctor_rastrigin (n : Nat) :
    ∃ r, declares rastrigin_init [("dimension", .int n)] n 0 = some r ∧ MetaWF r :=
  ⟨rastriginMeta n, rastrigin_init_src n, rastriginMeta_wf n⟩

/-- **C18 for every `XSquared(n)`.** -/
theorem C18_ctor_xsquared (n : Nat) :
    ∃ r, declares xSquared_init [("dimension", .int n)] n 0 = some r ∧ MetaWF r :=
  ⟨xsquaredMeta n, xsquared_init_src n, xsquaredMeta_wf n⟩

/-- the names array really is filled: cell `i` holds `i`, for every `n` (the row only records its length) -/
theorem C18_ctor_names (n : Nat) :
    (run rastrigin_init [("dimension", .int n)]).bind (lookup · "self.floatVariableNames") = some (.arr ((List.range n).map .int)) ∧
    (run xSquared_init [("dimension", .int n)]).bind (lookup · "self.floatVariableNames") = some (.arr ((List.range n).map .int)) := by
  rw [rastrigin_run, xsquared_run]
  simp [F, G, lookup]

/-! ### non-vacuity: the interpreter runs (kernel evaluation, no use of the theorems above) -/

example : declares rastrigin_init [("dimension", .int 1)] 1 0 = some (rastriginMeta 1) := by decide +kernel
example : declares rastrigin_init [("dimension", .int 3)] 3 0 = some (rastriginMeta 3) := by decide +kernel
example : declares xSquared_init [("dimension", .int 1)] 1 0 = some (xsquaredMeta 1) := by decide +kernel
example : declares xSquared_init [("dimension", .int 3)] 3 0 = some (xsquaredMeta 3) := by decide +kernel
/-- `n = 0`: empty vectors -/
example : (declares rastrigin_init [("dimension", .int 0)] 0 0).map (fun r => (r.dimension, r.lower, r.nOptima)) = some (0, [], 1) := by
  decide +kernel
/-- the row for `n = 3` is the row the metadata table has (read from the running class) -/
example : (rastriginMeta 3).lower = [dyM2_2, dyM2_2, dyM2_2] ∧ (rastriginMeta 3).nNames = 3 := by decide +kernel

/-! ### sensitivity: edited trees (the interpreter reads the tree) -/

/-- replace statement `i` of a tree -/
def patch (tree : List Stmt) (i : Nat) (s : Stmt) : List Stmt := tree.set i s

/-- bounds swapped (`lowerBound.fill(1.8)`, `upperBound.fill(-2.2)`): a row, but not the model row (and not well-formed) -/
example : let t := (patch (patch rastrigin_init 10 (.call [] "self.lowerBoundOfFloatVariables.fill" ["1.8"])) 12
      (.call [] "self.upperBoundOfFloatVariables.fill" ["-2.2"]))
    (declares t [("dimension", .int 2)] 2 0).isSome = true ∧ declares t [("dimension", .int 2)] 2 0 ≠ some (rastriginMeta 2) ∧
    (declares t [("dimension", .int 2)] 2 0).map (fun r => BenchMeta.metaOK r) = some false := by decide +kernel

/-- `pointfv.fill(5)`: `5` is not a literal of `dyTable` → nothing is declared -/
example : declares (patch rastrigin_init 15 (.call [] "pointfv.fill" ["5"])) [("dimension", .int 2)] 2 0 = none := by
  decide +kernel

/-- the names loop over `range(self.dimension - 1)`: the ARRAY still has `n` cells (`np.ndarray(shape=n)`), so `len(floatVariableNames)`
and hence the row do not change; what changes is the content: the last cell is never assigned (`C18_ctor_names` fails for this tree) -/
example : let t := patch rastrigin_init 8 (.forRange "i" "self.dimension - 1" [.assign "self.floatVariableNames[i]" "i"])
    (run t [("dimension", .int 3)]).bind (lookup · "self.floatVariableNames") = some (.arr [.int 0, .int 1, .unset]) := by
  rfl

/-- the names array allocated with `shape=1` instead of `shape=self.dimension`: for `n = 3` the loop hits an `IndexError` → nothing
is declared; for `n = 1` nothing changes -/
example : let t := patch rastrigin_init 7 (.call ["self.floatVariableNames"] "np.ndarray" ["shape=1", "dtype=str"])
    declares t [("dimension", .int 3)] 3 0 = none ∧ declares t [("dimension", .int 1)] 1 0 = some (rastriginMeta 1) := by
  decide +kernel

/-- `self.dimension = 1` (a literal) while `numberOfFloatVariables = dimension`: called with 3, a row with `dimension = nNames = 1`
but `nFloat = 3`, not well-formed -/
example : let t := patch rastrigin_init 2 (.assign "self.dimension" "1")
    (declares t [("dimension", .int 3)] 3 0).map (fun r => (r.dimension, r.nFloat, r.nNames, BenchMeta.metaOK r))
      = some (1, 3, 1, false) := by decide +kernel

/-- `numberOfObjectives = 2` → differs from the model row -/
example : let t := patch xSquared_init 5 (.assign "self.numberOfObjectives" "2")
    (declares t [("dimension", .int 2)] 2 0).map (·.nObjectives) = some 2 ∧
    declares t [("dimension", .int 2)] 2 0 ≠ some (xsquaredMeta 2) := by decide +kernel

/-- without `KOfunV[0].value = 0` the optimum value is never assigned by the tree → nothing is declared -/
example : declares (rastrigin_init.eraseIdx 19) [("dimension", .int 2)] 2 0 = none := by decide +kernel

/-- a statement outside the fragment (`Shekel4`: `KOfunV[0] = self.Calculate(…)`; `Hill`: a table read) → nothing is declared -/
example : run shekel4_init [("function_number", .int 1)] = none ∧ run hill_init [("function_number", .int 1)] = none := by
  decide +kernel

end C18
