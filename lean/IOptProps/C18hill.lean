import IOptProofs.HillSoundProps
import IOptProofs.HillCertAll
/-!
# C18 (table part) for the Hill family: `minHill`, `maxHill`, `lConstantHill`

"The tabulated minimum / maximum values are within 1e-4 of the true extrema over `[0,1]`, the tabulated
locations within 1e-4 of the true extremisers, and the tabulated Lipschitz constant within 0.1 % of the true
one."

`Hill.hillFn i = Prob.hill (aHill[i]) (bHill[i])` over `ℝ`, `Hill.hillFn' i` its derivative
`Σ 2πk (a_k cos 2πkx - b_k sin 2πkx)`.  Certificates as in `C10hill.lean`.
-/

namespace C18

/-- the derivative the theorems talk about -/
example (i : Nat) :
    Hill.hillFn' i = Hill.hf1 (List.zip ((Gen.hillA i).map dyR) ((Gen.hillB i).map dyR)) ∧
    ∀ x, HasDerivAt (Hill.hillFn i) (Hill.hillFn' i x) x :=
  ⟨rfl, fun x => by rw [Hill.hillFn, Hill.hillF_eq]; exact Hill.hasDerivAt_hf _ x⟩

/-- **C18, Hill tables, generic theorem.** If `Hill.hillOK i = true` then all the direct table claims
`Hill.HillClaims` hold for row `i`: values at the tabulated points within `1e-6` of the tabulated values;
`vmin - 1e-4 ≤ f ≤ vmax + 1e-4` on `[0,1]`; points with `f ≤ vmin + 1e-4` within `1/200` of `pmin`, points
with `f ≤ vmin + 1e-6` within `1e-4` of `pmin` (same for the maximum); `|f'| ≤ 1.001·L` on `[0,1]` and
`|f'(w)| ≥ 0.999·L` for some `w ∈ [0,1]`. -/
theorem C18_hill_generic (i : Nat) (h : Hill.hillOK i = true) :
    Hill.HillClaims (Gen.hillA i) (Gen.hillB i) (Gen.hillMinValue i) (Gen.hillMinPoint i)
      (Gen.hillMaxValue i) (Gen.hillMaxPoint i) (Gen.hillLip i) :=
  Hill.hillOK_sound i h

/-- **C18, Hill tables 0..999** (bundled; the clauses are spelled out in `C18_hill_extrema`,
`C18_hill_locations`, `C18_hill_lipschitz`). -/
theorem C18_hill_tables (i : Nat) (hi : i < 1000) :
    Hill.HillC18 (Hill.hillFn i) (Hill.hillFn' i) (dyR (Gen.hillMinValue i)) (dyR (Gen.hillMinPoint i))
      (dyR (Gen.hillMaxValue i)) (dyR (Gen.hillMaxPoint i)) (dyR (Gen.hillLip i)) :=
  (Hill.hillOK_sound i (Hill.hill_all i hi)).c18

/-- **C18, values.** For every shipped Hill function the true minimum and the true maximum over `[0,1]`
exist (are attained), and the tabulated `minHill[i][0]`, `maxHill[i][0]` are within `1e-4` of them. -/
theorem C18_hill_extrema (i : Nat) (hi : i < 1000) :
    (∃ xs, 0 ≤ xs ∧ xs ≤ 1 ∧ (∀ x, 0 ≤ x → x ≤ 1 → Hill.hillFn i xs ≤ Hill.hillFn i x) ∧
      |Hill.hillFn i xs - dyR (Gen.hillMinValue i)| ≤ 1e-4) ∧
    (∃ xs, 0 ≤ xs ∧ xs ≤ 1 ∧ (∀ x, 0 ≤ x → x ≤ 1 → Hill.hillFn i x ≤ Hill.hillFn i xs) ∧
      |Hill.hillFn i xs - dyR (Gen.hillMaxValue i)| ≤ 1e-4) :=
  ⟨(C18_hill_tables i hi).min_exists, (C18_hill_tables i hi).max_exists⟩

/-- **C18, locations.** Every global minimiser over `[0,1]` is within `1e-4` of the tabulated point
`minHill[i][1]`, every global maximiser within `1e-4` of `maxHill[i][1]`; both tabulated points lie in `[0,1]`. -/
theorem C18_hill_locations (i : Nat) (hi : i < 1000) :
    (∀ xs, 0 ≤ xs → xs ≤ 1 → (∀ x, 0 ≤ x → x ≤ 1 → Hill.hillFn i xs ≤ Hill.hillFn i x) →
      |xs - dyR (Gen.hillMinPoint i)| ≤ 1e-4) ∧
    (∀ xs, 0 ≤ xs → xs ≤ 1 → (∀ x, 0 ≤ x → x ≤ 1 → Hill.hillFn i x ≤ Hill.hillFn i xs) →
      |xs - dyR (Gen.hillMaxPoint i)| ≤ 1e-4) ∧
    (0 ≤ dyR (Gen.hillMinPoint i) ∧ dyR (Gen.hillMinPoint i) ≤ 1) ∧
    (0 ≤ dyR (Gen.hillMaxPoint i) ∧ dyR (Gen.hillMaxPoint i) ≤ 1) :=
  ⟨(C18_hill_tables i hi).min_loc, (C18_hill_tables i hi).max_loc,
   (C18_hill_tables i hi).points_in_box.1, (C18_hill_tables i hi).points_in_box.2⟩

/-- **C18, Lipschitz constant.** With `L = lConstantHill[i]`: `1.001·L` is a Lipschitz constant of `f` on
`[0,1]`; no `K < 0.999·L` is one; the maximum of `|f'|` over `[0,1]` is attained and lies in
`[0.999·L, 1.001·L]`. -/
theorem C18_hill_lipschitz (i : Nat) (hi : i < 1000) :
    (∀ x y, 0 ≤ x → x ≤ 1 → 0 ≤ y → y ≤ 1 →
      |Hill.hillFn i x - Hill.hillFn i y| ≤ 1.001 * dyR (Gen.hillLip i) * |x - y|) ∧
    (∀ K, (∀ x y, 0 ≤ x → x ≤ 1 → 0 ≤ y → y ≤ 1 → |Hill.hillFn i x - Hill.hillFn i y| ≤ K * |x - y|) →
      0.999 * dyR (Gen.hillLip i) ≤ K) ∧
    (∃ w, 0 ≤ w ∧ w ≤ 1 ∧ (∀ x, 0 ≤ x → x ≤ 1 → |Hill.hillFn' i x| ≤ |Hill.hillFn' i w|) ∧
      0.999 * dyR (Gen.hillLip i) ≤ |Hill.hillFn' i w| ∧ |Hill.hillFn' i w| ≤ 1.001 * dyR (Gen.hillLip i)) :=
  ⟨(C18_hill_tables i hi).lipschitz, (C18_hill_tables i hi).lip_sharp, (C18_hill_tables i hi).deriv_max⟩

/-- non-vacuity: the certificate of function 999 is `true`; its tabulated maximum is above 4, its tabulated
Lipschitz constant is between 295 and 296 -/
example : Hill.hillOK 999 = true ∧ (Gen.hillMaxValue 999).toRat > 4 ∧
    (Gen.hillLip 999).toRat > 295 ∧ (Gen.hillLip 999).toRat < 296 :=
  ⟨Hill.hill_all 999 (by norm_num), by decide +kernel, by decide +kernel, by decide +kernel⟩

end C18
