import IOptProofs.EvNumAll
import Mathlib.Data.Rat.Floor
import Mathlib.Tactic.NormNum
/-!
# C07 (numeric part): the image of the evolvent lies strictly inside the box, and every point of a
subinterval is mapped to the centre of the same cell.  (worker a2)

Field-level statements about the code's loops (`Ev.imageCube`, `Ev.p2d`), with `int(d)` = natural
floor (`Ev.Num.floorTrunc`).
-/

set_option linter.unusedSectionVars false
namespace Ev
variable {α : Type} [Field α] [LinearOrder α] [IsStrictOrderedRing α] [FloorSemiring α]
attribute [local instance] Ev.Num.floorTrunc

/-- **C07 (box)**: if `lower_i < upper_i` for all `i` and `Y` is an integer vector with
`|Y_i| ≤ 2^m - 1` (a cell centre in units of `2^-(m+1)`), then `__TransformP2D` maps the cube point
`Y / 2^(m+1)` to a point with `n` coordinates, each strictly between `lower_i` and `upper_i`. -/
theorem C07_image_in_box (n m : Nat) (lower upper : List α) (Y : List Int)
    (hl : lower.length = n) (hu : upper.length = n) (hY : Y.length = n)
    (hlt : ∀ i (h1 : i < lower.length) (h2 : i < upper.length), lower[i] < upper[i])
    (hb : ∀ Yi ∈ Y, |Yi| ≤ 2^m - 1) :
    (p2d lower upper (Y.map fun (Yi : Int) => (Yi : α) / 2^(m+1))).length = n ∧
    ∀ i (hp : i < (p2d lower upper (Y.map fun (Yi : Int) => (Yi : α) / 2^(m+1))).length)
      (h1 : i < lower.length) (h2 : i < upper.length),
      lower[i] < (p2d lower upper (Y.map fun (Yi : Int) => (Yi : α) / 2^(m+1)))[i] ∧
      (p2d lower upper (Y.map fun (Yi : Int) => (Yi : α) / 2^(m+1)))[i] < upper[i] := by
  refine ⟨by simp [Num.length_p2d, hl, hu, hY], ?_⟩
  intro i hp h1 h2
  have hy : i < (Y.map fun (Yi : Int) => (Yi : α) / 2^(m+1)).length := by
    simp only [List.length_map]; omega
  rw [Num.getElem_p2d lower upper _ i hp hy h1 h2]
  apply Num.p2d_coord_in _ _ _ (hlt i h1 h2)
  simp only [List.getElem_map]
  exact Num.abs_grid_lt_half _ m (hb _ (List.getElem_mem _))

/-- non-vacuity of `C07_image_in_box`: the box `[-1,2] × [0,3]`, `m = 2`, `Y = (3, -1)`. -/
example : ∀ i (hp : i < (p2d [(-1 : ℚ), 0] [2, 3] ([(3 : Int), -1].map fun (Yi : Int) => (Yi : ℚ) / 2^(2+1))).length)
      (h1 : i < [(-1 : ℚ), 0].length) (h2 : i < [(2 : ℚ), 3].length),
      [(-1 : ℚ), 0][i] < (p2d [(-1 : ℚ), 0] [2, 3] ([(3 : Int), -1].map fun (Yi : Int) => (Yi : ℚ) / 2^(2+1)))[i] ∧
      (p2d [(-1 : ℚ), 0] [2, 3] ([(3 : Int), -1].map fun (Yi : Int) => (Yi : ℚ) / 2^(2+1)))[i] < [(2 : ℚ), 3][i] :=
  (C07_image_in_box 2 2 [(-1 : ℚ), 0] [2, 3] [3, -1] rfl rfl rfl
    (by intro i h1 h2
        have : i = 0 ∨ i = 1 := by simp at h1; omega
        rcases this with rfl | rfl <;> norm_num)
    (by decide)).2

/-- **C07 (cell)**: for `0 ≤ x < 1` and `i = ⌊x·(2^n)^m⌋₊` (the subinterval containing `x`),
`__GetYonX` maps `x` to the centre of cell `i`: `(cubeY n (digitsOf n m i))_k / 2^(m+1)`.
So every point of one subinterval has the same image. -/
theorem C07_image_cell {n : Nat} (hn : Ev.DimOK n) (m : Nat) (x : α) (h0 : 0 ≤ x) (h1 : x < 1) :
    imageCube n m x = (cubeY n (digitsOf n m ⌊x * (2^n)^m⌋₊)).map
      (fun (Y : Int) => (Y : α) / 2^(m+1)) :=
  Num.imageCube_cell hn m x h0 h1

/-- **C07 (end rule)**: for `x ≥ 1` (the code's `x >= 1.0` rule) the image is the centre of the
last cell, the one with all digits `2^n - 1`. -/
theorem C07_image_cell_end {n : Nat} (hn : Ev.DimOK n) (m : Nat) (x : α) (h1 : 1 ≤ x) :
    imageCube n m x = (cubeY n (List.replicate m (2^n - 1))).map
      (fun (Y : Int) => (Y : α) / 2^(m+1)) :=
  Num.imageCube_end hn m x h1

/-- non-vacuity of `C07_image_cell`: `n = 2`, `m = 2`, `x = 3/7` lies in subinterval
`⌊48/7⌋ = 6` of 16, digits `[1, 2]`. -/
example : imageCube 2 2 (3/7 : ℚ) = (cubeY 2 [1, 2]).map (fun (Y : Int) => (Y : ℚ) / 2^(2+1)) := by
  have h := C07_image_cell (α := ℚ) (n := 2) (by decide) 2 (3/7) (by norm_num) (by norm_num)
  have e : ⌊(3/7 : ℚ) * (2^2)^2⌋₊ = 6 := by
    rw [Nat.floor_eq_iff (by norm_num)]; norm_num
  rw [e] at h
  exact h

/-- non-vacuity of `C07_image_cell_end` -/
example : imageCube 2 2 (1 : ℚ) = (cubeY 2 [3, 3]).map (fun (Y : Int) => (Y : ℚ) / 2^(2+1)) :=
  C07_image_cell_end (α := ℚ) (n := 2) (by decide) 2 1 (le_refl _)

/-- **C07 (GetImage stays in the box)**: for `Ev.DimOK N`, bounds with `lower_i < upper_i`, and EVERY
argument `x` (also `x ≥ 1`, the end rule), `GetImage x` has `n` coordinates, each strictly between
`lower_i` and `upper_i`. -/
theorem C07_getImage_in_box {n : Nat} (hn : Ev.DimOK n) (m : Nat) (lower upper : List α)
    (hl : lower.length = n) (hu : upper.length = n)
    (hlt : ∀ i (h1 : i < lower.length) (h2 : i < upper.length), lower[i] < upper[i]) (x : α) :
    (getImage n m lower upper x).length = n ∧
    ∀ i (hp : i < (getImage n m lower upper x).length) (h1 : i < lower.length)
      (h2 : i < upper.length),
      lower[i] < (getImage n m lower upper x)[i] ∧ (getImage n m lower upper x)[i] < upper[i] :=
  Num.getImage_in_box hn m lower upper hl hu hlt x

/-- non-vacuity of `C07_getImage_in_box` -/
example : (getImage 2 3 [(-1 : ℚ), 0] [2, 3] (3/7)).length = 2 :=
  (C07_getImage_in_box (α := ℚ) (n := 2) (by decide) 3 [(-1 : ℚ), 0] [2, 3] rfl rfl
    (by intro i h1 h2
        have : i = 0 ∨ i = 1 := by simp at h1; omega
        rcases this with rfl | rfl <;> norm_num) (3/7)).1

/-- **C07 (N = 1)**: for one variable `GetImage` is the affine map `x ↦ a + x (b - a)`. -/
theorem C07_dim1_image (m : Nat) (a b x : α) : getImage 1 m [a] [b] x = [a + x * (b - a)] := by
  simp only [getImage, imageCube, p2d, Num.half_eq, beq_self_eq_true, if_true, List.zip_cons_cons,
    List.zip_nil_right, List.zipWith_cons_cons, List.zipWith_nil_right, List.cons.injEq, and_true]
  ring

end Ev
