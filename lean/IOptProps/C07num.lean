import IOptProofs.EvNum
import Mathlib.Data.Rat.Floor
import Mathlib.Tactic.NormNum
/-!
# C07 (numeric part): the image of the evolvent lies strictly inside the box, and every point of a
subinterval is mapped to the centre of the same cell.  (worker a2)

Field-level statements about the code's loops (`Ev.imageCube`, `Ev.p2d`), with `int(d)` = natural
floor (`Ev.Num.floorTrunc`).
-/

set_option linter.unusedSectionVars false
namespace Ev
variable {α : Type} [Field α] [LinearOrder α] [IsStrictOrderedRing α] [FloorSemiring α]
attribute [local instance] Ev.Num.floorTrunc

/-- **C07 (box)**: if `lower_i < upper_i` for all `i` and `Y` is an integer vector with
`|Y_i| ≤ 2^m - 1` (a cell centre in units of `2^-(m+1)`), then `__TransformP2D` maps the cube point
`Y / 2^(m+1)` to a point with `n` coordinates, each strictly between `lower_i` and `upper_i`. -/
theorem C07_image_in_box (n m : Nat) (lower upper : List α) (Y : List Int)
    (hl : lower.length = n) (hu : upper.length = n) (hY : Y.length = n)
    (hlt : ∀ i (h1 : i < lower.length) (h2 : i < upper.length), lower[i] < upper[i])
    (hb : ∀ Yi ∈ Y, |Yi| ≤ 2^m - 1) :
    (p2d lower upper (Y.map fun (Yi : Int) => (Yi : α) / 2^(m+1))).length = n ∧
    ∀ i (hp : i < (p2d lower upper (Y.map fun (Yi : Int) => (Yi : α) / 2^(m+1))).length)
      (h1 : i < lower.length) (h2 : i < upper.length),
      lower[i] < (p2d lower upper (Y.map fun (Yi : Int) => (Yi : α) / 2^(m+1)))[i] ∧
      (p2d lower upper (Y.map fun (Yi : Int) => (Yi : α) / 2^(m+1)))[i] < upper[i] := by
  refine ⟨by simp [Num.length_p2d, hl, hu, hY], ?_⟩
  intro i hp h1 h2
  have hy : i < (Y.map fun (Yi : Int) => (Yi : α) / 2^(m+1)).length := by
    simp only [List.length_map]; omega
  rw [Num.getElem_p2d lower upper _ i hp hy h1 h2]
  apply Num.p2d_coord_in _ _ _ (hlt i h1 h2)
  simp only [List.getElem_map]
  exact Num.abs_grid_lt_half _ m (hb _ (List.getElem_mem _))

/-- non-vacuity of `C07_image_in_box`: the box `[-1,2] × [0,3]`, `m = 2`, `Y = (3, -1)`. -/
example : ∀ i (hp : i < (p2d [(-1 : ℚ), 0] [2, 3] ([(3 : Int), -1].map fun (Yi : Int) => (Yi : ℚ) / 2^(2+1))).length)
      (h1 : i < [(-1 : ℚ), 0].length) (h2 : i < [(2 : ℚ), 3].length),
      [(-1 : ℚ), 0][i] < (p2d [(-1 : ℚ), 0] [2, 3] ([(3 : Int), -1].map fun (Yi : Int) => (Yi : ℚ) / 2^(2+1)))[i] ∧
      (p2d [(-1 : ℚ), 0] [2, 3] ([(3 : Int), -1].map fun (Yi : Int) => (Yi : ℚ) / 2^(2+1)))[i] < [(2 : ℚ), 3][i] :=
  (C07_image_in_box 2 2 [(-1 : ℚ), 0] [2, 3] [3, -1] rfl rfl rfl
    (by intro i h1 h2
        have : i = 0 ∨ i = 1 := by simp at h1; omega
        rcases this with rfl | rfl <;> norm_num)
    (by decide)).2

/-- **C07 (N = 1)**: for one variable `GetImage` is the affine map `x ↦ a + x (b - a)`. -/
theorem C07_dim1_image (m : Nat) (a b x : α) : getImage 1 m [a] [b] x = [a + x * (b - a)] := by
  simp only [getImage, imageCube, p2d, Num.half_eq, beq_self_eq_true, if_true, List.zip_cons_cons,
    List.zip_nil_right, List.zipWith_cons_cons, List.zipWith_nil_right, List.cons.injEq, and_true]
  ring

end Ev
