import IOptProofs.HillSoundProps
import IOptProofs.HillCertAll
import IOptProofs.HillSoundMeta
/-!
# C10 for the Hill family (1000 one-dimensional trigonometric polynomials on `[0,1]`)

"The objective at the declared optimum point equals the declared optimum value within 1e-4, no point of the
box has a value lower than the declared one by more than 2e-3*max(1,|f*|), and the declared point lies within
0.5% of the box side of a true global minimiser."

`Hill.hillFn i = Prob.hill (aHill[i]) (bHill[i])` over `ℝ` (exact values of the table doubles).  The Boolean
certificate `Hill.hillOK i` (adaptive bisection of `[0,1]` with third-order Taylor leaf tests in biased
fixed-point arithmetic, `IOptProofs/HillDefs.lean`) is evaluated by the kernel for all 1000 rows
(`IOptProofs/HillCert*.lean`); its soundness over `ℝ` is `Hill.hillOK_sound` (`IOptProofs/HillSound*.lean`).
-/

namespace C10
open BenchMeta

/-- the function the theorems talk about is the model function on the table coefficients -/
example (i : Nat) :
    Hill.hillFn i = Prob.hill ((Gen.hillA i).map dyR) ((Gen.hillB i).map dyR) := Hill.hillFn_def i

/-- **C10, Hill, generic theorem.** If the Boolean certificate `Hill.hillOK i` (computed from the generated
tables `Gen.hillA/B/MinValue/MinPoint/MaxValue/MaxPoint/Lip i` only) evaluates to `true`, then for
`f = Prob.hill` with the (real values of the) coefficients of row `i`, `v` the tabulated minimum value and
`p` the tabulated minimum point: `p ∈ [0,1]`; `|f p - v| ≤ 1e-4`; `f x ≥ v - 2e-3·max(1,|v|)` for all
`x ∈ [0,1]`; and `f p < f x` for all `x ∈ [0,1]` with `|x - p| > 1e-4`.  Moreover `f` is continuous. -/
theorem C10_hill_generic (i : Nat) (h : Hill.hillOK i = true) :
    Hill.HillC10 (Hill.hillFn i) (dyR (Gen.hillMinValue i)) (dyR (Gen.hillMinPoint i)) ∧
    Continuous (Hill.hillFn i) :=
  ⟨(Hill.hillOK_sound i h).c10, Hill.hillF_continuous _ _⟩

/-- **C10, Hill 0..999.** For every shipped Hill function the three clauses hold, and in the words of C10:
a global minimiser on `[0,1]` exists, and EVERY global minimiser is within `0.005` (0.5 % of the box side;
in fact within `1e-4`) of the declared point. -/
theorem C10_hill (i : Nat) (hi : i < 1000) :
    Hill.HillC10 (Hill.hillFn i) (dyR (Gen.hillMinValue i)) (dyR (Gen.hillMinPoint i)) ∧
    (∃ xs, 0 ≤ xs ∧ xs ≤ 1 ∧ ∀ x, 0 ≤ x → x ≤ 1 → Hill.hillFn i xs ≤ Hill.hillFn i x) ∧
    (∀ xs, 0 ≤ xs → xs ≤ 1 → (∀ x, 0 ≤ x → x ≤ 1 → Hill.hillFn i xs ≤ Hill.hillFn i x) →
      |xs - dyR (Gen.hillMinPoint i)| < 0.005) := by
  obtain ⟨h, hc⟩ := C10_hill_generic i (Hill.hill_all i hi)
  obtain ⟨hex, hloc⟩ := h.minimiser hc
  refine ⟨h, hex, fun xs h0 h1 hmin => ?_⟩
  have := hloc xs h0 h1 hmin
  norm_num at this ⊢
  linarith

/-- the three clauses of C10 spelled out for one row (unfolding `Hill.HillC10`) -/
theorem C10_hill_clauses (i : Nat) (hi : i < 1000) :
    (0 ≤ dyR (Gen.hillMinPoint i) ∧ dyR (Gen.hillMinPoint i) ≤ 1) ∧
    |Hill.hillFn i (dyR (Gen.hillMinPoint i)) - dyR (Gen.hillMinValue i)| ≤ 1e-4 ∧
    (∀ x, 0 ≤ x → x ≤ 1 →
      dyR (Gen.hillMinValue i) - 2e-3 * max 1 |dyR (Gen.hillMinValue i)| ≤ Hill.hillFn i x) ∧
    (∀ x, 0 ≤ x → x ≤ 1 → 1e-4 < |x - dyR (Gen.hillMinPoint i)| →
      Hill.hillFn i (dyR (Gen.hillMinPoint i)) < Hill.hillFn i x) :=
  let h := (C10_hill i hi).1
  ⟨h.point_in_box, h.value, h.global, h.location⟩

/-- the optimum that the `Hill(i)` object declares (metadata row `i`, read from the running class) is
exactly the `minHill` table entry used above, and its box is `[0, 1]` -/
theorem C10_hill_declared (i : Nat) (hi : i < 1000) :
    i < Gen.metaRowsPacked.size ∧
    (Gen.metaDecode Gen.metaRowsPacked[i]!).family = 0 ∧
    (Gen.metaDecode Gen.metaRowsPacked[i]!).arg0 = i ∧
    (Gen.metaDecode Gen.metaRowsPacked[i]!).optPoint = [Gen.hillMinPoint i] ∧
    (Gen.metaDecode Gen.metaRowsPacked[i]!).optValue = Gen.hillMinValue i ∧
    (Gen.metaDecode Gen.metaRowsPacked[i]!).lower = [dyZero] ∧
    (Gen.metaDecode Gen.metaRowsPacked[i]!).upper = [dy1] :=
  hill_meta_row i hi

/-- non-vacuity: the certificate of function 0 is `true`; its declared minimum value is below -4.8, the
declared point is about 0.5765 -/
example : Hill.hillOK 0 = true ∧ (Gen.hillMinValue 0).toRat < -48 / 10 ∧
    (Gen.hillMinPoint 0).toRat > 576 / 1000 ∧ (Gen.hillMinPoint 0).toRat < 577 / 1000 :=
  ⟨Hill.hill_all 0 (by norm_num), by decide +kernel, by decide +kernel, by decide +kernel⟩

end C10
