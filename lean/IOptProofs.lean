-- root of the helper-lemma library; one import per file
import IOptProofs.Laws
import IOptProofs.EvBasic
import IOptProofs.EvFin
import IOptProofs.EvFinCert
import IOptProofs.EvInv
import IOptProofs.EvInvFin
import IOptProofs.EvNum
