-- GENERATED root of the regenerated library
import IOptGen.AllocSites
import IOptGen.Dy
import IOptGen.Gkls
import IOptGen.GklsData2
import IOptGen.GklsData3
import IOptGen.GklsData4
import IOptGen.GklsData5
import IOptGen.GrishaginTables
import IOptGen.HillTables
import IOptGen.ListenerSig
import IOptGen.Meta
import IOptGen.MethodSrc
import IOptGen.NodeTable
import IOptGen.SelfCheck
import IOptGen.Shekel4Tables
import IOptGen.ShekelTables
import IOptGen.StronginC3Src
