import IOptModel.Arith
import IOptModel.Evolvent
import IOptModel.EvObj
import IOptModel.SearchData
import IOptModel.Method
import IOptModel.Process
import IOptModel.Problems
