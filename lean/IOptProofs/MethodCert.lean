import IOptProofs.MethodFacts
import Mathlib.Tactic.NormNum
/-!
# Algebraic cores of the C01 certificate and auxiliary lemmas
-/
set_option linter.unusedSectionVars false

section Algebra
variable {α : Type} [Field α] [LinearOrder α] [IsStrictOrderedRing α]

/-- interior interval: characteristic below 2·eps and an (m/2)-Lipschitz minorant give the certificate -/
theorem interior_cert (m Δ zl zr zs eps Fx : α) (hm : 0 < m) (hΔ : 0 < Δ)
    (hR : Δ + (zr - zl)^2 / (m^2 * Δ) - 2 * (zr + zl - 2 * zs) / m < 2 * eps)
    (hF : (zl + zr) / 2 - (m / 4) * Δ ≤ Fx) :
    zs - (m / 2) * eps < Fx := by
  have h1 : 0 ≤ (zr - zl)^2 / (m^2 * Δ) := by positivity
  have h2 : m / 4 * (Δ + (zr - zl)^2 / (m^2 * Δ) - 2 * (zr + zl - 2 * zs) / m) < m / 4 * (2 * eps) :=
    mul_lt_mul_of_pos_left hR (by positivity)
  have h3 : m / 4 * (2 * (zr + zl - 2 * zs) / m) = (zr + zl - 2 * zs) / 2 := by
    field_simp; ring
  have h4 : 0 ≤ m / 4 * ((zr - zl)^2 / (m^2 * Δ)) := by positivity
  nlinarith [h2, h3, h4]

/-- boundary interval: characteristic below 2·eps and the (m/2)-Lipschitz minorant at the evaluated end -/
theorem boundary_cert (m Δ z zs eps Fx : α) (hm : 0 < m)
    (hR : 2 * Δ - 4 * (z - zs) / m < 2 * eps) (hF : z - (m / 2) * Δ ≤ Fx) :
    zs - (m / 2) * eps < Fx := by
  have h2 : m / 4 * (2 * Δ - 4 * (z - zs) / m) < m / 4 * (2 * eps) :=
    mul_lt_mul_of_pos_left hR (by positivity)
  have h3 : m / 4 * (4 * (z - zs) / m) = z - zs := by field_simp
  nlinarith [h2, h3]

/-- chosen interval: its characteristic is below twice its length -/
theorem chosen_small (r M δ zl zr zs : α) (hr : 1 < r) (hM : 0 < M) (hδ : 0 < δ)
    (hslope : |zr - zl| ≤ M * δ) (hl : zs ≤ zl) (hrr : zs ≤ zr) :
    δ + (zr - zl)^2 / ((r*M)^2 * δ) - 2 * (zr + zl - 2 * zs) / (r*M) < 2 * δ := by
  have hr0 : 0 < r := lt_trans one_pos hr
  have hrm : 0 < r * M := by positivity
  have hsq : (zr - zl)^2 ≤ (M*δ)^2 := by
    have := abs_le.mp hslope
    nlinarith [this.1, this.2]
  have h1 : (zr - zl)^2 / ((r*M)^2 * δ) < δ := by
    rw [div_lt_iff₀ (by positivity)]
    have : (M*δ)^2 < δ * ((r*M)^2 * δ) := by
      have : M^2 * δ^2 < r^2 * (M^2 * δ^2) := by
        have hp : 0 < M^2 * δ^2 := by positivity
        have hr2 : 1 < r^2 := by nlinarith
        nlinarith [mul_pos hp (sub_pos.2 hr2)]
      nlinarith [this]
    linarith
  have h2 : 0 ≤ 2 * (zr + zl - 2 * zs) / (r*M) := by
    apply div_nonneg _ hrm.le; linarith
  linarith

/-- chosen boundary interval: its characteristic is at most twice its length -/
theorem chosen_small_boundary (r M δ z zs : α) (hr : 0 < r) (hM : 0 < M) (hz : zs ≤ z) :
    2 * δ - 4 * (z - zs) / (r * M) ≤ 2 * δ := by
  have : 0 ≤ 4 * (z - zs) / (r * M) := by
    apply div_nonneg _ (by positivity); linarith
  linarith

end Algebra
