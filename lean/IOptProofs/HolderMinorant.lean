import IOptProofs.HolderCover
import Mathlib.Analysis.Convex.Mul
/-!
# The Hölder minorant of a Lipschitz objective along the evolvent  (worker h)

`Ev.Kn n = 2^(3-1/n)·√(n+3)` is the reliability constant of C01 and `Ev.gridSlack n m L =
L·√(n+3)·2^-m` the slack.  For an interval `[x_l, x_r] ⊆ [0,1]` with Hölder length `δ ≥ 0`,
`δ^n = x_r - x_l` (this is all that is used of `δ`, so the statements apply to any `n`-th root
function satisfying the laws `FnsLaws`), `F x = f (y x)` with `f` `L`-Lipschitz on the cube, and
`K_n·L ≤ M`:
* `minorant_interior`: `F x ≥ (F x_l + F x_r)/2 - (M/4)·δ - slack`,
* `minorant_left`, `minorant_right`: `F x ≥ F x_l - (M/2)·δ - slack`, resp. with `x_r`.
-/

namespace Ev
attribute [local instance] Ev.Num.floorTrunc

/-- `2^(-1/n)` -/
noncomputable def halfRoot (n : Nat) : ℝ := (2:ℝ) ^ (-(1 / (n:ℝ)))

/-- the reliability constant `K_n = 2^(3-1/n)·√(n+3)` of C01 -/
noncomputable def Kn (n : Nat) : ℝ := (2:ℝ) ^ (3 - 1 / (n:ℝ)) * Real.sqrt (n + 3)

/-- the slack `L·√(n+3)·2^-m` of the minorant -/
noncomputable def gridSlack (n m : Nat) (L : ℝ) : ℝ := L * Real.sqrt (n + 3) / 2^m

theorem halfRoot_pos (n : Nat) : 0 < halfRoot n := Real.rpow_pos_of_pos (by norm_num) _

theorem halfRoot_pow {n : Nat} (hn : n ≠ 0) : (halfRoot n)^n = 1 / 2 := by
  unfold halfRoot
  rw [← Real.rpow_natCast, ← Real.rpow_mul (by norm_num)]
  have : -(1 / (n:ℝ)) * n = -1 := by
    have : (n:ℝ) ≠ 0 := by exact_mod_cast hn
    field_simp
  rw [this, Real.rpow_neg_one]; norm_num

theorem Kn_eq (n : Nat) : Kn n = 8 * halfRoot n * Real.sqrt (n + 3) := by
  unfold Kn halfRoot
  rw [sub_eq_add_neg, Real.rpow_add (by norm_num)]
  have : (2:ℝ)^(3:ℝ) = 8 := by
    rw [show (3:ℝ) = ((3:ℕ):ℝ) by norm_num, Real.rpow_natCast]; norm_num
  rw [this]

/-- `1/2 ≤ 2^(-1/n)` -/
theorem half_le_halfRoot {n : Nat} (hn : n ≠ 0) : 1 / 2 ≤ halfRoot n := by
  have h1 : ((1:ℝ)/2)^n ≤ (halfRoot n)^n := by
    rw [halfRoot_pow hn]
    calc ((1:ℝ)/2)^n ≤ ((1:ℝ)/2)^1 :=
          pow_le_pow_of_le_one (by norm_num) (by norm_num) (Nat.one_le_iff_ne_zero.2 hn)
      _ = 1/2 := by norm_num
  exact (pow_le_pow_iff_left₀ (by norm_num) (halfRoot_pos n).le hn).1 h1

/-- `K_2 = 2^(5/2)·√5 ≈ 12.65 ≤ 18` (used in the non-vacuity examples) -/
theorem Kn_two_le : Kn 2 * 1 ≤ 18 := by
  rw [Kn_eq, mul_one]
  have h1 : halfRoot 2 ≤ 1 := by
    have h := halfRoot_pow (n := 2) (by decide)
    have hp := halfRoot_pos 2
    nlinarith
  have h2 : Real.sqrt ((2:ℕ) + 3) ≤ 9 / 4 := by
    rw [Real.sqrt_le_iff]; constructor <;> norm_num
  have h3 : (0:ℝ) ≤ Real.sqrt ((2:ℕ) + 3) := Real.sqrt_nonneg _
  have h5 : halfRoot 2 * Real.sqrt ((2:ℕ) + 3) ≤ 1 * (9 / 4) := mul_le_mul h1 h2 h3 zero_le_one
  calc 8 * halfRoot 2 * Real.sqrt ((2:ℕ) + 3) = 8 * (halfRoot 2 * Real.sqrt ((2:ℕ) + 3)) := by ring
    _ ≤ 8 * (1 * (9 / 4)) := mul_le_mul_of_nonneg_left h5 (by norm_num)
    _ = 18 := by norm_num

/-- power mean: `((a+b)/2)^n ≤ (a^n + b^n)/2` for `a, b ≥ 0` -/
theorem pow_mean_le {a b : ℝ} (ha : 0 ≤ a) (hb : 0 ≤ b) (n : Nat) :
    ((a + b) / 2)^n ≤ (a^n + b^n) / 2 := by
  have h := (convexOn_pow (𝕜 := ℝ) n).2 (Set.mem_Ici.2 ha) (Set.mem_Ici.2 hb)
    (by norm_num : (0:ℝ) ≤ 1/2) (by norm_num : (0:ℝ) ≤ 1/2) (by norm_num)
  simp only [smul_eq_mul] at h
  calc ((a + b) / 2)^n = (1/2 * a + 1/2 * b)^n := by ring_nf
    _ ≤ 1/2 * a^n + 1/2 * b^n := h
    _ = _ := by ring

/-- concavity of the `n`-th root in root-free form: `a^n + b^n = δ^n ⟹ a + b ≤ 2·2^(-1/n)·δ` -/
theorem add_le_of_pow_add_pow {n : Nat} (hn : n ≠ 0) {a b δ : ℝ} (ha : 0 ≤ a) (hb : 0 ≤ b)
    (hδ : 0 ≤ δ) (h : a^n + b^n = δ^n) : a + b ≤ 2 * halfRoot n * δ := by
  have h1 : ((a + b) / 2)^n ≤ (halfRoot n * δ)^n := by
    rw [mul_pow, halfRoot_pow hn, ← h]
    calc _ ≤ (a^n + b^n) / 2 := pow_mean_le ha hb n
      _ = _ := by ring
  have h2 := (pow_le_pow_iff_left₀ (by positivity) (mul_nonneg (halfRoot_pos n).le hδ) hn).1 h1
  linarith

/-- an `n`-th root exists: for `d ≥ 0` there is `a ≥ 0` with `a^n = d` -/
theorem exists_root {n : Nat} (hn : n ≠ 0) {d : ℝ} (hd : 0 ≤ d) : ∃ a : ℝ, 0 ≤ a ∧ a^n = d :=
  ⟨d ^ (1 / (n:ℝ)), rpow_inv_nonneg n hd, rpow_inv_pow hn hd⟩

section
variable {n : Nat} (hn : Ev.DimOK n) (m : Nat) {f : List ℝ → ℝ} {L : ℝ} (hf : LipCube n f L)
include hn hf

/-- one-sided cone: `F x ≥ F x₀ - 2L√(n+3)·a - slack` whenever `|x - x₀| ≤ a^n` -/
theorem cone_bound {x x₀ a : ℝ} (h0 : 0 ≤ x) (h1 : x ≤ 1) (h0' : 0 ≤ x₀) (h1' : x₀ ≤ 1)
    (ha : 0 ≤ a) (hd : |x₀ - x| ≤ a^n) :
    f (imageCube n m x₀) - 2 * L * Real.sqrt (n + 3) * a - gridSlack n m L ≤
      f (imageCube n m x) := by
  have := lip_along_curve hn m hf h0' h1' h0 h1 ha hd
  have := (abs_le.1 this).2
  unfold gridSlack
  linarith

/-- **minorant on an interval with two evaluated ends** -/
theorem minorant_interior {xl xr x δ M : ℝ} (hl0 : 0 ≤ xl) (hr1 : xr ≤ 1) (hlx : xl ≤ x)
    (hxr : x ≤ xr) (hδ : 0 ≤ δ) (hδn : δ^n = xr - xl) (hM : Kn n * L ≤ M) :
    (f (imageCube n m xl) + f (imageCube n m xr)) / 2 - (M / 4) * δ - gridSlack n m L ≤
      f (imageCube n m x) := by
  have hn0 : n ≠ 0 := hn.ne_zero
  have hL := hf.nonneg (by omega : 0 < n)
  obtain ⟨a, ha, han⟩ := exists_root hn0 (sub_nonneg.2 hlx)
  obtain ⟨b, hb, hbn⟩ := exists_root hn0 (sub_nonneg.2 hxr)
  have h0 : 0 ≤ x := le_trans hl0 hlx
  have h1 : x ≤ 1 := le_trans hxr hr1
  have cA := cone_bound hn m hf h0 h1 hl0 (le_trans hlx h1) ha
    (by rw [abs_sub_comm, abs_of_nonneg (sub_nonneg.2 hlx), han])
  have cB := cone_bound hn m hf h0 h1 (le_trans h0 hxr) hr1 hb
    (by rw [abs_of_nonneg (sub_nonneg.2 hxr), hbn])
  have hab : a + b ≤ 2 * halfRoot n * δ :=
    add_le_of_pow_add_pow hn0 ha hb hδ (by rw [han, hbn, hδn]; ring)
  have hs : (0:ℝ) ≤ Real.sqrt (n + 3) := Real.sqrt_nonneg _
  rw [Kn_eq] at hM
  -- L√(n+3)(a+b) ≤ L√(n+3)·2cδ = (K L / 4) δ ≤ (M/4) δ
  have h3 : L * Real.sqrt (n + 3) * (a + b) ≤ L * Real.sqrt (n + 3) * (2 * halfRoot n * δ) :=
    mul_le_mul_of_nonneg_left hab (mul_nonneg hL hs)
  have h4 : (8 * halfRoot n * Real.sqrt (n + 3) * L) * δ ≤ M * δ :=
    mul_le_mul_of_nonneg_right hM hδ
  nlinarith [h3, h4, cA, cB]

/-- **minorant on a boundary interval, evaluated left end** -/
theorem minorant_left {xl xr x δ M : ℝ} (hl0 : 0 ≤ xl) (hr1 : xr ≤ 1) (hlx : xl ≤ x)
    (hxr : x ≤ xr) (hδ : 0 ≤ δ) (hδn : δ^n = xr - xl) (hM : Kn n * L ≤ M) :
    f (imageCube n m xl) - (M / 2) * δ - gridSlack n m L ≤ f (imageCube n m x) := by
  have hn0 : n ≠ 0 := hn.ne_zero
  have hL := hf.nonneg (by omega : 0 < n)
  have h0 : 0 ≤ x := le_trans hl0 hlx
  have h1 : x ≤ 1 := le_trans hxr hr1
  have cA := cone_bound hn m hf h0 h1 hl0 (le_trans hlx h1) hδ
    (by rw [abs_sub_comm, abs_of_nonneg (sub_nonneg.2 hlx), hδn]; linarith)
  have hs : (0:ℝ) ≤ Real.sqrt (n + 3) := Real.sqrt_nonneg _
  rw [Kn_eq] at hM
  have hc := half_le_halfRoot hn0
  have h2 : 8 * (1/2) * Real.sqrt (n + 3) * L ≤ 8 * halfRoot n * Real.sqrt (n + 3) * L := by
    have : 0 ≤ Real.sqrt (n + 3) * L := mul_nonneg hs hL
    nlinarith
  have h4 : (8 * (1/2) * Real.sqrt (n + 3) * L) * δ ≤ M * δ :=
    mul_le_mul_of_nonneg_right (le_trans h2 hM) hδ
  nlinarith [h4, cA]

/-- **minorant on a boundary interval, evaluated right end** -/
theorem minorant_right {xl xr x δ M : ℝ} (hl0 : 0 ≤ xl) (hr1 : xr ≤ 1) (hlx : xl ≤ x)
    (hxr : x ≤ xr) (hδ : 0 ≤ δ) (hδn : δ^n = xr - xl) (hM : Kn n * L ≤ M) :
    f (imageCube n m xr) - (M / 2) * δ - gridSlack n m L ≤ f (imageCube n m x) := by
  have hn0 : n ≠ 0 := hn.ne_zero
  have hL := hf.nonneg (by omega : 0 < n)
  have h0 : 0 ≤ x := le_trans hl0 hlx
  have h1 : x ≤ 1 := le_trans hxr hr1
  have cB := cone_bound hn m hf h0 h1 (le_trans h0 hxr) hr1 hδ
    (by rw [abs_of_nonneg (sub_nonneg.2 hxr), hδn]; linarith)
  have hs : (0:ℝ) ≤ Real.sqrt (n + 3) := Real.sqrt_nonneg _
  rw [Kn_eq] at hM
  have hc := half_le_halfRoot hn0
  have h2 : 8 * (1/2) * Real.sqrt (n + 3) * L ≤ 8 * halfRoot n * Real.sqrt (n + 3) * L := by
    have : 0 ≤ Real.sqrt (n + 3) * L := mul_nonneg hs hL
    nlinarith
  have h4 : (8 * (1/2) * Real.sqrt (n + 3) * L) * δ ≤ M * δ :=
    mul_le_mul_of_nonneg_right (le_trans h2 hM) hδ
  nlinarith [h4, cB]

end

end Ev
