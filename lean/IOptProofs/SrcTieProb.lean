import IOptModel.Problems
import IOptGen.ProblemsSrc
/-!
# The hand-written models of the benchmark families equal the translation of the CURRENT source text

`IOptGen/ProblemsSrc.lean` is regenerated on every run by `harness/src2lean.py` from the source text of the
`Calculate` methods under `iOpt/problems` (symbolic execution of the Python AST): the initial values, the loop
bodies and the closing formulas; the translator refuses (`Untranslatable`) when a loop header, the statements around
a loop or the value finally stored differ from the shape the model iterates.  The theorems below state that the
functions of `IOptModel/Problems.lean` — the ones the theorems of C10, C14, C15 and C18 are about and the driver
executes — are folds of exactly these bodies.  All hold over the raw numeric classes, hence also for the `Float`
instance: the expression trees are identical.
-/
set_option linter.unusedSectionVars false

namespace SrcTie
open Gen.PSrc

section
variable {α : Type} [Add α] [Sub α] [Mul α] [Div α] [Neg α] [LT α] [LE α]
  [DecidableLT α] [DecidableLE α] [OfNat α 0] [OfNat α 1] [OfNat α 2] [OfNat α 4] [NatCast α] [MathFns α]

/-- the translator followed every function -/
theorem problems_translated : Gen.PSrc.translated = true := rfl

/-- `Rastrigin.Calculate` -/
theorem rastrigin_src (x : List α) : Prob.rastrigin x = x.foldl rastriginStep rastriginInit := rfl

/-- `XSquared.Calculate` -/
theorem xsquared_src (x : List α) : Prob.xsquared x = x.foldl xsquaredStep xsquaredInit := rfl

/-- `Hill.Calculate` -/
theorem hill_src (a b : List α) (x : α) :
    Prob.hill a b x = (List.zip a b).zipIdx.foldl (fun res (p : (α × α) × Nat) => hillStep res p.1.1 p.1.2 x p.2) hillInit := rfl

/-- `Shekel.Calculate` -/
theorem shekel_src (k a c : List α) (x : α) :
    Prob.shekel k a c x
      = (List.zip k (List.zip a c)).foldl (fun res (p : α × α × α) => shekelStep res p.1 p.2.1 p.2.2 x) shekelInit := rfl

/-- `Shekel4.Calculate` -/
theorem shekel4_src (a : List (List α)) (c : List α) (x : List α) :
    Prob.shekel4 a c x
      = (List.zip a c).foldl
          (fun res (p : List α × α) =>
            shekel4Step res ((List.zip x p.1).foldl (fun den (q : α × α) => shekel4DenStep den q.1 q.2) shekel4DenInit) p.2)
          shekel4Init := rfl

/-! ### Grishagin -/

/-- the recurrence loop `for i in range(0, 6)` with the source's loop body: `(snx, csx)` in index order -/
def grishTrigGo (s1 c1 : α) : Nat → α → α → List α → List α → List α × List α
  | 0, _, _, sn, cs => (sn.reverse, cs.reverse)
  | k + 1, s, c, sn, cs =>
    grishTrigGo s1 c1 k (grishRecS s c s1 c1) (grishRecC s c s1 c1) (grishRecS s c s1 c1 :: sn) (grishRecC s c s1 c1 :: cs)

theorem grishTrig_go_src (s1 c1 : α) (k : Nat) (s c : α) (sn cs : List α) :
    Prob.grishTrig.go s1 c1 k s c sn cs = grishTrigGo s1 c1 k s c sn cs := by
  induction k generalizing s c sn cs with
  | zero => rfl
  | succ k ih => simp only [Prob.grishTrig.go, grishTrigGo, grishRecS, grishRecC]; exact ih _ _ _ _

/-- the sines and cosines of `GrishaginFunction.Calculate`: first entries and six recurrence steps of the source -/
theorem grishTrig_src (t : α) :
    Prob.grishTrig t = grishTrigGo (grishSin1 t) (grishCos1 t) 6 (grishSin1 t) (grishCos1 t) [grishSin1 t] [grishCos1 t] := by
  simp only [Prob.grishTrig, grishTrig_go_src]; rfl

/-- `GrishaginFunction.Calculate`: the double accumulation loop and the returned value -/
theorem grishagin_src (af bf cf df : List (List α)) (x0 x1 : α) :
    Prob.grishagin af bf cf df x0 x1
      = (let tx := Prob.grishTrig x0
         let ty := Prob.grishTrig x1
         let rows := List.zip (List.zip af bf) (List.zip cf df) |>.zip (List.zip tx.1 tx.2)
         let d := rows.foldl
           (fun (acc : α × α) (row : ((List α × List α) × (List α × List α)) × (α × α)) =>
             (List.zip (List.zip row.1.1.1 row.1.1.2) (List.zip row.1.2.1 row.1.2.2) |>.zip (List.zip ty.1 ty.2)).foldl
               (fun (acc : α × α) (e : ((α × α) × (α × α)) × (α × α)) =>
                 (grishAcc1 acc.1 e.1.1.1 e.1.1.2 row.2.1 e.2.1 row.2.2 e.2.2,
                  grishAcc2 acc.2 e.1.2.1 e.1.2.2 row.2.1 e.2.1 row.2.2 e.2.2)) acc)
           (grishD1Init, grishD2Init)
         grishFinal d.1 d.2) := rfl

/-! ### GKLS (D-type) -/

/-- `GKLS_norm` -/
theorem gklsNorm_src (x1 x2 : List α) :
    Prob.gklsNorm x1 x2 = gklsNormFinal ((List.zip x1 x2).foldl (fun n (p : α × α) => gklsNormStep n p.1 p.2) gklsNormInit) := rfl

/-- the `while` search of `CalculateDFunction`: a ball is skipped exactly when the source's loop condition holds -/
theorem gklsFindBall_src (x : List α) (m : List α) (rho f : α) (t : List (List α × α × α)) :
    Prob.gklsFindBall x ((m, rho, f) :: t)
      = if gklsBallMiss (Prob.gklsNorm m x) rho = true then Prob.gklsFindBall x t else some (m, rho, f) := by
  simp only [Prob.gklsFindBall, gklsBallMiss, decide_eq_true_eq, GT.gt]

/-- `CalculateDFunction` (with `isArgSet`), assembled from the source's pieces; `lit` are the float literals of the cubic
that the numeric class has no name for (`3.0`), the constants record of the model must carry the same values -/
theorem gkls_src (k : Prob.GklsConsts α) (d : Prob.GklsData α) (x : List α) (lit : Nat → α)
    (h3 : k.three = lit 0) (h4 : k.four = 4) :
    Prob.gkls k d x
      = if x.any (fun xi => gklsOutside xi k.domainLeft k.domainRight k.precision) then k.maxValue
        else
          match Prob.gklsFindBall x ((List.zip d.localMin (List.zip d.rho d.f)).drop 1) with
          | none => gklsParaboloid (Prob.gklsNorm (d.localMin.headD []) x) (d.f.headD 0)
          | some (m, rho, fi) =>
            if gklsCoincide (Prob.gklsNorm x m) k.precision = true then fi
            else
              gklsCubic lit rho
                ((List.zip x (List.zip (d.localMin.headD []) m)).foldl
                  (fun s (p : α × α × α) => gklsScalStep s p.1 p.2.1 p.2.2) gklsScalInit)
                (Prob.gklsNorm m x)
                (gklsA (Prob.gklsNorm (d.localMin.headD []) m) (d.f.headD 0) fi) fi := by
  simp only [Prob.gkls, gklsOutside, gklsCoincide, gklsParaboloid, gklsCubic, gklsA, gklsScalStep, gklsScalInit,
    decide_eq_true_eq, GT.gt, h3, h4]
  rfl

end

/-- the one float literal of the cubic that the translator hands over as `lit 0` is the double `3.0` -/
theorem gklsCubicLits_eq : Gen.PSrc.gklsCubicLits = [0x4008000000000000] := rfl

/-! non-vacuity: the hypotheses of `gkls_src` hold for a constants record with `three = 3`, `four = 4` (stand-in library
functions on `Int`, as in `IOptProps/C15.lean`), and both sides evaluate to the same non-trivial number -/
section examples
local instance intFns : MathFns Int where
  sin := id
  cos := fun x => x + 1
  exp := id
  sqrt := id
  pi := 3
  pow := fun x _ => x * x

private def kInt : Prob.GklsConsts Int :=
  { maxValue := 1000000, precision := 0, domainLeft := -10, domainRight := 10, three := 3, four := 4 }

example : kInt.three = (fun _ : Nat => (3 : Int)) 0 ∧ kInt.four = 4 := ⟨rfl, rfl⟩

example :
    Prob.gkls kInt { dim := 2, localMin := [[0, 0], [4, 4], [-5, 2]], rho := [0, 30, 2], f := [0, -7, -1] } [4, 2] = 57 := by
  decide

example : Prob.rastrigin ([1, 2] : List Int) = List.foldl rastriginStep rastriginInit [1, 2] ∧
    Prob.rastrigin ([1, 2] : List Int) = -175 := by decide

example : Prob.hill ([1, 2, 3] : List Int) [4, 5, 6] 2 = 315 := by decide
end examples

end SrcTie
