import IOptProofs.BenchReal
import Mathlib.Tactic.Ring
import Mathlib.Tactic.Linarith
import Mathlib.Tactic.Positivity
import Mathlib.Algebra.Order.BigOperators.Group.List
/-!
# XSquared and Rastrigin over ℝ, in every dimension (helper lemmas for C10)
-/

namespace BenchSym

/-- a left fold that adds `g xi` is the start value plus the sum of the `g xi` -/
theorem foldl_add_eq (g : ℝ → ℝ) (x : List ℝ) (a : ℝ) :
    x.foldl (fun s xi => s + g xi) a = a + (x.map g).sum := by
  induction x generalizing a with
  | nil => simp
  | cons h t ih => simp only [List.foldl_cons, List.map_cons, List.sum_cons, ih]; ring

theorem xsquared_eq_sum (x : List ℝ) : Prob.xsquared x = (x.map fun xi => xi * xi).sum := by
  unfold Prob.xsquared
  rw [foldl_add_eq (fun xi => xi * xi) x 0, zero_add]

/-- the Rastrigin summand -/
noncomputable def rterm (xi : ℝ) : ℝ := xi * xi - 10 * Real.cos (2 * Real.pi * xi) + 10

theorem rastrigin_eq_sum (x : List ℝ) : Prob.rastrigin x = (x.map rterm).sum := by
  unfold Prob.rastrigin
  have h := foldl_add_eq rterm x 0
  rw [zero_add] at h
  rw [← h]
  have : (fun (sum xi : ℝ) => sum + (xi * xi - Prob.nat 10 * MathFns.cos (2 * MathFns.pi * xi) + Prob.nat 10))
      = fun s xi => s + rterm xi := by
    funext s xi
    simp only [rterm, BenchReal.nat_eq, BenchReal.cos_eq, BenchReal.pi_eq]
    norm_num
  rw [this]

theorem sq_le_rterm (xi : ℝ) : xi * xi ≤ rterm xi := by
  unfold rterm
  have := Real.cos_le_one (2 * Real.pi * xi)
  linarith

theorem rterm_nonneg (xi : ℝ) : 0 ≤ rterm xi :=
  le_trans (mul_self_nonneg xi) (sq_le_rterm xi)

theorem rterm_zero : rterm 0 = 0 := by simp [rterm]

/-- each summand of a sum of non-negative terms is at most the sum -/
theorem term_le_sum (g : ℝ → ℝ) (hg : ∀ t, 0 ≤ g t) (x : List ℝ) {xi : ℝ} (hx : xi ∈ x) :
    g xi ≤ (x.map g).sum := by
  induction x with
  | nil => cases hx
  | cons h t ih =>
    have hnn : 0 ≤ (t.map g).sum := List.sum_nonneg (by
      intro y hy; obtain ⟨z, _, rfl⟩ := List.mem_map.1 hy; exact hg z)
    simp only [List.map_cons, List.sum_cons]
    rcases List.mem_cons.1 hx with rfl | hmem
    · linarith
    · have := ih hmem; have := hg h; linarith

theorem sum_nonneg_of (g : ℝ → ℝ) (hg : ∀ t, 0 ≤ g t) (x : List ℝ) : 0 ≤ (x.map g).sum :=
  List.sum_nonneg (by intro y hy; obtain ⟨z, _, rfl⟩ := List.mem_map.1 hy; exact hg z)

theorem sum_le_sum_of (f g : ℝ → ℝ) (h : ∀ t, f t ≤ g t) (x : List ℝ) :
    (x.map f).sum ≤ (x.map g).sum := by
  induction x with
  | nil => simp
  | cons a t ih => simp only [List.map_cons, List.sum_cons]; have := h a; linarith

theorem sum_replicate_zero (g : ℝ → ℝ) (h0 : g 0 = 0) (n : Nat) :
    ((List.replicate n (0 : ℝ)).map g).sum = 0 := by
  induction n with
  | zero => simp
  | succ n ih => simp only [List.replicate_succ, List.map_cons, List.sum_cons, ih, h0, add_zero]

theorem xsquared_nonneg (x : List ℝ) : 0 ≤ Prob.xsquared x := by
  rw [xsquared_eq_sum]; exact sum_nonneg_of _ (fun t => mul_self_nonneg t) x

theorem xsquared_origin (n : Nat) : Prob.xsquared (List.replicate n (0 : ℝ)) = 0 := by
  rw [xsquared_eq_sum]; exact sum_replicate_zero _ (by simp) n

theorem xsquared_local (x : List ℝ) (τ : ℝ) (h : Prob.xsquared x ≤ τ) :
    ∀ xi ∈ x, xi ^ 2 ≤ τ := by
  intro xi hxi
  rw [xsquared_eq_sum] at h
  have := term_le_sum (fun t => t * t) (fun t => mul_self_nonneg t) x hxi
  nlinarith

theorem xsquared_le_rastrigin (x : List ℝ) : Prob.xsquared x ≤ Prob.rastrigin x := by
  rw [xsquared_eq_sum, rastrigin_eq_sum]; exact sum_le_sum_of _ _ sq_le_rterm x

theorem rastrigin_origin (n : Nat) : Prob.rastrigin (List.replicate n (0 : ℝ)) = 0 := by
  rw [rastrigin_eq_sum]; exact sum_replicate_zero _ rterm_zero n

theorem abs_le_sqrt_of_sq_le {t τ : ℝ} (h : t ^ 2 ≤ τ) : |t| ≤ Real.sqrt τ := by
  apply Real.abs_le_sqrt h

theorem eq_replicate_zero_of_forall {x : List ℝ} (h : ∀ xi ∈ x, xi = 0) :
    x = List.replicate x.length 0 :=
  List.eq_replicate_iff.2 ⟨rfl, h⟩

end BenchSym
