import IOptProofs.GklsCert2
import IOptProofs.GklsCert3
import IOptProofs.GklsCert4
import IOptProofs.GklsCert5
/-!
# All 400 regenerated GKLS data sets pass the certificates
-/

namespace Gkls

/-- all 400 data sets (dimension 2..5 × function number 1..100) pass the full certificate -/
theorem cert_all : ∀ d ∈ [2, 3, 4, 5], ∀ k ∈ List.range' 1 100, Cert d k = true := by
  intro d hd
  simp only [List.mem_cons, List.not_mem_nil, or_false] at hd
  rcases hd with rfl | rfl | rfl | rfl
  · exact cert2
  · exact cert3
  · exact cert4
  · exact cert5

/-- all 400 data sets are well-formed -/
theorem wf_all : ∀ d ∈ [2, 3, 4, 5], ∀ k ∈ List.range' 1 100, Gkls.WF (Gen.gkls d k) = true :=
  fun d hd k hk => Cert.wf (cert_all d hd k hk)

/-- all 400 data sets satisfy the class clauses -/
theorem classOK_all : ∀ d ∈ [2, 3, 4, 5], ∀ k ∈ List.range' 1 100, Gkls.ClassOK (Gen.gkls d k) = true :=
  fun d hd k hk => Cert.classOK (cert_all d hd k hk)

end Gkls
