import Mathlib.Analysis.Complex.Trigonometric
import Mathlib.Analysis.Real.Pi.Bounds
/-!
# Enclosure kit, real analysis part 2: Taylor polynomial of `exp (iφ)` with remainder; bounds of `π`
-/

namespace Encl
open Complex Finset

/-- degree-10 Taylor polynomial of `cos` -/
noncomputable def C11 (φ : ℝ) : ℝ := 1 - φ^2/2 + φ^4/24 - φ^6/720 + φ^8/40320 - φ^10/3628800
/-- degree-9 Taylor polynomial of `sin` -/
noncomputable def S11 (φ : ℝ) : ℝ := φ - φ^3/6 + φ^5/120 - φ^7/5040 + φ^9/362880

theorem sum11 (φ : ℝ) :
    ∑ m ∈ range 11, ((φ : ℂ) * I) ^ m / (m.factorial : ℂ) = ⟨C11 φ, S11 φ⟩ := by
  have h2 : I ^ 2 = -1 := I_sq
  have e : ∀ k : ℕ, ((φ : ℂ) * I) ^ k = (φ : ℂ)^k * I^k := fun k => mul_pow _ _ _
  simp only [sum_range_succ, sum_range_zero, e]
  have i3 : I^3 = -I := by rw [pow_succ, h2]; ring
  have i4 : I^4 = 1 := by rw [pow_succ, i3]; simp
  have i5 : I^5 = I := by rw [pow_succ, i4]; ring
  have i6 : I^6 = -1 := by rw [pow_succ, i5]; simp
  have i7 : I^7 = -I := by rw [pow_succ, i6]; ring
  have i8 : I^8 = 1 := by rw [pow_succ, i7]; simp
  have i9 : I^9 = I := by rw [pow_succ, i8]; ring
  have i10 : I^10 = -1 := by rw [pow_succ, i9]; simp
  rw [h2, i3, i4, i5, i6, i7, i8, i9, i10]
  apply Complex.ext
  · simp [C11, Nat.factorial, ← ofReal_pow]
    ring
  · simp [S11, Nat.factorial, ← ofReal_pow]
    ring

/-- `‖e^{iφ} - (C11 φ + i S11 φ)‖ ≤ |φ|^11 · 12/(11!·11)` for `|φ| ≤ 1` -/
theorem exp_taylor11 {φ : ℝ} (h : |φ| ≤ 1) :
    ‖exp ((φ : ℂ) * I) - (⟨C11 φ, S11 φ⟩ : ℂ)‖ ≤ |φ| ^ 11 * (12 / (39916800 * 11)) := by
  have hn : ‖(φ : ℂ) * I‖ = |φ| := by simp
  have := Complex.exp_bound (x := (φ : ℂ) * I) (by rw [hn]; exact h) (n := 11) (by norm_num)
  rw [sum11, hn] at this
  refine this.trans (le_of_eq ?_)
  norm_num [Nat.factorial]

/-- `|π - PI_N/2^70| ≤ 2^-66` with `PI_N = 3708937962535486895300` -/
theorem pi_approx : |Real.pi - 3708937962535486895300 / 2^70| ≤ 1 / 2^66 := by
  have h1 := Real.pi_gt_d20
  have h2 := Real.pi_lt_d20
  rw [abs_le]
  constructor <;> norm_num at h1 h2 ⊢ <;> linarith

theorem pi_lt_315 : Real.pi < 3.15 := by
  have := Real.pi_lt_d20; norm_num at this ⊢; linarith
theorem pi_gt_314' : 3.14 < Real.pi := by
  have := Real.pi_gt_d20; norm_num at this ⊢; linarith

/-- `2π ≤ TWOPI_HI / 2^62` -/
theorem two_pi_le : 2 * Real.pi ≤ 28976077832308491370 / 2^62 := by
  have h2 := Real.pi_lt_d20
  norm_num at h2 ⊢; linarith
/-- `TWOPI_LO / 2^62 ≤ 2π` -/
theorem le_two_pi : (28976077832308491369 : ℝ) / 2^62 ≤ 2 * Real.pi := by
  have h2 := Real.pi_gt_d20
  norm_num at h2 ⊢; linarith

/-- `2π² ≤ PISQ2_HI / 2^60` -/
theorem two_pi_sq_le : 2 * Real.pi ^ 2 ≤ 22757758311956604325 / 2^60 := by
  have h2 := Real.pi_lt_d20
  have h0 := Real.pi_pos
  have : Real.pi ^ 2 ≤ 3.14159265358979323847 ^ 2 := by
    apply pow_le_pow_left₀ h0.le h2.le
  norm_num at this ⊢; linarith

/-- `4π³/3 ≤ PI3_43_HI / 2^58` -/
theorem four_thirds_pi_cube_le : 4 * Real.pi ^ 3 / 3 ≤ 11915934387502487030 / 2^58 := by
  have h2 := Real.pi_lt_d20
  have h0 := Real.pi_pos
  have : Real.pi ^ 3 ≤ 3.14159265358979323847 ^ 3 := by
    apply pow_le_pow_left₀ h0.le h2.le
  norm_num at this ⊢; linarith

end Encl
