import IOptProofs.HillDefs
/-! kernel-evaluated certificates (V), (G), (P), (L) of the Hill functions 780..799 (one block per file, identical template) -/
namespace Hill
set_option maxRecDepth 100000 in
theorem hill_block_39 : ∀ i ∈ List.range' 780 20, hillOK i = true := by decide +kernel
end Hill
