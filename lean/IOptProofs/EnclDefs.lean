/-!
# Enclosure kit, computational part (no Mathlib): biased fixed-point trigonometry on `Nat`

Everything here is written for the *kernel* evaluator (`decide +kernel`): the kernel evaluates the
binary `Nat` primitives (`Nat.add/sub/mul/div/shiftLeft/shiftRight/ble`) on literals with GMP in a few
reduction steps, while `Int` arithmetic unfolds through several matchers per operation (measured:
about 15 times slower).  Therefore signed fixed-point numbers are stored *biased*:

* a trigonometric value `x ∈ (-2, 2)` is the natural number `x·2^64 + B`, `B = 2^65`;
* all functions are straight-line compositions of the primitives, sharing is by argument passing
  (the kernel memoises the weak head normal form of each closed argument term);
* a big literal is never the *second* argument of `Nat.add/sub/mul` with an open first argument: these
  functions recurse on the second argument, and a failed definitional-equality test on such a term
  with free variables would count down from the literal (observed as a kernel timeout).

The soundness of every function (against `Real.cos`, `Real.sin`) is proved in `EnclSound.lean`.
-/

namespace Encl

/-- `2^64`: one unit of the trigonometric fixed-point format -/
def ONE : Nat := 18446744073709551616
/-- `2^65`: bias of the trigonometric fixed-point format -/
def B : Nat := 36893488147419103232
/-- `⌊π·2^70⌋` -/
def PI_N : Nat := 3708937962535486895300
/-- `2·B^2 + ONE·B = 5·2^129` -/
def CIM : Nat := 3402823669209384634633746074317682114560

/-- `φ·2^64` (rounded down) for `φ = 2π·(num/2^k)/32` -/
def phi (num k : Nat) : Nat := Nat.shiftRight (Nat.mul PI_N num) (Nat.add k 10)

/-- `u·2^64` for `u = φ²` -/
def usq (p : Nat) : Nat := Nat.shiftRight (Nat.mul p p) 64

/-- one Horner level `1 - u·w/d` of the Taylor polynomials; `dd = d·2^64` -/
def lvl (u w dd : Nat) : Nat := Nat.sub ONE (Nat.div (Nat.mul u w) dd)

/-- `1 - u/2 + u²/24 - u³/720 + u⁴/8! - u⁵/10!` in Horner form -/
def cosT (u : Nat) : Nat :=
  lvl u (lvl u (lvl u (lvl u (lvl u ONE 1660206966633859645440) 1033017668127734890496)
    553402322211286548480) 221360928884514619392) 36893488147419103232

/-- `φ·(1 - u/6 + u²/120 - u³/7! + u⁴/9!)` in Horner form -/
def sinT (p u : Nat) : Nat :=
  Nat.shiftRight (Nat.mul p
    (lvl u (lvl u (lvl u (lvl u ONE 1328165573307087716352) 774763251095801167872)
      368934881474191032320) 110680464442257309696)) 64

/-- real part of the product `(x + i u)(y + i v)` of biased fixed-point complex numbers -/
def cmulRe (X Y U V : Nat) : Nat :=
  Nat.shiftRight
    (Nat.sub (Nat.add (Nat.mul X Y) (Nat.shiftLeft (Nat.add ONE (Nat.add U V)) 65))
             (Nat.add (Nat.mul U V) (Nat.shiftLeft (Nat.add X Y) 65))) 64

/-- imaginary part of the product `(x + i u)(y + i v)` of biased fixed-point complex numbers -/
def cmulIm (X Y U V : Nat) : Nat :=
  Nat.shiftRight
    (Nat.sub (Nat.add CIM (Nat.add (Nat.mul X V) (Nat.mul U Y)))
             (Nat.shiftLeft (Nat.add (Nat.add X Y) (Nat.add U V)) 65)) 64

/-- `m` squarings in continuation-passing style -/
def pow2 {α : Type} : Nat → Nat → Nat → (Nat → Nat → α) → α
  | 0, X, U, k => k X U
  | m+1, X, U, k => pow2 m (cmulRe X X U U) (cmulIm X X U U) k

/-- biased enclosure centre of `(cos 2πt, sin 2πt)` for `t = num/2^k ∈ [0,1]`, passed to `cont` -/
def trig {α : Type} (num k : Nat) (cont : Nat → Nat → α) : α :=
  pow2 5 (Nat.add B (cosT (usq (phi num k)))) (Nat.add B (sinT (phi num k) (usq (phi num k)))) cont

/-! ## weighted sums of `cos iθ`, `sin iθ`, `i = 0, 1, …` by the angle-addition recurrence -/

/-- the six biased coefficients of index `i`:
`a0 = a_i`, `b0 = b_i` (value), `a1 = i·a_i`, `b1 = -i·b_i` (derivative / 2π),
`a2 = i²·a_i`, `b2 = i²·b_i` (second derivative / (-4π²)); each is `value·2^80 + 2^89` -/
structure Coef where
  a0 : Nat
  b0 : Nat
  a1 : Nat
  b1 : Nat
  a2 : Nat
  b2 : Nat

/-- raw accumulated products -/
structure Acc where
  f : Nat
  g1 : Nat
  g2 : Nat
  sc : Nat

/-- `X, U` = biased `cos iθ, sin iθ`; `Y, V` = biased `cos θ, sin θ` -/
def evGo : List Coef → Nat → Nat → Nat → Nat → Nat → Nat → Nat → Nat → Acc
  | [], _, _, _, _, f, g1, g2, sc => ⟨f, g1, g2, sc⟩
  | c :: l, X, U, Y, V, f, g1, g2, sc =>
    evGo l (cmulRe X Y U V) (cmulIm X Y U V) Y V
      (Nat.add (Nat.add f (Nat.mul c.a0 U)) (Nat.mul c.b0 X))
      (Nat.add (Nat.add g1 (Nat.mul c.a1 X)) (Nat.mul c.b1 U))
      (Nat.add (Nat.add g2 (Nat.mul c.a2 U)) (Nat.mul c.b2 X))
      (Nat.add (Nat.add sc X) U)

/-- accumulated products at the point `num/2^k` -/
def evAcc (cs : List Coef) (num k : Nat) : Acc :=
  trig num k fun Y V => evGo cs (Nat.add ONE B) B Y V 0 0 0 0

end Encl
