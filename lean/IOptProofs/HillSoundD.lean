import IOptProofs.HillSoundC
import Mathlib.Tactic.NormNum
/-!
# Hill certificate, soundness part D: table constants, the leaf tests, the bisection, the row check
-/

namespace Hill
open Encl

theorem ble_cast {a b : ℕ} (h : Nat.ble a b = true) : (a : ℝ) ≤ b := by
  exact_mod_cast Nat.le_of_ble_eq_true h

theorem TOL4_spec : (TOL4 : ℝ) ≤ 1 / 10 ^ 4 * U ∧ 1 / 10 ^ 4 * U < (TOL4 : ℝ) + 1 := by
  unfold TOL4; constructor <;> norm_num
theorem TOL6_spec : (TOL6 : ℝ) ≤ 1 / 10 ^ 6 * U ∧ 1 / 10 ^ 6 * U < (TOL6 : ℝ) + 1 := by
  unfold TOL6; constructor <;> norm_num
theorem TOL4P_cast : (TOL4P : ℝ) = (TOL4 : ℝ) + 2 := by norm_num [TOL4P, TOL4]
theorem TOL6P_cast : (TOL6P : ℝ) = (TOL6 : ℝ) + 2 := by norm_num [TOL6P, TOL6]

/-- `encLo d - BF = ⌊d·2^144⌋` when the biased value is positive -/
theorem encLo_spec (d : Dy) (h : Nat.ble TOL4 (encLo d) = true) :
    (encLo d : ℝ) - BF ≤ dyR d * U ∧ dyR d * U < (encLo d : ℝ) - BF + 1 := by
  have h' := Nat.le_of_ble_eq_true h
  set q : Int := (d.1 * (2:Int) ^ 144) / (2:Int) ^ d.2 with hq
  have hpos : 0 < encLo d := lt_of_lt_of_le (by decide) h'
  have hnn : 0 ≤ q + (BF : Int) := by
    by_contra hneg
    have : encLo d = 0 := by
      show (q + (BF : Int)).toNat = 0
      exact Int.toNat_of_nonpos (by omega)
    omega
  have hcast : ((encLo d : ℕ) : Int) = q + BF := Int.toNat_of_nonneg hnn
  have hcastR : (encLo d : ℝ) = (q : ℝ) + BF := by exact_mod_cast hcast
  have hp : (0 : Int) < (2:Int) ^ d.2 := by positivity
  have h1 : q * (2:Int) ^ d.2 ≤ d.1 * (2:Int) ^ 144 := Int.ediv_mul_le _ (ne_of_gt hp)
  have h2 : d.1 * (2:Int) ^ 144 < (q + 1) * (2:Int) ^ d.2 := Int.lt_ediv_add_one_mul_self _ hp
  have h1R : (q : ℝ) * 2 ^ d.2 ≤ (d.1 : ℝ) * 2 ^ 144 := by exact_mod_cast h1
  have h2R : (d.1 : ℝ) * 2 ^ 144 < ((q : ℝ) + 1) * 2 ^ d.2 := by exact_mod_cast h2
  have hk : (0 : ℝ) < 2 ^ d.2 := by positivity
  rw [dyR_eq, hcastR]
  have e : (d.1 : ℝ) / 2 ^ d.2 * U = (d.1 : ℝ) * 2 ^ 144 / 2 ^ d.2 := by
    show _ * (2:ℝ) ^ 144 = _; ring
  rw [e]
  constructor
  · rw [le_div_iff₀ hk]; linarith
  · rw [div_lt_iff₀ hk]; linarith

/-- a non-negative dyadic point -/
theorem point_spec (p : Dy) (h : 0 ≤ p.1) : dyR p = (p.1.toNat : ℝ) / 2 ^ p.2 := by
  rw [dyR_eq]
  have : ((p.1.toNat : ℕ) : Int) = p.1 := Int.toNat_of_nonneg h
  have : ((p.1.toNat : ℕ) : ℝ) = (p.1 : ℝ) := by exact_mod_cast this
  rw [this]

/-- the leaf `[n/2^k, (n+1)/2^k]` lies within `1/R` of `pN/2^pK` -/
theorem inside_sound {pN pK R k n : ℕ} (hR : 0 < R) (h : inside pN pK R k n = true) {x : ℝ}
    (hx1 : (n : ℝ) / 2 ^ k ≤ x) (hx2 : x ≤ ((n : ℝ) + 1) / 2 ^ k) :
    |x - (pN : ℝ) / 2 ^ pK| ≤ 1 / R := by
  simp only [inside, Bool.and_eq_true] at h
  obtain ⟨h1, h2⟩ := h
  have h1 := ble_cast h1
  have h2 := ble_cast h2
  simp only [cast_nat_add, shl_cast] at h1 h2
  have e : ∀ u v : ℕ, ((Nat.mul u v : ℕ) : ℝ) = (u : ℝ) * v := fun u v => Nat.cast_mul u v
  simp only [e, cast_nat_add] at h1 h2
  have hk : (0 : ℝ) < 2 ^ k := by positivity
  have hpk : (0 : ℝ) < 2 ^ pK := by positivity
  have hR' : (0 : ℝ) < R := by exact_mod_cast hR
  have hkk : (2 : ℝ) ^ (Nat.add k pK) = 2 ^ k * 2 ^ pK := pow_add 2 k pK
  rw [hkk] at h1 h2
  push_cast at h1 h2
  have a1 : (pN : ℝ) / 2 ^ pK ≤ (n : ℝ) / 2 ^ k + 1 / R := by
    rw [div_add_div _ _ hk.ne' hR'.ne', div_le_div_iff₀ hpk (by positivity)]
    nlinarith
  have a2 : ((n : ℝ) + 1) / 2 ^ k ≤ (pN : ℝ) / 2 ^ pK + 1 / R := by
    rw [div_add_div _ _ hpk.ne' hR'.ne', div_le_div_iff₀ hk (by positivity)]
    nlinarith
  rw [abs_le]
  constructor <;> linarith

/-- all clauses the leaf tests establish at one point `x` -/
structure PointOK (f f1 : ℝ → ℝ) (vmin pmin vmax pmax lip x : ℝ) : Prop where
  minLoc10 : f x ≤ vmin + 1 / 10 ^ 4 → |x - pmin| ≤ 1 / 200
  maxLoc10 : vmax - 1 / 10 ^ 4 ≤ f x → |x - pmax| ≤ 1 / 200
  minLoc18 : f x ≤ vmin + 1 / 10 ^ 6 → |x - pmin| ≤ 1 / 10 ^ 4
  maxLoc18 : vmax - 1 / 10 ^ 6 ≤ f x → |x - pmax| ≤ 1 / 10 ^ 4
  lower : vmin - 1 / 10 ^ 4 ≤ f x
  upper : f x ≤ vmax + 1 / 10 ^ 4
  deriv : |f1 x| ≤ 1001 / 1000 * lip

/-- the sign / range checks of `rowOK` on the table entries -/
structure TabHyp (vmin pmin vmax pmax lip : Dy) : Prop where
  pmin0 : 0 ≤ pmin.1
  pmax0 : 0 ≤ pmax.1
  lip0 : 0 ≤ lip.1
  pmin1 : Nat.ble pmin.1.toNat (2 ^ pmin.2) = true
  pmax1 : Nat.ble pmax.1.toNat (2 ^ pmax.2) = true
  vminOK : Nat.ble TOL4 (encLo vmin) = true
  vmaxOK : Nat.ble TOL4 (encLo vmax) = true

/-- the six value clauses from the Boolean tests and the enclosure `F - BF - sl ≤ y·U ≤ F - BF + sh` -/
theorem leafTests_sound {a b : List Dy} {vmin pmin vmax pmax lip : Dy} (T : TabHyp vmin pmin vmax pmax lip)
    {k n F sl sh : ℕ} (h : leafTests (mkCtx a b vmin pmin vmax pmax lip) k n F sl sh = true) {x y : ℝ}
    (hx1 : (n : ℝ) / 2 ^ k ≤ x) (hx2 : x ≤ ((n : ℝ) + 1) / 2 ^ k)
    (hlo : (F : ℝ) - BF - sl ≤ y * U) (hhi : y * U ≤ (F : ℝ) - BF + sh) :
    (y ≤ dyR vmin + 1 / 10 ^ 4 → |x - dyR pmin| ≤ 1 / 200) ∧
    (dyR vmax - 1 / 10 ^ 4 ≤ y → |x - dyR pmax| ≤ 1 / 200) ∧
    (y ≤ dyR vmin + 1 / 10 ^ 6 → |x - dyR pmin| ≤ 1 / 10 ^ 4) ∧
    (dyR vmax - 1 / 10 ^ 6 ≤ y → |x - dyR pmax| ≤ 1 / 10 ^ 4) ∧
    dyR vmin - 1 / 10 ^ 4 ≤ y ∧ y ≤ dyR vmax + 1 / 10 ^ 4 := by
  have hU : (0 : ℝ) < U := by positivity
  obtain ⟨vl1, vl2⟩ := encLo_spec vmin T.vminOK
  obtain ⟨vh1, vh2⟩ := encLo_spec vmax T.vmaxOK
  obtain ⟨t41, t42⟩ := TOL4_spec
  obtain ⟨t61, t62⟩ := TOL6_spec
  simp only [leafTests, Bool.and_eq_true, Bool.or_eq_true] at h
  obtain ⟨⟨⟨⟨⟨h1, h2⟩, h3⟩, h4⟩, h5⟩, h6⟩ := h
  have hvl : (mkCtx a b vmin pmin vmax pmax lip).vminLo = encLo vmin := rfl
  have hvh : (mkCtx a b vmin pmin vmax pmax lip).vmaxLo = encLo vmax := rfl
  have hpn : (mkCtx a b vmin pmin vmax pmax lip).pminN = pmin.1.toNat := rfl
  have hpk : (mkCtx a b vmin pmin vmax pmax lip).pminK = pmin.2 := rfl
  have hqn : (mkCtx a b vmin pmin vmax pmax lip).pmaxN = pmax.1.toNat := rfl
  have hqk : (mkCtx a b vmin pmin vmax pmax lip).pmaxK = pmax.2 := rfl
  rw [hvl, hpn, hpk] at h1 h3
  rw [hvh, hqn, hqk] at h2 h4
  rw [hvl] at h5
  rw [hvh] at h6
  rw [point_spec pmin T.pmin0, point_spec pmax T.pmax0]
  have c10 : (1 : ℝ) / (200 : ℕ) = 1 / 200 := by norm_num
  have c18 : (1 : ℝ) / (10000 : ℕ) = 1 / 10 ^ 4 := by norm_num
  have scale : ∀ u v : ℝ, u ≤ v → u * U ≤ v * U := fun u v huv => mul_le_mul_of_nonneg_right huv hU.le
  refine ⟨fun hy => ?_, fun hy => ?_, fun hy => ?_, fun hy => ?_, ?_, ?_⟩
  · rcases h1 with hb | hi
    · exfalso
      have hb := ble_cast hb
      simp only [cast_nat_add] at hb
      rw [TOL4P_cast] at hb
      have := scale _ _ hy
      rw [add_mul] at this
      linarith
    · rw [← c10]; exact inside_sound (by norm_num) hi hx1 hx2
  · rcases h2 with hb | hi
    · exfalso
      have hb := ble_cast hb
      simp only [cast_nat_add] at hb
      rw [TOL4P_cast] at hb
      have := scale _ _ hy
      rw [sub_mul] at this
      linarith
    · rw [← c10]; exact inside_sound (by norm_num) hi hx1 hx2
  · rcases h3 with hb | hi
    · exfalso
      have hb := ble_cast hb
      simp only [cast_nat_add] at hb
      rw [TOL6P_cast] at hb
      have := scale _ _ hy
      rw [add_mul] at this
      linarith
    · rw [← c18]; exact inside_sound (by norm_num) hi hx1 hx2
  · rcases h4 with hb | hi
    · exfalso
      have hb := ble_cast hb
      simp only [cast_nat_add] at hb
      rw [TOL6P_cast] at hb
      have := scale _ _ hy
      rw [sub_mul] at this
      linarith
    · rw [← c18]; exact inside_sound (by norm_num) hi hx1 hx2
  · have hb := ble_cast h5
    simp only [cast_nat_add, Nat.cast_one] at hb
    have : (dyR vmin - 1 / 10 ^ 4) * U ≤ y * U := by rw [sub_mul]; linarith
    exact le_of_mul_le_mul_right this hU
  · have hb := ble_cast h6
    simp only [cast_nat_add] at hb
    have : y * U ≤ (dyR vmax + 1 / 10 ^ 4) * U := by rw [add_mul]; linarith
    exact le_of_mul_le_mul_right this hU

/-- the threshold `tL` of the derivative test -/
theorem tL_spec (a b : List Dy) {vmin pmin vmax pmax lip : Dy} (T : TabHyp vmin pmin vmax pmax lip) :
    ((mkCtx a b vmin pmin vmax pmax lip).tL : ℝ) * (28976077832308491370 / 2 ^ 62)
      ≤ 1001 / 1000 * dyR lip * U := by
  show (((1001 * lip.1.toNat * 2 ^ 206) / (1000 * 2 ^ lip.2 * TWOPI_HI) : ℕ) : ℝ) * _ ≤ _
  have h : (((1001 * lip.1.toNat * 2 ^ 206) / (1000 * 2 ^ lip.2 * TWOPI_HI) : ℕ) : ℝ)
      ≤ ((1001 * lip.1.toNat * 2 ^ 206 : ℕ) : ℝ) / ((1000 * 2 ^ lip.2 * TWOPI_HI : ℕ) : ℝ) := Nat.cast_div_le
  have hn : ((1001 * lip.1.toNat * 2 ^ 206 : ℕ) : ℝ) = 1001 * (lip.1.toNat : ℝ) * 2 ^ 206 := by
    rw [Nat.cast_mul, Nat.cast_mul, Nat.cast_pow]; norm_num
  have hd : ((1000 * 2 ^ lip.2 * TWOPI_HI : ℕ) : ℝ) = 1000 * 2 ^ lip.2 * 28976077832308491370 := by
    rw [Nat.cast_mul, Nat.cast_mul, Nat.cast_pow, TWOPI_HI_cast]; norm_num
  rw [hn, hd] at h
  rw [point_spec lip T.lip0]
  have hk : (0 : ℝ) < 2 ^ lip.2 := by positivity
  calc _ ≤ (1001 * (lip.1.toNat : ℝ) * 2 ^ 206 / (1000 * 2 ^ lip.2 * 28976077832308491370))
          * (28976077832308491370 / 2 ^ 62) := mul_le_mul_of_nonneg_right h (by positivity)
    _ = 1001 / 1000 * ((lip.1.toNat : ℝ) / 2 ^ lip.2) * U := by
        show _ = _ * (2:ℝ) ^ 144; field_simp

/-- the dyadic interval `[n/2^k, (n+1)/2^k]` -/
def Leaf (k n : ℕ) (x : ℝ) : Prop := (n : ℝ) / 2 ^ k ≤ x ∧ x ≤ ((n : ℝ) + 1) / 2 ^ k

theorem cast_nat_mul (x y : ℕ) : ((Nat.mul x y : ℕ) : ℝ) = (x : ℝ) * y := Nat.cast_mul x y

theorem leaf_child_pow (k : ℕ) : (2 : ℝ) ^ (Nat.add k 1) = 2 * 2 ^ k := by
  show (2 : ℝ) ^ (k + 1) = _; rw [pow_succ]; ring

theorem leaf_split {k n : ℕ} {x : ℝ} (hx : Leaf k n x) :
    Leaf (Nat.add k 1) (Nat.mul 2 n) x ∨ Leaf (Nat.add k 1) (Nat.add (Nat.mul 2 n) 1) x := by
  have hk : (0 : ℝ) < 2 ^ k := by positivity
  unfold Leaf at *
  simp only [leaf_child_pow, cast_nat_add, cast_nat_mul, Nat.cast_ofNat, Nat.cast_one]
  have e1 : 2 * (n : ℝ) / (2 * 2 ^ k) = n / 2 ^ k := by field_simp
  have e2 : (2 * (n : ℝ) + 1 + 1) / (2 * 2 ^ k) = (n + 1) / 2 ^ k := by field_simp; ring
  rw [e1, e2]
  rcases le_total x ((2 * (n : ℝ) + 1) / (2 * 2 ^ k)) with h | h
  · exact Or.inl ⟨hx.1, h⟩
  · exact Or.inr ⟨h, hx.2⟩

theorem leaf_left {k n : ℕ} {x : ℝ} (hx : Leaf (Nat.add k 1) (Nat.mul 2 n) x) : Leaf k n x := by
  have hk : (0 : ℝ) < 2 ^ k := by positivity
  unfold Leaf at *
  simp only [leaf_child_pow, cast_nat_mul, Nat.cast_ofNat] at hx
  have e1 : 2 * (n : ℝ) / (2 * 2 ^ k) = n / 2 ^ k := by field_simp
  have e2 : (2 * (n : ℝ) + 1) / (2 * 2 ^ k) ≤ (n + 1) / 2 ^ k := by
    rw [div_le_div_iff₀ (by positivity) hk]; nlinarith
  rw [e1] at hx
  exact ⟨hx.1, hx.2.trans e2⟩

theorem leaf_right {k n : ℕ} {x : ℝ} (hx : Leaf (Nat.add k 1) (Nat.add (Nat.mul 2 n) 1) x) : Leaf k n x := by
  have hk : (0 : ℝ) < 2 ^ k := by positivity
  unfold Leaf at *
  simp only [leaf_child_pow, cast_nat_add, cast_nat_mul, Nat.cast_ofNat, Nat.cast_one] at hx
  have e1 : (n : ℝ) / 2 ^ k ≤ (2 * (n : ℝ) + 1) / (2 * 2 ^ k) := by
    rw [div_le_div_iff₀ hk (by positivity)]; nlinarith
  have e2 : (2 * (n : ℝ) + 1 + 1) / (2 * 2 ^ k) = (n + 1) / 2 ^ k := by field_simp; ring
  rw [e2] at hx
  exact ⟨e1.trans hx.1, hx.2⟩

theorem cond_some {b : Bool} {w' w : ℕ} (h : cond b (some w') none = some w) : b = true ∧ w' = w := by
  cases b
  · simp at h
  · simpa using h

theorem both_some {x y : Option ℕ} {w : ℕ} (h : both x y = some w) :
    ∃ wx wy, x = some wx ∧ y = some wy ∧ (w = wx ∨ w = wy) := by
  cases x with
  | none => simp [both] at h
  | some wx =>
    cases y with
    | none => simp [both] at h
    | some wy =>
      refine ⟨wx, wy, rfl, rfl, ?_⟩
      simp only [both, Option.some.injEq] at h
      cases hc : Nat.ble wx wy <;> rw [hc] at h <;> simp at h <;> omega

/-- what a successful (sub)tree of the bisection establishes on its dyadic interval -/
def TreeOK (a b : List Dy) (vmin pmin vmax pmax lip : Dy) (k n w : ℕ) : Prop :=
  (∀ x, Leaf k n x →
    PointOK (hf (rl a b)) (hf1 (rl a b)) (dyR vmin) (dyR pmin) (dyR vmax) (dyR pmax) (dyR lip) x) ∧
  ∃ c, Leaf k n c ∧ (w : ℝ) ≤ |hf1 (rl a b) c| / (2 * Real.pi) * U

theorem leaf_sound {a b : List Dy} (H : RowHyp a b) {vmin pmin vmax pmax lip : Dy}
    (T : TabHyp vmin pmin vmax pmax lip) {k n w : ℕ} (hn : n + 1 ≤ 2 ^ k)
    (h : leaf (mkCtx a b vmin pmin vmax pmax lip) k n = some w) :
    TreeOK a b vmin pmin vmax pmax lip k n w := by
  unfold leaf at h
  rw [ev_eq] at h
  obtain ⟨hb, hw⟩ := cond_some h
  rw [Bool.and_eq_true] at hb
  obtain ⟨ht, hd⟩ := hb
  have hpi : 0 < 2 * Real.pi := by positivity
  have hU : (0 : ℝ) < U := by positivity
  constructor
  · intro x hx
    obtain ⟨e1, e2, e3, _⟩ := leaf_enclosure H vmin pmin vmax pmax lip hn hx.1 hx.2
    obtain ⟨c1, c2, c3, c4, c5, c6⟩ := leafTests_sound T ht hx.1 hx.2 e1 e2
    refine ⟨c1, c2, c3, c4, c5, c6, ?_⟩
    have hd := ble_cast hd
    have ht := tL_spec a b T
    have h1 : |hf1 (rl a b) x| * U ≤
        ((mkCtx a b vmin pmin vmax pmax lip).tL : ℝ) * (2 * Real.pi) := by
      have := mul_le_mul_of_nonneg_right (e3.trans hd) hpi.le
      have e : |hf1 (rl a b) x| / (2 * Real.pi) * U * (2 * Real.pi) = |hf1 (rl a b) x| * U := by
        field_simp
      rwa [e] at this
    have h2 : ((mkCtx a b vmin pmin vmax pmax lip).tL : ℝ) * (2 * Real.pi)
        ≤ ((mkCtx a b vmin pmin vmax pmax lip).tL : ℝ) * (28976077832308491370 / 2 ^ 62) :=
      mul_le_mul_of_nonneg_left two_pi_le (Nat.cast_nonneg _)
    exact le_of_mul_le_mul_right (h1.trans (h2.trans ht)) hU
  · have hx0 : Leaf k n ((n : ℝ) / 2 ^ k) := by
      have hk : (0 : ℝ) < 2 ^ k := by positivity
      refine ⟨le_rfl, ?_⟩
      rw [div_le_div_iff_of_pos_right hk]; linarith
    obtain ⟨_, _, _, e4⟩ := leaf_enclosure H vmin pmin vmax pmax lip hn hx0.1 hx0.2
    rw [hw] at e4
    refine ⟨_, ?_, e4⟩
    have hk : (0 : ℝ) < 2 ^ k := by positivity
    unfold Leaf
    simp only [leaf_child_pow, cast_nat_add, cast_nat_mul, Nat.cast_ofNat, Nat.cast_one]
    constructor
    · rw [div_le_div_iff₀ hk (by positivity)]; nlinarith
    · rw [div_le_div_iff₀ (by positivity) hk]; nlinarith

theorem treeOK_both {a b : List Dy} {vmin pmin vmax pmax lip : Dy} {k n wx wy w : ℕ}
    (hl : TreeOK a b vmin pmin vmax pmax lip (Nat.add k 1) (Nat.mul 2 n) wx)
    (hr : TreeOK a b vmin pmin vmax pmax lip (Nat.add k 1) (Nat.add (Nat.mul 2 n) 1) wy)
    (hw : w = wx ∨ w = wy) : TreeOK a b vmin pmin vmax pmax lip k n w := by
  constructor
  · intro x hx
    rcases leaf_split hx with h | h
    · exact hl.1 x h
    · exact hr.1 x h
  · rcases hw with rfl | rfl
    · obtain ⟨c, hc, hcw⟩ := hl.2
      exact ⟨c, leaf_left hc, hcw⟩
    · obtain ⟨c, hc, hcw⟩ := hr.2
      exact ⟨c, leaf_right hc, hcw⟩


theorem bnb_sound {a b : List Dy} (H : RowHyp a b) {vmin pmin vmax pmax lip : Dy}
    (T : TabHyp vmin pmin vmax pmax lip) (fuel : ℕ) : ∀ (k n w : ℕ), n + 1 ≤ 2 ^ k →
    bnb (mkCtx a b vmin pmin vmax pmax lip) fuel k n = some w →
    TreeOK a b vmin pmin vmax pmax lip k n w := by
  induction fuel with
  | zero => intro k n w _ h; simp [bnb] at h
  | succ fuel ih =>
    intro k n w hn h
    have hl : Nat.mul 2 n + 1 ≤ 2 ^ (Nat.add k 1) := by
      show 2 * n + 1 ≤ 2 ^ (k + 1); rw [pow_succ]; omega
    have hr : Nat.add (Nat.mul 2 n) 1 + 1 ≤ 2 ^ (Nat.add k 1) := by
      show 2 * n + 1 + 1 ≤ 2 ^ (k + 1); rw [pow_succ]; omega
    have kids : both (bnb (mkCtx a b vmin pmin vmax pmax lip) fuel (Nat.add k 1) (Nat.mul 2 n))
          (bnb (mkCtx a b vmin pmin vmax pmax lip) fuel (Nat.add k 1) (Nat.add (Nat.mul 2 n) 1)) = some w →
        TreeOK a b vmin pmin vmax pmax lip k n w := by
      intro hb
      obtain ⟨wx, wy, hx, hy, hw⟩ := both_some hb
      exact treeOK_both (ih _ _ wx hl hx) (ih _ _ wy hr hy) hw
    unfold bnb at h
    generalize bnb (mkCtx a b vmin pmin vmax pmax lip) fuel (Nat.add k 1) (Nat.mul 2 n) = A at h kids
    generalize bnb (mkCtx a b vmin pmin vmax pmax lip) fuel (Nat.add k 1) (Nat.add (Nat.mul 2 n) 1) = B at h kids
    generalize hlf : leaf (mkCtx a b vmin pmin vmax pmax lip) k n = o at h
    cases hc : Nat.ble 6 k
    · rw [hc] at h; exact kids h
    · rw [hc] at h
      cases o with
      | none => exact kids h
      | some w' =>
        have : w' = w := by simpa using h
        subst this
        exact leaf_sound H T hn hlf

end Hill
