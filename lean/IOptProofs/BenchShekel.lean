import IOptProofs.BenchShekelDefs
import IOptProofs.BenchReal
import IOptProofs.BenchDy
import Mathlib.Tactic.Ring
import Mathlib.Tactic.Linarith
import Mathlib.Tactic.Positivity
import Mathlib.Tactic.FieldSimp
import Mathlib.Tactic.Push
import Mathlib.Tactic.NormNum
import Mathlib.Algebra.Order.Field.Basic
import Mathlib.Algebra.Order.Field.Rat
import Mathlib.Data.Rat.Cast.Order
import Mathlib.Algebra.Order.Ring.Abs
import Mathlib.Topology.Order.Compact
/-!
# Shekel: soundness of the interval branch-and-bound over ℝ
-/

namespace Shk

@[simp] theorem forceNat_eq (n : Nat) (k : Nat → Bool) : forceNat n k = k n := by
  cases n <;> rfl

@[simp] theorem forceTerms_eq : ∀ (ts : List NTerm) (k : List NTerm → Bool), forceTerms ts k = k ts
  | [], k => rfl
  | (a, b, c) :: ts, k => by simp [forceTerms, forceTerms_eq ts]

/-- the real term `1/(k (x-a)² + c)` denoted by a scaled term -/
noncomputable def termR (E : Nat) (t : NTerm) (x : ℝ) : ℝ :=
  1 / ((t.1 : ℝ) / 2 ^ E * (x - (t.2.1 : ℝ) / 2 ^ E) ^ 2 + (t.2.2 : ℝ) / 2 ^ (3 * E))

/-- the real function `-Σ terms` -/
noncomputable def fR (E : Nat) (ts : List NTerm) (x : ℝ) : ℝ := -(ts.map fun t => termR E t x).sum

theorem near_le (lo hi a : Nat) (y : ℝ) (h1 : (lo : ℝ) ≤ y) (h2 : y ≤ (hi : ℝ)) :
    ((near lo hi a : Nat) : ℝ) ≤ |y - a| := by
  have hlh : lo ≤ hi := by exact_mod_cast h1.trans h2
  show ((lo - a + (a - hi) : Nat) : ℝ) ≤ _
  rcases Nat.lt_or_ge a lo with h | h
  · have e1 : a - hi = 0 := by omega
    rw [e1, Nat.add_zero, Nat.cast_sub h.le]
    have : (a : ℝ) ≤ lo := by exact_mod_cast h.le
    rw [abs_of_nonneg (by linarith)]; linarith
  · have e1 : lo - a = 0 := by omega
    rw [e1, Nat.zero_add]
    rcases Nat.lt_or_ge hi a with h' | h'
    · rw [Nat.cast_sub h'.le]
      have : (hi : ℝ) ≤ a := by exact_mod_cast h'.le
      rw [abs_of_nonpos (by linarith)]; linarith
    · have e2 : a - hi = 0 := by omega
      rw [e2]; simp

theorem le_far (lo hi a : Nat) (y : ℝ) (h1 : (lo : ℝ) ≤ y) (h2 : y ≤ (hi : ℝ)) :
    |y - a| ≤ ((far lo hi a : Nat) : ℝ) := by
  show _ ≤ ((hi - a + (a - lo) : Nat) : ℝ)
  push_cast
  have n1 : (0 : ℝ) ≤ ((hi - a : Nat) : ℝ) := Nat.cast_nonneg _
  have n2 : (0 : ℝ) ≤ ((a - lo : Nat) : ℝ) := Nat.cast_nonneg _
  have k1 : (hi : ℝ) - a ≤ ((hi - a : Nat) : ℝ) := by
    rcases Nat.le_total a hi with h | h
    · rw [Nat.cast_sub h]
    · have : (hi : ℝ) ≤ a := by exact_mod_cast h
      linarith
  have k2 : (a : ℝ) - lo ≤ ((a - lo : Nat) : ℝ) := by
    rcases Nat.le_total lo a with h | h
    · rw [Nat.cast_sub h]
    · have : (a : ℝ) ≤ lo := by exact_mod_cast h
      linarith
  rw [abs_le]; constructor <;> linarith

theorem two_pow_pos' (n : Nat) : (0 : ℝ) < 2 ^ n := by positivity

/-- the real denominator of a term, in terms of `y = x·2^E` -/
theorem termR_eq (E : Nat) (t : NTerm) (x : ℝ) :
    termR E t x = 2 ^ (3 * E) / ((t.1 : ℝ) * (x * 2 ^ E - t.2.1) ^ 2 + t.2.2) := by
  unfold termR
  have h2 : (2 : ℝ) ^ E ≠ 0 := (two_pow_pos' E).ne'
  have h3 : (2 : ℝ) ^ (3 * E) = 2 ^ E * (2 ^ E * 2 ^ E) := by
    rw [show 3 * E = E + E + E by ring, pow_add, pow_add]; ring
  rw [h3]
  have e : (t.1 : ℝ) / 2 ^ E * (x - (t.2.1 : ℝ) / 2 ^ E) ^ 2 + (t.2.2 : ℝ) / (2 ^ E * (2 ^ E * 2 ^ E))
      = ((t.1 : ℝ) * (x * 2 ^ E - t.2.1) ^ 2 + t.2.2) / (2 ^ E * (2 ^ E * 2 ^ E)) := by
    field_simp
  rw [e, one_div, inv_div]

theorem den_cast (t : NTerm) (d : Nat) : ((den t d : Nat) : ℝ) = (t.1 : ℝ) * (d : ℝ) ^ 2 + t.2.2 := by
  show ((t.1 * (d * d) + t.2.2 : Nat) : ℝ) = _
  push_cast; ring

theorem divUp_ge (A n : Nat) (hn : 0 < n) : (A : ℝ) ≤ (divUp A n : ℝ) * n := by
  have : A ≤ divUp A n * n := by
    show A ≤ (A + n - 1) / n * n
    have h := Nat.div_add_mod (A + n - 1) n
    have hm := Nat.mod_lt (A + n - 1) hn
    rw [Nat.mul_comm] at h
    omega
  exact_mod_cast this

theorem div_le' (A n : Nat) : ((A / n : Nat) : ℝ) * n ≤ A := by
  have : A / n * n ≤ A := Nat.div_mul_le_self A n
  exact_mod_cast this

theorem tUp_sound (E : Nat) (t : NTerm) (lo hi : Nat) (x : ℝ) (hc : 0 < t.2.2)
    (h1 : (lo : ℝ) ≤ x * 2 ^ E) (h2 : x * 2 ^ E ≤ (hi : ℝ)) :
    termR E t x ≤ (tUp (2 ^ (3 * E + P)) t lo hi : ℝ) / 2 ^ P := by
  rw [termR_eq]
  set y := x * 2 ^ E with hy
  set n := den t (near lo hi t.2.1) with hn
  have hnpos : 0 < n := by
    show 0 < t.1 * _ + t.2.2
    omega
  have hnR : (0 : ℝ) < n := by exact_mod_cast hnpos
  have hnear := near_le lo hi t.2.1 y h1 h2
  have hsq : ((near lo hi t.2.1 : Nat) : ℝ) ^ 2 ≤ (y - t.2.1) ^ 2 := by
    rw [← sq_abs (y - t.2.1)]
    exact pow_le_pow_left₀ (Nat.cast_nonneg _) hnear 2
  have hden : (n : ℝ) ≤ (t.1 : ℝ) * (y - t.2.1) ^ 2 + t.2.2 := by
    rw [hn, den_cast]
    have : (0 : ℝ) ≤ t.1 := Nat.cast_nonneg _
    nlinarith
  have hup := divUp_ge (2 ^ (3 * E + P)) n hnpos
  have hA : ((2 ^ (3 * E + P) : Nat) : ℝ) = 2 ^ (3 * E) * 2 ^ P := by push_cast; rw [pow_add]
  rw [hA] at hup
  show _ ≤ ((divUp (2 ^ (3 * E + P)) n : Nat) : ℝ) / 2 ^ P
  rw [div_le_div_iff₀ (lt_of_lt_of_le hnR hden) (two_pow_pos' P)]
  have hq : (0 : ℝ) ≤ (divUp (2 ^ (3 * E + P)) n : ℝ) := Nat.cast_nonneg _
  calc (2 : ℝ) ^ (3 * E) * 2 ^ P ≤ (divUp (2 ^ (3 * E + P)) n : ℝ) * n := hup
    _ ≤ (divUp (2 ^ (3 * E + P)) n : ℝ) * ((t.1 : ℝ) * (y - t.2.1) ^ 2 + t.2.2) :=
        mul_le_mul_of_nonneg_left hden hq

theorem tDn_sound (E : Nat) (t : NTerm) (lo hi : Nat) (x : ℝ) (hc : 0 < t.2.2)
    (h1 : (lo : ℝ) ≤ x * 2 ^ E) (h2 : x * 2 ^ E ≤ (hi : ℝ)) :
    (tDn (2 ^ (3 * E + P)) t lo hi : ℝ) / 2 ^ P ≤ termR E t x := by
  rw [termR_eq]
  set y := x * 2 ^ E with hy
  set n := den t (far lo hi t.2.1) with hn
  have hfar := le_far lo hi t.2.1 y h1 h2
  have hsq : (y - t.2.1) ^ 2 ≤ ((far lo hi t.2.1 : Nat) : ℝ) ^ 2 := by
    rw [← sq_abs (y - t.2.1)]
    exact pow_le_pow_left₀ (abs_nonneg _) hfar 2
  have hcR : (0 : ℝ) < t.2.2 := by exact_mod_cast hc
  have hk : (0 : ℝ) ≤ t.1 := Nat.cast_nonneg _
  have hdpos : (0 : ℝ) < (t.1 : ℝ) * (y - t.2.1) ^ 2 + t.2.2 := by positivity
  have hden : (t.1 : ℝ) * (y - t.2.1) ^ 2 + t.2.2 ≤ (n : ℝ) := by
    rw [hn, den_cast]; nlinarith
  have hdn := div_le' (2 ^ (3 * E + P)) n
  have hA : ((2 ^ (3 * E + P) : Nat) : ℝ) = 2 ^ (3 * E) * 2 ^ P := by push_cast; rw [pow_add]
  rw [hA] at hdn
  show ((2 ^ (3 * E + P) / n : Nat) : ℝ) / 2 ^ P ≤ _
  rw [div_le_div_iff₀ (two_pow_pos' P) hdpos]
  have hq : (0 : ℝ) ≤ ((2 ^ (3 * E + P) / n : Nat) : ℝ) := Nat.cast_nonneg _
  calc ((2 ^ (3 * E + P) / n : Nat) : ℝ) * ((t.1 : ℝ) * (y - t.2.1) ^ 2 + t.2.2)
      ≤ ((2 ^ (3 * E + P) / n : Nat) : ℝ) * n := mul_le_mul_of_nonneg_left hden hq
    _ ≤ (2 : ℝ) ^ (3 * E) * 2 ^ P := hdn

theorem sUp_sound (E : Nat) (lo hi : Nat) (x : ℝ)
    (h1 : (lo : ℝ) ≤ x * 2 ^ E) (h2 : x * 2 ^ E ≤ (hi : ℝ)) :
    ∀ ts : List NTerm, (∀ t ∈ ts, 0 < t.2.2) →
      (ts.map fun t => termR E t x).sum ≤ (sUp (2 ^ (3 * E + P)) ts lo hi : ℝ) / 2 ^ P
  | [], _ => by simp [sUp]
  | t :: ts, h => by
    have ih := sUp_sound E lo hi x h1 h2 ts (fun t ht => h t (List.mem_cons_of_mem _ ht))
    have ht := tUp_sound E t lo hi x (h t List.mem_cons_self) h1 h2
    show _ ≤ ((tUp _ t lo hi + sUp _ ts lo hi : Nat) : ℝ) / 2 ^ P
    simp only [List.map_cons, List.sum_cons]
    push_cast
    rw [add_div]
    linarith

theorem sDn_sound (E : Nat) (lo hi : Nat) (x : ℝ)
    (h1 : (lo : ℝ) ≤ x * 2 ^ E) (h2 : x * 2 ^ E ≤ (hi : ℝ)) :
    ∀ ts : List NTerm, (∀ t ∈ ts, 0 < t.2.2) →
      (sDn (2 ^ (3 * E + P)) ts lo hi : ℝ) / 2 ^ P ≤ (ts.map fun t => termR E t x).sum
  | [], _ => by simp [sDn]
  | t :: ts, h => by
    have ih := sDn_sound E lo hi x h1 h2 ts (fun t ht => h t (List.mem_cons_of_mem _ ht))
    have ht := tDn_sound E t lo hi x (h t List.mem_cons_self) h1 h2
    show ((tDn _ t lo hi + sDn _ ts lo hi : Nat) : ℝ) / 2 ^ P ≤ _
    simp only [List.map_cons, List.sum_cons]
    push_cast
    rw [add_div]
    linarith

/-- soundness of the lower-bound branch and bound -/
theorem bnb_sound (E : Nat) (ts : List NTerm) (T : Nat) (hts : ∀ t ∈ ts, 0 < t.2.2) :
    ∀ (fuel lo hi : Nat), bnb (2 ^ (3 * E + P)) ts T fuel lo hi = true →
      ∀ x : ℝ, (lo : ℝ) ≤ x * 2 ^ E → x * 2 ^ E ≤ (hi : ℝ) → -(T : ℝ) / 2 ^ P ≤ fR E ts x := by
  have leaf : ∀ lo hi : Nat, Nat.ble (sUp (2 ^ (3 * E + P)) ts lo hi) T = true →
      ∀ x : ℝ, (lo : ℝ) ≤ x * 2 ^ E → x * 2 ^ E ≤ (hi : ℝ) → -(T : ℝ) / 2 ^ P ≤ fR E ts x := by
    intro lo hi h x h1 h2
    have hle : sUp (2 ^ (3 * E + P)) ts lo hi ≤ T := Nat.le_of_ble_eq_true h
    have hleR : (sUp (2 ^ (3 * E + P)) ts lo hi : ℝ) ≤ T := by exact_mod_cast hle
    have hs := sUp_sound E lo hi x h1 h2 ts hts
    unfold fR
    have : (sUp (2 ^ (3 * E + P)) ts lo hi : ℝ) / 2 ^ P ≤ (T : ℝ) / 2 ^ P :=
      div_le_div_of_nonneg_right hleR (two_pow_pos' P).le
    rw [neg_div]; linarith
  intro fuel
  induction fuel with
  | zero => intro lo hi h; exact leaf lo hi h
  | succ fuel ih =>
    intro lo hi h x h1 h2
    simp only [bnb, Bool.or_eq_true, Bool.and_eq_true, forceNat_eq] at h
    rcases h with h | ⟨_, hl, hr⟩
    · exact leaf lo hi h x h1 h2
    · rcases le_total (x * 2 ^ E) ((Nat.div (Nat.add lo hi) 2 : Nat) : ℝ) with hm | hm
      · exact ih lo _ hl x h1 hm
      · exact ih _ hi hr x hm h2

/-- soundness of the upper-bound branch and bound -/
theorem bnbUp_sound (E : Nat) (ts : List NTerm) (T : Nat) (hts : ∀ t ∈ ts, 0 < t.2.2) :
    ∀ (fuel lo hi : Nat), bnbUp (2 ^ (3 * E + P)) ts T fuel lo hi = true →
      ∀ x : ℝ, (lo : ℝ) ≤ x * 2 ^ E → x * 2 ^ E ≤ (hi : ℝ) → fR E ts x ≤ -(T : ℝ) / 2 ^ P := by
  have leaf : ∀ lo hi : Nat, Nat.ble T (sDn (2 ^ (3 * E + P)) ts lo hi) = true →
      ∀ x : ℝ, (lo : ℝ) ≤ x * 2 ^ E → x * 2 ^ E ≤ (hi : ℝ) → fR E ts x ≤ -(T : ℝ) / 2 ^ P := by
    intro lo hi h x h1 h2
    have hle : T ≤ sDn (2 ^ (3 * E + P)) ts lo hi := Nat.le_of_ble_eq_true h
    have hleR : (T : ℝ) ≤ sDn (2 ^ (3 * E + P)) ts lo hi := by exact_mod_cast hle
    have hs := sDn_sound E lo hi x h1 h2 ts hts
    unfold fR
    have : (T : ℝ) / 2 ^ P ≤ (sDn (2 ^ (3 * E + P)) ts lo hi : ℝ) / 2 ^ P :=
      div_le_div_of_nonneg_right hleR (two_pow_pos' P).le
    rw [neg_div]; linarith
  intro fuel
  induction fuel with
  | zero => intro lo hi h; exact leaf lo hi h
  | succ fuel ih =>
    intro lo hi h x h1 h2
    simp only [bnbUp, Bool.or_eq_true, Bool.and_eq_true, forceNat_eq] at h
    rcases h with h | ⟨_, hl, hr⟩
    · exact leaf lo hi h x h1 h2
    · rcases le_total (x * 2 ^ E) ((Nat.div (Nat.add lo hi) 2 : Nat) : ℝ) with hm | hm
      · exact ih lo _ hl x h1 hm
      · exact ih _ hi hr x hm h2

/-! ### the link with `Prob.shekel` on the cast tables -/

theorem shekel_fold (x : ℝ) : ∀ (l : List (ℝ × ℝ × ℝ)) (acc : ℝ),
    l.foldl (fun res (t : ℝ × ℝ × ℝ) => match t with
      | (ki, ai, ci) => res - 1 / (ki * MathFns.pow (x - ai) 2 + ci)) acc
    = acc - (l.map fun t => 1 / (t.1 * (x - t.2.1) ^ 2 + t.2.2)).sum
  | [], acc => by simp
  | (k, a, c) :: l, acc => by
    simp only [List.foldl_cons, List.map_cons, List.sum_cons]
    rw [shekel_fold x l]
    simp only [BenchReal.pow_two]
    ring

theorem shekel_eq_sum (K A C : List ℝ) (x : ℝ) :
    Prob.shekel K A C x
      = -((List.zip K (List.zip A C)).map fun t => 1 / (t.1 * (x - t.2.1) ^ 2 + t.2.2)).sum := by
  unfold Prob.shekel
  rw [shekel_fold x _ 0, zero_sub]

theorem dyR_eq_scale (E : Nat) (d : Dy) (h : scaleOK E d = true) :
    dyR d = (scale E d : ℝ) / 2 ^ E := by
  obtain ⟨n, k⟩ := d
  simp only [scaleOK, expOf, Bool.and_eq_true, decide_eq_true_eq] at h
  obtain ⟨h0, hk⟩ := h
  unfold dyR Dy.toRat scale
  simp only
  by_cases hn : n = 0
  · simp [hn]
  · rw [if_neg hn] at hk
    rw [if_neg hn]
    have hnat : ((n.toNat : Nat) : ℝ) = (n : ℝ) := by
      have : ((n.toNat : Int) : ℝ) = (n : ℝ) := by rw [Int.toNat_of_nonneg h0]
      exact_mod_cast this
    push_cast
    rw [hnat]
    have : (2 : ℝ) ^ E = 2 ^ (E - k) * 2 ^ k := by rw [← pow_add]; congr 1; omega
    rw [this]
    have h2 : (2 : ℝ) ^ (E - k) ≠ 0 := by positivity
    have h3 : (2 : ℝ) ^ k ≠ 0 := by positivity
    field_simp

theorem termR_scaled (E : Nat) (k a c : Dy) (hk : scaleOK E k = true) (ha : scaleOK E a = true)
    (hc : scaleOK E c = true) (x : ℝ) :
    termR E (scale E k, scale E a, scale E c * 2 ^ (2 * E)) x
      = 1 / (dyR k * (x - dyR a) ^ 2 + dyR c) := by
  unfold termR
  rw [dyR_eq_scale E k hk, dyR_eq_scale E a ha, dyR_eq_scale E c hc]
  simp only
  have : (((scale E c * 2 ^ (2 * E) : Nat) : ℝ)) / 2 ^ (3 * E) = (scale E c : ℝ) / 2 ^ E := by
    push_cast
    rw [show 3 * E = 2 * E + E by ring, pow_add]
    have h2 : (2 : ℝ) ^ (2 * E) ≠ 0 := by positivity
    have h3 : (2 : ℝ) ^ E ≠ 0 := by positivity
    field_simp
  rw [this]

theorem scale_pos (E : Nat) (d : Dy) (_h : scaleOK E d = true) (hp : 0 < d.1) : 0 < scale E d := by
  unfold scale
  rw [if_neg (by omega)]
  have : 0 < d.1.toNat := by omega
  positivity

theorem mem_zip3 {α : Type} {k a c : List α} {t : α × α × α} (h : t ∈ List.zip k (List.zip a c)) :
    t.1 ∈ k ∧ t.2.1 ∈ a ∧ t.2.2 ∈ c := by
  obtain ⟨x, y, z⟩ := t
  have h1 := List.of_mem_zip h
  have h2 := List.of_mem_zip h1.2
  exact ⟨h1.1, h2.1, h2.2⟩

theorem nterms_eq (E : Nat) (k a c : List Dy) :
    nterms E k a c = (List.zip k (List.zip a c)).map
      fun t => (scale E t.1, scale E t.2.1, scale E t.2.2 * 2 ^ (2 * E)) := by
  unfold nterms
  rw [List.zip_map, List.zip_map]
  rfl

theorem tabOK_mem {E : Nat} {k a c : List Dy} (h : tabOK E k a c = true) {t : Dy × Dy × Dy}
    (ht : t ∈ List.zip k (List.zip a c)) :
    scaleOK E t.1 = true ∧ 0 < t.1.1 ∧ scaleOK E t.2.1 = true ∧ scaleOK E t.2.2 = true ∧ 0 < t.2.2.1 := by
  simp only [tabOK, Bool.and_eq_true, List.all_eq_true, decide_eq_true_eq] at h
  obtain ⟨⟨hk, ha⟩, hc⟩ := h
  obtain ⟨m1, m2, m3⟩ := mem_zip3 ht
  exact ⟨(hk _ m1).1, (hk _ m1).2, ha _ m2, (hc _ m3).1, (hc _ m3).2⟩

theorem nterms_pos (E : Nat) (k a c : List Dy) (h : tabOK E k a c = true) :
    ∀ t ∈ nterms E k a c, 0 < t.2.2 := by
  intro t ht
  rw [nterms_eq] at ht
  obtain ⟨s, hs, rfl⟩ := List.mem_map.1 ht
  obtain ⟨_, _, _, h4, h5⟩ := tabOK_mem h hs
  have := scale_pos E s.2.2 h4 h5
  show 0 < scale E s.2.2 * 2 ^ (2 * E)
  positivity

theorem fR_eq_shekel (E : Nat) (k a c : List Dy) (h : tabOK E k a c = true) (x : ℝ) :
    Prob.shekel (k.map dyR) (a.map dyR) (c.map dyR) x = fR E (nterms E k a c) x := by
  rw [shekel_eq_sum]
  unfold fR
  rw [nterms_eq, List.zip_map, List.zip_map, List.map_map, List.map_map]
  congr 2
  apply List.map_congr_left
  intro t ht
  obtain ⟨h1, _, h3, h4, _⟩ := tabOK_mem h ht
  simp only [Function.comp, Prod.map]
  rw [termR_scaled E _ _ _ h1 h3 h4]

/-! ### the certificate -/

theorem qabs_eq (q : ℚ) : qabs q = |q| := by
  unfold qabs
  split
  · rename_i h; rw [abs_of_neg h]
  · rename_i h; rw [abs_of_nonneg (not_lt.1 h)]

theorem qmax1_eq (q : ℚ) : qmax1 q = max 1 q := by
  unfold qmax1
  split
  · rename_i h; rw [max_eq_left h.le]
  · rename_i h; rw [max_eq_right (not_lt.1 h)]

/-- the three clauses of C10 for a one-dimensional function on `[0,10]` with declared minimum value `v`
at the declared point `p` (location radius `51/1024 < 0.05` = 0.5 % of the side) -/
structure ShekelC10 (f : ℝ → ℝ) (v p : ℝ) : Prop where
  point_in_box : 0 ≤ p ∧ p ≤ 10
  value : |f p - v| ≤ 1e-4
  global : ∀ x, 0 ≤ x → x ≤ 10 → v - 2e-3 * max 1 |v| ≤ f x
  location : ∀ x, 0 ≤ x → x ≤ 10 → 51 / 1024 ≤ |x - p| → f p < f x

theorem radius_cast (E : Nat) (hE : 10 ≤ E) : (radius E : ℝ) = 51 / 1024 * 2 ^ E := by
  unfold radius
  push_cast
  have : (2 : ℝ) ^ E = 2 ^ (E - 10) * 2 ^ 10 := by rw [← pow_add]; congr 1; omega
  rw [this]; norm_num; ring

theorem lt_of_blt {a b : Nat} (h : Nat.blt a b = true) : a < b := by
  have : Nat.ble (a + 1) b = true := h
  exact Nat.le_of_ble_eq_true this

/-- the abstract core of the certificate: bounds at `p`, the global threshold, the two outer intervals -/
theorem cert_core (f : ℝ → ℝ) (E : Nat) (hE10 : 10 ≤ E) (X up dn T : Nat) (v : ℚ) (p : ℝ)
    (hpX : p * 2 ^ E = (X : ℝ)) (hX10 : X ≤ 10 * 2 ^ E)
    (hup : -(up : ℝ) / 2 ^ P ≤ f p) (hdn : f p ≤ -(dn : ℝ) / 2 ^ P)
    (hv1 : v - 1 / 10000 ≤ -(up : ℚ) / 2 ^ P) (hv2 : -(dn : ℚ) / 2 ^ P ≤ v + 1 / 10000)
    (hT0 : 0 ≤ (-(v - 2 / 1000 * qmax1 (qabs v)) * 2 ^ P).floor)
    (hT : T = (-(v - 2 / 1000 * qmax1 (qabs v)) * 2 ^ P).floor.toNat)
    (hglob : ∀ x : ℝ, ((0 : Nat) : ℝ) ≤ x * 2 ^ E → x * 2 ^ E ≤ ((10 * 2 ^ E : Nat) : ℝ) → -(T : ℝ) / 2 ^ P ≤ f x)
    (hdnpos : 0 < dn)
    (hL : X < radius E ∨ ∀ x : ℝ, ((0 : Nat) : ℝ) ≤ x * 2 ^ E → x * 2 ^ E ≤ ((X - radius E : Nat) : ℝ) →
      -((dn - 1 : Nat) : ℝ) / 2 ^ P ≤ f x)
    (hR : 10 * 2 ^ E < X + radius E ∨ ∀ x : ℝ, ((X + radius E : Nat) : ℝ) ≤ x * 2 ^ E →
      x * 2 ^ E ≤ ((10 * 2 ^ E : Nat) : ℝ) → -((dn - 1 : Nat) : ℝ) / 2 ^ P ≤ f x) :
    ShekelC10 f (v : ℝ) p := by
  have h2E : (0 : ℝ) < 2 ^ E := by positivity
  have hP : (0 : ℝ) < 2 ^ P := by positivity
  have hX10R : (X : ℝ) ≤ 10 * 2 ^ E := by exact_mod_cast hX10
  have hrad := radius_cast E hE10
  refine ⟨⟨?_, ?_⟩, ?_, ?_, ?_⟩
  · have : (0 : ℝ) ≤ p * 2 ^ E := by rw [hpX]; positivity
    exact nonneg_of_mul_nonneg_left this h2E
  · have : p * 2 ^ E ≤ 10 * 2 ^ E := by rw [hpX]; exact hX10R
    exact le_of_mul_le_mul_right this h2E
  · have c1 : (v : ℝ) - 1 / 10000 ≤ -(up : ℝ) / 2 ^ P := by
      have := (Rat.cast_le (K := ℝ)).2 hv1
      push_cast at this; exact this
    have c2 : -(dn : ℝ) / 2 ^ P ≤ (v : ℝ) + 1 / 10000 := by
      have := (Rat.cast_le (K := ℝ)).2 hv2
      push_cast at this; exact this
    rw [abs_le]; constructor <;> norm_num <;> linarith
  · intro x hx0 hx10
    refine le_trans ?_ (hglob x (by push_cast; positivity) (by push_cast; nlinarith))
    set q : ℚ := -(v - 2 / 1000 * qmax1 (qabs v)) * 2 ^ P with hq
    have hfl : (T : ℝ) ≤ (q : ℝ) := by
      have h1 : ((q.floor.toNat : Nat) : ℤ) = q.floor := Int.toNat_of_nonneg hT0
      have h2 : ((q.floor : ℤ) : ℚ) ≤ q := Rat.floor_le q
      have h3 : ((q.floor : ℤ) : ℝ) ≤ (q : ℝ) := by exact_mod_cast (Rat.cast_le (K := ℝ)).2 h2
      have h4 : ((q.floor.toNat : Nat) : ℝ) = ((q.floor : ℤ) : ℝ) := by
        exact_mod_cast congrArg (Int.cast (R := ℝ)) h1
      rw [hT, h4]; exact h3
    have hqR : (q : ℝ) = -((v : ℝ) - 2 / 1000 * max 1 |(v : ℝ)|) * 2 ^ P := by
      rw [hq, qabs_eq, qmax1_eq]; push_cast; rfl
    rw [le_div_iff₀ hP]
    rw [hqR] at hfl
    norm_num at hfl ⊢
    linarith
  · intro x hx0 hx10 hfar
    have hstrict : -(dn : ℝ) / 2 ^ P < -((dn - 1 : Nat) : ℝ) / 2 ^ P := by
      rw [div_lt_div_iff_of_pos_right hP, Nat.cast_sub hdnpos]; simp
    refine lt_of_le_of_lt hdn (lt_of_lt_of_le hstrict ?_)
    rcases le_abs'.1 hfar with hl | hr
    · have hxs : x * 2 ^ E ≤ (X : ℝ) - radius E := by rw [hrad, ← hpX]; nlinarith
      rcases hL with hlt | hb
      · exfalso
        have : (X : ℝ) < radius E := by exact_mod_cast hlt
        nlinarith
      · by_cases hRX : radius E ≤ X
        · refine hb x (by push_cast; positivity) ?_
          rw [Nat.cast_sub hRX]; exact hxs
        · exfalso
          have : (X : ℝ) < radius E := by exact_mod_cast not_le.1 hRX
          nlinarith
    · have hxs : (X : ℝ) + radius E ≤ x * 2 ^ E := by rw [hrad, ← hpX]; nlinarith
      rcases hR with hlt | hb
      · exfalso
        have : ((10 * 2 ^ E : Nat) : ℝ) < ((X + radius E : Nat) : ℝ) := by exact_mod_cast hlt
        push_cast at this
        nlinarith
      · refine hb x ?_ (by push_cast; nlinarith)
        push_cast; exact hxs

theorem shekelCertE_sound (E : Nat) (hE10 : 10 ≤ E) (k a c : List Dy) (v p : Dy)
    (h : shekelCertE E k a c v p = true) :
    ShekelC10 (Prob.shekel (k.map dyR) (a.map dyR) (c.map dyR)) (dyR v) (dyR p) := by
  simp only [shekelCertE, forceNat_eq, forceTerms_eq, Bool.and_eq_true, Bool.or_eq_true,
    decide_eq_true_eq] at h
  obtain ⟨⟨⟨htab, hp⟩, hX10⟩, ⟨⟨⟨⟨⟨⟨hv1, hv2⟩, hT0⟩, hglob⟩, hdn⟩, hlocL⟩, hlocR⟩⟩ := h
  have hpos := nterms_pos E k a c htab
  have hf : Prob.shekel (k.map dyR) (a.map dyR) (c.map dyR) = fR E (nterms E k a c) :=
    funext fun x => fR_eq_shekel E k a c htab x
  rw [hf]
  have h2E : (0 : ℝ) < 2 ^ E := by positivity
  have hpX' : dyR p * 2 ^ E = (scale E p : ℝ) := by rw [dyR_eq_scale E p hp]; field_simp
  have hup := sUp_sound E _ _ (dyR p) hpX'.ge hpX'.le _ hpos
  have hdnb := sDn_sound E _ _ (dyR p) hpX'.ge hpX'.le _ hpos
  have hfp : fR E (nterms E k a c) (dyR p) = -((nterms E k a c).map fun t => termR E t (dyR p)).sum := rfl
  refine cert_core _ E hE10 (scale E p) _ _ _ v.toRat (dyR p) hpX' (Nat.le_of_ble_eq_true hX10)
    ?_ ?_ hv1 hv2 hT0 rfl (bnb_sound E _ _ hpos 64 0 _ hglob) (lt_of_blt hdn) ?_ ?_
  · rw [hfp, neg_div]; linarith
  · rw [hfp, neg_div]; linarith
  · rcases hlocL with hlt | hb
    · exact Or.inl (lt_of_blt hlt)
    · exact Or.inr (bnb_sound E _ _ hpos 64 0 _ hb)
  · rcases hlocR with hlt | hb
    · exact Or.inl (lt_of_blt hlt)
    · exact Or.inr (bnb_sound E _ _ hpos 64 _ _ hb)

theorem shekelCert_sound (k a c : List Dy) (v p : Dy) (h : shekelCert k a c v p = true) :
    ShekelC10 (Prob.shekel (k.map dyR) (a.map dyR) (c.map dyR)) (dyR v) (dyR p) := by
  unfold shekelCert at h
  rw [forceNat_eq] at h
  exact shekelCertE_sound _ (by unfold expFor; omega) k a c v p h


/-! ### continuity and the existence of a global minimiser near the declared point -/

theorem termR_continuous (E : Nat) (t : NTerm) (hc : 0 < t.2.2) : Continuous (termR E t) := by
  unfold termR
  have hcR : (0 : ℝ) < t.2.2 := by exact_mod_cast hc
  have hk : (0 : ℝ) ≤ t.1 := Nat.cast_nonneg _
  refine Continuous.div continuous_const (by fun_prop) (fun x => ne_of_gt ?_)
  positivity

theorem fR_continuous (E : Nat) : ∀ ts : List NTerm, (∀ t ∈ ts, 0 < t.2.2) → Continuous (fR E ts)
  | [], _ => by unfold fR; simp only [List.map_nil, List.sum_nil, neg_zero]; exact continuous_const
  | t :: ts, h => by
    have ih := fR_continuous E ts (fun t ht => h t (List.mem_cons_of_mem _ ht))
    have ht := termR_continuous E t (h t List.mem_cons_self)
    have : fR E (t :: ts) = fun x => -(termR E t x) + fR E ts x := by
      funext x; unfold fR; simp only [List.map_cons, List.sum_cons]; ring
    rw [this]
    exact ht.neg.add ih

/-- the location clause in the words of C10: there IS a global minimiser on `[0,10]`, and every global
minimiser lies within `51/1024 < 0.05` of the declared point -/
theorem ShekelC10.minimiser {f : ℝ → ℝ} {v p : ℝ} (h : ShekelC10 f v p) (hf : Continuous f) :
    (∃ xs, 0 ≤ xs ∧ xs ≤ 10 ∧ ∀ x, 0 ≤ x → x ≤ 10 → f xs ≤ f x) ∧
    (∀ xs, 0 ≤ xs → xs ≤ 10 → (∀ x, 0 ≤ x → x ≤ 10 → f xs ≤ f x) → |xs - p| < 0.05) := by
  constructor
  · obtain ⟨xs, hxs, hmin⟩ := (isCompact_Icc (a := (0 : ℝ)) (b := 10)).exists_isMinOn
      ⟨0, by norm_num⟩ hf.continuousOn
    exact ⟨xs, hxs.1, hxs.2, fun x h0 h10 => hmin ⟨h0, h10⟩⟩
  · intro xs h0 h10 hmin
    by_contra hne
    have hfar : (51 : ℝ) / 1024 ≤ |xs - p| := by
      have := not_lt.1 hne
      norm_num at this ⊢; linarith
    have := h.location xs h0 h10 hfar
    have := hmin p h.point_in_box.1 h.point_in_box.2
    linarith

theorem shekel_continuous (E : Nat) (k a c : List Dy) (h : tabOK E k a c = true) :
    Continuous (Prob.shekel (k.map dyR) (a.map dyR) (c.map dyR)) := by
  have : Prob.shekel (k.map dyR) (a.map dyR) (c.map dyR) = fR E (nterms E k a c) :=
    funext fun x => fR_eq_shekel E k a c h x
  rw [this]
  exact fR_continuous E _ (nterms_pos E k a c h)

theorem shekelCert_continuous (k a c : List Dy) (v p : Dy) (h : shekelCert k a c v p = true) :
    Continuous (Prob.shekel (k.map dyR) (a.map dyR) (c.map dyR)) := by
  unfold shekelCert at h
  rw [forceNat_eq] at h
  simp only [shekelCertE, forceNat_eq, forceTerms_eq, Bool.and_eq_true] at h
  exact shekel_continuous _ k a c h.1.1.1

end Shk

namespace Shk

/-- function `i` of the Shekel family over ℝ, with the generated tables -/
noncomputable def shekelFn (i : Nat) : ℝ → ℝ :=
  Prob.shekel ((Gen.shekelK i).map dyR) ((Gen.shekelA i).map dyR) ((Gen.shekelC i).map dyR)

theorem shekelOK_cert (i : Nat) (h : shekelOK i = true) :
    shekelCert (Gen.shekelK i) (Gen.shekelA i) (Gen.shekelC i) (Gen.shekelMinValue i) (Gen.shekelMinPoint i)
      = true := by
  unfold shekelOK at h
  rw [forceNat_eq] at h
  exact h

/-- **generic C10 theorem for Shekel**: if the Boolean certificate of function `i` evaluates to `true`
then the three clauses hold over ℝ for `Prob.shekel` with row `i` of the tables -/
theorem shekelOK_sound (i : Nat) (h : shekelOK i = true) :
    ShekelC10 (shekelFn i) (dyR (Gen.shekelMinValue i)) (dyR (Gen.shekelMinPoint i)) ∧
    Continuous (shekelFn i) :=
  ⟨shekelCert_sound _ _ _ _ _ (shekelOK_cert i h), shekelCert_continuous _ _ _ _ _ (shekelOK_cert i h)⟩

end Shk
