import IOptProofs.ProcessBatch
/-!
# An objective that raises in the middle of `Solve`
-/

set_option linter.unusedSectionVars false

section
variable {α : Type} [Add α] [Sub α] [Mul α] [Div α] [Neg α] [LT α] [LE α]
  [DecidableLT α] [DecidableLE α] [OfNat α 0] [OfNat α 1] [OfNat α 2] [OfNat α 4] [Fns α]

namespace AGP.Ctl

/-- forget the characteristic of an item -/
def eraseR (it : Item α) : Item α := { it with R := none }

/-- the recalculation of the characteristics changes nothing but the `R` fields -/
theorem recalcItems_eraseR (r M Z : α) (l : Option (Item α)) (items : List (Item α)) :
    (recalcItems r M Z l items).map eraseR = items.map eraseR := by
  induction items generalizing l with
  | nil => cases l <;> rfl
  | cons it t ih =>
    cases l with
    | none => simp only [recalcItems, List.map_cons, ih]; rfl
    | some l => simp only [recalcItems, List.map_cons, ih]; rfl

theorem recalcAll_items_eraseR (p : Params α) (s : State α) :
    (recalcAll p s).items.map eraseR = s.items.map eraseR := by
  unfold recalcAll
  split
  · exact recalcItems_eraseR _ _ _ _ _
  · rfl

theorem recalcAll_items_of_not_recalc (p : Params α) (s : State α) (h : s.recalc = false) :
    (recalcAll p s).items = s.items := by
  unfold recalcAll; simp [h]

/-- looking an item up by id commutes with forgetting the characteristics -/
theorem findItem_eraseR {l l' : List (Item α)} (h : l'.map eraseR = l.map eraseR) (id : Nat) :
    (findItem l' id).map eraseR = (findItem l id).map eraseR := by
  induction l generalizing l' with
  | nil => cases l' with
    | nil => rfl
    | cons a t => simp at h
  | cons b t ih =>
    cases l' with
    | nil => simp at h
    | cons a t' =>
      simp only [List.map_cons, List.cons.injEq] at h
      obtain ⟨hab, ht⟩ := h
      have hid : a.id = b.id := by
        show (eraseR a).id = (eraseR b).id
        rw [hab]
      simp only [findItem, List.find?_cons, hid]
      cases hb : (b.id == id)
      · exact ih ht
      · simpa using hab

end AGP.Ctl

namespace Proc
open AGP AGP.Ctl

theorem RunPrefix.uncons {p : Params α} {f : Nat → List α → Option α} {ps psj : PState α} {j : Nat} {ids : List Nat}
    (h : RunPrefix p f ps (j + 1) psj ids) :
    ∃ ps1 id ids', stopNow p ps = false ∧ oneIteration p f ps = .ok (ps1, id) ∧ ids = id :: ids' ∧
      RunPrefix p f ps1 j psj ids' := by
  obtain ⟨ps0, ids0, h0, hs0⟩ := h.notStop 0 (by omega)
  simp only [iterN, Except.ok.injEq, Prod.mk.injEq] at h0
  obtain ⟨rfl, -⟩ := h0
  have hrun := h.run
  rw [iterN] at hrun
  split at hrun
  · cases hrun
  · next ps1 id h1 =>
    split at hrun
    · cases hrun
    · next psj' ids' hj =>
      cases hrun
      refine ⟨ps1, id, ids', hs0, h1, rfl, hj, ?_⟩
      intro i hi
      obtain ⟨psi, idsi, hri, hst⟩ := h.notStop (i + 1) (by omega)
      rw [iterN, h1] at hri
      simp only [] at hri
      split at hri
      · cases hri
      · next psi' idsi' hri' => cases hri; exact ⟨psi, idsi', hri', hst⟩

/-- the loop of `Solve` walks along any prefix of the canonical sequence in which the criterion does not hold -/
theorem solveLoop_skip {p : Params α} {f : Nat → List α → Option α} (fuel : Nat) :
    ∀ (j : Nat) (ps psj : PState α) (ids : List Nat), RunPrefix p f ps j psj ids →
      solveLoop p f (j + fuel) ps = solveLoop p f fuel (psj.appendLog (endEach ids)) := by
  intro j
  induction j with
  | zero =>
    intro ps psj ids h
    have := h.run
    simp only [iterN, Except.ok.injEq, Prod.mk.injEq] at this
    obtain ⟨rfl, rfl⟩ := this
    simp [endEach, PState.appendLog]
  | succ j ih =>
    intro ps psj ids h
    obtain ⟨ps1, id, ids', hs, h1, rfl, hpre⟩ := h.uncons
    have hm1 := (oneIteration_ok_counters h1).1
    rw [show j + 1 + fuel = (j + fuel) + 1 by omega, solveLoop_succ, hs, h1]
    simp only [Bool.false_eq_true, if_false]
    obtain ⟨psj', hpre', hcj⟩ := hpre.congr (ps' := ps1.appendLog [Event.endIteration [id]]) (PState.appendLog_core _ _).symm
    rw [ih _ _ _ hpre']
    congr 1
    apply PState.ext_core_log
    · simpa using hcj
    · have l1 := (iterN_ok_some hm1 hpre.run).2
      have l2 := (iterN_ok_some (ps := ps1.appendLog [Event.endIteration [id]]) hm1 hpre'.run).2
      simp [l1, l2, endEach]

/-- one pass only looks at the oracle at the current call index -/
theorem oneIteration_oracle_congr {p : Params α} {f g : Nat → List α → Option α} {ps : PState α}
    (h : ∀ pt, f ps.calls pt = g ps.calls pt) : oneIteration p f ps = oneIteration p g ps := by
  have : f ps.calls = g ps.calls := funext h
  rw [oneIteration_eq, oneIteration_eq, this]

theorem iterN_oracle_congr {p : Params α} {f g : Nat → List α → Option α} {n : Nat} {ps : PState α}
    (h : ∀ j pt, ps.calls ≤ j → j < ps.calls + n → f j pt = g j pt) : iterN p f n ps = iterN p g n ps := by
  induction n generalizing ps with
  | zero => rfl
  | succ n ih =>
    rw [iterN, iterN, oneIteration_oracle_congr (f := f) (g := g) (fun pt => h _ pt (Nat.le_refl _) (by omega))]
    cases h1 : oneIteration p g ps with
    | error x => rfl
    | ok x =>
      obtain ⟨ps1, id⟩ := x
      simp only []
      have hc := (oneIteration_ok_counters h1).2.2.2.2.1
      rw [ih (fun j pt h1 h2 => h j pt (by omega) (by omega))]

theorem RunPrefix.oracle_congr {p : Params α} {f g : Nat → List α → Option α} {ps psj : PState α} {j : Nat} {ids : List Nat}
    (h : ∀ i pt, ps.calls ≤ i → i < ps.calls + j → f i pt = g i pt) (hg : RunPrefix p g ps j psj ids) :
    RunPrefix p f ps j psj ids := by
  constructor
  · rw [iterN_oracle_congr h]; exact hg.run
  · intro i hi
    obtain ⟨psi, idsi, hr, hst⟩ := hg.notStop i hi
    refine ⟨psi, idsi, ?_, hst⟩
    rw [iterN_oracle_congr (fun i' pt h1 h2 => h i' pt h1 (by omega))]; exact hr

/-- prefixes of a run prefix -/
theorem RunPrefix.take {p : Params α} {f : Nat → List α → Option α} {ps psj : PState α} {j : Nat} {ids : List Nat}
    (h : RunPrefix p f ps j psj ids) (i : Nat) (hi : i < j) :
    ∃ psi idsi ps' id, RunPrefix p f ps i psi idsi ∧ stopNow p psi = false ∧ oneIteration p f psi = .ok (ps', id) := by
  obtain ⟨psi, idsi, hri, hst⟩ := h.notStop i hi
  have hrun := h.run
  rw [show j = i + ((j - i - 1) + 1) by omega, iterN_add, hri] at hrun
  simp only [iterN] at hrun
  cases ho : oneIteration p f psi with
  | error x => rw [ho] at hrun; cases hrun
  | ok x =>
    obtain ⟨ps', id⟩ := x
    exact ⟨psi, idsi, ps', id, ⟨hri, fun i' hi' => h.notStop i' (by omega)⟩, hst, ho⟩

/-- the number of trials reported after `Solve` from a fresh solver is the length of the run prefix it followed -/
theorem solve_fresh_nTrials {p : Params α} {g : Nat → List α → Option α} {refine : PState α → Option (LocalResult α)} :
    ∃ K psK ids, RunPrefix p g {} K psK ids ∧ (solve p g refine {}).nTrials = K ∧ K ≤ p.itersLimit := by
  have hfuel : remaining p ({} : PState α) < p.itersLimit + 1 := Nat.lt_succ_of_le (remaining_le p _)
  obtain ⟨K, psK, ids, hpre, hcase⟩ := solveLoop_spec p g _ {} hfuel
  have hK : psK.nTrials = K := by rw [(iterN_counters hpre.run).2.1]; exact Nat.zero_add K
  have hle : K ≤ p.itersLimit := by
    rcases Nat.eq_zero_or_pos K with rfl | h
    · exact Nat.zero_le _
    · have := hpre.iters_le.2 h
      have h0 : ({} : PState α).iters = 0 := rfl
      omega
  refine ⟨K, psK, ids, hpre, ?_, hle⟩
  rw [solve_eq]
  show (refineStep refine _).nTrials = K
  rw [(refineStep_fields (p := p) refine _).2.2.2.2.1]
  rcases hcase with ⟨-, -, X, hsl, hc, -⟩ | ⟨-, pe, e, X, herr, -, hsl, hc, -⟩
  · rw [hsl]; show X.nTrials = K
    rw [← hK]; simp [PState.nTrials, (PState.core_eq_iff.1 hc).1]
  · rw [hsl]; show X.nTrials = K
    rw [← hK, ← (oneIteration_error_counters herr).2.1]; simp [PState.nTrials, (PState.core_eq_iff.1 hc).1]

/-- **Failure containment.**  The objective `f` raises exactly at call index `k - 1` (its `k`-th call, `k ≥ 2`); `g` is any
oracle that agrees with `f` at all other indices, and the `g`-run of `Solve` makes at least `k` trials.  Then `Solve`
with `f` ends its `try` block in the state `X` described explicitly from the state `psk` of the `g`-run after `k - 1`
iterations and the selection `pr` made there. -/
theorem fail_contained {p : Params α} {f g : Nat → List α → Option α} {k : Nat} (hk : 2 ≤ k)
    (hf : ∀ j pt, f j pt = none ↔ j = k - 1) (hg : ∀ j pt, j ≠ k - 1 → g j pt = f j pt)
    (hK : k ≤ (solve p g (fun _ => none) {}).nTrials) :
    ∃ psk s pr, iterN p g (k - 1) {} = .ok (psk, List.range' 2 (k - 1)) ∧ iterN p f (k - 1) {} = .ok (psk, List.range' 2 (k - 1)) ∧
      psk.m = some s ∧ prepare p s = .ok pr ∧ f (k - 1) pr.point = none ∧
      psk.log = [Event.beforeStart] ∧ psk.calls = k - 1 ∧ psk.evals.length = k - 1 ∧ psk.nTrials = k - 1 ∧
      stopNow p psk = false ∧
      ∀ refine : PState α → Option (LocalResult α),
        solve p f refine {} =
          (refineStep refine
            { m := some pr.s, log := [Event.beforeStart] ++ endEach (List.range' 2 (k - 1)) ++ [Event.exceptionPrinted],
              evals := psk.evals, nLocal := 0, calls := k }).appendLog
          [Event.methodStop (stopCond p pr.s)] := by
  obtain ⟨K, psK, idsK, hpreG, hKn, hKL⟩ := solve_fresh_nTrials (p := p) (g := g) (refine := fun _ => none)
  rw [hKn] at hK
  obtain ⟨psk, idsk, ps', id, hpreg, hst, hog⟩ := hpreG.take (k - 1) (by omega)
  have h0c : ({} : PState α).calls = 0 := rfl
  have hpref : RunPrefix p f {} (k - 1) psk idsk := by
    refine hpreg.oracle_congr (fun i pt h1 h2 => ?_)
    rw [h0c] at h2
    exact (hg i pt (by omega)).symm
  obtain ⟨c1, c2, c3, c4, -, c6, -⟩ := iterN_counters hpreg.run
  have hids : idsk = List.range' 2 (k - 1) := (iterN_ids_evals hpreg.run).1
  subst hids
  have hlog : psk.log = [Event.beforeStart] := by
    rw [iterN_log hpreg.run]
    have : k - 1 = (k - 2) + 1 := by omega
    rw [this]; rfl
  have hcalls : psk.calls = k - 1 := by rw [c3, h0c]; omega
  have hnl : psk.nLocal = 0 := c6
  have hrf : psk.refined = none := iterN_ok_refined hpreg.run
  have hiters : psk.iters = k - 1 := by rw [c1]; exact Nat.zero_add _
  have hm : psk.m ≠ none := by
    intro h
    have : psk.iters = 0 := by simp [PState.iters, h]
    omega
  obtain ⟨-, -, pt, z, -, -, hh⟩ := oneIteration_ok hog
  rcases hh with ⟨hm', -⟩ | ⟨s, pr, hms, hpr, -, -, -, -⟩
  · exact absurd hm' hm
  have hfail : f (k - 1) pr.point = none := (hf _ _).2 rfl
  refine ⟨psk, s, pr, hpreg.run, hpref.run, hms, hpr, hfail, hlog, hcalls, by rw [c4]; exact Nat.zero_add _,
    by rw [c2]; exact Nat.zero_add _, hst, fun refine => ?_⟩
  have hX : (solveLoop p f (p.itersLimit + 1) ({} : PState α)).1 =
      { m := some pr.s, log := [Event.beforeStart] ++ endEach (List.range' 2 (k - 1)) ++ [Event.exceptionPrinted],
        evals := psk.evals, nLocal := 0, calls := k } := by
    have hfuel : p.itersLimit + 1 = (k - 1) + ((p.itersLimit - k + 1) + 1) := by omega
    rw [hfuel, solveLoop_skip _ _ _ _ _ hpref, solveLoop_succ]
    have hst' : stopNow p (psk.appendLog (endEach (List.range' 2 (k - 1)))) = false := hst
    rw [hst']
    simp only [Bool.false_eq_true, if_false]
    rw [oneIteration_eq]
    simp only [PState.appendLog_m, PState.appendLog_calls, hms, hpr, hcalls, hfail]
    have hk1 : k - 1 + 1 = k := by omega
    simp [PState.appendLog, hlog, hnl, hk1, hrf]
  rw [solve_eq, hX, (refineStep_fields (p := p) refine _).2.2.2.2.2.2.2.1]
  rfl

end Proc
end
