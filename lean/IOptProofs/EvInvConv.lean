import IOptProofs.EvInv
/-!
# Integer layer: the forward step inverts the backward step (worker a2)

For a valid state `s` and an arbitrary sign vector `u0`, the digit `d` recovered by `invStep`
satisfies `d < 2^n` and `step n s d = ((invStep n s u0).1, u0)`.
-/

namespace Ev.Inv

theorem length_zipWith_mul (a w : List Int) (h : a.length = w.length) :
    (List.zipWith (· * ·) a w).length = a.length := by
  simp [h]

/-- unpacked converse finite facts -/
theorem numbr_facts {n : Nat} (hn : Ev.DimOK n) {u : List Int} (hl : u.length = n)
    (hu : pm1 u = true) :
    (numbr n u).1 < 2^n ∧ node n (numbr n u).1 = ((numbr n u).2.1, u, (numbr n u).2.2) := by
  have hm := mem_allSigns n u hl hu
  have h : numbrOK n u = true := numbrOK_of_dimOK hn hm
  simpa [numbrOK] using h

/-- `__CalculateNode` inverts `__CalculateNumbr`: for a sign vector `u`, with
`(d, l, v) = numbr n u`: `d < 2^n` and `node n d = (l, u, v)` -/
theorem node_numbr {n : Nat} (hn : Ev.DimOK n) {u : List Int} (hl : u.length = n)
    (hu : pm1 u = true) : node n (numbr n u).1 = ((numbr n u).2.1, u, (numbr n u).2.2) :=
  (numbr_facts hn hl hu).2

theorem invStep_fst (n : Nat) (s : St) (u0 : List Int) : (invStep n s u0).1 =
    ⟨relabel (numbr n (swap0 (List.zipWith (· * ·) u0 s.iw) s.it)).2.1 s.it,
      List.zipWith (fun w v => w * (-v)) s.iw
        (swap0 (numbr n (swap0 (List.zipWith (· * ·) u0 s.iw) s.it)).2.2 s.it)⟩ := rfl

theorem invStep_snd (n : Nat) (s : St) (u0 : List Int) : (invStep n s u0).2 =
    (numbr n (swap0 (List.zipWith (· * ·) u0 s.iw) s.it)).1 := rfl

/-- the converse of `invStep_step` -/
theorem step_invStep {n : Nat} (hn : Ev.DimOK n) {s : St} (hs : Valid n s) {u0 : List Int}
    (hl : u0.length = n) (hu : pm1 u0 = true) :
    (invStep n s u0).2 < 2^n ∧ step n s (invStep n s u0).2 = ((invStep n s u0).1, u0) := by
  obtain ⟨hit, hwl, hw⟩ := hs
  have hzl : (List.zipWith (· * ·) u0 s.iw).length = n := by simp [hl, hwl]
  have hul : (swap0 (List.zipWith (· * ·) u0 s.iw) s.it).length = n := by
    rw [length_swap0, hzl]
  have hup : pm1 (swap0 (List.zipWith (· * ·) u0 s.iw) s.it) = true :=
    pm1_swap0 _ _ (by rw [hzl]; exact hit) (pm1_zipWith_mul _ _ hu hw)
  obtain ⟨hlt, hnode⟩ := numbr_facts hn hul hup
  rw [invStep_snd]
  refine ⟨hlt, ?_⟩
  have e1 : (step n s (numbr n (swap0 (List.zipWith (· * ·) u0 s.iw) s.it)).1).2 = u0 := by
    rw [step_snd, hnode]
    simp only
    rw [swap0_swap0 _ _ (by rw [hzl]; exact hit)]
    exact zipWith_mul_cancel _ _ (by rw [hl, hwl]) hw
  have e2 : (step n s (numbr n (swap0 (List.zipWith (· * ·) u0 s.iw) s.it)).1).1 =
      (invStep n s u0).1 := by
    rw [step_fst, invStep_fst, hnode]
  exact Prod.ext e2 e1

end Ev.Inv
