import IOptProofs.GklsClass
import Mathlib.Tactic.IntervalCases
/-!
# Kernel-decided certificates of the 100 regenerated GKLS data sets of dimension 3

`Gkls.Cert 3 k` = well-formedness `WF` + class clauses `ClassOK` + identity (`dim = 3`, `number = k`).
One lemma per block of ten function numbers (`decide +kernel`: exact integer arithmetic in the kernel).
-/

namespace Gkls
set_option maxRecDepth 100000

theorem cert3_0 : ∀ k ∈ List.range' 1 10, Cert 3 k = true := by decide +kernel
theorem cert3_1 : ∀ k ∈ List.range' 11 10, Cert 3 k = true := by decide +kernel
theorem cert3_2 : ∀ k ∈ List.range' 21 10, Cert 3 k = true := by decide +kernel
theorem cert3_3 : ∀ k ∈ List.range' 31 10, Cert 3 k = true := by decide +kernel
theorem cert3_4 : ∀ k ∈ List.range' 41 10, Cert 3 k = true := by decide +kernel
theorem cert3_5 : ∀ k ∈ List.range' 51 10, Cert 3 k = true := by decide +kernel
theorem cert3_6 : ∀ k ∈ List.range' 61 10, Cert 3 k = true := by decide +kernel
theorem cert3_7 : ∀ k ∈ List.range' 71 10, Cert 3 k = true := by decide +kernel
theorem cert3_8 : ∀ k ∈ List.range' 81 10, Cert 3 k = true := by decide +kernel
theorem cert3_9 : ∀ k ∈ List.range' 91 10, Cert 3 k = true := by decide +kernel

/-- every data set of dimension 3 passes the certificate -/
theorem cert3 : ∀ k ∈ List.range' 1 100, Cert 3 k = true := by
  apply range_blocks
  intro b hb
  interval_cases b
  · exact cert3_0
  · exact cert3_1
  · exact cert3_2
  · exact cert3_3
  · exact cert3_4
  · exact cert3_5
  · exact cert3_6
  · exact cert3_7
  · exact cert3_8
  · exact cert3_9

end Gkls
