import IOptProofs.GklsCert3a
import IOptProofs.GklsCert3b
import Mathlib.Tactic.IntervalCases
/-!
# All 100 regenerated GKLS data sets of dimension 3 pass the certificate
-/

namespace Gkls

/-- every data set of dimension 3 passes the certificate -/
theorem cert3 : ∀ k ∈ List.range' 1 100, Cert 3 k = true := by
  apply range_blocks5
  intro b hb
  interval_cases b
  · exact cert3_0
  · exact cert3_1
  · exact cert3_2
  · exact cert3_3
  · exact cert3_4
  · exact cert3_5
  · exact cert3_6
  · exact cert3_7
  · exact cert3_8
  · exact cert3_9
  · exact cert3_10
  · exact cert3_11
  · exact cert3_12
  · exact cert3_13
  · exact cert3_14
  · exact cert3_15
  · exact cert3_16
  · exact cert3_17
  · exact cert3_18
  · exact cert3_19

end Gkls
