import IOptProofs.S3SoundMain
import Mathlib.Topology.Algebra.Order.Field
import Mathlib.Topology.Order.Compact
import Mathlib.Analysis.SpecialFunctions.Trigonometric.Basic
import Mathlib.Analysis.SpecialFunctions.Exp
import Mathlib.Analysis.Real.Pi.Bounds
import Mathlib.Tactic.FunProp
/-!
# StronginC3: the feasible set (all three constraints) is compact and non-empty, the objective is continuous
-/

namespace S3

/-- the feasible set of StronginC3: the box `[0,4] × [-1,3]` and the three constraints -/
def Feasible (x1 x2 : ℝ) : Prop :=
  0 ≤ x1 ∧ x1 ≤ 4 ∧ -1 ≤ x2 ∧ x2 ≤ 3 ∧ g0 x1 x2 ≤ 0 ∧ g1 x1 x2 ≤ 0 ∧ g2 x1 x2 ≤ 0

/-- `g2 ≤ 0` as soon as `x2 ≤ 1.5` and the angle `6.283·(x1 - 1.75)` lies in `[-5.2, -4] ⊂ [-2π, -π]`
(there the sine is non-negative) -/
theorem g2_nonpos (x1 x2 : ℝ) (hx2 : x2 ≤ 3 / 2) (h1 : -(52 / 10) ≤ c6283 * (x1 - 7 / 4))
    (h2 : c6283 * (x1 - 7 / 4) ≤ -4) : g2 x1 x2 ≤ 0 := by
  rw [g2_eq]
  have hpi3 := Real.pi_gt_three
  have hpi4 := Real.pi_le_four
  have hs : 0 ≤ Real.sin (c6283 * (x1 - 7 / 4)) := by
    rw [← Real.sin_add_two_pi]
    exact Real.sin_nonneg_of_nonneg_of_le_pi (by linarith) (by linarith)
  linarith

theorem w_feasible : Feasible w1 w2 := by
  refine ⟨?_, ?_, ?_, ?_, ?_, ?_, ?_⟩
  · unfold w1; norm_num
  · unfold w1; norm_num
  · unfold w2; norm_num
  · unfold w2; norm_num
  · rw [g0_eq]; unfold w1 w2 c001 c22 c12; norm_num
  · rw [g1_eq]; unfold w1 w2 c12; norm_num
  · apply g2_nonpos
    · unfold w2; norm_num
    · unfold w1 c6283; norm_num
    · unfold w1 c6283; norm_num

/-- the declared point itself is feasible (`g1 ≈ -4.7e-5` there: just inside) -/
theorem p_feasible : Feasible pR pR := by
  refine ⟨?_, ?_, ?_, ?_, ?_, ?_, ?_⟩
  · rw [pR_eq]; norm_num
  · rw [pR_eq]; norm_num
  · rw [pR_eq]; norm_num
  · rw [pR_eq]; norm_num
  · rw [g0_eq, pR_eq]; unfold c001 c22 c12; norm_num
  · rw [g1_eq, pR_eq]; unfold c12; norm_num
  · apply g2_nonpos
    · rw [pR_eq]; norm_num
    · rw [pR_eq]; unfold c6283; norm_num
    · rw [pR_eq]; unfold c6283; norm_num

theorem f_continuous : Continuous fun q : ℝ × ℝ => f q.1 q.2 := by
  simp only [f_eq]
  unfold A B t1 t2
  fun_prop

theorem g0_continuous : Continuous fun q : ℝ × ℝ => g0 q.1 q.2 := by
  simp only [g0_eq]; fun_prop

theorem g1_continuous : Continuous fun q : ℝ × ℝ => g1 q.1 q.2 := by
  simp only [g1_eq]; fun_prop

theorem g2_continuous : Continuous fun q : ℝ × ℝ => g2 q.1 q.2 := by
  simp only [g2_eq]; fun_prop

/-- the feasible set as a subset of the plane -/
def feasSet : Set (ℝ × ℝ) := {q | Feasible q.1 q.2}

theorem feasSet_compact : IsCompact feasSet := by
  have hbox : IsCompact ((Set.Icc (0 : ℝ) 4) ×ˢ (Set.Icc (-1 : ℝ) 3)) := isCompact_Icc.prod isCompact_Icc
  have h0 : IsClosed {q : ℝ × ℝ | g0 q.1 q.2 ≤ 0} := isClosed_le g0_continuous continuous_const
  have h1 : IsClosed {q : ℝ × ℝ | g1 q.1 q.2 ≤ 0} := isClosed_le g1_continuous continuous_const
  have h2 : IsClosed {q : ℝ × ℝ | g2 q.1 q.2 ≤ 0} := isClosed_le g2_continuous continuous_const
  have := ((hbox.inter_right h0).inter_right h1).inter_right h2
  convert this using 1
  ext q
  simp only [feasSet, Feasible, Set.mem_ofPred_eq, Set.mem_inter_iff, Set.mem_prod, Set.mem_Icc]
  tauto

/-- a feasible global minimiser exists -/
theorem exists_minimiser : ∃ y1 y2 : ℝ, Feasible y1 y2 ∧ ∀ x1 x2 : ℝ, Feasible x1 x2 → f y1 y2 ≤ f x1 x2 := by
  obtain ⟨q, hq, hmin⟩ := feasSet_compact.exists_isMinOn ⟨(w1, w2), w_feasible⟩ f_continuous.continuousOn
  exact ⟨q.1, q.2, hq, fun x1 x2 hx => hmin (show (x1, x2) ∈ feasSet from hx)⟩

end S3
