import IOptProofs.BenchShekelDefs
/-! kernel-evaluated C10 certificates of the Shekel functions 800..849 (one block per file, identical template) -/
namespace Shk
set_option maxRecDepth 100000 in
theorem shekel_block_16 : ∀ i ∈ List.range' 800 50, shekelOK i = true := by decide +kernel
end Shk
