import IOptGen.ConsoleSrc
/-!
# A semantics for the console reporting chain of `IOptGen/ConsoleSrc.lean`

`IOptGen/ConsoleSrc.lean` is regenerated on every run from the SOURCE TEXT of `iOpt/method/listener.py` and
`iOpt/output_system/console/console_output.py`: the statement trees (`Gen.ProcSrc.Stmt`) of every method of
`ConsoleFullOutputListener` and `FunctionConsoleFullOutput`, and for every method of `ConsoleOutputer` its parameter list, its
top-level locals, the ordered list of its `print` statements (`Gen.Console.PrintStmt`) and the remaining statements.

This file gives that material a meaning, by structural recursion over the trees, GENERIC in the trees (the interpreter never looks
at which method it is executing).  Source strings are opaque keys of small tables (`litTable`, `exprTable`, `getterTable`,
`condTable`, `attrTargets`, `localTargets`, `layoutLocals`, `otherTable`, `decoExprs`, `widthExprs`, `endArgs`, and the keys of
`Prog.meths` / `Prog.ctors`); whatever is not in a table - and every statement form the chain does not use (`for`, `while`, `try`,
`return`, `other`) - makes the run stuck (`none`).

WHAT IS MODELLED.  Values are SYMBOLIC: the arguments a callback is handed are opaque objects (`Val.solution`, `Val.savedNewPoints`,
`Val.method`, …); reading a field of such an object gives a *field reference* (`FieldRef`: `solution.numberOfGlobalTrials ↦ nGlobal`,
…).  The only concrete data are the integers `self.iterNum` / `self.iters` and the mode string.  A rendered line is
`Line.field label what fmt`: WHICH field (`what`) is shown under WHICH label with which format specification, in which order; rules
and headings are `Line.deco`.  Python's `str.format` rendering itself (padding, `.8f` rounding, `str(list)`) is NOT modelled, nor is
the layout arithmetic (`dim`, `width=…`, `end=…`): those strings are only checked against the tables `layoutLocals`, `widthExprs`,
`endArgs`.

The generated printer data keep `locals`, `prints` and `other` statements as three separate lists: their relative order inside the
method body is not available here (all locals / other statements are taken to precede the prints that use them).

No Mathlib, no proofs: everything here is executable.  `IOptProofs/ConsoleInterp.lean` proves what the generated trees render.
-/

namespace ConsoleInterp
open Gen.ProcSrc Gen.Console

/-! ### the abstract report -/

/-- what a `Solution` object shows to a reader of its fields: `numberOfGlobalTrials`, `numberOfLocalTrials`, `solvingTime`,
`solutionAccuracy`, `bestTrials[0].functionValues[0].value`, `bestTrials[0].point.floatVariables` -/
structure SolutionView (V P : Type) where
  nGlobal : Nat
  nLocal : Nat
  time : V
  accuracy : V
  value : V
  point : P

/-- a reference to a printable datum reachable from the arguments of a callback -/
inductive FieldRef where
  /-- the `status` argument of `OnMethodStop` -/
  | status
  /-- `solution.numberOfGlobalTrials` of the `solution` argument -/
  | nGlobal
  /-- `solution.numberOfLocalTrials` -/
  | nLocal
  /-- `solution.solvingTime` -/
  | time
  /-- `solution.solutionAccuracy` -/
  | accuracy
  /-- `solution.bestTrials[0].point.floatVariables` -/
  | point
  /-- `solution.bestTrials[0].functionValues[0].value` -/
  | value
  /-- `savedNewPoints[0].GetY().floatVariables` of the `savedNewPoints` argument -/
  | newPoint
  /-- `savedNewPoints[0].GetZ()` -/
  | newValue
  /-- a concrete integer; the only integers that reach a `print` are values of the counter `self.iterNum` of the
  `FunctionConsoleFullOutput` object at the time of the call -/
  | num (k : Nat)
  /-- `method.parameters.eps`, `.r`, `.epsR`, `.itersLimit` -/
  | eps | r | epsR | itersLimit
  /-- `method.task.problem.numberOfFloatVariables`, `.numberOfObjectives`, `.numberOfConstraints`,
  `.lowerBoundOfFloatVariables`, `.upperBoundOfFloatVariables` -/
  | dim | nObjectives | nConstraints | lower | upper
  /-- the string `tempstr` that the loop of `printInit` builds from the lower and upper bounds (opaque) -/
  | boundsString
  deriving Repr, DecidableEq

/-- one rendered line (piece of a line, when the `print` has an `end=` argument) -/
inductive Line where
  /-- `fmt.format(label, what, …)`; `label = ""` and `fmt` with one placeholder for a `print` of a single value -/
  | field (label : String) (what : FieldRef) (fmt : String)
  /-- a rule (`text` = the source expression, e.g. `'-' * (30 + 20 * dim + 2)`), a heading (`text` = the literal, unquoted), or an
  empty line (`text = ""`) -/
  | deco (text : String)
  deriving Repr, DecidableEq

/-- (label, field) of a field line -/
def Line.entry? : Line → Option (String × FieldRef)
  | .field l w _ => some (l, w)
  | .deco _ => none

/-- the (label, field) pairs of a report, in order, decoration dropped -/
def entries (ls : List Line) : List (String × FieldRef) := ls.filterMap Line.entry?

/-- what a reader sees in the place of a field reference -/
inductive Shown (V P : Type) where
  | nat (n : Nat)
  | val (v : V)
  | pt (p : P)
  | flag (b : Bool)
  /-- not a datum of the solution / status / new trial (a method parameter, a problem attribute) -/
  | other (f : FieldRef)

/-- the data a callback is handed: the `Solution`, the status flag, point and value of `savedNewPoints[0]` -/
structure Args (V P : Type) where
  solution : SolutionView V P
  status : Bool
  newPoint : P
  newValue : V

/-- resolve a field reference against the ARGUMENTS of the callback -/
def FieldRef.shown {V P : Type} (a : Args V P) : FieldRef → Shown V P
  | .status => .flag a.status
  | .nGlobal => .nat a.solution.nGlobal
  | .nLocal => .nat a.solution.nLocal
  | .time => .val a.solution.time
  | .accuracy => .val a.solution.accuracy
  | .point => .pt a.solution.point
  | .value => .val a.solution.value
  | .newPoint => .pt a.newPoint
  | .newValue => .val a.newValue
  | .num k => .nat k
  | f => .other f

/-- the report as read: (label, datum shown) in order -/
def shownEntries {V P : Type} (a : Args V P) (ls : List Line) : List (String × Shown V P) :=
  (entries ls).map fun e => (e.1, e.2.shown a)

/-! ### values, objects, state -/

/-- the three objects of the chain (one of each) -/
inductive Obj where
  /-- the `ConsoleFullOutputListener` -/
  | listener
  /-- the `FunctionConsoleFullOutput` it creates in `BeforeMethodStart` -/
  | fcfo
  /-- the `ConsoleOutputer` of the latter -/
  | outputer
  deriving Repr, DecidableEq

inductive Val where
  | obj (o : Obj)
  /-- `None` -/
  | none_
  /-- the opaque arguments of the callbacks, and the two attributes of `method` that are read -/
  | searchData | solution | savedNewPoints | method | problem | parameters
  | field (f : FieldRef)
  | nat (n : Nat)
  | str (s : String)
  deriving Repr, DecidableEq

/-- what can be handed to `str.format` -/
def Val.toRef : Val → Option FieldRef
  | .field f => some f
  | .nat k => some (.num k)
  | _ => none

/-- the attributes of the objects: (object, attribute name) ↦ value -/
abbrev Heap := List ((Obj × String) × Val)

def Heap.get (h : Heap) (o : Obj) (a : String) : Option Val := h.lookup (o, a)

/-- in-place update (appended if absent) -/
def Heap.set : Heap → Obj × String → Val → Heap
  | [], k, v => [(k, v)]
  | (k', v') :: t, k, v => if k' = k then (k, v) :: t else (k', v') :: Heap.set t k v

/-- a freshly constructed object has no attributes -/
def Heap.clear (h : Heap) (o : Obj) : Heap := h.filter fun kv => kv.1.1 != o

structure St where
  heap : Heap := []
  /-- everything printed so far -/
  out : List Line := []
  deriving Repr, DecidableEq

/-- one activation: the state and the Python locals (parameters included) -/
structure Frame where
  st : St
  env : List (String × Val)

/-! ### expressions -/

inductive Sel where
  /-- read an attribute of an object -/
  | attr (a : String)
  /-- read a field of an opaque argument -/
  | get (f : FieldRef)
  /-- `method.task.problem` -/
  | problemOf
  /-- `method.parameters` -/
  | parametersOf
  /-- `+ 1` -/
  | succ
  deriving Repr, DecidableEq

/-- the opaque object a field belongs to -/
def fieldOwner : FieldRef → Option Val
  | .nGlobal | .nLocal | .time | .accuracy | .point | .value => some .solution
  | .newPoint | .newValue => some .savedNewPoints
  | .eps | .r | .epsR | .itersLimit => some .parameters
  | .dim | .nObjectives | .nConstraints | .lower | .upper => some .problem
  | _ => none

def applySel (h : Heap) : Sel → Val → Option Val
  | .attr a, .obj o => h.get o a
  | .get f, v => if fieldOwner f = some v then some (.field f) else none
  | .problemOf, .method => some .problem
  | .parametersOf, .method => some .parameters
  | .succ, .nat n => some (.nat (n + 1))
  | _, _ => none

def applyPath (h : Heap) : List Sel → Val → Option Val
  | [], v => some v
  | s :: p, v =>
    match applySel h s v with
    | some v' => applyPath h p v'
    | none => none

/-- literals -/
def litTable : List (String × Val) := [("None", .none_), ("1", .nat 1)]

/-- the compound expressions: source text ↦ (the variable it starts from, the selectors applied) -/
def exprTable : List (String × (String × List Sel)) := [
  ("solution.numberOfGlobalTrials", ("solution", [.get .nGlobal])),
  ("solution.numberOfLocalTrials", ("solution", [.get .nLocal])),
  ("solution.solvingTime", ("solution", [.get .time])),
  ("solution.solutionAccuracy", ("solution", [.get .accuracy])),
  ("solution.bestTrials[0].point.floatVariables", ("solution", [.get .point])),
  ("solution.bestTrials[0].functionValues[0].value", ("solution", [.get .value])),
  ("savedNewPoints[0].GetY().floatVariables", ("savedNewPoints", [.get .newPoint])),
  ("method.task.problem", ("method", [.problemOf])),
  ("method.parameters", ("method", [.parametersOf])),
  ("self.iters", ("self", [.attr "iters"])),
  ("self.iterNum", ("self", [.attr "iterNum"])),
  ("self.iterNum + 1", ("self", [.attr "iterNum", .succ])),
  ("self.parameters.eps", ("self", [.attr "parameters", .get .eps])),
  ("self.parameters.r", ("self", [.attr "parameters", .get .r])),
  ("self.parameters.epsR", ("self", [.attr "parameters", .get .epsR])),
  ("self.parameters.itersLimit", ("self", [.attr "parameters", .get .itersLimit])),
  ("self.problem.numberOfFloatVariables", ("self", [.attr "problem", .get .dim])),
  ("self.problem.numberOfObjectives", ("self", [.attr "problem", .get .nObjectives])),
  ("self.problem.numberOfConstraints", ("self", [.attr "problem", .get .nConstraints])),
  ("self.problem.lowerBoundOfFloatVariables", ("self", [.attr "problem", .get .lower])),
  ("self.problem.upperBoundOfFloatVariables", ("self", [.attr "problem", .get .upper]))]

/-- a parsed expression -/
inductive Expr where
  | lit (v : Val)
  | path (root : String) (sels : List Sel)
  deriving Repr, DecidableEq

/-- a literal, a compound expression of `exprTable`, or else a bare variable name (unbound names are stuck in `evalExpr`) -/
def parseExpr (e : String) : Expr :=
  match litTable.lookup e with
  | some v => .lit v
  | none =>
    match exprTable.lookup e with
    | some (r, p) => .path r p
    | none => .path e []

def evalParsed (h : Heap) (env : List (String × Val)) : Expr → Option Val
  | .lit v => some v
  | .path r p =>
    match env.lookup r with
    | some v => applyPath h p v
    | none => none

def evalExpr (h : Heap) (env : List (String × Val)) (e : String) : Option Val := evalParsed h env (parseExpr e)

def evalArgs (h : Heap) (env : List (String × Val)) : List String → Option (List Val)
  | [] => some []
  | e :: es =>
    match evalExpr h env e, evalArgs h env es with
    | some v, some vs => some (v :: vs)
    | _, _ => none

/-- calls that only read: (callee, arguments) ↦ (variable, selectors) -/
def getterTable : List ((String × List String) × (String × List Sel)) := [
  (("savedNewPoints[0].GetZ", []), ("savedNewPoints", [.get .newValue]))]

/-! ### conditions -/

inductive Cond where
  /-- `self.mode == '<m>'` -/
  | modeIs (m : String)
  /-- `self.iterNum % iters != 0` -/
  | counterNotMultiple
  deriving Repr, DecidableEq

def condTable : List (String × Cond) := [
  ("self.mode == 'full'", .modeIs "full"),
  ("self.mode == 'custom'", .modeIs "custom"),
  ("self.mode == 'result'", .modeIs "result"),
  ("self.iterNum % iters != 0", .counterNotMultiple)]

/-- `none`: the condition cannot be evaluated; for `counterNotMultiple` this includes `iters = 0` (Python raises
`ZeroDivisionError`) -/
def evalCond (h : Heap) (env : List (String × Val)) : Cond → Option Bool
  | .modeIs m =>
    match env.lookup "self" with
    | some (.obj o) =>
      match h.get o "mode" with
      | some (.str m') => some (m' == m)
      | _ => none
    | _ => none
  | .counterNotMultiple =>
    match env.lookup "self", env.lookup "iters" with
    | some (.obj o), some (.nat n) =>
      match h.get o "iterNum" with
      | some (.nat k) => if n = 0 then none else some (k % n != 0)
      | _ => none
    | _, _ => none

/-! ### assignment targets -/

/-- `self.<attr>` targets: source text ↦ attribute name -/
def attrTargets : List (String × String) := [
  ("self.__fcfo", "__fcfo"), ("self.mode", "mode"), ("self.iters", "iters"),
  ("self.problem", "problem"), ("self.parameters", "parameters"), ("self.__outputer", "__outputer"),
  ("self.iterNum", "iterNum")]

/-- the names that may be assigned as locals -/
def localTargets : List String := ["point", "value", "bestTrialPoint", "bestTrialValue"]

/-- `target = v` -/
def assignTo (t : String) (v : Val) (fr : Frame) : Option Frame :=
  match attrTargets.lookup t with
  | some a =>
    match fr.env.lookup "self" with
    | some (.obj o) => some { fr with st := { fr.st with heap := fr.st.heap.set (o, a) v } }
    | _ => none
  | none => if localTargets.contains t then some { fr with env := (t, v) :: fr.env } else none

/-! ### the printers (`ConsoleOutputer`) -/

/-- a method of `ConsoleOutputer`, as generated -/
structure Printer where
  params : List String
  locals : List (String × String)
  prints : List PrintStmt
  other : List String

/-- top-level locals that only serve the layout (`dim`) or the opaque bounds string (`tempstr`): accepted, not bound -/
def layoutLocals : List (String × String) := [
  ("dim", "len(bestTrialPoint)"), ("dim", "len(point)"), ("dim", "floatdim"),
  ("tempstr", "'['"), ("tempstr", "tempstr[:-2]")]

/-- a block of statements treated as a whole: what it needs from the parameters, which locals it defines -/
structure Opaque where
  requires : List (String × FieldRef)
  defines : List (String × FieldRef)

/-- the accepted lists of "other" statements of a printer: none, or the loop of `printInit` that builds `tempstr` from the bounds -/
def otherTable : List (List String × Opaque) := [
  ([], { requires := [], defines := [] }),
  (["for i in range(floatdim):\n    tempstr += '['\n    tempstr += str(lowerBoundOfFloatVariables[i])\n    tempstr += ', '\n    tempstr += str(upperBoundOfFloatVariables[i])\n    tempstr += '], '",
    "tempstr += ']'"],
   { requires := [("floatdim", .dim), ("lowerBoundOfFloatVariables", .lower), ("upperBoundOfFloatVariables", .upper)],
     defines := [("tempstr", .boundsString)] })]

/-- the expressions printed as rules / separators -/
def decoExprs : List String := ["'-' * (30 + 20 * dim + 2)", "'.' * (30 + 20 * dim + 2)", "'|'"]

/-- the accepted values of the keyword argument `width` -/
def widthExprs : List String := ["30 + 20 * dim", "20 * dim"]

/-- the accepted `end=` arguments (`""`: none given) -/
def endArgs : List String := ["", "' '", "'   '"]

/-- a Python string literal in single quotes without inner quotes ↦ its content -/
def unquote (s : String) : Option String :=
  match s.toList with
  | '\'' :: rest =>
    match rest.reverse with
    | '\'' :: body => if body.all (· != '\'') then some (String.ofList body.reverse) else none
    | _ => none
  | _ => none

/-- a printed expression: a parameter `p`, or `str(p)` (which is `p`: rendering is not modelled) -/
def resolveArg (env : List (String × Val)) (e : String) : Option FieldRef :=
  match env.find? (fun nv => nv.1 == e || "str(" ++ nv.1 ++ ")" == e) with
  | some (_, v) => v.toRef
  | none => none

def layoutOk (p : PrintStmt) : Bool :=
  p.kwargs.all (fun kw => kw.1 == "width" && widthExprs.contains kw.2) && endArgs.contains p.endArg

/-- one `print` statement -/
def renderPrint (env : List (String × Val)) (p : PrintStmt) : Option Line :=
  if layoutOk p then
    if p.fmt = "" then
      match p.args with
      | [] => some (.deco "")
      | [e] => if decoExprs.contains e then some (.deco e) else none
      | _ => none
    else
      match p.args with
      | [a] =>
        match resolveArg env a with
        | some f => some (.field "" f p.fmt)
        | none => (unquote a).map .deco
      | [l, e] =>
        match unquote l, resolveArg env e with
        | some label, some f => some (.field label f p.fmt)
        | _, _ => none
      | _ => none
  else none

def renderPrints (env : List (String × Val)) : List PrintStmt → Option (List Line)
  | [] => some []
  | p :: ps =>
    match renderPrint env p, renderPrints env ps with
    | some l, some ls => some (l :: ls)
    | _, _ => none

/-- positional binding: as many arguments as parameters -/
def bindPos : List String → List Val → Option (List (String × Val))
  | [], [] => some []
  | x :: xs, v :: vs => (bindPos xs vs).map ((x, v) :: ·)
  | _, _ => none

/-- the first parameter must be `self` -/
def bindParams (params : List String) (self : Val) (args : List Val) : Option (List (String × Val)) :=
  match params with
  | "self" :: ps => (bindPos ps args).map (("self", self) :: ·)
  | _ => none

/-- a call of a printer: the lines it prints -/
def renderPrinter (p : Printer) (args : List Val) : Option (List Line) :=
  match bindParams p.params (.obj .outputer) args with
  | none => none
  | some env =>
    if p.locals.all layoutLocals.contains then
      match otherTable.lookup p.other with
      | none => none
      | some op =>
        if op.requires.all (fun r => env.lookup r.1 == some (.field r.2)) then
          renderPrints (op.defines.map (fun d => (d.1, Val.field d.2)) ++ env) p.prints
        else none
    else none

/-! ### the program: which callee is which generated tree -/

/-- what a method call resolves to -/
inductive Callee where
  /-- a method of class `cls` interpreted through its tree -/
  | proc (cls : Obj) (params : List String) (body : List Stmt)
  | printer (p : Printer)

/-- what a constructor call resolves to -/
inductive Ctor where
  /-- a class with an `__init__` interpreted through its tree -/
  | withInit (cls : Obj) (params : List String) (body : List Stmt)
  /-- a class without `__init__`, constructed without arguments -/
  | plain (cls : Obj)

structure Prog where
  /-- callee ↦ (the receiver, as selectors applied to `self`; the method) -/
  meths : List (String × (List Sel × Callee))
  ctors : List (String × Ctor)

def printInitP : Printer := ⟨printInitParams, printInitLocals, printInitPrints, printInitOther⟩
def printIterP : Printer := ⟨printIterParams, printIterLocals, printIterPrints, printIterOther⟩
def printResultP : Printer := ⟨printResultParams, printResultLocals, printResultPrints, printResultOther⟩
def printBestP : Printer := ⟨printBestParams, printBestLocals, printBestPrints, printBestOther⟩

/-- the program made of the GENERATED trees -/
def genProg : Prog where
  meths := [
    ("self.__fcfo.printInitInfo", ([.attr "__fcfo"],
      .proc .fcfo functionConsoleFullOutput_printInitInfoParams functionConsoleFullOutput_printInitInfo)),
    ("self.__fcfo.printIterPointInfo", ([.attr "__fcfo"],
      .proc .fcfo functionConsoleFullOutput_printIterPointInfoParams functionConsoleFullOutput_printIterPointInfo)),
    ("self.__fcfo.printBestPointInfo", ([.attr "__fcfo"],
      .proc .fcfo functionConsoleFullOutput_printBestPointInfoParams functionConsoleFullOutput_printBestPointInfo)),
    ("self.__fcfo.printFinalResult", ([.attr "__fcfo"],
      .proc .fcfo functionConsoleFullOutput_printFinalResultParams functionConsoleFullOutput_printFinalResult)),
    ("self.__outputer.printInit", ([.attr "__outputer"], .printer printInitP)),
    ("self.__outputer.printIter", ([.attr "__outputer"], .printer printIterP)),
    ("self.__outputer.printResult", ([.attr "__outputer"], .printer printResultP)),
    ("self.__outputer.printBest", ([.attr "__outputer"], .printer printBestP))]
  ctors := [
    ("FunctionConsoleFullOutput", .withInit .fcfo functionConsoleFullOutput_initParams functionConsoleFullOutput_init),
    ("ConsoleOutputer", .plain .outputer)]

/-! ### statements -/

/-- how a method body is run one call level down: parameters, body, `self`, arguments, state -/
abbrev Runner := List String → List Stmt → Val → List Val → St → Option St

/-- a call statement -/
def execCall (prog : Prog) (run : Runner) (ts : List String) (callee : String) (args : List String) (fr : Frame) :
    Option Frame :=
  match getterTable.lookup (callee, args) with
  | some (r, p) =>
    match ts, evalParsed fr.st.heap fr.env (.path r p) with
    | [t], some v => assignTo t v fr
    | _, _ => none
  | none =>
    match evalArgs fr.st.heap fr.env args with
    | none => none
    | some vs =>
      match prog.ctors.lookup callee with
      | some (.plain cls) =>
        match ts, vs with
        | [t], [] => assignTo t (.obj cls) { fr with st := { fr.st with heap := fr.st.heap.clear cls } }
        | _, _ => none
      | some (.withInit cls params body) =>
        match ts, run params body (.obj cls) vs { fr.st with heap := fr.st.heap.clear cls } with
        | [t], some st' => assignTo t (.obj cls) { fr with st := st' }
        | _, _ => none
      | none =>
        match prog.meths.lookup callee with
        | none => none
        | some (recv, m) =>
          match ts, evalParsed fr.st.heap fr.env (.path "self" recv) with
          | [], some (.obj o) =>
            match m with
            | .proc cls params body =>
              if o = cls then (run params body (.obj o) vs fr.st).map fun st' => { fr with st := st' } else none
            | .printer p =>
              if o = .outputer then
                (renderPrinter p vs).map fun ls => { fr with st := { fr.st with out := fr.st.out ++ ls } }
              else none
          | _, _ => none

mutual
/-- one statement -/
def execStmt (prog : Prog) (run : Runner) : Stmt → Frame → Option Frame
  | .call ts callee args, fr => execCall prog run ts callee args fr
  | .assign t v, fr =>
    match evalExpr fr.st.heap fr.env v with
    | some x => assignTo t x fr
    | none => none
  | .ite cond thn els, fr =>
    match condTable.lookup cond with
    | some cd =>
      match evalCond fr.st.heap fr.env cd with
      | some true => execList prog run thn fr
      | some false => execList prog run els fr
      | none => none
    | none => none
  | .forRange _ _ _, _ => none
  | .forEach _ _ _, _ => none
  | .while _ _, _ => none
  | .tryExcept _ _ _, _ => none
  | .ret _, _ => none
  | .other _, _ => none

/-- a statement list -/
def execList (prog : Prog) (run : Runner) : List Stmt → Frame → Option Frame
  | [], fr => some fr
  | s :: rest, fr =>
    match execStmt prog run s fr with
    | some fr' => execList prog run rest fr'
    | none => none
end

/-- a method body run on fresh locals holding `self` and the arguments -/
def runBody (prog : Prog) (run : Runner) : Runner := fun params body self args st =>
  match bindParams params self args with
  | none => none
  | some env => (execList prog run body { st := st, env := env }).map (·.st)

/-- the methods callable with `d` call levels left -/
def runner (prog : Prog) : Nat → Runner
  | 0 => fun _ _ _ _ _ => none
  | d + 1 => runBody prog (runner prog d)

/-! ### the callbacks -/

/-- the call levels the chain needs: callback → method (or `__init__`) of `FunctionConsoleFullOutput`; printers and `ConsoleOutputer()` need none -/
def depth : Nat := 2

/-- a callback of the listener, run on the listener object -/
def callback (prog : Prog) (params : List String) (body : List Stmt) (args : List Val) (st : St) : Option St :=
  runner prog depth params body (.obj .listener) args st

/-- `ConsoleFullOutputListener(mode, iters)`: the tree of `__init__` on an object without attributes -/
def newListener (prog : Prog) (mode : String) (iters : Nat) : Option St :=
  callback prog consoleFullOutputListener_initParams consoleFullOutputListener_init [.str mode, .nat iters] {}

/-- `listener.BeforeMethodStart(method)` -/
def beforeMethodStart (prog : Prog) (st : St) : Option St :=
  callback prog consoleFullOutputListener_BeforeMethodStartParams consoleFullOutputListener_BeforeMethodStart [.method] st

/-- `listener.OnEndIteration(savedNewPoints, solution)` -/
def onEndIteration (prog : Prog) (st : St) : Option St :=
  callback prog consoleFullOutputListener_OnEndIterationParams consoleFullOutputListener_OnEndIteration
    [.savedNewPoints, .solution] st

/-- `listener.OnMethodStop(searchData, solution, status)` -/
def onMethodStop (prog : Prog) (st : St) : Option St :=
  callback prog consoleFullOutputListener_OnMethodStopParams consoleFullOutputListener_OnMethodStop
    [.searchData, .solution, .field .status] st

/-- `j` consecutive `OnEndIteration` notifications -/
def onEndIterations (prog : Prog) : Nat → St → Option St
  | 0, st => some st
  | j + 1, st =>
    match onEndIterations prog j st with
    | some st' => onEndIteration prog st'
    | none => none

/-! ### the call sites in `process.py` -/

/-- the argument expressions at the call sites of the notifications in `process.py` ↦ the opaque values handed over -/
def siteArgs : List (String × Val) := [
  ("self.method", .method), ("savedNewPoints", .savedNewPoints), ("self.GetResults()", .solution),
  ("self.searchData", .searchData), ("status", .field .status)]

/-- the notifications: callee at the call site ↦ (parameters, body) of the listener's method, as generated -/
def notifyTable : List (String × (List String × List Stmt)) := [
  ("listener.BeforeMethodStart", (consoleFullOutputListener_BeforeMethodStartParams, consoleFullOutputListener_BeforeMethodStart)),
  ("listener.OnEndIteration", (consoleFullOutputListener_OnEndIterationParams, consoleFullOutputListener_OnEndIteration)),
  ("listener.OnMethodStop", (consoleFullOutputListener_OnMethodStopParams, consoleFullOutputListener_OnMethodStop))]

def siteVals : List String → Option (List Val)
  | [] => some []
  | e :: es =>
    match siteArgs.lookup e, siteVals es with
    | some v, some vs => some (v :: vs)
    | _, _ => none

/-- a notification as issued at a call site `(callee, argument expressions)` of `process.py` -/
def notify (prog : Prog) (site : String × List String) (st : St) : Option St :=
  match notifyTable.lookup site.1, siteVals site.2 with
  | some (params, body), some vs => callback prog params body vs st
  | _, _ => none

mutual
/-- the call sites `(callee, arguments)` of the notifications in a statement tree, in source order -/
def sitesStmt : Stmt → List (String × List String)
  | .call _ callee args => if (notifyTable.lookup callee).isSome then [(callee, args)] else []
  | .assign _ _ => []
  | .forRange _ _ b => sitesList b
  | .forEach _ _ b => sitesList b
  | .ite _ t e => sitesList t ++ sitesList e
  | .while _ b => sitesList b
  | .tryExcept b _ h => sitesList b ++ sitesList h
  | .ret _ => []
  | .other _ => []

def sitesList : List Stmt → List (String × List String)
  | [] => []
  | s :: rest => sitesStmt s ++ sitesList rest
end

/-- the argument expression that a call site binds (positionally) to the parameter `name` of the callback -/
def siteArgFor (site : String × List String) (name : String) : Option String :=
  match notifyTable.lookup site.1 with
  | some (params, _) => (params.tail.zip site.2).lookup name
  | none => none

end ConsoleInterp
