import IOptProofs.EvNumBack
/-!
# Totality: `imageCube` for every argument, and the end-to-end maps `getImage`/`getInverseImage`
(worker a2)
-/

set_option linter.unusedSectionVars false
namespace Ev.Num
variable {α : Type} [Field α] [LinearOrder α] [IsStrictOrderedRing α] [FloorSemiring α]
attribute [local instance] floorTrunc

/-- for a negative argument every extracted digit is `0` (`int(d)` of a negative number is `0` at
the model's `TruncNat`; the Python code is never called with `x < 0`) -/
theorem loopDigits_neg (n : Nat) : ∀ (k : Nat) (d : α), d < 0 →
    loopDigits n false k d = List.replicate k 0
  | 0, _, _ => rfl
  | k+1, d, hd => by
    have hB : (0 : α) < 2^n := by positivity
    have hneg : d * 2^n < 0 := mul_neg_of_neg_of_pos hd hB
    have hfl : ⌊d * 2^n⌋₊ = 0 := Nat.floor_of_nonpos hneg.le
    simp only [loopDigits, Bool.false_eq_true, if_false, hfl, Nat.cast_zero, sub_zero,
      List.replicate_succ]
    rw [loopDigits_neg n k _ hneg]

/-- for `x < 0` the image is the centre of the first cell (all digits `0`) -/
theorem imageCube_neg {n : Nat} (hn : Ev.DimOK n) (m : Nat) (x : α) (h0 : x < 0) :
    imageCube n m x = (cubeY n (List.replicate m 0)).map
      (fun (Y : Int) => (Y : α) / 2^(m+1)) := by
  have hx : decide ((1 : α) ≤ x) = false := by
    have : x < 1 := by linarith
    simpa using this
  have hd : validDigits n (List.replicate m 0) := validDigits_replicate (Nat.two_pow_pos n)
  have e := loopDigits_neg n m x h0
  have := cubeY_map_eq_ptOf (α := α) hn _ hd
  rw [List.length_replicate] at this
  rw [this, imageCube_eq hn m x (by rw [hx, e]; exact hd), hx, e]

/-- the digits extracted by `yLoop` are valid for every argument `x` -/
theorem validDigits_loopDigits (n m : Nat) (x : α) :
    validDigits n (loopDigits n (decide ((1 : α) ≤ x)) m x) := by
  rcases le_or_gt 1 x with h1 | h1
  · have hx : decide ((1 : α) ≤ x) = true := by simpa using h1
    rw [hx, loopDigits_true]
    exact validDigits_replicate (Nat.sub_lt (Nat.two_pow_pos n) Nat.one_pos)
  · have hx : decide ((1 : α) ≤ x) = false := by simpa using h1
    rw [hx]
    rcases le_or_gt 0 x with h0 | h0
    · exact (loopDigits_false_aux n m x h0 h1).1
    · rw [loopDigits_neg n m x h0]
      exact validDigits_replicate (Nat.two_pow_pos n)

/-- `imageCube` has `n` coordinates, each of absolute value `< 1/2`, for every `x` -/
theorem imageCube_bound {n : Nat} (hn : Ev.DimOK n) (m : Nat) (x : α) :
    (imageCube n m x).length = n ∧ ∀ c ∈ imageCube n m x, |c| < 1 / 2 := by
  have hd := validDigits_loopDigits n m x
  have hsl := signList_signs hn _ _ (Inv.valid_init n hn.pos) hd
  rw [imageCube_eq hn m x hd]
  exact ⟨length_ptOf _ _ hsl, abs_ptOf_lt _ _ (by positivity) hsl⟩

/-- `getImage` lies strictly inside the box, for every `x` -/
theorem getImage_in_box {n : Nat} (hn : Ev.DimOK n) (m : Nat) (lower upper : List α)
    (hl : lower.length = n) (hu : upper.length = n)
    (hlt : ∀ i (h1 : i < lower.length) (h2 : i < upper.length), lower[i] < upper[i]) (x : α) :
    (getImage n m lower upper x).length = n ∧
    ∀ i (hp : i < (getImage n m lower upper x).length) (h1 : i < lower.length)
      (h2 : i < upper.length),
      lower[i] < (getImage n m lower upper x)[i] ∧ (getImage n m lower upper x)[i] < upper[i] := by
  obtain ⟨hlen, hb⟩ := imageCube_bound hn m x
  unfold getImage
  refine ⟨by simp [length_p2d, hl, hu, hlen], ?_⟩
  intro i hp h1 h2
  have hy : i < (imageCube n m x).length := by rw [hlen, ← hl]; exact h1
  rw [getElem_p2d lower upper _ i hp hy h1 h2]
  exact p2d_coord_in _ _ _ (hlt i h1 h2) (hb _ (List.getElem_mem hy))

/-- end-to-end round trip on the box -/
theorem getInverseImage_getImage {n : Nat} (hn : Ev.DimOK n) (m : Nat) (lower upper : List α)
    (hl : lower.length = n) (hu : upper.length = n)
    (hne : ∀ i (h1 : i < lower.length) (h2 : i < upper.length), lower[i] ≠ upper[i]) (x : α) :
    getInverseImage n m lower upper (getImage n m lower upper x) =
      inverseCube n m (imageCube n m x) := by
  obtain ⟨hlen, _⟩ := imageCube_bound hn m x
  unfold getInverseImage getImage
  rw [d2p_p2d lower upper _ (by rw [hl, hlen]) (by rw [hu, hlen]) hne]

theorem length_d2p (lower upper y : List α) :
    (d2p lower upper y).length = min y.length (min lower.length upper.length) := by
  simp [d2p]

theorem getElem_d2p (lower upper y : List α) (i : Nat) (h : i < (d2p lower upper y).length)
    (hy : i < y.length) (hl : i < lower.length) (hu : i < upper.length) :
    (d2p lower upper y)[i] = (y[i] - (upper[i] + lower[i]) / 2) / (upper[i] - lower[i]) := by
  simp [d2p]

/-- a box point is mapped by `d2p` into the cube `[-1/2, 1/2]^n` -/
theorem d2p_in_cube {n : Nat} (lower upper y : List α)
    (hl : lower.length = n) (hu : upper.length = n) (hy : y.length = n)
    (hlt : ∀ i (h1 : i < lower.length) (h2 : i < upper.length), lower[i] < upper[i])
    (hin : ∀ i (h0 : i < y.length) (h1 : i < lower.length) (h2 : i < upper.length),
      lower[i] ≤ y[i] ∧ y[i] ≤ upper[i]) :
    (d2p lower upper y).length = n ∧ ∀ c ∈ d2p lower upper y, |c| ≤ 1 / 2 := by
  have hlen : (d2p lower upper y).length = n := by simp [length_d2p, hl, hu, hy]
  refine ⟨hlen, ?_⟩
  intro c hc
  obtain ⟨i, hi, rfl⟩ := List.mem_iff_getElem.1 hc
  have h0 : i < y.length := by omega
  have h1 : i < lower.length := by omega
  have h2 : i < upper.length := by omega
  rw [getElem_d2p lower upper y i hi h0 h1 h2]
  have hd : 0 < upper[i] - lower[i] := sub_pos.2 (hlt i h1 h2)
  obtain ⟨ha, hb⟩ := hin i h0 h1 h2
  rw [abs_le, le_div_iff₀ hd, div_le_iff₀ hd]
  constructor <;> linarith

/-- end-to-end (7): for a box point `y`, `getImage (getInverseImage y)` is within half a cell
width (scaled to the box) of `y` in every coordinate -/
theorem getImage_getInverseImage_close {n : Nat} (hn : Ev.DimOK n) (m : Nat)
    (lower upper y : List α) (hl : lower.length = n) (hu : upper.length = n) (hy : y.length = n)
    (hlt : ∀ i (h1 : i < lower.length) (h2 : i < upper.length), lower[i] < upper[i])
    (hin : ∀ i (h0 : i < y.length) (h1 : i < lower.length) (h2 : i < upper.length),
      lower[i] ≤ y[i] ∧ y[i] ≤ upper[i]) :
    (getImage n m lower upper (getInverseImage n m lower upper y)).length = n ∧
    ∀ i (hp : i < (getImage n m lower upper (getInverseImage n m lower upper y)).length)
      (h0 : i < y.length) (h1 : i < lower.length) (h2 : i < upper.length),
      |y[i] - (getImage n m lower upper (getInverseImage n m lower upper y))[i]| ≤
        (upper[i] - lower[i]) / 2^(m+1) := by
  obtain ⟨hdl, hdb⟩ := d2p_in_cube lower upper y hl hu hy hlt hin
  obtain ⟨ds, _, _, _, _, hil, hclose⟩ := image_inverse_cube hn m (d2p lower upper y) hdl hdb
  unfold getImage getInverseImage
  refine ⟨by simp [length_p2d, hl, hu, hil], ?_⟩
  intro i hp h0 h1 h2
  have hi1 : i < (d2p lower upper y).length := by omega
  have hi2 : i < (imageCube n m (inverseCube n m (d2p lower upper y))).length := by omega
  have hc := hclose i hi1 hi2
  rw [getElem_p2d lower upper _ i hp hi2 h1 h2]
  rw [getElem_d2p lower upper y i hi1 h0 h1 h2] at hc
  have hd : 0 < upper[i] - lower[i] := sub_pos.2 (hlt i h1 h2)
  have e : y[i] - ((imageCube n m (inverseCube n m (d2p lower upper y)))[i] *
        (upper[i] - lower[i]) + (upper[i] + lower[i]) / 2) =
      ((y[i] - (upper[i] + lower[i]) / 2) / (upper[i] - lower[i]) -
        (imageCube n m (inverseCube n m (d2p lower upper y)))[i]) * (upper[i] - lower[i]) := by
    have hd' := hd.ne'
    field_simp
    ring
  rw [e, abs_mul, abs_of_pos hd]
  calc _ ≤ 1 / 2^(m+1) * (upper[i] - lower[i]) := mul_le_mul_of_nonneg_right hc hd.le
    _ = (upper[i] - lower[i]) / 2^(m+1) := by ring

end Ev.Num
