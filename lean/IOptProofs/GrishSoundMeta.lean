import IOptProofs.BenchMeta2
import IOptGen.GrishaginTables
/-!
# The metadata rows of the Grishagin family declare the optimum of the Grishagin tables

Every row of family code 3 in `Gen.metaRowsPacked` (read from the running `Grishagin(k)` objects) has an argument
`k ∈ 1..100`, declares the point `Gen.grishOptPoint k`, the value `Gen.grishOptValue k`, dimension 2 and the box
`[0,1]²`; and there is such a row for every `k ∈ 1..100`.
-/

namespace BenchMeta
open Gen

/-- the double `1.0` -/
def dyOne : Dy := Dy.ofBits 0x3FF0000000000000

/-- a row of family 3 is the row of the Grishagin function `arg0` -/
def grishMetaRowOK (row : Nat) : Bool :=
  (metaDecode row).family != 3 ||
  (decide (1 ≤ (metaDecode row).arg0) && decide ((metaDecode row).arg0 ≤ 100) &&
   (metaDecode row).optPoint == grishOptPoint (metaDecode row).arg0 &&
   (metaDecode row).optValue == grishOptValue (metaDecode row).arg0 &&
   (metaDecode row).lower == [dyZero, dyZero] && (metaDecode row).upper == [dyOne, dyOne] &&
   (metaDecode row).dimension == 2)

set_option maxRecDepth 100000 in
theorem grish_meta_all : checkBlock grishMetaRowOK metaRowsPacked.toList 0 1000000 = true := by decide +kernel

set_option maxRecDepth 100000 in
/-- the Grishagin rows are those of k = 1..100 -/
theorem grish_meta_args : famArgs 3 metaRowsPacked.toList 1000000 = List.range' 1 100 := by decide +kernel

/-- every metadata row of family 3 is the row of the Grishagin function `k = arg0 ∈ 1..100` and declares the
optimum of the Grishagin tables, dimension 2 and the box `[0,1]²` -/
theorem grish_meta_rows (i : Nat) (hi : i < metaRowsPacked.size)
    (hf : (metaDecode metaRowsPacked[i]!).family = 3) :
    1 ≤ (metaDecode metaRowsPacked[i]!).arg0 ∧ (metaDecode metaRowsPacked[i]!).arg0 ≤ 100 ∧
    (metaDecode metaRowsPacked[i]!).optPoint = grishOptPoint (metaDecode metaRowsPacked[i]!).arg0 ∧
    (metaDecode metaRowsPacked[i]!).optValue = grishOptValue (metaDecode metaRowsPacked[i]!).arg0 ∧
    (metaDecode metaRowsPacked[i]!).lower = [dyZero, dyZero] ∧
    (metaDecode metaRowsPacked[i]!).upper = [dyOne, dyOne] ∧
    (metaDecode metaRowsPacked[i]!).dimension = 2 := by
  have h := block_sound _ 0 1000000 grish_meta_all i (by omega) (by have := metaRows_size_le; omega) hi
  simp only [grishMetaRowOK, Bool.and_eq_true, Bool.or_eq_true, bne_iff_ne, ne_eq, decide_eq_true_eq,
    beq_iff_eq] at h
  rcases h with h | h
  · exact absurd hf h
  · obtain ⟨⟨⟨⟨⟨⟨h1, h2⟩, h3⟩, h4⟩, h5⟩, h6⟩, h7⟩ := h
    exact ⟨h1, h2, h3, h4, h5, h6, h7⟩

/-- for every `k ∈ 1..100` the table has a row of family 3 with argument `k` -/
theorem grish_meta_exists (k : Nat) (h1 : 1 ≤ k) (h100 : k ≤ 100) :
    ∃ i, i < metaRowsPacked.size ∧ (metaDecode metaRowsPacked[i]!).family = 3 ∧
      (metaDecode metaRowsPacked[i]!).arg0 = k := by
  have hk : k ∈ famArgs 3 metaRowsPacked.toList 1000000 := by
    rw [grish_meta_args]; exact List.mem_range'_1.2 ⟨h1, by omega⟩
  obtain ⟨i, hi, hf, ha⟩ := famArgs_sound 3 _ _ k hk
  have hi' : i < metaRowsPacked.size := by simpa using hi
  have hrow := getElem!_eq_toList metaRowsPacked i hi'
  exact ⟨i, hi', by rw [metaDecode_family, hrow]; exact hf, by rw [metaDecode_arg0, hrow]; exact ha⟩

end BenchMeta
