import IOptProofs.HillSound
import Mathlib.Analysis.Calculus.MeanValue
import Mathlib.Analysis.Calculus.Deriv.Slope
import Mathlib.Topology.Order.Compact
import Mathlib.Topology.Order.DenselyOrdered
/-!
# Hill functions: consequences of the table claims in the words of properties C10 and C18
(existence of the true extrema by compactness, localisation of all global extremisers, the Lipschitz
constant as the maximum of `|f'|`)
-/

namespace Hill
open Set Filter Topology

theorem hillF'_eq (a b : List Dy) : hillF' a b = hf1 (rl a b) := rfl

theorem hillF_continuous (a b : List Dy) : Continuous (hillF a b) := by
  rw [hillF_eq]
  exact continuous_iff_continuousAt.2 fun x => (hasDerivAt_hf _ x).continuousAt

theorem hillF'_continuous (a b : List Dy) : Continuous (hillF' a b) := by
  rw [hillF'_eq]
  exact continuous_iff_continuousAt.2 fun x => (hasDerivAt_hf1 _ x).continuousAt

/-- a function that is `K`-Lipschitz on `[0,1]` has `|f'(w)| ≤ K` at every `w ∈ [0,1]` (endpoints included) -/
theorem abs_deriv_le_of_lipschitz {f : ℝ → ℝ} {K d w : ℝ} (hd : HasDerivAt f d w) (h0 : 0 ≤ w) (h1 : w ≤ 1)
    (hK : ∀ x y, 0 ≤ x → x ≤ 1 → 0 ≤ y → y ≤ 1 → |f x - f y| ≤ K * |x - y|) : |d| ≤ K := by
  have hs := hasDerivAt_iff_tendsto_slope.1 hd
  have bound : ∀ x, 0 ≤ x → x ≤ 1 → x ≠ w → |slope f w x| ≤ K := by
    intro x hx0 hx1 hne
    rw [slope_def_field, abs_div]
    have hpos : 0 < |x - w| := abs_pos.2 (sub_ne_zero.2 hne)
    rw [div_le_iff₀ hpos]
    exact hK x w hx0 hx1 h0 h1
  rcases lt_or_eq_of_le h1 with hlt | heq
  · have ht : Tendsto (fun x => |slope f w x|) (𝓝[>] w) (𝓝 |d|) :=
      (hs.mono_left (nhdsGT_le_nhdsNE w)).abs
    refine le_of_tendsto ht ?_
    filter_upwards [Ioo_mem_nhdsGT hlt] with x hx
    exact bound x (h0.trans hx.1.le) hx.2.le hx.1.ne'
  · have hw0 : 0 < w := by rw [heq]; norm_num
    have ht : Tendsto (fun x => |slope f w x|) (𝓝[<] w) (𝓝 |d|) :=
      (hs.mono_left (nhdsLT_le_nhdsNE w)).abs
    refine le_of_tendsto ht ?_
    filter_upwards [Ioo_mem_nhdsLT hw0] with x hx
    exact bound x hx.1.le (hx.2.le.trans h1) hx.2.ne

/-- the three clauses of C10 for a function on `[0,1]` with declared minimum value `v` at `p`:
the location clause says that every point farther than `1e-4` from `p` has a strictly larger value than `p` -/
structure HillC10 (f : ℝ → ℝ) (v p : ℝ) : Prop where
  point_in_box : 0 ≤ p ∧ p ≤ 1
  value : |f p - v| ≤ 1e-4
  global : ∀ x, 0 ≤ x → x ≤ 1 → v - 2e-3 * max 1 |v| ≤ f x
  location : ∀ x, 0 ≤ x → x ≤ 1 → 1e-4 < |x - p| → f p < f x

theorem HillClaims.c10 {a b : List Dy} {vmin pmin vmax pmax lip : Dy}
    (h : HillClaims a b vmin pmin vmax pmax lip) : HillC10 (hillF a b) (dyR vmin) (dyR pmin) := by
  have hv := abs_le.mp h.value_min
  refine ⟨h.pmin_mem, ?_, fun x h0 h1 => ?_, fun x h0 h1 hfar => ?_⟩
  · refine h.value_min.trans (by norm_num)
  · have := (h.global x h0 h1).1
    have hm : (1 : ℝ) ≤ max 1 |dyR vmin| := le_max_left _ _
    have : (2e-3 : ℝ) * 1 ≤ 2e-3 * max 1 |dyR vmin| := by
      apply mul_le_mul_of_nonneg_left hm; norm_num
    norm_num at this ⊢
    linarith
  · by_contra hle
    have hle := not_lt.1 hle
    have : hillF a b x ≤ dyR vmin + 1e-6 := by linarith [hv.2]
    have := h.loc18_min x h0 h1 this
    linarith

/-- there IS a global minimiser on `[0,1]`, and every global minimiser lies within `1e-4` of the declared point -/
theorem HillC10.minimiser {f : ℝ → ℝ} {v p : ℝ} (h : HillC10 f v p) (hf : Continuous f) :
    (∃ xs, 0 ≤ xs ∧ xs ≤ 1 ∧ ∀ x, 0 ≤ x → x ≤ 1 → f xs ≤ f x) ∧
    (∀ xs, 0 ≤ xs → xs ≤ 1 → (∀ x, 0 ≤ x → x ≤ 1 → f xs ≤ f x) → |xs - p| ≤ 1e-4) := by
  constructor
  · obtain ⟨xs, hxs, hmin⟩ := (isCompact_Icc (a := (0 : ℝ)) (b := 1)).exists_isMinOn
      ⟨0, by norm_num⟩ hf.continuousOn
    exact ⟨xs, hxs.1, hxs.2, fun x h0 h1 => hmin ⟨h0, h1⟩⟩
  · intro xs h0 h1 hmin
    by_contra hne
    have := h.location xs h0 h1 (not_le.1 hne)
    have := hmin p h.point_in_box.1 h.point_in_box.2
    linarith

/-- the table claims of C18 for one row, in words: the true minimum and maximum over `[0,1]` exist and are
within `1e-4` of the tabulated values; every global minimiser / maximiser is within `1e-4` of the tabulated
point; `1.001·lip` is a Lipschitz constant of `f` on `[0,1]`, no constant below `0.999·lip` is, and the
maximum of `|f'|` over `[0,1]` (which exists) is within 0.1 % of `lip` -/
structure HillC18 (f f' : ℝ → ℝ) (vmin pmin vmax pmax lip : ℝ) : Prop where
  min_exists : ∃ xs, 0 ≤ xs ∧ xs ≤ 1 ∧ (∀ x, 0 ≤ x → x ≤ 1 → f xs ≤ f x) ∧ |f xs - vmin| ≤ 1e-4
  max_exists : ∃ xs, 0 ≤ xs ∧ xs ≤ 1 ∧ (∀ x, 0 ≤ x → x ≤ 1 → f x ≤ f xs) ∧ |f xs - vmax| ≤ 1e-4
  min_loc : ∀ xs, 0 ≤ xs → xs ≤ 1 → (∀ x, 0 ≤ x → x ≤ 1 → f xs ≤ f x) → |xs - pmin| ≤ 1e-4
  max_loc : ∀ xs, 0 ≤ xs → xs ≤ 1 → (∀ x, 0 ≤ x → x ≤ 1 → f x ≤ f xs) → |xs - pmax| ≤ 1e-4
  points_in_box : (0 ≤ pmin ∧ pmin ≤ 1) ∧ (0 ≤ pmax ∧ pmax ≤ 1)
  deriv : ∀ x, HasDerivAt f (f' x) x
  lipschitz : ∀ x y, 0 ≤ x → x ≤ 1 → 0 ≤ y → y ≤ 1 → |f x - f y| ≤ 1.001 * lip * |x - y|
  lip_sharp : ∀ K, (∀ x y, 0 ≤ x → x ≤ 1 → 0 ≤ y → y ≤ 1 → |f x - f y| ≤ K * |x - y|) → 0.999 * lip ≤ K
  deriv_max : ∃ w, 0 ≤ w ∧ w ≤ 1 ∧ (∀ x, 0 ≤ x → x ≤ 1 → |f' x| ≤ |f' w|) ∧
    0.999 * lip ≤ |f' w| ∧ |f' w| ≤ 1.001 * lip

theorem HillClaims.c18 {a b : List Dy} {vmin pmin vmax pmax lip : Dy}
    (h : HillClaims a b vmin pmin vmax pmax lip) :
    HillC18 (hillF a b) (hillF' a b) (dyR vmin) (dyR pmin) (dyR vmax) (dyR pmax) (dyR lip) := by
  have hc := hillF_continuous a b
  have hc' := hillF'_continuous a b
  have hvmin := abs_le.mp h.value_min
  have hvmax := abs_le.mp h.value_max
  have I01 : IsCompact (Icc (0 : ℝ) 1) := isCompact_Icc
  have ne01 : (Icc (0 : ℝ) 1).Nonempty := ⟨0, by norm_num⟩
  refine
    { min_exists := ?_
      max_exists := ?_
      min_loc := fun xs h0 h1 hmin => ?_
      max_loc := fun xs h0 h1 hmax => ?_
      points_in_box := ⟨h.pmin_mem, h.pmax_mem⟩
      deriv := h.deriv
      lipschitz := fun x y hx0 hx1 hy0 hy1 => ?_
      lip_sharp := fun K hK => ?_
      deriv_max := ?_ }
  · obtain ⟨xs, hxs, hmin⟩ := I01.exists_isMinOn ne01 hc.continuousOn
    refine ⟨xs, hxs.1, hxs.2, fun x h0 h1 => hmin ⟨h0, h1⟩, ?_⟩
    have h1 := (h.global xs hxs.1 hxs.2).1
    have h2 : hillF a b xs ≤ hillF a b (dyR pmin) := hmin ⟨h.pmin_mem.1, h.pmin_mem.2⟩
    rw [abs_le]; constructor <;> norm_num at * <;> linarith
  · obtain ⟨xs, hxs, hmax⟩ := I01.exists_isMaxOn ne01 hc.continuousOn
    refine ⟨xs, hxs.1, hxs.2, fun x h0 h1 => hmax ⟨h0, h1⟩, ?_⟩
    have h1 := (h.global xs hxs.1 hxs.2).2
    have h2 : hillF a b (dyR pmax) ≤ hillF a b xs := hmax ⟨h.pmax_mem.1, h.pmax_mem.2⟩
    rw [abs_le]; constructor <;> norm_num at * <;> linarith
  · have := hmin (dyR pmin) h.pmin_mem.1 h.pmin_mem.2
    exact h.loc18_min xs h0 h1 (by linarith [hvmin.2])
  · have := hmax (dyR pmax) h.pmax_mem.1 h.pmax_mem.2
    exact h.loc18_max xs h0 h1 (by linarith [hvmax.1])
  · have := (convex_Icc (0 : ℝ) 1).norm_image_sub_le_of_norm_hasDerivWithin_le
      (f := hillF a b) (f' := hillF' a b) (C := 1.001 * dyR lip)
      (fun z _ => (h.deriv z).hasDerivWithinAt)
      (fun z hz => by rw [Real.norm_eq_abs]; exact h.lip_upper z hz.1 hz.2)
      (show y ∈ Icc (0 : ℝ) 1 from ⟨hy0, hy1⟩) (show x ∈ Icc (0 : ℝ) 1 from ⟨hx0, hx1⟩)
    simpa [Real.norm_eq_abs] using this
  · obtain ⟨w, w0, w1, hw⟩ := h.lip_lower
    exact hw.trans (abs_deriv_le_of_lipschitz (h.deriv w) w0 w1 hK)
  · obtain ⟨w, hw, hmax⟩ := I01.exists_isMaxOn ne01 (continuous_abs.comp hc').continuousOn
    obtain ⟨u, u0, u1, hu⟩ := h.lip_lower
    refine ⟨w, hw.1, hw.2, fun x h0 h1 => hmax ⟨h0, h1⟩, ?_, h.lip_upper w hw.1 hw.2⟩
    exact hu.trans (hmax ⟨u0, u1⟩)

/-- the Hill function `i` of the shipped tables, over `ℝ`: the model function `Prob.hill` applied to the exact
values of the table doubles -/
noncomputable def hillFn (i : Nat) : ℝ → ℝ := hillF (Gen.hillA i) (Gen.hillB i)

/-- its derivative -/
noncomputable def hillFn' (i : Nat) : ℝ → ℝ := hillF' (Gen.hillA i) (Gen.hillB i)

theorem hillFn_def (i : Nat) :
    hillFn i = Prob.hill ((Gen.hillA i).map dyR) ((Gen.hillB i).map dyR) := rfl

theorem hillFn'_def (i : Nat) :
    hillFn' i = hf1 (List.zip ((Gen.hillA i).map dyR) ((Gen.hillB i).map dyR)) := rfl

end Hill
