import IOptProofs.WorldRun
/-!
# C12 helpers: the shape of a component and the abstract view of one solver

`Abs` is what the user of ONE solver is entitled to see after that solver's own operations: whether it is constructed /
has iterated, the optimum value (the `z` of the last trial that became best) and the number of trials.  `Shape i c a`
ties a component to its abstract view: the Solution cell carries `a.trials`, its `bestTrials` list holds a trial whose
holder carries `a.opt` (or the placeholder with an empty `functionValues` before the first iteration).  `lstep_shape`: the
local step is applicable exactly when `applicable` says so (it never gets stuck on a missing attribute or index), and
keeps the shape along `absStep`.
-/

namespace World
variable {V : Type}

/-! ### reading after writing / allocating -/

theorem lread_congr (c : Comp V) {a b : Ref} (h : a.idx = b.idx) : lread c a = lread c b := by
  simp [lread, h]

theorem lread_lt {c : Comp V} {r : Ref} {x : Cell V} (h : lread c r = some x) : r.idx < c.heap.length := by
  unfold lread at h
  rcases Nat.lt_or_ge r.idx c.heap.length with hk | hk
  · exact hk
  · rw [List.getElem?_eq_none hk] at h; cases h

theorem lread_lwrite_same {c : Comp V} {r : Ref} (x : Cell V) (h : r.idx < c.heap.length) :
    lread (lwrite c r x) r = some x := by
  simp [lread, lwrite, h]

theorem lread_lwrite_ne (c : Comp V) {r r' : Ref} (x : Cell V) (h : r.idx ≠ r'.idx) :
    lread (lwrite c r x) r' = lread c r' := by
  simp [lread, lwrite, List.getElem?_set_ne h]

theorem lread_lalloc_old (i : Nat) (c : Comp V) (x : Cell V) {r : Ref} (h : r.idx < c.heap.length) :
    lread (lalloc i c x).1 r = lread c r := by
  simp [lread, lalloc, List.getElem?_append_left h]

theorem lread_lalloc_new (i : Nat) (c : Comp V) (x : Cell V) : lread (lalloc i c x).1 (lalloc i c x).2 = some x := by
  simp [lread, lalloc]

/-! ### the attribute getters are exclusive -/

theorem fv_some {x : Option (Cell V)} {r : Ref} (h : Cell.fv? x = some r) : x = some (.item r) := by
  cases x with
  | none => simp [Cell.fv?] at h
  | some y => cases y <;> simp [Cell.fv?] at h; subst h; rfl

theorem head_some {x : Option (Cell V)} {r : Ref} (h : Cell.head? x = some r) : x = some (.list (some r)) := by
  cases x with
  | none => simp [Cell.head?] at h
  | some y =>
    cases y with
    | list o => cases o <;> simp [Cell.head?] at h; subst h; rfl
    | _ => simp [Cell.head?] at h

theorem value_some {x : Option (Cell V)} {v : V} (h : Cell.value? x = some v) : x = some (.holder v) := by
  cases x with
  | none => simp [Cell.value?] at h
  | some y => cases y <;> simp [Cell.value?] at h; subst h; rfl

theorem sol_some {x : Option (Cell V)} {p : Ref × Nat} (h : Cell.sol? x = some p) : x = some (.solution p.1 p.2) := by
  cases x with
  | none => simp [Cell.sol?] at h
  | some y => cases y <;> simp [Cell.sol?] at h; subst h; rfl

/-! ### the pieces succeed on well-shaped input -/

theorem lCalculate_ok {c : Comp V} {sol n fl h l : Ref} {v : V} {k : Nat} (z : V)
    (h1 : lread c n = some (.item fl)) (h2 : lread c fl = some (.list (some h))) (h3 : lread c h = some (.holder v))
    (h4 : lread c sol = some (.solution l k)) :
    ∃ c', lCalculate c sol n z = some (c', [h, fl, sol]) ∧
      lread c' h = some (.holder z) ∧ lread c' fl = some (.list (some h)) ∧ lread c' sol = some (.solution l (k + 1)) ∧
      (∀ r : Ref, r.idx ≠ h.idx → r.idx ≠ fl.idx → r.idx ≠ sol.idx → lread c' r = lread c r) ∧
      c'.st = c.st ∧ c'.handed = c.handed ∧ c'.heap.length = c.heap.length := by
  have hne1 : h.idx ≠ fl.idx := fun e => by rw [lread_congr c e, h2] at h3; cases h3
  have hne2 : h.idx ≠ sol.idx := fun e => by rw [lread_congr c e, h4] at h3; cases h3
  have hne3 : fl.idx ≠ sol.idx := fun e => by rw [lread_congr c e, h4] at h2; cases h2
  have hl1 := lread_lt h3
  have hl2 := lread_lt h2
  have hl3 := lread_lt h4
  have r4 : lread (lwrite (lwrite c h (.holder z)) fl (.list (some h))) sol = some (.solution l k) := by
    rw [lread_lwrite_ne _ _ hne3, lread_lwrite_ne _ _ hne2, h4]
  refine ⟨lwrite (lwrite (lwrite c h (.holder z)) fl (.list (some h))) sol (.solution l (k + 1)), ?_, ?_, ?_, ?_, ?_, rfl, rfl,
    by simp⟩
  · simp [lCalculate, h1, h2, h3, r4, Cell.fv?, Cell.head?, Cell.value?, Cell.sol?]
  · rw [lread_lwrite_ne _ _ (Ne.symm hne2), lread_lwrite_ne _ _ (Ne.symm hne1), lread_lwrite_same _ hl1]
  · rw [lread_lwrite_ne _ _ (Ne.symm hne3), lread_lwrite_same _ (by simpa using hl2)]
  · rw [lread_lwrite_same _ (by simpa using hl3)]
  · intro r e1 e2 e3
    rw [lread_lwrite_ne _ _ (Ne.symm e3), lread_lwrite_ne _ _ (Ne.symm e2), lread_lwrite_ne _ _ (Ne.symm e1)]

theorem lStoreBest_ok {c : Comp V} {sol l t : Ref} {k : Nat} (b : Ref)
    (h1 : lread c sol = some (.solution l k)) (h2 : lread c l = some (.list (some t))) :
    ∃ c', lStoreBest c sol b = some (c', [l]) ∧ lread c' l = some (.list (some b)) ∧
      (∀ r : Ref, r.idx ≠ l.idx → lread c' r = lread c r) ∧
      c'.st = c.st ∧ c'.handed = c.handed ∧ c'.heap.length = c.heap.length := by
  refine ⟨lwrite c l (.list (some b)), ?_, lread_lwrite_same _ (lread_lt h2), ?_, rfl, rfl, by simp⟩
  · simp [lStoreBest, h1, h2, Cell.sol?, Cell.head?]
  · intro r e
    rw [lread_lwrite_ne _ _ (Ne.symm e)]

section
variable [OfNat V 0]

theorem lNewItem_ok (i : Nat) (c : Comp V) :
    ∃ h fl : Ref, (lNewItem i c).2.2 = [h, fl, (lNewItem i c).2.1] ∧
      lread (lNewItem i c).1 (lNewItem i c).2.1 = some (.item fl) ∧
      lread (lNewItem i c).1 fl = some (.list (some h)) ∧
      lread (lNewItem i c).1 h = some (.holder 0) ∧
      h.idx = c.heap.length ∧ fl.idx = c.heap.length + 1 ∧ (lNewItem i c).2.1.idx = c.heap.length + 2 ∧
      (lNewItem i c).1.heap.length = c.heap.length + 3 ∧ (lNewItem i c).1.st = c.st ∧ (lNewItem i c).1.handed = c.handed ∧
      (∀ r : Ref, r.idx < c.heap.length → lread (lNewItem i c).1 r = lread c r) := by
  refine ⟨⟨some i, c.heap.length⟩, ⟨some i, c.heap.length + 1⟩, ?_, ?_, ?_, ?_, rfl, rfl, ?_, ?_, rfl, rfl, ?_⟩
  · simp [lNewItem, lalloc]
  · simp [lNewItem, lalloc, lread]
  · simp [lNewItem, lalloc, lread]
  · simp [lNewItem, lalloc, lread]
  · simp [lNewItem, lalloc]
  · simp [lNewItem, lalloc]
  · intro r hr
    simp only [lNewItem, lalloc, lread, List.append_assoc]
    exact List.getElem?_append_left hr

end

/-! ### abstract view and shape -/

/-- what the user of ONE solver is entitled to see after that solver's own operations -/
structure Abs (V : Type) where
  constructed : Bool := false
  started : Bool := false
  /-- value of the last trial that became the best one -/
  opt : Option V := none
  /-- number of trials made -/
  trials : Nat := 0

/-- when an operation is applicable (otherwise the protocol answers `bad-op` and nothing happens) -/
def applicable (a : Abs V) : Op V → Bool
  | .construct => !a.constructed
  | .first _ => a.constructed && !a.started
  | .iter _ _ => a.started
  | .results => a.constructed

def absStep (a : Abs V) (op : Op V) : Abs V :=
  if applicable a op then
    match op with
    | .construct => { constructed := true }
    | .first z => { a with started := true, opt := some z, trials := a.trials + 1 }
    | .iter z b => { a with opt := if b then some z else a.opt, trials := a.trials + 1 }
    | .results => a
  else a

/-- abstract view after a list of operations of one solver -/
def absRun (ops : List (Op V)) : Abs V := ops.foldl absStep {}

/-- the component has the shape that the abstract view describes -/
inductive Shape (c : Comp V) : Abs V → Prop
  | fresh : c.st = none → c.handed = [] → Shape c {}
  | idle (s : SolverSt) (l t e : Ref) (k : Nat) : c.st = some s → s.started = false → s.best = none →
      lread c s.solution = some (.solution l k) → lread c l = some (.list (some t)) →
      lread c t = some (.item e) → lread c e = some (.list none) →
      (∀ r ∈ c.handed, r = s.solution) → Shape c { constructed := true, trials := k }
  | active (s : SolverSt) (l t fl h : Ref) (v : V) (k : Nat) : c.st = some s → s.started = true → s.best = some t →
      lread c s.solution = some (.solution l k) → lread c l = some (.list (some t)) →
      lread c t = some (.item fl) → lread c fl = some (.list (some h)) → lread c h = some (.holder v) →
      (∀ r ∈ c.handed, r = s.solution) → Shape c { constructed := true, started := true, opt := some v, trials := k }

theorem lread_with (c : Comp V) (st : Option SolverSt) (hd : List Ref) (r : Ref) :
    lread { heap := c.heap, st := st, handed := hd } r = lread c r := rfl

theorem shape_report {c : Comp V} {a : Abs V} (hs : Shape c a) :
    ∀ s ∈ c.handed, lreport c s = a.opt ∧ (Cell.sol? (lread c s)).map (·.2) = some a.trials := by
  intro r hr
  cases hs with
  | fresh h1 h2 => rw [h2] at hr; cases hr
  | idle s l t e k h1 h2 h3 h4 h5 h6 h7 h8 =>
    rw [h8 r hr]
    simp [lreport, h4, h5, h6, h7, Cell.sol?, Cell.head?, Cell.fv?]
  | active s l t fl h v k h1 h2 h3 h4 h5 h6 h7 h8 h9 =>
    rw [h9 r hr]
    simp [lreport, h4, h5, h6, h7, h8, Cell.sol?, Cell.head?, Cell.fv?, Cell.value?]

section
variable [OfNat V 0]

theorem lstep_shape (i : Nat) {c : Comp V} {a : Abs V} (hs : Shape c a) (op : Op V) :
    (applicable a op = true → ∃ c' o, lstep i c op = some (c', o) ∧ Shape c' (absStep a op)) ∧
    (applicable a op = false → lstep i c op = none) := by
  cases hs with
  | fresh h1 h2 =>
    cases op with
    | construct =>
      refine ⟨fun _ => ?_, fun h => by simp [applicable] at h⟩
      refine ⟨_, _, by simp only [lstep, h1]; rfl, ?_⟩
      have : absStep ({} : Abs V) .construct = { constructed := true, trials := 0 } := by simp [absStep, applicable]
      rw [this]
      refine Shape.idle _ ⟨some i, c.heap.length + 2⟩ ⟨some i, c.heap.length + 1⟩ ⟨some i, c.heap.length⟩ 0 rfl rfl rfl
        ?_ ?_ ?_ ?_ ?_
      · simp [lalloc, lread]
      · simp [lalloc, lread]
      · simp [lalloc, lread]
      · simp [lalloc, lread]
      · simp [lalloc, h2]
    | first z => exact ⟨fun h => by simp [applicable] at h, fun _ => by simp [lstep, h1]⟩
    | iter z b => exact ⟨fun h => by simp [applicable] at h, fun _ => by simp [lstep, h1]⟩
    | results => exact ⟨fun h => by simp [applicable] at h, fun _ => by simp [lstep, h1]⟩
  | idle s l t e k h1 h2 h3 h4 h5 h6 h7 h8 =>
    cases op with
    | construct => exact ⟨fun h => by simp [applicable] at h, fun _ => by simp [lstep, h1]⟩
    | iter z b => exact ⟨fun h => by simp [applicable] at h, fun _ => by simp [lstep, h1, h2]⟩
    | results =>
      refine ⟨fun _ => ?_, fun h => by simp [applicable] at h⟩
      refine ⟨_, _, by simp only [lstep, h1, Option.bind_eq_bind, Option.bind_some]; rfl, ?_⟩
      have : absStep ({ constructed := true, trials := k } : Abs V) .results = { constructed := true, trials := k } := by
        simp [absStep, applicable]
      rw [this]
      refine Shape.idle s l t e k rfl h2 h3 h4 h5 h6 h7 ?_
      intro r hr
      simp only [List.mem_append, List.mem_singleton] at hr
      rcases hr with hr | hr
      · exact h8 r hr
      · exact hr
    | first z =>
      refine ⟨fun _ => ?_, fun h => by simp [applicable] at h⟩
      have : absStep ({ constructed := true, trials := k } : Abs V) (.first z) =
          { constructed := true, started := true, opt := some z, trials := k + 1 } := by simp [absStep, applicable]
      rw [this]
      obtain ⟨hm, flm, -, m1, m2, m3, i1, i2, i3, len1, st1, hd1, old1⟩ := lNewItem_ok i c
      obtain ⟨_, _, -, -, -, -, -, -, j3, len2, st2, hd2, old2⟩ := lNewItem_ok i (lNewItem i c).1
      obtain ⟨_, _, -, -, -, -, -, -, k3, len3, st3, hd3, old3⟩ := lNewItem_ok i (lNewItem i (lNewItem i c).1).1
      have lsol := lread_lt h4
      have ll := lread_lt h5
      have lt := lread_lt h6
      -- reads in c3
      have up : ∀ r : Ref, r.idx < c.heap.length + 3 →
          lread (lNewItem i (lNewItem i (lNewItem i c).1).1).1 r = lread (lNewItem i c).1 r := by
        intro r hr
        rw [old3 r (by omega), old2 r (by omega)]
      have c3m := (up _ (by omega)).trans m1
      have c3fl := (up _ (by omega)).trans m2
      have c3h := (up _ (by omega)).trans m3
      have c3sol := ((up s.solution (by omega)).trans (old1 _ lsol)).trans h4
      have c3l := ((up l (by omega)).trans (old1 _ ll)).trans h5
      obtain ⟨c4, e4, r4h, r4fl, r4sol, keep4, st4, hd4, len4⟩ := lCalculate_ok z c3m c3fl c3h c3sol
      have hsl : s.solution.idx ≠ l.idx := fun e => by rw [lread_congr c e, h5] at h4; cases h4
      have c4l : lread c4 l = some (.list (some t)) := by
        rw [keep4 l (by omega) (by omega) (Ne.symm hsl)]; exact c3l
      obtain ⟨c5, e5, r5l, keep5, st5, hd5, len5⟩ := lStoreBest_ok (lNewItem i c).2.1 r4sol c4l
      refine ⟨?c', ?o, ?eq, ?sh⟩
      case eq =>
        simp only [lstep, h1, Option.bind_eq_bind, Option.bind_some, h2, Bool.false_eq_true, if_false, e4, e5]
        rfl
      case sh =>
        refine Shape.active _ l (lNewItem i c).2.1 flm hm z (k + 1) rfl rfl rfl ?_ ?_ ?_ ?_ ?_ ?_
        · show lread c5 s.solution = _
          rw [keep5 _ hsl]; exact r4sol
        · exact r5l
        · show lread c5 (lNewItem i c).2.1 = _
          rw [keep5 _ (by omega), keep4 _ (by omega) (by omega) (by omega)]; exact c3m
        · show lread c5 flm = _
          rw [keep5 _ (by omega)]; exact r4fl
        · show lread c5 hm = _
          rw [keep5 _ (by omega)]; exact r4h
        · intro r hr
          have : r ∈ c.handed := by
            have hh : c5.handed = c.handed := by rw [hd5, hd4, hd3, hd2, hd1]
            exact hh ▸ hr
          exact h8 r this
  | active s l t fl h v k h1 h2 h3 h4 h5 h6 h7 h8 h9 =>
    cases op with
    | construct => exact ⟨fun h => by simp [applicable] at h, fun _ => by simp [lstep, h1]⟩
    | first z => exact ⟨fun h => by simp [applicable] at h, fun _ => by simp [lstep, h1, h2]⟩
    | results =>
      refine ⟨fun _ => ?_, fun h => by simp [applicable] at h⟩
      refine ⟨_, _, by simp only [lstep, h1, Option.bind_eq_bind, Option.bind_some]; rfl, ?_⟩
      have : absStep ({ constructed := true, started := true, opt := some v, trials := k } : Abs V) .results =
          { constructed := true, started := true, opt := some v, trials := k } := by simp [absStep, applicable]
      rw [this]
      refine Shape.active s l t fl h v k rfl h2 h3 h4 h5 h6 h7 h8 ?_
      intro r hr
      simp only [List.mem_append, List.mem_singleton] at hr
      rcases hr with hr | hr
      · exact h9 r hr
      · exact hr
    | iter z b =>
      refine ⟨fun _ => ?_, fun h => by simp [applicable] at h⟩
      have : absStep ({ constructed := true, started := true, opt := some v, trials := k } : Abs V) (.iter z b) =
          { constructed := true, started := true, opt := if b then some z else some v, trials := k + 1 } := by
        simp [absStep, applicable]
      rw [this]
      obtain ⟨hm, flm, -, m1, m2, m3, i1, i2, i3, len1, st1, hd1, old1⟩ := lNewItem_ok i c
      have lsol := lread_lt h4
      have ll := lread_lt h5
      have lt := lread_lt h6
      have lfl := lread_lt h7
      have lh := lread_lt h8
      have c1sol := (old1 _ lsol).trans h4
      have c1l := (old1 _ ll).trans h5
      obtain ⟨c4, e4, r4h, r4fl, r4sol, keep4, st4, hd4, len4⟩ := lCalculate_ok z m1 m2 m3 c1sol
      have hsl : s.solution.idx ≠ l.idx := fun e => by rw [lread_congr c e, h5] at h4; cases h4
      have c4l : lread c4 l = some (.list (some t)) := by
        rw [keep4 l (by omega) (by omega) (Ne.symm hsl)]; exact c1l
      obtain ⟨c5, e5, r5l, keep5, st5, hd5, len5⟩ :=
        lStoreBest_ok (if b = true then (lNewItem i c).2.1 else t) r4sol c4l
      have hhd : ∀ r ∈ c5.handed, r = s.solution := by
        intro r hr
        have hh : c5.handed = c.handed := by rw [hd5, hd4, hd1]
        exact h9 r (hh ▸ hr)
      have r5sol : lread c5 s.solution = some (.solution l (k + 1)) := by rw [keep5 _ hsl]; exact r4sol
      refine ⟨?c2, ?o2, ?eq2, ?sh2⟩
      case eq2 =>
        simp only [lstep, h1, Option.bind_eq_bind, Option.bind_some, h2, Bool.not_true, Bool.false_eq_true, if_false,
          h3, e4, e5]
        rfl
      case sh2 =>
        cases b with
        | true =>
          refine Shape.active _ l (lNewItem i c).2.1 flm hm z (k + 1) rfl rfl (by first | rfl | simp) r5sol
            (by rw [lread_with]; simpa using r5l) ?_ ?_ ?_ hhd
          · rw [lread_with, keep5 _ (by omega), keep4 _ (by omega) (by omega) (by omega)]; exact m1
          · rw [lread_with, keep5 _ (by omega)]; exact r4fl
          · rw [lread_with, keep5 _ (by omega)]; exact r4h
        | false =>
          -- the old best keeps its chain: its cells are old, and are neither the Solution nor the bestTrials list
          have e1 : t.idx ≠ l.idx := fun e => by rw [lread_congr c e, h5] at h6; cases h6
          have e2 : t.idx ≠ s.solution.idx := fun e => by rw [lread_congr c e, h4] at h6; cases h6
          have e3 : fl.idx ≠ s.solution.idx := fun e => by rw [lread_congr c e, h4] at h7; cases h7
          have e4' : h.idx ≠ s.solution.idx := fun e => by rw [lread_congr c e, h4] at h8; cases h8
          have e5' : h.idx ≠ l.idx := fun e => by rw [lread_congr c e, h5] at h8; cases h8
          have e6 : fl.idx ≠ l.idx := fun e => by
            rw [lread_congr c e, h5] at h7
            have : t = h := by injection h7 with h7; injection h7 with h7; injection h7
            rw [this, h8] at h6; cases h6
          refine Shape.active _ l t fl h v (k + 1) rfl rfl (by first | rfl | simp) r5sol
            (by rw [lread_with]; simpa using r5l) ?_ ?_ ?_ hhd
          · rw [lread_with, keep5 _ e1, keep4 _ (by omega) (by omega) e2, old1 _ lt]; exact h6
          · rw [lread_with, keep5 _ e6, keep4 _ (by omega) (by omega) e3, old1 _ lfl]; exact h7
          · rw [lread_with, keep5 _ e5', keep4 _ (by omega) (by omega) e4', old1 _ lh]; exact h8


theorem lstepW_shape (i : Nat) {c : Comp V} {a : Abs V} (hs : Shape c a) (op : Op V) :
    Shape (lstepW i c op) (absStep a op) := by
  obtain ⟨h1, h2⟩ := lstep_shape i hs op
  unfold lstepW
  cases happ : applicable a op with
  | true =>
    obtain ⟨c', o, e, hs'⟩ := h1 happ
    rw [e]; exact hs'
  | false =>
    rw [h2 happ]
    have : absStep a op = a := by simp [absStep, happ]
    rw [this]; exact hs

theorem lrun_shape (i : Nat) {c : Comp V} {a : Abs V} (hs : Shape c a) (ops : List (Nat × Op V)) :
    Shape (lrun i c ops) (ops.foldl (fun a x => absStep a x.2) a) := by
  induction ops generalizing c a with
  | nil => exact hs
  | cons x t ih => exact ih (lstepW_shape i hs x.2)

omit [OfNat V 0] in
theorem shape_default : Shape ({} : Comp V) {} := Shape.fresh rfl rfl

/-- after ANY schedule the component of solver `i` has the shape described by the abstract run of `i`'s own operations -/
theorem run_shape (sched : List (Nat × Op V)) (i : Nat) :
    Shape ((run repaired sched).solver i) (absRun ((sched.filter (·.1 = i)).map (·.2))) := by
  unfold run
  rw [runFrom_solver allClosed_init]
  have := lrun_shape i (shape_default (V := V)) (sched.filter (·.1 = i))
  simpa [absRun, List.foldl_map, init, repaired] using this

/-- an operation is applicable in the world after ANY schedule exactly when the abstract view of the solver's own
operations says so: the pointer program never gets stuck -/
theorem step_applicable (sched : List (Nat × Op V)) (i : Nat) (op : Op V) :
    (step repaired (run repaired sched) i op).isSome =
      applicable (absRun ((sched.filter (·.1 = i)).map (·.2))) op := by
  rw [step_eq (allClosed_run sched)]
  obtain ⟨h1, h2⟩ := lstep_shape i (run_shape sched i) op
  cases happ : applicable (absRun ((sched.filter (·.1 = i)).map (·.2))) op with
  | true =>
    obtain ⟨c', o, e, -⟩ := h1 happ
    rw [e]; rfl
  | false => rw [h2 happ]; rfl

end
end World
