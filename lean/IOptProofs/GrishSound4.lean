import IOptProofs.GrishSound3
import IOptProofs.BenchDy
/-!
# Grishagin checker, soundness part 4: the table row represents the real coefficients
-/

namespace Grish
open Encl Finset

theorem dyR_eq (d : Dy) : dyR d = (d.1 : ℝ) / 2 ^ d.2 := by
  unfold dyR Dy.toRat
  push_cast; rfl

/-- an accepted coefficient: `scaled d = d·2^36` exactly and `|d| ≤ 1` -/
theorem coefOK_spec {d : Dy} (h : coefOK d = true) :
    ((scaled d : ℤ) : ℝ) = dyR d * 2 ^ 36 ∧ |dyR d| ≤ 1 := by
  unfold coefOK at h
  simp only [Bool.and_eq_true, beq_iff_eq, decide_eq_true_eq] at h
  obtain ⟨h1, h2⟩ := h
  have hdvd : ((2 : ℤ) ^ d.2) ∣ d.1 * 2 ^ 36 := Int.dvd_of_emod_eq_zero h1
  have hz : scaled d * 2 ^ d.2 = d.1 * 2 ^ 36 := Int.ediv_mul_cancel hdvd
  have hr : ((scaled d : ℤ) : ℝ) * 2 ^ d.2 = (d.1 : ℝ) * 2 ^ 36 := by exact_mod_cast hz
  have hp : (0 : ℝ) < 2 ^ d.2 := by positivity
  have e : ((scaled d : ℤ) : ℝ) = dyR d * 2 ^ 36 := by
    rw [dyR_eq]; field_simp; linarith
  refine ⟨e, ?_⟩
  have habs : |((scaled d : ℤ) : ℝ)| ≤ 2 ^ 36 := by
    have : ((scaled d).natAbs : ℝ) ≤ 68719476736 := by exact_mod_cast h2
    have e2 : |((scaled d : ℤ) : ℝ)| = ((scaled d).natAbs : ℝ) := by
      rw [Nat.cast_natAbs, Int.cast_abs]
    rw [e2]
    calc ((scaled d).natAbs : ℝ) ≤ 68719476736 := this
      _ = 2 ^ 36 := by norm_num
  rw [e, abs_mul, abs_of_pos (by positivity : (0 : ℝ) < 2 ^ 36)] at habs
  have : |dyR d| * 2 ^ 36 ≤ 1 * 2 ^ 36 := by linarith
  exact le_of_mul_le_mul_right this (by positivity)

/-- the biased encoding of an integer of modulus `≤ 2^40` -/
theorem enc_cast {z : ℤ} (h : |(z : ℝ)| ≤ 2 ^ 40) : ((enc z : ℕ) : ℝ) = (z : ℝ) + 2 ^ 40 := by
  unfold enc
  have hz : (0 : ℤ) ≤ z + (BA : ℤ) := by
    have h1 := (abs_le.mp h).1
    have : ((-(2 ^ 40) : ℤ) : ℝ) ≤ (z : ℝ) := by push_cast; linarith
    have : -(2 ^ 40 : ℤ) ≤ z := by exact_mod_cast this
    simp only [BA]; norm_num; linarith
  have : (((z + (BA : ℤ)).toNat : ℤ) : ℝ) = ((z + (BA : ℤ) : ℤ) : ℝ) := by rw [Int.toNat_of_nonneg hz]
  have h2 : (((z + (BA : ℤ)).toNat : ℕ) : ℝ) = (((z + (BA : ℤ)).toNat : ℤ) : ℝ) := by push_cast; rfl
  rw [h2, this]
  push_cast
  rw [BA_cast]

theorem v7_get (f : ℕ → ℕ) (j : ℕ) (hj : j < 7) : (v7 f).get j = f j := by
  interval_cases j <;> rfl

theorem mkMat_row (row ma mb : ℕ) (sg : ℤ) (i : ℕ) (hi : i < 7) :
    (mkMat row ma mb sg).row i = mkRow row ma mb sg i := by
  interval_cases i <;> rfl

theorem enc_scaled {d : Dy} (h : coefOK d = true) (c : ℤ) (hc : |(c : ℝ)| ≤ 7) :
    ((enc (c * scaled d) : ℕ) : ℝ) = (c : ℝ) * dyR d * 2 ^ 36 + 2 ^ 40 := by
  obtain ⟨e, hb⟩ := coefOK_spec h
  have : |((c * scaled d : ℤ) : ℝ)| ≤ 2 ^ 40 := by
    push_cast
    rw [e, abs_mul, abs_mul, abs_of_pos (by positivity : (0 : ℝ) < 2 ^ 36)]
    calc |(c : ℝ)| * (|dyR d| * 2 ^ 36) ≤ 7 * (1 * 2 ^ 36) :=
          mul_le_mul hc (mul_le_mul_of_nonneg_right hb (by positivity)) (by positivity) (by norm_num)
      _ ≤ 2 ^ 40 := by norm_num
  rw [enc_cast this]
  push_cast
  rw [e]; ring

/-- the biased matrices built from a checked table row represent its real coefficients -/
theorem mkMat_rep (row ma mb : ℕ) (sg : ℤ) (hsg : |(sg : ℝ)| = 1)
    (hok : ∀ i < 7, ∀ j < 7, coefOK (ent row ma i j) = true ∧ coefOK (ent row mb i j) = true) :
    MatRep (mkMat row ma mb sg) (fun i j => dyR (ent row ma i j)) (fun i j => (sg : ℝ) * dyR (ent row mb i j)) := by
  have c1 : |((1 : ℤ) : ℝ)| ≤ 7 := by norm_num
  have csg : |(sg : ℝ)| ≤ 7 := by rw [hsg]; norm_num
  have cj : ∀ j < 7, |(((j + 1 : ℕ) : ℤ) : ℝ)| ≤ 7 := fun j hj => by
    push_cast
    rw [abs_of_nonneg (by positivity)]
    have : ((j : ℝ)) ≤ 6 := by exact_mod_cast (by omega : j ≤ 6)
    linarith
  have cjs : ∀ j < 7, |((((j + 1 : ℕ) : ℤ) * sg : ℤ) : ℝ)| ≤ 7 := fun j hj => by
    have := cj j hj
    push_cast at this ⊢
    rw [abs_mul, hsg, mul_one]; exact this
  constructor
  · intro i hi j hj
    rw [mkMat_row _ _ _ _ i hi]
    show (((v7 fun j => enc (scaled (ent row ma i j))).get j : ℕ) : ℝ) = _
    rw [v7_get _ j hj]
    have := enc_scaled (hok i hi j hj).1 1 c1
    simpa using this
  · intro i hi j hj
    rw [mkMat_row _ _ _ _ i hi]
    show (((v7 fun j => enc (sg * scaled (ent row mb i j))).get j : ℕ) : ℝ) = _
    rw [v7_get _ j hj]
    exact enc_scaled (hok i hi j hj).2 sg csg
  · intro i hi j hj
    rw [mkMat_row _ _ _ _ i hi]
    show (((v7 fun j => enc ((j + 1 : ℕ) * scaled (ent row ma i j))).get j : ℕ) : ℝ) = _
    rw [v7_get _ j hj]
    have := enc_scaled (hok i hi j hj).1 ((j + 1 : ℕ) : ℤ) (cj j hj)
    rw [this]; push_cast; ring
  · intro i hi j hj
    rw [mkMat_row _ _ _ _ i hi]
    show (((v7 fun j => enc ((j + 1 : ℕ) * (sg * scaled (ent row mb i j)))).get j : ℕ) : ℝ) = _
    rw [v7_get _ j hj]
    have := enc_scaled (hok i hi j hj).2 (((j + 1 : ℕ) : ℤ) * sg) (cjs j hj)
    rw [← mul_assoc, this]; push_cast; ring
  · intro i hi j hj
    exact (coefOK_spec (hok i hi j hj).1).2
  · intro i hi j hj
    rw [abs_mul, hsg, one_mul]
    exact (coefOK_spec (hok i hi j hj).2).2

theorem foldl_range_add (f : ℕ → ℕ) (n a : ℕ) :
    (List.range n).foldl (fun acc i => acc + f i) a = a + ∑ i ∈ range n, f i := by
  induction n with
  | zero => simp
  | succ n ih => rw [List.range_succ, List.foldl_append, ih, sum_range_succ]; simp [Nat.add_assoc]

theorem wSum_eq (row ma mb : ℕ) :
    wSum row ma mb = ∑ i ∈ range 7, ∑ j ∈ range 7,
      (i + j + 2) * (i + j + 2) * ((scaled (ent row ma i j)).natAbs + (scaled (ent row mb i j)).natAbs) := by
  unfold wSum
  have inner : ∀ (i acc : ℕ), (List.range 7).foldl (fun acc j =>
      acc + (i + j + 2) * (i + j + 2) * ((scaled (ent row ma i j)).natAbs + (scaled (ent row mb i j)).natAbs)) acc
      = acc + ∑ j ∈ range 7,
        (i + j + 2) * (i + j + 2) * ((scaled (ent row ma i j)).natAbs + (scaled (ent row mb i j)).natAbs) :=
    fun i acc => foldl_range_add _ 7 acc
  simp only [inner]
  rw [foldl_range_add, Nat.zero_add]

/-- `wSum·2^127` is `2^164` times the second-derivative constant `wq` -/
theorem wSum_spec (row ma mb : ℕ) (sg : ℤ) (hsg : |(sg : ℝ)| = 1)
    (hok : ∀ i < 7, ∀ j < 7, coefOK (ent row ma i j) = true ∧ coefOK (ent row mb i j) = true) :
    wq (coAB (fun i j => dyR (ent row ma i j)) (fun i j => (sg : ℝ) * dyR (ent row mb i j)))
      = ((Nat.shiftLeft (wSum row ma mb) 127 : ℕ) : ℝ) / 2 ^ 164 := by
  rw [shl_cast, wSum_eq]
  have key : (nw 2 0 (coAB (fun i j => dyR (ent row ma i j)) (fun i j => (sg : ℝ) * dyR (ent row mb i j)))
        + 2 * nw 1 1 (coAB (fun i j => dyR (ent row ma i j)) (fun i j => (sg : ℝ) * dyR (ent row mb i j)))
        + nw 0 2 (coAB (fun i j => dyR (ent row ma i j)) (fun i j => (sg : ℝ) * dyR (ent row mb i j)))) * 2 ^ 36
      = ((∑ i ∈ range 7, ∑ j ∈ range 7,
          (i + j + 2) * (i + j + 2) * ((scaled (ent row ma i j)).natAbs + (scaled (ent row mb i j)).natAbs) : ℕ) : ℝ) := by
    unfold nw coAB
    push_cast
    simp only [mul_sum, sum_mul, ← sum_add_distrib]
    apply sum_congr rfl; intro i hi
    apply sum_congr rfl; intro j hj
    obtain ⟨ha, hb⟩ := hok i (mem_range.mp hi) j (mem_range.mp hj)
    obtain ⟨ea, _⟩ := coefOK_spec ha
    obtain ⟨eb, _⟩ := coefOK_spec hb
    have na : ((scaled (ent row ma i j)).natAbs : ℝ) = |dyR (ent row ma i j)| * 2 ^ 36 := by
      rw [Nat.cast_natAbs, Int.cast_abs, ea, abs_mul, abs_of_pos (by positivity : (0 : ℝ) < 2 ^ 36)]
    have nb : ((scaled (ent row mb i j)).natAbs : ℝ) = |dyR (ent row mb i j)| * 2 ^ 36 := by
      rw [Nat.cast_natAbs, Int.cast_abs, eb, abs_mul, abs_of_pos (by positivity : (0 : ℝ) < 2 ^ 36)]
    rw [na, nb]
    simp only [Pi.zero_apply, abs_zero, abs_mul, hsg]
    ring
  unfold wq
  rw [← key]
  have : (2 : ℝ) ^ 164 = 2 ^ 36 * 2 ^ 127 * 2 := by norm_num
  rw [this]
  field_simp

/-- lower / upper bound of `|d|·2^164` at a dyadic point from the computed `absVal` -/
theorem absVal_spec {M : Mat} {α β : ℕ → ℕ → ℝ} (hM : MatRep M α β)
    {nx kx ny ky : ℕ} (hx : nx ≤ 2 ^ kx) (hy : ny ≤ 2 ^ ky) :
    ((Nat.sub (absVal M (trigs nx kx) (trigs ny ky)) E0T : ℕ) : ℝ)
        ≤ |gen (coAB α β) (nx / 2 ^ kx) (ny / 2 ^ ky)| * 2 ^ 164 ∧
    |gen (coAB α β) (nx / 2 ^ kx) (ny / 2 ^ ky)| * 2 ^ 164
        ≤ ((Nat.add (absVal M (trigs nx kx) (trigs ny ky)) E0T : ℕ) : ℝ) := by
  obtain ⟨tyok, _, _⟩ := trigs_ok hy
  have hv := val_spec hM tyok (trigs nx kx)
  obtain ⟨c0, _, _⟩ := centre_spec hM.ha hM.hb hx hy
  set Ah := genV (coAB α β) (sH (trigs nx kx)) (cH (trigs nx kx)) (sH (trigs ny ky)) (cH (trigs ny ky))
  set A := gen (coAB α β) (nx / 2 ^ kx) (ny / 2 ^ ky)
  have hav : ((absVal M (trigs nx kx) (trigs ny ky) : ℕ) : ℝ) = 2 ^ 164 * |Ah| := by
    unfold absVal
    rw [adiff_cast, hv, abs_mul, abs_of_pos (by positivity : (0 : ℝ) < 2 ^ 164)]
  have d1 : |A| ≤ |Ah| + 1 / 2 ^ 27 := by
    have := abs_sub_abs_le_abs_sub A Ah
    have : (1 : ℝ) / 2 ^ 34 ≤ 1 / 2 ^ 27 := by norm_num
    linarith
  have d2 : |Ah| - 1 / 2 ^ 27 ≤ |A| := by
    have := abs_sub_abs_le_abs_sub Ah A
    rw [abs_sub_comm] at this
    have : (1 : ℝ) / 2 ^ 34 ≤ 1 / 2 ^ 27 := by norm_num
    linarith
  have e164 : (2 : ℝ) ^ 164 * (1 / 2 ^ 27) = 2 ^ 137 := by norm_num
  constructor
  · rcases le_total (absVal M (trigs nx kx) (trigs ny ky)) E0T with h | h
    · have : Nat.sub (absVal M (trigs nx kx) (trigs ny ky)) E0T = 0 := Nat.sub_eq_zero_of_le h
      rw [this]; simp only [Nat.cast_zero]; positivity
    · have : ((Nat.sub (absVal M (trigs nx kx) (trigs ny ky)) E0T : ℕ) : ℝ)
          = ((absVal M (trigs nx kx) (trigs ny ky) : ℕ) : ℝ) - (E0T : ℝ) := by
        show ((absVal M (trigs nx kx) (trigs ny ky) - E0T : ℕ) : ℝ) = _
        rw [Nat.cast_sub h]
      rw [this, hav, E0T_cast]
      nlinarith
  · show ((absVal M (trigs nx kx) (trigs ny ky) + E0T : ℕ) : ℝ) ≥ _
    push_cast
    rw [hav, E0T_cast]
    nlinarith

/-- `sLo ≤ S·2^328 ≤ sHi` at a dyadic point -/
theorem point_bounds {M1 M2 : Mat} {α1 β1 α2 β2 : ℕ → ℕ → ℝ} (h1 : MatRep M1 α1 β1) (h2 : MatRep M2 α2 β2)
    {nx kx ny ky : ℕ} (hx : nx ≤ 2 ^ kx) (hy : ny ≤ 2 ^ ky) :
    ((sLo M1 M2 (trigs nx kx) (trigs ny ky) : ℕ) : ℝ) ≤ SS α1 β1 α2 β2 (nx / 2 ^ kx) (ny / 2 ^ ky) * 2 ^ 328 ∧
    SS α1 β1 α2 β2 (nx / 2 ^ kx) (ny / 2 ^ ky) * 2 ^ 328 ≤ ((sHi M1 M2 (trigs nx kx) (trigs ny ky) : ℕ) : ℝ) := by
  obtain ⟨l1, u1⟩ := absVal_spec h1 hx hy
  obtain ⟨l2, u2⟩ := absVal_spec h2 hx hy
  have e328 : (2 : ℝ) ^ 328 = 2 ^ 164 * 2 ^ 164 := by rw [← pow_add]
  have sq : ∀ A : ℝ, A ^ 2 * (2 ^ 164 * 2 ^ 164) = (|A| * 2 ^ 164) * (|A| * 2 ^ 164) := fun A => by
    rw [← sq_abs A]; ring
  unfold SS sLo sHi
  simp only [Nat.add_eq, Nat.mul_eq] at *
  rw [e328, add_mul, sq, sq]
  push_cast
  have n1 : (0 : ℝ) ≤ ((Nat.sub (absVal M1 (trigs nx kx) (trigs ny ky)) E0T : ℕ) : ℝ) := Nat.cast_nonneg _
  have n2 : (0 : ℝ) ≤ ((Nat.sub (absVal M2 (trigs nx kx) (trigs ny ky)) E0T : ℕ) : ℝ) := Nat.cast_nonneg _
  have p1 : (0 : ℝ) ≤ |gen (coAB α1 β1) (nx / 2 ^ kx) (ny / 2 ^ ky)| * 2 ^ 164 := by positivity
  have p2 : (0 : ℝ) ≤ |gen (coAB α2 β2) (nx / 2 ^ kx) (ny / 2 ^ ky)| * 2 ^ 164 := by positivity
  push_cast at u1 u2
  constructor
  · exact add_le_add (mul_le_mul l1 l1 n1 p1) (mul_le_mul l2 l2 n2 p2)
  · exact add_le_add (mul_le_mul u1 u1 p1 (p1.trans u1)) (mul_le_mul u2 u2 p2 (p2.trans u2))

end Grish
