import IOptModel.Evolvent
/-!
# Finite facts about `Ev.node` / `Ev.numbr` for N = 2..5 (worker a2)

`nodeOK n d`: the node of digit `d` has `l < n`, `u`, `v` of length `n` with entries ±1, and
`numbr n u = (d, l, v)` (`__CalculateNumbr` inverts `__CalculateNode`).
`numbrOK n u`: conversely for a sign vector `u`, `node n (numbr n u).1 = (l, u, v)`.
-/

namespace Ev.Inv

/-- Boolean test: all entries are `1` or `-1`. -/
def pm1 (l : List Int) : Bool := l.all fun x => x == 1 || x == -1

/-- All the finite facts about the node of digit `d` in one Boolean. -/
def nodeOK (n d : Nat) : Bool :=
  let r := node n d
  decide (r.1 < n) && r.2.1.length == n && r.2.2.length == n && pm1 r.2.1 && pm1 r.2.2 &&
    (numbr n r.2.1 == (d, r.1, r.2.2))

theorem nodeOK2 : ∀ d < 2^2, nodeOK 2 d = true := by decide
theorem nodeOK3 : ∀ d < 2^3, nodeOK 3 d = true := by decide
theorem nodeOK4 : ∀ d < 2^4, nodeOK 4 d = true := by decide
theorem nodeOK5 : ∀ d < 2^5, nodeOK 5 d = true := by decide

end Ev.Inv

namespace Ev.Inv

/-- all sign vectors of length `n` -/
def allSigns : Nat → List (List Int)
  | 0 => [[]]
  | n+1 => (allSigns n).flatMap fun t => [1 :: t, -1 :: t]

theorem mem_allSigns : ∀ (n : Nat) (u : List Int), u.length = n → pm1 u = true → u ∈ allSigns n
  | 0, [], _, _ => by simp [allSigns]
  | n+1, x :: t, hl, hp => by
    have hl' : t.length = n := by simpa using hl
    simp only [pm1, List.all_cons, Bool.and_eq_true, Bool.or_eq_true, beq_iff_eq] at hp
    have ht := mem_allSigns n t hl' hp.2
    simp only [allSigns, List.mem_flatMap, List.mem_cons, List.cons.injEq, List.not_mem_nil,
      or_false]
    exact ⟨t, ht, by rcases hp.1 with h | h <;> simp [h]⟩

/-- the converse finite fact for a sign vector `u` -/
def numbrOK (n : Nat) (u : List Int) : Bool :=
  let r := numbr n u
  decide (r.1 < 2^n) && (node n r.1 == (r.2.1, u, r.2.2))

theorem numbrOK2 : ∀ u ∈ allSigns 2, numbrOK 2 u = true := by decide
theorem numbrOK3 : ∀ u ∈ allSigns 3, numbrOK 3 u = true := by decide
theorem numbrOK4 : ∀ u ∈ allSigns 4, numbrOK 4 u = true := by decide
theorem numbrOK5 : ∀ u ∈ allSigns 5, numbrOK 5 u = true := by decide

end Ev.Inv
