import IOptProps.C07
import IOptProps.C07num
/-!
# Compositions (worker m), part 2: `GetImage` with density `m` only produces points of the `2^m` grid

For `Ev.DimOK N` and EVERY argument `x`, coordinate `i` of `getImage n m lower upper x` is
`lower_i + (j + 1/2) (upper_i - lower_i) / 2^m` for a cell index `j < 2^m`.
-/
set_option linter.unusedSectionVars false

namespace Ev
variable {α : Type} [Field α] [LinearOrder α] [IsStrictOrderedRing α] [FloorSemiring α]
attribute [local instance] Ev.Num.floorTrunc

/-- `pt` has `n` coordinates and each is the centre of a cell of the `2^m`-per-axis grid on the box -/
def OnGrid (n m : Nat) (lower upper pt : List α) : Prop :=
  pt.length = n ∧
  ∀ i (_ : i < pt.length) (_ : i < lower.length) (_ : i < upper.length),
    ∃ j : Nat, j < 2 ^ m ∧ pt[i] = lower[i] + ((j : α) + 1 / 2) * (upper[i] - lower[i]) / 2 ^ m

/-- for every argument `imageCube` is the centre of the cell of some valid digit list of length `m` -/
theorem imageCube_some_cell {n : Nat} (hn : Ev.DimOK n) (m : Nat) (x : α) :
    ∃ ds, validDigits n ds ∧ ds.length = m ∧
      imageCube n m x = (cubeY n ds).map (fun (Y : Int) => (Y : α) / 2 ^ (m + 1)) := by
  rcases lt_or_ge x 0 with h0 | h0
  · exact ⟨_, validDigits_replicate (Nat.two_pow_pos n), List.length_replicate, Num.imageCube_neg hn m x h0⟩
  · rcases lt_or_ge x 1 with h1 | h1
    · exact ⟨_, digitsOf_valid n m _, digitsOf_length n m _, C07_image_cell hn m x h0 h1⟩
    · exact ⟨_, validDigits_replicate (Nat.sub_lt (Nat.two_pow_pos n) Nat.one_pos), List.length_replicate,
        C07_image_cell_end hn m x h1⟩

/-- the affine map sends the cell centre `Y = 2k + 1 - 2^m` (units of `2^-(m+1)`) to grid point `k` -/
theorem p2d_centre (m k : Nat) (l u : α) :
    (((2 * (k : Int) + 1 - 2 ^ m : Int) : α) / 2 ^ (m + 1)) * (u - l) + (u + l) / 2
      = l + ((k : α) + 1 / 2) * (u - l) / 2 ^ m := by
  have h2 : (2 : α) ^ m ≠ 0 := by positivity
  push_cast
  rw [pow_succ]
  field_simp
  ring

/-- **`GetImage` lands on the grid of the configured density**, for every argument -/
theorem getImage_onGrid {n : Nat} (hn : Ev.DimOK n) (m : Nat) (lower upper : List α)
    (hl : lower.length = n) (hu : upper.length = n) (x : α) :
    OnGrid n m lower upper (getImage n m lower upper x) := by
  obtain ⟨ds, hd, hlen, he⟩ := imageCube_some_cell hn m x
  have hmem : Ev.DimOK n := hn
  have hc := (C07_centres hmem hd).1
  have hidx := C07_centres_index hmem hd
  have hil : (imageCube n m x).length = n := by rw [he, List.length_map, hc]
  unfold getImage
  refine ⟨by simp [Num.length_p2d, hl, hu, hil], ?_⟩
  intro i hp h1 h2
  have hy : i < (imageCube n m x).length := by rw [hil, ← hl]; exact h1
  rw [Num.getElem_p2d lower upper _ i hp hy h1 h2]
  have hi' : i < (cubeY n ds).length := by rw [hc, ← hl]; exact h1
  have hgi : (imageCube n m x)[i] = ((cubeY n ds)[i] : α) / 2 ^ (m + 1) := by
    simp only [he, List.getElem_map]
  obtain ⟨k, hk, hY⟩ := hidx _ (List.getElem_mem hi')
  rw [hlen] at hk hY
  refine ⟨k, hk, ?_⟩
  rw [hgi, hY]
  exact p2d_centre m k _ _

end Ev
