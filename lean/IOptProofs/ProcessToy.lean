import IOptProofs.ProcessOps
/-!
# A tiny concrete instance of the model, used for the non-vacuity examples

`α := Rat` (core Lean rationals), dimension 1, `image x = [x]`, `root x _ = x`; objective `(x - 1/3)^2`.
The instance is scoped: `open ProcToy` to use it.
-/

namespace ProcToy
open AGP AGP.Ctl Proc

scoped instance instFnsRat : Fns Rat where
  abs x := if x < 0 then -x else x
  root x _ := x
  powN x n := x ^ n
  big := 1000000000

/-- parameters: one dimension, `r = 2` -/
def P (lim : Nat) (eps : Rat) : Params Rat :=
  { n := 1, r := 2, eps := eps, itersLimit := lim, image := fun x => [x] }

/-- a pure objective that never raises -/
def F : Nat → List Rat → Option Rat := fun _ pt => some ((pt.headD 0 - 1/3) * (pt.headD 0 - 1/3))

/-- the same objective raising exactly at call index `k` -/
def failAt (k : Nat) : Nat → List Rat → Option Rat := fun j pt => if j = k then none else F j pt

theorem F_total : ∀ j pt, F j pt ≠ none := by intro j pt; simp [F]

theorem failAt_iff (k j : Nat) (pt : List Rat) : failAt k j pt = none ↔ j = k := by
  unfold failAt; split <;> simp_all [F]

theorem failAt_agree (k j : Nat) (pt : List Rat) (h : j ≠ k) : failAt k j pt = F j pt := by
  simp [failAt, h]

/-- no refinement -/
def noRefine : PState Rat → Option (LocalResult Rat) := fun _ => none

/-- from a Boolean check to the existence of the successful result -/
theorem ok_of_isOk {ε β : Type} {r : Except ε β} (h : r.isOk = true) : ∃ x, r = .ok x := by
  cases r with
  | ok x => exact ⟨x, rfl⟩
  | error e => cases h

end ProcToy
