import IOptProofs.ProcessOps
/-!
# Exactness of the stop rule of `Solve`, and the reported accuracy
-/

set_option linter.unusedSectionVars false

section
variable {α : Type} [Add α] [Sub α] [Mul α] [Div α] [Neg α] [LT α] [LE α]
  [DecidableLT α] [DecidableLE α] [OfNat α 0] [OfNat α 1] [OfNat α 2] [OfNat α 4] [Fns α]

namespace Proc
open AGP AGP.Ctl

/-- The stop criterion after `j` passes of the canonical sequence from `ps`, written with the data of
that sequence only: the running Python-`min` of the selected lengths is below `eps`, or the budget is used up. -/
def Crit (p : Params α) (f : Nat → List α → Option α) (ps : PState α) (j : Nat) : Prop :=
  (∃ d, foldMin ps.minDelta (deltas p f ps j) = some d ∧ d < p.eps) ∨ p.itersLimit ≤ ps.iters + j

theorem stopNow_iff_crit {p : Params α} {f : Nat → List α → Option α} {ps psj : PState α} {j : Nat} {ids : List Nat}
    (h : iterN p f j ps = .ok (psj, ids)) : stopNow p psj = true ↔ Crit p f ps j := by
  obtain ⟨c1, -, -, -, -, -, c7⟩ := iterN_counters h
  rw [stopNow_iff, c1, c7]; rfl

/-- **The loop of `Solve` stops exactly at the first state of the canonical sequence that satisfies the
criterion** (if nothing raises): it makes `K` passes, the criterion holds after `K` and after no `j < K`. -/
theorem solveLoop_stop_exact {p : Params α} {f : Nat → List α → Option α} {fuel : Nat} {ps : PState α}
    (hfuel : remaining p ps < fuel) (hnr : (solveLoop p f fuel ps).2 = false) :
    ∃ K psK ids, iterN p f K ps = .ok (psK, ids) ∧ (solveLoop p f fuel ps).1 = psK.appendLog (endEach ids) ∧
      Crit p f ps K ∧ ∀ j, j < K → ¬ Crit p f ps j := by
  obtain ⟨K, psK, ids, hpre, hcase⟩ := solveLoop_spec p f fuel ps hfuel
  rcases hcase with ⟨hst, -, ps', hsl, hc, hl⟩ | ⟨-, pe, e, ps', -, -, hsl, -, -⟩
  · refine ⟨K, psK, ids, hpre.run, by rw [hsl]; exact PState.ext_core_log hc hl,
      (stopNow_iff_crit hpre.run).1 hst, ?_⟩
    intro j hj hcrit
    obtain ⟨psj, idsj, hr, hns⟩ := hpre.notStop j hj
    have := (stopNow_iff_crit hr).2 hcrit
    rw [hns] at this; cases this
  · rw [hsl] at hnr; cases hnr

/-- the same for a run that ends because the objective (or the selection) raises in pass `K+1`:
`K` passes are completed, the criterion holds after none of `0 … K` -/
theorem solveLoop_raise_exact {p : Params α} {f : Nat → List α → Option α} {fuel : Nat} {ps : PState α}
    (hfuel : remaining p ps < fuel) (hr : (solveLoop p f fuel ps).2 = true) :
    ∃ K psK ids pe e, iterN p f K ps = .ok (psK, ids) ∧ oneIteration p f psK = .error (pe, e) ∧
      solveRaise p f fuel ps = some e ∧
      (solveLoop p f fuel ps).1 = pe.appendLog (endEach ids ++ [Event.exceptionPrinted]) ∧
      ∀ j, j ≤ K → ¬ Crit p f ps j := by
  obtain ⟨K, psK, ids, hpre, hcase⟩ := solveLoop_spec p f fuel ps hfuel
  rcases hcase with ⟨-, -, ps', hsl, -, -⟩ | ⟨hst, pe, e, ps', herr, hsr, hsl, hc, hl⟩
  · rw [hsl] at hr; cases hr
  · refine ⟨K, psK, ids, pe, e, hpre.run, herr, hsr,
      by rw [hsl]; exact PState.ext_core_log hc (by rw [hl]; simp), ?_⟩
    intro j hj hcrit
    rcases Nat.lt_or_ge j K with hlt | hge
    · obtain ⟨psj, idsj, hr, hns⟩ := hpre.notStop j hlt
      have := (stopNow_iff_crit hr).2 hcrit
      rw [hns] at this; cases this
    · have : j = K := by omega
      subst this
      have := (stopNow_iff_crit hpre.run).2 hcrit
      rw [hst] at this; cases this

/-- every pass after the first selects an interval: `deltaAt` is defined wherever a pass was made from a
state that had done its first iteration -/
theorem deltaAt_isSome {p : Params α} {f : Nat → List α → Option α} {ps psi ps' : PState α} {i id : Nat} {ids : List Nat}
    (hi : iterN p f i ps = .ok (psi, ids)) (hm : psi.m ≠ none) (h1 : oneIteration p f psi = .ok (ps', id)) :
    ∃ d, deltaAt p f ps i = some d := by
  obtain ⟨-, -, pt, z, -, -, h⟩ := oneIteration_ok h1
  rcases h with ⟨hm', -⟩ | ⟨s, pr, hms, hpr, -⟩
  · exact absurd hm' hm
  · exact ⟨pr.old.delta, by simp [deltaAt, stateAt, hi, nextDelta, hms, hpr]⟩

theorem mem_deltas {p : Params α} {f : Nat → List α → Option α} {ps : PState α} {k : Nat} {d : α} :
    d ∈ deltas p f ps k ↔ ∃ i, i < k ∧ deltaAt p f ps i = some d := by
  simp [deltas, List.mem_filterMap]

theorem deltaAt_fresh_zero (p : Params α) (f : Nat → List α → Option α) : deltaAt p f ({} : PState α) 0 = none := rfl

end Proc
end
