import IOptProofs.ShekelTabDefs
/-! kernel-evaluated C18 table certificates (min / max / Lipschitz tables) of the Shekel functions 440..459
(one block per file, identical template; four kernel evaluations of 5 rows each keep the memory near 1 GB) -/
namespace Shk
set_option maxRecDepth 100000 in
theorem shekel_tab_block_22_a : ∀ i ∈ List.range' 440 5, shekelTabOK i = true := by decide +kernel
set_option maxRecDepth 100000 in
theorem shekel_tab_block_22_b : ∀ i ∈ List.range' 445 5, shekelTabOK i = true := by decide +kernel
set_option maxRecDepth 100000 in
theorem shekel_tab_block_22_c : ∀ i ∈ List.range' 450 5, shekelTabOK i = true := by decide +kernel
set_option maxRecDepth 100000 in
theorem shekel_tab_block_22_d : ∀ i ∈ List.range' 455 5, shekelTabOK i = true := by decide +kernel
theorem shekel_tab_block_22 : ∀ i ∈ List.range' 440 20, shekelTabOK i = true := by
  intro i hi
  have hi' := List.mem_range'_1.1 hi
  if h1 : i < 445 then exact shekel_tab_block_22_a i (List.mem_range'_1.2 ⟨by omega, by omega⟩) else
  if h2 : i < 450 then exact shekel_tab_block_22_b i (List.mem_range'_1.2 ⟨by omega, by omega⟩) else
  if h3 : i < 455 then exact shekel_tab_block_22_c i (List.mem_range'_1.2 ⟨by omega, by omega⟩) else
  exact shekel_tab_block_22_d i (List.mem_range'_1.2 ⟨by omega, by omega⟩)
end Shk
