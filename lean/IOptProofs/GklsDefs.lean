import IOptModel.Problems
import IOptGen.Gkls
import IOptProofs.GklsVec
import Mathlib.Data.List.GetD
import Mathlib.Tactic.FieldSimp
import Mathlib.Tactic.NormNum
/-!
# GKLS test functions: data, constants and the decidable well-formedness certificate

* `Gkls.toData r : Prob.GklsData ℝ` – a regenerated data set `r : Gen.GklsRaw` with every dyadic cast to `ℝ`;
  `Gkls.consts` – the constants of `GKLSFunction`.
* `Gkls.Good D` – everything the structure theorems (`IOptProps/C14.lean`) need about real GKLS data `D`;
  every clause is free of square roots (squared distances are compared).
* `Gkls.WF r : Bool` – the certificate: the same clauses, checked in exact integer arithmetic on the
  numerators of the dyadics over the common denominator `2^1074` (every finite double is a multiple
  of `2^-1074`).  `Gkls.good_of_WF : WF r = true → Good (toData r)`.
-/

namespace Gkls
open Prob


/-! ### Real data and the well-formedness predicate -/

/-- `M_i = local_min[i]` (`M_0 = T` is the paraboloid vertex, `M_1` the global minimiser) -/
def Mi (D : GklsData ℝ) (i : Nat) : List ℝ := D.localMin.getD i []
/-- `ρ_i`, the radius of ball `i` -/
def rhoi (D : GklsData ℝ) (i : Nat) : ℝ := D.rho.getD i 0
/-- `f_i`, the value prescribed at `M_i` -/
def fi (D : GklsData ℝ) (i : Nat) : ℝ := D.f.getD i 0
/-- `a_i = ‖T - M_i‖² + f_0 - f_i` -/
def cubA (D : GklsData ℝ) (i : Nat) : ℝ := sqDist (Mi D 0) (Mi D i) + fi D 0 - fi D i

/-- well-formedness of real GKLS data (all clauses root-free) -/
structure Good (D : GklsData ℝ) : Prop where
  /-- the dimension is at least 2 -/
  dim_ge : 2 ≤ D.dim
  len_min : D.localMin.length = 10
  len_rho : D.rho.length = 10
  len_f : D.f.length = 10
  /-- every minimiser has `dim` coordinates -/
  len_M : ∀ i < 10, (Mi D i).length = D.dim
  /-- every radius is positive -/
  rho_pos : ∀ i < 10, 0 < rhoi D i
  /-- every radius is at least the PRECISION guard `10⁻¹⁰` -/
  rho_ge_prec : ∀ i < 10, (1e-10 : ℝ) ≤ rhoi D i
  f_zero : fi D 0 = 0
  f_one : fi D 1 = -1
  /-- every non-global local minimum is strictly higher than the global one -/
  f_gt : ∀ i < 10, 2 ≤ i → -1 < fi D i
  /-- every minimiser lies in the box `[-1,1]^n` -/
  in_box : ∀ i < 10, ∀ c ∈ Mi D i, -1 ≤ c ∧ c ≤ 1
  /-- balls `1..9` are pairwise disjoint: `‖M_i - M_j‖² > (ρ_i + ρ_j)²` -/
  disjoint : ∀ i < 10, ∀ j < 10, 1 ≤ i → i < j → (rhoi D i + rhoi D j) ^ 2 < sqDist (Mi D i) (Mi D j)
  /-- the vertex `T = M_0` lies outside every ball: `‖T - M_i‖² > ρ_i²` -/
  vertex_out : ∀ i < 10, 1 ≤ i → rhoi D i ^ 2 < sqDist (Mi D 0) (Mi D i)
  /-- `ρ² - 2dρ + a > 0` without roots (`d = ‖T - M_i‖`) -/
  cubic1 : ∀ i < 10, 1 ≤ i → 0 ≤ rhoi D i ^ 2 + cubA D i ∧
    4 * sqDist (Mi D 0) (Mi D i) * rhoi D i ^ 2 < (rhoi D i ^ 2 + cubA D i) ^ 2
  /-- `ρ² - 4dρ + 3a ≥ 0` without roots -/
  cubic2 : ∀ i < 10, 1 ≤ i → 0 ≤ rhoi D i ^ 2 + 3 * cubA D i ∧
    16 * sqDist (Mi D 0) (Mi D i) * rhoi D i ^ 2 ≤ (rhoi D i ^ 2 + 3 * cubA D i) ^ 2

/-- the constants of `GKLSFunction` read as real numbers -/
noncomputable def consts : GklsConsts ℝ :=
  { maxValue := 1e100, precision := 1e-10, domainLeft := -1, domainRight := 1, three := 3, four := 4 }

/-- the exact real value `num / 2^k` of a dyadic -/
noncomputable def toReal (d : Dy) : ℝ := (d.1 : ℝ) / 2 ^ d.2

/-- a regenerated data set with every dyadic cast to `ℝ` -/
noncomputable def toData (r : Gen.GklsRaw) : GklsData ℝ :=
  { dim := r.dim, localMin := r.localMin.map (·.map toReal), rho := r.rho.map toReal, f := r.f.map toReal }

/-! ### The integer certificate -/

/-- common binary exponent: every finite double is an integer multiple of `2^-1074` -/
def E : Nat := 1074
/-- the common denominator `2^1074` -/
def unit : Int := ((2 ^ E : Nat) : Int)
/-- numerator of a dyadic over the common denominator `2^E` (exact when `d.2 ≤ E`) -/
def sc (d : Dy) : Int := d.1 * ((2 ^ (E - d.2) : Nat) : Int)

/-- the numerators over the common denominator -/
def toDataZ (r : Gen.GklsRaw) : GklsData Int :=
  { dim := r.dim, localMin := r.localMin.map (·.map sc), rho := r.rho.map sc, f := r.f.map sc }

def sqDistZ (x y : List Int) : Int := (List.zipWith (fun a b => (a - b) * (a - b)) x y).sum
def MiZ (D : GklsData Int) (i : Nat) : List Int := D.localMin.getD i []
def rhoZ (D : GklsData Int) (i : Nat) : Int := D.rho.getD i 0
def fZ (D : GklsData Int) (i : Nat) : Int := D.f.getD i 0
/-- `a_i` over the denominator `u²` -/
def cubAZ (u : Int) (D : GklsData Int) (i : Nat) : Int :=
  sqDistZ (MiZ D 0) (MiZ D i) + (fZ D 0 - fZ D i) * u

/-- shapes -/
def ShapeZ (D : GklsData Int) : Prop :=
  (2 ≤ D.dim ∧ D.localMin.length = 10 ∧ D.rho.length = 10 ∧ D.f.length = 10) ∧
  (∀ i < 10, (MiZ D i).length = D.dim)
/-- radii positive and at least `10⁻¹⁰`; `f_0 = 0`, `f_1 = -1`, `f_i > -1`; minimisers in the box -/
def RangeZ (u : Int) (D : GklsData Int) : Prop :=
  (∀ i < 10, 0 < rhoZ D i ∧ u ≤ rhoZ D i * 10000000000) ∧
  (fZ D 0 = 0 ∧ fZ D 1 = -u) ∧
  (∀ i < 10, 2 ≤ i → -u < fZ D i) ∧
  (∀ i < 10, ∀ c ∈ MiZ D i, -u ≤ c ∧ c ≤ u)
/-- balls pairwise disjoint, vertex outside every ball -/
def DisjZ (D : GklsData Int) : Prop :=
  (∀ i < 10, ∀ j < 10, 1 ≤ i → i < j →
    (rhoZ D i + rhoZ D j) * (rhoZ D i + rhoZ D j) < sqDistZ (MiZ D i) (MiZ D j)) ∧
  (∀ i < 10, 1 ≤ i → rhoZ D i * rhoZ D i < sqDistZ (MiZ D 0) (MiZ D i))
/-- the two cubic conditions -/
def CubicZ (u : Int) (D : GklsData Int) : Prop :=
  (∀ i < 10, 1 ≤ i → 0 ≤ rhoZ D i * rhoZ D i + cubAZ u D i ∧
    4 * sqDistZ (MiZ D 0) (MiZ D i) * (rhoZ D i * rhoZ D i) <
      (rhoZ D i * rhoZ D i + cubAZ u D i) * (rhoZ D i * rhoZ D i + cubAZ u D i)) ∧
  (∀ i < 10, 1 ≤ i → 0 ≤ rhoZ D i * rhoZ D i + 3 * cubAZ u D i ∧
    16 * sqDistZ (MiZ D 0) (MiZ D i) * (rhoZ D i * rhoZ D i) ≤
      (rhoZ D i * rhoZ D i + 3 * cubAZ u D i) * (rhoZ D i * rhoZ D i + 3 * cubAZ u D i))

/-- the clauses of `Good` for data given as integer numerators over the common denominator `u` -/
def GoodZ (u : Int) (D : GklsData Int) : Prop := ShapeZ D ∧ RangeZ u D ∧ DisjZ D ∧ CubicZ u D

instance (D : GklsData Int) : Decidable (ShapeZ D) := by unfold ShapeZ; infer_instance
instance (u : Int) (D : GklsData Int) : Decidable (RangeZ u D) := by unfold RangeZ; infer_instance
instance (D : GklsData Int) : Decidable (DisjZ D) := by unfold DisjZ; infer_instance
instance (u : Int) (D : GklsData Int) : Decidable (CubicZ u D) := by unfold CubicZ; infer_instance
instance (u : Int) (D : GklsData Int) : Decidable (GoodZ u D) := by unfold GoodZ; infer_instance

/-- every binary exponent of the data set is at most `E` (so that `sc` is exact) -/
def expOK (r : Gen.GklsRaw) : Bool :=
  r.localMin.all (fun m => m.all fun d => decide (d.2 ≤ E)) && r.rho.all (fun d => decide (d.2 ≤ E)) &&
    r.f.all (fun d => decide (d.2 ≤ E))

/-- the decidable well-formedness certificate of a regenerated data set (exact integer arithmetic) -/
def WF (r : Gen.GklsRaw) : Bool :=
  r.numMinima == 10 && expOK r && decide (GoodZ unit (toDataZ r))

/-! ### Soundness of the certificate -/

/-- the real number `z / u` -/
noncomputable def castZ (u z : Int) : ℝ := (z : ℝ) / (u : ℝ)

/-- integer numerators over the denominator `u`, read as reals -/
noncomputable def castData (u : Int) (D : GklsData Int) : GklsData ℝ :=
  { dim := D.dim, localMin := D.localMin.map (·.map (castZ u)), rho := D.rho.map (castZ u), f := D.f.map (castZ u) }

theorem toReal_eq_sc (d : Dy) (h : d.2 ≤ E) : toReal d = castZ unit (sc d) := by
  unfold toReal castZ sc unit
  push_cast
  have h2 : (2 : ℝ) ^ E = 2 ^ (E - d.2) * 2 ^ d.2 := by rw [← pow_add, Nat.sub_add_cancel h]
  rw [h2]
  field_simp

theorem toData_eq_castData (r : Gen.GklsRaw) (h : expOK r = true) :
    toData r = castData unit (toDataZ r) := by
  unfold expOK at h
  simp only [Bool.and_eq_true, List.all_eq_true, decide_eq_true_eq] at h
  obtain ⟨⟨h1, h2⟩, h3⟩ := h
  unfold toData castData toDataZ
  simp only [List.map_map]
  congr 1
  · apply List.map_congr_left
    intro m hm
    simp only [Function.comp]
    rw [List.map_map]
    apply List.map_congr_left
    intro d hd
    exact toReal_eq_sc d (h1 m hm d hd)
  · apply List.map_congr_left
    intro d hd
    exact toReal_eq_sc d (h2 d hd)
  · apply List.map_congr_left
    intro d hd
    exact toReal_eq_sc d (h3 d hd)

section sound
variable (u : Int) (D : GklsData Int)

theorem Mi_castData (i : Nat) : Mi (castData u D) i = (MiZ D i).map (castZ u) := by
  unfold Mi MiZ castData
  simpa using List.getD_map (l := D.localMin) (d := []) (n := i) (fun m : List Int => m.map (castZ u))

theorem castZ_zero : castZ u 0 = 0 := by simp [castZ]

theorem rhoi_castData (i : Nat) : rhoi (castData u D) i = (rhoZ D i : ℝ) / (u : ℝ) := by
  have h := List.getD_map (l := D.rho) (d := 0) (n := i) (castZ u)
  rw [castZ_zero] at h
  exact h

theorem fi_castData (i : Nat) : fi (castData u D) i = (fZ D i : ℝ) / (u : ℝ) := by
  have h := List.getD_map (l := D.f) (d := 0) (n := i) (castZ u)
  rw [castZ_zero] at h
  exact h

@[simp] theorem sqDistZ_cons (a b : Int) (x y : List Int) :
    sqDistZ (a :: x) (b :: y) = (a - b) * (a - b) + sqDistZ x y := by simp [sqDistZ]

theorem sqDist_cast (x y : List Int) :
    sqDist (x.map (castZ u)) (y.map (castZ u)) = (sqDistZ x y : ℝ) / (u : ℝ) ^ 2 := by
  induction x generalizing y with
  | nil => simp [sqDistZ]
  | cons a x ih =>
    cases y with
    | nil => simp [sqDistZ]
    | cons b y =>
      rw [List.map_cons, List.map_cons, sqDist_cons, ih y, sqDistZ_cons]
      unfold castZ
      push_cast
      ring

end sound

theorem scale_cubic1 (R A S U : ℝ) (hU : 0 < U) (ha : 0 ≤ R * R + A)
    (hb : 4 * S * (R * R) < (R * R + A) * (R * R + A)) :
    0 ≤ (R / U) ^ 2 + A / U ^ 2 ∧ 4 * (S / U ^ 2) * (R / U) ^ 2 < ((R / U) ^ 2 + A / U ^ 2) ^ 2 := by
  have e : (R / U) ^ 2 + A / U ^ 2 = (R * R + A) / U ^ 2 := by field_simp
  have e2 : 4 * (S / U ^ 2) * (R / U) ^ 2 = 4 * S * (R * R) / U ^ 4 := by field_simp
  have e3 : ((R * R + A) / U ^ 2) ^ 2 = (R * R + A) * (R * R + A) / U ^ 4 := by field_simp
  rw [e, e2, e3]
  exact ⟨div_nonneg ha (by positivity), div_lt_div_of_pos_right hb (by positivity)⟩

theorem scale_cubic2 (R A S U : ℝ) (hU : 0 < U) (ha : 0 ≤ R * R + 3 * A)
    (hb : 16 * S * (R * R) ≤ (R * R + 3 * A) * (R * R + 3 * A)) :
    0 ≤ (R / U) ^ 2 + 3 * (A / U ^ 2) ∧
      16 * (S / U ^ 2) * (R / U) ^ 2 ≤ ((R / U) ^ 2 + 3 * (A / U ^ 2)) ^ 2 := by
  have e : (R / U) ^ 2 + 3 * (A / U ^ 2) = (R * R + 3 * A) / U ^ 2 := by field_simp
  have e2 : 16 * (S / U ^ 2) * (R / U) ^ 2 = 16 * S * (R * R) / U ^ 4 := by field_simp
  have e3 : ((R * R + 3 * A) / U ^ 2) ^ 2 = (R * R + 3 * A) * (R * R + 3 * A) / U ^ 4 := by field_simp
  rw [e, e2, e3]
  exact ⟨div_nonneg ha (by positivity), div_le_div_of_nonneg_right hb (by positivity)⟩

/-- soundness of the integer clauses: numerators over a positive denominator `u` satisfying `GoodZ`
are well-formed real data -/
theorem good_of_goodZ (u : Int) (hu : 0 < u) (D : GklsData Int) (h : GoodZ u D) : Good (castData u D) := by
  obtain ⟨⟨⟨h1, h2, h3, h4⟩, hM⟩, ⟨hrho, ⟨hf0, hf1⟩, hfi, hbox⟩, ⟨hdis, hver⟩, hc1, hc2⟩ := h
  have hU : (0 : ℝ) < (u : ℝ) := by exact_mod_cast hu
  have hU2 : (0 : ℝ) < (u : ℝ) ^ 2 := by positivity
  have hU4 : (0 : ℝ) < (u : ℝ) ^ 4 := by positivity
  have hA : ∀ i, cubA (castData u D) i = (cubAZ u D i : ℝ) / (u : ℝ) ^ 2 := by
    intro i
    unfold cubA cubAZ
    rw [Mi_castData, Mi_castData, sqDist_cast, fi_castData, fi_castData]
    push_cast
    field_simp
    ring
  refine
    { dim_ge := h1
      len_min := by simpa [castData] using h2
      len_rho := by simpa [castData] using h3
      len_f := by simpa [castData] using h4
      len_M := ?_, rho_pos := ?_, rho_ge_prec := ?_, f_zero := ?_, f_one := ?_, f_gt := ?_, in_box := ?_,
      disjoint := ?_, vertex_out := ?_, cubic1 := ?_, cubic2 := ?_ }
  · intro i hi
    rw [Mi_castData, List.length_map]
    exact hM i hi
  · intro i hi
    rw [rhoi_castData]
    have : (0 : ℝ) < (rhoZ D i : ℝ) := by exact_mod_cast (hrho i hi).1
    positivity
  · intro i hi
    rw [rhoi_castData]
    have : (u : ℝ) ≤ (rhoZ D i : ℝ) * 10000000000 := by exact_mod_cast (hrho i hi).2
    rw [le_div_iff₀ hU]
    norm_num
    linarith
  · rw [fi_castData, hf0]; simp
  · rw [fi_castData, hf1]; push_cast; field_simp
  · intro i hi h2i
    rw [fi_castData, lt_div_iff₀ hU]
    have : -(u : ℝ) < (fZ D i : ℝ) := by exact_mod_cast hfi i hi h2i
    linarith
  · intro i hi c hc
    rw [Mi_castData, List.mem_map] at hc
    obtain ⟨z, hz, rfl⟩ := hc
    have hz' := hbox i hi z hz
    have h1 : -(u : ℝ) ≤ (z : ℝ) := by exact_mod_cast hz'.1
    have h2 : (z : ℝ) ≤ (u : ℝ) := by exact_mod_cast hz'.2
    unfold castZ
    constructor
    · rw [le_div_iff₀ hU]; linarith
    · rw [div_le_iff₀ hU]; linarith
  · intro i hi j hj h1i hij
    rw [Mi_castData, Mi_castData, sqDist_cast, rhoi_castData, rhoi_castData, ← add_div, div_pow,
      div_lt_div_iff_of_pos_right hU2]
    have := hdis i hi j hj h1i hij
    have : ((rhoZ D i : ℝ) + (rhoZ D j : ℝ)) * ((rhoZ D i : ℝ) + (rhoZ D j : ℝ))
        < (sqDistZ (MiZ D i) (MiZ D j) : ℝ) := by exact_mod_cast this
    linarith
  · intro i hi h1i
    rw [Mi_castData, Mi_castData, sqDist_cast, rhoi_castData, div_pow, div_lt_div_iff_of_pos_right hU2]
    have : (rhoZ D i : ℝ) * (rhoZ D i : ℝ) < (sqDistZ (MiZ D 0) (MiZ D i) : ℝ) := by
      exact_mod_cast hver i hi h1i
    linarith
  · intro i hi h1i
    obtain ⟨ha, hb⟩ := hc1 i hi h1i
    rw [hA, Mi_castData, Mi_castData, sqDist_cast, rhoi_castData]
    exact scale_cubic1 _ _ _ _ hU (by exact_mod_cast ha) (by exact_mod_cast hb)
  · intro i hi h1i
    obtain ⟨ha, hb⟩ := hc2 i hi h1i
    rw [hA, Mi_castData, Mi_castData, sqDist_cast, rhoi_castData]
    exact scale_cubic2 _ _ _ _ hU (by exact_mod_cast ha) (by exact_mod_cast hb)

theorem unit_pos : 0 < unit := by
  unfold unit
  exact_mod_cast Nat.pow_pos (n := E) (by decide : 0 < 2)

/-- soundness of the certificate -/
theorem good_of_WF (r : Gen.GklsRaw) (h : WF r = true) : Good (toData r) := by
  unfold WF at h
  simp only [Bool.and_eq_true, decide_eq_true_eq] at h
  obtain ⟨⟨_, h2⟩, h3⟩ := h
  rw [toData_eq_castData r h2]
  exact good_of_goodZ unit unit_pos _ h3

theorem dim_toData (r : Gen.GklsRaw) : (toData r).dim = r.dim := rfl

end Gkls

namespace Gkls
/-- assemble twenty blocks of five function numbers into the full range `1..100` -/
theorem range_blocks5 (P : Nat → Prop) (h : ∀ b < 20, ∀ k ∈ List.range' (5 * b + 1) 5, P k) :
    ∀ k ∈ List.range' 1 100, P k := by
  intro k hk
  rw [List.mem_range'_1] at hk
  exact h ((k - 1) / 5) (by omega) k (List.mem_range'_1.mpr ⟨by omega, by omega⟩)
end Gkls
