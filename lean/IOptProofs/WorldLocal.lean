import IOptProofs.World
/-!
# C12 helpers: the global step of a closed component is the local step (`step_local`); closedness is invariant (`lstep_closed`)
-/

namespace World
variable {V : Type}

theorem calculate_local (X : State V) {i : Nat} {c : Comp V} (hc : Closed i c) {sol n : Ref}
    (hs : sol.owner = some i) (hn : n.owner = some i) (z : V) :
    calculate (X.setComp i c) sol n z = (lCalculate c sol n z).map (fun p => (X.setComp i p.1, p.2)) := by
  unfold calculate lCalculate
  rw [read_local X i c hn]
  cases h1 : Cell.fv? (lread c n) with
  | none => simp
  | some fl =>
    have hfl := hc.fv h1
    simp only [Option.bind_eq_bind, Option.bind_some]
    rw [read_local X i c hfl]
    cases h2 : Cell.head? (lread c fl) with
    | none => simp
    | some h =>
      have hh := hc.head h2
      simp only [Option.bind_some]
      rw [read_local X i c hh]
      cases h3 : Cell.value? (lread c h) with
      | none => simp
      | some v =>
        simp only [Option.bind_some]
        rw [write_local X i c hh, write_local X i _ hfl, read_local X i _ hs]
        cases h4 : Cell.sol? (lread (lwrite (lwrite c h (.holder z)) fl (.list (some h))) sol) with
        | none => simp
        | some p => simp [write_local X i _ hs]

theorem storeBest_local (X : State V) {i : Nat} {c : Comp V} (hc : Closed i c) {sol : Ref}
    (hs : sol.owner = some i) (b : Ref) :
    storeBest (X.setComp i c) sol b = (lStoreBest c sol b).map (fun p => (X.setComp i p.1, p.2)) := by
  unfold storeBest lStoreBest
  rw [read_local X i c hs]
  cases h1 : Cell.sol? (lread c sol) with
  | none => simp
  | some p =>
    have hl := hc.solRef h1
    simp only [Option.bind_eq_bind, Option.bind_some]
    rw [read_local X i c hl]
    cases h2 : Cell.head? (lread c p.1) with
    | none => simp
    | some h => simp [write_local X i c hl]

/-- closedness is kept by the pieces -/
theorem lCalculate_closed {i : Nat} {c c' : Comp V} (hc : Closed i c) {sol n : Ref} {z : V} {wr : List Ref}
    (h : lCalculate c sol n z = some (c', wr)) :
    Closed i c' ∧ c'.st = c.st ∧ c'.handed = c.handed ∧ (sol.owner = some i → ∀ r ∈ wr, r.owner = some i) := by
  unfold lCalculate at h
  cases h1 : Cell.fv? (lread c n) with
  | none => simp [h1] at h
  | some fl =>
    cases h2 : Cell.head? (lread c fl) with
    | none => simp [h1, h2] at h
    | some hd =>
      cases h3 : Cell.value? (lread c hd) with
      | none => simp [h1, h2, h3] at h
      | some v =>
        have hfl := hc.fv h1
        have hh := hc.head h2
        have hc1 : Closed i (lwrite c hd (.holder z)) := hc.lwrite hd (by simp [Cell.refs])
        have hc2 : Closed i (lwrite (lwrite c hd (.holder z)) fl (.list (some hd))) :=
          hc1.lwrite fl (by simp [Cell.refs, hh])
        cases h4 : Cell.sol? (lread (lwrite (lwrite c hd (.holder z)) fl (.list (some hd))) sol) with
        | none => simp [h1, h2, h3, h4] at h
        | some p =>
          simp [h1, h2, h3, h4] at h
          obtain ⟨rfl, rfl⟩ := h
          have hl := hc2.solRef h4
          refine ⟨hc2.lwrite sol (by simp [Cell.refs, hl]), rfl, rfl, ?_⟩
          intro hs r hr
          simp at hr
          rcases hr with rfl | rfl | rfl <;> assumption

theorem lStoreBest_closed {i : Nat} {c c' : Comp V} (hc : Closed i c) {sol b : Ref} {wr : List Ref}
    (hb : b.owner = some i) (h : lStoreBest c sol b = some (c', wr)) :
    Closed i c' ∧ c'.st = c.st ∧ c'.handed = c.handed ∧ ∀ r ∈ wr, r.owner = some i := by
  unfold lStoreBest at h
  cases h1 : Cell.sol? (lread c sol) with
  | none => simp [h1] at h
  | some p =>
    cases h2 : Cell.head? (lread c p.1) with
    | none => simp [h1, h2] at h
    | some hd =>
      simp [h1, h2] at h
      obtain ⟨rfl, rfl⟩ := h
      have hl := hc.solRef h1
      exact ⟨hc.lwrite _ (by simp [Cell.refs, hb]), rfl, rfl, by simp [hl]⟩

section
variable [OfNat V 0]

theorem newItem_local (X : State V) (i : Nat) (c : Comp V) :
    newItem repaired (X.setComp i c) i = (X.setComp i (lNewItem i c).1, (lNewItem i c).2) := by
  simp [newItem, repaired, lNewItem, alloc_local]

theorem newItemCopy_local (X : State V) (i : Nat) (c : Comp V) :
    newItemCopy repaired (X.setComp i c) i = (X.setComp i (lNewItem i c).1, (lNewItem i c).2) := by
  simp [newItemCopy, repaired, lNewItem, alloc_local]

theorem lNewItem_closed {i : Nat} {c : Comp V} (hc : Closed i c) :
    Closed i (lNewItem i c).1 ∧ (lNewItem i c).1.st = c.st ∧ (lNewItem i c).1.handed = c.handed ∧
    (lNewItem i c).2.1.owner = some i ∧ ∀ r ∈ (lNewItem i c).2.2, r.owner = some i := by
  refine ⟨?_, rfl, rfl, rfl, ?_⟩
  · unfold lNewItem
    exact ((hc.lalloc (x := .holder 0) (by simp [Cell.refs])).lalloc (by simp [Cell.refs])).lalloc (by simp [Cell.refs])
  · simp [lNewItem]


theorem step_local (X : State V) {i : Nat} {c : Comp V} (hc : Closed i c) (op : Op V) :
    step repaired (X.setComp i c) i op = (lstep i c op).map (fun p => (X.setComp i p.1, p.2)) := by
  cases op with
  | construct =>
    simp only [step, lstep, State.setComp_solver_same]
    cases c.st with
    | some s => simp
    | none => simp [repaired, alloc_local, lalloc]
  | results =>
    simp only [step, lstep, State.setComp_solver_same]
    cases c.st with
    | none => simp
    | some s => simp
  | first z =>
    simp only [step, lstep, State.setComp_solver_same]
    cases hst : c.st with
    | none => simp
    | some s =>
      have hsol := hc.sol s hst
      simp only [Option.bind_eq_bind, Option.bind_some]
      by_cases hstarted : s.started = true
      · simp [hstarted]
      · simp only [hstarted, Bool.false_eq_true, if_false, newItem_local]
        obtain ⟨hc1, -, -, hm, -⟩ := lNewItem_closed hc
        obtain ⟨hc2, -, -, -, -⟩ := lNewItem_closed hc1
        obtain ⟨hc3, -, -, -, -⟩ := lNewItem_closed hc2
        rw [calculate_local X hc3 hsol hm]
        cases hcal : lCalculate (lNewItem i (lNewItem i (lNewItem i c).1).1).1 s.solution (lNewItem i c).2.1 z with
        | none => simp
        | some p =>
          obtain ⟨c4, w1⟩ := p
          obtain ⟨hc4, -, -, -⟩ := lCalculate_closed hc3 hcal
          simp only [Option.map_some, Option.bind_some]
          rw [storeBest_local X hc4 hsol]
          cases hsb : lStoreBest c4 s.solution (lNewItem i c).2.1 with
          | none => simp
          | some q => simp
  | iter z better =>
    simp only [step, lstep, State.setComp_solver_same]
    cases hst : c.st with
    | none => simp
    | some s =>
      have hsol := hc.sol s hst
      simp only [Option.bind_eq_bind, Option.bind_some]
      by_cases hstarted : s.started = true
      · simp only [hstarted, Bool.not_true, Bool.false_eq_true, if_false]
        cases hb : s.best with
        | none => simp
        | some b =>
          simp only [Option.bind_some, newItemCopy_local]
          obtain ⟨hc1, -, -, hm, -⟩ := lNewItem_closed hc
          rw [calculate_local X hc1 hsol hm]
          cases hcal : lCalculate (lNewItem i c).1 s.solution (lNewItem i c).2.1 z with
          | none => simp
          | some p =>
            obtain ⟨c4, w1⟩ := p
            obtain ⟨hc4, -, -, -⟩ := lCalculate_closed hc1 hcal
            simp only [Option.map_some, Option.bind_some]
            rw [storeBest_local X hc4 hsol]
            cases hsb : lStoreBest c4 s.solution (if better = true then (lNewItem i c).2.1 else b) with
            | none => simp
            | some q => simp
      · simp [hstarted]


theorem lstep_closed {i : Nat} {c c' : Comp V} (hc : Closed i c) {op : Op V} {o : Out}
    (h : lstep i c op = some (c', o)) :
    Closed i c' ∧ (∀ r ∈ o.wrote, r.owner = some i) ∧ (∀ r ∈ o.allocated, r.owner = some i) ∧
    (∀ r, o.returned = some r → r.owner = some i) := by
  cases op with
  | construct =>
    simp only [lstep] at h
    cases hst : c.st with
    | some s => simp [hst] at h
    | none =>
      simp [hst] at h
      obtain ⟨rfl, rfl⟩ := h
      have h1 := hc.lalloc (x := .list none) (by simp [Cell.refs])
      have h2 := h1.lalloc (x := .item (lalloc i c (.list none)).2) (by simp [Cell.refs])
      have h3 := h2.lalloc (x := .list (some (lalloc i (lalloc i c (.list none)).1 (.item (lalloc i c (.list none)).2)).2))
        (by simp [Cell.refs])
      have h4 := h3.lalloc (x := .solution (lalloc i (lalloc i (lalloc i c (.list none)).1 (.item (lalloc i c (.list none)).2)).1
        (.list (some (lalloc i (lalloc i c (.list none)).1 (.item (lalloc i c (.list none)).2)).2))).2 0) (by simp [Cell.refs])
      refine ⟨⟨h4.heap, ?_, ?_, ?_, h4.handed⟩, ?_, ?_, ?_⟩
      · intro s hs; simp at hs; subst hs; rfl
      · intro s hs; simp at hs; subst hs; simp
      · intro s hs; simp at hs; subst hs; simp
      · simp
      · simp [lalloc]
      · simp
  | results =>
    simp only [lstep] at h
    cases hst : c.st with
    | none => simp [hst] at h
    | some s =>
      simp [hst] at h
      obtain ⟨rfl, rfl⟩ := h
      have hsol := hc.sol s hst
      refine ⟨⟨hc.heap, ?_, ?_, ?_, ?_⟩, by simp, by simp, by simp [hsol]⟩
      · intro s' hs'; simp at hs'; subst hs'; exact hsol
      · intro s' hs'; simp at hs'; subst hs'; exact hc.items s hst
      · intro s' hs'; simp at hs'; subst hs'; exact hc.best s hst
      intro r hr
      simp at hr
      rcases hr with hr | rfl
      · exact hc.handed r hr
      · exact hsol
  | first z =>
    simp only [lstep] at h
    cases hst : c.st with
    | none => simp [hst] at h
    | some s =>
      have hsol := hc.sol s hst
      simp only [hst, Option.bind_eq_bind, Option.bind_some] at h
      by_cases hstarted : s.started = true
      · simp [hstarted] at h
      · simp only [hstarted, Bool.false_eq_true, if_false] at h
        obtain ⟨hc1, -, hh1, hm, ha1⟩ := lNewItem_closed hc
        obtain ⟨hc2, -, hh2, hl, ha2⟩ := lNewItem_closed hc1
        obtain ⟨hc3, -, hh3, hr, ha3⟩ := lNewItem_closed hc2
        cases hcal : lCalculate (lNewItem i (lNewItem i (lNewItem i c).1).1).1 s.solution (lNewItem i c).2.1 z with
        | none => simp [hcal] at h
        | some p =>
          obtain ⟨c4, w1⟩ := p
          obtain ⟨hc4, -, hh4, hw1⟩ := lCalculate_closed hc3 hcal
          simp only [hcal, Option.bind_some] at h
          cases hsb : lStoreBest c4 s.solution (lNewItem i c).2.1 with
          | none => simp [hsb] at h
          | some q =>
            obtain ⟨c5, w2⟩ := q
            obtain ⟨hc5, -, hh5, hw2⟩ := lStoreBest_closed hc4 hm hsb
            simp only [hsb, Option.bind_some, Option.some.injEq, Prod.mk.injEq] at h
            obtain ⟨rfl, rfl⟩ := h
            refine ⟨⟨hc5.heap, ?_, ?_, ?_, ?_⟩, ?_, ?_, by simp⟩
            · intro s' hs'; simp at hs'; subst hs'; exact hsol
            · intro s' hs' r hr'; simp at hs'; subst hs'; simp at hr'
              rcases hr' with rfl | rfl | rfl <;> assumption
            · intro s' hs' b hb; simp at hs'; subst hs'; simp at hb; subst hb; exact hm
            · intro r hr'
              have : r ∈ c.handed := by
                simpa [hh5, hh4, hh3, hh2, hh1] using hr'
              exact hc.handed r this
            · intro r hr'; simp only [List.mem_append] at hr'
              rcases hr' with hr' | hr'
              · exact hw1 hsol r hr'
              · exact hw2 r hr'
            · intro r hr'; simp only [List.mem_append] at hr'
              rcases hr' with (hr' | hr') | hr'
              · exact ha1 r hr'
              · exact ha2 r hr'
              · exact ha3 r hr'
  | iter z better =>
    simp only [lstep] at h
    cases hst : c.st with
    | none => simp [hst] at h
    | some s =>
      have hsol := hc.sol s hst
      simp only [hst, Option.bind_eq_bind, Option.bind_some] at h
      by_cases hstarted : s.started = true
      · simp only [hstarted, Bool.not_true, Bool.false_eq_true, if_false] at h
        cases hb : s.best with
        | none => simp [hb] at h
        | some b =>
          have hbo := hc.best s hst b hb
          simp only [hb, Option.bind_some] at h
          obtain ⟨hc1, -, hh1, hm, ha1⟩ := lNewItem_closed hc
          cases hcal : lCalculate (lNewItem i c).1 s.solution (lNewItem i c).2.1 z with
          | none => simp [hcal] at h
          | some p =>
            obtain ⟨c4, w1⟩ := p
            obtain ⟨hc4, -, hh4, hw1⟩ := lCalculate_closed hc1 hcal
            simp only [hcal, Option.bind_some] at h
            have hb' : (if better = true then (lNewItem i c).2.1 else b).owner = some i := by
              split <;> assumption
            cases hsb : lStoreBest c4 s.solution (if better = true then (lNewItem i c).2.1 else b) with
            | none => simp [hsb] at h
            | some q =>
              obtain ⟨c5, w2⟩ := q
              obtain ⟨hc5, -, hh5, hw2⟩ := lStoreBest_closed hc4 hb' hsb
              simp only [hsb, Option.bind_some, Option.some.injEq, Prod.mk.injEq] at h
              obtain ⟨rfl, rfl⟩ := h
              refine ⟨⟨hc5.heap, ?_, ?_, ?_, ?_⟩, ?_, ?_, by simp⟩
              · intro s' hs'; simp at hs'; subst hs'; exact hsol
              · intro s' hs' r hr'; simp at hs'; subst hs'; simp at hr'
                rcases hr' with hr' | rfl
                · exact hc.items s hst r hr'
                · exact hm
              · intro s' hs' b' hb''; simp at hs'; subst hs'; simp at hb''; subst hb''; exact hb'
              · intro r hr'
                have : r ∈ c.handed := by simpa [hh5, hh4, hh1] using hr'
                exact hc.handed r this
              · intro r hr'; simp only [List.mem_append] at hr'
                rcases hr' with hr' | hr'
                · exact hw1 hsol r hr'
                · exact hw2 r hr'
              · exact ha1
      · simp [hstarted] at h

end
end World
