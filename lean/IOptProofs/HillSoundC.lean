import IOptProofs.HillSoundB
import IOptProofs.EnclReal
/-!
# Hill certificate, soundness part C: the leaf enclosure (third-order Taylor form)
-/

namespace Hill
open Encl

theorem mulShr_ge (c x s : ℕ) : (c : ℝ) * x / 2 ^ s ≤ (mulShr c x s : ℝ) := by
  unfold mulShr
  rw [cast_nat_add]
  have := lt_shr_cast (Nat.mul c x) s
  have e : ((Nat.mul c x : ℕ) : ℝ) = (c : ℝ) * x := Nat.cast_mul c x
  rw [e] at this
  push_cast; linarith

theorem TWOPI_HI_cast : (TWOPI_HI : ℝ) = 28976077832308491370 := by norm_num [TWOPI_HI]
theorem TWOPI_LO_cast : (TWOPI_LO : ℝ) = 28976077832308491369 := by norm_num [TWOPI_LO]
theorem PISQ2_HI_cast : (PISQ2_HI : ℝ) = 22757758311956604325 := by norm_num [PISQ2_HI]
theorem PI3_43_HI_cast : (PI3_43_HI : ℝ) = 11915934387502487030 := by norm_num [PI3_43_HI]

/-- first-order term: `y ρ U ≤ mulShr TWOPI_HI A (h+62)` when `y/(2π)·U ≤ A`, `ρ = 2^-h` -/
theorem term1 (y : ℝ) (A h : ℕ) (hy : y / (2 * Real.pi) * U ≤ A) :
    y * (1 / 2 ^ h) * U ≤ (mulShr TWOPI_HI A (Nat.add h 62) : ℝ) := by
  refine le_trans ?_ (mulShr_ge _ _ _)
  have hpi : 0 < 2 * Real.pi := by positivity
  have hA : (0 : ℝ) ≤ A := Nat.cast_nonneg _
  have e : y * (1 / 2 ^ h) * U = (y / (2 * Real.pi) * U) * (2 * Real.pi) / 2 ^ h := by field_simp
  have e2 : (TWOPI_HI : ℝ) * A / 2 ^ (Nat.add h 62) = (A : ℝ) * (28976077832308491370 / 2 ^ 62) / 2 ^ h := by
    show (TWOPI_HI : ℝ) * A / 2 ^ (h + 62) = _
    rw [TWOPI_HI_cast, pow_add]; field_simp
  rw [e, e2]
  have h2 : (0 : ℝ) < 2 ^ h := by positivity
  rw [div_le_div_iff_of_pos_right h2]
  calc y / (2 * Real.pi) * U * (2 * Real.pi) ≤ (A : ℝ) * (2 * Real.pi) :=
        mul_le_mul_of_nonneg_right hy hpi.le
    _ ≤ (A : ℝ) * (28976077832308491370 / 2 ^ 62) := mul_le_mul_of_nonneg_left two_pi_le hA

/-- second-order term: `y ρ²/2 U ≤ mulShr PISQ2_HI Q (2h+60)` when `y/(2π)²·U ≤ Q` -/
theorem term2 (y : ℝ) (Q h : ℕ) (hy : y / (2 * Real.pi) ^ 2 * U ≤ Q) :
    y * (1 / 2 ^ h) ^ 2 / 2 * U ≤ (mulShr PISQ2_HI Q (Nat.add (Nat.mul 2 h) 60) : ℝ) := by
  refine le_trans ?_ (mulShr_ge _ _ _)
  have hpi : 0 < 2 * Real.pi := by positivity
  have hQ : (0 : ℝ) ≤ Q := Nat.cast_nonneg _
  have e : y * (1 / 2 ^ h) ^ 2 / 2 * U
      = (y / (2 * Real.pi) ^ 2 * U) * (2 * Real.pi ^ 2) / 2 ^ (2 * h) := by
    rw [pow_mul']; field_simp
  have e2 : (PISQ2_HI : ℝ) * Q / 2 ^ (Nat.add (Nat.mul 2 h) 60)
      = (Q : ℝ) * (22757758311956604325 / 2 ^ 60) / 2 ^ (2 * h) := by
    show (PISQ2_HI : ℝ) * Q / 2 ^ (2 * h + 60) = _
    rw [PISQ2_HI_cast, pow_add]; field_simp
  rw [e, e2]
  have h2 : (0 : ℝ) < 2 ^ (2 * h) := by positivity
  rw [div_le_div_iff_of_pos_right h2]
  calc y / (2 * Real.pi) ^ 2 * U * (2 * Real.pi ^ 2) ≤ (Q : ℝ) * (2 * Real.pi ^ 2) :=
        mul_le_mul_of_nonneg_right hy (by positivity)
    _ ≤ (Q : ℝ) * (22757758311956604325 / 2 ^ 60) := mul_le_mul_of_nonneg_left two_pi_sq_le hQ

/-- remainder term: `z ρ^m ≤ 1 + (d >>> m·h)` when `z ≤ d` -/
theorem term3 (z : ℝ) (d h m : ℕ) (hz : z ≤ d) :
    z * (1 / 2 ^ h) ^ m ≤ ((Nat.add 1 (Nat.shiftRight d (Nat.mul m h)) : ℕ) : ℝ) := by
  rw [cast_nat_add]
  have := lt_shr_cast d (Nat.mul m h)
  have e : z * (1 / 2 ^ h) ^ m = z / 2 ^ (Nat.mul m h) := by
    show _ = z / 2 ^ (m * h)
    rw [one_div, inv_pow, ← pow_mul, mul_comm h m, div_eq_mul_inv]
  rw [e]
  have h2 : (0 : ℝ) < 2 ^ (Nat.mul m h) := by positivity
  have : z / 2 ^ (Nat.mul m h) ≤ (d : ℝ) / 2 ^ (Nat.mul m h) := by
    rw [div_le_div_iff_of_pos_right h2]; exact hz
  push_cast; linarith

/-- the third-derivative constants of the context dominate `D/6` and `D/(2·2π)`, `D = (2π)³ Σ i³(|a_i|+|b_i|)` -/
theorem d3_spec {a b : List Dy} (H : RowHyp a b) (vmin pmin vmax pmax lip : Dy) :
    (2 * Real.pi) ^ 3 * wsum 3 (rl a b) 0 / 6 * U ≤ ((mkCtx a b vmin pmin vmax pmax lip).d3f : ℝ) ∧
    (2 * Real.pi) ^ 3 * wsum 3 (rl a b) 0 / 2 / (2 * Real.pi) * U
      ≤ ((mkCtx a b vmin pmin vmax pmax lip).d3g : ℝ) := by
  obtain ⟨_, _, _, _, _, _, w3⟩ := mkCoefs_spec 0 a b 0 (by have := H.le16; omega) H.oka H.okb
  rw [w3]
  have hS : (0 : ℝ) ≤ (sumAbs 3 0 a b : ℝ) := Nat.cast_nonneg _
  have hpi := Real.pi_pos
  constructor
  · show _ ≤ ((Nat.shiftLeft (sumAbs 3 0 a b * PI3_43_HI) 6 : ℕ) : ℝ)
    rw [shl_cast]; push_cast; rw [PI3_43_HI_cast]
    have e : (2 * Real.pi) ^ 3 * ((sumAbs 3 0 a b : ℝ) / 2 ^ 80) / 6 * U
        = (sumAbs 3 0 a b : ℝ) * 2 ^ 64 * (4 * Real.pi ^ 3 / 3) := by
      show _ * (2:ℝ) ^ 144 = _; field_simp; ring
    rw [e]
    calc (sumAbs 3 0 a b : ℝ) * 2 ^ 64 * (4 * Real.pi ^ 3 / 3)
        ≤ (sumAbs 3 0 a b : ℝ) * 2 ^ 64 * (11915934387502487030 / 2 ^ 58) :=
          mul_le_mul_of_nonneg_left four_thirds_pi_cube_le (by positivity)
      _ = _ := by ring
  · show _ ≤ ((Nat.shiftLeft (sumAbs 3 0 a b * PISQ2_HI) 4 : ℕ) : ℝ)
    rw [shl_cast]; push_cast; rw [PISQ2_HI_cast]
    have e : (2 * Real.pi) ^ 3 * ((sumAbs 3 0 a b : ℝ) / 2 ^ 80) / 2 / (2 * Real.pi) * U
        = (sumAbs 3 0 a b : ℝ) * 2 ^ 64 * (2 * Real.pi ^ 2) := by
      show _ * (2:ℝ) ^ 144 = _; field_simp
    rw [e]
    calc (sumAbs 3 0 a b : ℝ) * 2 ^ 64 * (2 * Real.pi ^ 2)
        ≤ (sumAbs 3 0 a b : ℝ) * 2 ^ 64 * (22757758311956604325 / 2 ^ 60) :=
          mul_le_mul_of_nonneg_left two_pi_sq_le (by positivity)
      _ = _ := by ring

theorem leaf_point_le {k n : ℕ} (hn : n + 1 ≤ 2 ^ k) : Nat.add (Nat.mul 2 n) 1 ≤ 2 ^ (Nat.add k 1) := by
  show 2 * n + 1 ≤ 2 ^ (k + 1)
  rw [pow_succ]; omega

/-- **the leaf enclosure**: on `[n/2^k, (n+1)/2^k]` the values computed at the centre, with the slacks,
enclose `f`, bound `|f'|/2π` from above, and the witness bounds `|f'(c)|/2π` from below -/
theorem leaf_enclosure {a b : List Dy} (H : RowHyp a b) (vmin pmin vmax pmax lip : Dy) {k n : ℕ}
    (hn : n + 1 ≤ 2 ^ k) {x : ℝ} (hx1 : (n : ℝ) / 2 ^ k ≤ x) (hx2 : x ≤ ((n : ℝ) + 1) / 2 ^ k) :
    let ctx := mkCtx a b vmin pmin vmax pmax lip
    let num := Nat.add (Nat.mul 2 n) 1
    let kk := Nat.add k 1
    let F := evF ctx num kk
    let P1 := evP1 ctx num kk
    let N1 := evN1 ctx num kk
    let P2 := evP2 ctx num kk
    let N2 := evN2 ctx num kk
    let A1 := Nat.add (Nat.add P1 N1) ctx.e1
    ((F : ℝ) - BF - (slack ctx kk A1 (Nat.add P2 ctx.e2) : ℝ) ≤ hf (rl a b) x * U) ∧
    (hf (rl a b) x * U ≤ (F : ℝ) - BF + (slack ctx kk A1 (Nat.add N2 ctx.e2) : ℝ)) ∧
    (|hf1 (rl a b) x| / (2 * Real.pi) * U ≤ (derivHi ctx kk A1 (Nat.add (Nat.add P2 N2) ctx.e2) : ℝ)) ∧
    (((Nat.sub (Nat.add P1 N1) ctx.e1 : ℕ) : ℝ)
      ≤ |hf1 (rl a b) ((num : ℝ) / 2 ^ kk)| / (2 * Real.pi) * U) := by
  intro ctx num kk F P1 N1 P2 N2 A1
  set L := rl a b
  set c : ℝ := (num : ℝ) / 2 ^ kk with hc
  set D : ℝ := (2 * Real.pi) ^ 3 * wsum 3 L 0 with hD
  obtain ⟨E1, E2, E3, E4, E5, E6⟩ :
      |hf L c * U - ((F : ℝ) - BF)| ≤ ctx.e0 ∧
      |hf1 L c| / (2 * Real.pi) * U ≤ (P1 : ℝ) + N1 + ctx.e1 ∧
      (P1 : ℝ) + N1 - ctx.e1 ≤ |hf1 L c| / (2 * Real.pi) * U ∧
      max (-hf2 L c) 0 / (2 * Real.pi) ^ 2 * U ≤ (P2 : ℝ) + ctx.e2 ∧
      max (hf2 L c) 0 / (2 * Real.pi) ^ 2 * U ≤ (N2 : ℝ) + ctx.e2 ∧
      |hf2 L c| / (2 * Real.pi) ^ 2 * U ≤ (P2 : ℝ) + N2 + ctx.e2 :=
    ev_spec H vmin pmin vmax pmax lip (leaf_point_le hn)
  obtain ⟨D1, D2⟩ : D / 6 * U ≤ (ctx.d3f : ℝ) ∧ D / 2 / (2 * Real.pi) * U ≤ (ctx.d3g : ℝ) :=
    d3_spec H vmin pmin vmax pmax lip
  have hpi : 0 < 2 * Real.pi := by positivity
  have hU : (0 : ℝ) < U := by positivity
  have hk : (0 : ℝ) < 2 ^ k := by positivity
  -- geometry of the leaf
  have hnum : (num : ℝ) = 2 * n + 1 := by
    show ((2 * n + 1 : ℕ) : ℝ) = _; push_cast; ring
  have hkk : (2 : ℝ) ^ kk = 2 * 2 ^ k := by
    show (2 : ℝ) ^ (k + 1) = _; rw [pow_succ]; ring
  have hρ : |x - c| ≤ 1 / 2 ^ kk := by
    rw [hc, hnum, hkk, abs_le]
    have e1 : (n : ℝ) / 2 ^ k = (2 * n + 1) / (2 * 2 ^ k) - 1 / (2 * 2 ^ k) := by field_simp; ring
    have e2 : ((n : ℝ) + 1) / 2 ^ k = (2 * n + 1) / (2 * 2 ^ k) + 1 / (2 * 2 ^ k) := by field_simp; ring
    constructor <;> linarith
  obtain ⟨T1, T2, T3⟩ := taylor3_leaf (hasDerivAt_hf L) (hasDerivAt_hf1 L) (hasDerivAt_hf2 L)
    (abs_hf3_le L) hρ
  rw [← hD] at T1 T2 T3
  set ρ : ℝ := 1 / 2 ^ kk with hρd
  -- the terms
  have hA1 : |hf1 L c| / (2 * Real.pi) * U ≤ (A1 : ℝ) := by
    show _ ≤ ((Nat.add (Nat.add P1 N1) ctx.e1 : ℕ) : ℝ)
    simp only [cast_nat_add]; exact E2
  have t1 := term1 _ A1 kk hA1
  have hQlo : max (-hf2 L c) 0 / (2 * Real.pi) ^ 2 * U ≤ ((Nat.add P2 ctx.e2 : ℕ) : ℝ) := by
    rw [cast_nat_add]; exact E4
  have hQhi : max (hf2 L c) 0 / (2 * Real.pi) ^ 2 * U ≤ ((Nat.add N2 ctx.e2 : ℕ) : ℝ) := by
    rw [cast_nat_add]; exact E5
  have t2lo := term2 _ _ kk hQlo
  have t2hi := term2 _ _ kk hQhi
  have t3 := term3 _ _ kk 3 D1
  rw [← hρd] at t1 t2lo t2hi t3
  have E1' := abs_le.mp E1
  refine ⟨?_, ?_, ?_, ?_⟩
  · show _ - ((Nat.add (Nat.add (Nat.add ctx.e0 (mulShr TWOPI_HI A1 (Nat.add kk 62)))
        (mulShr PISQ2_HI (Nat.add P2 ctx.e2) (Nat.add (Nat.mul 2 kk) 60)))
        (Nat.add 1 (Nat.shiftRight ctx.d3f (Nat.mul 3 kk))) : ℕ) : ℝ) ≤ _
    simp only [cast_nat_add, Nat.cast_one] at t3 ⊢
    have : (hf L c - |hf1 L c| * ρ - max (-hf2 L c) 0 * ρ ^ 2 / 2 - D * ρ ^ 3 / 6) * U ≤ hf L x * U :=
      mul_le_mul_of_nonneg_right T1 hU.le
    have e : (hf L c - |hf1 L c| * ρ - max (-hf2 L c) 0 * ρ ^ 2 / 2 - D * ρ ^ 3 / 6) * U
        = hf L c * U - |hf1 L c| * ρ * U - max (-hf2 L c) 0 * ρ ^ 2 / 2 * U - D / 6 * U * ρ ^ 3 := by ring
    rw [e] at this
    linarith [E1'.1, E1'.2]
  · show _ ≤ _ + ((Nat.add (Nat.add (Nat.add ctx.e0 (mulShr TWOPI_HI A1 (Nat.add kk 62)))
        (mulShr PISQ2_HI (Nat.add N2 ctx.e2) (Nat.add (Nat.mul 2 kk) 60)))
        (Nat.add 1 (Nat.shiftRight ctx.d3f (Nat.mul 3 kk))) : ℕ) : ℝ)
    simp only [cast_nat_add, Nat.cast_one] at t3 ⊢
    have : hf L x * U ≤ (hf L c + |hf1 L c| * ρ + max (hf2 L c) 0 * ρ ^ 2 / 2 + D * ρ ^ 3 / 6) * U :=
      mul_le_mul_of_nonneg_right T2 hU.le
    have e : (hf L c + |hf1 L c| * ρ + max (hf2 L c) 0 * ρ ^ 2 / 2 + D * ρ ^ 3 / 6) * U
        = hf L c * U + |hf1 L c| * ρ * U + max (hf2 L c) 0 * ρ ^ 2 / 2 * U + D / 6 * U * ρ ^ 3 := by ring
    rw [e] at this
    linarith only [E1'.1, E1'.2, this, t1, t2lo, t2hi, t3]
  · show _ ≤ ((Nat.add (Nat.add A1 (mulShr TWOPI_HI (Nat.add (Nat.add P2 N2) ctx.e2) (Nat.add kk 62)))
        (Nat.add 1 (Nat.shiftRight ctx.d3g (Nat.mul 2 kk))) : ℕ) : ℝ)
    have hA2 : |hf2 L c| / (2 * Real.pi) / (2 * Real.pi) * U
        ≤ ((Nat.add (Nat.add P2 N2) ctx.e2 : ℕ) : ℝ) := by
      simp only [cast_nat_add]
      have : |hf2 L c| / (2 * Real.pi) / (2 * Real.pi) * U = |hf2 L c| / (2 * Real.pi) ^ 2 * U := by
        field_simp
      rw [this]; exact E6
    have t1' := term1 _ _ kk hA2
    have t4 := term3 _ _ kk 2 D2
    rw [← hρd] at t1' t4
    simp only [cast_nat_add, Nat.cast_one] at t4 ⊢
    have : |hf1 L x| / (2 * Real.pi) * U
        ≤ (|hf1 L c| + |hf2 L c| * ρ + D * ρ ^ 2 / 2) / (2 * Real.pi) * U := by
      gcongr
    have e : (|hf1 L c| + |hf2 L c| * ρ + D * ρ ^ 2 / 2) / (2 * Real.pi) * U
        = |hf1 L c| / (2 * Real.pi) * U + |hf2 L c| / (2 * Real.pi) * ρ * U
          + D / 2 / (2 * Real.pi) * U * ρ ^ 2 := by field_simp
    rw [e] at this
    linarith
  · rw [natsub_cast]
    refine max_le ?_ (by positivity)
    simp only [cast_nat_add]; exact E3

end Hill
