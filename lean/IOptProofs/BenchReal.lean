import IOptModel.Problems
import Mathlib.Analysis.SpecialFunctions.Pow.Real
import Mathlib.Analysis.SpecialFunctions.Trigonometric.Basic
import Mathlib.Analysis.SpecialFunctions.Sqrt
/-!
# The real-number instance of the benchmark library functions (`MathFns ℝ`)

The benchmark models of `IOptModel/Problems.lean` are generic over a numeric type with `[MathFns α]`;
they are executed at `Float` and reasoned about at `ℝ` through this instance
(`pow x y` is `Real.rpow`, as libm `pow` with a float exponent).
-/

/-- the real-number reading of the `math`/`numpy` functions called by the benchmark problems -/
noncomputable instance instMathFnsReal : MathFns ℝ where
  sin := Real.sin
  cos := Real.cos
  exp := Real.exp
  sqrt := Real.sqrt
  pi := Real.pi
  pow x y := x ^ y

namespace BenchReal

@[simp] theorem sin_eq (x : ℝ) : MathFns.sin x = Real.sin x := rfl
@[simp] theorem cos_eq (x : ℝ) : MathFns.cos x = Real.cos x := rfl
@[simp] theorem exp_eq (x : ℝ) : MathFns.exp x = Real.exp x := rfl
@[simp] theorem sqrt_eq (x : ℝ) : MathFns.sqrt x = Real.sqrt x := rfl
@[simp] theorem pi_eq : (MathFns.pi : ℝ) = Real.pi := rfl
theorem pow_eq (x y : ℝ) : MathFns.pow x y = x ^ y := rfl
/-- `pow(x, 2)` with the float exponent `2.0` is the square -/
@[simp] theorem pow_two (x : ℝ) : MathFns.pow x (2 : ℝ) = x ^ 2 := by
  show x ^ (2 : ℝ) = x ^ 2
  exact Real.rpow_two x
@[simp] theorem nat_eq (n : Nat) : (Prob.nat n : ℝ) = (n : ℝ) := rfl

end BenchReal
