import IOptProofs.EvNumRound
import IOptProofs.EvInvConv
/-!
# `imageCube ∘ inverseCube`: the centre of the cell containing the point (worker a2)

* `invDigits_close`: for an arbitrary point `y` with `|y_i| ≤ r` the digits recovered by the loop
  of `__GetXonY` are valid and the cube point of their offsets is within `r / 2^k` of `y`.
* `imageCube_frac`: `imageCube` at the left end of the subinterval of a valid digit list is the
  centre of its cell.
-/

set_option linter.unusedSectionVars false
namespace Ev.Num
variable {α : Type} [Field α] [LinearOrder α] [IsStrictOrderedRing α] [FloorSemiring α]
attribute [local instance] floorTrunc

theorem abs_sub_sgnOf_le (y r : α) (hy : |y| ≤ 2 * r) :
    |y - (sgnOf y : α) * r| ≤ r := by
  have h := abs_le.1 hy
  unfold sgnOf
  rw [abs_le]
  split
  · push_cast; constructor <;> linarith
  · push_cast; constructor <;> linarith

/-- for an arbitrary point with `|y_i| ≤ r`, the recovered digits are valid and the point of their
offsets is `r / 2^k`-close to `y` in every coordinate -/
theorem invDigits_close {n : Nat} (hn : Ev.DimOK n) : ∀ (k : Nat) (r : α) (s : St)
    (y : List α), 0 < r → Inv.Valid n s → y.length = n → (∀ yi ∈ y, |yi| ≤ r) →
    validDigits n (invDigits n k r s y) ∧
    ∀ (i : Nat) (h1 : i < y.length)
      (h2 : i < (ptOf n (signs n s (invDigits n k r s y)) r).length),
      |y[i] - (ptOf n (signs n s (invDigits n k r s y)) r)[i]| ≤ r / 2^k
  | 0, r, s, y, hr, hs, hy, hb => by
    refine ⟨validDigits_nil n, ?_⟩
    intro i h1 h2
    simp only [invDigits, signs_nil, ptOf, List.getElem_replicate, sub_zero, pow_zero, div_one]
    exact hb _ (List.getElem_mem h1)
  | k+1, r, s, y, hr, hs, hy, hb => by
    have hr2 : r * half = r / 2 := by rw [half_eq]; ring
    have hr' : (0 : α) < r / 2 := by positivity
    -- the level
    have hlev := xLevel_eq (r / 2) y
    have hu0l : (y.map sgnOf).length = n := by rw [List.length_map, hy]
    have hu0p := pm1_map_sgnOf y
    obtain ⟨hdlt, hstep⟩ := Inv.step_invStep hn hs hu0l hu0p
    have hs' : Inv.Valid n (invStep n s (y.map sgnOf)).1 := by
      have := Inv.step_valid hn hs hdlt
      rwa [hstep] at this
    have hy'l : (y.map fun yi => yi - (sgnOf yi : α) * (r / 2)).length = n := by
      rw [List.length_map, hy]
    have hy'b : ∀ yi ∈ (y.map fun yi => yi - (sgnOf yi : α) * (r / 2)), |yi| ≤ r / 2 := by
      intro yi hyi
      obtain ⟨a, ha, rfl⟩ := List.mem_map.1 hyi
      exact abs_sub_sgnOf_le a (r / 2) (by have := hb a ha; linarith)
    obtain ⟨ihv, ihc⟩ := invDigits_close hn k (r / 2) _ _ hr' hs' hy'l hy'b
    simp only [invDigits, hr2, hlev]
    refine ⟨validDigits_cons.2 ⟨hdlt, ihv⟩, ?_⟩
    intro i h1 h2
    have hsg : signs n s ((invStep n s (y.map sgnOf)).2 ::
        invDigits n k (r / 2) (invStep n s (y.map sgnOf)).1
          (y.map fun yi => yi - (sgnOf yi : α) * (r / 2))) =
        y.map sgnOf :: signs n (invStep n s (y.map sgnOf)).1
          (invDigits n k (r / 2) (invStep n s (y.map sgnOf)).1
            (y.map fun yi => yi - (sgnOf yi : α) * (r / 2))) := by
      rw [signs_cons, hstep]
    simp only [hsg, ptOf, List.getElem_zipWith, List.getElem_map]
    have h2' : i < (ptOf n (signs n (invStep n s (y.map sgnOf)).1
          (invDigits n k (r / 2) (invStep n s (y.map sgnOf)).1
            (y.map fun yi => yi - (sgnOf yi : α) * (r / 2)))) (r / 2)).length := by
      rw [length_ptOf _ _ (signList_signs hn _ _ hs' ihv)]; omega
    have := ihc i (by rw [hy'l]; omega) h2'
    simp only [List.getElem_map] at this
    have e : r / 2^(k+1) = r / 2 / 2^k := by rw [pow_succ]; field_simp
    rw [e]
    have e2 : y[i] - ((sgnOf y[i] : α) * (r / 2) + (ptOf n (signs n (invStep n s (y.map sgnOf)).1
          (invDigits n k (r / 2) (invStep n s (y.map sgnOf)).1
            (y.map fun yi => yi - (sgnOf yi : α) * (r / 2)))) (r / 2))[i]) =
        y[i] - (sgnOf y[i] : α) * (r / 2) - (ptOf n (signs n (invStep n s (y.map sgnOf)).1
          (invDigits n k (r / 2) (invStep n s (y.map sgnOf)).1
            (y.map fun yi => yi - (sgnOf yi : α) * (r / 2)))) (r / 2))[i] := by ring
    rw [e2]
    exact this

/-- `imageCube` at the left end of the subinterval of a valid digit list -/
theorem imageCube_frac {n : Nat} (hn : Ev.DimOK n) (ds : List Nat) (hd : validDigits n ds) :
    imageCube n ds.length ((indexOf n ds : α) / (2^n)^ds.length) =
      (cubeY n ds).map (fun (Y : Int) => (Y : α) / 2^(ds.length + 1)) := by
  have hB : (0 : α) < (2^n)^ds.length := by positivity
  have hlt := indexOf_lt hd
  have h0 : (0 : α) ≤ (indexOf n ds : α) / (2^n)^ds.length := by positivity
  have h1 : (indexOf n ds : α) / (2^n)^ds.length < 1 := by
    rw [div_lt_one hB]
    exact_mod_cast hlt
  rw [imageCube_cell hn _ _ h0 h1, div_mul_cancel₀ _ hB.ne', Nat.floor_natCast,
    digitsOf_indexOf hd]

/-- (7): `imageCube (inverseCube y)` is the centre of a cell (that of the recovered digits) and is
within half a cell width of `y` in every coordinate -/
theorem image_inverse_cube {n : Nat} (hn : Ev.DimOK n) (m : Nat) (y : List α)
    (hy : y.length = n) (hb : ∀ yi ∈ y, |yi| ≤ 1 / 2) :
    ∃ ds : List Nat, validDigits n ds ∧ ds.length = m ∧
      inverseCube n m y = (indexOf n ds : α) / (2^n)^m ∧
      imageCube n m (inverseCube n m y) = (cubeY n ds).map (fun (Y : Int) => (Y : α) / 2^(m+1)) ∧
      (imageCube n m (inverseCube n m y)).length = n ∧
      ∀ (i : Nat) (h1 : i < y.length) (h2 : i < (imageCube n m (inverseCube n m y)).length),
        |y[i] - (imageCube n m (inverseCube n m y))[i]| ≤ 1 / 2^(m+1) := by
  have hv := Inv.valid_init n hn.pos
  obtain ⟨hd, hc⟩ := invDigits_close hn m (1 / 2 : α) (St.init n) y (by positivity) hv hy hb
  have hlen := length_invDigits (α := α) n m (1 / 2) (St.init n) y
  have hn1 : (n == 1) = false := by
    rw [beq_eq_false_iff_ne]; exact hn.ne_one
  have hinv : inverseCube n m y =
      (indexOf n (invDigits n m (1 / 2 : α) (St.init n) y) : α) / (2^n)^m := by
    simp only [inverseCube, hn1, Bool.false_eq_true, if_false]
    rw [xLoop_eq, half_eq, frac, hlen]; ring
  have himg : imageCube n m (inverseCube n m y) =
      ptOf n (signs n (St.init n) (invDigits n m (1 / 2 : α) (St.init n) y)) (1 / 2) := by
    have := imageCube_frac (α := α) hn _ hd
    rw [hlen] at this
    rw [hinv, this]
    have h2 := cubeY_map_eq_ptOf (α := α) hn _ hd
    rw [hlen] at h2
    exact h2
  have hpl := length_ptOf (α := α) _ (1 / 2) (signList_signs hn _ _ hv hd)
  refine ⟨invDigits n m (1 / 2 : α) (St.init n) y, hd, hlen, hinv, ?_, ?_, ?_⟩
  · have h2 := cubeY_map_eq_ptOf (α := α) hn _ hd
    rw [hlen] at h2
    rw [himg, h2]
  · rw [himg, hpl]
  · intro i h1 h2
    have e : (1 : α) / 2^(m+1) = 1 / 2 / 2^m := by rw [pow_succ]; field_simp
    rw [e]
    simp only [himg]
    exact hc i h1 (by rw [hpl]; omega)

end Ev.Num
