import IOptModel.ProbWorld
/-!
# Helper lemmas for property C15 (model `IOptModel/ProbWorld.lean`)

* heap lemmas (`alloc`, `allocMany`, `write`);
* exact description of every operation (`exec_*`);
* the history invariant: `Ext w w'` ("`w'` is a later state of `w`": table cells and instance records of `w`
  are still there, unchanged; owner tags never change) and `WF` (every instance's private refs point to
  cells owned by that instance).
-/

namespace ProbWorld

/-! ### heap -/
section Heap
variable {α : Type}

namespace World

theorem read_of_cell {w : World α} {r : Nat} {c : Cell α} (h : w.cells[r]? = some c) : w.read r = c.data := by
  simp only [read, h]

theorem owner?_of_cell {w : World α} {r : Nat} {c : Cell α} (h : w.cells[r]? = some c) :
    w.owner? r = some c.owner := by
  simp only [owner?, h, Option.map_some]

theorem read_congr {w w' : World α} {r : Nat} (h : w'.cells[r]? = w.cells[r]?) : w'.read r = w.read r := by
  simp only [read, h]

theorem owner?_congr {w w' : World α} {r : Nat} (h : w'.cells[r]? = w.cells[r]?) : w'.owner? r = w.owner? r := by
  simp only [owner?, h]

@[simp] theorem write_insts (w : World α) (r : Nat) (v : List α) : (w.write r v).insts = w.insts := rfl

@[simp] theorem write_length (w : World α) (r : Nat) (v : List α) :
    (w.write r v).cells.length = w.cells.length := by
  simp only [write, List.length_modify]

theorem write_cells_ne (w : World α) {r j : Nat} (v : List α) (h : r ≠ j) :
    (w.write r v).cells[j]? = w.cells[j]? := by
  simp only [write, List.getElem?_modify, if_neg h]
  cases w.cells[j]? <;> rfl

theorem write_cells_eq {w : World α} {r : Nat} {c : Cell α} (v : List α) (h : w.cells[r]? = some c) :
    (w.write r v).cells[r]? = some { c with data := v } := by
  simp only [write, List.getElem?_modify, h, if_pos, Option.map_eq_map, Option.map_some]

theorem write_read_eq {w : World α} {r : Nat} {c : Cell α} (v : List α) (h : w.cells[r]? = some c) :
    (w.write r v).read r = v := by
  rw [read_of_cell (write_cells_eq v h)]

theorem write_owner? (w : World α) (r j : Nat) (v : List α) : (w.write r v).owner? j = w.owner? j := by
  by_cases h : r = j
  · subst h
    cases hc : w.cells[r]? with
    | none =>
      have : (w.write r v).cells[r]? = none := by
        simp only [write, List.getElem?_modify, hc, Option.map_eq_map, Option.map_none]
      simp only [owner?, this, hc]
    | some c => simp only [owner?, write_cells_eq v hc, hc, Option.map_some]
  · exact owner?_congr (write_cells_ne w v h)

@[simp] theorem alloc_cells (w : World α) (o : Owner) (v : List α) :
    (w.alloc o v).1.cells = w.cells ++ [{ owner := o, data := v }] := rfl
@[simp] theorem alloc_insts (w : World α) (o : Owner) (v : List α) : (w.alloc o v).1.insts = w.insts := rfl
@[simp] theorem alloc_ref (w : World α) (o : Owner) (v : List α) : (w.alloc o v).2 = w.cells.length := rfl

@[simp] theorem allocMany_cells (w : World α) (o : Owner) (vs : List (List α)) :
    (w.allocMany o vs).1.cells = w.cells ++ vs.map (fun v => { owner := o, data := v }) := rfl
@[simp] theorem allocMany_insts (w : World α) (o : Owner) (vs : List (List α)) :
    (w.allocMany o vs).1.insts = w.insts := rfl
@[simp] theorem allocMany_refs (w : World α) (o : Owner) (vs : List (List α)) :
    (w.allocMany o vs).2 = List.range' w.cells.length vs.length := rfl

/-- the `i`-th fresh cell of `allocMany` -/
theorem allocMany_new (w : World α) (o : Owner) (vs : List (List α)) {i : Nat} {v : List α}
    (h : vs[i]? = some v) :
    (w.allocMany o vs).1.cells[w.cells.length + i]? = some { owner := o, data := v } := by
  rw [allocMany_cells, List.getElem?_append_right (Nat.le_add_right _ _), Nat.add_sub_cancel_left,
    List.getElem?_map, h, Option.map_some]

theorem init_cells (mod : ModTab → List α) (t : ModTab) :
    (init mod).cells[t.ref]? = some { owner := .module, data := mod t } := by
  cases t <;> rfl

theorem init_read (mod : ModTab → List α) (t : ModTab) : (init mod).read t.ref = mod t :=
  read_of_cell (init_cells mod t)

end World

/-- reading back the cells a construction appended gives the supplied tables -/
theorem construct_reads (w : World α) (is : List Inst) (tables : List (List α)) {o : Owner} :
    (List.range' w.cells.length tables.length).map
      (World.read { cells := w.cells ++ tables.map (fun v => ({ owner := o, data := v } : Cell α)), insts := is })
      = tables := by
  apply List.ext_getElem?
  intro n
  by_cases hn : n < tables.length
  · rw [List.getElem?_map, List.getElem?_range' hn, Option.map_some, List.getElem?_eq_getElem hn]
    congr 1
    apply World.read_of_cell (c := { owner := o, data := tables[n] })
    show (w.cells ++ _)[w.cells.length + 1 * n]? = _
    rw [Nat.one_mul, List.getElem?_append_right (Nat.le_add_right _ _), Nat.add_sub_cancel_left,
      List.getElem?_map, List.getElem?_eq_getElem hn, Option.map_some]
  · have hle : tables.length ≤ n := Nat.le_of_not_lt hn
    rw [List.getElem?_eq_none (by simpa only [List.length_map, List.length_range'] using hle),
      List.getElem?_eq_none hle]

/-! ### "later state" relation -/

/-- `w'` is a later state of `w`: the heap only grows, table cells (module tables and instance tables) of
`w` are unchanged in `w'`, owner tags of all cells are unchanged, instance records are unchanged. -/
structure Ext (w w' : World α) : Prop where
  len : w.cells.length ≤ w'.cells.length
  tables : ∀ (r : Nat) (c : Cell α), w.cells[r]? = some c → c.owner.isTable = true → w'.cells[r]? = some c
  owners : ∀ (r : Nat) (c : Cell α), w.cells[r]? = some c → ∃ c' : Cell α, w'.cells[r]? = some c' ∧ c'.owner = c.owner
  insts : ∀ (j : Nat) (x : Inst), w.insts[j]? = some x → w'.insts[j]? = some x

theorem Ext.refl (w : World α) : Ext w w :=
  ⟨Nat.le_refl _, fun _ _ h _ => h, fun _ c h => ⟨c, h, rfl⟩, fun _ _ h => h⟩

theorem Ext.trans {a b c : World α} (h1 : Ext a b) (h2 : Ext b c) : Ext a c where
  len := Nat.le_trans h1.len h2.len
  tables r x hx ht := h2.tables r x (h1.tables r x hx ht) ht
  owners r x hx := by
    obtain ⟨y, hy, hyo⟩ := h1.owners r x hx
    obtain ⟨z, hz, hzo⟩ := h2.owners r y hy
    exact ⟨z, hz, hzo.trans hyo⟩
  insts j x hx := h2.insts j x (h1.insts j x hx)

/-- appending cells and instance records -/
theorem Ext.append (w : World α) (cs : List (Cell α)) (is : List Inst) :
    Ext w { cells := w.cells ++ cs, insts := w.insts ++ is } where
  len := by simp only [List.length_append]; exact Nat.le_add_right _ _
  tables r c h _ := by
    have hr : r < w.cells.length := (List.getElem?_eq_some_iff.mp h).1
    simp only [List.getElem?_append_left hr, h]
  owners r c h := by
    have hr : r < w.cells.length := (List.getElem?_eq_some_iff.mp h).1
    exact ⟨c, by simp only [List.getElem?_append_left hr, h], rfl⟩
  insts j x h := by
    have hj : j < w.insts.length := (List.getElem?_eq_some_iff.mp h).1
    simp only [List.getElem?_append_left hj, h]

/-- an in-place write to a non-table cell -/
theorem Ext.write (w : World α) {r : Nat} {o : Owner} (v : List α) (ho : w.owner? r = some o)
    (hnt : o.isTable = false) : Ext w (w.write r v) where
  len := by simp only [World.write_length]; exact Nat.le_refl _
  tables j c h ht := by
    by_cases hj : r = j
    · subst hj
      rw [World.owner?_of_cell h] at ho
      cases ho
      rw [ht] at hnt; cases hnt
    · rw [World.write_cells_ne w v hj]; exact h
  owners j c h := by
    by_cases hj : r = j
    · subst hj; exact ⟨_, World.write_cells_eq v h, rfl⟩
    · exact ⟨c, by rw [World.write_cells_ne w v hj]; exact h, rfl⟩
  insts _ _ h := h

/-- the guard of `construct` -/
def ConstructOk (fam : Family) (args : List Nat) (tables : List (List α)) : Prop :=
  (fam.validArgs args && shapesOk fam args tables) = true

instance (fam : Family) (args : List Nat) (tables : List (List α)) : Decidable (ConstructOk fam args tables) := by
  unfold ConstructOk; infer_instance

theorem shapesOk_length {fam : Family} {args : List Nat} {tables : List (List α)}
    (h : shapesOk fam args tables = true) : tables.length = fam.privCount := by
  unfold shapesOk at h
  simp only [Bool.and_eq_true, beq_iff_eq] at h
  exact h.1.1.1

theorem ConstructOk.length {fam : Family} {args : List Nat} {tables : List (List α)}
    (h : ConstructOk fam args tables) : tables.length = fam.privCount := by
  unfold ConstructOk at h
  simp only [Bool.and_eq_true] at h
  exact shapesOk_length h.2

/-! ### well-formedness of instance records -/

/-- every private ref of every instance points to a cell owned by that instance -/
def WF (w : World α) : Prop :=
  ∀ (j : Nat) (inst : Inst), w.insts[j]? = some inst →
    ∀ r ∈ inst.priv, ∃ c : Cell α, w.cells[r]? = some c ∧ c.owner = Owner.inst j

theorem WF_init (mod : ModTab → List α) : WF (World.init mod) := by
  intro j inst h
  simp only [World.init, List.getElem?_nil] at h
  cases h

theorem WF_of_ext_same_insts {w w' : World α} (hw : WF w) (he : Ext w w') (hi : w'.insts = w.insts) : WF w' := by
  intro j inst h r hr
  rw [hi] at h
  obtain ⟨c, hc, hco⟩ := hw j inst h r hr
  exact ⟨c, he.tables r c hc (by rw [hco]; rfl), hco⟩

end Heap

/-! ### operations -/
section Ops
variable {α : Type} [Add α] [Sub α] [Mul α] [Div α] [Neg α] [LT α]
  [DecidableLT α] [OfNat α 0] [OfNat α 1] [OfNat α 2] [NatCast α] [MathFns α]

/-- the guard of `calc`: instance `i` exists, `h` is a holder, `p` is an array (not a holder) of the
instance's dimension -/
def CalcOk (w : World α) (i p h : Nat) : Prop :=
  ∃ inst pc hc, w.insts[i]? = some inst ∧ w.cells[p]? = some pc ∧ w.cells[h]? = some hc ∧
    hc.owner = .holder ∧ pc.owner ≠ .holder ∧ pc.data.length = inst.family.dim inst.args

theorem exec_construct_ok (k : Prob.GklsConsts α) (w : World α) {fam : Family} {args : List Nat}
    {tables : List (List α)} (h : ConstructOk fam args tables) :
    exec k w (.construct fam args tables) =
      { world := { cells := w.cells ++ tables.map (fun v => { owner := .inst w.insts.length, data := v }),
                   insts := w.insts ++ [{ family := fam, args := args,
                                          priv := List.range' w.cells.length tables.length }] },
        out := .inst w.insts.length (List.range' w.cells.length tables.length),
        wrote := List.range' w.cells.length tables.length,
        allocated := List.range' w.cells.length tables.length } := by
  unfold ConstructOk at h
  simp only [exec, h, if_true, World.allocMany]

theorem exec_construct_fail (k : Prob.GklsConsts α) (w : World α) {fam : Family} {args : List Nat}
    {tables : List (List α)} (h : ¬ ConstructOk fam args tables) :
    exec k w (.construct fam args tables) = fail w := by
  unfold ConstructOk at h
  simp only [exec, h, Bool.false_eq_true, if_false]

theorem exec_point (k : Prob.GklsConsts α) (w : World α) (v : List α) :
    exec k w (.point v) =
      { world := { w with cells := w.cells ++ [{ owner := .caller, data := v }] },
        out := .ref w.cells.length, wrote := [w.cells.length], allocated := [w.cells.length] } := rfl

theorem exec_holder (k : Prob.GklsConsts α) (w : World α) :
    exec k w .holder =
      { world := { w with cells := w.cells ++ [{ owner := .holder, data := [0] }] },
        out := .ref w.cells.length, wrote := [w.cells.length], allocated := [w.cells.length] } := rfl

theorem exec_setPoint_ok (k : Prob.GklsConsts α) (w : World α) {r : Nat} {v : List α}
    (h : w.owner? r = some .caller ∧ (w.read r).length = v.length) :
    exec k w (.setPoint r v) = { world := w.write r v, out := .unit, wrote := [r], allocated := [] } := by
  simp only [exec, h, and_self, if_true]

theorem exec_setPoint_fail (k : Prob.GklsConsts α) (w : World α) {r : Nat} {v : List α}
    (h : ¬ (w.owner? r = some .caller ∧ (w.read r).length = v.length)) :
    exec k w (.setPoint r v) = fail w := by
  simp only [exec, h, if_false]

theorem exec_calc_ok (k : Prob.GklsConsts α) (w : World α) {i p h : Nat} {inst : Inst} {pc hc : Cell α}
    (hi : w.insts[i]? = some inst) (hp : w.cells[p]? = some pc) (hh : w.cells[h]? = some hc)
    (g : hc.owner = .holder ∧ pc.owner ≠ .holder ∧ pc.data.length = inst.family.dim inst.args) :
    exec k w (.calculate i p h) =
      { world := w.write h [evalInst k w inst pc.data], out := .value h (evalInst k w inst pc.data),
        wrote := [h], allocated := [] } := by
  simp only [exec, hi, hp, hh, g, ne_eq, not_false_eq_true, and_self, if_true]

theorem exec_calc_fail (k : Prob.GklsConsts α) (w : World α) {i p h : Nat} (hn : ¬ CalcOk w i p h) :
    exec k w (.calculate i p h) = fail w := by
  simp only [exec]
  split
  · rename_i inst' pc hc hi hp hh
    split
    · rename_i g
      exact absurd ⟨inst', pc, hc, hi, hp, hh, g⟩ hn
    · rfl
  · rfl

/-- `exec` never shrinks or rewrites tables: the result is a later state -/
theorem exec_ext (k : Prob.GklsConsts α) (w : World α) (op : Op α) : Ext w (exec k w op).world := by
  cases op with
  | construct fam args tables =>
    by_cases h : ConstructOk fam args tables
    · rw [exec_construct_ok k w h]; exact Ext.append w _ _
    · rw [exec_construct_fail k w h]; exact Ext.refl w
  | point v =>
    rw [exec_point]
    have := Ext.append w [({ owner := .caller, data := v } : Cell α)] []
    simpa only [List.append_nil] using this
  | holder =>
    rw [exec_holder]
    have := Ext.append w [({ owner := .holder, data := [0] } : Cell α)] []
    simpa only [List.append_nil] using this
  | setPoint r v =>
    by_cases h : w.owner? r = some .caller ∧ (w.read r).length = v.length
    · rw [exec_setPoint_ok k w h]; exact Ext.write w v h.1 rfl
    · rw [exec_setPoint_fail k w h]; exact Ext.refl w
  | calculate i p h =>
    by_cases hc : CalcOk w i p h
    · obtain ⟨inst, pc, hcell, hi, hp, hh, g⟩ := hc
      rw [exec_calc_ok k w hi hp hh g]
      exact Ext.write w _ (by rw [World.owner?_of_cell hh, g.1]) rfl
    · rw [exec_calc_fail k w hc]; exact Ext.refl w

theorem run_nil (k : Prob.GklsConsts α) (w : World α) : run k w [] = w := rfl

theorem run_cons (k : Prob.GklsConsts α) (w : World α) (op : Op α) (ops : List (Op α)) :
    run k w (op :: ops) = run k (exec k w op).world ops := rfl

theorem run_append (k : Prob.GklsConsts α) (w : World α) (a b : List (Op α)) :
    run k w (a ++ b) = run k (run k w a) b := by
  simp only [run, List.foldl_append]

theorem run_ext (k : Prob.GklsConsts α) (w : World α) (ops : List (Op α)) : Ext w (run k w ops) := by
  induction ops generalizing w with
  | nil => exact Ext.refl w
  | cons op ops ih => rw [run_cons]; exact (exec_ext k w op).trans (ih _)

theorem exec_wf (k : Prob.GklsConsts α) {w : World α} (hw : WF w) (op : Op α) : WF (exec k w op).world := by
  cases op with
  | construct fam args tables =>
    by_cases h : ConstructOk fam args tables
    · have he := exec_ext k w (.construct fam args tables)
      rw [exec_construct_ok k w h] at he ⊢
      intro j inst hj r hr
      by_cases hjl : j < w.insts.length
      · simp only [List.getElem?_append_left hjl] at hj
        obtain ⟨c, hc, hco⟩ := hw j inst hj r hr
        exact ⟨c, he.tables r c hc (by rw [hco]; rfl), hco⟩
      · have hjl' : w.insts.length ≤ j := Nat.le_of_not_lt hjl
        simp only [List.getElem?_append_right hjl'] at hj
        have hj0 : j - w.insts.length = 0 := by
          cases hd : j - w.insts.length with
          | zero => rfl
          | succ n => rw [hd] at hj; simp only [List.getElem?_cons_succ, List.getElem?_nil] at hj; cases hj
        rw [hj0, List.getElem?_cons_zero] at hj
        have hje : j = w.insts.length := by omega
        cases hj
        simp only [List.mem_range'_1] at hr
        obtain ⟨hr1, hr2⟩ := hr
        have hidx : r - w.cells.length < tables.length := by omega
        refine ⟨{ owner := .inst w.insts.length, data := tables[r - w.cells.length] }, ?_, by rw [hje]⟩
        simp only [List.getElem?_append_right hr1, List.getElem?_map, List.getElem?_eq_getElem hidx,
          Option.map_some]
    · rw [exec_construct_fail k w h]; exact hw
  | point v => exact WF_of_ext_same_insts hw (exec_ext k w _) rfl
  | holder => exact WF_of_ext_same_insts hw (exec_ext k w _) rfl
  | setPoint r v =>
    by_cases h : w.owner? r = some .caller ∧ (w.read r).length = v.length
    · exact WF_of_ext_same_insts hw (exec_ext k w _) (by rw [exec_setPoint_ok k w h]; rfl)
    · rw [exec_setPoint_fail k w h]; exact hw
  | calculate i p h =>
    by_cases hc : CalcOk w i p h
    · obtain ⟨inst, pc, hcell, hi, hp, hh, g⟩ := hc
      exact WF_of_ext_same_insts hw (exec_ext k w _) (by rw [exec_calc_ok k w hi hp hh g]; rfl)
    · rw [exec_calc_fail k w hc]; exact hw

theorem run_wf (k : Prob.GklsConsts α) {w : World α} (hw : WF w) (ops : List (Op α)) : WF (run k w ops) := by
  induction ops generalizing w with
  | nil => exact hw
  | cons op ops ih => rw [run_cons]; exact ih (exec_wf k hw op)

/-! ### consequences for evaluation -/

/-- in a later state, an instance evaluates every point exactly as before -/
theorem evalInst_ext (k : Prob.GklsConsts α) {w w' : World α} (he : Ext w w') {j : Nat} {inst : Inst}
    (hw : WF w) (hj : w.insts[j]? = some inst)
    (hmod : ∀ t : ModTab, ∃ c, w.cells[t.ref]? = some c ∧ c.owner = .module) (x : List α) :
    evalInst k w' inst x = evalInst k w inst x := by
  unfold evalInst
  have h1 : (fun t : ModTab => w'.read t.ref) = (fun t : ModTab => w.read t.ref) := by
    funext t
    obtain ⟨c, hc, hco⟩ := hmod t
    exact World.read_congr (by rw [he.tables _ c hc (by rw [hco]; rfl), hc])
  have h2 : inst.priv.map w'.read = inst.priv.map w.read := by
    apply List.map_congr_left
    intro r hr
    obtain ⟨c, hc, hco⟩ := hw j inst hj r hr
    exact World.read_congr (by rw [he.tables _ c hc (by rw [hco]; rfl), hc])
  rw [h1, h2]

/-- module cells of every state reachable from `init` -/
theorem run_init_module (k : Prob.GklsConsts α) (mod : ModTab → List α) (ops : List (Op α)) (t : ModTab) :
    (run k (World.init mod) ops).cells[t.ref]? = some { owner := .module, data := mod t } :=
  (run_ext k _ ops).tables _ _ (World.init_cells mod t) rfl

end Ops
end ProbWorld
