import IOptProofs.ShekelTabDefs
/-! kernel-evaluated C18 table certificates (min / max / Lipschitz tables) of the Shekel functions 320..339
(one block per file, identical template; four kernel evaluations of 5 rows each keep the memory near 1 GB) -/
namespace Shk
set_option maxRecDepth 100000 in
theorem shekel_tab_block_16_a : ∀ i ∈ List.range' 320 5, shekelTabOK i = true := by decide +kernel
set_option maxRecDepth 100000 in
theorem shekel_tab_block_16_b : ∀ i ∈ List.range' 325 5, shekelTabOK i = true := by decide +kernel
set_option maxRecDepth 100000 in
theorem shekel_tab_block_16_c : ∀ i ∈ List.range' 330 5, shekelTabOK i = true := by decide +kernel
set_option maxRecDepth 100000 in
theorem shekel_tab_block_16_d : ∀ i ∈ List.range' 335 5, shekelTabOK i = true := by decide +kernel
theorem shekel_tab_block_16 : ∀ i ∈ List.range' 320 20, shekelTabOK i = true := by
  intro i hi
  have hi' := List.mem_range'_1.1 hi
  if h1 : i < 325 then exact shekel_tab_block_16_a i (List.mem_range'_1.2 ⟨by omega, by omega⟩) else
  if h2 : i < 330 then exact shekel_tab_block_16_b i (List.mem_range'_1.2 ⟨by omega, by omega⟩) else
  if h3 : i < 335 then exact shekel_tab_block_16_c i (List.mem_range'_1.2 ⟨by omega, by omega⟩) else
  exact shekel_tab_block_16_d i (List.mem_range'_1.2 ⟨by omega, by omega⟩)
end Shk
