import IOptModel.Process
import IOptGen.ProcessSrc
/-!
# A semantics for the statement trees of `Process.GetResults` and `Process.DoLocalRefinement`

`IOptGen/ProcessSrc.lean` (regenerated from the SOURCE TEXT of `iOpt/method/process.py` on every run) holds the bodies of
`GetResults` and `DoLocalRefinement` as statement trees.  `IOptProofs/ProcInterpDefs.lean` treats the two methods as primitives
(`self.GetResults()` without effect, `self.DoLocalRefinement(-1)` = `Proc.doLocalRefinement`).  Since the repair of defect F14 they
carry logic of their own; this file interprets THEIR trees, by structural recursion over `Gen.ProcSrc.Stmt`, generic in the tree
(the interpreter never looks at which function it is executing).  Source strings are opaque keys of small tables (`assignTable`,
`noopAssigns`, `primTable`, `condTable`, `retTable`, `targetTable`, `intLits`, `procTable`); whatever is not in a table - and every
statement form that the two functions do not use (`for`, `while`, `try`, `other`) - makes the run `stuck`.

The interpreter state is the model state `Proc.PState α` (method state, `nLocal`, and `refined` = the field `__refinedTrial`) PLUS
the MUTABLE slot `solution.bestTrials[0]`, which the model does not have: `Glob.slot` is the id of the trial stored there
(`Method.UpdateOptimum` points it to `Method.best` in every iteration, `GetResults` re-points it to the refined trial).
Trials are referred to by id; reading a field of a trial whose id is not stored (`findItem = none`) is `stuck`.

The scipy call and the re-evaluation are oracles (`Ctx`): `minimize` gives `.x` and `.nfev` of the Nelder-Mead result as a
function of the start point, `evalAt` is `self.problemCalculate`.  `Ctx.lr` packs them into the model's `LocalResult`;
`Ctx.const lr` is the context that answers with a given `LocalResult` whatever the start point.

No Mathlib, no proofs: everything here is executable.  `IOptProofs/ReportInterp.lean` proves that the interpretation of the generated
trees IS `Proc.reportedId` / `Proc.doLocalRefinement`.
-/

section
variable {α : Type} [Add α] [Sub α] [Mul α] [Div α] [Neg α] [LT α] [LE α]
  [DecidableLT α] [DecidableLE α] [OfNat α 0] [OfNat α 1] [OfNat α 2] [OfNat α 4] [Fns α]

namespace ReportInterp
open AGP Proc Gen.ProcSrc

/-! ### interpreter state -/

/-- the fields of the `Process` object (and of everything it owns) that the two methods read or write -/
structure Glob (α : Type) where
  /-- the model state; `ps.refined` is the field `self.__refinedTrial` (`none` = `None`, `some r` = the trial with id `r`) -/
  ps : PState α
  /-- the id of the trial currently stored in `self.searchData.solution.bestTrials[0]` -/
  slot : Nat

/-- the Python locals of one activation -/
structure Locals (α : Type) where
  /-- integer parameters (`number`) -/
  ints : List (String × Int) := []
  /-- `solution` is bound (to THE `Solution` object `self.searchData.solution`) -/
  solution : Bool := false
  /-- `refined`: unbound / bound to `None` / bound to the trial with this id -/
  refined : Option (Option Nat) := none
  /-- `result` is bound (to THE `Solution` object, as returned by `GetResults()`) -/
  result : Bool := false
  /-- `startPoint` (a list of floats) -/
  startPoint : Option (List α) := none
  /-- `bounds` is bound -/
  bounds : Bool := false
  /-- `nelder_mead`: `.x` and `.nfev` of the `OptimizeResult` -/
  nm : Option (List α × Nat) := none

structure IState (α : Type) where
  g : Glob α
  l : Locals α

/-- the values a function of the fragment can return: only THE `Solution` object -/
inductive Val where
  | solution
deriving Repr, DecidableEq

/-- outcome of a statement (list) -/
inductive Out (α : Type) where
  | normal (st : IState α)
  /-- a `return` was executed -/
  | returned (st : IState α) (v : Val)
  /-- the tree left the interpreted fragment -/
  | stuck

/-- outcome of a whole function: the object afterwards and the value returned (`none`: fell off the end, Python's `None`) -/
inductive POut (α : Type) where
  | done (g : Glob α) (ret : Option Val)
  | stuck

/-- the oracles -/
structure Ctx (α : Type) where
  /-- `scipy.optimize.minimize(self.problemCalculate, x0=startPoint, method='Nelder-Mead', options=…, bounds=bounds)`:
  start point ↦ (`.x`, `.nfev`) -/
  minimize : List α → List α × Nat
  /-- `self.problemCalculate` (total: an objective that raises during the refinement is outside the model) -/
  evalAt : List α → α

/-- the model's `LocalResult` for a refinement started at `x0`: the point returned, the objective there, `nfev` -/
def Ctx.lr (c : Ctx α) (x0 : List α) : LocalResult α :=
  { x := (c.minimize x0).1, fx := c.evalAt (c.minimize x0).1, nfev := (c.minimize x0).2 }

/-- the oracles that answer with a given `LocalResult`, whatever the start point -/
def Ctx.const (lr : LocalResult α) : Ctx α := { minimize := fun _ => (lr.x, lr.nfev), evalAt := fun _ => lr.fx }

/-! ### tables -/

inductive Asg where
  /-- `solution = self.searchData.solution` -/
  | bindSolution
  /-- `refined = self.__refinedTrial` -/
  | bindRefined
  /-- `solution.bestTrials[0] = refined` -/
  | slotRefined
  /-- `startPoint = result.bestTrials[0].point.floatVariables` -/
  | bindStart
  /-- `result.bestTrials[0].point.floatVariables = nelder_mead.x` -/
  | writePoint
  /-- `result.numberOfLocalTrials = nelder_mead.nfev` -/
  | writeNfev
  /-- `self.__refinedTrial = result.bestTrials[0]` -/
  | rememberRefined
deriving Repr, DecidableEq

/-- the assignments `target = value` that have an effect -/
def assignTable : List ((String × String) × Asg) := [
  (("solution", "self.searchData.solution"), .bindSolution),
  (("refined", "self.__refinedTrial"), .bindRefined),
  (("solution.bestTrials[0]", "refined"), .slotRefined),
  (("startPoint", "result.bestTrials[0].point.floatVariables"), .bindStart),
  (("result.bestTrials[0].point.floatVariables", "nelder_mead.x"), .writePoint),
  (("result.numberOfLocalTrials", "nelder_mead.nfev"), .writeNfev),
  (("self.__refinedTrial", "result.bestTrials[0]"), .rememberRefined)]

/-- the assignments that only prepare the scipy call (`maxiter`): no effect on the interpreter state -/
def noopAssigns : List (String × String) := [
  ("self.localMethodIterationCount", "number"),
  ("self.localMethodIterationCount", "self.parameters.itersLimit * 0.05")]

inductive Prim where
  /-- `bounds = Bounds(lower, upper)` -/
  | mkBounds
  /-- `nelder_mead = scipy.optimize.minimize(…)` -/
  | minimize
  /-- `result.bestTrials[0].functionValues[0].value = self.problemCalculate(result.bestTrials[0].point.floatVariables)` -/
  | reEvaluate
deriving Repr, DecidableEq

/-- the primitive calls: (targets, callee, arguments) exactly as in the source ↦ primitive -/
def primTable : List ((List String × String × List String) × Prim) := [
  ((["bounds"], "Bounds", ["self.task.problem.lowerBoundOfFloatVariables", "self.task.problem.upperBoundOfFloatVariables"]), .mkBounds),
  ((["nelder_mead"], "scipy.optimize.minimize",
    ["self.problemCalculate", "x0=startPoint", "method='Nelder-Mead'", "options={'maxiter': self.localMethodIterationCount}",
     "bounds=bounds"]), .minimize),
  ((["result.bestTrials[0].functionValues[0].value"], "self.problemCalculate", ["result.bestTrials[0].point.floatVariables"]),
    .reEvaluate)]

/-- how two value holders are compared -/
inductive Cmp where
  | lt | le
deriving Repr, DecidableEq

def Cmp.holds : Cmp → α → α → Bool
  | .lt, a, b => decide (a < b)
  | .le, a, b => decide (a ≤ b)

inductive Cond where
  /-- `number == -1` -/
  | numberIsMinus1
  /-- `refined is not None and [solution.bestTrials[0] is not refined and] (refined.…value CMP solution.bestTrials[0].…value)`;
  `identity`: the middle conjunct is present -/
  | refinedBetter (cmp : Cmp) (identity : Bool)
deriving Repr, DecidableEq

/-- the conditions.  The first two are the strings of the source; the last two are the two one-token edits of the second one
(`<=` for `<`, the identity test dropped), interpreted with THEIR Python meaning, so that `ReportInterp.lean` can say what these
edits would do (the first differs from the model, the second is harmless for an irreflexive `<`). -/
def condTable : List (String × Cond) := [
  ("number == -1", .numberIsMinus1),
  ("refined is not None and solution.bestTrials[0] is not refined and (refined.functionValues[0].value < solution.bestTrials[0].functionValues[0].value)",
    .refinedBetter .lt true),
  ("refined is not None and solution.bestTrials[0] is not refined and (refined.functionValues[0].value <= solution.bestTrials[0].functionValues[0].value)",
    .refinedBetter .le true),
  ("refined is not None and (refined.functionValues[0].value < solution.bestTrials[0].functionValues[0].value)",
    .refinedBetter .lt false)]

/-- `return` expressions ↦ the value returned -/
def retTable : List (String × Val) := [("solution", .solution)]

inductive Tgt where
  /-- `result = …` -/
  | result
deriving Repr, DecidableEq

/-- the targets that may receive the value returned by a function of `procTable` -/
def targetTable : List (String × Tgt) := [("result", .result)]

/-- integer literals -/
def intLits : List (String × Int) := [("1", 1), ("-1", -1)]

/-- the functions of `process.py` that are interpreted through their own tree: callee ↦ (parameters, defaults, body) -/
def procTable : List (String × (List String × List String × List Stmt)) := [
  ("self.GetResults", (getResultsParams, getResultsDefaults, getResults))]

/-! ### primitives -/

def IState.setPs (st : IState α) (ps : PState α) : IState α := { st with g := { st.g with ps := ps } }

/-- the in-place overwrite of the point of the trial with id `slot` -/
def setPoint (slot : Nat) (x : List α) (it : Item α) : Item α := if it.id == slot then { it with point := x } else it

/-- the in-place overwrite of the value holder of the trial with id `slot` by the objective AT ITS (current) POINT -/
def setValue (ev : List α → α) (slot : Nat) (it : Item α) : Item α :=
  if it.id == slot then { it with hv := ev it.point } else it

/-- `none`: the condition cannot be evaluated (an unbound local, a trial id that is not stored) -/
def evalCond : Cond → IState α → Option Bool
  | .numberIsMinus1, st => (st.l.ints.lookup "number").map fun n => decide (n = -1)
  | .refinedBetter cmp identity, st =>
    match st.l.solution, st.l.refined with
    | true, some none => some false                          -- `refined is not None` is false: nothing else is evaluated
    | true, some (some r) =>
      if identity = true ∧ r = st.g.slot then some false      -- `solution.bestTrials[0] is not refined` is false
      else
        match st.g.ps.m with
        | none => none
        | some s =>
          match findItem s.items r, findItem s.items st.g.slot with
          | some ri, some bi => some (cmp.holds ri.hv bi.hv)
          | _, _ => none
    | _, _ => none

def execAssign : Asg → IState α → Out α
  | .bindSolution, st => .normal { st with l := { st.l with solution := true } }
  | .bindRefined, st => .normal { st with l := { st.l with refined := some st.g.ps.refined } }
  | .slotRefined, st =>
    match st.l.solution, st.l.refined with
    | true, some (some r) => .normal { st with g := { st.g with slot := r } }
    | _, _ => .stuck                        -- (storing `None` in the solution is outside the model)
  | .bindStart, st =>
    match st.l.result, st.g.ps.m with
    | true, some s =>
      match findItem s.items st.g.slot with
      | some it => .normal { st with l := { st.l with startPoint := some it.point } }
      | none => .stuck
    | _, _ => .stuck
  | .writePoint, st =>
    match st.l.result, st.l.nm, st.g.ps.m with
    | true, some (x, _), some s =>
      .normal (st.setPs { st.g.ps with m := some { s with items := s.items.map (setPoint st.g.slot x) } })
    | _, _, _ => .stuck
  | .writeNfev, st =>
    match st.l.result, st.l.nm with
    | true, some (_, n) => .normal (st.setPs { st.g.ps with nLocal := n })
    | _, _ => .stuck
  | .rememberRefined, st =>
    match st.l.result, st.g.ps.m with
    | true, some _ => .normal (st.setPs { st.g.ps with refined := some st.g.slot })
    | _, _ => .stuck

def execPrim (c : Ctx α) : Prim → IState α → Out α
  | .mkBounds, st => .normal { st with l := { st.l with bounds := true } }
  | .minimize, st =>
    match st.l.startPoint, st.l.bounds with
    | some x0, true => .normal { st with l := { st.l with nm := some (c.minimize x0) } }
    | _, _ => .stuck
  | .reEvaluate, st =>
    match st.l.result, st.g.ps.m with
    | true, some s => .normal (st.setPs { st.g.ps with m := some { s with items := s.items.map (setValue c.evalAt st.g.slot) } })
    | _, _ => .stuck

/-- bind the value a called function returned to the targets of the call statement -/
def bindTargets : List String → Option Val → IState α → Out α
  | [], _, st => .normal st                                    -- an expression statement: the value is dropped
  | [t], some .solution, st =>
    match targetTable.lookup t with
    | some .result => .normal { st with l := { st.l with result := true } }
    | none => .stuck
  | _, _, _ => .stuck

/-! ### control -/

/-- an integer expression: a literal of `intLits` or an integer local -/
def evalInt (ints : List (String × Int)) (e : String) : Option Int :=
  match intLits.lookup e with
  | some n => some n
  | none => ints.lookup e

/-- what a call of a function of `procTable` does: (argument expressions, the caller's integer locals, object) ↦ outcome -/
abbrev ProcEnv (α : Type) := String → Option (List String → List (String × Int) → Glob α → POut α)

mutual
/-- one statement -/
def execStmt (c : Ctx α) (env : ProcEnv α) : Stmt → IState α → Out α
  | .call ts callee args, st =>
    match primTable.lookup (ts, callee, args) with
    | some pr => execPrim c pr st
    | none =>
      match env callee with
      | none => .stuck
      | some h =>
        match h args st.l.ints st.g with
        | .done g rv => bindTargets ts rv { st with g := g }
        | .stuck => .stuck
  | .assign t v, st =>
    match assignTable.lookup (t, v) with
    | some a => execAssign a st
    | none => if noopAssigns.contains (t, v) then .normal st else .stuck
  | .ite cond thn els, st =>
    match condTable.lookup cond with
    | some cd =>
      match evalCond cd st with
      | some true => execList c env thn st
      | some false => execList c env els st
      | none => .stuck
    | none => .stuck
  | .ret v, st =>
    match retTable.lookup v with
    | some .solution => if st.l.solution then .returned st .solution else .stuck
    | none => .stuck
  | .forRange _ _ _, _ => .stuck
  | .forEach _ _ _, _ => .stuck
  | .while _ _, _ => .stuck
  | .tryExcept _ _ _, _ => .stuck
  | .other _, _ => .stuck

/-- a statement list: stops at the first outcome that is not `normal` -/
def execList (c : Ctx α) (env : ProcEnv α) : List Stmt → IState α → Out α
  | [], st => .normal st
  | s :: rest, st =>
    match execStmt c env s st with
    | .normal st' => execList c env rest st'
    | o => o
end

/-- a function body run on fresh locals holding the integer parameters -/
def runBody (c : Ctx α) (env : ProcEnv α) (body : List Stmt) (ints : List (String × Int)) (g : Glob α) : POut α :=
  match execList c env body { g := g, l := { ints := ints } } with
  | .normal st => .done st.g none
  | .returned st v => .done st.g (some v)
  | .stuck => .stuck

/-- evaluate the argument expressions and bind them to the parameters, in order -/
def bindAll (callerInts : List (String × Int)) : List String → List String → Option (List (String × Int))
  | [], [] => some []
  | x :: xs, e :: es =>
    match evalInt callerInts e, bindAll callerInts xs es with
    | some v, some rest => some ((x, v) :: rest)
    | _, _ => none
  | _, _ => none

/-- positional arguments, then the trailing defaults; the first parameter must be `self` -/
def bindArgs (params defaults args : List String) (callerInts : List (String × Int)) : Option (List (String × Int)) :=
  match params with
  | "self" :: ps =>
    let missing := ps.length - args.length
    if args.length ≤ ps.length ∧ missing ≤ defaults.length then
      bindAll callerInts ps (args ++ defaults.drop (defaults.length - missing))
    else none
  | _ => none

/-- the functions callable at call depth `d` -/
def envN (c : Ctx α) : Nat → ProcEnv α
  | 0 => fun _ => none
  | d+1 => fun name =>
    match procTable.lookup name with
    | none => none
    | some (params, defaults, body) =>
      some fun args callerInts g =>
        match bindArgs params defaults args callerInts with
        | none => .stuck
        | some ints => runBody c (envN c d) body ints g

/-- run a function body at call depth `depth` -/
def run (c : Ctx α) (depth : Nat) (body : List Stmt) (ints : List (String × Int)) (g : Glob α) : POut α :=
  runBody c (envN c depth) body ints g

/-! ### what the tie theorems are stated with -/

/-- the slot after `GetResults()`, for ANY content `slot` before: the refined trial if there is one, it is another trial than the one
in the slot and its value holder is strictly smaller; else the slot is kept -/
def slotAfter (ps : PState α) (s : State α) (slot : Nat) : Nat :=
  match ps.refined with
  | none => slot
  | some r =>
    if r = slot then slot
    else
      match findItem s.items r, findItem s.items slot with
      | some ri, some bi => if ri.hv < bi.hv then r else slot
      | _, _ => slot

end ReportInterp
end
