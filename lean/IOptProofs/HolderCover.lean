import IOptProofs.HolderRoot
import IOptProps.C09
/-!
# Lipschitz objectives along the evolvent: the curve comes close to every cube point  (worker h)

* `Ev.InCube n q`: `q` is a point of the cube `[-1/2,1/2]^n`; `Ev.LipCube n f L`: `f` is
  `L`-Lipschitz on the cube w.r.t. the Euclidean norm.
* `exists_curve_point_near`: every cube point is within half a cell diagonal `√n·2^-(m+1)` of a
  point `y(x)` of the curve (namely `x = __GetXonY q`, by `C09_image_of_inverse`).
* `lip_along_curve`: `|f(y x') - f(y x'')| ≤ L·(2√(n+3)·t + √(n+3)·2^-m)` if `|x' - x''| ≤ t^n`.
-/

namespace Ev
attribute [local instance] Ev.Num.floorTrunc

/-- `q` is a point of the cube `[-1/2, 1/2]^n` -/
def InCube (n : Nat) (q : List ℝ) : Prop := q.length = n ∧ ∀ v ∈ q, |v| ≤ 1 / 2

/-- `f` is `L`-Lipschitz on the cube `[-1/2, 1/2]^n` w.r.t. the Euclidean norm -/
def LipCube (n : Nat) (f : List ℝ → ℝ) (L : ℝ) : Prop :=
  ∀ a b, InCube n a → InCube n b → |f a - f b| ≤ L * dist2 a b

theorem imageCube_inCube {n : Nat} (hn : Ev.DimOK n) (m : Nat) (x : ℝ) :
    InCube n (imageCube n m x) := by
  obtain ⟨h1, h2⟩ := Num.imageCube_bound hn m x
  exact ⟨h1, fun v hv => (h2 v hv).le⟩

theorem getR_replicate {n i : Nat} (hi : i < n) (c : ℝ) : getR (List.replicate n c) i = c := by
  rw [getR_eq_getElem (by simpa using hi)]; simp

/-- a coordinate difference is at most the Euclidean distance -/
theorem abs_getR_sub_le_dist2 {n : Nat} {a b : List ℝ} (ha : a.length = n) (hb : b.length = n)
    {i : Nat} (hi : i < n) : |getR a i - getR b i| ≤ dist2 a b := by
  unfold dist2
  apply Real.abs_le_sqrt
  rw [sqDist_eq_sum ha hb]
  exact Finset.single_le_sum (f := fun j => (getR a j - getR b j)^2)
    (fun j _ => sq_nonneg _) (Finset.mem_range.2 hi)

/-- a coordinate function is `1`-Lipschitz (example of a Lipschitz objective) -/
theorem lipCube_coord {n i : Nat} (hi : i < n) : LipCube n (fun q => getR q i) 1 := by
  intro a b ha hb
  rw [one_mul]
  exact abs_getR_sub_le_dist2 ha.1 hb.1 hi

/-- a Lipschitz constant on a cube of positive dimension is non-negative -/
theorem LipCube.nonneg {n : Nat} (hn : 0 < n) {f : List ℝ → ℝ} {L : ℝ} (h : LipCube n f L) :
    0 ≤ L := by
  have ha : InCube n (List.replicate n 0) :=
    ⟨by simp, fun v hv => by rw [List.eq_of_mem_replicate hv]; norm_num⟩
  have hb : InCube n (List.replicate n (1/2)) :=
    ⟨by simp, fun v hv => by
      rw [List.eq_of_mem_replicate hv, abs_of_nonneg (by norm_num : (0:ℝ) ≤ 1/2)]⟩
  have h1 := h _ _ ha hb
  have hs : sqDist (List.replicate n (0:ℝ)) (List.replicate n (1/2)) = n * (1/4) := by
    rw [sqDist_eq_sum (n := n) (by simp) (by simp)]
    rw [Finset.sum_congr rfl (g := fun _ => (1/4 : ℝ))]
    · simp
    · intro i hi
      rw [getR_replicate (Finset.mem_range.1 hi), getR_replicate (Finset.mem_range.1 hi)]
      norm_num
  have hd : 0 < dist2 (List.replicate n (0:ℝ)) (List.replicate n (1/2)) := by
    unfold dist2; rw [hs]
    apply Real.sqrt_pos.2
    have : (0:ℝ) < n := by exact_mod_cast hn
    positivity
  by_contra hneg
  have : L * dist2 (List.replicate n (0:ℝ)) (List.replicate n (1/2)) < 0 :=
    mul_neg_of_neg_of_pos (not_le.1 hneg) hd
  linarith [abs_nonneg (f (List.replicate n 0) - f (List.replicate n (1/2)))]

/-- every cube point `q` is within half a cell diagonal of the image of `x = __GetXonY q` -/
theorem exists_curve_point_near {n : Nat} (hn : Ev.DimOK n) (m : Nat) {q : List ℝ}
    (hq : InCube n q) :
    ∃ x : ℝ, 0 ≤ x ∧ x < 1 ∧ dist2 q (imageCube n m x) ≤ Real.sqrt n / 2^(m+1) := by
  obtain ⟨ds, hv, hlen, hx, _, hil, hclose⟩ := C09_image_of_inverse hn m q hq.1 hq.2
  have hB : (0:ℝ) < ((2:ℝ)^n)^m := by positivity
  refine ⟨inverseCube n m q, ?_, ?_, ?_⟩
  · rw [hx]; positivity
  · rw [hx, div_lt_one hB]
    have := indexOf_lt hv
    rw [hlen] at this
    exact_mod_cast this
  · have hs : sqDist q (imageCube n m (inverseCube n m q)) ≤ n * (1 / 2^(m+1))^2 := by
      apply sqDist_le_of_all hq.1 hil
      intro i hi
      have h1 : i < q.length := by rw [hq.1]; exact hi
      have h2 : i < (imageCube n m (inverseCube n m q)).length := by rw [hil]; exact hi
      rw [getR_eq_getElem h1, getR_eq_getElem h2]
      exact hclose i h1 h2
    unfold dist2
    have e : (n:ℝ) * (1 / 2^(m+1))^2 = (Real.sqrt n / 2^(m+1))^2 := by
      rw [div_pow (Real.sqrt n), Real.sq_sqrt (Nat.cast_nonneg n)]; ring
    rw [e] at hs
    calc _ ≤ Real.sqrt ((Real.sqrt n / 2^(m+1))^2) := Real.sqrt_le_sqrt hs
      _ = _ := Real.sqrt_sq (by positivity)

/-- a Lipschitz objective is Hölder along the curve, up to the resolution term -/
theorem lip_along_curve {n : Nat} (hn : Ev.DimOK n) (m : Nat) {f : List ℝ → ℝ} {L : ℝ}
    (hf : LipCube n f L) {x' x'' : ℝ} (h0' : 0 ≤ x') (h1' : x' ≤ 1) (h0'' : 0 ≤ x'')
    (h1'' : x'' ≤ 1) {t : ℝ} (ht : 0 ≤ t) (hd : |x' - x''| ≤ t^n) :
    |f (imageCube n m x') - f (imageCube n m x'')| ≤
      2 * L * Real.sqrt (n + 3) * t + L * Real.sqrt (n + 3) / 2^m := by
  have hL := hf.nonneg hn.pos
  have h1 := hf _ _ (imageCube_inCube hn m x') (imageCube_inCube hn m x'')
  have h2 := dist2_imageCube_le_add hn m h0' h1' h0'' h1'' ht hd
  calc _ ≤ L * dist2 (imageCube n m x') (imageCube n m x'') := h1
    _ ≤ L * (2 * Real.sqrt (n + 3) * t + Real.sqrt (n + 3) / 2^m) :=
        mul_le_mul_of_nonneg_left h2 hL
    _ = _ := by ring

end Ev
