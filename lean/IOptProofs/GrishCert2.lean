import IOptProofs.GrishDefs
/-! kernel-evaluated certificates (V), (G), (P) of the Grishagin functions 11..15 (one block per file, identical template;
one theorem per function so that the kernel's reduction cache is released between functions) -/
namespace Grish
set_option maxRecDepth 100000
theorem grish_ok_11 : grishOK 11 = true := by decide +kernel
theorem grish_ok_12 : grishOK 12 = true := by decide +kernel
theorem grish_ok_13 : grishOK 13 = true := by decide +kernel
theorem grish_ok_14 : grishOK 14 = true := by decide +kernel
theorem grish_ok_15 : grishOK 15 = true := by decide +kernel
theorem grish_block_2 : ∀ k ∈ List.range' 11 5, grishOK k = true := by
  intro k hk
  simp only [List.mem_range'_1] at hk
  obtain ⟨h1, h2⟩ := hk
  have : k = 11 ∨ k = 12 ∨ k = 13 ∨ k = 14 ∨ k = 15 := by omega
  rcases this with rfl | rfl | rfl | rfl | rfl
  · exact grish_ok_11
  · exact grish_ok_12
  · exact grish_ok_13
  · exact grish_ok_14
  · exact grish_ok_15
end Grish
