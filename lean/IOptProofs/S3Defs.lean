import IOptGen.StronginC3Src
import IOptGen.Meta
/-!
# StronginC3: the computable side of the verified interval branch-and-bound (no Mathlib)

Objective `f = -(A + B)` with
`A = 1.5 x1² e^{1 - x1² - 20.25 (x1-x2)²}`, `B = t1 t2 e^{2 - t1 - t2}`, `t1 = (0.5 x1 - 0.5)^4`, `t2 = (x2 - 1)^4`,
on the box `[0,4] × [-1,3]`; the only constraint the certificate uses is
`g1 = 100 (1 - ((x1-2)/1.2)² - (x2/2)²) ≤ 0` (the theorems therefore hold on a superset of the feasible set).

A box is `[a1,b1] × [a2,b2]` in natural numbers: `x1·2^26 ∈ [a1,b1]`, `(x2+1)·2^26 ∈ [a2,b2]`
(the second coordinate is shifted by the lower bound `-1`, so that everything is a natural number).
Values of `A`, `B`, `e^{-s}` are fixed-point in units of `2^-64`, rounded outward.

* `enUp S ≥ e^{-s}·2^64` for `s ≥ S/2^64`: with `r = s/2^20`, `e^{-r} ≤ 1/(1 + r + r²/2)`, then 20 squarings rounded up;
* `enLo S ≤ e^{-s}·2^64` for `s ≤ S/2^64`: `e^{-r} ≥ 1 - r`, then 20 squarings rounded down;
* `ub box > (A + B)·2^64` on the box, `lbA box ≤ A·2^64 ≤ (A + B)·2^64` on the box;
* `g1pos box = true` implies `g1 > 0` on the whole box (exact integer comparison; `1.2` is the double `C12/2^52`);
* `bnb T R fuel box = true` implies: every point of the box with `g1 ≤ 0` lies in the rectangle `R` or has
  `(A + B)·2^64 < T`.

Written with the `Nat` primitives applied directly (fast under `decide +kernel`).
-/

namespace S3

/-- `2^64`: one unit of the fixed-point format -/
def ONE : Nat := 18446744073709551616
/-- `2^26`: one unit of the coordinate grid -/
def U : Nat := 67108864
/-- `⌈2.7182818286·2^64⌉ > e·2^64` -/
def EUP : Nat := 50143449212399413153
/-- `⌊2.7182818283·2^64⌋ < e·2^64` -/
def ELO : Nat := 50143449206865389929
/-- `⌈2.7182818286²·2^64⌉ > e²·2^64` -/
def E2UP : Nat := 136304026817392306577
/-- the double `1.2` is `C12 / 2^52` -/
def C12 : Nat := 5404319552844595

/-- evaluate `n` to a literal before continuing (`forceNat n k = k n`) -/
def forceNat {α : Type} (n : Nat) (k : Nat → α) : α := match n with | 0 => k 0 | m + 1 => k (m + 1)

/-- a lower bound of `|X - Y|` for `X ∈ [lo,hi]`, `Y ∈ [lo',hi']` (at most one summand is non-zero) -/
def nearI (lo hi lo' hi' : Nat) : Nat := Nat.add (Nat.sub lo hi') (Nat.sub lo' hi)
/-- an upper bound of `|X - Y|` for `X ∈ [lo,hi]`, `Y ∈ [lo',hi']` -/
def farI (lo hi lo' hi' : Nat) : Nat := Nat.add (Nat.sub hi lo') (Nat.sub hi' lo)

def pow4 (d : Nat) : Nat := Nat.mul (Nat.mul d d) (Nat.mul d d)

/-- `k` squarings of a fixed-point number, each rounded up -/
def sqUp : Nat → Nat → Nat
  | 0, y => y
  | k + 1, y => forceNat (Nat.add (Nat.shiftRight (Nat.mul y y) 64) 1) (sqUp k)

/-- `k` squarings of a fixed-point number, each rounded down -/
def sqDn : Nat → Nat → Nat
  | 0, y => y
  | k + 1, y => forceNat (Nat.shiftRight (Nat.mul y y) 64) (sqDn k)

/-- `(1 + r + r²/2)·2^64` rounded down, `r = R/2^64` -/
def quad (R : Nat) : Nat := Nat.add (Nat.add ONE R) (Nat.shiftRight (Nat.mul R R) 65)

/-- upper bound of `e^{-s}·2^64` for `s ≥ S/2^64` -/
def enUp (S : Nat) : Nat :=
  sqUp 20 (Nat.add (Nat.div (Nat.mul ONE ONE) (quad (Nat.shiftRight S 20))) 1)

/-- lower bound of `e^{-s}·2^64` for `s ≤ S/2^64` -/
def enLo (S : Nat) : Nat :=
  sqDn 20 (Nat.sub ONE (Nat.add (Nat.shiftRight S 20) 1))

/-- `(x1² + 20.25 d²)·2^64` from `x1·2^26` and `d·2^26` -/
def sArg (x d : Nat) : Nat :=
  Nat.shiftLeft (Nat.add (Nat.mul 4 (Nat.mul x x)) (Nat.mul 81 (Nat.mul d d))) 10

/-- upper bound of `A·2^64` on the box -/
def aUp (a1 b1 a2 b2 : Nat) : Nat :=
  Nat.add (Nat.shiftRight (Nat.mul (Nat.mul (Nat.mul 3 (Nat.mul b1 b1)) EUP)
    (enUp (sArg a1 (nearI (Nat.add a1 U) (Nat.add b1 U) a2 b2)))) 117) 1

/-- lower bound of `A·2^64` on the box -/
def lbA (a1 b1 a2 b2 : Nat) : Nat :=
  Nat.shiftRight (Nat.mul (Nat.mul (Nat.mul 3 (Nat.mul a1 a1)) ELO)
    (enLo (sArg b1 (farI (Nat.add a1 U) (Nat.add b1 U) a2 b2)))) 117

/-- upper bound of `t1·2^64`, `t1 = ((x1-1)/2)^4`, from an upper bound of `|x1-1|·2^26` -/
def t1Up (f : Nat) : Nat := Nat.add (Nat.shiftRight (pow4 f) 44) 1
/-- upper bound of `t2·2^64`, `t2 = (x2-1)^4`, from an upper bound of `|x2-1|·2^26` -/
def t2Up (f : Nat) : Nat := Nat.add (Nat.shiftRight (pow4 f) 40) 1
def t1Dn (n : Nat) : Nat := Nat.shiftRight (pow4 n) 44
def t2Dn (n : Nat) : Nat := Nat.shiftRight (pow4 n) 40

/-- upper bound of `B·2^64` on the box -/
def bUp (a1 b1 a2 b2 : Nat) : Nat :=
  Nat.add (Nat.shiftRight (Nat.mul (Nat.mul (Nat.mul (t1Up (farI a1 b1 U U)) (t2Up (farI a2 b2 (Nat.mul 2 U) (Nat.mul 2 U)))) E2UP)
    (enUp (Nat.add (t1Dn (nearI a1 b1 U U)) (t2Dn (nearI a2 b2 (Nat.mul 2 U) (Nat.mul 2 U)))))) 192) 1

/-- strict upper bound of `(A + B)·2^64` on the box (so `f > -ub/2^64`) -/
def ub (a1 b1 a2 b2 : Nat) : Nat := Nat.add (aUp a1 b1 a2 b2) (bUp a1 b1 a2 b2)

/-- `4·2^104·F1² + C12²·F2² < 4·C12²·2^52` with `F1 ≥ |x1-2|·2^26`, `F2 ≥ |x2|·2^26`: then `g1 > 0` on the box -/
def g1pos (a1 b1 a2 b2 : Nat) : Bool :=
  Nat.blt
    (Nat.add (Nat.mul (Nat.mul 4 (Nat.pow 2 104)) (Nat.mul (farI a1 b1 (Nat.mul 2 U) (Nat.mul 2 U)) (farI a1 b1 (Nat.mul 2 U) (Nat.mul 2 U))))
             (Nat.mul (Nat.mul C12 C12) (Nat.mul (farI a2 b2 U U) (farI a2 b2 U U))))
    (Nat.mul (Nat.mul 4 (Nat.mul C12 C12)) (Nat.pow 2 52))

/-- a rectangle `[r1,s1] × [r2,s2]` in grid units -/
structure Rect where
  r1 : Nat
  s1 : Nat
  r2 : Nat
  s2 : Nat

/-- the box lies inside the rectangle -/
def inR (R : Rect) (a1 b1 a2 b2 : Nat) : Bool :=
  Nat.ble R.r1 a1 && Nat.ble b1 R.s1 && Nat.ble R.r2 a2 && Nat.ble b2 R.s2

/-- the box is disposed of directly -/
def leaf (T : Nat) (R : Rect) (a1 b1 a2 b2 : Nat) : Bool :=
  inR R a1 b1 a2 b2 || g1pos a1 b1 a2 b2 || Nat.blt (ub a1 b1 a2 b2) T

/-- branch and bound: `true` means that every point of the box with `g1 ≤ 0` lies in `R` or has `(A+B)·2^64 < T` -/
def bnb (T : Nat) (R : Rect) : Nat → Nat → Nat → Nat → Nat → Bool
  | 0, a1, b1, a2, b2 => leaf T R a1 b1 a2 b2
  | fuel + 1, a1, b1, a2, b2 =>
    leaf T R a1 b1 a2 b2 ||
      (bif Nat.ble (Nat.sub b2 a2) (Nat.sub b1 a1) then
        Nat.blt (Nat.add a1 1) b1 && forceNat (Nat.div (Nat.add a1 b1) 2) fun m =>
          (bnb T R fuel a1 m a2 b2 && bnb T R fuel m b1 a2 b2)
      else
        Nat.blt (Nat.add a2 1) b2 && forceNat (Nat.div (Nat.add a2 b2) 2) fun m =>
          (bnb T R fuel a1 b1 a2 m && bnb T R fuel a1 b1 m b2))

/-! ### the declared optimum and the certificate constants -/

/-- the metadata row of StronginC3 (family code 7): the last row of the table -/
def metaRow : Gen.MetaRow := Gen.metaDecode Gen.metaRowsPacked.back!

/-- `row`, written so that the kernel evaluates each table row once (measured: 3.5 times faster) -/
def tag (i row : Nat) : Nat := Nat.add row (Nat.sub i i)

/-- the rows of family code `fam` (word 0 of the packed row) among the first `n` rows, in table order -/
def famRows (fam : Nat) : List Nat → Nat → List Nat
  | [], _ => []
  | _ :: _, 0 => []
  | x :: t, n + 1 => bif Nat.beq (Dy.word (tag n x) 0) fam then x :: famRows fam t n else famRows fam t n

/-- the double `0.941176` (both coordinates of the declared point) -/
def pD : Dy := Dy.ofBits 0x3fee1e1d2178f68c
/-- the double `-1.489444` (declared optimum value) -/
def vD : Dy := Dy.ofBits 0xbff7d4c33b539325

/-- `⌊p·2^26⌋`, `⌊(p+1)·2^26⌋` for the declared coordinate `p` -/
def PX : Nat := 63161252
def PY : Nat := 130270116
/-- `⌊(-v + 1e-4)·2^64⌋` and `⌈(-v - 1e-4)·2^64⌉` -/
def VUP : Nat := 27477236954529620171
def VLO : Nat := 27473547605714878261
/-- `⌊-(v - 2e-3·max(1,|v|))·2^64⌋` -/
def TG : Nat := 27530343064682493714
/-- the feasible witness `w = (WX/2^26, WY/2^26 - 1) ≈ (0.94245, 0.94515)` -/
def WX : Nat := 63246749
def WY : Nat := 130536807
/-- the localisation rectangle `[p-0.006, p+0.008] × [p-0.014, p+0.018]` (rounded inward to the grid) -/
def RP : Rect := ⟨62758600, 63698123, 129330593, 131478075⟩
/-- the empty rectangle -/
def R0 : Rect := ⟨1, 0, 1, 0⟩

/-- value clause: `-VUP/2^64 ≤ -ub ≤ f(p) ≤ -lbA ≤ -VLO/2^64` on the grid cell of the declared point -/
def certV : Bool := Nat.ble (ub PX (Nat.add PX 1) PY (Nat.add PY 1)) VUP && Nat.ble VLO (lbA PX (Nat.add PX 1) PY (Nat.add PY 1))
/-- global clause on the whole box `[0,4]×[-1,3]` (no exempt rectangle) -/
def certG : Bool := bnb TG R0 60 0 (Nat.mul 4 U) 0 (Nat.mul 4 U)
/-- location clause: outside `RP` every point with `g1 ≤ 0` has `(A+B) < lbA(w) ≤ A(w) ≤ (A+B)(w)`, i.e. `f > f(w)` -/
def certP : Bool := bnb (lbA WX WX WY WY) RP 60 0 (Nat.mul 4 U) 0 (Nat.mul 4 U)

end S3
