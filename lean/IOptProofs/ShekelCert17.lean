import IOptProofs.BenchShekelDefs
/-! kernel-evaluated C10 certificates of the Shekel functions 850..899 (one block per file, identical template) -/
namespace Shk
set_option maxRecDepth 100000 in
theorem shekel_block_17 : ∀ i ∈ List.range' 850 50, shekelOK i = true := by decide +kernel
end Shk
