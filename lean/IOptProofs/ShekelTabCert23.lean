import IOptProofs.ShekelTabDefs
/-! kernel-evaluated C18 table certificates (min / max / Lipschitz tables) of the Shekel functions 460..479
(one block per file, identical template; four kernel evaluations of 5 rows each keep the memory near 1 GB) -/
namespace Shk
set_option maxRecDepth 100000 in
theorem shekel_tab_block_23_a : ∀ i ∈ List.range' 460 5, shekelTabOK i = true := by decide +kernel
set_option maxRecDepth 100000 in
theorem shekel_tab_block_23_b : ∀ i ∈ List.range' 465 5, shekelTabOK i = true := by decide +kernel
set_option maxRecDepth 100000 in
theorem shekel_tab_block_23_c : ∀ i ∈ List.range' 470 5, shekelTabOK i = true := by decide +kernel
set_option maxRecDepth 100000 in
theorem shekel_tab_block_23_d : ∀ i ∈ List.range' 475 5, shekelTabOK i = true := by decide +kernel
theorem shekel_tab_block_23 : ∀ i ∈ List.range' 460 20, shekelTabOK i = true := by
  intro i hi
  have hi' := List.mem_range'_1.1 hi
  if h1 : i < 465 then exact shekel_tab_block_23_a i (List.mem_range'_1.2 ⟨by omega, by omega⟩) else
  if h2 : i < 470 then exact shekel_tab_block_23_b i (List.mem_range'_1.2 ⟨by omega, by omega⟩) else
  if h3 : i < 475 then exact shekel_tab_block_23_c i (List.mem_range'_1.2 ⟨by omega, by omega⟩) else
  exact shekel_tab_block_23_d i (List.mem_range'_1.2 ⟨by omega, by omega⟩)
end Shk
