import IOptModel.Evolvent
/-!
# Basic definitions and list lemmas for the integer layer of the evolvent model

* `Ev.validDigits`, `Ev.validState`, `Ev.signVec` : well-formedness predicates (decidable).
* `getI` lemmas (`getI_zipWith`, `ext_getI`, ...).
* `Ev.Yc n s ds i` : coordinate `i` of the (scaled) cube point reached from level state `s` by the
  digit list `ds`, in head-recursive form; `Ev.cubeY_getI`/`Ev.cubeY_eq` connect it to `Ev.cubeY`
  under a length hypothesis on the level offsets.
* positional-number lemmas for `Ev.indexOf` / `Ev.digitsOf`.

Only core Lean is used here (no Mathlib), so that every other proof file can import it.
-/

namespace Ev

/-! ## well-formedness predicates -/

/-- every digit is a base-`2^n` digit -/
def validDigits (n : Nat) (ds : List Nat) : Prop := ∀ d ∈ ds, d < 2^n

/-- a vector of `n` signs `±1` -/
def signVec (n : Nat) (o : List Int) : Prop := o.length = n ∧ ∀ w ∈ o, w = 1 ∨ w = -1

/-- a level state of the `n`-dimensional evolvent: `it ∈ [0,n)`, `iw ∈ {±1}^n` -/
def validState (n : Nat) (s : St) : Prop := s.it < n ∧ s.iw.length = n ∧ ∀ w ∈ s.iw, w = 1 ∨ w = -1

instance (n : Nat) (ds : List Nat) : Decidable (validDigits n ds) := by
  unfold validDigits; infer_instance
instance (n : Nat) (o : List Int) : Decidable (signVec n o) := by
  unfold signVec; infer_instance
instance (n : Nat) (s : St) : Decidable (validState n s) := by
  unfold validState; infer_instance

theorem validState_iff (n : Nat) (s : St) : validState n s ↔ s.it < n ∧ signVec n s.iw := Iff.rfl

theorem validDigits_nil (n : Nat) : validDigits n [] := by
  intro d hd; cases hd

theorem validDigits_cons {n d : Nat} {ds : List Nat} :
    validDigits n (d :: ds) ↔ d < 2^n ∧ validDigits n ds := by
  simp only [validDigits, List.mem_cons, forall_eq_or_imp]

theorem validDigits_append {n : Nat} {p r : List Nat} :
    validDigits n (p ++ r) ↔ validDigits n p ∧ validDigits n r := by
  simp only [validDigits, List.mem_append]
  constructor
  · intro h; exact ⟨fun d hd => h d (Or.inl hd), fun d hd => h d (Or.inr hd)⟩
  · rintro ⟨h1, h2⟩ d (hd | hd)
    · exact h1 d hd
    · exact h2 d hd

theorem validDigits_take {n : Nat} {ds : List Nat} (h : validDigits n ds) (p : Nat) :
    validDigits n (ds.take p) := fun d hd => h d (List.mem_of_mem_take hd)

theorem validDigits_drop {n : Nat} {ds : List Nat} (h : validDigits n ds) (p : Nat) :
    validDigits n (ds.drop p) := fun d hd => h d (List.mem_of_mem_drop hd)

theorem validDigits_replicate {n k d : Nat} (h : d < 2^n) : validDigits n (List.replicate k d) := by
  intro x hx; rw [List.mem_replicate] at hx; omega

theorem validState_init {n : Nat} (hn : 0 < n) : validState n (St.init n) := by
  refine ⟨hn, List.length_replicate, ?_⟩
  intro w hw
  have hw' : w ∈ List.replicate n (1 : Int) := hw
  rw [List.mem_replicate] at hw'; exact Or.inl hw'.2

/-! ## `getI` -/

theorem getI_eq_getElem {l : List Int} {i : Nat} (h : i < l.length) : getI l i = l[i] := by
  simp [getI, List.getD_eq_getElem?_getD, List.getElem?_eq_getElem h]

theorem getI_of_le {l : List Int} {i : Nat} (h : l.length ≤ i) : getI l i = 0 := by
  simp [getI, List.getD_eq_getElem?_getD, List.getElem?_eq_none h]

theorem getI_mem {l : List Int} {i : Nat} (h : i < l.length) : getI l i ∈ l := by
  rw [getI_eq_getElem h]; exact List.getElem_mem h

theorem getI_zipWith {f : Int → Int → Int} {a b : List Int} {i : Nat}
    (ha : i < a.length) (hb : i < b.length) :
    getI (List.zipWith f a b) i = f (getI a i) (getI b i) := by
  have h : i < (List.zipWith f a b).length := by simp [List.length_zipWith]; omega
  rw [getI_eq_getElem h, getI_eq_getElem ha, getI_eq_getElem hb, List.getElem_zipWith]

theorem getI_map {f : Int → Int} {a : List Int} {i : Nat} (ha : i < a.length) :
    getI (a.map f) i = f (getI a i) := by
  have h : i < (a.map f).length := by simpa using ha
  rw [getI_eq_getElem h, getI_eq_getElem ha, List.getElem_map]

theorem getI_replicate {n i : Nat} {x : Int} (h : i < n) : getI (List.replicate n x) i = x := by
  have h' : i < (List.replicate n x).length := by simpa using h
  rw [getI_eq_getElem h', List.getElem_replicate]

theorem getI_cons_zero (x : Int) (l : List Int) : getI (x :: l) 0 = x := rfl
theorem getI_cons_succ (x : Int) (l : List Int) (i : Nat) : getI (x :: l) (i+1) = getI l i := rfl

/-- two lists of the same length with the same coordinates are equal -/
theorem ext_getI {n : Nat} {a b : List Int} (ha : a.length = n) (hb : b.length = n)
    (h : ∀ i, i < n → getI a i = getI b i) : a = b := by
  apply List.ext_getElem (by omega)
  intro i h1 h2
  have := h i (by omega)
  rwa [getI_eq_getElem h1, getI_eq_getElem h2] at this

/-- every entry of a list satisfies `P` iff every coordinate does -/
theorem forall_mem_iff_getI {P : Int → Prop} {l : List Int} :
    (∀ y ∈ l, P y) ↔ ∀ i, i < l.length → P (getI l i) := by
  constructor
  · intro h i hi; exact h _ (getI_mem hi)
  · intro h y hy
    obtain ⟨i, hi, rfl⟩ := List.getElem_of_mem hy
    have := h i hi
    rwa [getI_eq_getElem hi] at this

theorem signVec_getI {n : Nat} {o : List Int} (h : signVec n o) {i : Nat} (hi : i < n) :
    getI o i = 1 ∨ getI o i = -1 :=
  h.2 _ (getI_mem (by rw [h.1]; exact hi))

theorem signVec_of_getI {n : Nat} {o : List Int} (hl : o.length = n)
    (h : ∀ i, i < n → getI o i = 1 ∨ getI o i = -1) : signVec n o :=
  ⟨hl, forall_mem_iff_getI.2 (by rw [hl]; exact h)⟩

/-! ## `signs`, `stateAfter` -/

@[simp] theorem signs_nil (n : Nat) (s : St) : signs n s [] = [] := rfl
@[simp] theorem signs_cons (n : Nat) (s : St) (d : Nat) (ds : List Nat) :
    signs n s (d :: ds) = (step n s d).2 :: signs n (step n s d).1 ds := rfl
@[simp] theorem stateAfter_nil (n : Nat) (s : St) : stateAfter n s [] = s := rfl
@[simp] theorem stateAfter_cons (n : Nat) (s : St) (d : Nat) (ds : List Nat) :
    stateAfter n s (d :: ds) = stateAfter n (step n s d).1 ds := rfl

theorem stateAfter_append (n : Nat) (s : St) (p r : List Nat) :
    stateAfter n s (p ++ r) = stateAfter n (stateAfter n s p) r := by
  induction p generalizing s with
  | nil => rfl
  | cons d p ih => simp only [List.cons_append, stateAfter_cons, ih]

theorem signs_length (n : Nat) (s : St) (ds : List Nat) : (signs n s ds).length = ds.length := by
  induction ds generalizing s with
  | nil => rfl
  | cons d ds ih => simp only [signs_cons, List.length_cons, ih]

/-! ## the coordinate sums -/

/-- Coordinate `i` of the cube point (in units of `2^-(m+1)`, `m = ds.length`) reached from level
state `s`: `Σ_j 2^(m-1-j) · (s_j)_i`, head-recursive. -/
def Yc (n : Nat) : St → List Nat → Nat → Int
  | _, [], _ => 0
  | s, d :: ds, i => getI (step n s d).2 i * 2^ds.length + Yc n (step n s d).1 ds i

@[simp] theorem Yc_nil (n : Nat) (s : St) (i : Nat) : Yc n s [] i = 0 := rfl
@[simp] theorem Yc_cons (n : Nat) (s : St) (d : Nat) (ds : List Nat) (i : Nat) :
    Yc n s (d :: ds) i = getI (step n s d).2 i * 2^ds.length + Yc n (step n s d).1 ds i := rfl

/-- splitting the digit list: the prefix part is scaled by `2^|r|` -/
theorem Yc_append (n : Nat) (s : St) (p r : List Nat) (i : Nat) :
    Yc n s (p ++ r) i = Yc n s p i * 2^r.length + Yc n (stateAfter n s p) r i := by
  induction p generalizing s with
  | nil => simp
  | cons d p ih =>
    simp only [List.cons_append, Yc_cons, stateAfter_cons, ih, List.length_append,
      Int.pow_add, Int.add_mul, Int.mul_assoc, Int.add_assoc]

/-- the weighted sum of a list of offset vectors, levels numbered from `k`, as computed by the
`foldl` in `cubeY` -/
def sumC (m : Nat) : List (List Int) → Nat → Nat → Int
  | [], _, _ => 0
  | o :: os, k, i => getI o i * (2:Int)^(m - 1 - k) + sumC m os (k+1) i

theorem foldl_cubeY (n m : Nat) (os : List (List Int)) (hos : ∀ o ∈ os, o.length = n)
    (k : Nat) (acc : List Int) (hacc : acc.length = n) :
    ((os.zipIdx k).foldl
      (fun acc (p : List Int × Nat) =>
        List.zipWith (fun a s => a + s * (2 : Int)^(m - 1 - p.2)) acc p.1) acc).length = n ∧
    ∀ i, i < n → getI ((os.zipIdx k).foldl
      (fun acc (p : List Int × Nat) =>
        List.zipWith (fun a s => a + s * (2 : Int)^(m - 1 - p.2)) acc p.1) acc) i
      = getI acc i + sumC m os k i := by
  induction os generalizing k acc with
  | nil => simp [sumC, hacc]
  | cons o os ih =>
    have ho : o.length = n := hos o (List.mem_cons_self)
    have hos' : ∀ o ∈ os, o.length = n := fun o h => hos o (List.mem_cons_of_mem _ h)
    simp only [List.zipIdx_cons, List.foldl_cons]
    have hl : (List.zipWith (fun a s => a + s * (2 : Int)^(m - 1 - k)) acc o).length = n := by
      simp [List.length_zipWith, hacc, ho]
    obtain ⟨h1, h2⟩ := ih hos' (k+1) _ hl
    refine ⟨h1, fun i hi => ?_⟩
    rw [h2 i hi, getI_zipWith (by omega) (by omega), sumC, Int.add_assoc]

theorem sumC_signs (n : Nat) (s : St) (ds : List Nat) (k i : Nat) :
    sumC (k + ds.length) (signs n s ds) k i = Yc n s ds i := by
  induction ds generalizing s k with
  | nil => rfl
  | cons d ds ih =>
    simp only [signs_cons, sumC, Yc_cons, List.length_cons]
    have e : k + (ds.length + 1) - 1 - k = ds.length := by omega
    have e2 : k + (ds.length + 1) = (k+1) + ds.length := by omega
    rw [e, e2, ih]

/-- `cubeY` in terms of `Yc`, given that all level offsets have length `n` -/
theorem cubeY_getI_of_lengths (n : Nat) (ds : List Nat)
    (h : ∀ o ∈ signs n (St.init n) ds, o.length = n) :
    (cubeY n ds).length = n ∧ ∀ i, i < n → getI (cubeY n ds) i = Yc n (St.init n) ds i := by
  have := foldl_cubeY n ds.length (signs n (St.init n) ds) h 0 (List.replicate n 0)
    List.length_replicate
  refine ⟨this.1, fun i hi => ?_⟩
  have h2 := this.2 i hi
  rw [getI_replicate hi, Int.zero_add] at h2
  have h3 := sumC_signs n (St.init n) ds 0 i
  rw [Nat.zero_add] at h3
  rw [← h3, ← h2]
  rfl

/-! ## positional numbers: `indexOf`, `digitsOf` -/

theorem indexOf_nil (n : Nat) : indexOf n [] = 0 := rfl

theorem indexOf_append_singleton (n : Nat) (ds : List Nat) (d : Nat) :
    indexOf n (ds ++ [d]) = indexOf n ds * 2^n + d := by
  simp [indexOf, List.foldl_append]

theorem foldl_index (B : Nat) (ds : List Nat) (a : Nat) :
    ds.foldl (fun a d => a * B + d) a = a * B^ds.length + ds.foldl (fun a d => a * B + d) 0 := by
  induction ds generalizing a with
  | nil => simp
  | cons d ds ih =>
    simp only [List.foldl_cons, List.length_cons]
    rw [ih (a * B + d), ih (0 * B + d)]
    simp only [Nat.zero_mul, Nat.zero_add, Nat.pow_succ, Nat.add_mul, Nat.add_assoc]
    congr 1
    rw [Nat.mul_assoc, Nat.mul_comm B]

theorem indexOf_cons (n : Nat) (d : Nat) (ds : List Nat) :
    indexOf n (d :: ds) = d * (2^n)^ds.length + indexOf n ds := by
  simp only [indexOf, List.foldl_cons]
  rw [foldl_index]; simp

theorem indexOf_lt {n : Nat} {ds : List Nat} (h : validDigits n ds) :
    indexOf n ds < (2^n)^ds.length := by
  induction ds with
  | nil => simp [indexOf]
  | cons d ds ih =>
    rw [validDigits_cons] at h
    have := ih h.2
    rw [indexOf_cons, List.length_cons, Nat.pow_succ]
    have h1 : d + 1 ≤ 2^n := h.1
    calc d * (2^n)^ds.length + indexOf n ds < d * (2^n)^ds.length + (2^n)^ds.length := by omega
      _ = (d+1) * (2^n)^ds.length := by rw [Nat.add_mul, Nat.one_mul]
      _ ≤ 2^n * (2^n)^ds.length := Nat.mul_le_mul_right _ h1
      _ = (2^n)^ds.length * 2^n := Nat.mul_comm _ _

theorem digitsOf_length (n m i : Nat) : (digitsOf n m i).length = m := by
  simp [digitsOf]

theorem digitsOf_valid (n m i : Nat) : validDigits n (digitsOf n m i) := by
  intro d hd
  simp only [digitsOf, List.mem_map] at hd
  obtain ⟨j, _, rfl⟩ := hd
  exact Nat.mod_lt _ (Nat.two_pow_pos n)

theorem digitsOf_succ (n m i : Nat) :
    digitsOf n (m+1) i = (i / (2^n)^m % 2^n) :: digitsOf n m i := by
  simp only [digitsOf, List.range_succ_eq_map, List.map_cons, List.map_map]
  congr 1
  apply List.map_congr_left
  intro j hj
  simp only [Function.comp, Nat.add_sub_cancel]
  have e : m - (j+1) = m - 1 - j := by omega
  simp [Nat.succ_eq_add_one, e]

/-- the digit list of `i` has index `i mod (2^n)^m` -/
theorem indexOf_digitsOf_mod (n m i : Nat) : indexOf n (digitsOf n m i) = i % (2^n)^m := by
  induction m with
  | zero => simp [digitsOf, indexOf, Nat.mod_one]
  | succ m ih =>
    rw [digitsOf_succ, indexOf_cons, ih, digitsOf_length, Nat.mod_pow_succ]
    rw [Nat.add_comm, Nat.mul_comm]

theorem indexOf_digitsOf {n m i : Nat} (h : i < (2^n)^m) : indexOf n (digitsOf n m i) = i := by
  rw [indexOf_digitsOf_mod, Nat.mod_eq_of_lt h]

/-- `indexOf` is injective on valid digit lists of the same length -/
theorem indexOf_inj {n : Nat} {ds ds' : List Nat} (h : validDigits n ds) (h' : validDigits n ds')
    (hl : ds.length = ds'.length) (he : indexOf n ds = indexOf n ds') : ds = ds' := by
  induction ds generalizing ds' with
  | nil => cases ds' with
    | nil => rfl
    | cons => simp at hl
  | cons d ds ih =>
    cases ds' with
    | nil => simp at hl
    | cons d' ds' =>
      rw [validDigits_cons] at h h'
      simp only [List.length_cons, Nat.add_right_cancel_iff] at hl
      rw [indexOf_cons, indexOf_cons, ← hl] at he
      have b1 := indexOf_lt h.2
      have b2 := indexOf_lt h'.2
      rw [← hl] at b2
      have hP : 0 < (2^n)^ds.length := Nat.pow_pos (Nat.two_pow_pos n)
      have e1 : (d * (2^n)^ds.length + indexOf n ds) / (2^n)^ds.length = d := by
        rw [Nat.mul_comm, Nat.mul_add_div hP, Nat.div_eq_of_lt b1, Nat.add_zero]
      have e2 : (d' * (2^n)^ds.length + indexOf n ds') / (2^n)^ds.length = d' := by
        rw [Nat.mul_comm, Nat.mul_add_div hP, Nat.div_eq_of_lt b2, Nat.add_zero]
      have hd : d = d' := by rw [← e1, ← e2, he]
      subst hd
      have : indexOf n ds = indexOf n ds' := by omega
      rw [ih h.2 h'.2 hl this]

theorem digitsOf_indexOf {n : Nat} {ds : List Nat} (h : validDigits n ds) :
    digitsOf n ds.length (indexOf n ds) = ds := by
  apply indexOf_inj (digitsOf_valid _ _ _) h (digitsOf_length _ _ _)
  exact indexOf_digitsOf (indexOf_lt h)

end Ev
