import IOptProofs.ProcessFail
import IOptProofs.ProcessEvents
import IOptProofs.ProcessResume
import IOptProofs.ProcessRefine
/-!
# An objective that raises during `Solve`, on every route to the failing evaluation

`IOptProofs/ProcessFail.lean` treats `Solve` on a FRESH solver.  Here the `Solve` that meets the failing evaluation starts in
an arbitrary state in which the first iteration has been made (`fail_contained_from`): after batches of
`DoGlobalIteration` calls, or after an earlier `Solve` whose parameters were then changed in place.  For contrast, the
same failure inside a `DoGlobalIteration` call made by the user is NOT contained (`dgi_fail_from`).
-/

set_option linter.unusedSectionVars false

section
variable {α : Type} [Add α] [Sub α] [Mul α] [Div α] [Neg α] [LT α] [LE α]
  [DecidableLT α] [DecidableLE α] [OfNat α 0] [OfNat α 1] [OfNat α 2] [OfNat α 4] [Fns α]

namespace Proc
open AGP AGP.Ctl

/-- what the selection of the failed iteration keeps and what it changes (the clauses of `C16_fail_contained_partial`) -/
theorem prepare_fail_clauses {p : Params α} {s : State α} {pr : Prep α} (hpr : prepare p s = .ok pr) :
    pr.s.items.map Ctl.eraseR = s.items.map Ctl.eraseR ∧ (s.recalc = false → pr.s.items = s.items) ∧
    pr.s.M = s.M ∧ pr.s.Z = s.Z ∧ pr.s.best = s.best ∧
    (findItem pr.s.items pr.s.best).map Ctl.eraseR = (findItem s.items s.best).map Ctl.eraseR ∧
    pr.s.nTrials = s.nTrials ∧ pr.s.iters = s.iters ∧ pr.s.nextId = s.nextId ∧
    pr.s.minDelta = some (minOpt pr.old.delta s.minDelta) ∧
    (∃ key oid, (selState p s).queue = (key, oid) :: pr.s.queue) ∧
    pr.s.recalc = false := by
  obtain ⟨key, oid, q, hq, -, -, hprs, -⟩ := prepare_ok hpr
  obtain ⟨f1, f2, f3, f4, f5, f6, f7, f8, f9⟩ := prepare_ok_fields hpr
  have hitems : pr.s.items.map Ctl.eraseR = s.items.map Ctl.eraseR := by rw [f8]; exact recalcAll_items_eraseR p s
  refine ⟨hitems, fun h => by rw [f8]; exact recalcAll_items_of_not_recalc p s h, f5, f6, f7, ?_, f2, f1, f3, f4,
    ⟨key, oid, ?_⟩, f9⟩
  · rw [f7]; exact findItem_eraseR hitems _
  · rw [hq, hprs]

/-- the number of trials reported after `Solve` from ANY state is the number before plus the length of the run prefix it followed -/
theorem solve_nTrials_from {p : Params α} {g : Nat → List α → Option α} {refine : PState α → Option (LocalResult α)}
    (ps : PState α) :
    ∃ K psK ids, RunPrefix p g ps K psK ids ∧ (solve p g refine ps).nTrials = ps.nTrials + K := by
  have hfuel : remaining p ps < p.itersLimit + 1 := Nat.lt_succ_of_le (remaining_le p _)
  obtain ⟨K, psK, ids, hpre, hcase⟩ := solveLoop_spec p g _ ps hfuel
  have hK : psK.nTrials = ps.nTrials + K := (iterN_counters hpre.run).2.1
  refine ⟨K, psK, ids, hpre, ?_⟩
  rw [solve_eq]
  show (refineStep refine _).nTrials = _
  rw [(refineStep_fields (p := p) refine _).2.2.2.2.1]
  rcases hcase with ⟨-, -, X, hsl, hc, -⟩ | ⟨-, pe, e, X, herr, -, hsl, hc, -⟩
  · rw [hsl]; show X.nTrials = _
    rw [← hK]; simp [PState.nTrials, (PState.core_eq_iff.1 hc).1]
  · rw [hsl]; show X.nTrials = _
    rw [← hK, ← (oneIteration_error_counters herr).2.1]; simp [PState.nTrials, (PState.core_eq_iff.1 hc).1]

/-- **Failure containment from any state.**  `Solve` is called in a state `ps`.
The objective `f` raises at call index `ps.calls + i` (the `(i+1)`-th evaluation made inside this `Solve`, not the first
iteration ever: `ps.m ≠ none ∨ 0 < i`); `g` agrees with
`f` at the `i` call indices before, and the `g`-run of this `Solve` makes at least `i + 1` trials.  Then `Solve` with `f` makes
`i` iterations (those of the `g`-run), its `(i+1)`-th iteration selects (`pr`) and fails, and the `try` block ends in the state
described explicitly: method state `pr.s`, no new record, one more call, one `OnEndIteration` per completed iteration and the
printed line. -/
theorem fail_contained_from {p : Params α} {f g : Nat → List α → Option α} {ps : PState α} {i : Nat}
    (hm : ps.m ≠ none ∨ 0 < i) (hf : ∀ pt, f (ps.calls + i) pt = none)
    (hg : ∀ j pt, ps.calls ≤ j → j < ps.calls + i → g j pt = f j pt)
    {refine' : PState α → Option (LocalResult α)}
    (hK : ps.nTrials + i + 1 ≤ (solve p g refine' ps).nTrials) :
    ∃ psi ids s pr, RunPrefix p g ps i psi ids ∧ RunPrefix p f ps i psi ids ∧
      psi.m = some s ∧ prepare p s = .ok pr ∧ stopNow p psi = false ∧ psi.log = ps.log ++ firstMark ps i ∧
      ∀ refine : PState α → Option (LocalResult α),
        solve p f refine ps =
          (refineStep refine
            { m := some pr.s, log := ps.log ++ firstMark ps i ++ endEach ids ++ [Event.exceptionPrinted],
              evals := psi.evals, nLocal := ps.nLocal, calls := ps.calls + i + 1, refined := ps.refined }).appendLog
          [Event.methodStop (stopCond p pr.s)] := by
  obtain ⟨K, psK, idsK, hpreG, hKn⟩ := solve_nTrials_from (p := p) (g := g) (refine := refine') ps
  rw [hKn] at hK
  obtain ⟨psi, ids, ps', id, hpreg, hst, hog⟩ := hpreG.take i (by omega)
  have hpref : RunPrefix p f ps i psi ids := hpreg.oracle_congr (fun j pt h1 h2 => (hg j pt h1 h2).symm)
  obtain ⟨-, -, c3, -, -, c6, -⟩ := iterN_counters hpreg.run
  have hmi : psi.m ≠ none := by
    rcases hm with hm | hm
    · exact (iterN_ok_some hm hpreg.run).1
    · exact iterN_m_ne_none hpreg.run hm
  have hlog := iterN_log hpreg.run
  obtain ⟨-, -, pt, z, -, -, hh⟩ := oneIteration_ok hog
  rcases hh with ⟨hm', -⟩ | ⟨s, pr, hms, hpr, -, -, -, -⟩
  · exact absurd hm' hmi
  have hfail : f psi.calls pr.point = none := by rw [c3]; exact hf _
  have hle : i + 1 ≤ p.itersLimit := by
    have := (hpreG.iters_le).2 (by omega)
    omega
  refine ⟨psi, ids, s, pr, hpreg, hpref, hms, hpr, hst, hlog, fun refine => ?_⟩
  have hX : (solveLoop p f (p.itersLimit + 1) ps).1 =
      { m := some pr.s, log := ps.log ++ firstMark ps i ++ endEach ids ++ [Event.exceptionPrinted],
        evals := psi.evals, nLocal := ps.nLocal, calls := ps.calls + i + 1, refined := ps.refined } := by
    have hrf : psi.refined = ps.refined := iterN_ok_refined hpreg.run
    have hfuel : p.itersLimit + 1 = i + ((p.itersLimit - i) + 1) := by omega
    rw [hfuel, solveLoop_skip _ _ _ _ _ hpref, solveLoop_succ]
    have hst' : stopNow p (psi.appendLog (endEach ids)) = false := hst
    rw [hst']
    simp only [Bool.false_eq_true, if_false]
    rw [oneIteration_eq]
    simp only [PState.appendLog_m, PState.appendLog_calls, hms, hpr, hfail]
    simp [PState.appendLog, hlog, c3, c6, hrf]
  rw [solve_eq, hX, (refineStep_fields (p := p) refine _).2.2.2.2.2.2.2.1]
  rfl

/-! ### batches of `DoGlobalIteration` calls -/

theorem doGlobalIteration_oracle_congr {p : Params α} {f g : Nat → List α → Option α} {n : Nat} {ps : PState α}
    (h : ∀ j pt, ps.calls ≤ j → j < ps.calls + n → f j pt = g j pt) (saved : List Nat) :
    doGlobalIteration p f n ps saved = doGlobalIteration p g n ps saved := by
  rw [doGlobalIteration_eq, doGlobalIteration_eq, iterN_oracle_congr h]

/-- batches that do not raise only look at the oracle at the call indices they use (and never at the refinement) -/
theorem runOps_batches_congr {p : Params α} {f g : Nat → List α → Option α}
    {r r' : PState α → Option (LocalResult α)} (bs : List Nat) {ps ps' : PState α} {ids : List Nat}
    (h0 : iterN p g bs.sum ps = .ok (ps', ids))
    (h : ∀ j pt, ps.calls ≤ j → j < ps.calls + bs.sum → f j pt = g j pt) :
    runOps p f r (bs.map Op.iter) ps = runOps p g r' (bs.map Op.iter) ps := by
  induction bs generalizing ps ps' ids with
  | nil => rfl
  | cons b bs ih =>
    rw [List.sum_cons, iterN_add] at h0
    split at h0
    · cases h0
    · next ps1 ids1 h1 =>
      split at h0
      · cases h0
      · next ps2 ids2 h2 =>
        rw [List.sum_cons] at h
        simp only [List.map_cons, runOps, runOp]
        rw [doGlobalIteration_oracle_congr (f := f) (g := g) (fun j pt a b => h j pt a (by omega))]
        rw [doGlobalIteration_eq, h1]
        simp only [List.nil_append]
        obtain ⟨ps2', h2', -⟩ := iterN_congr_ok (ps := ps1) (ps' := ps1.appendLog [Event.endIteration ids1])
          (PState.appendLog_core _ _).symm h2
        have hc1 : ps1.calls = ps.calls + b := (iterN_counters h1).2.2.1
        refine ih (ps := ps1.appendLog [Event.endIteration ids1]) h2' (fun j pt a b => h j pt ?_ ?_)
        · simp only [PState.appendLog_calls] at a; omega
        · simp only [PState.appendLog_calls] at b; omega

/-- the reported quantities of the state after batches that do not raise -/
theorem batches_fields {p : Params α} {f : Nat → List α → Option α} {r : PState α → Option (LocalResult α)}
    (bs : List Nat) {ps0 : PState α} {ids0 : List Nat} (h0 : iterN p f bs.sum {} = .ok (ps0, ids0)) :
    (runOps p f r (bs.map Op.iter) {}).core = ps0.core ∧
    (runOps p f r (bs.map Op.iter) {}).calls = bs.sum ∧ (runOps p f r (bs.map Op.iter) {}).nTrials = bs.sum ∧
    (runOps p f r (bs.map Op.iter) {}).nLocal = 0 ∧ (runOps p f r (bs.map Op.iter) {}).nextId = bs.sum + 2 ∧
    (1 ≤ bs.sum → (runOps p f r (bs.map Op.iter) {}).m ≠ none) := by
  have hc := batches_sum (refine := r) bs h0
  obtain ⟨x1, x2, x3, x4, x5, x6⟩ := fields_of_core hc
  obtain ⟨-, c2, c3, -, -, c6, -⟩ := iterN_counters h0
  have hn := (iterN_ids_evals h0).2.1
  refine ⟨hc, ?_, ?_, ?_, ?_, ?_⟩
  · rw [x5, c3]; exact Nat.zero_add _
  · rw [x1, c2]; exact Nat.zero_add _
  · rw [(PState.core_eq_iff.1 hc).2.2.1, c6]
  · simp only [PState.nextId, x6]
    have : ps0.nextId = 2 + bs.sum := hn
    simp only [PState.nextId] at this
    omega
  · intro h1
    rw [x6]; exact iterN_m_ne_none h0 (by omega)

/-! ### the loop of `Solve` only looks at the oracle at the call indices it uses -/

/-- a `try` block that ends normally: the run prefix it followed, and the state it ends in -/
theorem solveLoop_normal_spec {p : Params α} {f : Nat → List α → Option α} {fuel : Nat} {ps : PState α}
    (hfuel : remaining p ps < fuel) (hnr : (solveLoop p f fuel ps).2 = false) :
    ∃ K psK ids, RunPrefix p f ps K psK ids ∧ stopNow p psK = true ∧
      (solveLoop p f fuel ps).1 = psK.appendLog (endEach ids) := by
  obtain ⟨K, psK, ids, hpre, hcase⟩ := solveLoop_spec p f fuel ps hfuel
  rcases hcase with ⟨hst, -, ps', hsl, hc, hl⟩ | ⟨-, pe, e, ps', -, -, hsl, -, -⟩
  · exact ⟨K, psK, ids, hpre, hst, by rw [hsl]; exact PState.ext_core_log hc hl⟩
  · rw [hsl] at hnr; cases hnr

/-- the loop of `Solve` along a run prefix at whose end the criterion holds -/
theorem solveLoop_of_prefix_stop {p : Params α} {f : Nat → List α → Option α} {ps psj : PState α} {j : Nat} {ids : List Nat}
    (hpre : RunPrefix p f ps j psj ids) (hst : stopNow p psj = true) (fuel : Nat) :
    solveLoop p f (j + (fuel + 1)) ps = (psj.appendLog (endEach ids), false) := by
  rw [solveLoop_skip _ _ _ _ _ hpre]
  exact solveLoop_of_stop _ (by rw [stopNow_congr (PState.appendLog_core _ _)]; exact hst)

/-- a `Solve` that ends normally after `K` iterations only looks at the oracle at the `K` call indices it uses -/
theorem solve_normal_oracle_congr {p : Params α} {f g : Nat → List α → Option α} {ps : PState α}
    (hnr : (solveLoop p f (p.itersLimit + 1) ps).2 = false) (refine : PState α → Option (LocalResult α))
    (hg : ∀ j pt, ps.calls ≤ j → j < ps.calls + ((solve p f refine ps).nTrials - ps.nTrials) → g j pt = f j pt) :
    ∃ K psK ids, RunPrefix p f ps K psK ids ∧ RunPrefix p g ps K psK ids ∧ stopNow p psK = true ∧
      (solve p f refine ps).nTrials = ps.nTrials + K ∧
      ∀ refine' : PState α → Option (LocalResult α),
        solve p g refine' ps = solve p f refine' ps ∧
        solve p f refine' ps = (refineStep refine' (psK.appendLog (endEach ids))).appendLog [Event.methodStop true] := by
  have hfuel : remaining p ps < p.itersLimit + 1 := Nat.lt_succ_of_le (remaining_le p _)
  obtain ⟨K, psK, ids, hpre, hst, hsl⟩ := solveLoop_normal_spec hfuel hnr
  have hst' : stopNow p (psK.appendLog (endEach ids)) = true := by
    rw [stopNow_congr (PState.appendLog_core _ _)]; exact hst
  have hsolve : ∀ refine' : PState α → Option (LocalResult α),
      solve p f refine' ps = (refineStep refine' (psK.appendLog (endEach ids))).appendLog [Event.methodStop true] := by
    intro refine'
    rw [solve_eq, hsl, (refineStep_fields (p := p) refine' _).2.2.2.2.2.2.2.1, hst']
  have hnt : (solve p f refine ps).nTrials = ps.nTrials + K := by
    rw [hsolve refine]
    show (refineStep refine _).nTrials = _
    rw [(refineStep_fields (p := p) refine _).2.2.2.2.1]
    exact (iterN_counters hpre.run).2.1
  have hpreg : RunPrefix p g ps K psK ids := by
    refine hpre.oracle_congr (fun j pt h1 h2 => hg j pt h1 ?_)
    rw [hnt]; omega
  have hle : K ≤ p.itersLimit := by
    rcases Nat.eq_zero_or_pos K with rfl | h
    · exact Nat.zero_le _
    · have := hpre.iters_le.2 h
      omega
  refine ⟨K, psK, ids, hpre, hpreg, hst, hnt, fun refine' => ⟨?_, hsolve refine'⟩⟩
  rw [hsolve refine', solve_eq]
  have hfuel' : p.itersLimit + 1 = K + ((p.itersLimit - K) + 1) := by omega
  rw [hfuel', solveLoop_of_prefix_stop hpreg hst]
  simp only []
  rw [(refineStep_fields (p := p) refine' _).2.2.2.2.2.2.2.1, hst']

/-! ### route 1: batches of `DoGlobalIteration` calls, then `Solve` -/

/-- **Failure containment after batches.**  On a fresh solver the batches `DoGlobalIteration(b)`, `b ∈ bs`, make
`1 ≤ Σ b ≤ k - 1` trials without raising; then `Solve` is called; `f` raises exactly at call index `k - 1`; the `g`-run of the
same operations makes at least `k` trials.  `psk` (method state `s`) is state `k - 1` of the canonical sequence of `g` from a
fresh solver, `pr` the selection of its `k`-th pass. -/
theorem fail_after_batches {p : Params α} {f g : Nat → List α → Option α} {k : Nat} (hk : 2 ≤ k)
    (hf : ∀ j pt, f j pt = none ↔ j = k - 1) (hg : ∀ j pt, j ≠ k - 1 → g j pt = f j pt)
    (bs : List Nat) (hj1 : 1 ≤ bs.sum) (hjk : bs.sum ≤ k - 1)
    {ps0 : PState α} {ids0 : List Nat} (h0 : iterN p g bs.sum {} = .ok (ps0, ids0))
    {refine' : PState α → Option (LocalResult α)}
    (hK : k ≤ (runOps p g refine' (bs.map Op.iter ++ [Op.solve]) {}).nTrials) :
    ∃ psk s pr, iterN p g (k - 1) {} = .ok (psk, List.range' 2 (k - 1)) ∧
      iterN p f (k - 1) {} = .ok (psk, List.range' 2 (k - 1)) ∧
      psk.m = some s ∧ prepare p s = .ok pr ∧ f (k - 1) pr.point = none ∧
      psk.evals.length = k - 1 ∧ s.nTrials = k - 1 ∧ s.iters = k - 1 ∧ stopNow p psk = false ∧
      (∀ r r' : PState α → Option (LocalResult α),
        runOps p f r (bs.map Op.iter) {} = runOps p g r' (bs.map Op.iter) {}) ∧
      (∀ r : PState α → Option (LocalResult α),
        (runOps p f r (bs.map Op.iter) {}).nTrials = bs.sum ∧ (runOps p f r (bs.map Op.iter) {}).calls = bs.sum ∧
        (runOps p f r (bs.map Op.iter) {}).core = ps0.core) ∧
      ∀ refine : PState α → Option (LocalResult α),
        runOps p f refine (bs.map Op.iter ++ [Op.solve]) {} =
          (refineStep refine
            { m := some pr.s,
              log := (runOps p f (fun _ => none) (bs.map Op.iter) {}).log ++
                endEach (List.range' (bs.sum + 2) (k - 1 - bs.sum)) ++ [Event.exceptionPrinted],
              evals := psk.evals, nLocal := 0, calls := k }).appendLog
          [Event.methodStop (stopCond p pr.s)] := by
  have h0c : ({} : PState α).calls = 0 := rfl
  have hcong : ∀ r r' : PState α → Option (LocalResult α),
      runOps p f r (bs.map Op.iter) {} = runOps p g r' (bs.map Op.iter) {} := by
    intro r r'
    refine runOps_batches_congr bs h0 (fun j pt h1 h2 => ?_)
    rw [h0c] at h2
    exact (hg j pt (by omega)).symm
  have hB : ∀ r, runOps p f r (bs.map Op.iter) {} = runOps p f (fun _ => none) (bs.map Op.iter) {} :=
    fun r => (hcong r (fun _ => none)).trans (hcong (fun _ => none) (fun _ => none)).symm
  obtain ⟨b1, b2, b3, b4, b5, b6⟩ := batches_fields (r := fun _ => none) bs h0
  rw [← hcong (fun _ => none) (fun _ => none)] at b1 b2 b3 b4 b5 b6
  have hK' : (runOps p f (fun _ => none) (bs.map Op.iter) {}).nTrials + (k - 1 - bs.sum) + 1 ≤
      (solve p g refine' (runOps p f (fun _ => none) (bs.map Op.iter) {})).nTrials := by
    rw [runOps_append] at hK
    simp only [runOps, runOp] at hK
    rw [← hcong (fun _ => none) refine'] at hK
    rw [b3]; omega
  obtain ⟨psi, ids, s, pr, hpreg, hpref, hms, hpr, hst, hlog, hsolve⟩ :=
    fail_contained_from (p := p) (f := f) (g := g) (ps := runOps p f (fun _ => none) (bs.map Op.iter) {})
      (i := k - 1 - bs.sum) (.inl (b6 hj1))
      (fun pt => (hf _ pt).2 (by rw [b2]; omega))
      (fun j pt h1 h2 => hg j pt (by rw [b2] at h2; omega)) hK'
  obtain ⟨psk, hrunk, hck⟩ := iterN_congr_ok b1 hpreg.run
  have hsum : bs.sum + (k - 1 - bs.sum) = k - 1 := by omega
  have hrun : iterN p g (k - 1) {} = .ok (psk, ids0 ++ ids) := by
    rw [← hsum, iterN_add, h0]; simp only []; rw [hrunk]
  have hids : ids0 ++ ids = List.range' 2 (k - 1) := (iterN_ids_evals hrun).1
  have hids' : ids = List.range' (bs.sum + 2) (k - 1 - bs.sum) := by
    rw [(iterN_ids_evals hpreg.run).1, b5]
  rw [hids] at hrun
  have hrunf : iterN p f (k - 1) {} = .ok (psk, List.range' 2 (k - 1)) := by
    rw [iterN_oracle_congr (f := f) (g := g) (fun j pt h1 h2 => (hg j pt (by rw [h0c] at h2; omega)).symm)]
    exact hrun
  obtain ⟨x1, x2, -, x4, -, x6⟩ := fields_of_core hck
  obtain ⟨c1, c2, -, c4, -⟩ := iterN_counters hrun
  have hmk : psk.m = some s := by rw [x6]; exact hms
  have hnt : s.nTrials = k - 1 := by
    have : psk.nTrials = 0 + (k - 1) := c2
    simp only [PState.nTrials, hmk] at this; omega
  have hit : s.iters = k - 1 := by
    have : psk.iters = 0 + (k - 1) := c1
    simp only [PState.iters, hmk] at this; omega
  refine ⟨psk, s, pr, hrun, hrunf, hmk, hpr, (hf _ _).2 rfl, by rw [c4]; exact Nat.zero_add _, hnt, hit,
    by rw [stopNow_congr hck]; exact hst, hcong, fun r => ?_, fun refine => ?_⟩
  · rw [hB r]; exact ⟨b3, b2, b1⟩
  · rw [runOps_append]
    simp only [runOps, runOp]
    have hrf : (runOps p f (fun _ => none) (bs.map Op.iter) {}).refined = none := by
      rw [(PState.core_eq_iff.1 b1).2.2.2.2]; exact iterN_ok_refined h0
    rw [hB refine, hsolve refine, x4, b4, b2, hrf, ← hids', firstMark_of_some (b6 hj1), List.append_nil]
    have : bs.sum + (k - 1 - bs.sum) + 1 = k := by omega
    rw [this]

/-! ### route 2: a `Solve` that ended normally, parameters changed in place, `Solve` again -/

/-- **Failure containment in a resumed `Solve`.**  A first `Solve` (parameters `p1`) on a fresh solver ends normally after
`k - 1` trials; `Solve` is called again with parameters `p2`; `f` raises exactly at call index `k - 1`, which is the first
evaluation of the second `Solve`; the `g`-run of the same two calls makes at least `k` trials. -/
theorem fail_in_resumed_solve {p1 p2 : Params α} {f g : Nat → List α → Option α} {k : Nat} (hk : 2 ≤ k)
    (hf : ∀ j pt, f j pt = none ↔ j = k - 1) (hg : ∀ j pt, j ≠ k - 1 → g j pt = f j pt)
    {refine1 : PState α → Option (LocalResult α)}
    (hnr1 : (solveLoop p1 f (p1.itersLimit + 1) {}).2 = false)
    (hK1 : (solve p1 f refine1 {}).nTrials = k - 1)
    {refine2' : PState α → Option (LocalResult α)}
    (hK : k ≤ (solve p2 g refine2' (solve p1 g refine1 {})).nTrials) :
    ∃ psk s pr, iterN p1 g (k - 1) {} = .ok (psk, List.range' 2 (k - 1)) ∧
      iterN p1 f (k - 1) {} = .ok (psk, List.range' 2 (k - 1)) ∧
      stopNow p1 psk = true ∧ psk.log = [Event.beforeStart] ∧ psk.evals.length = k - 1 ∧
      (∀ r : PState α → Option (LocalResult α), solve p1 g r {} = solve p1 f r {} ∧
        solve p1 f r {} =
          (refineStep r (psk.appendLog (endEach (List.range' 2 (k - 1))))).appendLog [Event.methodStop true]) ∧
      (solve p1 f refine1 {}).m = some s ∧ prepare p2 s = .ok pr ∧ f (k - 1) pr.point = none ∧
      stopNow p2 (solve p1 f refine1 {}) = false ∧
      (solve p1 f refine1 {}).calls = k - 1 ∧ (solve p1 f refine1 {}).evals = psk.evals ∧
      ∀ refine2 : PState α → Option (LocalResult α),
        solve p2 f refine2 (solve p1 f refine1 {}) =
          (refineStep refine2
            { m := some pr.s, log := (solve p1 f refine1 {}).log ++ [Event.exceptionPrinted],
              evals := psk.evals, nLocal := (solve p1 f refine1 {}).nLocal, calls := k,
              refined := (solve p1 f refine1 {}).refined }).appendLog
          [Event.methodStop (stopCond p2 pr.s)] := by
  have h0c : ({} : PState α).calls = 0 := rfl
  have h0n : ({} : PState α).nTrials = 0 := rfl
  obtain ⟨K, psK, ids, hpre, hpreg, hst, hnt, hall⟩ :=
    solve_normal_oracle_congr (p := p1) (f := f) (g := g) (ps := {}) hnr1 refine1
      (fun j pt _ h2 => hg j pt (by rw [h0c, h0n, hK1] at h2; omega))
  have hKk : K = k - 1 := by rw [hK1, h0n] at hnt; omega
  subst hKk
  have hids : ids = List.range' 2 (k - 1) := (iterN_ids_evals hpre.run).1
  subst hids
  obtain ⟨-, c2, c3, c4, -, c6, -⟩ := iterN_counters hpre.run
  have hlogk : psK.log = [Event.beforeStart] := by
    rw [iterN_log hpre.run, firstMark_of_none rfl (by omega)]; rfl
  have hmK : psK.m ≠ none := iterN_m_ne_none hpre.run (by omega)
  obtain ⟨-, r2, r3, -, r5, -, -, -, r9⟩ :=
    refineStep_fields (p := p2) refine1 (psK.appendLog (endEach (List.range' 2 (k - 1))))
  have hS1 := (hall refine1).2
  have hm1 : (solve p1 f refine1 {}).m ≠ none := by
    rw [hS1]; intro h; exact hmK (r9.1 h)
  have hcalls : (solve p1 f refine1 {}).calls = k - 1 := by
    rw [hS1, PState.appendLog_calls, r3, PState.appendLog_calls, c3, h0c]; omega
  have hevals : (solve p1 f refine1 {}).evals = psK.evals := by
    rw [hS1, PState.appendLog_evals, r2, PState.appendLog_evals]
  have hK' : (solve p1 f refine1 {}).nTrials + 0 + 1 ≤ (solve p2 g refine2' (solve p1 f refine1 {})).nTrials := by
    rw [(hall refine1).1] at hK
    rw [hK1]; omega
  obtain ⟨psi, ids', s, pr, hpreg2, -, hms, hpr, hst2, -, hsolve⟩ :=
    fail_contained_from (p := p2) (f := f) (g := g) (ps := solve p1 f refine1 {}) (i := 0) (.inl hm1)
      (fun pt => (hf _ pt).2 (by rw [hcalls]; omega)) (fun j pt h1 h2 => by omega) hK'
  have h00 := hpreg2.run
  simp only [iterN, Except.ok.injEq, Prod.mk.injEq] at h00
  obtain ⟨rfl, rfl⟩ := h00
  refine ⟨psK, s, pr, hpreg.run, hpre.run, hst, hlogk, by rw [c4]; exact Nat.zero_add _, hall, hms, hpr,
    (hf _ _).2 rfl, hst2, hcalls, hevals, fun refine2 => ?_⟩
  rw [hsolve refine2, hcalls, hevals, firstMark_of_some hm1]
  have : k - 1 + 0 + 1 = k := by omega
  rw [this]
  simp [endEach]

/-! ### the failure inside a `DoGlobalIteration` call made by the user propagates -/

/-- **No containment outside `Solve`.**  `DoGlobalIteration(n)` is called in a state `ps`; the objective `f` raises at call
index `ps.calls + i`, `i < n` (the `(i+1)`-th evaluation of this call, not the first iteration ever); `g` agrees with
`f` at the `i` indices before and the canonical sequence of `g` makes `i + 1` passes from `ps`.  Then the call returns the
exception of the objective; the state left behind is that after the `i` completed passes (`psi`: their trials are recorded),
with the selection of the failed pass applied (`pr.s`) and one more call; nothing is appended to the event log but
`BeforeMethodStart` if this call made the first iteration ever (`firstMark`) — in particular no `OnEndIteration` for this
call, so the `i` new trials are reported by no notification. -/
theorem dgi_fail_from {p : Params α} {f g : Nat → List α → Option α} {ps ps' : PState α} {n i : Nat} {ids' : List Nat}
    (hm : ps.m ≠ none ∨ 0 < i) (hi : i < n) (hf : ∀ pt, f (ps.calls + i) pt = none)
    (hg : ∀ j pt, ps.calls ≤ j → j < ps.calls + i → g j pt = f j pt)
    (hrun : iterN p g (i + 1) ps = .ok (ps', ids')) (saved : List Nat) :
    ∃ psi ids s pr, iterN p g i ps = .ok (psi, ids) ∧ iterN p f i ps = .ok (psi, ids) ∧
      psi.m = some s ∧ prepare p s = .ok pr ∧ psi.log = ps.log ++ firstMark ps i ∧
      doGlobalIteration p f n ps saved =
        { s := { m := some pr.s, log := ps.log ++ firstMark ps i, evals := psi.evals, nLocal := ps.nLocal,
                 calls := ps.calls + i + 1, refined := ps.refined },
          raised := some .objective } := by
  rw [iterN_succ'] at hrun
  split at hrun
  · cases hrun
  · next psi ids hgi =>
    split at hrun
    · cases hrun
    · next ps1 id hog =>
      have hfi : iterN p f i ps = .ok (psi, ids) := by
        rw [iterN_oracle_congr (f := f) (g := g) (fun j pt h1 h2 => (hg j pt h1 h2).symm)]; exact hgi
      obtain ⟨-, -, c3, -, -, c6, -⟩ := iterN_counters hgi
      have hrf : psi.refined = ps.refined := iterN_ok_refined hgi
      have hmi : psi.m ≠ none := by
        rcases hm with hm | hm
        · exact (iterN_ok_some hm hgi).1
        · exact iterN_m_ne_none hgi hm
      have hlog := iterN_log hgi
      obtain ⟨-, -, pt, z, -, -, hh⟩ := oneIteration_ok hog
      rcases hh with ⟨hm', -⟩ | ⟨s, pr, hms, hpr, -, -, -, -⟩
      · exact absurd hm' hmi
      have hfail : f psi.calls pr.point = none := by rw [c3]; exact hf _
      refine ⟨psi, ids, s, pr, hgi, hfi, hms, hpr, hlog, ?_⟩
      have hn : n = i + ((n - i - 1) + 1) := by omega
      rw [doGlobalIteration_eq, hn, iterN_add, hfi]
      simp only []
      rw [iterN, oneIteration_eq]
      simp only [hms, hpr, hfail]
      cases psi with
      | mk m log evals nLocal calls refined =>
        simp only at hlog c3 c6 hrf
        simp [hlog, c3, c6, hrf]

/-- passes made after batches are passes of the canonical sequence from a fresh solver -/
theorem canonical_of_batches {p : Params α} {g : Nat → List α → Option α} {r : PState α → Option (LocalResult α)}
    (bs : List Nat) {ps0 : PState α} {ids0 : List Nat} (h0 : iterN p g bs.sum {} = .ok (ps0, ids0))
    {i : Nat} {psi : PState α} {ids : List Nat}
    (hi : iterN p g i (runOps p g r (bs.map Op.iter) {}) = .ok (psi, ids)) :
    ∃ psk, iterN p g (bs.sum + i) {} = .ok (psk, List.range' 2 (bs.sum + i)) ∧ psk.core = psi.core ∧
      ids = List.range' (bs.sum + 2) i := by
  obtain ⟨b1, -, -, -, b5, -⟩ := batches_fields (r := r) bs h0
  obtain ⟨psk, hrunk, hck⟩ := iterN_congr_ok b1 hi
  have hrun : iterN p g (bs.sum + i) {} = .ok (psk, ids0 ++ ids) := by
    rw [iterN_add, h0]; simp only []; rw [hrunk]
  have hids : ids0 ++ ids = List.range' 2 (bs.sum + i) := (iterN_ids_evals hrun).1
  rw [hids] at hrun
  exact ⟨psk, hrun, hck, by rw [(iterN_ids_evals hi).1, b5]⟩

/-- **The failure propagates out of a `DoGlobalIteration` call made after batches.**  On a fresh solver the batches
`DoGlobalIteration(b)`, `b ∈ bs`, make `Σ b ≤ k - 1` trials (possibly none); then `DoGlobalIteration(n)` is called with
`k ≤ Σ b + n`, so that the `k`-th evaluation, at which `f` raises, is made inside this call; the canonical sequence of `g`
makes `k` passes. -/
theorem fail_dgi_after_batches {p : Params α} {f g : Nat → List α → Option α} {k : Nat} (hk : 2 ≤ k)
    (hf : ∀ j pt, f j pt = none ↔ j = k - 1) (hg : ∀ j pt, j ≠ k - 1 → g j pt = f j pt)
    (bs : List Nat) (n : Nat) (hjk : bs.sum ≤ k - 1) (hn : k ≤ bs.sum + n)
    {psk' : PState α} {ids' : List Nat} (hrun : iterN p g k {} = .ok (psk', ids')) (saved : List Nat) :
    ∃ psk s pr, iterN p g (k - 1) {} = .ok (psk, List.range' 2 (k - 1)) ∧
      iterN p f (k - 1) {} = .ok (psk, List.range' 2 (k - 1)) ∧
      psk.m = some s ∧ prepare p s = .ok pr ∧ f (k - 1) pr.point = none ∧
      psk.evals.length = k - 1 ∧ s.nTrials = k - 1 ∧ s.iters = k - 1 ∧
      (∀ r r' : PState α → Option (LocalResult α),
        runOps p f r (bs.map Op.iter) {} = runOps p g r' (bs.map Op.iter) {}) ∧
      (∀ r : PState α → Option (LocalResult α),
        (runOps p f r (bs.map Op.iter) {}).nTrials = bs.sum ∧ (runOps p f r (bs.map Op.iter) {}).calls = bs.sum) ∧
      ∀ r : PState α → Option (LocalResult α),
        doGlobalIteration p f n (runOps p f r (bs.map Op.iter) {}) saved =
          { s := { m := some pr.s,
                   log := (runOps p f r (bs.map Op.iter) {}).log ++ (if bs.sum = 0 then [Event.beforeStart] else []),
                   evals := psk.evals, nLocal := 0, calls := k },
            raised := some .objective } := by
  have h0c : ({} : PState α).calls = 0 := rfl
  have hsplit : k = bs.sum + ((k - 1 - bs.sum) + 1) := by omega
  have hrun' := hrun
  rw [hsplit, iterN_add] at hrun'
  split at hrun'
  · cases hrun'
  · next ps0 ids0 h0 =>
    split at hrun'
    · cases hrun'
    · next ps1 ids1 h1 =>
      clear hrun'
      have hcong : ∀ r r' : PState α → Option (LocalResult α),
          runOps p f r (bs.map Op.iter) {} = runOps p g r' (bs.map Op.iter) {} := by
        intro r r'
        refine runOps_batches_congr bs h0 (fun j pt h1 h2 => ?_)
        rw [h0c] at h2
        exact (hg j pt (by omega)).symm
      have hsum : bs.sum + (k - 1 - bs.sum) = k - 1 := by omega
      have key : ∀ r : PState α → Option (LocalResult α), ∃ psk s pr,
          iterN p g (k - 1) {} = .ok (psk, List.range' 2 (k - 1)) ∧ psk.m = some s ∧ prepare p s = .ok pr ∧
          (runOps p f r (bs.map Op.iter) {}).nTrials = bs.sum ∧ (runOps p f r (bs.map Op.iter) {}).calls = bs.sum ∧
          doGlobalIteration p f n (runOps p f r (bs.map Op.iter) {}) saved =
            { s := { m := some pr.s,
                     log := (runOps p f r (bs.map Op.iter) {}).log ++ (if bs.sum = 0 then [Event.beforeStart] else []),
                     evals := psk.evals, nLocal := 0, calls := k },
              raised := some .objective } := by
        intro r
        obtain ⟨b1, b2, b3, b4, b5, b6⟩ := batches_fields (r := r) bs h0
        obtain ⟨ps1', h1', -⟩ := iterN_congr_ok b1.symm h1
        rw [← hcong r r] at b1 b2 b3 b4 b5 b6 h1'
        have hm : (runOps p f r (bs.map Op.iter) {}).m ≠ none ∨ 0 < k - 1 - bs.sum := by
          rcases Nat.eq_zero_or_pos bs.sum with h | h
          · right; omega
          · left; exact b6 h
        obtain ⟨psi, ids, s, pr, hgi, -, hms, hpr, -, hdgi⟩ :=
          dgi_fail_from (p := p) (f := f) (g := g) (ps := runOps p f r (bs.map Op.iter) {}) (n := n)
            (i := k - 1 - bs.sum) hm (by omega)
            (fun pt => (hf _ pt).2 (by rw [b2]; omega))
            (fun j pt h1 h2 => hg j pt (by rw [b2] at h2; omega)) h1' saved
        rw [hcong r r] at hgi
        obtain ⟨psk, hrunk, hck, -⟩ := canonical_of_batches bs h0 hgi
        rw [hsum] at hrunk
        obtain ⟨-, -, -, x4, -, x6⟩ := fields_of_core hck
        have hfm : firstMark (runOps p f r (bs.map Op.iter) {}) (k - 1 - bs.sum) =
            if bs.sum = 0 then [Event.beforeStart] else [] := by
          rcases Nat.eq_zero_or_pos bs.sum with h | h
          · rw [if_pos h]
            refine firstMark_of_none ?_ (by omega)
            have hm0 : (runOps p f r (bs.map Op.iter) {}).m = ps0.m := (PState.core_eq_iff.1 b1).1
            rw [h] at h0
            simp only [iterN, Except.ok.injEq, Prod.mk.injEq] at h0
            rw [hm0, ← h0.1]
          · rw [if_neg (by omega)]; exact firstMark_of_some (b6 h)
        have hrf : (runOps p f r (bs.map Op.iter) {}).refined = none := by
          rw [(PState.core_eq_iff.1 b1).2.2.2.2]; exact iterN_ok_refined h0
        refine ⟨psk, s, pr, hrunk, by rw [x6]; exact hms, hpr, b3, b2, ?_⟩
        rw [hdgi, x4, b4, b2, hfm, hrf]
        have : bs.sum + (k - 1 - bs.sum) + 1 = k := by omega
        rw [this]
      obtain ⟨psk, s, pr, hrunk, hmk, hpr, -, -, -⟩ := key (fun _ => none)
      have hrunf : iterN p f (k - 1) {} = .ok (psk, List.range' 2 (k - 1)) := by
        rw [iterN_oracle_congr (f := f) (g := g) (fun j pt h1 h2 => (hg j pt (by rw [h0c] at h2; omega)).symm)]
        exact hrunk
      obtain ⟨c1, c2, -, c4, -⟩ := iterN_counters hrunk
      have hnt : s.nTrials = k - 1 := by
        have : psk.nTrials = 0 + (k - 1) := c2
        simp only [PState.nTrials, hmk] at this; omega
      have hit : s.iters = k - 1 := by
        have : psk.iters = 0 + (k - 1) := c1
        simp only [PState.iters, hmk] at this; omega
      refine ⟨psk, s, pr, hrunk, hrunf, hmk, hpr, (hf _ _).2 rfl, by rw [c4]; exact Nat.zero_add _, hnt, hit, hcong,
        fun r => ?_, fun r => ?_⟩
      · obtain ⟨-, -, -, -, -, -, a1, a2, -⟩ := key r
        exact ⟨a1, a2⟩
      · obtain ⟨psk2, s2, pr2, hrunk2, hmk2, hpr2, -, -, hd⟩ := key r
        rw [hrunk] at hrunk2
        simp only [Except.ok.injEq, Prod.mk.injEq, and_true] at hrunk2
        subst hrunk2
        rw [hmk] at hmk2
        cases hmk2
        rw [hpr] at hpr2
        cases hpr2
        exact hd

/-- the reported trial does not depend on the stored characteristics `R` -/
theorem reportedId_congr_eraseR {ps ps' : PState α} {s s' : State α} (hr : ps'.refined = ps.refined)
    (hi : s'.items.map Ctl.eraseR = s.items.map Ctl.eraseR) (hb : s'.best = s.best) :
    reportedId ps' s' = reportedId ps s := by
  unfold reportedId
  rw [hr, hb]
  cases ps.refined with
  | none => rfl
  | some r =>
    simp only []
    have h1 := findItem_eraseR hi r
    have h2 := findItem_eraseR hi s.best
    cases ha : findItem s'.items r with
    | none =>
      rw [ha] at h1
      cases hb' : findItem s.items r with
      | none => rfl
      | some b => rw [hb'] at h1; simp at h1
    | some a =>
      rw [ha] at h1
      cases hb' : findItem s.items r with
      | none => rw [hb'] at h1; simp at h1
      | some b =>
        rw [hb'] at h1
        simp only [Option.map_some, Option.some.injEq] at h1
        have hab : a.hv = b.hv := by
          show (Ctl.eraseR a).hv = (Ctl.eraseR b).hv
          rw [h1]
        cases hc : findItem s'.items s.best with
        | none =>
          rw [hc] at h2
          cases hd : findItem s.items s.best with
          | none => rfl
          | some d => rw [hd] at h2; simp at h2
        | some c =>
          rw [hc] at h2
          cases hd : findItem s.items s.best with
          | none => rw [hd] at h2; simp at h2
          | some d =>
            rw [hd] at h2
            simp only [Option.map_some, Option.some.injEq] at h2
            have hcd : c.hv = d.hv := by
              show (Ctl.eraseR c).hv = (Ctl.eraseR d).hv
              rw [h2]
            simp only [hab, hcd]

end Proc
end

