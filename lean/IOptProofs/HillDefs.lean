import IOptProofs.EnclDefs
import IOptGen.HillTables
/-!
# Hill functions: the kernel-evaluable certificate checker `hillOK` (no Mathlib)

`hillOK i` checks, for row `i` of the regenerated tables, by one adaptive bisection of `[0,1]` with
third-order Taylor leaf tests, all table claims (V), (G), (P), (L) of properties C10 / C18.
Soundness (`hillOK i = true → …` over `ℝ`) is `Hill.hillOK_sound` in `HillSound.lean`.

Formats: coefficients `a·2^80 + 2^89`; sums `s·2^144 + BF`, `BF = 2^160`.
-/

namespace Hill
open Encl

/-- `2^89`: bias of a coefficient -/
def BA : Nat := 618970019642690137449562112
/-- `2^160`: bias of the sums (format `2^-144`) -/
def BF : Nat := 1461501637330902918203684832716283019655932542976
/-- static bound, in units of `2^-64`, of the error radius of every `cos iθ, sin iθ`, `i ≤ 16` -/
def EMAX : Nat := 16777216
/-- `⌈2π·2^62⌉` -/
def TWOPI_HI : Nat := 28976077832308491370
/-- `⌊2π·2^62⌋` -/
def TWOPI_LO : Nat := 28976077832308491369
/-- `⌈2π²·2^60⌉` -/
def PISQ2_HI : Nat := 22757758311956604325
/-- `⌈(4π³/3)·2^58⌉` -/
def PI3_43_HI : Nat := 11915934387502487030
/-- `⌊2^144 / 10^4⌋` -/
def TOL4 : Nat := 2230074519853062314153571827264836150598
/-- `⌊2^144 / 10^6⌋` -/
def TOL6 : Nat := 22300745198530623141535718272648361505

/-- `⌊d·2^80⌋` -/
def scaled (d : Dy) : Int := (d.1 * (2:Int)^80) / (2:Int)^d.2
/-- `d·2^80` is an integer of absolute value `< 2^81` -/
def coefOK (d : Dy) : Bool := (d.1 * (2:Int)^80) % (2:Int)^d.2 == 0 && (scaled d).natAbs < 2417851639229258349412352
def encA (z : Int) : Nat := (z + (BA : Int)).toNat

def mkCoef (i : Nat) (a b : Dy) : Coef :=
  ⟨encA (scaled a), encA (scaled b), encA (i * scaled a), encA (-(i * scaled b)),
   encA (i * i * scaled a), encA (i * i * scaled b)⟩

def mkCoefs : Nat → List Dy → List Dy → List Coef
  | i, a :: as, b :: bs => mkCoef i a b :: mkCoefs (i+1) as bs
  | _, _, _ => []

/-- `Σ i^p (|a_i| + |b_i|)·2^80` -/
def sumAbs (p : Nat) : Nat → List Dy → List Dy → Nat
  | i, a :: as, b :: bs => i^p * ((scaled a).natAbs + (scaled b).natAbs) + sumAbs p (i+1) as bs
  | _, _, _ => 0

def allOK : List Dy → Bool
  | [] => true
  | d :: l => coefOK d && allOK l

/-- `B · Σ (x_j + y_j)` for a pair of coefficient columns -/
def colSum (f g : Coef → Nat) : List Coef → Nat
  | [] => 0
  | c :: l => f c + g c + colSum f g l

/-- `⌊v·2^144⌋ + BF` -/
def encLo (d : Dy) : Nat := ((d.1 * (2:Int)^144) / (2:Int)^d.2 + (BF : Int)).toNat

/-- per-row constants -/
structure Ctx where
  coefs : List Coef
  /-- `2·n·2^154` -/
  kG : Nat
  /-- `BF + kG` -/
  kF : Nat
  c0 : Nat
  c1 : Nat
  c2 : Nat
  e0 : Nat
  e1 : Nat
  e2 : Nat
  d3f : Nat
  d3g : Nat
  vminLo : Nat
  vmaxLo : Nat
  tL : Nat
  pminN : Nat
  pminK : Nat
  pmaxN : Nat
  pmaxK : Nat

def mkCtx (a b : List Dy) (vmin pmin vmax pmax lip : Dy) : Ctx :=
  { coefs := mkCoefs 0 a b
    kG := Nat.shiftLeft (2 * a.length) 154
    kF := BF + Nat.shiftLeft (2 * a.length) 154
    c0 := Nat.shiftLeft (colSum Coef.a0 Coef.b0 (mkCoefs 0 a b)) 65
    c1 := Nat.shiftLeft (colSum Coef.a1 Coef.b1 (mkCoefs 0 a b)) 65
    c2 := Nat.shiftLeft (colSum Coef.a2 Coef.b2 (mkCoefs 0 a b)) 65
    e0 := sumAbs 0 0 a b * EMAX
    e1 := sumAbs 1 0 a b * EMAX
    e2 := sumAbs 2 0 a b * EMAX
    d3f := Nat.shiftLeft (sumAbs 3 0 a b * PI3_43_HI) 6
    d3g := Nat.shiftLeft (sumAbs 3 0 a b * PISQ2_HI) 4
    vminLo := encLo vmin
    vmaxLo := encLo vmax
    tL := (1001 * lip.1.toNat * 2^206) / (1000 * 2^lip.2 * TWOPI_HI)
    pminN := pmin.1.toNat
    pminK := pmin.2
    pmaxN := pmax.1.toNat
    pmaxK := pmax.2 }

/-- the sums at the point `num/2^k` (format `2^-144`), passed to `cont`:
`F = f + BF` (biased), `P1 - N1 = f'/2π`, `P2 - N2 = -f''/4π²` (positive and negative parts) -/
def ev {α : Type} (ctx : Ctx) (num k : Nat) (cont : Nat → Nat → Nat → Nat → Nat → α) : α :=
  (fun (acc : Acc) (sh : Nat) =>
    cont (Nat.sub (Nat.add acc.f ctx.kF) (Nat.add ctx.c0 sh))
         (Nat.sub (Nat.add acc.g1 ctx.kG) (Nat.add ctx.c1 sh))
         (Nat.sub (Nat.add ctx.c1 sh) (Nat.add acc.g1 ctx.kG))
         (Nat.sub (Nat.add acc.g2 ctx.kG) (Nat.add ctx.c2 sh))
         (Nat.sub (Nat.add ctx.c2 sh) (Nat.add acc.g2 ctx.kG)))
  (evAcc ctx.coefs num k) (Nat.shiftLeft (evAcc ctx.coefs num k).sc 89)

/-- the leaf `[n/2^k, (n+1)/2^k]` lies inside `[p - 1/R, p + 1/R]`, `p = pN/2^pK` -/
def inside (pN pK R k n : Nat) : Bool :=
  Nat.ble (Nat.shiftLeft (Nat.mul R pN) k)
          (Nat.add (Nat.shiftLeft (Nat.mul R n) pK) (Nat.shiftLeft 1 (Nat.add k pK))) &&
  Nat.ble (Nat.shiftLeft (Nat.mul R (Nat.add n 1)) pK)
          (Nat.add (Nat.shiftLeft (Nat.mul R pN) k) (Nat.shiftLeft 1 (Nat.add k pK)))

/-- `⌊(x·c)/2^s⌋ + 1` -/
def mulShr (c x s : Nat) : Nat := Nat.add 1 (Nat.shiftRight (Nat.mul c x) s)

/-- slack of a one-sided bound on the leaf of half-width `2^-h`:
`e0 + |f'(c)|ρ + max(∓f''(c),0)ρ²/2 + D3ρ³/6` (format `2^-144`); `A1 ≥ |f'(c)|/2π`, `Q2 ≥ max(±f''(c),0)/4π²` -/
def slack (ctx : Ctx) (h A1 Q2 : Nat) : Nat :=
  Nat.add (Nat.add (Nat.add ctx.e0 (mulShr TWOPI_HI A1 (Nat.add h 62)))
    (mulShr PISQ2_HI Q2 (Nat.add (Nat.mul 2 h) 60)))
    (Nat.add 1 (Nat.shiftRight ctx.d3f (Nat.mul 3 h)))

/-- upper bound of `|f'|/2π` on the leaf; `A2 ≥ |f''(c)|/4π²` -/
def derivHi (ctx : Ctx) (h A1 A2 : Nat) : Nat :=
  Nat.add (Nat.add A1 (mulShr TWOPI_HI A2 (Nat.add h 62)))
    (Nat.add 1 (Nat.shiftRight ctx.d3g (Nat.mul 2 h)))

/-- `TOL4 + 2`, `TOL6 + 2` -/
def TOL4P : Nat := 2230074519853062314153571827264836150600
def TOL6P : Nat := 22300745198530623141535718272648361507

/-- all value tests on a leaf, given the slacks `sl`, `sh` of the lower and upper bound -/
def leafTests (ctx : Ctx) (k n F sl sh : Nat) : Bool :=
  -- (P) C10: below `vmin + 1e-4` only within 5e-3 of `pmin`; above `vmax - 1e-4` only within 5e-3 of `pmax`
  (Nat.ble (Nat.add (Nat.add TOL4P ctx.vminLo) sl) F || inside ctx.pminN ctx.pminK 200 k n) &&
  (Nat.ble (Nat.add TOL4P (Nat.add F sh)) ctx.vmaxLo || inside ctx.pmaxN ctx.pmaxK 200 k n) &&
  -- (P) C18: below `vmin + 1e-6` only within 1e-4 of `pmin`; same for the maximum
  (Nat.ble (Nat.add (Nat.add TOL6P ctx.vminLo) sl) F || inside ctx.pminN ctx.pminK 10000 k n) &&
  (Nat.ble (Nat.add TOL6P (Nat.add F sh)) ctx.vmaxLo || inside ctx.pmaxN ctx.pmaxK 10000 k n) &&
  -- (G) `vmin - 1e-4 ≤ f ≤ vmax + 1e-4`
  Nat.ble (Nat.add (Nat.add 1 ctx.vminLo) sl) (Nat.add TOL4 F) &&
  Nat.ble (Nat.add F sh) (Nat.add TOL4 ctx.vmaxLo)

/-- leaf test at the centre of `[n/2^k, (n+1)/2^k]`: `none` = undecided, `some w` = all clauses hold on
the leaf and `w ≤ |f'(c)|/2π` (format `2^-144`) -/
def leaf (ctx : Ctx) (k n : Nat) : Option Nat :=
  ev ctx (Nat.add (Nat.mul 2 n) 1) (Nat.add k 1) fun F P1 N1 P2 N2 =>
    cond (leafTests ctx k n F
            (slack ctx (Nat.add k 1) (Nat.add (Nat.add P1 N1) ctx.e1) (Nat.add P2 ctx.e2))
            (slack ctx (Nat.add k 1) (Nat.add (Nat.add P1 N1) ctx.e1) (Nat.add N2 ctx.e2)) &&
          Nat.ble (derivHi ctx (Nat.add k 1) (Nat.add (Nat.add P1 N1) ctx.e1)
                    (Nat.add (Nat.add P2 N2) ctx.e2)) ctx.tL)
      (some (Nat.sub (Nat.add P1 N1) ctx.e1)) none

def both : Option Nat → Option Nat → Option Nat
  | some a, some b => some (cond (Nat.ble a b) b a)
  | _, _ => none

/-- adaptive bisection of `[n/2^k, (n+1)/2^k]`; no tests above level 6 -/
def bnb (ctx : Ctx) : Nat → Nat → Nat → Option Nat
  | 0, _, _ => none
  | fuel+1, k, n =>
    cond (Nat.ble 6 k)
      (match leaf ctx k n with
      | some w => some w
      | none => both (bnb ctx fuel (Nat.add k 1) (Nat.mul 2 n)) (bnb ctx fuel (Nat.add k 1) (Nat.add (Nat.mul 2 n) 1)))
      (both (bnb ctx fuel (Nat.add k 1) (Nat.mul 2 n)) (bnb ctx fuel (Nat.add k 1) (Nat.add (Nat.mul 2 n) 1)))

/-- `|f(p) - v| ≤ 1e-6` at the dyadic point `p = pN/2^pK` (`vLo = ⌊v·2^144⌋ + BF`) -/
def valueOK (ctx : Ctx) (pN pK vLo : Nat) : Bool :=
  ev ctx pN pK fun F _ _ _ _ =>
    Nat.ble (Nat.add F ctx.e0) (Nat.add TOL6 vLo) && Nat.ble (Nat.add (Nat.add 1 vLo) ctx.e0) (Nat.add TOL6 F)

def witnessOK (lip : Dy) (w : Nat) : Bool :=
  Nat.ble (999 * lip.1.toNat * 2^206) (w * TWOPI_LO * 1000 * 2^lip.2)

/-- the complete check of one table row -/
def rowOK (a b : List Dy) (vmin pmin vmax pmax lip : Dy) : Bool :=
  a.length == b.length && a.length ≤ 16 && allOK a && allOK b &&
  decide (0 ≤ pmin.1) && decide (0 ≤ pmax.1) && decide (0 ≤ lip.1) &&
  Nat.ble pmin.1.toNat (2^pmin.2) && Nat.ble pmax.1.toNat (2^pmax.2) &&
  Nat.ble TOL4 (encLo vmin) && Nat.ble TOL4 (encLo vmax) &&
  (fun ctx =>
    valueOK ctx ctx.pminN ctx.pminK ctx.vminLo && valueOK ctx ctx.pmaxN ctx.pmaxK ctx.vmaxLo &&
    match bnb ctx 32 0 0 with
    | some w => witnessOK lip w
    | none => false) (mkCtx a b vmin pmin vmax pmax lip)

def hillOK (i : Nat) : Bool :=
  rowOK (Gen.hillA i) (Gen.hillB i) (Gen.hillMinValue i) (Gen.hillMinPoint i)
    (Gen.hillMaxValue i) (Gen.hillMaxPoint i) (Gen.hillLip i)

end Hill
