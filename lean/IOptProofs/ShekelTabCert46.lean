import IOptProofs.ShekelTabDefs
/-! kernel-evaluated C18 table certificates (min / max / Lipschitz tables) of the Shekel functions 920..939
(one block per file, identical template; four kernel evaluations of 5 rows each keep the memory near 1 GB) -/
namespace Shk
set_option maxRecDepth 100000 in
theorem shekel_tab_block_46_a : ∀ i ∈ List.range' 920 5, shekelTabOK i = true := by decide +kernel
set_option maxRecDepth 100000 in
theorem shekel_tab_block_46_b : ∀ i ∈ List.range' 925 5, shekelTabOK i = true := by decide +kernel
set_option maxRecDepth 100000 in
theorem shekel_tab_block_46_c : ∀ i ∈ List.range' 930 5, shekelTabOK i = true := by decide +kernel
set_option maxRecDepth 100000 in
theorem shekel_tab_block_46_d : ∀ i ∈ List.range' 935 5, shekelTabOK i = true := by decide +kernel
theorem shekel_tab_block_46 : ∀ i ∈ List.range' 920 20, shekelTabOK i = true := by
  intro i hi
  have hi' := List.mem_range'_1.1 hi
  if h1 : i < 925 then exact shekel_tab_block_46_a i (List.mem_range'_1.2 ⟨by omega, by omega⟩) else
  if h2 : i < 930 then exact shekel_tab_block_46_b i (List.mem_range'_1.2 ⟨by omega, by omega⟩) else
  if h3 : i < 935 then exact shekel_tab_block_46_c i (List.mem_range'_1.2 ⟨by omega, by omega⟩) else
  exact shekel_tab_block_46_d i (List.mem_range'_1.2 ⟨by omega, by omega⟩)
end Shk
