import IOptProofs.GrishDefs
/-! kernel-evaluated certificates (V), (G), (P) of the Grishagin functions 51..55 (one block per file, identical template;
one theorem per function so that the kernel's reduction cache is released between functions) -/
namespace Grish
set_option maxRecDepth 100000
theorem grish_ok_51 : grishOK 51 = true := by decide +kernel
theorem grish_ok_52 : grishOK 52 = true := by decide +kernel
theorem grish_ok_53 : grishOK 53 = true := by decide +kernel
theorem grish_ok_54 : grishOK 54 = true := by decide +kernel
theorem grish_ok_55 : grishOK 55 = true := by decide +kernel
theorem grish_block_10 : ∀ k ∈ List.range' 51 5, grishOK k = true := by
  intro k hk
  simp only [List.mem_range'_1] at hk
  obtain ⟨h1, h2⟩ := hk
  have : k = 51 ∨ k = 52 ∨ k = 53 ∨ k = 54 ∨ k = 55 := by omega
  rcases this with rfl | rfl | rfl | rfl | rfl
  · exact grish_ok_51
  · exact grish_ok_52
  · exact grish_ok_53
  · exact grish_ok_54
  · exact grish_ok_55
end Grish
