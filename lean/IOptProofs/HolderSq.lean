import IOptProofs.HolderIdx
import Mathlib.Algebra.BigOperators.Group.Finset.Basic
import Mathlib.Algebra.Order.BigOperators.Group.Finset
import Mathlib.Analysis.SpecialFunctions.Pow.Real
import Mathlib.Tactic.Ring
import Mathlib.Tactic.Linarith
import Mathlib.Tactic.Positivity
import Mathlib.Tactic.FieldSimp
/-!
# Hölder property of the evolvent, part 2: Euclidean distance of coordinate lists and the squared
bound  (worker h)

Vectors are coordinate lists (`List ℝ`, as produced by the model's `imageCube`/`getImage`).
`Ev.sqDist a b = Σ_i (a_i - b_i)²`, `Ev.dist2 a b = √(sqDist a b)` is the Euclidean distance.
-/

namespace Ev

/-- squared Euclidean distance of two coordinate lists (of the same length) -/
def sqDist (a b : List ℝ) : ℝ := (List.zipWith (fun u v => (u - v)^2) a b).sum

/-- Euclidean distance of two coordinate lists -/
noncomputable def dist2 (a b : List ℝ) : ℝ := Real.sqrt (sqDist a b)

/-- coordinate accessor for real lists -/
def getR (l : List ℝ) (i : Nat) : ℝ := l.getD i 0

theorem getR_cons_zero (x : ℝ) (l : List ℝ) : getR (x :: l) 0 = x := rfl
theorem getR_cons_succ (x : ℝ) (l : List ℝ) (i : Nat) : getR (x :: l) (i+1) = getR l i := rfl

theorem getR_eq_getElem {l : List ℝ} {i : Nat} (h : i < l.length) : getR l i = l[i] := by
  simp [getR, List.getD_eq_getElem?_getD, h]

theorem sqDist_nonneg (a b : List ℝ) : 0 ≤ sqDist a b := by
  unfold sqDist
  induction a generalizing b with
  | nil => simp
  | cons x a ih =>
    cases b with
    | nil => simp
    | cons y b =>
      simp only [List.zipWith_cons_cons, List.sum_cons]
      have := ih b
      positivity

theorem dist2_nonneg (a b : List ℝ) : 0 ≤ dist2 a b := Real.sqrt_nonneg _

theorem sqDist_eq_sum {n : Nat} {a b : List ℝ} (ha : a.length = n) (hb : b.length = n) :
    sqDist a b = ∑ i ∈ Finset.range n, (getR a i - getR b i)^2 := by
  induction n generalizing a b with
  | zero =>
    have : a = [] := List.length_eq_zero_iff.1 ha
    subst this
    simp [sqDist]
  | succ k ih =>
    cases a with
    | nil => simp at ha
    | cons x a =>
      cases b with
      | nil => simp at hb
      | cons y b =>
        simp only [List.length_cons, Nat.add_right_cancel_iff] at ha hb
        rw [Finset.sum_range_succ']
        simp only [getR_cons_zero, getR_cons_succ]
        rw [← ih ha hb]
        simp only [sqDist, List.zipWith_cons_cons, List.sum_cons]
        ring

theorem sqDist_comm (a b : List ℝ) : sqDist a b = sqDist b a := by
  unfold sqDist
  induction a generalizing b with
  | nil => simp
  | cons x a ih =>
    cases b with
    | nil => simp
    | cons y b =>
      simp only [List.zipWith_cons_cons, List.sum_cons, ih b]
      ring

theorem dist2_comm (a b : List ℝ) : dist2 a b = dist2 b a := by
  unfold dist2; rw [sqDist_comm]

theorem sqDist_self (a : List ℝ) : sqDist a a = 0 := by
  unfold sqDist
  induction a with
  | nil => simp
  | cons x a ih => simp only [List.zipWith_cons_cons, List.sum_cons, ih]; ring

theorem dist2_self (a : List ℝ) : dist2 a a = 0 := by
  unfold dist2; rw [sqDist_self, Real.sqrt_zero]

/-- all coordinates within `κ`: `‖a - b‖² ≤ n κ²` -/
theorem sqDist_le_of_all {n : Nat} {a b : List ℝ} (ha : a.length = n) (hb : b.length = n)
    {κ : ℝ} (h : ∀ i, i < n → |getR a i - getR b i| ≤ κ) :
    sqDist a b ≤ n * κ^2 := by
  rw [sqDist_eq_sum ha hb]
  calc ∑ i ∈ Finset.range n, (getR a i - getR b i)^2
      ≤ ∑ _i ∈ Finset.range n, κ^2 := by
        apply Finset.sum_le_sum
        intro i hi
        exact sq_le_sq' (by have := abs_le.1 (h i (Finset.mem_range.1 hi)); linarith)
          (by have := abs_le.1 (h i (Finset.mem_range.1 hi)); linarith)
    _ = n * κ^2 := by simp

/-- all coordinates within `2κ` and all but one within `κ`: `‖a - b‖² ≤ (n+3) κ²` -/
theorem sqDist_le_of_one {n : Nat} {a b : List ℝ} (ha : a.length = n) (hb : b.length = n)
    {κ : ℝ} (h2 : ∀ i, i < n → |getR a i - getR b i| ≤ 2 * κ) {c : Nat} (hc : c < n)
    (h1 : ∀ i, i < n → i ≠ c → |getR a i - getR b i| ≤ κ) :
    sqDist a b ≤ (n + 3) * κ^2 := by
  rw [sqDist_eq_sum ha hb]
  have hcm : c ∈ Finset.range n := Finset.mem_range.2 hc
  rw [← Finset.add_sum_erase _ _ hcm]
  have hA : (getR a c - getR b c)^2 ≤ 4 * κ^2 := by
    have := abs_le.1 (h2 c hc)
    have : (getR a c - getR b c)^2 ≤ (2 * κ)^2 := sq_le_sq' (by linarith) (by linarith)
    linarith
  have hB : ∑ i ∈ (Finset.range n).erase c, (getR a i - getR b i)^2
      ≤ ∑ _i ∈ (Finset.range n).erase c, κ^2 := by
    apply Finset.sum_le_sum
    intro i hi
    obtain ⟨hic, hin⟩ := Finset.mem_erase.1 hi
    have := abs_le.1 (h1 i (Finset.mem_range.1 hin) hic)
    exact sq_le_sq' (by linarith) (by linarith)
  have hC : ∑ _i ∈ (Finset.range n).erase c, κ^2 = ((n:ℝ) - 1) * κ^2 := by
    rw [Finset.sum_const, Finset.card_erase_of_mem hcm, Finset.card_range, nsmul_eq_mul]
    have : 1 ≤ n := by omega
    push_cast [Nat.cast_sub this]
    ring
  linarith

/-! ### the squared bound for the evolvent -/

attribute [local instance] Ev.Num.floorTrunc

theorem getR_map_cast {l : List Int} {i : Nat} (D : ℝ) :
    getR (l.map (fun (Y : Int) => (Y : ℝ) / D)) i = (getI l i : ℝ) / D := by
  unfold getR getI
  rcases Nat.lt_or_ge i l.length with h | h
  · simp [List.getD_eq_getElem?_getD, h]
  · simp [List.getD_eq_getElem?_getD, h]

theorem length_imageCube {n : Nat} (hn : Ev.DimOK n) (m : Nat) {x : ℝ} (h0 : 0 ≤ x)
    (h1 : x ≤ 1) : (imageCube n m x).length = n := by
  rw [imageCube_cellIdx hn m h0 h1, List.length_map]
  exact (C07_centres (mem_of_range hn) (digitsOf_valid n m _)).1

/-- **C08 (Hölder, squared form)**: if `|x' - x''| ≤ 2^(-p n)` with `p ≤ m`, then
`‖y(x') - y(x'')‖₂² ≤ (n+3)·4^(-p)` (on the cube `[-1/2,1/2]^n`). -/
theorem sqDist_imageCube_le {n : Nat} (hn : Ev.DimOK n) {m p : Nat} (hp : p ≤ m) {x' x'' : ℝ}
    (h0' : 0 ≤ x') (h1' : x' ≤ 1) (h0'' : 0 ≤ x'') (h1'' : x'' ≤ 1)
    (hd : |x' - x''| ≤ 1 / ((2:ℝ)^n)^p) :
    sqDist (imageCube n m x') (imageCube n m x'') ≤ ((n:ℝ) + 3) / 4^p := by
  obtain ⟨hall, c, hc, hone⟩ := cubeY_close hn hp h0' h0'' hd
  have hl' := length_imageCube hn m h0' h1'
  have hl'' := length_imageCube hn m h0'' h1''
  rw [imageCube_cellIdx hn m h0' h1'] at hl' ⊢
  rw [imageCube_cellIdx hn m h0'' h1''] at hl'' ⊢
  have hD : (0:ℝ) < 2^(m+1) := by positivity
  have hκ : (2:ℝ)^(m - p + 1) / 2^(m+1) = 1 / 2^p := by
    have e : (2:ℝ)^(m+1) = 2^(m - p + 1) * 2^p := by
      rw [← pow_add]; congr 1; omega
    rw [e]
    have : (2:ℝ)^(m - p + 1) ≠ 0 := by positivity
    field_simp
  have cast_lt : ∀ (z : Int) (k : Nat), |z| < 2^k → |(z:ℝ)| ≤ 2^k := by
    intro z k hz
    have : ((|z| : Int) : ℝ) < ((2^k : Int) : ℝ) := by exact_mod_cast hz
    push_cast at this
    exact le_of_lt this
  have cast_lt2 : ∀ (z : Int) (k : Nat), |z| < 2 * 2^k → |(z:ℝ)| ≤ 2 * 2^k := by
    intro z k hz
    have : ((|z| : Int) : ℝ) < ((2 * 2^k : Int) : ℝ) := by exact_mod_cast hz
    push_cast at this
    exact le_of_lt this
  have h := sqDist_le_of_one (κ := 1 / 2^p) hl' hl''
    (by
      intro i _
      rw [getR_map_cast, getR_map_cast, ← sub_div, abs_div, abs_of_pos hD, div_le_iff₀ hD]
      have := cast_lt2 _ _ (hall i)
      push_cast at this
      calc _ ≤ 2 * (2:ℝ)^(m - p + 1) := this
        _ = 2 * ((2:ℝ)^(m - p + 1) / 2^(m+1)) * 2^(m+1) := by field_simp
        _ = 2 * (1 / 2^p) * 2^(m+1) := by rw [hκ])
    hc
    (by
      intro i _ hic
      rw [getR_map_cast, getR_map_cast, ← sub_div, abs_div, abs_of_pos hD, div_le_iff₀ hD]
      have := cast_lt _ _ (hone i hic)
      push_cast at this
      calc _ ≤ (2:ℝ)^(m - p + 1) := this
        _ = ((2:ℝ)^(m - p + 1) / 2^(m+1)) * 2^(m+1) := by field_simp
        _ = (1 / 2^p) * 2^(m+1) := by rw [hκ])
  calc _ ≤ ((n:ℝ) + 3) * (1 / 2^p)^2 := h
    _ = ((n:ℝ) + 3) / 4^p := by
      have : (4:ℝ)^p = (2^p)^2 := by rw [← pow_mul, mul_comm, pow_mul]; norm_num
      rw [this]; field_simp

end Ev
