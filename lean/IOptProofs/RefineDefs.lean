import IOptModel.Method
/-!
# The concrete run: the AGP iteration on top of the pointer-level `SearchData` container

`IOptModel/Method.lean` keeps the search information as a list of items in traversal order plus a
queue.  The code keeps it in `SearchData` (doubly linked `SearchDataItem`s, `_allTrials`, a DEPQ),
modelled at pointer level in `IOptModel/SearchData.lean`.  Here the SAME iteration is written once
more, but

* the traversal order, the neighbour of an item and the queue are obtained ONLY through the
  container (`SD.traversal`, the `left` pointer of an item, `SD.popMaxGlobal`), and
* the container is changed ONLY by the calls the method makes, in the order it makes them:
  first iteration `InsertFirstDataItem(left, right)`, `InsertDataItem(middle, right)`;
  recalculation `ClearQueue()`, `item.globalR = …` for every item of the iteration, `RefillQueue()`;
  selection `GetDataItemWithMaxGlobalR()`; renewal `old.globalR = …`, `InsertDataItem(new, old)`.

Coordinates are `α`, queue keys are `Option α` (`none` = `-inf`) compared by `AGP.keyLe`, the identity
of an item is its index in `trials` (`_allTrials`).  The attributes of a `SearchDataItem` that the
container does not look at (`point`, `z`, the value holder, the index, `delta`) are kept in a side
table indexed by the id.

`IOptProofs/RefineSim.lean` proves that this run and the list-level run stay in lock step
(`IOptProps/C06links.lean`: `C06_links_refine`, `C06_pop_agrees`).
-/

section
variable {α : Type} [Add α] [Sub α] [Mul α] [Div α] [Neg α] [LT α] [LE α]
  [DecidableLT α] [DecidableLE α] [OfNat α 0] [OfNat α 1] [OfNat α 2] [OfNat α 4] [Fns α]

namespace AGP

/-- the attributes of a `SearchDataItem` that the container never looks at -/
structure Attr (α : Type) where
  point : List α
  z : α
  hv : α
  ev : Bool
  delta : α

/-- the container-independent attributes of a list-level item -/
def Item.attr (it : Item α) : Attr α :=
  { point := it.point, z := it.z, hv := it.hv, ev := it.ev, delta := it.delta }

/-- State of `Method` with the search information held in the pointer-level container. -/
structure CState (α : Type) where
  /-- `SearchData`: `_allTrials` with coordinates, links and `globalR`, `__firstDataItem`, `_RGlobalQueue` -/
  sd : SD.State α (Option α)
  /-- the remaining attributes of the item with a given id -/
  attr : Nat → Attr α
  M : α
  Z : α
  best : Nat
  recalc : Bool
  iters : Nat
  minDelta : Option α
  nTrials : Nat

/-- `(x, globalR)` of the stored item `i` -/
def xrOf (tr : Array (SD.Item α (Option α))) (i : Nat) : Option (α × Option α) :=
  tr[i]?.map fun it => (it.x, it.globalR)

/-- the `SearchDataItem` with id `i` seen as a list-level item: coordinate and characteristic are
read from the container, the other attributes from the side table -/
def itemOf (sd : SD.State α (Option α)) (attr : Nat → Attr α) (i : Nat) : Item α :=
  { id := i
    x := match xrOf sd.trials i with
      | some xr => xr.1
      | none => 0
    point := (attr i).point, z := (attr i).z, hv := (attr i).hv, ev := (attr i).ev,
    delta := (attr i).delta
    R := match xrOf sd.trials i with
      | some xr => xr.2
      | none => none }

def CState.item (c : CState α) (i : Nat) : Item α := itemOf c.sd c.attr i

def setAttr (t : Nat → Attr α) (i : Nat) (a : Attr α) : Nat → Attr α :=
  fun j => if j = i then a else t j

/-- a fresh `SearchDataItem` as the container sees it (no links yet; single-queue variant, the local
characteristic is not used) -/
def sdItem (x : α) (R : Option α) : SD.Item α (Option α) := { x := x, globalR := R, localR := none }

/-- `item.GetX() > x` -/
def ltF : α → α → Bool := fun a b => decide (a < b)

/-- **The abstraction**: the list-level state represented by a concrete state.  Items in the order of
`SD.traversal`, the queue `gq` as it is, `nextId = len(_allTrials)`. -/
def absState (c : CState α) : State α :=
  { items := (SD.traversal c.sd).map c.item, queue := c.sd.gq, M := c.M, Z := c.Z, best := c.best,
    recalc := c.recalc, iters := c.iters, minDelta := c.minDelta, nTrials := c.nTrials,
    nextId := c.sd.trials.size }

/-- the abstraction `abs` of the task: traversal order and queue (named `absSD` so as not to shadow
`abs` = absolute value inside `namespace AGP`) -/
def absSD (sd : SD.State α (Option α)) : List Nat × List (Option α × Nat) := (SD.traversal sd, sd.gq)

/-- `Method.FirstIteration` for the value `z` of the objective at `image 0.5`:
the three items are created and their lengths and characteristics computed, then
`InsertFirstDataItem(left, right)` and `InsertDataItem(middle, right)`.
(`none` would mean that a container call raised.) -/
def cFirst (p : Params α) (z : α) : Option (CState α) :=
  let x : α := half
  let left : Item α := { id := 0, x := 0, point := p.image 0, z := Fns.big, hv := 0, ev := false, delta := 0, R := none }
  let middle0 : Item α := { id := 2, x := x, point := p.image x, z := z, hv := z, ev := true,
                            delta := calcDelta p.n 0 x, R := none }
  let right0 : Item α := { id := 1, x := 1, point := p.image 1, z := Fns.big, hv := 0, ev := false,
                           delta := calcDelta p.n x 1, R := none }
  let M : α := 1
  let Z := z
  let middle := { middle0 with R := some (calcR p.r M Z left middle0) }
  let right := { right0 with R := some (calcR p.r M Z middle right0) }
  -- the container calls
  let sd0 := SD.insertFirst ({} : SD.State α (Option α)) (sdItem left.x left.R) (sdItem right.x right.R)
  match SD.insert ltF keyLe sd0 (sdItem middle.x middle.R) (some 1) with
  | .error _ => none
  | .ok sd =>
    some { sd := sd
           attr := fun i => if i = 0 then left.attr else if i = 1 then right.attr else middle.attr
           M := M, Z := Z, best := 2, recalc := true, iters := 1, minDelta := none, nTrials := 1 }

/-- `CalculateGlobalR(item, item.GetLeft())` for the item with id `i`: the left neighbour is the
item's `left` POINTER; `globalR` is written into the container.  The attributes read (`z`, index,
`delta` of the two items) are not changed by the recalculation, they are taken from `c`. -/
def cCalcR (p : Params α) (c : CState α) (sd : SD.State α (Option α)) (i : Nat) : SD.State α (Option α) :=
  match sd.trials[i]?.bind (·.left) with
  | none => SD.setGlobalR sd i none
  | some l => SD.setGlobalR sd i (some (calcR p.r c.M c.Z (c.item l) (c.item i)))

/-- `RecalcAllCharacteristics` (when `recalc` is set): `ClearQueue()`, the loop
`for item in searchData: CalculateGlobalR(item, item.GetLeft())`, `RefillQueue()`. -/
def cRecalcAll (p : Params α) (c : CState α) : CState α :=
  if c.recalc then
    let sd0 := SD.clearQueue c.sd
    let sd1 := (SD.traversal sd0).foldl (cCalcR p c) sd0
    { c with sd := SD.refill keyLe sd1, recalc := false }
  else c

/-- What `CalculateIterationPoint` hands to the evaluation (items by id). -/
structure CPrep (α : Type) where
  c : CState α
  old : Nat
  left : Nat
  x : α
  point : List α

/-- `Method.CalculateIterationPoint`: recalculation, `GetDataItemWithMaxGlobalR()`, the `min_delta`
update, `old.GetLeft()` and the new coordinate. -/
def cPrepare (p : Params α) (c : CState α) : Except (CState α × Raise) (CPrep α) :=
  let c := cRecalcAll p c
  match SD.popMaxGlobal keyLe c.sd with
  | .error _ => .error (c, .emptyQueue)
  | .ok (sd, oid, _) =>
    let c := { c with sd := sd }
    let c := { c with minDelta := some (minOpt (c.attr oid).delta c.minDelta) }
    match sd.trials[oid]?.bind (·.left) with
    | none => .error (c, .leftIsNone)
    | some l =>
      let x := nextX p c.M (c.item l) (c.item oid)
      if x ≤ (c.item l).x ∨ (c.item oid).x ≤ x then .error (c, .outsideInterval)
      else .ok { c := c, old := oid, left := l, x := x, point := p.image x }

/-- `CalculateFunctionals` + `UpdateOptimum` + `RenewSearchData` + `FinalizeIteration` for the value
`z` returned by the objective.  Container calls: `old.globalR = …` and `InsertDataItem(new, old)`.
(`none` would mean that the container call raised.) -/
def cCommit (p : Params α) (cpr : CPrep α) (z : α) : Option (CState α) :=
  let c := cpr.c
  let ni := c.sd.trials.size                       -- the id the new item will get
  let left := c.item cpr.left
  let old := c.item cpr.old
  -- UpdateOptimum (`self.best.GetZ()`)
  let better := decide (z < (c.attr c.best).z)
  let Z := if better then z else c.Z
  let best := if better then ni else c.best
  let rc0 := if better then true else c.recalc
  -- RenewSearchData
  let new1 : Item α := { id := ni, x := cpr.x, point := cpr.point, z := z, hv := z, ev := true,
                         delta := calcDelta p.n left.x cpr.x, R := none }
  let old1 : Item α := { old with delta := calcDelta p.n cpr.x old.x }
  let m1 := calcM c.M rc0 left new1
  let m2 := calcM m1.1 m1.2 new1 old1
  let new2 : Item α := { new1 with R := some (calcR p.r m2.1 Z left new1) }
  let old2 : Item α := { old1 with R := some (calcR p.r m2.1 Z new2 old1) }
  -- the container calls
  let sd1 := SD.setGlobalR c.sd cpr.old old2.R
  match SD.insert ltF keyLe sd1 (sdItem new2.x new2.R) (some cpr.old) with
  | .error _ => none
  | .ok sd2 =>
    some { c with sd := sd2, attr := setAttr (setAttr c.attr cpr.old old2.attr) ni new2.attr
                  M := m2.1, Z := Z, best := best, recalc := m2.2
                  iters := c.iters + 1, nTrials := c.nTrials + 1 }

/-- one global iteration (not the first) of the concrete run for the objective value `z` -/
def cIterate (p : Params α) (c : CState α) (z : α) : Option (CState α) :=
  match cPrepare p c with
  | .error _ => none
  | .ok cpr => cCommit p cpr z

/-- **The concrete run** for the objective values `zs` (oldest first; the first one is the value at
`image 0.5`). -/
def cRun (p : Params α) : List α → Option (CState α)
  | [] => none
  | z :: zs => zs.foldl (fun oc z => oc.bind fun c => cIterate p c z) (cFirst p z)

end AGP
end
