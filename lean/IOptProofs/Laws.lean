import IOptModel.Arith
import Mathlib.Algebra.Order.Field.Basic
import Mathlib.Algebra.Order.AbsoluteValue.Basic
import Mathlib.Analysis.SpecialFunctions.Pow.Real
/-!
# Laws of the library functions (`Fns`) that proofs about the model may assume

The model is generic over a numeric type `α` with `[Fns α]`; the proofs reason over a linearly
ordered field and use only the laws collected in `FnsLaws` (all true of the real-number functions).
-/

/-- the laws of the library functions that the proofs may use (true of the real-number functions) -/
structure FnsLaws (α : Type) [Field α] [LinearOrder α] [IsStrictOrderedRing α] [Fns α] : Prop where
  abs_eq : ∀ x : α, Fns.abs x = |x|
  powN_eq : ∀ (x : α) (n : Nat), Fns.powN x n = x ^ n
  root_nonneg : ∀ (x : α) (n : Nat), 0 ≤ x → 0 ≤ Fns.root x n
  root_pow : ∀ (x : α) (n : Nat), 0 < n → 0 ≤ x → (Fns.root x n) ^ n = x

namespace FnsLaws
variable {α : Type} [Field α] [LinearOrder α] [IsStrictOrderedRing α] [Fns α]

/-- a root of a positive number is positive -/
theorem root_pos (h : FnsLaws α) {x : α} {n : Nat} (hn : 0 < n) (hx : 0 < x) : 0 < Fns.root x n := by
  rcases (h.root_nonneg x n hx.le).lt_or_eq with h0 | h0
  · exact h0
  · exfalso
    have hp := h.root_pow x n hn hx.le
    rw [← h0, zero_pow (by omega)] at hp
    exact absurd hp hx.ne

/-- for `n = 1` the root is the identity -/
theorem root_one (h : FnsLaws α) {x : α} (hx : 0 ≤ x) : Fns.root x 1 = x := by
  have := h.root_pow x 1 (by omega) hx
  simpa using this

end FnsLaws

/-- The real-number library functions (`root x n = x ^ (1/n)` via `Real.rpow`). Not a global instance. -/
@[reducible] noncomputable def Fns.real : Fns ℝ where
  abs x := |x|
  root x n := x ^ ((1 : ℝ) / n)
  powN x n := x ^ n
  big := 0

/-- Non-vacuity: the real-number functions satisfy all the laws. -/
theorem FnsLaws.real : @FnsLaws ℝ _ _ _ Fns.real :=
  letI := Fns.real
  { abs_eq := fun _ => rfl
    powN_eq := fun _ _ => rfl
    root_nonneg := fun x n hx => Real.rpow_nonneg hx _
    root_pow := fun x n hn hx => by
      show (x ^ ((1 : ℝ) / n)) ^ n = x
      rw [one_div]
      exact Real.rpow_inv_natCast_pow hx (by omega) }

/-- Library functions over ℚ with `root x _ := x`: satisfy the laws for `n = 1` (used for executable
non-vacuity examples with `p.n = 1`). Not a global instance. -/
@[reducible] def Fns.rat1 : Fns ℚ where
  abs x := |x|
  root x _ := x
  powN x n := x ^ n
  big := 0
