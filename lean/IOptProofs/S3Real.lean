import IOptProofs.S3Defs
import IOptProofs.BenchReal
import IOptProofs.BenchDy
import Mathlib.Tactic.Ring
import Mathlib.Tactic.Linarith
import Mathlib.Tactic.NormNum
import Mathlib.Tactic.Positivity
import Mathlib.Tactic.FieldSimp
/-!
# StronginC3 over ℝ: the generated expression trees with the exact values of their double literals

`S3.f`, `S3.g0`, `S3.g1`, `S3.g2` are `Gen.S3.objective`, `Gen.S3.constraint0..2` (generated from the Python source
text) at `α := ℝ` with `MathFns ℝ` and `lit k :=` the exact real value of the k-th double literal.
Here they are rewritten to closed forms with explicit rational constants.
-/

namespace S3

/-- the exact real value of the `k`-th literal of a literal list (IEEE bit patterns) -/
noncomputable def litR (L : List Nat) (k : Nat) : ℝ := dyR (Dy.ofBits (L.getD k 0))

/-- `StronginC3.Calculate`, objective, over ℝ -/
noncomputable def f (x1 x2 : ℝ) : ℝ := Gen.S3.objective (litR Gen.S3.objectiveLits) x1 x2
/-- `StronginC3.Calculate`, constraint 0, over ℝ -/
noncomputable def g0 (x1 x2 : ℝ) : ℝ := Gen.S3.constraint0 (litR Gen.S3.constraint0Lits) x1 x2
/-- `StronginC3.Calculate`, constraint 1, over ℝ -/
noncomputable def g1 (x1 x2 : ℝ) : ℝ := Gen.S3.constraint1 (litR Gen.S3.constraint1Lits) x1 x2
/-- `StronginC3.Calculate`, constraint 2, over ℝ -/
noncomputable def g2 (x1 x2 : ℝ) : ℝ := Gen.S3.constraint2 (litR Gen.S3.constraint2Lits) x1 x2

theorem dyR_pair (n : Int) (e : Nat) : dyR (n, e) = (n : ℝ) / 2 ^ e := by
  unfold dyR Dy.toRat
  push_cast
  rfl

theorem litR_eq (L : List Nat) (k : Nat) (n : Int) (e : Nat) (h : Dy.ofBits (L.getD k 0) = (n, e)) :
    litR L k = (n : ℝ) / 2 ^ e := by
  unfold litR; rw [h, dyR_pair]

/-- the real value of the double `1.2` -/
noncomputable def c12 : ℝ := 5404319552844595 / 2 ^ 52
/-- the real value of the double `2.2` -/
noncomputable def c22 : ℝ := 2476979795053773 / 2 ^ 50
/-- the real value of the double `0.01` -/
noncomputable def c001 : ℝ := 5764607523034235 / 2 ^ 59
/-- the real value of the double `6.283` -/
noncomputable def c6283 : ℝ := 7074029114692207 / 2 ^ 50

theorem lit_o0 : litR Gen.S3.objectiveLits 0 = 1 / 2 := by
  rw [litR_eq _ _ 4503599627370496 53 (by decide +kernel)]; norm_num
theorem lit_o1 : litR Gen.S3.objectiveLits 1 = 1 / 2 := by
  rw [litR_eq _ _ 4503599627370496 53 (by decide +kernel)]; norm_num
theorem lit_o2 : litR Gen.S3.objectiveLits 2 = 4 := by
  rw [litR_eq _ _ 4503599627370496 50 (by decide +kernel)]; norm_num
theorem lit_o3 : litR Gen.S3.objectiveLits 3 = 1 := by
  rw [litR_eq _ _ 4503599627370496 52 (by decide +kernel)]; norm_num
theorem lit_o4 : litR Gen.S3.objectiveLits 4 = 4 := by
  rw [litR_eq _ _ 4503599627370496 50 (by decide +kernel)]; norm_num
theorem lit_o5 : litR Gen.S3.objectiveLits 5 = 3 / 2 := by
  rw [litR_eq _ _ 6755399441055744 52 (by decide +kernel)]; norm_num
theorem lit_o6 : litR Gen.S3.objectiveLits 6 = 1 := by
  rw [litR_eq _ _ 4503599627370496 52 (by decide +kernel)]; norm_num
theorem lit_o7 : litR Gen.S3.objectiveLits 7 = 81 / 4 := by
  rw [litR_eq _ _ 5699868278390784 48 (by decide +kernel)]; norm_num
theorem lit_o8 : litR Gen.S3.objectiveLits 8 = 2 := by
  rw [litR_eq _ _ 4503599627370496 51 (by decide +kernel)]; norm_num
theorem lit_a0 : litR Gen.S3.constraint0Lits 0 = c001 := by
  rw [litR_eq _ _ 5764607523034235 59 (by decide +kernel)]; unfold c001; norm_num
theorem lit_a1 : litR Gen.S3.constraint0Lits 1 = c22 := by
  rw [litR_eq _ _ 4953959590107546 51 (by decide +kernel)]; unfold c22; norm_num
theorem lit_a2 : litR Gen.S3.constraint0Lits 2 = c22 := by
  rw [litR_eq _ _ 4953959590107546 51 (by decide +kernel)]; unfold c22; norm_num
theorem lit_a3 : litR Gen.S3.constraint0Lits 3 = c12 := by
  rw [litR_eq _ _ 5404319552844595 52 (by decide +kernel)]; unfold c12; norm_num
theorem lit_a4 : litR Gen.S3.constraint0Lits 4 = c12 := by
  rw [litR_eq _ _ 5404319552844595 52 (by decide +kernel)]; unfold c12; norm_num
theorem lit_a5 : litR Gen.S3.constraint0Lits 5 = 9 / 4 := by
  rw [litR_eq _ _ 5066549580791808 51 (by decide +kernel)]; norm_num
theorem lit_b0 : litR Gen.S3.constraint1Lits 0 = 100 := by
  rw [litR_eq _ _ 7036874417766400 46 (by decide +kernel)]; norm_num
theorem lit_b1 : litR Gen.S3.constraint1Lits 1 = 1 := by
  rw [litR_eq _ _ 4503599627370496 52 (by decide +kernel)]; norm_num
theorem lit_b2 : litR Gen.S3.constraint1Lits 2 = 2 := by
  rw [litR_eq _ _ 4503599627370496 51 (by decide +kernel)]; norm_num
theorem lit_b3 : litR Gen.S3.constraint1Lits 3 = c12 := by
  rw [litR_eq _ _ 5404319552844595 52 (by decide +kernel)]; unfold c12; norm_num
theorem lit_b4 : litR Gen.S3.constraint1Lits 4 = 2 := by
  rw [litR_eq _ _ 4503599627370496 51 (by decide +kernel)]; norm_num
theorem lit_b5 : litR Gen.S3.constraint1Lits 5 = c12 := by
  rw [litR_eq _ _ 5404319552844595 52 (by decide +kernel)]; unfold c12; norm_num
theorem lit_b6 : litR Gen.S3.constraint1Lits 6 = 2 := by
  rw [litR_eq _ _ 4503599627370496 51 (by decide +kernel)]; norm_num
theorem lit_b7 : litR Gen.S3.constraint1Lits 7 = 2 := by
  rw [litR_eq _ _ 4503599627370496 51 (by decide +kernel)]; norm_num
theorem lit_c0 : litR Gen.S3.constraint2Lits 0 = 10 := by
  rw [litR_eq _ _ 5629499534213120 49 (by decide +kernel)]; norm_num
theorem lit_c1 : litR Gen.S3.constraint2Lits 1 = 3 / 2 := by
  rw [litR_eq _ _ 6755399441055744 52 (by decide +kernel)]; norm_num
theorem lit_c2 : litR Gen.S3.constraint2Lits 2 = 3 / 2 := by
  rw [litR_eq _ _ 6755399441055744 52 (by decide +kernel)]; norm_num
theorem lit_c3 : litR Gen.S3.constraint2Lits 3 = c6283 := by
  rw [litR_eq _ _ 7074029114692207 50 (by decide +kernel)]; unfold c6283; norm_num
theorem lit_c4 : litR Gen.S3.constraint2Lits 4 = 7 / 4 := by
  rw [litR_eq _ _ 7881299347898368 52 (by decide +kernel)]; norm_num

/-- the terms of the objective: `f = -(A + B)` -/
noncomputable def A (x1 x2 : ℝ) : ℝ := 3 / 2 * x1 ^ 2 * Real.exp (1 - x1 ^ 2 - 81 / 4 * (x1 - x2) ^ 2)
noncomputable def t1 (x1 : ℝ) : ℝ := ((x1 - 1) / 2) ^ 4
noncomputable def t2 (x2 : ℝ) : ℝ := (x2 - 1) ^ 4
noncomputable def B (x1 x2 : ℝ) : ℝ := t1 x1 * t2 x2 * Real.exp (2 - t1 x1 - t2 x2)

theorem f_eq (x1 x2 : ℝ) : f x1 x2 = -(A x1 x2 + B x1 x2) := by
  unfold f Gen.S3.objective A B t1 t2
  simp only [lit_o0, lit_o1, lit_o2, lit_o3, lit_o4, lit_o5, lit_o6, lit_o7, lit_o8, BenchReal.exp_eq, BenchReal.pow_eq]
  have h4 : ∀ y : ℝ, y ^ (4 : ℝ) = y ^ 4 := fun y => by
    rw [show (4 : ℝ) = ((4 : ℕ) : ℝ) by norm_num, Real.rpow_natCast]
  simp only [h4]
  have e1 : (1 / 2 * x1 - 1 / 2 : ℝ) = (x1 - 1) / 2 := by ring
  rw [e1]
  have e2 : (1 : ℝ) - x1 * x1 - 81 / 4 * (x1 - x2) * (x1 - x2) = 1 - x1 ^ 2 - 81 / 4 * (x1 - x2) ^ 2 := by ring
  rw [e2]
  ring

theorem g0_eq (x1 x2 : ℝ) : g0 x1 x2 = c001 * ((x1 - c22) ^ 2 + (x2 - c12) ^ 2 - 9 / 4) := by
  unfold g0 Gen.S3.constraint0
  simp only [lit_a0, lit_a1, lit_a2, lit_a3, lit_a4, lit_a5]
  ring

theorem g1_eq (x1 x2 : ℝ) : g1 x1 x2 = 100 * (1 - ((x1 - 2) / c12) ^ 2 - (x2 / 2) ^ 2) := by
  unfold g1 Gen.S3.constraint1
  simp only [lit_b0, lit_b1, lit_b2, lit_b3, lit_b4, lit_b5, lit_b6, lit_b7]
  ring

theorem g2_eq (x1 x2 : ℝ) : g2 x1 x2 = 10 * (x2 - 3 / 2 - 3 / 2 * Real.sin (c6283 * (x1 - 7 / 4))) := by
  unfold g2 Gen.S3.constraint2
  simp only [lit_c0, lit_c1, lit_c2, lit_c3, lit_c4, BenchReal.sin_eq]

end S3
