import IOptProofs.ShekelTabDeriv
/-!
# Shekel: soundness of the leaf tests and of the bisections `gbnb`, `lipT`, `wit`
-/

namespace Shk

@[simp] theorem force_eq {α : Type} (n : Nat) (k : Nat → α) : force n k = k n := by
  cases n <;> rfl

@[simp] theorem forceDTs_eq : ∀ (ds : List DT) (k : List DT → Bool), forceDTs ds k = k ds
  | [], k => rfl
  | ⟨a, b, c, d, e⟩ :: ds, k => by simp [forceDTs, forceDTs_eq ds]

theorem sumL_cons (h : NTerm → Nat) (t : NTerm) (ts : List NTerm) : sumL h (t :: ts) = h t + sumL h ts := rfl

theorem sUpR_eq (A : Nat) (lo hi : Nat) : ∀ ts : List NTerm, sUpR A ts lo hi = sUp A ts lo hi
  | [] => rfl
  | t :: ts => by
    show tUp A t lo hi + sUpR A ts lo hi = Nat.add (tUp A t lo hi) (sUp A ts lo hi)
    rw [sUpR_eq A lo hi ts]; rfl

theorem sDnR_eq (A : Nat) (lo hi : Nat) : ∀ ts : List NTerm, sDnR A ts lo hi = sDn A ts lo hi
  | [] => rfl
  | t :: ts => by
    show tDn A t lo hi + sDnR A ts lo hi = Nat.add (tDn A t lo hi) (sDn A ts lo hi)
    rw [sDnR_eq A lo hi ts]; rfl

/-! ### leaf tests -/

section leaves
variable (E : Nat) (ts : List NTerm) (hts : ∀ t ∈ ts, 0 < t.2.2)
include hts

theorem vLo_sound (T lo hi : Nat) (h : vLo (2 ^ (3 * E + P)) ts T lo hi = true) (x : ℝ)
    (h1 : (lo : ℝ) ≤ x * 2 ^ E) (h2 : x * 2 ^ E ≤ (hi : ℝ)) : -(T : ℝ) / 2 ^ P ≤ fR E ts x := by
  unfold vLo at h
  rw [sUpR_eq] at h
  have hle : (sUp (2 ^ (3 * E + P)) ts lo hi : ℝ) ≤ T := by exact_mod_cast Nat.le_of_ble_eq_true h
  have hs := sUp_sound E lo hi x h1 h2 ts hts
  unfold fR
  have : (sUp (2 ^ (3 * E + P)) ts lo hi : ℝ) / 2 ^ P ≤ (T : ℝ) / 2 ^ P :=
    div_le_div_of_nonneg_right hle (two_pow_pos' P).le
  rw [neg_div]; linarith

theorem vHi_sound (T lo hi : Nat) (h : vHi (2 ^ (3 * E + P)) ts T lo hi = true) (x : ℝ)
    (h1 : (lo : ℝ) ≤ x * 2 ^ E) (h2 : x * 2 ^ E ≤ (hi : ℝ)) : fR E ts x ≤ -(T : ℝ) / 2 ^ P := by
  unfold vHi at h
  rw [sDnR_eq] at h
  have hle : (T : ℝ) ≤ sDn (2 ^ (3 * E + P)) ts lo hi := by exact_mod_cast Nat.le_of_ble_eq_true h
  have hs := sDn_sound E lo hi x h1 h2 ts hts
  unfold fR
  have : (T : ℝ) / 2 ^ P ≤ (sDn (2 ^ (3 * E + P)) ts lo hi : ℝ) / 2 ^ P :=
    div_le_div_of_nonneg_right hle (two_pow_pos' P).le
  rw [neg_div]; linarith

theorem ds_ok : ∀ d ∈ ts.map (mkDT (2 ^ (4 * E + P))), DTok d := by
  intro d hd
  obtain ⟨t, ht, rfl⟩ := List.mem_map.1 hd
  exact mkDT_ok _ t (hts t ht)

/-- the enclosure of the derivative on a box -/
theorem dfR_box (lo hi : Nat) (x : ℝ) (h1 : (lo : ℝ) ≤ x * 2 ^ E) (h2 : x * 2 ^ E ≤ (hi : ℝ)) :
    dfR E ts x * 2 ^ P ≤ (sPU (ts.map (mkDT (2 ^ (4 * E + P)))) lo hi : ℝ)
        - (sNL (ts.map (mkDT (2 ^ (4 * E + P)))) lo hi : ℝ) ∧
    (sPL (ts.map (mkDT (2 ^ (4 * E + P)))) lo hi : ℝ)
        - (sNU (ts.map (mkDT (2 ^ (4 * E + P)))) lo hi : ℝ) ≤ dfR E ts x * 2 ^ P := by
  have hok := ds_ok E ts hts
  rw [dfR_scaled E ts hts x]
  have a1 := sPU_sound _ hok lo hi _ h1 h2
  have a2 := sPL_sound _ hok lo hi _ h1 h2
  have a3 := sNU_sound _ hok lo hi _ h1 h2
  have a4 := sNL_sound _ hok lo hi _ h1 h2
  constructor <;> linarith

theorem dNeg_sound (lo hi : Nat) (h : dNeg (ts.map (mkDT (2 ^ (4 * E + P)))) lo hi = true) (x : ℝ)
    (h1 : (lo : ℝ) ≤ x * 2 ^ E) (h2 : x * 2 ^ E ≤ (hi : ℝ)) : dfR E ts x < 0 := by
  have hb := (dfR_box E ts hts lo hi x h1 h2).1
  have hlt : (sPU (ts.map (mkDT (2 ^ (4 * E + P)))) lo hi : ℝ) < sNL (ts.map (mkDT (2 ^ (4 * E + P)))) lo hi := by
    exact_mod_cast lt_of_blt h
  have hP := two_pow_pos' P
  nlinarith

theorem dPos_sound (lo hi : Nat) (h : dPos (ts.map (mkDT (2 ^ (4 * E + P)))) lo hi = true) (x : ℝ)
    (h1 : (lo : ℝ) ≤ x * 2 ^ E) (h2 : x * 2 ^ E ≤ (hi : ℝ)) : 0 < dfR E ts x := by
  have hb := (dfR_box E ts hts lo hi x h1 h2).2
  have hlt : (sNU (ts.map (mkDT (2 ^ (4 * E + P)))) lo hi : ℝ) < sPL (ts.map (mkDT (2 ^ (4 * E + P)))) lo hi := by
    exact_mod_cast lt_of_blt h
  have hP := two_pow_pos' P
  nlinarith

theorem lipUp_sound (Tu lo hi : Nat) (h : lipUp (ts.map (mkDT (2 ^ (4 * E + P)))) Tu lo hi = true) (x : ℝ)
    (h1 : (lo : ℝ) ≤ x * 2 ^ E) (h2 : x * 2 ^ E ≤ (hi : ℝ)) : |dfR E ts x| ≤ (Tu : ℝ) / 2 ^ P := by
  obtain ⟨hb1, hb2⟩ := dfR_box E ts hts lo hi x h1 h2
  set ds := ts.map (mkDT (2 ^ (4 * E + P)))
  unfold lipUp at h
  simp only [Bool.and_eq_true, Bool.or_eq_true] at h
  obtain ⟨hu, hl⟩ := h
  have n1 : (0 : ℝ) ≤ sNL ds lo hi := Nat.cast_nonneg _
  have n2 : (0 : ℝ) ≤ sPL ds lo hi := Nat.cast_nonneg _
  have hu' : (sPU ds lo hi : ℝ) ≤ (sNL ds lo hi : ℝ) + Tu := by
    rcases hu with hu | hu
    · have : (sPU ds lo hi : ℝ) ≤ Tu := by exact_mod_cast Nat.le_of_ble_eq_true hu
      linarith
    · have := Nat.le_of_ble_eq_true hu
      exact_mod_cast this
  have hl' : (sNU ds lo hi : ℝ) ≤ (sPL ds lo hi : ℝ) + Tu := by
    rcases hl with hl | hl
    · have : (sNU ds lo hi : ℝ) ≤ Tu := by exact_mod_cast Nat.le_of_ble_eq_true hl
      linarith
    · have := Nat.le_of_ble_eq_true hl
      exact_mod_cast this
  have hP := two_pow_pos' P
  have key : |dfR E ts x * 2 ^ P| ≤ (Tu : ℝ) := abs_le.2 ⟨by linarith, by linarith⟩
  rw [abs_mul, abs_of_pos hP] at key
  exact (le_div_iff₀ hP).2 key

theorem ptOK_sound (Tl m : Nat) (h : ptOK (ts.map (mkDT (2 ^ (4 * E + P)))) Tl m = true) :
    (Tl : ℝ) / 2 ^ P ≤ |dfR E ts ((m : ℝ) / 2 ^ E)| := by
  have h2E : (0 : ℝ) < 2 ^ E := by positivity
  have hm : (m : ℝ) / 2 ^ E * 2 ^ E = m := by field_simp
  obtain ⟨hb1, hb2⟩ := dfR_box E ts hts m m ((m : ℝ) / 2 ^ E) hm.ge hm.le
  set ds := ts.map (mkDT (2 ^ (4 * E + P)))
  unfold ptOK at h
  simp only [Bool.and_eq_true, Bool.or_eq_true] at h
  have hP := two_pow_pos' P
  rw [div_le_iff₀ hP]
  rcases h with ⟨_, h⟩ | ⟨_, h⟩
  · have : ((sNU ds m m : ℝ)) + Tl ≤ sPL ds m m := by exact_mod_cast Nat.le_of_ble_eq_true h
    have h0 : 0 ≤ dfR E ts ((m : ℝ) / 2 ^ E) * 2 ^ P := by
      have : (0 : ℝ) ≤ Tl := Nat.cast_nonneg _
      linarith
    rw [abs_of_nonneg (nonneg_of_mul_nonneg_left h0 hP)]
    linarith
  · have : ((sPU ds m m : ℝ)) + Tl ≤ sNL ds m m := by exact_mod_cast Nat.le_of_ble_eq_true h
    have h0 : dfR E ts ((m : ℝ) / 2 ^ E) * 2 ^ P ≤ 0 := by
      have : (0 : ℝ) ≤ Tl := Nat.cast_nonneg _
      linarith
    have : dfR E ts ((m : ℝ) / 2 ^ E) ≤ 0 := by
      by_contra hc
      have := mul_pos (not_le.1 hc) hP
      linarith
    rw [abs_of_nonpos this]
    linarith

end leaves

/-! ### `gbnb` -/

theorem gbnb_zero (leaf : Nat → Nat → Bool) (lo hi : Nat) : gbnb leaf 0 lo hi = leaf lo hi := rfl
theorem gbnb_succ (leaf : Nat → Nat → Bool) (fuel lo hi : Nat) :
    gbnb leaf (fuel + 1) lo hi = gbnbStep leaf (gbnb leaf fuel) lo hi := rfl

/-- soundness of the generic bisection: a property that holds on every accepted box holds on `[lo, hi]` -/
theorem gbnb_sound (E : Nat) (Q : ℝ → Prop) (leaf : Nat → Nat → Bool)
    (hleaf : ∀ lo hi : Nat, leaf lo hi = true → ∀ x : ℝ, (lo : ℝ) ≤ x * 2 ^ E → x * 2 ^ E ≤ (hi : ℝ) → Q x) :
    ∀ (fuel lo hi : Nat), gbnb leaf fuel lo hi = true →
      ∀ x : ℝ, (lo : ℝ) ≤ x * 2 ^ E → x * 2 ^ E ≤ (hi : ℝ) → Q x := by
  intro fuel
  induction fuel with
  | zero => intro lo hi h; exact hleaf lo hi h
  | succ fuel ih =>
    intro lo hi h x h1 h2
    rw [gbnb_succ] at h
    simp only [gbnbStep, Bool.or_eq_true, Bool.and_eq_true, force_eq] at h
    rcases h with h | ⟨_, hl, hr⟩
    · exact hleaf lo hi h x h1 h2
    · rcases le_total (x * 2 ^ E) ((Nat.div (Nat.add lo hi) 2 : Nat) : ℝ) with hm | hm
      · exact ih lo _ hl x h1 hm
      · exact ih _ hi hr x hm h2

/-! ### `lipT` and `wit` -/

theorem mid_mem {lo hi : Nat} (h : lo ≤ hi) : lo ≤ Nat.div (Nat.add lo hi) 2 ∧ Nat.div (Nat.add lo hi) 2 ≤ hi := by
  show lo ≤ (lo + hi) / 2 ∧ (lo + hi) / 2 ≤ hi
  omega

theorem lipEval_ne_zero {ds : List DT} {Tu Tl : Nat} {need : Bool} {lo hi : Nat}
    (h : lipEval ds Tu Tl need lo hi ≠ 0) : lipUp ds Tu lo hi = true := by
  unfold lipEval at h
  cases hu : lipUp ds Tu lo hi with
  | true => rfl
  | false => rw [hu] at h; exact absurd rfl h

theorem lipEval_two {ds : List DT} {Tu Tl : Nat} {need : Bool} {lo hi : Nat}
    (h : 2 ≤ lipEval ds Tu Tl need lo hi) : ptOK ds Tl (Nat.div (Nat.add lo hi) 2) = true := by
  unfold lipEval at h
  cases hu : lipUp ds Tu lo hi with
  | false => rw [hu] at h; simp at h
  | true =>
    rw [hu] at h
    simp only [cond_true] at h
    cases hc : (need && lipCand ds Tl lo hi && ptOK ds Tl (Nat.div (Nat.add lo hi) 2)) with
    | false => rw [hc] at h; simp at h
    | true =>
      simp only [Bool.and_eq_true] at hc
      exact hc.2

theorem lipT_zero (ds : List DT) (Tu Tl : Nat) (need : Bool) (lo hi : Nat) :
    lipT ds Tu Tl 0 need lo hi = lipEval ds Tu Tl need lo hi := rfl
theorem lipT_succ (ds : List DT) (Tu Tl fuel : Nat) (need : Bool) (lo hi : Nat) :
    lipT ds Tu Tl (fuel + 1) need lo hi = lipStep ds Tu Tl (lipT ds Tu Tl fuel) need lo hi := rfl

/-- case analysis of one step of `lipT` -/
theorem lipStep_cases (ds : List DT) (Tu Tl : Nat) (ih : Bool → Nat → Nat → Nat) (need : Bool) (lo hi : Nat) :
    (lipEval ds Tu Tl need lo hi ≠ 0 ∧ lipStep ds Tu Tl ih need lo hi = lipEval ds Tu Tl need lo hi) ∨
    (lipStep ds Tu Tl ih need lo hi = 0) ∨
    (lo + 1 < hi ∧ ∃ need', ih need lo (Nat.div (Nat.add lo hi) 2) ≠ 0 ∧
      ih need' (Nat.div (Nat.add lo hi) 2) hi ≠ 0 ∧
      (lipStep ds Tu Tl ih need lo hi = ih need lo (Nat.div (Nat.add lo hi) 2) ∨
       lipStep ds Tu Tl ih need lo hi = ih need' (Nat.div (Nat.add lo hi) 2) hi)) := by
  unfold lipStep
  simp only [force_eq]
  cases hc : Nat.blt 0 (lipEval ds Tu Tl need lo hi) with
  | true =>
    left
    exact ⟨Nat.pos_iff_ne_zero.1 (lt_of_blt hc), by simp⟩
  | false =>
    right
    simp only [cond_false]
    cases hs : Nat.blt (Nat.add lo 1) hi with
    | false => left; simp
    | true =>
      simp only [cond_true]
      cases hl : Nat.beq (ih need lo (Nat.div (Nat.add lo hi) 2)) 0 with
      | true => left; simp
      | false =>
        simp only [cond_false]
        cases hr : Nat.beq (ih (need && Nat.blt (ih need lo (Nat.div (Nat.add lo hi) 2)) 2)
            (Nat.div (Nat.add lo hi) 2) hi) 0 with
        | true => left; simp
        | false =>
          right
          simp only [cond_false]
          refine ⟨lt_of_blt hs, (need && Nat.blt (ih need lo (Nat.div (Nat.add lo hi) 2)) 2), ?_, ?_, ?_⟩
          · intro h0; rw [h0] at hl; simp at hl
          · intro h0; rw [h0] at hr; simp at hr
          · cases hle : Nat.ble (ih need lo (Nat.div (Nat.add lo hi) 2))
                (ih (need && Nat.blt (ih need lo (Nat.div (Nat.add lo hi) 2)) 2) (Nat.div (Nat.add lo hi) 2) hi) with
            | true => right; simp
            | false => left; simp

section lip
variable (E : Nat) (ts : List NTerm) (hts : ∀ t ∈ ts, 0 < t.2.2) (Tu Tl : Nat)
include hts

/-- a non-zero result of `lipT` bounds `|f'|` on the whole box -/
theorem lipT_bound : ∀ (fuel : Nat) (need : Bool) (lo hi : Nat),
    lipT (ts.map (mkDT (2 ^ (4 * E + P)))) Tu Tl fuel need lo hi ≠ 0 →
    ∀ x : ℝ, (lo : ℝ) ≤ x * 2 ^ E → x * 2 ^ E ≤ (hi : ℝ) → |dfR E ts x| ≤ (Tu : ℝ) / 2 ^ P := by
  intro fuel
  induction fuel with
  | zero =>
    intro need lo hi h x h1 h2
    rw [lipT_zero] at h
    exact lipUp_sound E ts hts Tu lo hi (lipEval_ne_zero h) x h1 h2
  | succ fuel ih =>
    intro need lo hi h x h1 h2
    rw [lipT_succ] at h
    rcases lipStep_cases (ts.map (mkDT (2 ^ (4 * E + P)))) Tu Tl
        (lipT (ts.map (mkDT (2 ^ (4 * E + P)))) Tu Tl fuel) need lo hi with ⟨hne, _⟩ | h0 | ⟨_, need', hl, hr, _⟩
    · exact lipUp_sound E ts hts Tu lo hi (lipEval_ne_zero hne) x h1 h2
    · exact absurd h0 h
    · rcases le_total (x * 2 ^ E) ((Nat.div (Nat.add lo hi) 2 : Nat) : ℝ) with hm | hm
      · exact ih need lo _ hl x h1 hm
      · exact ih need' _ hi hr x hm h2

omit hts in
/-- a result `≥ 2` of `lipT` comes with a witness point in the box -/
theorem lipT_witness (ds : List DT) : ∀ (fuel : Nat) (need : Bool) (lo hi : Nat), lo ≤ hi →
    2 ≤ lipT ds Tu Tl fuel need lo hi → ∃ m : Nat, lo ≤ m ∧ m ≤ hi ∧ ptOK ds Tl m = true := by
  intro fuel
  induction fuel with
  | zero =>
    intro need lo hi hle h
    rw [lipT_zero] at h
    exact ⟨_, (mid_mem hle).1, (mid_mem hle).2, lipEval_two h⟩
  | succ fuel ih =>
    intro need lo hi hle h
    rw [lipT_succ] at h
    rcases lipStep_cases ds Tu Tl (lipT ds Tu Tl fuel) need lo hi with ⟨_, he⟩ | h0 | ⟨_, need', _, _, he | he⟩
    · rw [he] at h
      exact ⟨_, (mid_mem hle).1, (mid_mem hle).2, lipEval_two h⟩
    · rw [h0] at h; omega
    · rw [he] at h
      obtain ⟨m, m1, m2, m3⟩ := ih need lo _ (mid_mem hle).1 h
      exact ⟨m, m1, m2.trans (mid_mem hle).2, m3⟩
    · rw [he] at h
      obtain ⟨m, m1, m2, m3⟩ := ih need' _ hi (mid_mem hle).2 h
      exact ⟨m, (mid_mem hle).1.trans m1, m2, m3⟩

end lip

theorem wit_zero (ds : List DT) (Tl lo hi : Nat) :
    wit ds Tl 0 lo hi = ptOK ds Tl (Nat.div (Nat.add lo hi) 2) := rfl
theorem wit_succ (ds : List DT) (Tl fuel lo hi : Nat) :
    wit ds Tl (fuel + 1) lo hi = witStep ds Tl (wit ds Tl fuel) lo hi := rfl

theorem wit_sound (ds : List DT) (Tl : Nat) : ∀ (fuel lo hi : Nat), lo ≤ hi → wit ds Tl fuel lo hi = true →
    ∃ m : Nat, lo ≤ m ∧ m ≤ hi ∧ ptOK ds Tl m = true := by
  intro fuel
  induction fuel with
  | zero =>
    intro lo hi hle h
    rw [wit_zero] at h
    exact ⟨_, (mid_mem hle).1, (mid_mem hle).2, h⟩
  | succ fuel ih =>
    intro lo hi hle h
    rw [wit_succ] at h
    simp only [witStep, force_eq, Bool.and_eq_true, Bool.or_eq_true] at h
    rcases h.2 with hp | ⟨_, hl | hr⟩
    · exact ⟨_, (mid_mem hle).1, (mid_mem hle).2, hp⟩
    · obtain ⟨m, m1, m2, m3⟩ := ih lo _ (mid_mem hle).1 hl
      exact ⟨m, m1, m2.trans (mid_mem hle).2, m3⟩
    · obtain ⟨m, m1, m2, m3⟩ := ih _ hi (mid_mem hle).2 hr
      exact ⟨m, (mid_mem hle).1.trans m1, m2, m3⟩

/-- **the Lipschitz clause over ℝ**: `|f'| ≤ Tu/2^P` on `[0, X10/2^E]`, attained up to `Tl/2^P` -/
theorem lipOK_sound (E : Nat) (ts : List NTerm) (hts : ∀ t ∈ ts, 0 < t.2.2) (Tu Tl X10 : Nat)
    (h : lipOK (ts.map (mkDT (2 ^ (4 * E + P)))) Tu Tl X10 = true) :
    (∀ x : ℝ, 0 ≤ x * 2 ^ E → x * 2 ^ E ≤ (X10 : ℝ) → |dfR E ts x| ≤ (Tu : ℝ) / 2 ^ P) ∧
    (∃ m : Nat, m ≤ X10 ∧ (Tl : ℝ) / 2 ^ P ≤ |dfR E ts ((m : ℝ) / 2 ^ E)|) := by
  unfold lipOK at h
  simp only [force_eq, Bool.or_eq_true, Bool.and_eq_true] at h
  set c := lipT (ts.map (mkDT (2 ^ (4 * E + P)))) Tu Tl 64 true 0 X10 with hc
  have hne : c ≠ 0 := by
    rcases h with h | ⟨h, _⟩
    · have := Nat.le_of_ble_eq_true h; omega
    · have := Nat.eq_of_beq_eq_true h; omega
  constructor
  · intro x h1 h2
    exact lipT_bound E ts hts Tu Tl 64 true 0 X10 hne x (by simpa using h1) h2
  · have hw : ∃ m : Nat, 0 ≤ m ∧ m ≤ X10 ∧ ptOK (ts.map (mkDT (2 ^ (4 * E + P)))) Tl m = true := by
      rcases h with h | ⟨_, h⟩
      · exact lipT_witness Tu Tl _ 64 true 0 X10 (Nat.zero_le _) (Nat.le_of_ble_eq_true h)
      · exact wit_sound _ Tl 64 0 X10 (Nat.zero_le _) h
    obtain ⟨m, _, m2, m3⟩ := hw
    exact ⟨m, m2, ptOK_sound E ts hts Tl m m3⟩

end Shk
