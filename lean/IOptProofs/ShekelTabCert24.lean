import IOptProofs.ShekelTabDefs
/-! kernel-evaluated C18 table certificates (min / max / Lipschitz tables) of the Shekel functions 480..499
(one block per file, identical template; four kernel evaluations of 5 rows each keep the memory near 1 GB) -/
namespace Shk
set_option maxRecDepth 100000 in
theorem shekel_tab_block_24_a : ∀ i ∈ List.range' 480 5, shekelTabOK i = true := by decide +kernel
set_option maxRecDepth 100000 in
theorem shekel_tab_block_24_b : ∀ i ∈ List.range' 485 5, shekelTabOK i = true := by decide +kernel
set_option maxRecDepth 100000 in
theorem shekel_tab_block_24_c : ∀ i ∈ List.range' 490 5, shekelTabOK i = true := by decide +kernel
set_option maxRecDepth 100000 in
theorem shekel_tab_block_24_d : ∀ i ∈ List.range' 495 5, shekelTabOK i = true := by decide +kernel
theorem shekel_tab_block_24 : ∀ i ∈ List.range' 480 20, shekelTabOK i = true := by
  intro i hi
  have hi' := List.mem_range'_1.1 hi
  if h1 : i < 485 then exact shekel_tab_block_24_a i (List.mem_range'_1.2 ⟨by omega, by omega⟩) else
  if h2 : i < 490 then exact shekel_tab_block_24_b i (List.mem_range'_1.2 ⟨by omega, by omega⟩) else
  if h3 : i < 495 then exact shekel_tab_block_24_c i (List.mem_range'_1.2 ⟨by omega, by omega⟩) else
  exact shekel_tab_block_24_d i (List.mem_range'_1.2 ⟨by omega, by omega⟩)
end Shk
