import Mathlib.Analysis.Calculus.Deriv.MeanValue
import Mathlib.Analysis.Calculus.Deriv.Pow
import Mathlib.Analysis.Calculus.Deriv.Mul
import Mathlib.Analysis.Calculus.Deriv.Add
import Mathlib.Tactic.Linarith
import Mathlib.Tactic.Ring
import Mathlib.Tactic.Positivity
/-!
# Enclosure kit, real analysis part 1: Taylor bounds with explicit remainder from derivative bounds

`abs_le_of_deriv_bound`: if `h c = 0` and `|h' x| ≤ K |x - c|^n` everywhere then
`|h x| ≤ K |x - c|^(n+1) / (n+1)`.  Three applications give the third-order Taylor bounds used by the
leaf tests of the bisection certificates (`taylor3`).
-/

namespace Encl

/-- one-sided case of `abs_le_of_deriv_bound` -/
theorem abs_le_of_deriv_bound_right {h h' : ℝ → ℝ} {c K : ℝ} {n : ℕ}
    (hd : ∀ x, HasDerivAt h (h' x) x) (hc : h c = 0)
    (hb : ∀ x, c ≤ x → |h' x| ≤ K * (x - c) ^ n) {x : ℝ} (hx : c ≤ x) :
    |h x| ≤ K * (x - c) ^ (n + 1) / (n + 1) := by
  have hn : (0 : ℝ) < (n : ℝ) + 1 := by positivity
  -- the two auxiliary functions `K (y-c)^(n+1)/(n+1) ∓ h y` are monotone on `[c, ∞)`
  have key : ∀ s : ℝ, (s = 1 ∨ s = -1) →
      s * h x ≤ K * (x - c) ^ (n + 1) / (n + 1) := by
    intro s hs
    set G : ℝ → ℝ := fun y => K * (y - c) ^ (n + 1) / (n + 1) - s * h y with hG
    have hGd : ∀ y, HasDerivAt G (K * (y - c) ^ n - s * h' y) y := by
      intro y
      have h1 : HasDerivAt (fun y : ℝ => (y - c) ^ (n + 1)) (((n + 1 : ℕ) : ℝ) * (y - c) ^ n * 1) y := by
        simpa using ((hasDerivAt_id' y).sub_const c).fun_pow (n + 1)
      have h2 : HasDerivAt (fun y : ℝ => K * (y - c) ^ (n + 1) / (n + 1))
          (K * (((n + 1 : ℕ) : ℝ) * (y - c) ^ n * 1) / (n + 1)) y :=
        (h1.const_mul K).div_const _
      have h3 := h2.fun_sub ((hd y).const_mul s)
      have e : K * (((n + 1 : ℕ) : ℝ) * (y - c) ^ n * 1) / (n + 1) - s * h' y
          = K * (y - c) ^ n - s * h' y := by
        push_cast
        field_simp
      rw [e] at h3
      exact h3
    have hmono : MonotoneOn G (Set.Ici c) := by
      apply monotoneOn_of_deriv_nonneg (convex_Ici c)
      · exact fun y _ => (hGd y).continuousAt.continuousWithinAt
      · exact fun y _ => (hGd y).differentiableAt.differentiableWithinAt
      · intro y hy
        rw [interior_Ici] at hy
        rw [(hGd y).deriv]
        have hy' : c ≤ y := le_of_lt hy
        have := hb y hy'
        rcases hs with rfl | rfl
        · have := (abs_le.mp this).2; linarith
        · have := (abs_le.mp this).1; linarith
    have := hmono (Set.mem_Ici.mpr le_rfl) (Set.mem_Ici.mpr hx) hx
    simp only [hG, hc, sub_self, mul_zero, sub_zero] at this
    have z : K * (0 : ℝ) ^ (n + 1) / (n + 1) = 0 := by simp
    rw [z] at this
    linarith
  rw [abs_le]
  constructor
  · have := key (-1) (Or.inr rfl); linarith
  · have := key 1 (Or.inl rfl); linarith

/-- if `h c = 0` and `|h' x| ≤ K |x - c|^n` for all `x`, then `|h x| ≤ K |x - c|^(n+1) / (n+1)` -/
theorem abs_le_of_deriv_bound {h h' : ℝ → ℝ} {c K : ℝ} {n : ℕ}
    (hd : ∀ x, HasDerivAt h (h' x) x) (hc : h c = 0)
    (hb : ∀ x, |h' x| ≤ K * |x - c| ^ n) (x : ℝ) :
    |h x| ≤ K * |x - c| ^ (n + 1) / (n + 1) := by
  rcases le_total c x with hx | hx
  · have := abs_le_of_deriv_bound_right (n := n) (K := K) hd hc
      (fun y hy => by simpa [abs_of_nonneg (sub_nonneg.mpr hy)] using hb y) hx
    rwa [abs_of_nonneg (sub_nonneg.mpr hx)]
  · -- reflect about `c`
    set ht : ℝ → ℝ := fun y => h (2 * c - y) with hht
    have hdt : ∀ y, HasDerivAt ht (-(h' (2 * c - y))) y := by
      intro y
      have h1 : HasDerivAt (fun y : ℝ => 2 * c - y) (-1) y := by
        simpa using (hasDerivAt_id' y).const_sub (2 * c)
      have := (hd (2 * c - y)).comp y h1
      simpa [hht, Function.comp_def] using this
    have hct : ht c = 0 := by simp [hht, two_mul, hc]
    have hx' : c ≤ 2 * c - x := by linarith
    have := abs_le_of_deriv_bound_right (n := n) (K := K) hdt hct
      (fun y hy => by
        have := hb (2 * c - y)
        rw [abs_neg]
        have e : |2 * c - y - c| = y - c := by
          rw [show 2 * c - y - c = -(y - c) by ring, abs_neg, abs_of_nonneg (sub_nonneg.mpr hy)]
        rwa [e] at this) hx'
    have e1 : ht (2 * c - x) = h x := by simp [hht]
    have e2 : 2 * c - x - c = |x - c| := by
      rw [abs_of_nonpos (sub_nonpos.mpr hx)]; ring
    rwa [e1, e2] at this

/-- third-order Taylor bounds from a bound on the third derivative -/
theorem taylor3 {f f1 f2 f3 : ℝ → ℝ} {D : ℝ}
    (h0 : ∀ x, HasDerivAt f (f1 x) x) (h1 : ∀ x, HasDerivAt f1 (f2 x) x)
    (h2 : ∀ x, HasDerivAt f2 (f3 x) x) (hD : ∀ x, |f3 x| ≤ D) (c x : ℝ) :
    |f2 x - f2 c| ≤ D * |x - c| ∧
    |f1 x - f1 c - f2 c * (x - c)| ≤ D * |x - c| ^ 2 / 2 ∧
    |f x - f c - f1 c * (x - c) - f2 c * (x - c) ^ 2 / 2| ≤ D * |x - c| ^ 3 / 6 := by
  -- level 2
  have l2 : ∀ x, |f2 x - f2 c| ≤ D * |x - c| := by
    intro x
    have := abs_le_of_deriv_bound (h := fun x => f2 x - f2 c) (h' := f3) (c := c) (K := D) (n := 0)
      (fun x => (h2 x).sub_const _) (by simp) (fun x => by simpa using hD x) x
    simpa using this
  -- level 1
  have l1 : ∀ x, |f1 x - f1 c - f2 c * (x - c)| ≤ D * |x - c| ^ 2 / 2 := by
    intro x
    have hd : ∀ x, HasDerivAt (fun x => f1 x - f1 c - f2 c * (x - c)) (f2 x - f2 c) x := by
      intro x
      have := ((h1 x).sub_const (f1 c)).fun_sub ((((hasDerivAt_id' x).sub_const c)).const_mul (f2 c))
      simpa using this
    have := abs_le_of_deriv_bound (c := c) (K := D) (n := 1) hd (by simp)
      (fun x => by simpa using l2 x) x
    norm_num at this ⊢
    linarith
  refine ⟨l2 x, l1 x, ?_⟩
  have hd : ∀ x, HasDerivAt (fun x => f x - f c - f1 c * (x - c) - f2 c * (x - c) ^ 2 / 2)
      (f1 x - f1 c - f2 c * (x - c)) x := by
    intro x
    have hp : HasDerivAt (fun x : ℝ => (x - c) ^ 2) (((2 : ℕ) : ℝ) * (x - c) ^ 1 * 1) x := by
      simpa using ((hasDerivAt_id' x).sub_const c).fun_pow 2
    have := (((h0 x).sub_const (f c)).fun_sub ((((hasDerivAt_id' x).sub_const c)).const_mul (f1 c))).fun_sub
      ((hp.const_mul (f2 c)).div_const 2)
    exact this.congr_deriv (by push_cast; ring)
  have := abs_le_of_deriv_bound (c := c) (K := D / 2) (n := 2) hd (by simp)
    (fun x => by have := l1 x; linarith) x
  norm_num at this ⊢
  linarith

/-- the leaf bounds of the bisection: on `|x - c| ≤ ρ`,
`f x ≥ f c - |f' c| ρ - max(-f'' c, 0) ρ²/2 - D ρ³/6`, the symmetric upper bound, and
`|f' x| ≤ |f' c| + |f'' c| ρ + D ρ²/2` -/
theorem taylor3_leaf {f f1 f2 f3 : ℝ → ℝ} {D : ℝ}
    (h0 : ∀ x, HasDerivAt f (f1 x) x) (h1 : ∀ x, HasDerivAt f1 (f2 x) x)
    (h2 : ∀ x, HasDerivAt f2 (f3 x) x) (hD : ∀ x, |f3 x| ≤ D) {c x ρ : ℝ} (hx : |x - c| ≤ ρ) :
    f c - |f1 c| * ρ - max (-f2 c) 0 * ρ ^ 2 / 2 - D * ρ ^ 3 / 6 ≤ f x ∧
    f x ≤ f c + |f1 c| * ρ + max (f2 c) 0 * ρ ^ 2 / 2 + D * ρ ^ 3 / 6 ∧
    |f1 x| ≤ |f1 c| + |f2 c| * ρ + D * ρ ^ 2 / 2 := by
  obtain ⟨_, t1, t0⟩ := taylor3 h0 h1 h2 hD c x
  have hρ : 0 ≤ ρ := le_trans (abs_nonneg _) hx
  have hD0 : 0 ≤ D := le_trans (abs_nonneg _) (hD c)
  have hd := abs_nonneg (x - c)
  have p2 : |x - c| ^ 2 ≤ ρ ^ 2 := pow_le_pow_left₀ hd hx 2
  have p3 : |x - c| ^ 3 ≤ ρ ^ 3 := pow_le_pow_left₀ hd hx 3
  have sq : (x - c) ^ 2 = |x - c| ^ 2 := (sq_abs _).symm
  have a1 : |f1 c * (x - c)| ≤ |f1 c| * ρ := by
    rw [abs_mul]; exact mul_le_mul_of_nonneg_left hx (abs_nonneg _)
  have a1' := abs_le.mp a1
  have m1 : 0 ≤ max (-f2 c) 0 := le_max_right _ _
  have m2 : 0 ≤ max (f2 c) 0 := le_max_right _ _
  have b1 : -(max (-f2 c) 0 * ρ ^ 2) ≤ f2 c * (x - c) ^ 2 := by
    rw [sq]
    have : -(max (-f2 c) 0) ≤ f2 c := by have := le_max_left (-f2 c) 0; linarith
    nlinarith [sq_nonneg (|x - c|)]
  have b2 : f2 c * (x - c) ^ 2 ≤ max (f2 c) 0 * ρ ^ 2 := by
    rw [sq]
    have : f2 c ≤ max (f2 c) 0 := le_max_left _ _
    nlinarith [sq_nonneg (|x - c|)]
  have t0' := abs_le.mp t0
  have d3 : D * |x - c| ^ 3 / 6 ≤ D * ρ ^ 3 / 6 := by
    have := mul_le_mul_of_nonneg_left p3 hD0; linarith
  have d2 : D * |x - c| ^ 2 / 2 ≤ D * ρ ^ 2 / 2 := by
    have := mul_le_mul_of_nonneg_left p2 hD0; linarith
  refine ⟨by linarith [t0'.1], by linarith [t0'.2], ?_⟩
  have a2 : |f2 c * (x - c)| ≤ |f2 c| * ρ := by
    rw [abs_mul]; exact mul_le_mul_of_nonneg_left hx (abs_nonneg _)
  have : |f1 x| ≤ |f1 x - f1 c - f2 c * (x - c)| + |f1 c| + |f2 c * (x - c)| := by
    have e : f1 x = (f1 x - f1 c - f2 c * (x - c)) + f1 c + f2 c * (x - c) := by ring
    calc |f1 x| = |(f1 x - f1 c - f2 c * (x - c)) + f1 c + f2 c * (x - c)| := by rw [← e]
      _ ≤ |(f1 x - f1 c - f2 c * (x - c)) + f1 c| + |f2 c * (x - c)| := abs_add_le _ _
      _ ≤ _ := by gcongr; exact abs_add_le _ _
  linarith

end Encl
