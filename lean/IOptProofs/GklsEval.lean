import IOptProofs.GklsDefs
/-!
# Evaluation of the GKLS model on well-formed data

Which branch `Prob.gkls` takes (`gklsFindBall`), and the closed form of every branch in terms of
`Gkls.dist`, `Gkls.dotFrom`.
-/

namespace Gkls
open Prob

/-- the constants of `GKLSFunction` with the PRECISION constant replaced by `p`
(`p = 10⁻¹⁰`: the code; `p = 0`: the ideal function without guard) -/
noncomputable def constsP (p : ℝ) : GklsConsts ℝ :=
  { maxValue := 1e100, precision := p, domainLeft := -1, domainRight := 1, three := 3, four := 4 }

theorem constsP_code : constsP 1e-10 = consts := rfl

/-- `x` passes the domain check with precision `p` (box `[-1,1]^n` with slack `p`) -/
def InDomainP (p : ℝ) (x : List ℝ) : Prop := ∀ c ∈ x, (-1 : ℝ) - p ≤ c ∧ c ≤ 1 + p
/-- `x` passes the domain check of `CalculateDFunction` (box `[-1,1]^n` with slack `10⁻¹⁰`) -/
def InDomain (x : List ℝ) : Prop := InDomainP 1e-10 x
/-- `x` lies in the box `[-1,1]^n` -/
def InBox (x : List ℝ) : Prop := ∀ c ∈ x, (-1 : ℝ) ≤ c ∧ c ≤ 1

theorem InBox.inDomainP {x : List ℝ} (h : InBox x) {p : ℝ} (hp : 0 ≤ p) : InDomainP p x := by
  intro c hc
  obtain ⟨h1, h2⟩ := h c hc
  constructor <;> linarith

theorem InBox.inDomain {x : List ℝ} (h : InBox x) : InDomain x := h.inDomainP (by norm_num)

/-- the list of balls scanned by the `while` loop: `(M_i, ρ_i, f_i)`, `i = 1..9` -/
def balls (D : GklsData ℝ) : List (List ℝ × ℝ × ℝ) := (List.zip D.localMin (List.zip D.rho D.f)).drop 1

/-- the value of the cubic branch for ball `i` at `x` -/
noncomputable def cubicVal (D : GklsData ℝ) (i : Nat) (x : List ℝ) : ℝ :=
  (2 / rhoi D i / rhoi D i * dotFrom (Mi D i) x (Mi D 0) / dist x (Mi D i)
      - 2 * cubA D i / rhoi D i / rhoi D i / rhoi D i) * dist x (Mi D i) * dist x (Mi D i) * dist x (Mi D i)
    + (1 - 4 * dotFrom (Mi D i) x (Mi D 0) / dist x (Mi D i) / rhoi D i
        + 3 * cubA D i / rhoi D i / rhoi D i) * dist x (Mi D i) * dist x (Mi D i)
    + fi D i

/-! ### The ball search -/

theorem findBall_none (x : List ℝ) (L : List (List ℝ × ℝ × ℝ))
    (h : ∀ p ∈ L, p.2.1 < dist p.1 x) : gklsFindBall x L = none := by
  induction L with
  | nil => rfl
  | cons p L ih =>
    obtain ⟨m, rho, f⟩ := p
    have hp := h (m, rho, f) (List.mem_cons_self ..)
    simp only at hp
    unfold gklsFindBall
    rw [gklsNorm_eq, if_pos hp]
    exact ih (fun q hq => h q (List.mem_cons_of_mem _ hq))

theorem findBall_some (x : List ℝ) (L : List (List ℝ × ℝ × ℝ)) (k : Nat) (hk : k < L.length)
    (hbefore : ∀ j (hj : j < k), (L[j]'(by omega)).2.1 < dist (L[j]'(by omega)).1 x)
    (hin : ¬ (L[k]).2.1 < dist (L[k]).1 x) : gklsFindBall x L = some L[k] := by
  induction L generalizing k with
  | nil => simp at hk
  | cons p L ih =>
    obtain ⟨m, rho, f⟩ := p
    cases k with
    | zero =>
      simp only [List.getElem_cons_zero] at hin ⊢
      unfold gklsFindBall
      rw [gklsNorm_eq, if_neg hin]
    | succ k =>
      have h0 := hbefore 0 (by omega)
      simp only [List.getElem_cons_zero] at h0
      unfold gklsFindBall
      rw [gklsNorm_eq, if_pos h0]
      simp only [List.getElem_cons_succ]
      apply ih k (by simpa using hk)
      · intro j hj
        have := hbefore (j + 1) (by omega)
        simpa using this
      · simpa using hin

section good
variable {D : GklsData ℝ} (hD : Good D)
include hD

theorem balls_length : (balls D).length = 9 := by
  unfold balls
  simp [hD.len_min, hD.len_rho, hD.len_f]

theorem balls_getElem (j : Nat) (hj : j < (balls D).length) :
    (balls D)[j] = (Mi D (j + 1), rhoi D (j + 1), fi D (j + 1)) := by
  have h9 := balls_length hD
  have h1 : j + 1 < D.localMin.length := by rw [hD.len_min]; omega
  have h2 : j + 1 < D.rho.length := by rw [hD.len_rho]; omega
  have h3 : j + 1 < D.f.length := by rw [hD.len_f]; omega
  unfold Mi rhoi fi
  rw [List.getD_eq_getElem _ _ h1, List.getD_eq_getElem _ _ h2,
    List.getD_eq_getElem _ _ h3]
  simp [balls]

/-- balls `i ≠ j` (both `≥ 1`) are disjoint: `ρ_i + ρ_j < ‖M_i - M_j‖` -/
theorem rho_add_lt_dist {i j : Nat} (hi : i < 10) (hj : j < 10) (h1i : 1 ≤ i) (h1j : 1 ≤ j)
    (hij : i ≠ j) : rhoi D i + rhoi D j < dist (Mi D i) (Mi D j) := by
  rcases Nat.lt_or_gt_of_ne hij with h | h
  · exact lt_dist_of_sq_lt (hD.disjoint i hi j hj h1i h)
  · rw [dist_comm, add_comm]
    exact lt_dist_of_sq_lt (hD.disjoint j hj i hi h1j h)

/-- outside all balls the search fails -/
theorem findBall_outside (x : List ℝ)
    (hout : ∀ i, 1 ≤ i → i < 10 → rhoi D i < dist x (Mi D i)) : gklsFindBall x (balls D) = none := by
  apply findBall_none
  intro p hp
  rw [List.mem_iff_getElem] at hp
  obtain ⟨j, hj, rfl⟩ := hp
  rw [balls_getElem hD j hj]
  have h9 := balls_length hD
  simp only
  rw [dist_comm]
  exact hout (j + 1) (by omega) (by omega)

/-- inside ball `i` the search returns ball `i` -/
theorem findBall_inside (x : List ℝ) (hx : x.length = D.dim) (i : Nat) (h1i : 1 ≤ i) (hi : i < 10)
    (hin : dist x (Mi D i) ≤ rhoi D i) :
    gklsFindBall x (balls D) = some (Mi D i, rhoi D i, fi D i) := by
  have h9 := balls_length hD
  have hk : i - 1 < (balls D).length := by omega
  have hget := balls_getElem hD (i - 1) hk
  rw [show i - 1 + 1 = i by omega] at hget
  rw [← hget]
  apply findBall_some x (balls D) (i - 1) hk
  · intro j hj
    rw [balls_getElem hD j (by omega)]
    simp only
    have hjn : j + 1 < 10 := by omega
    have hlt := rho_add_lt_dist hD hi hjn h1i (by omega) (by omega)
    have htri := dist_triangle (Mi D i) (Mi D (j + 1)) x
      (by rw [hD.len_M i hi, hD.len_M (j + 1) hjn]) (by rw [hD.len_M (j + 1) hjn, hx])
    rw [dist_comm (Mi D i) x] at htri
    linarith
  · rw [hget]
    simp only
    rw [dist_comm]
    exact not_lt.mpr hin

end good

/-! ### The branches of `Prob.gkls` -/

theorem domain_check_false (p : ℝ) (x : List ℝ) (hx : InDomainP p x) :
    (x.any fun xi => decide (xi < (constsP p).domainLeft - (constsP p).precision ∨
      (constsP p).domainRight + (constsP p).precision < xi)) = false := by
  rw [List.any_eq_false]
  intro c hc
  obtain ⟨h1, h2⟩ := hx c hc
  rw [decide_eq_true_eq]
  simp only [constsP]
  intro h
  rcases h with h | h
  · linarith
  · linarith

theorem headD_localMin (D : GklsData ℝ) : D.localMin.headD [] = Mi D 0 := by
  unfold Mi; cases D.localMin <;> rfl
theorem headD_f (D : GklsData ℝ) : D.f.headD 0 = fi D 0 := by
  unfold fi; cases D.f <;> rfl

/-- the paraboloid branch (any precision) -/
theorem gkls_of_noneP (p : ℝ) (D : GklsData ℝ) (x : List ℝ) (hx : InDomainP p x)
    (h : gklsFindBall x (balls D) = none) : gkls (constsP p) D x = dist x (Mi D 0) ^ 2 + fi D 0 := by
  unfold gkls
  rw [if_neg (by rw [domain_check_false p x hx]; simp)]
  simp only []
  rw [show (List.zip D.localMin (List.zip D.rho D.f)).drop 1 = balls D from rfl, h]
  simp only [gklsNorm_eq, headD_localMin, headD_f]
  rw [dist_comm, sq]

/-- the ball branch (any precision): guard value or cubic -/
theorem gkls_of_someP (p : ℝ) (D : GklsData ℝ) (x : List ℝ) (hx : InDomainP p x) (i : Nat)
    (h : gklsFindBall x (balls D) = some (Mi D i, rhoi D i, fi D i)) :
    gkls (constsP p) D x = if dist x (Mi D i) < p then fi D i else cubicVal D i x := by
  unfold gkls
  rw [if_neg (by rw [domain_check_false p x hx]; simp)]
  simp only []
  rw [show (List.zip D.localMin (List.zip D.rho D.f)).drop 1 = balls D from rfl, h]
  simp only [gklsNorm_eq, headD_localMin, headD_f, scal_eq]
  unfold cubicVal cubA
  rw [dist_comm (Mi D i) x, dist_mul_self]
  rfl

/-- the paraboloid branch -/
theorem gkls_of_none (D : GklsData ℝ) (x : List ℝ) (hx : InDomain x)
    (h : gklsFindBall x (balls D) = none) : gkls consts D x = dist x (Mi D 0) ^ 2 + fi D 0 :=
  gkls_of_noneP 1e-10 D x hx h

/-- the ball branch: guard value or cubic -/
theorem gkls_of_some (D : GklsData ℝ) (x : List ℝ) (hx : InDomain x) (i : Nat)
    (h : gklsFindBall x (balls D) = some (Mi D i, rhoi D i, fi D i)) :
    gkls consts D x = if dist x (Mi D i) < 1e-10 then fi D i else cubicVal D i x :=
  gkls_of_someP 1e-10 D x hx i h

end Gkls
