import IOptProofs.ShekelTabDefs
/-! kernel-evaluated C18 table certificates (min / max / Lipschitz tables) of the Shekel functions 860..879
(one block per file, identical template; four kernel evaluations of 5 rows each keep the memory near 1 GB) -/
namespace Shk
set_option maxRecDepth 100000 in
theorem shekel_tab_block_43_a : ∀ i ∈ List.range' 860 5, shekelTabOK i = true := by decide +kernel
set_option maxRecDepth 100000 in
theorem shekel_tab_block_43_b : ∀ i ∈ List.range' 865 5, shekelTabOK i = true := by decide +kernel
set_option maxRecDepth 100000 in
theorem shekel_tab_block_43_c : ∀ i ∈ List.range' 870 5, shekelTabOK i = true := by decide +kernel
set_option maxRecDepth 100000 in
theorem shekel_tab_block_43_d : ∀ i ∈ List.range' 875 5, shekelTabOK i = true := by decide +kernel
theorem shekel_tab_block_43 : ∀ i ∈ List.range' 860 20, shekelTabOK i = true := by
  intro i hi
  have hi' := List.mem_range'_1.1 hi
  if h1 : i < 865 then exact shekel_tab_block_43_a i (List.mem_range'_1.2 ⟨by omega, by omega⟩) else
  if h2 : i < 870 then exact shekel_tab_block_43_b i (List.mem_range'_1.2 ⟨by omega, by omega⟩) else
  if h3 : i < 875 then exact shekel_tab_block_43_c i (List.mem_range'_1.2 ⟨by omega, by omega⟩) else
  exact shekel_tab_block_43_d i (List.mem_range'_1.2 ⟨by omega, by omega⟩)
end Shk
