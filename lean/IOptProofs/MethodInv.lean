import IOptProofs.MethodDefs
/-!
# The invariant of the AGP iteration is established by `firstIteration` and preserved by `prepare`/`commit`
-/
set_option linter.unusedSectionVars false
namespace AGP
variable {α : Type} [Field α] [LinearOrder α] [IsStrictOrderedRing α] [Fns α]

section Transfer
variable {l l' : List (Item α)}

theorem chain_via_erase {Rel : Item α → Item α → Prop}
    (hRel : ∀ a b, Rel (eraseR a) (eraseR b) ↔ Rel a b) (l : List (Item α)) :
    (l.map eraseR).IsChain Rel ↔ l.IsChain Rel := by
  rw [List.isChain_map]; exact List.IsChain.iff hRel

theorem chain_transfer {Rel : Item α → Item α → Prop} (h : l'.map eraseR = l.map eraseR)
    (hRel : ∀ a b, Rel (eraseR a) (eraseR b) ↔ Rel a b) : l'.IsChain Rel ↔ l.IsChain Rel := by
  rw [← chain_via_erase hRel l', h, chain_via_erase hRel l]

theorem forall_via_erase {P : Item α → Prop} (hP : ∀ a, P (eraseR a) ↔ P a) (l : List (Item α)) :
    (∀ it ∈ l.map eraseR, P it) ↔ ∀ it ∈ l, P it := by
  simp [hP]

theorem forall_transfer {P : Item α → Prop} (h : l'.map eraseR = l.map eraseR)
    (hP : ∀ a, P (eraseR a) ↔ P a) : (∀ it ∈ l', P it) ↔ ∀ it ∈ l, P it := by
  rw [← forall_via_erase hP l', h, forall_via_erase hP l]

theorem exists_via_erase {P : Item α → Prop} (hP : ∀ a, P (eraseR a) ↔ P a) (l : List (Item α)) :
    (∃ it ∈ l.map eraseR, P it) ↔ ∃ it ∈ l, P it := by
  simp [hP]

theorem exists_transfer {P : Item α → Prop} (h : l'.map eraseR = l.map eraseR)
    (hP : ∀ a, P (eraseR a) ↔ P a) : (∃ it ∈ l', P it) ↔ ∃ it ∈ l, P it := by
  rw [← exists_via_erase hP l', h, exists_via_erase hP l]

theorem head_via_erase {P : Item α → Prop} (hP : ∀ a, P (eraseR a) ↔ P a) (l : List (Item α)) :
    (∀ it ∈ (l.map eraseR).head?, P it) ↔ ∀ it ∈ l.head?, P it := by
  cases l <;> simp [hP]

theorem head_transfer {P : Item α → Prop} (h : l'.map eraseR = l.map eraseR)
    (hP : ∀ a, P (eraseR a) ↔ P a) : (∀ it ∈ l'.head?, P it) ↔ ∀ it ∈ l.head?, P it := by
  rw [← head_via_erase hP l', h, head_via_erase hP l]

theorem last_via_erase {P : Item α → Prop} (hP : ∀ a, P (eraseR a) ↔ P a) (l : List (Item α)) :
    (∀ it ∈ (l.map eraseR).getLast?, P it) ↔ ∀ it ∈ l.getLast?, P it := by
  rw [List.getLast?_map]
  cases l.getLast? <;> simp [hP]

theorem last_transfer {P : Item α → Prop} (h : l'.map eraseR = l.map eraseR)
    (hP : ∀ a, P (eraseR a) ↔ P a) : (∀ it ∈ l'.getLast?, P it) ↔ ∀ it ∈ l.getLast?, P it := by
  rw [← last_via_erase hP l', h, last_via_erase hP l]

theorem map_transfer {β : Type} (g : Item α → β) (h : l'.map eraseR = l.map eraseR)
    (hg : ∀ a, g (eraseR a) = g a) : l'.map g = l.map g := by
  have : ∀ l : List (Item α), l.map g = (l.map eraseR).map g := by
    intro l; simp [hg]
  rw [this l', h, ← this l]

theorem length_transfer (h : l'.map eraseR = l.map eraseR) : l'.length = l.length := by
  simpa using congrArg List.length h

theorem countP_transfer (g : Item α → Bool) (h : l'.map eraseR = l.map eraseR)
    (hg : ∀ a, g (eraseR a) = g a) : l'.countP g = l.countP g := by
  have : ∀ l : List (Item α), l.countP g = (l.map g).count true := by
    intro l; induction l with
    | nil => rfl
    | cons a t ih => simp [List.countP_cons, List.count_cons, ih]
  rw [this l', this l, map_transfer g h hg]

end Transfer

/-! ## `recalcAll` -/

theorem recalcAll_items_erase (p : Params α) (s : State α) :
    (recalcAll p s).items.map eraseR = s.items.map eraseR := by
  unfold recalcAll
  split
  · simp [recalcItems_map_eraseR]
  · rfl

theorem recalcAll_M (p : Params α) (s : State α) : (recalcAll p s).M = s.M := by
  unfold recalcAll; split <;> rfl
theorem recalcAll_Z (p : Params α) (s : State α) : (recalcAll p s).Z = s.Z := by
  unfold recalcAll; split <;> rfl
theorem recalcAll_best (p : Params α) (s : State α) : (recalcAll p s).best = s.best := by
  unfold recalcAll; split <;> rfl
theorem recalcAll_nextId (p : Params α) (s : State α) : (recalcAll p s).nextId = s.nextId := by
  unfold recalcAll; split <;> rfl
theorem recalcAll_iters (p : Params α) (s : State α) : (recalcAll p s).iters = s.iters := by
  unfold recalcAll; split <;> rfl
theorem recalcAll_nTrials (p : Params α) (s : State α) : (recalcAll p s).nTrials = s.nTrials := by
  unfold recalcAll; split <;> rfl
theorem recalcAll_minDelta (p : Params α) (s : State α) : (recalcAll p s).minDelta = s.minDelta := by
  unfold recalcAll; split <;> rfl

theorem recalcAll_inv {p : Params α} {s : State α} (h : Inv p s) :
    Inv p (recalcAll p s) ∧ (recalcAll p s).recalc = false := by
  by_cases hrc : s.recalc = true
  · have e : recalcAll p s = { s with
        items := recalcItems p.r s.M s.Z none s.items
        queue := refillQueue (recalcItems p.r s.M s.Z none s.items)
        recalc := false } := by
      simp [recalcAll, hrc]
    have hE : (recalcItems p.r s.M s.Z none s.items).map eraseR = s.items.map eraseR :=
      recalcItems_map_eraseR _ _ _ _ _
    rw [e]
    refine ⟨⟨⟨?_, ?_, ?_, ?_, ?_, ?_, ?_, ?_, ?_, ?_, ?_, ?_, ?_, ?_, ?_, ?_, ?_, ?_⟩, ?_⟩, rfl⟩
    · exact (chain_transfer hE (fun _ _ => Iff.rfl)).2 h.sorted
    · exact (head_transfer hE (fun _ => Iff.rfl)).2 h.head0
    · exact (last_transfer hE (fun _ => Iff.rfl)).2 h.last1
    · exact (forall_transfer hE (fun _ => Iff.rfl)).2 h.ev_iff
    · show ((recalcItems p.r s.M s.Z none s.items).map (·.id)).Nodup
      rw [map_transfer (·.id) hE (fun _ => rfl)]; exact h.ids_nodup
    · show s.nextId = (recalcItems p.r s.M s.Z none s.items).length
      rw [length_transfer hE]; exact h.nextId_eq
    · exact (forall_transfer (P := fun it => it.id < s.nextId) hE (fun _ => Iff.rfl)).2 h.ids_lt
    · exact (chain_transfer hE (fun _ _ => Iff.rfl)).2 h.delta
    · exact h.M_ge
    · exact (chain_transfer hE (fun _ _ => Iff.rfl)).2 h.slope
    · exact (forall_transfer (P := fun it => it.ev = true → s.Z ≤ it.z) hE (fun _ => Iff.rfl)).2 h.Z_le
    · exact (exists_transfer (P := fun it => it.id = s.best ∧ it.ev = true ∧ it.z = s.Z) hE
        (fun _ => Iff.rfl)).2 h.best
    · exact (forall_transfer (P := fun it => it.ev = true → it.z = s.Z → s.best ≤ it.id) hE
        (fun _ => Iff.rfl)).2 h.best_first
    · exact h.iters_eq
    · show s.nTrials = (recalcItems p.r s.M s.Z none s.items).countP (·.ev)
      rw [countP_transfer (·.ev) hE (fun _ => rfl)]; exact h.nTrials_eq
    · exact (forall_transfer (P := fun it => it.ev = true → it.hv = it.z) hE (fun _ => Iff.rfl)).2 h.hv_eq
    · exact (forall_transfer (P := fun it => it.point = p.image it.x) hE (fun _ => Iff.rfl)).2 h.point_eq
    · intro _; exact recalcItems_fresh _ _ _ _
    · intro _; exact ⟨refillQueue_sorted _, refillQueue_perm _⟩
  · have hrc' : s.recalc = false := by simpa using hrc
    have e : recalcAll p s = s := by simp [recalcAll, hrc']
    rw [e]; exact ⟨h, hrc'⟩

/-! ## Consequences of the invariant -/

instance transItemLt : Trans (fun a b : Item α => a.x < b.x) (fun a b : Item α => a.x < b.x)
    (fun a b : Item α => a.x < b.x) :=
  ⟨fun h1 h2 => lt_trans h1 h2⟩

section Derived
variable {p : Params α} {s : State α}

theorem InvItems.pairwise (h : InvItems p s) : s.items.Pairwise (fun a b => a.x < b.x) :=
  List.isChain_iff_pairwise.1 h.sorted

theorem InvItems.items_ne_nil (h : InvItems p s) : s.items ≠ [] := by
  obtain ⟨it, hit, _⟩ := h.best
  exact List.ne_nil_of_mem hit

theorem InvItems.x_range (h : InvItems p s) : ∀ it ∈ s.items, 0 ≤ it.x ∧ it.x ≤ 1 := by
  intro it hit
  have hpw := h.pairwise
  constructor
  · cases hl : s.items with
    | nil => rw [hl] at hit; simp at hit
    | cons f t =>
      have hf : f.x = 0 := h.head0 f (by simp [hl])
      rw [hl] at hit hpw
      rcases List.mem_cons.1 hit with rfl | ht
      · exact hf.ge
      · have := (List.pairwise_cons.1 hpw).1 it ht
        rw [hf] at this; exact this.le
  · cases hl : s.items.getLast? with
    | none => exact absurd (List.getLast?_eq_none_iff.1 hl) h.items_ne_nil
    | some l =>
      obtain ⟨ys, hys⟩ := List.getLast?_eq_some_iff.1 hl
      have h1 := h.last1 l hl
      rw [hys] at hit hpw
      rcases List.mem_append.1 hit with hi | hi
      · have := (List.pairwise_append.1 hpw).2.2 it hi l (by simp)
        rw [h1] at this; exact this.le
      · simp at hi; subst hi; exact h1.le

/-- an item with positive coordinate has a left neighbour -/
theorem InvItems.exists_left (h : InvItems p s) {b : Item α} (hb : b ∈ s.items) (hx : b.x ≠ 0) :
    ∃ a, Neighbours s.items a b := by
  cases hl : s.items with
  | nil => rw [hl] at hb; simp at hb
  | cons f t =>
    have hf : f.x = 0 := h.head0 f (by simp [hl])
    rw [hl] at hb
    rcases List.mem_cons.1 hb with rfl | ht
    · exact absurd hf hx
    · exact exists_neighbour_of_mem rfl ht

theorem InvItems.nb_lt (h : InvItems p s) {a b : Item α} (hab : Neighbours s.items a b) : a.x < b.x :=
  isChain_iff_neighbours.1 h.sorted a b hab

theorem InvItems.nb_delta (h : InvItems p s) {a b : Item α} (hab : Neighbours s.items a b) :
    b.delta = Fns.root (b.x - a.x) p.n :=
  isChain_iff_neighbours.1 h.delta a b hab

theorem InvItems.nb_delta_pos (hL : FnsLaws α) (hn : 0 < p.n) (h : InvItems p s) {a b : Item α}
    (hab : Neighbours s.items a b) : 0 < b.delta := by
  rw [h.nb_delta hab]; exact hL.root_pos hn (sub_pos.2 (h.nb_lt hab))

theorem InvItems.nb_delta_pow (hL : FnsLaws α) (hn : 0 < p.n) (h : InvItems p s) {a b : Item α}
    (hab : Neighbours s.items a b) : b.delta ^ p.n = b.x - a.x := by
  rw [h.nb_delta hab]; exact hL.root_pow _ _ hn (sub_pos.2 (h.nb_lt hab)).le

theorem InvItems.nb_slope (h : InvItems p s) {a b : Item α} (hab : Neighbours s.items a b)
    (ha : a.ev = true) (hb : b.ev = true) : |b.z - a.z| / b.delta ≤ s.M :=
  isChain_iff_neighbours.1 h.slope a b hab ha hb

theorem InvItems.M_pos (h : InvItems p s) : 0 < s.M := lt_of_lt_of_le one_pos h.M_ge

/-- two neighbours are never both unevaluated -/
theorem InvItems.nb_ev (h : InvItems p s) {a b : Item α} (hab : Neighbours s.items a b) :
    a.ev = true ∨ b.ev = true := by
  by_contra hc
  rw [not_or] at hc
  obtain ⟨ha, hb⟩ := hc
  obtain ⟨bi, hbi, _, hbe, _⟩ := h.best
  have hbx := (h.ev_iff bi hbi).1 hbe
  have hpw := h.pairwise
  have hlt := h.nb_lt hab
  have hra := h.x_range a hab.mem_left
  have hrb := h.x_range b hab.mem_right
  have hax : a.x = 0 := by
    by_contra hne
    have : 0 < a.x := lt_of_le_of_ne hra.1 (Ne.symm hne)
    exact ha ((h.ev_iff a hab.mem_left).2 ⟨this, lt_of_lt_of_le hlt hrb.2⟩)
  have hbx1 : b.x = 1 := by
    by_contra hne
    have : b.x < 1 := lt_of_le_of_ne hrb.2 hne
    exact hb ((h.ev_iff b hab.mem_right).2 ⟨lt_of_le_of_lt hra.1 hlt, this⟩)
  obtain ⟨l₁, l₂, e⟩ := hab
  rw [e] at hbi hpw
  rw [List.pairwise_append, List.pairwise_cons, List.pairwise_cons] at hpw
  rcases List.mem_append.1 hbi with hm | hm
  · have := hpw.2.2 bi hm a (by simp)
    rw [hax] at this; exact absurd hbx.1 (not_lt.2 this.le)
  · rcases List.mem_cons.1 hm with rfl | hm
    · exact absurd hax hbx.1.ne'
    · rcases List.mem_cons.1 hm with rfl | hm
      · exact absurd hbx1 hbx.2.ne
      · have := hpw.2.1.2.1 bi hm
        rw [hbx1] at this; exact absurd hbx.2 (not_lt.2 this.le)

end Derived

/-! ## The first iteration establishes the invariant -/

theorem firstIteration_inv (p : Params α) (z : α) : Inv p (firstIteration p z) := by
  have hh : (0:α) < half := by unfold half; positivity
  have hh1 : (half:α) < 1 := by unfold half; rw [div_lt_one] <;> norm_num
  refine ⟨⟨?_, ?_, ?_, ?_, ?_, ?_, ?_, ?_, ?_, ?_, ?_, ?_, ?_, ?_, ?_, ?_, ?_, ?_⟩, ?_⟩
  · simp [firstIteration, hh, hh1]
  · simp [firstIteration]
  · simp [firstIteration]
  · simp [firstIteration, hh, hh1]
  · simp [firstIteration]
  · simp [firstIteration]
  · simp [firstIteration]
  · simp [firstIteration]
  · simp [firstIteration]
  · simp [firstIteration]
  · simp [firstIteration]
  · simp [firstIteration]
  · simp [firstIteration]
  · simp [firstIteration]
  · simp [firstIteration]
  · simp [firstIteration]
  · simp [firstIteration]
  · simp [firstIteration]
  · simp [firstIteration]

end AGP
