import IOptProofs.EvNum
import IOptProofs.EvBasic
/-!
# Cube points from level offsets; digits of a subinterval index at the field level (worker a2)

* `Ev.Num.ptOf n os r`: the cube point `Σ_j (r / 2^(j+1)) · os_j` (list level, head recursive);
  with `r = 1/2` and `os = signs n (St.init n) ds` this is `cubeY n ds / 2^(m+1)` (`cubeY_map_eq_ptOf`).
* `Ev.Num.frac n ds = indexOf n ds / (2^n)^|ds|`.
-/

set_option linter.unusedSectionVars false
namespace Ev.Num
variable {α : Type} [Field α] [LinearOrder α] [IsStrictOrderedRing α] [FloorSemiring α]

/-! ### list helpers -/

theorem forall_mem_zipWith {β γ δ : Type} {f : β → γ → δ} {P : β → Prop} {Q : γ → Prop}
    {R : δ → Prop} (h : ∀ s c, P s → Q c → R (f s c)) :
    ∀ (a : List β) (b : List γ), (∀ s ∈ a, P s) → (∀ c ∈ b, Q c) → ∀ x ∈ List.zipWith f a b, R x
  | [], _, _, _ => by simp
  | _ :: _, [], _, _ => by simp
  | s :: a, c :: b, ha, hb => by
    intro x hx
    simp only [List.zipWith_cons_cons, List.mem_cons] at hx
    rcases hx with rfl | hx
    · exact h s c (ha s (by simp)) (hb c (by simp))
    · exact forall_mem_zipWith h a b (fun s hs => ha s (by simp [hs]))
        (fun c hc => hb c (by simp [hc])) x hx

theorem pm1_mem {l : List Int} (h : Inv.pm1 l = true) {x : Int} (hx : x ∈ l) : x = 1 ∨ x = -1 :=
  Inv.pm1_iff.1 h x hx

/-- bridge between a1's `validState` and `Inv.Valid` -/
theorem valid_iff (n : Nat) (s : St) : Inv.Valid n s ↔ validState n s := by
  simp only [Inv.Valid, validState, Inv.pm1_iff]

/-! ### the cube point of a list of offset vectors -/

/-- `ptOf n [o_1, …, o_k] r = Σ_j (r / 2^j) · o_j` (coordinatewise), `n` coordinates -/
def ptOf (n : Nat) : List (List Int) → α → List α
  | [], _ => List.replicate n 0
  | o :: os, r => List.zipWith (fun (s : Int) (b : α) => (s : α) * (r / 2) + b) o (ptOf n os (r / 2))

/-- all offset vectors are sign vectors of length `n` -/
def SignList (n : Nat) (os : List (List Int)) : Prop := ∀ o ∈ os, o.length = n ∧ Inv.pm1 o = true

theorem signList_cons {n : Nat} {o : List Int} {os : List (List Int)} :
    SignList n (o :: os) ↔ (o.length = n ∧ Inv.pm1 o = true) ∧ SignList n os := by
  simp [SignList]

theorem length_ptOf {n : Nat} : ∀ (os : List (List Int)) (r : α), SignList n os →
    (ptOf n os r).length = n
  | [], _, _ => by simp [ptOf]
  | o :: os, r, h => by
    rw [signList_cons] at h
    simp [ptOf, length_ptOf os (r / 2) h.2, h.1.1]

theorem abs_ptOf_lt {n : Nat} : ∀ (os : List (List Int)) (r : α), 0 < r → SignList n os →
    ∀ x ∈ ptOf n os r, |x| < r
  | [], r, hr, _ => by
    intro x hx
    simp only [ptOf, List.mem_replicate] at hx
    rw [hx.2, abs_zero]; exact hr
  | o :: os, r, hr, h => by
    rw [signList_cons] at h
    have ih := abs_ptOf_lt os (r / 2) (by positivity) h.2
    simp only [ptOf]
    refine forall_mem_zipWith (P := fun s => s = 1 ∨ s = -1) (Q := fun b : α => |b| < r / 2) ?_ _ _
      (fun s hs => pm1_mem h.1.2 hs) ih
    intro s c hs hc
    have hc' := abs_lt.1 hc
    rw [abs_lt]
    rcases hs with rfl | rfl
    · simp only [Int.cast_one, one_mul]; constructor <;> linarith
    · simp only [Int.cast_neg, Int.cast_one, neg_mul, one_mul]; constructor <;> linarith

/-- a sharper bound: `|x| ≤ r (1 - 2^-k)` for `k` levels, i.e. `|x| · 2^k ≤ r (2^k - 1)` -/
theorem abs_ptOf_le {n : Nat} : ∀ (os : List (List Int)) (r : α), 0 < r → SignList n os →
    ∀ x ∈ ptOf n os r, |x| ≤ r - r / 2^os.length
  | [], r, hr, _ => by
    intro x hx
    simp only [ptOf, List.mem_replicate] at hx
    simp [hx.2]
  | o :: os, r, hr, h => by
    rw [signList_cons] at h
    have ih := abs_ptOf_le os (r / 2) (by positivity) h.2
    simp only [ptOf]
    refine forall_mem_zipWith (P := fun s => s = 1 ∨ s = -1)
      (Q := fun b : α => |b| ≤ r / 2 - r / 2 / 2^os.length) ?_ _ _
      (fun s hs => pm1_mem h.1.2 hs) ih
    intro s c hs hc
    have hc' := abs_le.1 hc
    have e : r / 2 ^ (o :: os).length = r / 2 / 2^os.length := by
      rw [List.length_cons, pow_succ]; field_simp
    rw [abs_le, e]
    rcases hs with rfl | rfl
    · simp only [Int.cast_one, one_mul]; constructor <;> linarith
    · simp only [Int.cast_neg, Int.cast_one, neg_mul, one_mul]; constructor <;> linarith

/-! ### offsets of a digit list -/

theorem signList_signs {n : Nat} (hn : Ev.DimOK n) : ∀ (ds : List Nat) (s : St),
    Inv.Valid n s → validDigits n ds → SignList n (signs n s ds)
  | [], _, _, _ => by simp [SignList]
  | d :: ds, s, hs, hd => by
    rw [validDigits_cons] at hd
    rw [signs_cons, signList_cons]
    exact ⟨⟨Inv.step_snd_length hn hs hd.1, Inv.step_snd_pm1 hn hs hd.1⟩,
      signList_signs hn ds _ (Inv.step_valid hn hs hd.1) hd.2⟩

/-- coordinates of `ptOf` of the offsets of a digit list, via a1's `Yc` -/
theorem getElem_ptOf_signs {n : Nat} (hn : Ev.DimOK n) : ∀ (ds : List Nat) (s : St) (r : α),
    Inv.Valid n s → validDigits n ds → ∀ (i : Nat) (hi : i < (ptOf n (signs n s ds) r).length),
      (ptOf n (signs n s ds) r)[i] = (Yc n s ds i : α) * (r / 2^ds.length)
  | [], s, r, _, _, i, hi => by simp [ptOf]
  | d :: ds, s, r, hs, hd, i, hi => by
    rw [validDigits_cons] at hd
    have hs' := Inv.step_valid hn hs hd.1
    have hlen := Inv.step_snd_length hn hs hd.1
    have hlp := length_ptOf (α := α) _ (r / 2) (signList_signs hn ds _ hs' hd.2)
    have hi' : i < n := by
      simp only [signs_cons, ptOf, List.length_zipWith, hlen, hlp] at hi; omega
    simp only [signs_cons, ptOf, List.getElem_zipWith, Yc_cons, List.length_cons]
    rw [getElem_ptOf_signs hn ds _ (r / 2) hs' hd.2 i (by omega),
      getI_eq_getElem (by omega : i < (step n s d).2.length)]
    push_cast
    rw [pow_succ]
    field_simp

/-- the scaled integer cell centre `cubeY n ds / 2^(m+1)` is `ptOf` with `r = 1/2` -/
theorem cubeY_map_eq_ptOf {n : Nat} (hn : Ev.DimOK n) (ds : List Nat) (hd : validDigits n ds) :
    (cubeY n ds).map (fun (Y : Int) => (Y : α) / 2^(ds.length + 1)) =
      ptOf n (signs n (St.init n) ds) (1 / 2) := by
  have hv := Inv.valid_init n (by have := hn.pos; omega)
  have hsl := signList_signs hn ds _ hv hd
  have hc := cubeY_getI_of_lengths n ds (fun o ho => (hsl o ho).1)
  have hlp := length_ptOf (α := α) _ (1 / 2) hsl
  apply List.ext_getElem
  · rw [List.length_map, hc.1, hlp]
  · intro i h1 h2
    have hi : i < n := by simpa [hc.1] using h1
    rw [getElem_ptOf_signs hn ds _ _ hv hd i h2, List.getElem_map,
      ← getI_eq_getElem (by omega : i < (cubeY n ds).length), hc.2 i hi, pow_succ]
    field_simp

/-! ### the left end of a subinterval -/

/-- `indexOf n ds / (2^n)^|ds|` -/
def frac (n : Nat) (ds : List Nat) : α := (indexOf n ds : α) / (2^n)^ds.length

theorem frac_nil (n : Nat) : (frac n [] : α) = 0 := by simp [frac, indexOf]

theorem frac_cons (n d : Nat) (ds : List Nat) :
    (frac n (d :: ds) : α) = ((d : α) + frac n ds) / 2^n := by
  simp only [frac, indexOf_cons, List.length_cons]
  push_cast
  rw [pow_succ]
  field_simp

end Ev.Num
