import IOptProofs.ShekelTabDefs
/-! kernel-evaluated C18 table certificates (min / max / Lipschitz tables) of the Shekel functions 100..119
(one block per file, identical template; four kernel evaluations of 5 rows each keep the memory near 1 GB) -/
namespace Shk
set_option maxRecDepth 100000 in
theorem shekel_tab_block_5_a : ∀ i ∈ List.range' 100 5, shekelTabOK i = true := by decide +kernel
set_option maxRecDepth 100000 in
theorem shekel_tab_block_5_b : ∀ i ∈ List.range' 105 5, shekelTabOK i = true := by decide +kernel
set_option maxRecDepth 100000 in
theorem shekel_tab_block_5_c : ∀ i ∈ List.range' 110 5, shekelTabOK i = true := by decide +kernel
set_option maxRecDepth 100000 in
theorem shekel_tab_block_5_d : ∀ i ∈ List.range' 115 5, shekelTabOK i = true := by decide +kernel
theorem shekel_tab_block_5 : ∀ i ∈ List.range' 100 20, shekelTabOK i = true := by
  intro i hi
  have hi' := List.mem_range'_1.1 hi
  if h1 : i < 105 then exact shekel_tab_block_5_a i (List.mem_range'_1.2 ⟨by omega, by omega⟩) else
  if h2 : i < 110 then exact shekel_tab_block_5_b i (List.mem_range'_1.2 ⟨by omega, by omega⟩) else
  if h3 : i < 115 then exact shekel_tab_block_5_c i (List.mem_range'_1.2 ⟨by omega, by omega⟩) else
  exact shekel_tab_block_5_d i (List.mem_range'_1.2 ⟨by omega, by omega⟩)
end Shk
