import IOptProofs.GrishSound6
import Mathlib.Topology.Order.Compact
/-!
# Grishagin checker, soundness part 7: from `S = d1² + d2²` to the function `-√S` of the model, and the
three clauses of property C10
-/

namespace Grish
open Encl Finset

/-- property C10 for a function of two variables on `[0,1]²` with declared optimum point `(px, py)`,
declared optimum value `v`: value tolerance `1e-4`, global bound with tolerance `2e-3·max(1,|v|)`, and
every global minimiser (one exists) lies within `0.005` (0.5 % of the box side) of the declared point -/
structure GrishC10 (f : ℝ → ℝ → ℝ) (px py v : ℝ) : Prop where
  vneg : v < 0
  box : 0 ≤ px ∧ px ≤ 1 ∧ 0 ≤ py ∧ py ≤ 1
  V : |f px py - v| ≤ 1 / 10000
  G : ∀ x y, 0 ≤ x → x ≤ 1 → 0 ≤ y → y ≤ 1 → v - 2 / 1000 * max 1 |v| ≤ f x y
  Pex : ∃ x y, (0 ≤ x ∧ x ≤ 1 ∧ 0 ≤ y ∧ y ≤ 1) ∧
    ∀ x' y', 0 ≤ x' → x' ≤ 1 → 0 ≤ y' → y' ≤ 1 → f x y ≤ f x' y'
  Pall : ∀ x y, 0 ≤ x → x ≤ 1 → 0 ≤ y → y ≤ 1 →
    (∀ x' y', 0 ≤ x' → x' ≤ 1 → 0 ≤ y' → y' ≤ 1 → f x y ≤ f x' y') →
    |x - px| ≤ 5 / 1000 ∧ |y - py| ≤ 5 / 1000

theorem continuous_sn (i : ℕ) : Continuous (sn i) := by
  unfold sn; fun_prop
theorem continuous_cs (i : ℕ) : Continuous (cs i) := by
  unfold cs; fun_prop

theorem continuous_gen (K : Co) : Continuous fun p : ℝ × ℝ => gen K p.1 p.2 := by
  unfold gen
  refine continuous_finsetSum _ fun i _ => continuous_finsetSum _ fun j _ => ?_
  have sx : Continuous fun p : ℝ × ℝ => sn i p.1 := (continuous_sn i).comp continuous_fst
  have cx : Continuous fun p : ℝ × ℝ => cs i p.1 := (continuous_cs i).comp continuous_fst
  have sy : Continuous fun p : ℝ × ℝ => sn j p.2 := (continuous_sn j).comp continuous_snd
  have cy : Continuous fun p : ℝ × ℝ => cs j p.2 := (continuous_cs j).comp continuous_snd
  exact ((((continuous_const.mul sx).mul sy).add ((continuous_const.mul cx).mul cy)).add
    ((continuous_const.mul cx).mul sy)).add ((continuous_const.mul sx).mul cy)

theorem continuous_rowS (row : ℕ) : Continuous fun p : ℝ × ℝ => rowS row p.1 p.2 := by
  unfold rowS SS
  exact ((continuous_gen _).pow 2).add ((continuous_gen _).pow 2)

theorem rowS_nonneg (row : ℕ) (x y : ℝ) : 0 ≤ rowS row x y := by
  unfold rowS SS; positivity

/-- facts about a continuous `S ≥ 0` that give property C10 for `-√S` -/
theorem c10_of_S {S : ℝ → ℝ → ℝ} {px py v : ℝ} (hcS : Continuous fun p : ℝ × ℝ => S p.1 p.2)
    (hS0 : ∀ x y, 0 ≤ S x y)
    (px0 : 0 ≤ px) (px1 : px ≤ 1) (py0 : 0 ≤ py) (py1 : py ≤ 1) (hvn : v < 0) (hvge : 1 ≤ -v)
    (V1 : (-v - 1 / 10000) ^ 2 ≤ S px py) (V2 : S px py ≤ (-v + 1 / 10000) ^ 2)
    (G : ∀ x y, 0 ≤ x → x ≤ 1 → 0 ≤ y → y ≤ 1 → S x y ≤ (501 / 500 * -v) ^ 2)
    (P : ∃ w1 w2 : ℝ, 0 ≤ w1 ∧ w1 ≤ 1 ∧ 0 ≤ w2 ∧ w2 ≤ 1 ∧
      ∀ x y, 0 ≤ x → x ≤ 1 → 0 ≤ y → y ≤ 1 → ¬(|x - px| ≤ 1 / 200 ∧ |y - py| ≤ 1 / 200) → S x y < S w1 w2) :
    GrishC10 (fun x y => -Real.sqrt (S x y)) px py v := by
  have habs : |v| = -v := abs_of_neg hvn
  -- minimiser by compactness
  have hcomp : IsCompact (Set.Icc (0 : ℝ) 1 ×ˢ Set.Icc (0 : ℝ) 1) := isCompact_Icc.prod isCompact_Icc
  have hne : (Set.Icc (0 : ℝ) 1 ×ˢ Set.Icc (0 : ℝ) 1).Nonempty := ⟨(0, 0), by simp⟩
  have hcont : ContinuousOn (fun p : ℝ × ℝ => -Real.sqrt (S p.1 p.2))
      (Set.Icc (0 : ℝ) 1 ×ˢ Set.Icc (0 : ℝ) 1) := (hcS.sqrt.neg).continuousOn
  obtain ⟨m, hm, hmin⟩ := hcomp.exists_isMinOn hne hcont
  refine ⟨hvn, ⟨px0, px1, py0, py1⟩, ?_, ?_, ?_, ?_⟩
  · -- (V)
    have l1 : -v - 1 / 10000 ≤ Real.sqrt (S px py) := by
      have : Real.sqrt ((-v - 1 / 10000) ^ 2) ≤ Real.sqrt (S px py) := Real.sqrt_le_sqrt V1
      rwa [Real.sqrt_sq (by linarith)] at this
    have l2 : Real.sqrt (S px py) ≤ -v + 1 / 10000 := by
      have : Real.sqrt (S px py) ≤ Real.sqrt ((-v + 1 / 10000) ^ 2) := Real.sqrt_le_sqrt V2
      rwa [Real.sqrt_sq (by linarith)] at this
    show |-Real.sqrt (S px py) - v| ≤ 1 / 10000
    rw [abs_le]; constructor <;> linarith
  · -- (G)
    intro x y a b c d
    have := Real.sqrt_le_sqrt (G x y a b c d)
    rw [Real.sqrt_sq (by linarith)] at this
    rw [habs, max_eq_right hvge]
    show v - 2 / 1000 * -v ≤ -Real.sqrt (S x y)
    linarith
  · -- existence
    obtain ⟨⟨m1a, m1b⟩, m2a, m2b⟩ := hm
    refine ⟨m.1, m.2, ⟨m1a, m1b, m2a, m2b⟩, ?_⟩
    intro x' y' a b c d
    exact hmin (show ((x', y') : ℝ × ℝ) ∈ Set.Icc (0 : ℝ) 1 ×ˢ Set.Icc (0 : ℝ) 1 from ⟨⟨a, b⟩, c, d⟩)
  · -- every global minimiser is near the declared point
    intro x y a b c d hglob
    obtain ⟨w1, w2, wa, wb, wc, wd, hw⟩ := P
    by_contra hcon
    have hout : ¬(|x - px| ≤ 1 / 200 ∧ |y - py| ≤ 1 / 200) := by
      intro hh; apply hcon
      obtain ⟨h1, h2⟩ := hh
      constructor <;> linarith
    have lt := hw x y a b c d hout
    have := Real.sqrt_lt_sqrt (hS0 x y) lt
    have := hglob w1 w2 wa wb wc wd
    linarith

/-- the certified facts about `S` give property C10 for `-√S` -/
theorem rowCert_C10 {row : ℕ} (h : RowCert row) :
    GrishC10 (fun x y => -Real.sqrt (rowS row x y)) (dyR (Dy.get row 197)) (dyR (Dy.get row 198))
      (dyR (Dy.get row 199)) :=
  c10_of_S (continuous_rowS row) (rowS_nonneg row) h.px0 h.px1 h.py0 h.py1 h.vneg h.vge h.V1 h.V2 h.G h.P

/-! ## the model function of table row `k` -/

/-- a table matrix over `ℝ` -/
noncomputable def rmat (m : List (List Dy)) : List (List ℝ) := m.map (List.map dyR)

/-- the Grishagin function number `k` (1..100) of the model, over `ℝ`, with the regenerated coefficient tables -/
noncomputable def grishFn (k : ℕ) (x y : ℝ) : ℝ :=
  Prob.grishagin (rmat (Gen.grishMat k 0)) (rmat (Gen.grishMat k 1)) (rmat (Gen.grishMat k 2))
    (rmat (Gen.grishMat k 3)) x y

theorem rmat_grishMat (k m : ℕ) : rmat (Gen.grishMat k m) = mat7 (cA (Gen.grishaginRows[k - 1]!) m) := by
  unfold rmat Gen.grishMat Dy.slice mat7 cA ent
  simp only [List.map_map]
  rfl

theorem gen_one_mul (A B : ℕ → ℕ → ℝ) (x y : ℝ) :
    gen (coAB A (fun i j => ((1 : ℤ) : ℝ) * B i j)) x y = gen ⟨A, B, 0, 0⟩ x y := by
  unfold coAB; simp

theorem gen_neg_one_mul (A B : ℕ → ℕ → ℝ) (x y : ℝ) :
    gen (coAB A (fun i j => ((-1 : ℤ) : ℝ) * B i j)) x y = gen ⟨A, fun i j => -B i j, 0, 0⟩ x y := by
  unfold coAB; simp

/-- the model function is `-√S` of its table row -/
theorem grishFn_eq (k : ℕ) (x y : ℝ) :
    grishFn k x y = -Real.sqrt (rowS (Gen.grishaginRows[k - 1]!) x y) := by
  unfold grishFn
  rw [rmat_grishMat, rmat_grishMat, rmat_grishMat, rmat_grishMat, grishagin_eq]
  unfold rowS SS
  rw [gen_one_mul, gen_neg_one_mul]

theorem grishOptPoint_eq (k : ℕ) :
    Gen.grishOptPoint k = [Dy.get (Gen.grishaginRows[k - 1]!) 197, Dy.get (Gen.grishaginRows[k - 1]!) 198] := rfl

theorem grishOptValue_eq (k : ℕ) : Gen.grishOptValue k = Dy.get (Gen.grishaginRows[k - 1]!) 199 := rfl

/-- **soundness of the certificate checker**: an accepted row satisfies property C10 -/
theorem grishOK_sound {k : ℕ} (h : grishOK k = true) :
    ∃ p0 p1 : Dy, Gen.grishOptPoint k = [p0, p1] ∧
      GrishC10 (grishFn k) (dyR p0) (dyR p1) (dyR (Gen.grishOptValue k)) := by
  refine ⟨_, _, grishOptPoint_eq k, ?_⟩
  rw [grishOptValue_eq]
  have := rowCert_C10 (rowOK_sound h)
  have e : grishFn k = fun x y => -Real.sqrt (rowS (Gen.grishaginRows[k - 1]!) x y) := by
    funext x y; exact grishFn_eq k x y
  rw [e]; exact this

end Grish
