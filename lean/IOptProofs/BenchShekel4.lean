import IOptProofs.BenchShekel4Defs
import IOptProofs.BenchShekel
/-!
# Shekel4: soundness of the 4-dimensional interval branch-and-bound over ℝ
-/

namespace Shk4
open Shk

@[simp] theorem forceBox_eq : ∀ (b : Box) (k : Box → Bool), forceBox b k = k b
  | [], k => rfl
  | (lo, hi) :: b, k => by simp [forceBox, forceBox_eq b]

@[simp] theorem forceList_eq : ∀ (l : List Nat) (k : List Nat → Bool), forceList l k = k l
  | [], k => rfl
  | a :: l, k => by simp [forceList, forceList_eq l]

@[simp] theorem forceTerms4_eq : ∀ (ts : List Term4) (k : List Term4 → Bool), forceTerms4 ts k = k ts
  | [], k => rfl
  | (a, c) :: ts, k => by simp [forceTerms4, forceTerms4_eq ts]

/-- `x` (real coordinates) lies in the integer box `b` scaled by `2^-E` -/
def InBox (E : Nat) (b : Box) (x : List ℝ) : Prop :=
  List.Forall₂ (fun (q : Nat × Nat) (xj : ℝ) => (q.1 : ℝ) ≤ xj * 2 ^ E ∧ xj * 2 ^ E ≤ (q.2 : ℝ)) b x

/-- `Σⱼ (xⱼ·2^E - aⱼ)²` over the common prefix -/
noncomputable def dist2 (E : Nat) : List ℝ → List Nat → ℝ
  | xj :: x, a :: as => (xj * 2 ^ E - a) ^ 2 + dist2 E x as
  | _, _ => 0

theorem dist2_nonneg (E : Nat) : ∀ (x : List ℝ) (a : List Nat), 0 ≤ dist2 E x a
  | [], _ => by simp [dist2]
  | _ :: _, [] => by simp [dist2]
  | xj :: x, a :: as => by
    have := dist2_nonneg E x as
    simp only [dist2]; positivity

theorem nearSq_le (E : Nat) : ∀ (b : Box) (x : List ℝ) (a : List Nat), InBox E b x →
    ((nearSq b a : Nat) : ℝ) ≤ dist2 E x a
  | [], _, _, h => by cases h; simp [nearSq, dist2]
  | (lo, hi) :: b, x, [], h => by cases h; simp [nearSq, dist2]
  | (lo, hi) :: b, _, a :: as, h => by
    cases h with
    | cons hq hrest =>
      rename_i xj x
      have ih := nearSq_le E b x as hrest
      have hn := near_le lo hi a (xj * 2 ^ E) hq.1 hq.2
      have hsq : ((near lo hi a : Nat) : ℝ) ^ 2 ≤ (xj * 2 ^ E - a) ^ 2 := by
        rw [← sq_abs (xj * 2 ^ E - a)]
        exact pow_le_pow_left₀ (Nat.cast_nonneg _) hn 2
      show ((near lo hi a * near lo hi a + nearSq b as : Nat) : ℝ) ≤ _
      simp only [dist2]
      push_cast
      nlinarith

theorem le_farSq (E : Nat) : ∀ (b : Box) (x : List ℝ) (a : List Nat), InBox E b x →
    dist2 E x a ≤ ((farSq b a : Nat) : ℝ)
  | [], _, _, h => by cases h; simp [farSq, dist2]
  | (lo, hi) :: b, x, [], h => by cases h; simp [farSq, dist2]
  | (lo, hi) :: b, _, a :: as, h => by
    cases h with
    | cons hq hrest =>
      rename_i xj x
      have ih := le_farSq E b x as hrest
      have hn := le_far lo hi a (xj * 2 ^ E) hq.1 hq.2
      have hsq : (xj * 2 ^ E - a) ^ 2 ≤ ((far lo hi a : Nat) : ℝ) ^ 2 := by
        rw [← sq_abs (xj * 2 ^ E - a)]
        exact pow_le_pow_left₀ (abs_nonneg _) hn 2
      show _ ≤ ((far lo hi a * far lo hi a + farSq b as : Nat) : ℝ)
      simp only [dist2]
      push_cast
      nlinarith

/-- the real term `1/(Σⱼ (xⱼ - aⱼ)² + c)` denoted by a scaled term -/
noncomputable def term4R (E : Nat) (t : Term4) (x : List ℝ) : ℝ :=
  1 / (dist2 E x t.1 / 2 ^ (2 * E) + (t.2 : ℝ) / 2 ^ (2 * E))

noncomputable def f4R (E : Nat) (ts : List Term4) (x : List ℝ) : ℝ := -(ts.map fun t => term4R E t x).sum

theorem term4R_eq (E : Nat) (t : Term4) (x : List ℝ) :
    term4R E t x = 2 ^ (2 * E) / (dist2 E x t.1 + t.2) := by
  unfold term4R
  rw [← add_div, one_div, inv_div]

theorem t4Up_sound (E : Nat) (t : Term4) (b : Box) (x : List ℝ) (hc : 0 < t.2) (hx : InBox E b x) :
    term4R E t x ≤ (t4Up (2 ^ (2 * E + P)) t b : ℝ) / 2 ^ P := by
  rw [term4R_eq]
  set n := Nat.add (nearSq b t.1) t.2 with hn
  have hnpos : 0 < n := by show 0 < nearSq b t.1 + t.2; omega
  have hnR : (0 : ℝ) < n := by exact_mod_cast hnpos
  have hden : (n : ℝ) ≤ dist2 E x t.1 + t.2 := by
    have := nearSq_le E b x t.1 hx
    show ((nearSq b t.1 + t.2 : Nat) : ℝ) ≤ _
    push_cast; linarith
  have hup := divUp_ge (2 ^ (2 * E + P)) n hnpos
  have hA : ((2 ^ (2 * E + P) : Nat) : ℝ) = 2 ^ (2 * E) * 2 ^ P := by push_cast; rw [pow_add]
  rw [hA] at hup
  show _ ≤ ((divUp (2 ^ (2 * E + P)) n : Nat) : ℝ) / 2 ^ P
  rw [div_le_div_iff₀ (lt_of_lt_of_le hnR hden) (two_pow_pos' P)]
  have hq : (0 : ℝ) ≤ (divUp (2 ^ (2 * E + P)) n : ℝ) := Nat.cast_nonneg _
  calc (2 : ℝ) ^ (2 * E) * 2 ^ P ≤ (divUp (2 ^ (2 * E + P)) n : ℝ) * n := hup
    _ ≤ (divUp (2 ^ (2 * E + P)) n : ℝ) * (dist2 E x t.1 + t.2) := mul_le_mul_of_nonneg_left hden hq

theorem t4Dn_sound (E : Nat) (t : Term4) (b : Box) (x : List ℝ) (hc : 0 < t.2) (hx : InBox E b x) :
    (t4Dn (2 ^ (2 * E + P)) t b : ℝ) / 2 ^ P ≤ term4R E t x := by
  rw [term4R_eq]
  set n := Nat.add (farSq b t.1) t.2 with hn
  have hcR : (0 : ℝ) < t.2 := by exact_mod_cast hc
  have hd0 := dist2_nonneg E x t.1
  have hdpos : (0 : ℝ) < dist2 E x t.1 + t.2 := by linarith
  have hden : dist2 E x t.1 + t.2 ≤ (n : ℝ) := by
    have := le_farSq E b x t.1 hx
    show _ ≤ ((farSq b t.1 + t.2 : Nat) : ℝ)
    push_cast; linarith
  have hdn := div_le' (2 ^ (2 * E + P)) n
  have hA : ((2 ^ (2 * E + P) : Nat) : ℝ) = 2 ^ (2 * E) * 2 ^ P := by push_cast; rw [pow_add]
  rw [hA] at hdn
  show ((2 ^ (2 * E + P) / n : Nat) : ℝ) / 2 ^ P ≤ _
  rw [div_le_div_iff₀ (two_pow_pos' P) hdpos]
  have hq : (0 : ℝ) ≤ ((2 ^ (2 * E + P) / n : Nat) : ℝ) := Nat.cast_nonneg _
  calc ((2 ^ (2 * E + P) / n : Nat) : ℝ) * (dist2 E x t.1 + t.2)
      ≤ ((2 ^ (2 * E + P) / n : Nat) : ℝ) * n := mul_le_mul_of_nonneg_left hden hq
    _ ≤ (2 : ℝ) ^ (2 * E) * 2 ^ P := hdn

theorem s4Up_sound (E : Nat) (b : Box) (x : List ℝ) (hx : InBox E b x) :
    ∀ ts : List Term4, (∀ t ∈ ts, 0 < t.2) →
      (ts.map fun t => term4R E t x).sum ≤ (s4Up (2 ^ (2 * E + P)) ts b : ℝ) / 2 ^ P
  | [], _ => by simp [s4Up]
  | t :: ts, h => by
    have ih := s4Up_sound E b x hx ts (fun t ht => h t (List.mem_cons_of_mem _ ht))
    have ht := t4Up_sound E t b x (h t List.mem_cons_self) hx
    show _ ≤ ((t4Up _ t b + s4Up _ ts b : Nat) : ℝ) / 2 ^ P
    simp only [List.map_cons, List.sum_cons]
    push_cast
    rw [add_div]
    linarith

theorem s4Dn_sound (E : Nat) (b : Box) (x : List ℝ) (hx : InBox E b x) :
    ∀ ts : List Term4, (∀ t ∈ ts, 0 < t.2) →
      (s4Dn (2 ^ (2 * E + P)) ts b : ℝ) / 2 ^ P ≤ (ts.map fun t => term4R E t x).sum
  | [], _ => by simp [s4Dn]
  | t :: ts, h => by
    have ih := s4Dn_sound E b x hx ts (fun t ht => h t (List.mem_cons_of_mem _ ht))
    have ht := t4Dn_sound E t b x (h t List.mem_cons_self) hx
    show ((t4Dn _ t b + s4Dn _ ts b : Nat) : ℝ) / 2 ^ P ≤ _
    simp only [List.map_cons, List.sum_cons]
    push_cast
    rw [add_div]
    linarith

theorem splitW_sound (E : Nat) (w : Nat) : ∀ (b : Box) (x : List ℝ), InBox E b x →
    InBox E (splitW w b).1 x ∨ InBox E (splitW w b).2 x
  | [], _, h => by cases h; left; exact List.Forall₂.nil
  | (lo, hi) :: b, _, h => by
    cases h with
    | cons hq hrest =>
      rename_i xj x
      unfold splitW
      split
      · rcases le_total (xj * 2 ^ E) ((Nat.div (Nat.add lo hi) 2 : Nat) : ℝ) with hm | hm
        · left; exact List.Forall₂.cons ⟨hq.1, hm⟩ hrest
        · right; exact List.Forall₂.cons ⟨hm, hq.2⟩ hrest
      · rcases splitW_sound E w b x hrest with hl | hr
        · left; exact List.Forall₂.cons hq hl
        · right; exact List.Forall₂.cons hq hr

/-- soundness of the 4-D branch and bound -/
theorem bnb4_sound (E : Nat) (ts : List Term4) (T : Nat) (acc : Box → Bool) (Q : List ℝ → Prop)
    (hts : ∀ t ∈ ts, 0 < t.2) (hacc : ∀ b x, acc b = true → InBox E b x → Q x) :
    ∀ (fuel : Nat) (b : Box), bnb4 (2 ^ (2 * E + P)) ts T acc fuel b = true →
      ∀ x, InBox E b x → Q x ∨ -(T : ℝ) / 2 ^ P ≤ f4R E ts x := by
  have leaf : ∀ b : Box, Nat.ble (s4Up (2 ^ (2 * E + P)) ts b) T = true →
      ∀ x, InBox E b x → -(T : ℝ) / 2 ^ P ≤ f4R E ts x := by
    intro b h x hx
    have hle : s4Up (2 ^ (2 * E + P)) ts b ≤ T := Nat.le_of_ble_eq_true h
    have hleR : (s4Up (2 ^ (2 * E + P)) ts b : ℝ) ≤ T := by exact_mod_cast hle
    have hs := s4Up_sound E b x hx ts hts
    unfold f4R
    have : (s4Up (2 ^ (2 * E + P)) ts b : ℝ) / 2 ^ P ≤ (T : ℝ) / 2 ^ P :=
      div_le_div_of_nonneg_right hleR (two_pow_pos' P).le
    rw [neg_div]; linarith
  intro fuel
  induction fuel with
  | zero =>
    intro b h x hx
    simp only [bnb4, Bool.or_eq_true] at h
    rcases h with h | h
    · exact Or.inl (hacc b x h hx)
    · exact Or.inr (leaf b h x hx)
  | succ fuel ih =>
    intro b h x hx
    simp only [bnb4, Bool.or_eq_true, Bool.and_eq_true, forceBox_eq] at h
    rcases h with (h | h) | ⟨_, hl, hr⟩
    · exact Or.inl (hacc b x h hx)
    · exact Or.inr (leaf b h x hx)
    · rcases splitW_sound E (width b) b x hx with h1 | h2
      · exact ih _ hl x h1
      · exact ih _ hr x h2

/-- strictly inside the zone, coordinate by coordinate -/
def InZone (E : Nat) (z : Box) (x : List ℝ) : Prop :=
  List.Forall₂ (fun (q : Nat × Nat) (xj : ℝ) => (q.1 : ℝ) < xj * 2 ^ E ∧ xj * 2 ^ E < (q.2 : ℝ)) z x

theorem inZone_sound (E : Nat) : ∀ (z b : Box) (x : List ℝ), inZone z b = true → InBox E b x → InZone E z x
  | [], [], _, _, h => by cases h; exact List.Forall₂.nil
  | [], _ :: _, _, hz, _ => by simp [inZone] at hz
  | _ :: _, [], _, hz, _ => by simp [inZone] at hz
  | (zl, zh) :: z, (lo, hi) :: b, _, hz, h => by
    cases h with
    | cons hq hrest =>
      rename_i xj x
      simp only [inZone, Bool.and_eq_true] at hz
      have h1 : (zl : ℝ) < lo := by exact_mod_cast lt_of_blt hz.1.1
      have h2 : (hi : ℝ) < zh := by exact_mod_cast lt_of_blt hz.1.2
      exact List.Forall₂.cons ⟨lt_of_lt_of_le h1 hq.1, lt_of_le_of_lt hq.2 h2⟩
        (inZone_sound E z b x hz.2 hrest)

/-! ### the link with `Prob.shekel4` on the cast tables -/

/-- `Σⱼ (xⱼ - aⱼ)²` over the common prefix -/
noncomputable def sqd : List ℝ → List ℝ → ℝ
  | xj :: x, a :: as => (xj - a) ^ 2 + sqd x as
  | _, _ => 0

theorem inner_fold : ∀ (x ai : List ℝ) (acc : ℝ),
    (List.zip x ai).foldl (fun den (q : ℝ × ℝ) => match q with
      | (xj, aij) => den + MathFns.pow (xj - aij) 2) acc = acc + sqd x ai
  | [], _, acc => by simp [sqd]
  | _ :: _, [], acc => by simp [sqd]
  | xj :: x, a :: as, acc => by
    simp only [List.zip_cons_cons, List.foldl_cons, sqd]
    rw [inner_fold x as]
    simp only [BenchReal.pow_two]
    ring

theorem outer_fold (x : List ℝ) : ∀ (l : List (List ℝ × ℝ)) (acc : ℝ),
    l.foldl (fun res (q : List ℝ × ℝ) => match q with
      | (ai, ci) =>
        let den := (List.zip x ai).foldl (fun den (q : ℝ × ℝ) => match q with
          | (xj, aij) => den + MathFns.pow (xj - aij) 2) 0
        res - 1 / (den + ci)) acc
    = acc - (l.map fun q => 1 / (sqd x q.1 + q.2)).sum
  | [], acc => by simp
  | (ai, ci) :: l, acc => by
    simp only [List.foldl_cons, List.map_cons, List.sum_cons]
    rw [outer_fold x l, inner_fold, zero_add]
    ring

theorem shekel4_eq_sum (a : List (List ℝ)) (c : List ℝ) (x : List ℝ) :
    Prob.shekel4 a c x = -((List.zip a c).map fun q => 1 / (sqd x q.1 + q.2)).sum := by
  unfold Prob.shekel4
  rw [outer_fold x _ 0, zero_sub]

theorem sqd_scaled (E : Nat) : ∀ (x : List ℝ) (a : List Dy), (a.all (scaleOK E) = true) →
    sqd x (a.map dyR) = dist2 E x (a.map (scale E)) / 2 ^ (2 * E)
  | [], _, _ => by simp [sqd, dist2]
  | _ :: _, [], _ => by simp [sqd, dist2]
  | xj :: x, a :: as, h => by
    simp only [List.all_cons, Bool.and_eq_true] at h
    simp only [List.map_cons, sqd, dist2]
    rw [sqd_scaled E x as h.2, dyR_eq_scale E a h.1, add_div]
    congr 1
    have h2 : (2 : ℝ) ^ E ≠ 0 := by positivity
    rw [show 2 * E = E + E by ring, pow_add]
    field_simp

theorem c_scaled (E : Nat) (c : Dy) (h : scaleOK E c = true) :
    dyR c = ((scale E c * 2 ^ E : Nat) : ℝ) / 2 ^ (2 * E) := by
  rw [dyR_eq_scale E c h]
  push_cast
  have h2 : (2 : ℝ) ^ E ≠ 0 := by positivity
  rw [show 2 * E = E + E by ring, pow_add]
  field_simp

theorem terms4_eq (E : Nat) (a : List (List Dy)) (c : List Dy) :
    terms4 E a c = (List.zip a c).map fun q => (q.1.map (scale E), scale E q.2 * 2 ^ E) := by
  unfold terms4
  rw [List.zip_map]
  rfl

theorem tab4OK_mem {E : Nat} {a : List (List Dy)} {c : List Dy} (h : tab4OK E a c = true)
    {q : List Dy × Dy} (hq : q ∈ List.zip a c) :
    q.1.all (scaleOK E) = true ∧ scaleOK E q.2 = true ∧ 0 < q.2.1 := by
  simp only [tab4OK, Bool.and_eq_true, List.all_eq_true, decide_eq_true_eq] at h
  obtain ⟨ha, hc⟩ := h
  have hm := List.of_mem_zip hq
  refine ⟨?_, (hc _ hm.2).1, (hc _ hm.2).2⟩
  rw [List.all_eq_true]
  exact ha _ hm.1

theorem terms4_pos (E : Nat) (a : List (List Dy)) (c : List Dy) (h : tab4OK E a c = true) :
    ∀ t ∈ terms4 E a c, 0 < t.2 := by
  intro t ht
  rw [terms4_eq] at ht
  obtain ⟨q, hq, rfl⟩ := List.mem_map.1 ht
  obtain ⟨_, h2, h3⟩ := tab4OK_mem h hq
  have := scale_pos E q.2 h2 h3
  show 0 < scale E q.2 * 2 ^ E
  positivity

theorem f4R_eq_shekel4 (E : Nat) (a : List (List Dy)) (c : List Dy) (h : tab4OK E a c = true)
    (x : List ℝ) :
    Prob.shekel4 (a.map fun ai => ai.map dyR) (c.map dyR) x = f4R E (terms4 E a c) x := by
  rw [shekel4_eq_sum]
  unfold f4R
  rw [terms4_eq, List.zip_map, List.map_map, List.map_map]
  congr 2
  apply List.map_congr_left
  intro q hq
  obtain ⟨h1, h2, _⟩ := tab4OK_mem h hq
  simp only [Function.comp, Prod.map]
  unfold term4R
  rw [sqd_scaled E x q.1 h1, c_scaled E q.2 h2]


/-! ### the certificate -/

theorem thresh_le (v : ℚ) (hT0 : 0 ≤ (-(v - 2 / 1000 * qmax1 (qabs v)) * 2 ^ P).floor) :
    (v : ℝ) - 2e-3 * max 1 |(v : ℝ)|
      ≤ -(((-(v - 2 / 1000 * qmax1 (qabs v)) * 2 ^ P).floor.toNat : Nat) : ℝ) / 2 ^ P := by
  have hP : (0 : ℝ) < 2 ^ P := by positivity
  set q : ℚ := -(v - 2 / 1000 * qmax1 (qabs v)) * 2 ^ P with hq
  have hfl : ((q.floor.toNat : Nat) : ℝ) ≤ (q : ℝ) := by
    have h1 : ((q.floor.toNat : Nat) : ℤ) = q.floor := Int.toNat_of_nonneg hT0
    have h2 : ((q.floor : ℤ) : ℚ) ≤ q := Rat.floor_le q
    have h3 : ((q.floor : ℤ) : ℝ) ≤ (q : ℝ) := by exact_mod_cast (Rat.cast_le (K := ℝ)).2 h2
    have h4 : ((q.floor.toNat : Nat) : ℝ) = ((q.floor : ℤ) : ℝ) := by
      exact_mod_cast congrArg (Int.cast (R := ℝ)) h1
    rw [h4]; exact h3
  have hqR : (q : ℝ) = -((v : ℝ) - 2 / 1000 * max 1 |(v : ℝ)|) * 2 ^ P := by
    rw [hq, qabs_eq, qmax1_eq]; push_cast; rfl
  rw [le_div_iff₀ hP]
  rw [hqR] at hfl
  norm_num at hfl ⊢
  linarith

theorem value_abs (fp : ℝ) (v : ℚ) (up dn : Nat)
    (hup : -(up : ℝ) / 2 ^ P ≤ fp) (hdn : fp ≤ -(dn : ℝ) / 2 ^ P)
    (hv1 : v - 1 / 10000 ≤ -(up : ℚ) / 2 ^ P) (hv2 : -(dn : ℚ) / 2 ^ P ≤ v + 1 / 10000) :
    |fp - (v : ℝ)| ≤ 1e-4 := by
  have c1 : (v : ℝ) - 1 / 10000 ≤ -(up : ℝ) / 2 ^ P := by
    have := (Rat.cast_le (K := ℝ)).2 hv1
    push_cast at this; exact this
  have c2 : -(dn : ℝ) / 2 ^ P ≤ (v : ℝ) + 1 / 10000 := by
    have := (Rat.cast_le (K := ℝ)).2 hv2
    push_cast at this; exact this
  rw [abs_le]; constructor <;> norm_num <;> linarith

theorem inBox_root (E : Nat) : ∀ (X : List Nat) (x : List ℝ), x.length = X.length →
    (∀ xj ∈ x, 0 ≤ xj ∧ xj ≤ 10) → InBox E (X.map fun _ => (0, 10 * 2 ^ E)) x
  | [], [], _, _ => List.Forall₂.nil
  | [], _ :: _, h, _ => by simp at h
  | _ :: _, [], h, _ => by simp at h
  | _ :: X, xj :: x, h, hx => by
    have h2E : (0 : ℝ) < 2 ^ E := by positivity
    have hj := hx xj List.mem_cons_self
    refine List.Forall₂.cons ⟨?_, ?_⟩
      (inBox_root E X x (by simpa using h) (fun y hy => hx y (List.mem_cons_of_mem _ hy)))
    · push_cast; nlinarith [hj.1]
    · push_cast; nlinarith [hj.2]

theorem inBox_point (E : Nat) : ∀ (p : List Dy), p.all (scaleOK E) = true →
    InBox E ((p.map (scale E)).map fun Xj => (Xj, Xj)) (p.map dyR)
  | [], _ => List.Forall₂.nil
  | d :: p, h => by
    simp only [List.all_cons, Bool.and_eq_true] at h
    have h2E : (2 : ℝ) ^ E ≠ 0 := by positivity
    have : dyR d * 2 ^ E = (scale E d : ℝ) := by rw [dyR_eq_scale E d h.1]; field_simp
    exact List.Forall₂.cons ⟨this.ge, this.le⟩ (inBox_point E p h.2)

theorem radius4_cast (E : Nat) (hE : 10 ≤ E) : (radius4 E : ℝ) = 25 / 1024 * 2 ^ E := by
  unfold radius4
  push_cast
  have : (2 : ℝ) ^ E = 2 ^ (E - 10) * 2 ^ 10 := by rw [← pow_add]; congr 1; omega
  rw [this]; norm_num; ring

theorem inZone_close (E : Nat) (hE : 10 ≤ E) : ∀ (p : List Dy) (x : List ℝ), p.all (scaleOK E) = true →
    InZone E ((p.map (scale E)).map fun Xj => (Nat.sub Xj (radius4 E), Nat.add Xj (radius4 E))) x →
    List.Forall₂ (fun pj xj => |xj - pj| < 25 / 1024) (p.map dyR) x
  | [], _, _, h => by cases h; exact List.Forall₂.nil
  | d :: p, _, hp, h => by
    simp only [List.all_cons, Bool.and_eq_true] at hp
    cases h with
    | cons hq hrest =>
      rename_i xj x
      refine List.Forall₂.cons ?_ (inZone_close E hE p x hp.2 hrest)
      have h2E : (0 : ℝ) < 2 ^ E := by positivity
      have hd : dyR d * 2 ^ E = (scale E d : ℝ) := by rw [dyR_eq_scale E d hp.1]; field_simp
      have hR := radius4_cast E hE
      obtain ⟨h1, h2⟩ := hq
      have h1' : (scale E d : ℝ) - radius4 E < xj * 2 ^ E := by
        have : (scale E d : ℝ) - radius4 E ≤ ((Nat.sub (scale E d) (radius4 E) : Nat) : ℝ) := by
          show _ ≤ ((scale E d - radius4 E : Nat) : ℝ)
          rcases Nat.le_total (radius4 E) (scale E d) with hle | hle
          · rw [Nat.cast_sub hle]
          · have : (scale E d : ℝ) ≤ radius4 E := by exact_mod_cast hle
            have h0 : (0 : ℝ) ≤ ((scale E d - radius4 E : Nat) : ℝ) := Nat.cast_nonneg _
            linarith
        exact lt_of_le_of_lt this h1
      have h2' : xj * 2 ^ E < (scale E d : ℝ) + radius4 E := by
        have : ((Nat.add (scale E d) (radius4 E) : Nat) : ℝ) = (scale E d : ℝ) + radius4 E := by
          show ((scale E d + radius4 E : Nat) : ℝ) = _; push_cast; rfl
        rw [← this]; exact h2
      rw [hR, ← hd] at h1' h2'
      rw [abs_lt]
      constructor <;> nlinarith

/-- the three clauses of C10 for a function on `[0,10]^n` with declared value `v` at the declared point `p`;
the location clause: every point of the box that is at least as good as `p` is within `25/1024` of `p` in
every coordinate -/
structure Shekel4C10 (f : List ℝ → ℝ) (v : ℝ) (p : List ℝ) : Prop where
  point_in_box : ∀ pj ∈ p, 0 ≤ pj ∧ pj ≤ 10
  value : |f p - v| ≤ 1e-4
  global : ∀ x : List ℝ, x.length = p.length → (∀ xj ∈ x, 0 ≤ xj ∧ xj ≤ 10) → v - 2e-3 * max 1 |v| ≤ f x
  location : ∀ x : List ℝ, x.length = p.length → (∀ xj ∈ x, 0 ≤ xj ∧ xj ≤ 10) → f x ≤ f p →
    List.Forall₂ (fun pj xj => |xj - pj| < 25 / 1024) p x

theorem shekel4CertE_sound (E : Nat) (hE10 : 10 ≤ E) (a : List (List Dy)) (c : List Dy) (v : Dy)
    (p : List Dy) (h : shekel4CertE E a c v p = true) :
    Shekel4C10 (Prob.shekel4 (a.map fun ai => ai.map dyR) (c.map dyR)) (dyR v) (p.map dyR) := by
  simp only [shekel4CertE, forceNat_eq, forceList_eq, forceTerms4_eq, Bool.and_eq_true,
    decide_eq_true_eq] at h
  obtain ⟨⟨htab, hp⟩, hX10, ⟨⟨⟨⟨⟨hv1, hv2⟩, hT0⟩, hglob⟩, hdn⟩, hloc⟩⟩ := h
  have hpos := terms4_pos E a c htab
  have hf : Prob.shekel4 (a.map fun ai => ai.map dyR) (c.map dyR) = f4R E (terms4 E a c) :=
    funext fun x => f4R_eq_shekel4 E a c htab x
  rw [hf]
  have h2E : (0 : ℝ) < 2 ^ E := by positivity
  have hP : (0 : ℝ) < 2 ^ P := by positivity
  have hpt := inBox_point E p hp
  have hup := s4Up_sound E _ _ hpt _ hpos
  have hdnb := s4Dn_sound E _ _ hpt _ hpos
  have hfp : f4R E (terms4 E a c) (p.map dyR)
      = -((terms4 E a c).map fun t => term4R E t (p.map dyR)).sum := rfl
  have hfpu : f4R E (terms4 E a c) (p.map dyR)
      ≤ -(s4Dn (2 ^ (2 * E + P)) (terms4 E a c) ((p.map (scale E)).map fun Xj => (Xj, Xj)) : ℝ) / 2 ^ P := by
    rw [hfp, neg_div]; linarith
  refine ⟨?_, ?_, ?_, ?_⟩
  · intro pj hpj
    obtain ⟨d, hd, rfl⟩ := List.mem_map.1 hpj
    have hs : scaleOK E d = true := (List.all_eq_true.1 hp) d hd
    have hX : Nat.ble (scale E d) (10 * 2 ^ E) = true :=
      (List.all_eq_true.1 hX10) _ (List.mem_map.2 ⟨d, hd, rfl⟩)
    have hXR : (scale E d : ℝ) ≤ 10 * 2 ^ E := by exact_mod_cast Nat.le_of_ble_eq_true hX
    rw [dyR_eq_scale E d hs]
    constructor
    · positivity
    · rw [div_le_iff₀ h2E]; exact hXR
  · exact value_abs _ v.toRat _ _ (by rw [hfp, neg_div]; linarith) hfpu hv1 hv2
  · intro x hlen hx
    have hroot := inBox_root E (p.map (scale E)) x (by simpa using hlen) hx
    rcases bnb4_sound E _ _ _ (fun _ => False) hpos (by intro b x h; simp at h) 300 _ hglob x hroot
      with hF | hb
    · exact hF.elim
    · exact le_trans (thresh_le v.toRat hT0) hb
  · intro x hlen hx hle
    have hroot := inBox_root E (p.map (scale E)) x (by simpa using hlen) hx
    have hdn' : 0 < s4Dn (2 ^ (2 * E + P)) (terms4 E a c) ((p.map (scale E)).map fun Xj => (Xj, Xj)) :=
      lt_of_blt hdn
    rcases bnb4_sound E _ _ _ _ hpos (fun b x hz hb => inZone_sound E _ b x hz hb) 300 _ hloc x hroot
      with hZ | hb
    · exact inZone_close E hE10 p x hp hZ
    · exfalso
      have hstrict : -(s4Dn (2 ^ (2 * E + P)) (terms4 E a c) ((p.map (scale E)).map fun Xj => (Xj, Xj)) : ℝ) / 2 ^ P
          < -((Nat.sub (s4Dn (2 ^ (2 * E + P)) (terms4 E a c) ((p.map (scale E)).map fun Xj => (Xj, Xj))) 1 : Nat) : ℝ) / 2 ^ P := by
        rw [div_lt_div_iff_of_pos_right hP]
        show -_ < -(((_ - 1 : Nat)) : ℝ)
        rw [Nat.cast_sub hdn']; simp
      linarith

theorem shekel4Cert_sound (a : List (List Dy)) (c : List Dy) (v : Dy) (p : List Dy)
    (h : shekel4Cert a c v p = true) :
    Shekel4C10 (Prob.shekel4 (a.map fun ai => ai.map dyR) (c.map dyR)) (dyR v) (p.map dyR) := by
  unfold shekel4Cert at h
  rw [forceNat_eq] at h
  exact shekel4CertE_sound _ (by unfold exp4For; omega) a c v p h



theorem dist2_continuous {Y : Type} [TopologicalSpace Y] (E : Nat) :
    ∀ (gs : List (Y → ℝ)) (a : List Nat), (∀ g ∈ gs, Continuous g) →
      Continuous fun y => dist2 E (gs.map fun g => g y) a
  | [], _, _ => by simp only [List.map_nil, dist2]; exact continuous_const
  | _ :: _, [], _ => by simp only [List.map_cons, dist2]; exact continuous_const
  | g :: gs, a :: as, h => by
    simp only [List.map_cons, dist2]
    have hg := h g List.mem_cons_self
    have ih := dist2_continuous E gs as (fun g' hg' => h g' (List.mem_cons_of_mem _ hg'))
    exact ((hg.mul continuous_const).sub continuous_const).pow 2 |>.add ih

theorem ofFn_eq_map {d : Nat} (y : Fin d → ℝ) :
    List.ofFn y = (List.ofFn fun (i : Fin d) (y : Fin d → ℝ) => y i).map fun g => g y := by
  rw [List.map_ofFn]; rfl

theorem f4R_continuous_ofFn (E : Nat) (d : Nat) : ∀ ts : List Term4, (∀ t ∈ ts, 0 < t.2) →
    Continuous fun y : Fin d → ℝ => f4R E ts (List.ofFn y)
  | [], _ => by unfold f4R; simp only [List.map_nil, List.sum_nil, neg_zero]; exact continuous_const
  | t :: ts, h => by
    have ih := f4R_continuous_ofFn E d ts (fun t ht => h t (List.mem_cons_of_mem _ ht))
    have hc : (0 : ℝ) < t.2 := by exact_mod_cast h t List.mem_cons_self
    have hd : Continuous fun y : Fin d → ℝ => dist2 E (List.ofFn y) t.1 := by
      have := dist2_continuous (Y := Fin d → ℝ) E (List.ofFn fun (i : Fin d) (y : Fin d → ℝ) => y i) t.1
        (by intro g hg; obtain ⟨i, rfl⟩ := (List.mem_ofFn' _ _).1 hg; exact continuous_apply i)
      simpa only [← ofFn_eq_map] using this
    have ht : Continuous fun y : Fin d → ℝ => term4R E t (List.ofFn y) := by
      unfold term4R
      refine Continuous.div continuous_const (by fun_prop) (fun y => ne_of_gt ?_)
      have := dist2_nonneg E (List.ofFn y) t.1
      positivity
    have : (fun y : Fin d → ℝ => f4R E (t :: ts) (List.ofFn y))
        = fun y => -(term4R E t (List.ofFn y)) + f4R E ts (List.ofFn y) := by
      funext y; unfold f4R; simp only [List.map_cons, List.sum_cons]; ring
    rw [this]
    exact ht.neg.add ih

/-- the location clause in the words of C10: a global minimiser on the cube exists, and every global
minimiser is within `25/1024` of the declared point in every coordinate -/
theorem Shekel4C10.minimiser {f : List ℝ → ℝ} {v : ℝ} {p : List ℝ} (h : Shekel4C10 f v p)
    (hf : Continuous fun y : Fin p.length → ℝ => f (List.ofFn y)) :
    (∃ xs : List ℝ, xs.length = p.length ∧ (∀ xj ∈ xs, 0 ≤ xj ∧ xj ≤ 10) ∧
      ∀ x : List ℝ, x.length = p.length → (∀ xj ∈ x, 0 ≤ xj ∧ xj ≤ 10) → f xs ≤ f x) ∧
    (∀ xs : List ℝ, xs.length = p.length → (∀ xj ∈ xs, 0 ≤ xj ∧ xj ≤ 10) →
      (∀ x : List ℝ, x.length = p.length → (∀ xj ∈ x, 0 ≤ xj ∧ xj ≤ 10) → f xs ≤ f x) →
      List.Forall₂ (fun pj xj => |xj - pj| < 25 / 1024) p xs) := by
  constructor
  · obtain ⟨ys, hys, hmin⟩ := (isCompact_Icc (a := fun _ : Fin p.length => (0 : ℝ))
      (b := fun _ => (10 : ℝ))).exists_isMinOn ⟨fun _ => 0, by constructor <;> intro i <;> norm_num⟩
      hf.continuousOn
    refine ⟨List.ofFn ys, List.length_ofFn, ?_, ?_⟩
    · intro xj hxj
      obtain ⟨i, rfl⟩ := (List.mem_ofFn' _ _).1 hxj
      exact ⟨hys.1 i, hys.2 i⟩
    · intro x hlen hx
      have hxeq : List.ofFn (fun i : Fin p.length => x[i.val]'(by rw [hlen]; exact i.isLt)) = x := by
        apply List.ext_getElem
        · simp [hlen]
        · intro i h1 h2; simp
      have := hmin (a := fun i : Fin p.length => x[i.val]'(by rw [hlen]; exact i.isLt))
        ⟨fun i => (hx _ (List.getElem_mem _)).1, fun i => (hx _ (List.getElem_mem _)).2⟩
      have this' : f (List.ofFn ys) ≤ f (List.ofFn fun i : Fin p.length => x[i.val]'(by rw [hlen]; exact i.isLt)) := this
      rw [hxeq] at this'
      exact this'
  · intro xs hlen hx hmin
    exact h.location xs hlen hx (hmin p rfl h.point_in_box)


theorem shekel4Cert_continuous (a : List (List Dy)) (c : List Dy) (v : Dy) (p : List Dy) (d : Nat)
    (h : shekel4Cert a c v p = true) :
    Continuous fun y : Fin d → ℝ =>
      Prob.shekel4 (a.map fun ai => ai.map dyR) (c.map dyR) (List.ofFn y) := by
  unfold shekel4Cert at h
  rw [forceNat_eq] at h
  simp only [shekel4CertE, forceNat_eq, forceList_eq, forceTerms4_eq, Bool.and_eq_true] at h
  have htab := h.1.1
  have : (fun y : Fin d → ℝ => Prob.shekel4 (a.map fun ai => ai.map dyR) (c.map dyR) (List.ofFn y))
      = fun y => f4R _ (terms4 _ a c) (List.ofFn y) := funext fun y => f4R_eq_shekel4 _ a c htab _
  rw [this]
  exact f4R_continuous_ofFn _ d _ (terms4_pos _ a c htab)

/-- coordinatewise closeness gives Euclidean closeness: `Σⱼ (xⱼ - pⱼ)² ≤ n r²` -/
theorem sqd_le_of_close (r : ℝ) : ∀ (p x : List ℝ), List.Forall₂ (fun pj xj => |xj - pj| < r) p x →
    sqd x p ≤ p.length * r ^ 2
  | _, _, .nil => by simp [sqd]
  | _, _, .cons (a := pj) (b := xj) (l₁ := p) (l₂ := x) hq hrest => by
    have ih := sqd_le_of_close r p x hrest
    have : (xj - pj) ^ 2 ≤ r ^ 2 := by
      rw [← sq_abs (xj - pj)]
      exact pow_le_pow_left₀ (abs_nonneg _) hq.le 2
    simp only [sqd, List.length_cons]
    push_cast
    linarith

/-! ### the certificate of `Shekel4(n)` from the generated tables -/

theorem findRow_sound (fam arg : Nat) : ∀ (l : List Nat) (n : Nat) (row : Nat),
    findRow fam arg l n = some row → row ∈ l ∧ Dy.word row 0 = fam ∧ Dy.word row 1 = arg
  | [], _, _, h => by simp [findRow] at h
  | _ :: _, 0, _, h => by simp [findRow] at h
  | x :: t, n + 1, row, h => by
    simp only [findRow, Nat.sub_self, Nat.add_zero] at h
    split at h
    · rename_i hc
      simp only [Bool.and_eq_true, beq_iff_eq] at hc
      cases h
      exact ⟨List.mem_cons_self, hc.1, hc.2⟩
    · obtain ⟨h1, h2⟩ := findRow_sound fam arg t n row h
      exact ⟨List.mem_cons_of_mem _ h1, h2⟩

/-- `Shekel4(n)` over ℝ with the generated tables (first `maxI[n-1]` rows) -/
noncomputable def shekel4Fn (n : Nat) : List ℝ → ℝ :=
  Prob.shekel4 ((s4A (Gen.shekel4MaxI[n - 1]!)).map fun ai => ai.map dyR) ((s4C (Gen.shekel4MaxI[n - 1]!)).map dyR)

/-- **generic C10 theorem for Shekel4**: if the certificate of `Shekel4(n)` evaluates to `true`, the metadata
table has a row of family 2 with argument `n`, and the three clauses hold for the optimum it declares -/
theorem shekel4OK_sound (n : Nat) (h : shekel4OK n = true) :
    ∃ row ∈ Gen.metaRowsPacked.toList, (Gen.metaDecode row).family = 2 ∧ (Gen.metaDecode row).arg0 = n ∧
      Shekel4C10 (shekel4Fn n) (dyR (Gen.metaDecode row).optValue) ((Gen.metaDecode row).optPoint.map dyR) ∧
      ∀ d, Continuous fun y : Fin d → ℝ => shekel4Fn n (List.ofFn y) := by
  unfold shekel4OK at h
  split at h
  · cases h
  · rename_i row hrow
    obtain ⟨hm, hf, ha⟩ := findRow_sound 2 n _ _ row hrow
    exact ⟨row, hm, hf, ha, shekel4Cert_sound _ _ _ _ h, fun d => shekel4Cert_continuous _ _ _ _ d h⟩

end Shk4
