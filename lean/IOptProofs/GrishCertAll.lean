import IOptProofs.GrishCert0
import IOptProofs.GrishCert1
import IOptProofs.GrishCert2
import IOptProofs.GrishCert3
import IOptProofs.GrishCert4
import IOptProofs.GrishCert5
import IOptProofs.GrishCert6
import IOptProofs.GrishCert7
import IOptProofs.GrishCert8
import IOptProofs.GrishCert9
import IOptProofs.GrishCert10
import IOptProofs.GrishCert11
import IOptProofs.GrishCert12
import IOptProofs.GrishCert13
import IOptProofs.GrishCert14
import IOptProofs.GrishCert15
import IOptProofs.GrishCert16
import IOptProofs.GrishCert17
import IOptProofs.GrishCert18
import IOptProofs.GrishCert19
/-! all 100 Grishagin certificates, assembled from the 20 kernel-evaluated blocks -/
namespace Grish
theorem grish_all (k : Nat) (h1 : 1 ≤ k) (h100 : k ≤ 100) : grishOK k = true := by
  by_cases h0 : k < 6
  · exact grish_block_0 k (List.mem_range'_1.2 ⟨by omega, by omega⟩)
  by_cases h1 : k < 11
  · exact grish_block_1 k (List.mem_range'_1.2 ⟨by omega, by omega⟩)
  by_cases h2 : k < 16
  · exact grish_block_2 k (List.mem_range'_1.2 ⟨by omega, by omega⟩)
  by_cases h3 : k < 21
  · exact grish_block_3 k (List.mem_range'_1.2 ⟨by omega, by omega⟩)
  by_cases h4 : k < 26
  · exact grish_block_4 k (List.mem_range'_1.2 ⟨by omega, by omega⟩)
  by_cases h5 : k < 31
  · exact grish_block_5 k (List.mem_range'_1.2 ⟨by omega, by omega⟩)
  by_cases h6 : k < 36
  · exact grish_block_6 k (List.mem_range'_1.2 ⟨by omega, by omega⟩)
  by_cases h7 : k < 41
  · exact grish_block_7 k (List.mem_range'_1.2 ⟨by omega, by omega⟩)
  by_cases h8 : k < 46
  · exact grish_block_8 k (List.mem_range'_1.2 ⟨by omega, by omega⟩)
  by_cases h9 : k < 51
  · exact grish_block_9 k (List.mem_range'_1.2 ⟨by omega, by omega⟩)
  by_cases h10 : k < 56
  · exact grish_block_10 k (List.mem_range'_1.2 ⟨by omega, by omega⟩)
  by_cases h11 : k < 61
  · exact grish_block_11 k (List.mem_range'_1.2 ⟨by omega, by omega⟩)
  by_cases h12 : k < 66
  · exact grish_block_12 k (List.mem_range'_1.2 ⟨by omega, by omega⟩)
  by_cases h13 : k < 71
  · exact grish_block_13 k (List.mem_range'_1.2 ⟨by omega, by omega⟩)
  by_cases h14 : k < 76
  · exact grish_block_14 k (List.mem_range'_1.2 ⟨by omega, by omega⟩)
  by_cases h15 : k < 81
  · exact grish_block_15 k (List.mem_range'_1.2 ⟨by omega, by omega⟩)
  by_cases h16 : k < 86
  · exact grish_block_16 k (List.mem_range'_1.2 ⟨by omega, by omega⟩)
  by_cases h17 : k < 91
  · exact grish_block_17 k (List.mem_range'_1.2 ⟨by omega, by omega⟩)
  by_cases h18 : k < 96
  · exact grish_block_18 k (List.mem_range'_1.2 ⟨by omega, by omega⟩)
  exact grish_block_19 k (List.mem_range'_1.2 ⟨by omega, by omega⟩)
end Grish
