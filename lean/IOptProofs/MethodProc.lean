import IOptModel.Process
import IOptProofs.MethodFacts
/-!
# Bridge: the states produced by `Proc.oneIteration` / `doGlobalIteration` / `solveLoop` are reachable

So every property proved for `AGP.Reach` (C02, C06, C04, C01) holds for the state held by a `Process`
after any number of successful iterations, with `log = ps.evals`; and the only exception the global
search can ever raise is the objective's own.
-/
set_option linter.unusedSectionVars false

namespace Proc
open AGP
variable {α : Type} [Field α] [LinearOrder α] [IsStrictOrderedRing α] [Fns α]
variable {p : Params α} {f : Nat → List α → Option α}

/-- the method state held by the process is reachable with evaluation log `ps.evals` (or the first
iteration has not been made yet and nothing has been evaluated) -/
def ProcOK (p : Params α) (ps : PState α) : Prop :=
  match ps.m with
  | none => ps.evals = []
  | some s => Reach p s ps.evals

theorem procOK_fresh (p : Params α) : ProcOK p ({} : PState α) := rfl

/-- a successful iteration leads to a reachable state and extends the log by the new trial -/
theorem oneIteration_procOK {ps ps' : PState α} {id : Nat} (h : ProcOK p ps)
    (hok : oneIteration p f ps = .ok (ps', id)) : ProcOK p ps' := by
  unfold oneIteration at hok
  unfold ProcOK at h
  cases hm : ps.m with
  | none =>
    rw [hm] at hok h
    simp only at hok h
    split at hok
    · exact absurd hok (by simp)
    · rename_i z hz
      simp only [Except.ok.injEq, Prod.mk.injEq] at hok
      obtain ⟨rfl, _⟩ := hok
      show Reach p (firstIteration p z) (ps.evals ++ [(firstPoint p, z)])
      rw [h]; exact Reach.first p z
  | some s =>
    rw [hm] at hok h
    simp only at hok h
    split at hok
    · exact absurd hok (by simp)
    · rename_i pr hp
      split at hok
      · exact absurd hok (by simp)
      · rename_i z hz
        simp only [Except.ok.injEq, Prod.mk.injEq] at hok
        obtain ⟨rfl, _⟩ := hok
        exact Reach.step z h hp

/-- **The exceptions of `CalculateIterationPoint` are unreachable at process level**: an iteration
started from a reachable state can only fail because the objective raised. -/
theorem oneIteration_error_objective (hL : FnsLaws α) (hr : 1 < p.r) (hn : 0 < p.n)
    {ps ps' : PState α} {e : Raise} (h : ProcOK p ps)
    (herr : oneIteration p f ps = .error (ps', e)) : e = .objective := by
  unfold oneIteration at herr
  unfold ProcOK at h
  cases hm : ps.m with
  | none =>
    rw [hm] at herr
    simp only at herr
    split at herr
    · simp only [Except.error.injEq, Prod.mk.injEq] at herr; exact herr.2.symm
    · exact absurd herr (by simp)
  | some s =>
    rw [hm] at herr h
    simp only at herr h
    obtain ⟨pr, hp, _⟩ := prepare_spec hL hr hn (h.inv hL hr hn)
    rw [hp] at herr
    simp only at herr
    split at herr
    · simp only [Except.error.injEq, Prod.mk.injEq] at herr; exact herr.2.symm
    · exact absurd herr (by simp)

/-- `DoGlobalIteration(k)` that does not raise leads to a reachable state -/
theorem doGlobalIteration_procOK (k : Nat) {ps : PState α} {saved : List Nat} (h : ProcOK p ps)
    (hno : (doGlobalIteration p f k ps saved).raised = none) :
    ProcOK p (doGlobalIteration p f k ps saved).s := by
  induction k generalizing ps saved with
  | zero => exact h
  | succ k ih =>
    unfold doGlobalIteration at hno ⊢
    cases hone : oneIteration p f ps with
    | error e =>
      obtain ⟨ps', e⟩ := e
      rw [hone] at hno; simp at hno
    | ok r =>
      obtain ⟨ps', id⟩ := r
      rw [hone] at hno
      exact ih (oneIteration_procOK h hone) hno

/-- and if it raises, the exception is the objective's -/
theorem doGlobalIteration_raise_objective (hL : FnsLaws α) (hr : 1 < p.r) (hn : 0 < p.n) (k : Nat)
    {ps : PState α} {saved : List Nat} {e : Raise} (h : ProcOK p ps)
    (hra : (doGlobalIteration p f k ps saved).raised = some e) : e = .objective := by
  induction k generalizing ps saved with
  | zero => simp [doGlobalIteration] at hra
  | succ k ih =>
    unfold doGlobalIteration at hra
    cases hone : oneIteration p f ps with
    | error e' =>
      obtain ⟨ps', e'⟩ := e'
      rw [hone] at hra
      simp only [Option.some.injEq] at hra
      subst hra
      exact oneIteration_error_objective hL hr hn h hone
    | ok r =>
      obtain ⟨ps', id⟩ := r
      rw [hone] at hra
      exact ih (oneIteration_procOK h hone) hra

/-- the `while` loop of `Solve`, when it ends without an exception, ends in a reachable state -/
theorem solveLoop_procOK (fuel : Nat) {ps : PState α} (h : ProcOK p ps)
    (hno : (solveLoop p f fuel ps).2 = false) : ProcOK p (solveLoop p f fuel ps).1 := by
  induction fuel generalizing ps with
  | zero => exact h
  | succ fuel ih =>
    unfold solveLoop at hno ⊢
    split
    · exact h
    · rename_i hstop
      rw [if_neg hstop] at hno
      simp only at hno ⊢
      cases hra : (doGlobalIteration p f 1 ps []).raised with
      | some e => rw [hra] at hno; simp at hno
      | none =>
        rw [hra] at hno
        exact ih (doGlobalIteration_procOK 1 h hra) hno

/-- with an objective that never raises, an iteration from a reachable state succeeds -/
theorem oneIteration_ok_of_total (hL : FnsLaws α) (hr : 1 < p.r) (hn : 0 < p.n)
    (htot : ∀ i pt, f i pt ≠ none) {ps : PState α} (h : ProcOK p ps) :
    ∃ ps' id, oneIteration p f ps = .ok (ps', id) := by
  cases hone : oneIteration p f ps with
  | ok r => exact ⟨r.1, r.2, rfl⟩
  | error e =>
    exfalso
    obtain ⟨ps', e⟩ := e
    unfold oneIteration at hone
    unfold ProcOK at h
    cases hm : ps.m with
    | none =>
      rw [hm] at hone
      simp only at hone
      split at hone
      · rename_i hz; exact htot _ _ hz
      · exact absurd hone (by simp)
    | some s =>
      rw [hm] at hone h
      simp only at hone h
      obtain ⟨pr, hp, _⟩ := prepare_spec hL hr hn (h.inv hL hr hn)
      rw [hp] at hone
      simp only at hone
      split at hone
      · rename_i hz; exact htot _ _ hz
      · exact absurd hone (by simp)

theorem doGlobalIteration_total (hL : FnsLaws α) (hr : 1 < p.r) (hn : 0 < p.n)
    (htot : ∀ i pt, f i pt ≠ none) (k : Nat) {ps : PState α} {saved : List Nat} (h : ProcOK p ps) :
    (doGlobalIteration p f k ps saved).raised = none := by
  induction k generalizing ps saved with
  | zero => rfl
  | succ k ih =>
    obtain ⟨ps', id, hone⟩ := oneIteration_ok_of_total hL hr hn htot h
    unfold doGlobalIteration
    rw [hone]
    exact ih (oneIteration_procOK h hone)

/-- **With an objective that never raises, the loop of `Solve` never catches an exception and ends in
a reachable state** (so C02, C06, C04, C01 apply to the final state with `log = evals`). -/
theorem solveLoop_total (hL : FnsLaws α) (hr : 1 < p.r) (hn : 0 < p.n)
    (htot : ∀ i pt, f i pt ≠ none) (fuel : Nat) {ps : PState α} (h : ProcOK p ps) :
    (solveLoop p f fuel ps).2 = false ∧ ProcOK p (solveLoop p f fuel ps).1 := by
  have key : (solveLoop p f fuel ps).2 = false := by
    induction fuel generalizing ps with
    | zero => rfl
    | succ fuel ih =>
      unfold solveLoop
      split
      · rfl
      · have hra := doGlobalIteration_total hL hr hn htot 1 (saved := []) h
        simp only [hra]
        exact ih (doGlobalIteration_procOK 1 h hra)
  exact ⟨key, solveLoop_procOK fuel h key⟩

end Proc
