import IOptProofs.EvNumFwd
import IOptProofs.EvNumInv
/-!
# `inverseCube ∘ imageCube` rounds down to the subinterval grid (worker a2)
-/

set_option linter.unusedSectionVars false
namespace Ev.Num
variable {α : Type} [Field α] [LinearOrder α] [IsStrictOrderedRing α] [FloorSemiring α]
attribute [local instance] floorTrunc

theorem indexOf_replicate_last (n : Nat) : ∀ m : Nat,
    indexOf n (List.replicate m (2^n - 1)) + 1 = (2^n)^m
  | 0 => by simp [indexOf]
  | m+1 => by
    have ih := indexOf_replicate_last n m
    have hB : 0 < 2^n := Nat.two_pow_pos n
    rw [List.replicate_succ, indexOf_cons, List.length_replicate, Nat.pow_succ, Nat.add_assoc, ih]
    calc (2^n - 1) * (2^n)^m + (2^n)^m = ((2^n - 1) + 1) * (2^n)^m := by
          rw [Nat.add_mul, Nat.one_mul]
      _ = (2^n)^m * 2^n := by rw [Nat.sub_add_cancel hB, Nat.mul_comm]

theorem floor_mul_pow_lt (n m : Nat) (x : α) (h0 : 0 ≤ x) (h1 : x < 1) :
    ⌊x * (2^n)^m⌋₊ < (2^n)^m := by
  have hB : (0 : α) < (2^n)^m := by positivity
  rw [Nat.floor_lt (by positivity)]
  push_cast
  nlinarith

/-- (4), first part -/
theorem inverse_image_cube {n : Nat} (hn : Ev.DimOK n) (m : Nat) (x : α) (h0 : 0 ≤ x)
    (h1 : x < 1) :
    inverseCube n m (imageCube n m x) = (⌊x * (2^n)^m⌋₊ : α) / (2^n)^m := by
  have hd := digitsOf_valid n m ⌊x * (2^n)^m⌋₊
  have h := inverseCube_centre (α := α) hn _ hd
  rw [digitsOf_length] at h
  rw [imageCube_cell hn m x h0 h1, h, indexOf_digitsOf (floor_mul_pow_lt n m x h0 h1)]

/-- (4), second part -/
theorem inverse_image_cube_end {n : Nat} (hn : Ev.DimOK n) (m : Nat) (x : α) (h1 : 1 ≤ x) :
    inverseCube n m (imageCube n m x) = ((2^n)^m - 1) / (2^n)^m := by
  have hd : validDigits n (List.replicate m (2^n - 1)) :=
    validDigits_replicate (Nat.sub_lt (Nat.two_pow_pos n) Nat.one_pos)
  have h := inverseCube_centre (α := α) hn _ hd
  rw [List.length_replicate] at h
  rw [imageCube_end hn m x h1, h]
  have e : (indexOf n (List.replicate m (2^n - 1)) : α) = (2^n)^m - 1 := by
    have := indexOf_replicate_last n m
    have h2 : ((indexOf n (List.replicate m (2^n - 1)) + 1 : ℕ) : α) = (((2^n)^m : ℕ) : α) := by
      rw [this]
    push_cast at h2
    linarith
  rw [e]

end Ev.Num
