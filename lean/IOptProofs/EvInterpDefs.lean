import IOptModel.EvObj
import IOptGen.EvolventCtlSrc
import IOptGen.EvolventSrc
/-!
# A semantics for the statement trees of `IOptGen/EvolventCtlSrc.lean` on heap + object + locals

`IOptGen/EvolventCtlSrc.lean` is regenerated from the SOURCE TEXT of `iOpt/evolvent/evolvent.py` on every run: the bodies of
`Evolvent.__init__`, `SetBounds`, `GetImage`, `GetInverseImage`, `GetPreimages`, `__TransformP2D`, `__TransformD2P` as statement
trees (`Gen.ProcSrc.Stmt`).  This file gives such trees a meaning, by structural recursion over the tree, GENERIC in the tree (the
interpreter never looks at which method it is executing), on

* the heap of arrays of the model (`Heap`, `alloc` / `read` / `write` of `IOptModel/EvObj.lean`),
* the attributes of the Python object (`Self`: every attribute is `none` until it is assigned),
* the Python locals of the activation (`LVal`: an array reference, a number, an integer),
* the two reports of the model: the list `wrote` of the refs written in place and the list `allocated` of the refs allocated.

Source strings are opaque keys of small tables (`primTable`, `targetTable`, `assignTargets`, `intLits`, `intAttrs`, `numLits`,
`numExprs`, `collTable`, `elemExprTable`, `retTable`, `procTable`, and the literals `"dtype=np.double"` (second argument of `np.array` /
`np.zeros`), `"self"` (first parameter), `"i"` (the index variable of `self.yValues[i]`)); whatever is not in a table makes the
result `stuck`, and so do `if`, `while`, `try`, `for … in range(count)` and every statement the generator could not classify.  `IOptProofs/EvInterp.lean` proves that the interpretation of the generated trees IS `EvObj.init` /
`EvObj.step`.

What allocates, what writes in place, what aliases:
* `np.copy(a)`, `np.array(a, dtype=np.double)`, `np.zeros(k, dtype=np.double)` evaluate to a FRESH array value (`CVal.fresh content`: an
  array to which the callee holds the only reference).  Stored into `self.yValues` it becomes a new heap cell (`Heap.alloc`), the
  attribute is re-pointed to it and the ref is reported in `allocated`.  Stored into one of the two bounds attributes it is kept BY
  VALUE (the model's `Obj.lower` / `Obj.upper` are contents, not refs): the only reference to that array is the attribute, no
  statement of `evolvent.py` writes an element of a bounds attribute or hands the attribute out (census `Gen.evCopySites`,
  `IOptGen/EvCopy.lean`), so nothing but its content is observable; it gets no cell of the shared heap and is not reported.
* there is NO way to store an existing reference into an attribute: a plain alias (`self.yValues = y`, `np.asarray(y)`,
  `return self.yValues`) is outside the tables, hence stuck.
* `self.yValues[i] = <expr>` is an in-place write of the cell `self.yValues` points to (reported in `wrote`, once); `<expr>` must be
  one of the two source strings of `elemExprTable`, which are mapped to the per-coordinate functions GENERATED from the same source
  (`Gen.EvSrc.transformP2D_coord`, `transformD2P_coord`); an index out of range (of the array or of a bounds attribute) is stuck
  (Python: `IndexError`).
* the two private methods `__GetYonX`, `__GetXonY` are primitives (NOT interpreted statement by statement: their integer loops are tied
  to the model by the complete node tables `IOptProofs/EvNodeTable.lean` and by the bit-exact streams of the driver):
  `self.__GetYonX(x)` is, for `N = 1`, the in-place write `yValues[0] = x - 0.5` (`Gen.EvSrc.getYonX_dim1`), and for `N ≠ 1` a fresh zero
  array that becomes `self.yValues` and is then filled in place with `Ev.imageCube n m x`;
  `self.__GetXonY()` is the number `Ev.inverseCube n m (content of self.yValues)`; for `N ≠ 1` the source consumes the array in place
  (it is reported in `wrote`), but — as in the model — the residuals it leaves there are not represented: they are never read again.

No Mathlib, no proofs: everything here is executable.
-/

section
variable {α : Type} [Add α] [Sub α] [Mul α] [Div α] [Neg α] [LT α] [LE α]
  [DecidableLT α] [DecidableLE α] [OfNat α 0] [OfNat α 1] [OfNat α 2] [NatCast α] [TruncNat α]

namespace EvInterp
open EvObj Gen.ProcSrc

/-! ### interpreter state -/

/-- the attributes of the Python object; `none`: not assigned yet -/
structure Self (α : Type) where
  /-- `self.numberOfFloatVariables` -/
  n : Option Nat := none
  /-- `self.evolventDensity` -/
  m : Option Nat := none
  /-- `self.lowerBoundOfFloatVariables`: the CONTENT of the private copy -/
  lower : Option (List α) := none
  /-- `self.upperBoundOfFloatVariables`: the CONTENT of the private copy -/
  upper : Option (List α) := none
  /-- `self.yValues`: a ref into the heap -/
  scratch : Option Nat := none
  /-- `self.nexpValue` (never read) -/
  nexpValue : Option Nat := none
  /-- `self.nexpExtended` -/
  nexp : Option α := none

/-- a fully initialised object: the model's `Obj` plus the two attributes the model does not carry -/
def Self.ofObj (o : Obj α) (nexpValue : Nat) (nexp : α) : Self α :=
  { n := some o.n, m := some o.m, lower := some o.lower, upper := some o.upper, scratch := some o.scratch,
    nexpValue := some nexpValue, nexp := some nexp }

/-- value of a Python local -/
inductive LVal (α : Type) where
  /-- an array, by reference -/
  | ref (r : Nat)
  | num (x : α)
  | int (k : Nat)

/-- value of a call -/
inductive CVal (α : Type) where
  /-- a new array to which nobody else holds a reference -/
  | fresh (content : List α)
  | num (x : α)
  /-- a result that may only be discarded -/
  | opaque

structure IState (α : Type) where
  heap : Heap α
  self : Self α
  locals : List (String × LVal α) := []
  /-- refs written in place so far (each once, in the order of the first write) -/
  wrote : List Nat := []
  /-- refs allocated so far, in order -/
  allocated : List Nat := []

/-- outcome of a statement (list) -/
inductive Res (α : Type) where
  | normal (st : IState α)
  /-- a `return` was executed -/
  | returned (st : IState α) (out : Out α)
  /-- the tree left the interpreted fragment -/
  | stuck

/-- outcome of a whole method: what `EvObj.StepResult` holds, with the richer object -/
structure MRes (α : Type) where
  heap : Heap α
  self : Self α
  out : Out α
  wrote : List Nat
  allocated : List Nat

/-- the outcome a `StepResult` of the model stands for -/
def MRes.ofStep (r : StepResult α) (nexpValue : Nat) (nexp : α) : MRes α :=
  { heap := r.heap, self := Self.ofObj r.obj nexpValue nexp, out := r.out, wrote := r.wrote, allocated := r.allocated }

/-! ### tables -/

inductive Prim where
  /-- `np.copy(a)` -/
  | copy
  /-- `np.array(a, dtype=np.double)` -/
  | arrayDouble
  /-- `np.zeros(k, dtype=np.double)` -/
  | zerosDouble
  | getYonX | getXonY
deriving Repr, DecidableEq

/-- the primitive callees -/
def primTable : List (String × Prim) := [
  ("np.copy", .copy),
  ("np.array", .arrayDouble),
  ("np.zeros", .zerosDouble),
  ("self.__GetYonX", .getYonX),
  ("self.__GetXonY", .getXonY)]

inductive Target where
  | scratch | lower | upper | localNum
deriving Repr, DecidableEq

/-- where the value of a call may be stored -/
def targetTable : List (String × Target) := [
  ("self.yValues", .scratch),
  ("self.lowerBoundOfFloatVariables", .lower),
  ("self.upperBoundOfFloatVariables", .upper),
  ("x", .localNum)]

inductive ATarget where
  | n | m | nexpValue | nexp | elem
deriving Repr, DecidableEq

/-- targets of the assignments `target = expr` (`expr` not a call) -/
def assignTargets : List (String × ATarget) := [
  ("self.numberOfFloatVariables", .n),
  ("self.evolventDensity", .m),
  ("self.nexpValue", .nexpValue),
  ("self.nexpExtended", .nexp),
  ("self.yValues[i]", .elem)]

/-- integer literals -/
def intLits : List (String × Nat) := [("0", 0)]

inductive IntAttr where
  | n
deriving Repr, DecidableEq

/-- integer attributes that may be read -/
def intAttrs : List (String × IntAttr) := [("self.numberOfFloatVariables", .n)]

inductive NumLit where
  | one
deriving Repr, DecidableEq

/-- number literals -/
def numLits : List (String × NumLit) := [("1.0", .one)]

inductive NumExpr where
  /-- `self.nexpExtended + self.nexpExtended` -/
  | nexpDoubled
deriving Repr, DecidableEq

def numExprs : List (String × NumExpr) := [("self.nexpExtended + self.nexpExtended", .nexpDoubled)]

inductive Coll where
  /-- `range(0, self.numberOfFloatVariables)` -/
  | rangeN
deriving Repr, DecidableEq

def collTable : List (String × Coll) := [("range(0, self.numberOfFloatVariables)", .rangeN)]

inductive ElemExpr where
  | p2d | d2p
deriving Repr, DecidableEq

/-- right-hand sides of `self.yValues[i] = …` (source strings).  (`irreducible` only keeps the elaborator from unfolding comparisons
with these long literals; the kernel and compiled code are not affected.) -/
@[irreducible] def elemExprTable : List (String × ElemExpr) := [
  ("self.yValues[i] * (self.upperBoundOfFloatVariables[i] - self.lowerBoundOfFloatVariables[i]) + (self.upperBoundOfFloatVariables[i] + self.lowerBoundOfFloatVariables[i]) / 2",
    .p2d),
  ("(self.yValues[i] - (self.upperBoundOfFloatVariables[i] + self.lowerBoundOfFloatVariables[i]) / 2) / (self.upperBoundOfFloatVariables[i] - self.lowerBoundOfFloatVariables[i])",
    .d2p)]

/-- their meaning: a function of (`self.yValues[i]`, `self.lowerBoundOfFloatVariables[i]`, `self.upperBoundOfFloatVariables[i]`), namely
the per-coordinate function GENERATED from the same source text (`IOptGen/EvolventSrc.lean`) -/
def ElemExpr.fn : ElemExpr → α → α → α → α
  | .p2d => Gen.EvSrc.transformP2D_coord
  | .d2p => Gen.EvSrc.transformD2P_coord

inductive RetKind where
  /-- `np.copy(self.yValues)`: a fresh array -/
  | copyScratch
  /-- a local holding a number -/
  | localNum
deriving Repr, DecidableEq

/-- `return` expressions -/
def retTable : List (String × RetKind) := [("np.copy(self.yValues)", .copyScratch), ("x", .localNum)]

/-- the methods of `evolvent.py` that are interpreted through their own GENERATED tree: callee ↦ (parameters, body) -/
def procTable : List (String × (List String × List Stmt)) := [
  ("self.__TransformP2D", (Gen.EvolventCtl.transformP2DParams, Gen.EvolventCtl.transformP2D)),
  ("self.__TransformD2P", (Gen.EvolventCtl.transformD2PParams, Gen.EvolventCtl.transformD2P))]

/-! ### expressions -/

/-- add a ref to a report, once -/
def addOnce (r : Nat) (l : List Nat) : List Nat := if l.contains r then l else l ++ [r]

/-- bind a local (Python: rebinding replaces) -/
def setLocal (x : String) (v : LVal α) (l : List (String × LVal α)) : List (String × LVal α) :=
  (x, v) :: l.filter (fun p => p.1 != x)

/-- an integer expression: a literal, a readable attribute, or an integer local -/
def evalInt (st : IState α) (e : String) : Option Nat :=
  match intLits.lookup e with
  | some k => some k
  | none =>
    match intAttrs.lookup e with
    | some .n => st.self.n
    | none =>
      match st.locals.lookup e with
      | some (.int k) => some k
      | _ => none

/-- a number expression: a literal, one of `numExprs`, or a number local -/
def evalNum (st : IState α) (e : String) : Option α :=
  match numLits.lookup e with
  | some .one => some 1
  | none =>
    match numExprs.lookup e with
    | some .nexpDoubled => st.self.nexp.map fun a => a + a
    | none =>
      match st.locals.lookup e with
      | some (.num x) => some x
      | _ => none

/-- an array expression: a local holding a reference (NOT an attribute) -/
def evalArr (st : IState α) (e : String) : Option Nat :=
  match st.locals.lookup e with
  | some (.ref r) => some r
  | _ => none

def evalColl (st : IState α) (c : String) : Option (List Nat) :=
  match collTable.lookup c with
  | some .rangeN => st.self.n.map List.range
  | none => none

/-! ### primitives -/

/-- a primitive call: new state and value, `none` = stuck -/
def evalPrim : Prim → List String → IState α → Option (IState α × CVal α)
  | .copy, [a], st =>
    match evalArr st a with
    | some r => some (st, .fresh (st.heap.read r))
    | none => none
  | .arrayDouble, [a, d], st =>
    if d = "dtype=np.double" then
      match evalArr st a with
      | some r => some (st, .fresh (st.heap.read r))
      | none => none
    else none
  | .zerosDouble, [k, d], st =>
    if d = "dtype=np.double" then
      match evalInt st k with
      | some k => some (st, .fresh (List.replicate k 0))
      | none => none
    else none
  | .getYonX, [e], st =>
    match evalNum st e, st.self.n, st.self.m, st.self.scratch with
    | some x, some n, some m, some s =>
      if n == 1 then
        -- `self.yValues[0] = _x - 0.5`, in place
        let y := st.heap.read s
        match y[0]? with
        | some _ => some ({ st with heap := st.heap.write s (y.set 0 (Gen.EvSrc.getYonX_dim1 x)), wrote := addOnce s st.wrote }, .opaque)
        | none => none
      else
        -- `self.yValues = np.zeros(N)`, then the level loop accumulates in place
        let (h1, s') := st.heap.alloc (List.replicate n 0)
        let h2 := h1.write s' (Ev.imageCube n m x)
        some ({ st with heap := h2, self := { st.self with scratch := some s' }, wrote := addOnce s' st.wrote,
                        allocated := st.allocated ++ [s'] }, .opaque)
    | _, _, _, _ => none
  | .getXonY, [], st =>
    match st.self.n, st.self.m, st.self.scratch with
    | some n, some m, some s =>
      let x := Ev.inverseCube n m (st.heap.read s)
      some ({ st with wrote := if n == 1 then st.wrote else addOnce s st.wrote }, .num x)
    | _, _, _ => none
  | _, _, _ => none

/-- store the value of a call -/
def store : Target → String → CVal α → IState α → Res α
  | .scratch, _, .fresh c, st =>
    let (h1, s) := st.heap.alloc c
    .normal { st with heap := h1, self := { st.self with scratch := some s }, allocated := st.allocated ++ [s] }
  | .lower, _, .fresh c, st => .normal { st with self := { st.self with lower := some c } }
  | .upper, _, .fresh c, st => .normal { st with self := { st.self with upper := some c } }
  | .localNum, x, .num v, st => .normal { st with locals := setLocal x (.num v) st.locals }
  | _, _, _, _ => .stuck

/-- `self.yValues[i] = ex(self.yValues[i], lower[i], upper[i])`: an in-place write of the cell `s`; an index out of range is stuck -/
def execElem (ex : ElemExpr) (i s : Nat) (lo up : List α) (st : IState α) : Res α :=
  let y := st.heap.read s
  match y[i]?, lo[i]?, up[i]? with
  | some yi, some l, some u => .normal { st with heap := st.heap.write s (y.set i (ex.fn yi l u)), wrote := addOnce s st.wrote }
  | _, _, _ => .stuck

/-- `target = expr` -/
def execAssign : ATarget → String → IState α → Res α
  | .n, e, st =>
    match evalInt st e with
    | some k => .normal { st with self := { st.self with n := some k } }
    | none => .stuck
  | .m, e, st =>
    match evalInt st e with
    | some k => .normal { st with self := { st.self with m := some k } }
    | none => .stuck
  | .nexpValue, e, st =>
    match evalInt st e with
    | some k => .normal { st with self := { st.self with nexpValue := some k } }
    | none => .stuck
  | .nexp, e, st =>
    match evalNum st e with
    | some x => .normal { st with self := { st.self with nexp := some x } }
    | none => .stuck
  | .elem, e, st =>
    match elemExprTable.lookup e with
    | none => .stuck
    | some ex =>
      match st.locals.lookup "i" with
      | some (.int i) =>
        match st.self.scratch, st.self.lower, st.self.upper with
        | some s, some lo, some up => execElem ex i s lo up st
        | _, _, _ => .stuck
      | _ => .stuck

/-- `return expr` -/
def execRet : RetKind → String → IState α → Res α
  | .copyScratch, _, st =>
    match st.self.scratch with
    | some s =>
      let (h1, r) := st.heap.alloc (st.heap.read s)
      .returned { st with heap := h1, allocated := st.allocated ++ [r] } (.array r)
    | none => .stuck
  | .localNum, x, st =>
    match st.locals.lookup x with
    | some (.num v) => .returned st (.number v)
    | _ => .stuck

/-! ### control -/

/-- `for v in <list of integers>` -/
def forLoop : List Nat → (Nat → IState α → Res α) → IState α → Res α
  | [], _, st => .normal st
  | i :: is, b, st =>
    match b i st with
    | .normal st' => forLoop is b st'
    | o => o

/-- what a call of a method of `procTable` does to the caller's state -/
abbrev ProcEnv (α : Type) := String → Option (IState α → Res α)

mutual
def execStmt (env : ProcEnv α) : Stmt → IState α → Res α
  | .call ts callee args, st =>
    match primTable.lookup callee with
    | some p =>
      match evalPrim p args st with
      | none => .stuck
      | some (st', v) =>
        match ts, v with
        | [], .opaque => .normal st'
        | [t], v =>
          match targetTable.lookup t with
          | some tg => store tg t v st'
          | none => .stuck
        | _, _ => .stuck
    | none =>
      match env callee with
      | some run => if ts = [] ∧ args = [] then run st else .stuck
      | none => .stuck
  | .assign t v, st =>
    match assignTargets.lookup t with
    | some a => execAssign a v st
    | none => .stuck
  | .forEach v coll body, st =>
    match evalColl st coll with
    | some is => forLoop is (fun i s => execList env body { s with locals := setLocal v (.int i) s.locals }) st
    | none => .stuck
  | .ret v, st =>
    match retTable.lookup v with
    | some k => execRet k v st
    | none => .stuck
  | .forRange _ _ _, _ => .stuck
  | .ite _ _ _, _ => .stuck
  | .while _ _, _ => .stuck
  | .tryExcept _ _ _, _ => .stuck
  | .other _, _ => .stuck

/-- a statement list: stops at the first outcome that is not `normal` -/
def execList (env : ProcEnv α) : List Stmt → IState α → Res α
  | [], st => .normal st
  | s :: rest, st =>
    match execStmt env s st with
    | .normal st' => execList env rest st'
    | o => o
end

/-- bind the arguments to the parameters, in order; the first parameter must be `self` -/
def bindParams (params : List String) (args : List (LVal α)) : Option (List (String × LVal α)) :=
  match params with
  | "self" :: ps => if ps.length = args.length then some (ps.zip args) else none
  | _ => none

/-- the methods callable at call depth `d`: the callee runs on fresh locals (it takes only `self`); heap, object and the two
reports are shared; a callee that `return`s is outside the fragment -/
def envN : Nat → ProcEnv α
  | 0 => fun _ => none
  | d+1 => fun name =>
    match procTable.lookup name with
    | none => none
    | some (params, body) =>
      some fun st =>
        match bindParams (α := α) params [] with
        | none => .stuck
        | some ls =>
          match execList (envN d) body { st with locals := ls } with
          | .normal st' => .normal { st' with locals := st.locals }
          | _ => .stuck

/-- run a method body at call depth `depth` from heap `h` and object `self`, with the arguments `args`; empty reports at the start;
falling off the end returns `None` (`Out.unit`) -/
def runMethod (depth : Nat) (params : List String) (body : List Stmt) (h : Heap α) (self : Self α) (args : List (LVal α)) :
    Option (MRes α) :=
  match bindParams params args with
  | none => none
  | some ls =>
    match execList (envN depth) body { heap := h, self := self, locals := ls } with
    | .normal st => some { heap := st.heap, self := st.self, out := .unit, wrote := st.wrote, allocated := st.allocated }
    | .returned st out => some { heap := st.heap, self := st.self, out := out, wrote := st.wrote, allocated := st.allocated }
    | .stuck => none

end EvInterp
end
