import IOptProofs.ComposeRun
import IOptProofs.ProcessField
/-!
# Resumed searches: the parameters `eps` / `itersLimit` changed in place between two `Solve` calls

* the trial sequence, reachability and the invariant do not depend on `eps` / `itersLimit` (`SameMethod`);
* the global search never reads what `DoLocalRefinement` overwrites (`Item.forget`, `PState.forget`);
* the structure of `Solve p1; Solve p2` (`resume_spec`) and of one uninterrupted `Solve p2` (`uninterrupted_spec`).
-/
set_option linter.unusedSectionVars false

section
variable {α : Type} [Add α] [Sub α] [Mul α] [Div α] [Neg α] [LT α] [LE α]
  [DecidableLT α] [DecidableLE α] [OfNat α 0] [OfNat α 1] [OfNat α 2] [OfNat α 4] [Fns α]

namespace AGP

/-- the two parameter objects differ at most in `eps` and `itersLimit` (what a user changes in place
between two `Solve` calls): same dimension, same reliability `r`, same evolvent -/
def SameMethod (p1 p2 : Params α) : Prop := p2.n = p1.n ∧ p2.r = p1.r ∧ p2.image = p1.image

theorem SameMethod.eq_update {p1 p2 : Params α} (h : SameMethod p1 p2) :
    p2 = { p1 with eps := p2.eps, itersLimit := p2.itersLimit } := by
  obtain ⟨n, r, e, l, im⟩ := p1
  obtain ⟨n', r', e', l', im'⟩ := p2
  obtain ⟨h1, h2, h3⟩ := h
  simp only at h1 h2 h3
  subst h1; subst h2; subst h3
  rfl

theorem SameMethod.symm {p1 p2 : Params α} (h : SameMethod p1 p2) : SameMethod p2 p1 :=
  ⟨h.1.symm, h.2.1.symm, h.2.2.symm⟩

theorem SameMethod.refl (p : Params α) : SameMethod p p := ⟨rfl, rfl, rfl⟩

/-- changing `eps` and `itersLimit` in place gives a parameter object with the same method -/
theorem SameMethod.update (p : Params α) (e : α) (l : Nat) : SameMethod p { p with eps := e, itersLimit := l } :=
  ⟨rfl, rfl, rfl⟩

theorem prepare_update (p : Params α) (e : α) (l : Nat) (s : State α) :
    prepare { p with eps := e, itersLimit := l } s = prepare p s := rfl

theorem commit_update (p : Params α) (e : α) (l : Nat) (pr : Prep α) (z : α) :
    commit { p with eps := e, itersLimit := l } pr z = commit p pr z := rfl

theorem firstIteration_update (p : Params α) (e : α) (l : Nat) (z : α) :
    firstIteration { p with eps := e, itersLimit := l } z = firstIteration p z := rfl

end AGP

namespace Proc
open AGP AGP.Ctl

theorem oneIteration_update (p : Params α) (e : α) (l : Nat) (f : Nat → List α → Option α) (ps : PState α) :
    oneIteration { p with eps := e, itersLimit := l } f ps = oneIteration p f ps := rfl

theorem nextDelta_update (p : Params α) (e : α) (l : Nat) (ps : PState α) :
    nextDelta { p with eps := e, itersLimit := l } ps = nextDelta p ps := rfl

theorem iterN_update (p : Params α) (e : α) (l : Nat) (f : Nat → List α → Option α) (k : Nat) (ps : PState α) :
    iterN { p with eps := e, itersLimit := l } f k ps = iterN p f k ps := by
  induction k generalizing ps with
  | zero => rfl
  | succ k ih =>
    rw [iterN, iterN, oneIteration_update]
    cases oneIteration p f ps with
    | error x => rfl
    | ok x => obtain ⟨ps', id⟩ := x; simp only []; rw [ih]

variable {p1 p2 : Params α}

/-- one pass of `DoGlobalIteration` does not read `eps` / `itersLimit` -/
theorem oneIteration_sameMethod (h : SameMethod p1 p2) (f : Nat → List α → Option α) (ps : PState α) :
    oneIteration p2 f ps = oneIteration p1 f ps := by
  rw [h.eq_update]; rfl

/-- the canonical sequence does not depend on `eps` / `itersLimit` -/
theorem iterN_sameMethod (h : SameMethod p1 p2) (f : Nat → List α → Option α) (k : Nat) (ps : PState α) :
    iterN p2 f k ps = iterN p1 f k ps := by
  rw [h.eq_update]; exact iterN_update p1 _ _ f k ps

theorem nextDelta_sameMethod (h : SameMethod p1 p2) (ps : PState α) : nextDelta p2 ps = nextDelta p1 ps := by
  rw [h.eq_update]; rfl

theorem stateAt_sameMethod (h : SameMethod p1 p2) (f : Nat → List α → Option α) (ps : PState α) (j : Nat) :
    stateAt p2 f ps j = stateAt p1 f ps j := by
  unfold stateAt; rw [iterN_sameMethod h]

/-- the Hölder length selected by a pass does not depend on `eps` / `itersLimit` -/
theorem deltaAt_sameMethod (h : SameMethod p1 p2) (f : Nat → List α → Option α) (ps : PState α) (j : Nat) :
    deltaAt p2 f ps j = deltaAt p1 f ps j := by
  unfold deltaAt; rw [stateAt_sameMethod h]
  cases stateAt p1 f ps j with
  | none => rfl
  | some x => exact nextDelta_sameMethod h x

theorem deltas_sameMethod (h : SameMethod p1 p2) (f : Nat → List α → Option α) (ps : PState α) (k : Nat) :
    deltas p2 f ps k = deltas p1 f ps k := by
  unfold deltas
  have : deltaAt p2 f ps = deltaAt p1 f ps := funext (deltaAt_sameMethod h f ps)
  rw [this]

theorem delta_sameMethod (h : SameMethod p1 p2) (f : Nat → List α → Option α) (k : Nat) :
    C03.delta p2 f k = C03.delta p1 f k := deltaAt_sameMethod h f {} (k - 1)

end Proc

/-! ### what a local refinement overwrites is never read by the global search -/

namespace AGP
open AGP.Ctl

/-- forget what `DoLocalRefinement` may have overwritten: the point and the value holder of an item -/
def Item.forget (it : Item α) : Item α := { it with point := [], hv := it.z }

/-- the method state up to the points and value holders of its items -/
def State.forget (s : State α) : State α := { s with items := s.items.map Item.forget }

def Prep.forget (pr : Prep α) : Prep α :=
  { pr with s := pr.s.forget, old := pr.old.forget, left := pr.left.forget }

theorem Item.forget_forget (it : Item α) : it.forget.forget = it.forget := rfl

theorem State.forget_forget (s : State α) : s.forget.forget = s.forget := by
  simp [State.forget, Function.comp_def, Item.forget]

theorem recalcItems_forget (r M Z : α) (o : Option (Item α)) (l : List (Item α)) :
    recalcItems r M Z (o.map Item.forget) (l.map Item.forget) = (recalcItems r M Z o l).map Item.forget := by
  induction l generalizing o with
  | nil => cases o <;> rfl
  | cons it t ih =>
    cases o with
    | none =>
      have := ih (some { it with R := none })
      simp only [List.map_cons, Option.map_none, recalcItems]
      exact congrArg (_ :: ·) this
    | some l0 =>
      have := ih (some { it with R := some (calcR r M Z l0 it) })
      simp only [List.map_cons, Option.map_some, recalcItems]
      exact congrArg (_ :: ·) this

theorem refillQueue_forget (l : List (Item α)) : refillQueue (l.map Item.forget) = refillQueue l := by
  unfold refillQueue
  rw [List.foldl_map]
  rfl

theorem findItem_forget (l : List (Item α)) (id : Nat) :
    findItem (l.map Item.forget) id = (findItem l id).map Item.forget := by
  unfold findItem
  rw [List.find?_map]
  rfl

theorem leftOf_forget (l : List (Item α)) (id : Nat) :
    leftOf (l.map Item.forget) id = (leftOf l id).map Item.forget := by
  induction l with
  | nil => rfl
  | cons a t ih =>
    cases t with
    | nil => rfl
    | cons b t' =>
      simp only [List.map_cons, leftOf] at ih ⊢
      have hb : b.forget.id = b.id := rfl
      rw [hb]
      cases (b.id == id)
      · simpa using ih
      · rfl

theorem insertBefore_forget (n o : Item α) (l : List (Item α)) :
    insertBefore n.forget o.forget (l.map Item.forget) = (insertBefore n o l).map Item.forget := by
  induction l with
  | nil => rfl
  | cons it t ih =>
    simp only [List.map_cons, insertBefore]
    have h1 : it.forget.id = it.id := rfl
    have h2 : o.forget.id = o.id := rfl
    rw [h1, h2]
    cases (it.id == o.id)
    · simp only [Bool.false_eq_true, if_false, List.map_cons]; rw [ih]
    · rfl

theorem recalcAll_forget (p : Params α) (s : State α) : recalcAll p s.forget = (recalcAll p s).forget := by
  unfold recalcAll
  have hr : s.forget.recalc = s.recalc := rfl
  rw [hr]
  cases s.recalc
  · rfl
  · simp only [if_true]
    have hi : recalcItems p.r s.forget.M s.forget.Z none s.forget.items =
        (recalcItems p.r s.M s.Z none s.items).map Item.forget := recalcItems_forget p.r s.M s.Z none s.items
    rw [hi, refillQueue_forget]
    rfl

theorem selState_forget (p : Params α) (s : State α) : selState p s.forget = (selState p s).forget := by
  unfold selState
  simp only []
  rw [recalcAll_forget]
  have hq : (recalcAll p s).forget.queue = (recalcAll p s).queue := rfl
  rw [hq]
  cases (recalcAll p s).queue.isEmpty
  · rfl
  · simp only [if_true]
    have hi : (recalcAll p s).forget.items = (recalcAll p s).items.map Item.forget := rfl
    rw [hi, refillQueue_forget]
    rfl

/-- the result of `prepare` with the points and value holders forgotten -/
def forgetPrep : Except (State α × Raise) (Prep α) → Except (State α × Raise) (Prep α)
  | .ok pr => .ok pr.forget
  | .error (s, e) => .error (s.forget, e)

/-- **`CalculateIterationPoint` does not read the points or the value holders of the stored trials** -/
theorem prepare_forget (p : Params α) (s : State α) : prepare p s.forget = forgetPrep (prepare p s) := by
  rw [prepare_eq, prepare_eq, selState_forget]
  have hq : (selState p s).forget.queue = (selState p s).queue := rfl
  have hi : (selState p s).forget.items = (selState p s).items.map Item.forget := rfl
  have hM : (selState p s).forget.M = (selState p s).M := rfl
  have hmd : (selState p s).forget.minDelta = (selState p s).minDelta := rfl
  rw [hq]
  cases hqq : (selState p s).queue with
  | nil => rfl
  | cons hd q =>
    obtain ⟨k, oid⟩ := hd
    simp only []
    rw [hi, findItem_forget, leftOf_forget]
    cases findItem (selState p s).items oid with
    | none => rfl
    | some old =>
      simp only [Option.map_some]
      cases leftOf (selState p s).items oid with
      | none => rfl
      | some left =>
        simp only [Option.map_some]
        have hx : nextX p (selState p s).forget.M left.forget old.forget = nextX p (selState p s).M left old := rfl
        have h1 : left.forget.x = left.x := rfl
        have h2 : old.forget.x = old.x := rfl
        have h3 : old.forget.delta = old.delta := rfl
        rw [hx, h1, h2, h3, hmd]
        split
        · rfl
        · rfl

theorem State.forget_eq_of {s s' : State α} (hi : s.items.map Item.forget = s'.items.map Item.forget)
    (hq : s.queue = s'.queue) (hM : s.M = s'.M) (hZ : s.Z = s'.Z) (hb : s.best = s'.best)
    (hr : s.recalc = s'.recalc) (hit : s.iters = s'.iters) (hmd : s.minDelta = s'.minDelta)
    (hn : s.nTrials = s'.nTrials) (hid : s.nextId = s'.nextId) : s.forget = s'.forget := by
  cases s; cases s'
  simp only [State.forget] at *
  simp only [hi, hq, hM, hZ, hb, hr, hit, hmd, hn, hid]

/-- `UpdateOptimum`'s test: is the new value better than the best one -/
def betterOf (pr : Prep α) (z : α) : Bool :=
  match (findItem pr.s.items pr.s.best).map (·.z) with
  | some bz => decide (z < bz)
  | none => true

/-- `commit` with the outcome of `UpdateOptimum`'s test as an argument -/
def commitWith (p : Params α) (pr : Prep α) (z : α) (better : Bool) : State α :=
  let s := pr.s
  let new0 : Item α := { id := s.nextId, x := pr.x, point := pr.point, z := z, hv := z, ev := true,
                         delta := 0, R := none }
  let (best, recalc, Z) := if better then (new0.id, true, z) else (s.best, s.recalc, s.Z)
  let old1 := { pr.old with delta := calcDelta p.n pr.x pr.old.x }
  let new1 := { new0 with delta := calcDelta p.n pr.left.x pr.x }
  let (M, recalc) := calcM s.M recalc pr.left new1
  let (M, recalc) := calcM M recalc new1 old1
  let new2 := { new1 with R := some (calcR p.r M Z pr.left new1) }
  let old2 := { old1 with R := some (calcR p.r M Z new2 old1) }
  let items := insertBefore new2 old2 s.items
  let q := qinsert s.queue new2.R new2.id
  let q := qinsert q old2.R old2.id
  { s with items := items, queue := q, M := M, Z := Z, best := best, recalc := recalc,
           iters := s.iters + 1, nTrials := s.nTrials + 1, nextId := s.nextId + 1 }

theorem commit_eq_with (p : Params α) (pr : Prep α) (z : α) : commit p pr z = commitWith p pr z (betterOf pr z) := rfl

theorem betterOf_forget (pr : Prep α) (z : α) : betterOf pr.forget z = betterOf pr z := by
  unfold betterOf
  have hi : pr.forget.s.items = pr.s.items.map Item.forget := rfl
  have hb : pr.forget.s.best = pr.s.best := rfl
  rw [hi, hb, findItem_forget]
  cases findItem pr.s.items pr.s.best <;> rfl

theorem commitWith_forget (p : Params α) (pr : Prep α) (z : α) (b : Bool) :
    (commitWith p pr.forget z b).forget = (commitWith p pr z b).forget := by
  cases b
  all_goals
    refine State.forget_eq_of ?_ rfl rfl rfl rfl rfl rfl rfl rfl rfl
    simp only [commitWith]
    have hi : pr.forget.s.items = pr.s.items.map Item.forget := rfl
    rw [hi, ← insertBefore_forget, ← insertBefore_forget, List.map_map]
    have : (Item.forget ∘ Item.forget : Item α → Item α) = Item.forget := rfl
    rw [this]
    rfl

/-- **`commit` does not read the points or the value holders of the stored trials** -/
theorem commit_forget (p : Params α) (pr : Prep α) (z : α) : (commit p pr.forget z).forget = (commit p pr z).forget := by
  rw [commit_eq_with, commit_eq_with, betterOf_forget, commitWith_forget]

end AGP

namespace Proc
open AGP AGP.Ctl

/-- the solver state up to what `DoLocalRefinement` may have overwritten: the point and the value holder of the
stored trials, `numberOfLocalTrials`, and which trial was refined (`__refinedTrial`) -/
def PState.forget (ps : PState α) : PState α := { ps with m := ps.m.map State.forget, nLocal := 0, refined := none }

def forgetRes {β : Type} : Except (PState α × Raise) (PState α × β) → Except (PState α × Raise) (PState α × β)
  | .ok (ps, b) => .ok (ps.forget, b)
  | .error (ps, e) => .error (ps.forget, e)

theorem PState.forget_forget (ps : PState α) : ps.forget.forget = ps.forget := by
  unfold PState.forget
  cases ps.m with
  | none => rfl
  | some s => simp [State.forget_forget]

theorem PState.forget_fresh : ({} : PState α).forget = {} := rfl

theorem PState.forget_appendLog (ps : PState α) (l : List Event) : (ps.appendLog l).forget = ps.forget.appendLog l := rfl

/-- **one pass of `DoGlobalIteration` does not read what a local refinement overwrites** -/
theorem oneIteration_forget (p : Params α) (f : Nat → List α → Option α) (ps : PState α) :
    forgetRes (oneIteration p f ps.forget) = forgetRes (oneIteration p f ps) := by
  rw [oneIteration_eq, oneIteration_eq]
  have hm : ps.forget.m = ps.m.map State.forget := rfl
  have hc : ps.forget.calls = ps.calls := rfl
  rw [hm, hc]
  cases ps.m with
  | none =>
    simp only [Option.map_none]
    cases f ps.calls (firstPoint p) <;> rfl
  | some s =>
    simp only [Option.map_some]
    rw [prepare_forget]
    cases prepare p s with
    | error x =>
      obtain ⟨s', e⟩ := x
      simp only [forgetPrep, forgetRes, PState.forget, Option.map_some, State.forget_forget]
    | ok pr =>
      simp only [forgetPrep]
      have hp : pr.forget.point = pr.point := rfl
      rw [hp]
      cases f ps.calls pr.point with
      | none =>
        have : pr.forget.s = pr.s.forget := rfl
        simp only [forgetRes, PState.forget, Option.map_some, this, State.forget_forget]
      | some z =>
        have : pr.forget.s.nextId = pr.s.nextId := rfl
        simp only [forgetRes, PState.forget, Option.map_some, commit_forget, this]

theorem oneIteration_forget_congr {p : Params α} {f : Nat → List α → Option α} {ps ps' : PState α}
    (h : ps.forget = ps'.forget) : forgetRes (oneIteration p f ps) = forgetRes (oneIteration p f ps') := by
  rw [← oneIteration_forget, h, oneIteration_forget]

theorem stopNow_forget (p : Params α) (ps : PState α) : stopNow p ps.forget = stopNow p ps := by
  unfold stopNow PState.forget
  cases ps.m <;> rfl

theorem stopNow_forget_congr {ps ps' : PState α} (h : ps.forget = ps'.forget) (p : Params α) :
    stopNow p ps = stopNow p ps' := by
  rw [← stopNow_forget, h, stopNow_forget]

theorem solveLoop_forget_congr (p : Params α) (f : Nat → List α → Option α) (fuel : Nat) {ps ps' : PState α}
    (h : ps.forget = ps'.forget) :
    (solveLoop p f fuel ps).1.forget = (solveLoop p f fuel ps').1.forget ∧
    (solveLoop p f fuel ps).2 = (solveLoop p f fuel ps').2 := by
  induction fuel generalizing ps ps' with
  | zero => exact ⟨h, rfl⟩
  | succ fuel ih =>
    rw [solveLoop_succ, solveLoop_succ, stopNow_forget_congr h p]
    cases stopNow p ps' with
    | true => exact ⟨h, rfl⟩
    | false =>
      simp only [Bool.false_eq_true, if_false]
      have h1 := oneIteration_forget_congr (p := p) (f := f) h
      cases ho : oneIteration p f ps with
      | error x =>
        obtain ⟨pe, e⟩ := x
        cases ho' : oneIteration p f ps' with
        | error x' =>
          obtain ⟨pe', e'⟩ := x'
          rw [ho, ho'] at h1
          simp only [forgetRes, Except.error.injEq, Prod.mk.injEq] at h1
          simp only [PState.forget_appendLog, h1.1, and_self]
        | ok x' => rw [ho, ho'] at h1; obtain ⟨a, b⟩ := x'; simp [forgetRes] at h1
      | ok x =>
        obtain ⟨ps1, id⟩ := x
        cases ho' : oneIteration p f ps' with
        | error x' => rw [ho, ho'] at h1; obtain ⟨a, b⟩ := x'; simp [forgetRes] at h1
        | ok x' =>
          obtain ⟨ps1', id'⟩ := x'
          rw [ho, ho'] at h1
          simp only [forgetRes, Except.ok.injEq, Prod.mk.injEq] at h1
          obtain ⟨h2, rfl⟩ := h1
          simp only []
          exact ih (by rw [PState.forget_appendLog, PState.forget_appendLog, h2])

theorem doLocalRefinement_forget (ps : PState α) (lr : LocalResult α) : (doLocalRefinement ps lr).forget = ps.forget := by
  unfold doLocalRefinement
  cases hm : ps.m with
  | none => simp only []
  | some s =>
    simp only [PState.forget, hm, Option.map_some, State.forget, List.map_map]
    congr 3
    apply List.map_congr_left
    intro it _
    simp only [Function.comp]
    split <;> rfl

theorem refineStep_forget (refine : PState α → Option (LocalResult α)) (ps : PState α) :
    (refineStep refine ps).forget = ps.forget := by
  unfold refineStep
  split
  · exact doLocalRefinement_forget ps _
  · rfl

/-- **`Solve` up to the refined point**: the result of `Solve`, with what the local refinement overwrites
forgotten, depends neither on the refinement configured nor on earlier refinements of the starting state -/
theorem solve_forget_congr (p : Params α) (f : Nat → List α → Option α)
    (refine refine' : PState α → Option (LocalResult α)) {ps ps' : PState α} (h : ps.forget = ps'.forget) :
    (solve p f refine ps).forget = (solve p f refine' ps').forget := by
  obtain ⟨h1, -⟩ := solveLoop_forget_congr p f (p.itersLimit + 1) h
  rw [solve_eq, solve_eq, PState.forget_appendLog, PState.forget_appendLog, refineStep_forget, refineStep_forget,
    (refineStep_fields (p := p) refine _).2.2.2.2.2.2.2.1, (refineStep_fields (p := p) refine' _).2.2.2.2.2.2.2.1,
    h1, stopNow_forget_congr h1 p]

theorem PState.forget_fields (ps : PState α) :
    ps.forget.nTrials = ps.nTrials ∧ ps.forget.iters = ps.iters ∧ ps.forget.minDelta = ps.minDelta := by
  simp only [PState.nTrials, PState.iters, PState.minDelta, PState.forget]
  cases ps.m <;> exact ⟨rfl, rfl, rfl⟩

/-- the reported quantities do not depend on what a local refinement overwrites -/
theorem fields_of_forget {a b : PState α} (h : a.forget = b.forget) :
    a.evals = b.evals ∧ a.calls = b.calls ∧ a.log = b.log ∧ a.nTrials = b.nTrials ∧ a.iters = b.iters ∧
    a.minDelta = b.minDelta ∧ ∀ q : Params α, stopNow q a = stopNow q b := by
  have he : a.forget.evals = b.forget.evals := by rw [h]
  have hc : a.forget.calls = b.forget.calls := by rw [h]
  have hl : a.forget.log = b.forget.log := by rw [h]
  obtain ⟨a1, a2, a3⟩ := a.forget_fields
  obtain ⟨b1, b2, b3⟩ := b.forget_fields
  refine ⟨he, hc, hl, ?_, ?_, ?_, fun q => stopNow_forget_congr h q⟩
  · rw [← a1, ← b1, h]
  · rw [← a2, ← b2, h]
  · rw [← a3, ← b3, h]

/-- two consecutive `Solve` calls, up to what the local refinement overwrites, do not depend on the refinements configured -/
theorem resume_forget (p1 p2 : Params α) (f : Nat → List α → Option α)
    (refine1 refine1' refine refine' : PState α → Option (LocalResult α)) :
    (solve p1 f refine1 {}).forget = (solve p1 f refine1' {}).forget ∧
    (solve p2 f refine (solve p1 f refine1 {})).forget = (solve p2 f refine' (solve p1 f refine1' {})).forget := by
  have h1 := solve_forget_congr p1 f refine1 refine1' (ps := {}) (ps' := {}) rfl
  exact ⟨h1, solve_forget_congr p2 f refine refine' h1⟩

theorem resume_raised_forget (p1 p2 : Params α) (f : Nat → List α → Option α)
    (refine1 refine1' : PState α → Option (LocalResult α)) (fuel : Nat) :
    (solveLoop p2 f fuel (solve p1 f refine1 {})).2 = (solveLoop p2 f fuel (solve p1 f refine1' {})).2 :=
  (solveLoop_forget_congr p2 f fuel (resume_forget p1 p2 f refine1 refine1' refine1 refine1).1).2

theorem PState.forget_core (ps : PState α) : ps.forget.core = ps.core.forget := rfl

end Proc
end

/-! ### reachability and the invariant do not depend on `eps` / `itersLimit` -/

namespace AGP
variable {α : Type} [Field α] [LinearOrder α] [IsStrictOrderedRing α] [Fns α]

theorem Run_update (p : Params α) (e : α) (l : Nat) {hist : List (State α)} {log : List (List α × α)}
    (h : Run p hist log) : Run { p with eps := e, itersLimit := l } hist log := by
  induction h with
  | first z => exact Run.first (p := { p with eps := e, itersLimit := l }) z
  | step z _ hp ih => exact Run.step (p := { p with eps := e, itersLimit := l }) z ih hp

variable {p1 p2 : Params α}

theorem Run_sameMethod (h : SameMethod p1 p2) {hist : List (State α)} {log : List (List α × α)} :
    Run p2 hist log ↔ Run p1 hist log := by
  constructor
  · intro hr; rw [h.symm.eq_update]; exact Run_update p2 _ _ hr
  · intro hr; rw [h.eq_update]; exact Run_update p1 _ _ hr

/-- the set of reachable method states does not depend on `eps` / `itersLimit` -/
theorem Reach_sameMethod (h : SameMethod p1 p2) {s : State α} {log : List (List α × α)} :
    Reach p2 s log ↔ Reach p1 s log := by
  unfold Reach
  constructor
  · rintro ⟨hist, hr⟩; exact ⟨hist, (Run_sameMethod h).1 hr⟩
  · rintro ⟨hist, hr⟩; exact ⟨hist, (Run_sameMethod h).2 hr⟩

theorem Inv_update (p : Params α) (e : α) (l : Nat) {s : State α} (h : Inv p s) :
    Inv { p with eps := e, itersLimit := l } s :=
  { sorted := h.sorted, head0 := h.head0, last1 := h.last1, ev_iff := h.ev_iff, ids_nodup := h.ids_nodup,
    nextId_eq := h.nextId_eq, ids_lt := h.ids_lt, delta := h.delta, M_ge := h.M_ge, slope := h.slope,
    Z_le := h.Z_le, best := h.best, best_first := h.best_first, iters_eq := h.iters_eq,
    nTrials_eq := h.nTrials_eq, hv_eq := h.hv_eq, point_eq := h.point_eq, fresh := h.fresh, queue := h.queue }

/-- the invariant of the AGP iteration does not mention `eps` / `itersLimit` -/
theorem Inv_sameMethod (h : SameMethod p1 p2) {s : State α} : Inv p2 s ↔ Inv p1 s := by
  constructor
  · intro hi; rw [h.symm.eq_update]; exact Inv_update p2 _ _ hi
  · intro hi; rw [h.eq_update]; exact Inv_update p1 _ _ hi

end AGP

namespace Proc
open AGP AGP.Ctl
variable {α : Type} [Field α] [LinearOrder α] [IsStrictOrderedRing α] [Fns α]
variable {p1 p2 : Params α} {f : Nat → List α → Option α}

theorem procOK_sameMethod (h : SameMethod p1 p2) {ps : PState α} : ProcOK p2 ps ↔ ProcOK p1 ps := by
  unfold ProcOK
  cases ps.m with
  | none => exact Iff.rfl
  | some s => exact Reach_sameMethod h

end Proc

/-! ### the criterion of the second parameter object on the trial sequence of the first -/

namespace C03
open AGP AGP.Ctl Proc

/-- `CheckStopCondition` with accuracy `eps` and budget `L`, read on the trial sequence of `p` after `K`
trials: the budget is used up (`L ≤ K`), or one of the intervals subdivided so far (by trials `k ≤ K`) has
Hölder length `δ_k = delta p f k` below `eps`. -/
def StopsAt {α : Type} [Add α] [Sub α] [Mul α] [Div α] [Neg α] [LT α] [LE α]
    [DecidableLT α] [DecidableLE α] [OfNat α 0] [OfNat α 1] [OfNat α 2] [OfNat α 4] [Fns α]
    (p : Params α) (f : Nat → List α → Option α) (eps : α) (L : Nat) (K : Nat) : Prop :=
  L ≤ K ∨ ∃ k d, k ≤ K ∧ delta p f k = some d ∧ d < eps

section
variable {α : Type} [Add α] [Sub α] [Mul α] [Div α] [Neg α] [LinearOrder α]
  [OfNat α 0] [OfNat α 1] [OfNat α 2] [OfNat α 4] [Fns α]

theorem StopsAt.mono {p : Params α} {f : Nat → List α → Option α} {eps : α} {L K K' : Nat} (hK : K ≤ K')
    (h : StopsAt p f eps L K) : StopsAt p f eps L K' := by
  rcases h with h | ⟨k, d, hk, hd, hlt⟩
  · exact .inl (Nat.le_trans h hK)
  · exact .inr ⟨k, d, Nat.le_trans hk hK, hd, hlt⟩

/-- weakening the criterion: a larger `eps` and a smaller budget stop at least as early -/
theorem StopsAt.weaken {p : Params α} {f : Nat → List α → Option α} {eps eps' : α} {L L' K : Nat}
    (he : eps ≤ eps') (hL : L' ≤ L) (h : StopsAt p f eps L K) : StopsAt p f eps' L' K := by
  rcases h with h | ⟨k, d, hk, hd, hlt⟩
  · exact .inl (Nat.le_trans hL h)
  · exact .inr ⟨k, d, hk, hd, lt_of_lt_of_le hlt he⟩

theorem crit_iff_stopsAt {p1 p2 : Params α} (h : SameMethod p1 p2) (f : Nat → List α → Option α) (K : Nat) :
    Crit p2 f {} K ↔ StopsAt p1 f p2.eps p2.itersLimit K := by
  rw [crit_fresh_iff]
  unfold StopsAt
  constructor
  · rintro (⟨i, d, hi, hd, hlt⟩ | hl)
    · right
      refine ⟨i + 1, d, hi, ?_, hlt⟩
      show deltaAt p1 f {} (i + 1 - 1) = some d
      rw [← deltaAt_sameMethod h]; exact hd
    · exact .inl hl
  · rintro (hl | ⟨k, d, hk, hd, hlt⟩)
    · exact .inr hl
    · left
      rcases Nat.eq_zero_or_pos k with rfl | hk0
      · have : delta p1 f 0 = none := deltaAt_fresh_zero p1 f
        rw [this] at hd; cases hd
      · refine ⟨k - 1, d, by omega, ?_, hlt⟩
        rw [deltaAt_sameMethod h]; exact hd

end
end C03

/-! ### what the reported quantities are -/

section
variable {α : Type} [Add α] [Sub α] [Mul α] [Div α] [Neg α] [LT α] [LE α]
  [DecidableLT α] [DecidableLE α] [OfNat α 0] [OfNat α 1] [OfNat α 2] [OfNat α 4] [Fns α]

namespace Proc
open AGP AGP.Ctl

theorem fields_of_core {X ps : PState α} (h : X.core = ps.core) :
    X.nTrials = ps.nTrials ∧ X.iters = ps.iters ∧ X.minDelta = ps.minDelta ∧ X.evals = ps.evals ∧
    X.calls = ps.calls ∧ X.m = ps.m := by
  obtain ⟨h1, h2, -, h4, -⟩ := PState.core_eq_iff.1 h
  simp only [PState.nTrials, PState.iters, PState.minDelta, h1]
  exact ⟨trivial, trivial, trivial, h2, h4, trivial⟩

/-- the reported quantities of `(refineStep refine X).appendLog l` for `X` equal, up to the log, to state `K`
of the canonical sequence from a fresh solver -/
theorem fields_of_run {p : Params α} {f : Nat → List α → Option α} {K : Nat} {psK X : PState α} {ids : List Nat}
    (hrun : iterN p f K {} = .ok (psK, ids)) (hc : X.core = psK.core)
    (refine : PState α → Option (LocalResult α)) (l : List Event) :
    ((refineStep refine X).appendLog l).nTrials = K ∧ ((refineStep refine X).appendLog l).iters = K ∧
    ((refineStep refine X).appendLog l).calls = K ∧ ((refineStep refine X).appendLog l).evals = psK.evals ∧
    ((refineStep refine X).appendLog l).evals.length = K ∧
    ((refineStep refine X).appendLog l).minDelta = foldMin none (deltas p f {} K) ∧
    (∀ i pt z, ((refineStep refine X).appendLog l).evals[i]? = some (pt, z) → f i pt = some z) := by
  obtain ⟨-, r2, r3, r4, r5, -, r7, -⟩ := refineStep_fields (p := p) refine X
  obtain ⟨c1, c2, c3, c4, -, -, c7⟩ := iterN_counters hrun
  obtain ⟨-, -, new, hnew, -, hg⟩ := iterN_ids_evals hrun
  obtain ⟨x1, x2, x3, x4, x5, -⟩ := fields_of_core hc
  have e1 : ((refineStep refine X).appendLog l).nTrials = (refineStep refine X).nTrials := rfl
  have e2 : ((refineStep refine X).appendLog l).iters = (refineStep refine X).iters := rfl
  have e3 : ((refineStep refine X).appendLog l).minDelta = (refineStep refine X).minDelta := rfl
  have h0 : ({} : PState α).calls = 0 := rfl
  have hev : ((refineStep refine X).appendLog l).evals = psK.evals := by
    rw [PState.appendLog_evals, r2, x4]
  refine ⟨?_, ?_, ?_, hev, ?_, ?_, ?_⟩
  · rw [e1, r5, x1, c2]; exact Nat.zero_add K
  · rw [e2, r4, x2, c1]; exact Nat.zero_add K
  · rw [PState.appendLog_calls, r3, x5, c3]; exact Nat.zero_add K
  · rw [hev, c4]; exact Nat.zero_add K
  · rw [e3, r7, x3, c7]; rfl
  · intro i pt z hi
    rw [hev, hnew] at hi
    have := hg i pt z (by simpa using hi)
    rwa [h0, Nat.zero_add] at this

/-- every trial after the first of a run from a fresh solver subdivides an interval: `δ_k` is defined for `2 ≤ k ≤ K` -/
theorem delta_defined_of_run {p : Params α} {f : Nat → List α → Option α} {K : Nat} {psK : PState α} {ids : List Nat}
    (hrun : iterN p f K {} = .ok (psK, ids)) :
    ∀ k, 2 ≤ k → k ≤ K → ∃ d, C03.delta p f k = some d := by
  intro k h2 hk
  have hsplit : K = (k - 1) + (K - (k - 1)) := by omega
  rw [hsplit, iterN_add] at hrun
  split at hrun
  · cases hrun
  · next ps1 ids1 h1 =>
    have hm1 : ps1.m ≠ none := by
      have hk1 : k - 1 = (k - 2) + 1 := by omega
      rw [hk1, iterN_succ'] at h1
      split at h1
      · cases h1
      · next psa idsa ha =>
        split at h1
        · cases h1
        · next psb idb hb => cases h1; exact (oneIteration_ok_counters hb).1
    have hK2 : K - (k - 1) = (K - k) + 1 := by omega
    rw [hK2, iterN] at hrun
    cases ho : oneIteration p f ps1 with
    | error x => rw [ho] at hrun; cases hrun
    | ok x => exact deltaAt_isSome h1 hm1 ho

/-- along the canonical sequence the record of evaluations only grows -/
theorem iterN_le_prefix {p : Params α} {f : Nat → List α → Option α} {a b : Nat} {ps psa psb : PState α}
    {ida idb : List Nat} (hab : a ≤ b) (ha : iterN p f a ps = .ok (psa, ida)) (hb : iterN p f b ps = .ok (psb, idb)) :
    psa.evals <+: psb.evals := by
  have hsplit : b = a + (b - a) := by omega
  rw [hsplit, iterN_add, ha] at hb
  simp only [] at hb
  split at hb
  · cases hb
  · next ps2 ids2 h2 => cases hb; exact iterN_evals_prefix h2

theorem mem_deltas_fresh {p : Params α} {f : Nat → List α → Option α} {K : Nat} {d : α} :
    d ∈ deltas p f {} K ↔ ∃ k, 2 ≤ k ∧ k ≤ K ∧ C03.delta p f k = some d := by
  rw [mem_deltas]
  constructor
  · rintro ⟨i, hi, hd⟩
    rcases Nat.eq_zero_or_pos i with rfl | h0
    · rw [deltaAt_fresh_zero] at hd; cases hd
    · exact ⟨i + 1, by omega, by omega, by simpa [C03.delta] using hd⟩
  · rintro ⟨k, h2, hk, hd⟩
    exact ⟨k - 1, by omega, hd⟩

end Proc
end

section
variable {α : Type} [Add α] [Sub α] [Mul α] [Div α] [Neg α] [LinearOrder α]
  [OfNat α 0] [OfNat α 1] [OfNat α 2] [OfNat α 4] [Fns α]

namespace Proc
open AGP AGP.Ctl

/-- the running Python-`min` over the lengths selected by the first `K` trials of a run from a fresh solver is
`inf` if `K ≤ 1`, and otherwise the least of `δ_2 … δ_K` (and one of them) -/
theorem foldMin_deltas_spec {p : Params α} {f : Nat → List α → Option α} {K : Nat} {psK : PState α} {ids : List Nat}
    (hrun : iterN p f K {} = .ok (psK, ids)) :
    (K ≤ 1 → foldMin none (deltas p f {} K) = none) ∧
    (2 ≤ K → ∃ m, foldMin none (deltas p f {} K) = some m ∧
      (∃ k, 2 ≤ k ∧ k ≤ K ∧ C03.delta p f k = some m) ∧
      ∀ k d, 2 ≤ k → k ≤ K → C03.delta p f k = some d → m ≤ d) := by
  have hdef := delta_defined_of_run hrun
  constructor
  · intro hK
    have : deltas p f ({} : PState α) K = [] := by
      rcases foldMin_spec (none : Option α) (deltas p f {} K) with ⟨-, h, -⟩ | ⟨m, -, -, -, h3⟩
      · exact h
      · rcases h3 with h3 | h3
        · obtain ⟨k, h2, hk, -⟩ := mem_deltas_fresh.1 h3; omega
        · cases h3
    rw [this]; rfl
  · intro hK
    rcases foldMin_spec (none : Option α) (deltas p f {} K) with ⟨-, h, -⟩ | ⟨m, hm, h1, -, h3⟩
    · obtain ⟨d, hd⟩ := hdef 2 (Nat.le_refl _) hK
      have := (mem_deltas_fresh (p := p) (f := f) (K := K)).2 ⟨2, Nat.le_refl _, hK, hd⟩
      rw [h] at this; cases this
    · rcases h3 with h3 | h3
      · exact ⟨m, hm, mem_deltas_fresh.1 h3, fun k d h2 hk hd => h1 d (mem_deltas_fresh.2 ⟨k, h2, hk, hd⟩)⟩
      · cases h3

end Proc
end


/-! ### the resumed run (any numeric type with a linear order; "nothing raises" as hypotheses) -/

section
variable {α : Type} [Add α] [Sub α] [Mul α] [Div α] [Neg α] [LinearOrder α]
  [OfNat α 0] [OfNat α 1] [OfNat α 2] [OfNat α 4] [Fns α]

namespace Proc
open AGP AGP.Ctl C03
variable {p1 p2 : Params α} {f : Nat → List α → Option α}

/-- the first `Solve` on a fresh solver, no refinement configured: it ends, up to the event log, in state
`K1` of the canonical sequence, `K1` being the first index at which the criterion of `p1` holds -/
theorem first_phase_spec (hnr : (solveLoop p1 f (p1.itersLimit + 1) {}).2 = false) :
    ∃ K1 ps1 ids1, iterN p1 f K1 {} = .ok (ps1, ids1) ∧
      (solve p1 f (fun _ => none) {}).core = ps1.core ∧
      Crit p1 f {} K1 ∧ ∀ j, j < K1 → ¬ Crit p1 f {} j := by
  have hfuel : remaining p1 ({} : PState α) < p1.itersLimit + 1 := Nat.lt_succ_of_le (remaining_le p1 _)
  obtain ⟨K, psK, ids, hrun, heq, hcrit, hmin⟩ := solveLoop_stop_exact hfuel hnr
  refine ⟨K, psK, ids, hrun, ?_, hcrit, hmin⟩
  rw [solve_eq]
  show (refineStep (fun _ => none) (solveLoop p1 f (p1.itersLimit + 1) {}).1).core = psK.core
  have : refineStep (fun _ => none) (solveLoop p1 f (p1.itersLimit + 1) {}).1 =
      (solveLoop p1 f (p1.itersLimit + 1) {}).1 := rfl
  rw [this, heq]; rfl

/-- **Structure of the resumed run.**  `Solve` with parameters `p1` on a fresh solver, then `Solve` with
parameters `p2` (same `n`, `r`, evolvent), neither call catching an exception.  The first call stops in state
`K1` of the canonical sequence (first index at which the criterion of `p1` holds); the second call goes on along
the SAME sequence to state `K2`, the first index `≥ K1` at which the criterion of `p2` holds. -/
theorem resume_spec (hs : SameMethod p1 p2)
    (hnr1 : (solveLoop p1 f (p1.itersLimit + 1) {}).2 = false)
    (hnr2 : (solveLoop p2 f (p2.itersLimit + 1) (solve p1 f (fun _ => none) {})).2 = false)
    (refine : PState α → Option (LocalResult α)) :
    ∃ K1 ps1 ids1 K2 ps2 ids2 X,
      iterN p1 f K1 {} = .ok (ps1, ids1) ∧
      (solve p1 f (fun _ => none) {}).core = ps1.core ∧
      Crit p1 f {} K1 ∧ (∀ j, j < K1 → ¬ Crit p1 f {} j) ∧
      K1 ≤ K2 ∧
      iterN p1 f K2 {} = .ok (ps2, ids1 ++ ids2) ∧
      StopsAt p1 f p2.eps p2.itersLimit K2 ∧
      (∀ j, K1 ≤ j → j < K2 → ¬ StopsAt p1 f p2.eps p2.itersLimit j) ∧
      stopNow p2 ps2 = true ∧
      solveLoop p2 f (p2.itersLimit + 1) (solve p1 f (fun _ => none) {}) = (X, false) ∧
      X.core = ps2.core ∧
      solve p2 f refine (solve p1 f (fun _ => none) {}) =
        (refineStep refine X).appendLog [Event.methodStop true] := by
  obtain ⟨K1, ps1, ids1, hrun1, hc1, hcrit1, hmin1⟩ := first_phase_spec (p1 := p1) hnr1
  have h0 : iterN p2 f K1 {} = .ok (ps1, ids1) := by rw [iterN_sameMethod hs]; exact hrun1
  obtain ⟨j, psj, ids, hrunj, hpre, hcase⟩ := solveLoop_after (ps1 := solve p1 f (fun _ => none) {}) h0 hc1
  rcases hcase with ⟨hst, X, hcX, hsl⟩ | ⟨-, pe, e, X, -, -, hsl⟩
  · refine ⟨K1, ps1, ids1, K1 + j, psj, ids, X, hrun1, hc1, hcrit1, hmin1, Nat.le_add_right _ _, ?_, ?_, ?_, hst,
      hsl, hcX, ?_⟩
    · rw [← iterN_sameMethod hs]; exact hrunj
    · exact (crit_iff_stopsAt hs f _).1 ((stopNow_iff_crit hrunj).1 hst)
    · intro i hi1 hi2 hcrit
      obtain ⟨psi, idsi, hri, hns⟩ := hpre (i - K1) (by omega)
      have hi : K1 + (i - K1) = i := by omega
      rw [hi] at hri
      have := (stopNow_iff_crit hri).2 ((crit_iff_stopsAt hs f _).2 hcrit)
      rw [hns] at this; cases this
    · rw [solve_eq, hsl]
      simp only []
      rw [(refineStep_fields (p := p2) refine X).2.2.2.2.2.2.2.1, stopNow_congr hcX, hst]
  · rw [hsl] at hnr2; cases hnr2

/-- ONE uninterrupted `Solve` with the parameters `p2` on a fresh solver, described on the trial sequence of `p1` -/
theorem uninterrupted_spec (hs : SameMethod p1 p2) (hnr : (solveLoop p2 f (p2.itersLimit + 1) {}).2 = false)
    (refine : PState α → Option (LocalResult α)) :
    ∃ Ku psU idsU XU, iterN p1 f Ku {} = .ok (psU, idsU) ∧
      StopsAt p1 f p2.eps p2.itersLimit Ku ∧ (∀ j, j < Ku → ¬ StopsAt p1 f p2.eps p2.itersLimit j) ∧
      XU.core = psU.core ∧
      solve p2 f refine {} = (refineStep refine XU).appendLog [Event.methodStop true] := by
  have hfuel : remaining p2 ({} : PState α) < p2.itersLimit + 1 := Nat.lt_succ_of_le (remaining_le p2 _)
  obtain ⟨K, psK, ids, hrun, heq, hcrit, hmin⟩ := solveLoop_stop_exact hfuel hnr
  refine ⟨K, psK, ids, (solveLoop p2 f (p2.itersLimit + 1) {}).1, ?_, (crit_iff_stopsAt hs f K).1 hcrit,
    fun j hj h => hmin j hj ((crit_iff_stopsAt hs f j).2 h), by rw [heq]; rfl, ?_⟩
  · rw [← iterN_sameMethod hs]; exact hrun
  · rw [solve_eq, (refineStep_fields (p := p2) refine _).2.2.2.2.2.2.2.1, heq]
    have : stopNow p2 (psK.appendLog (endEach ids)) = stopNow p2 psK := stopNow_congr (PState.appendLog_core _ _)
    rw [this, (stopNow_iff_crit hrun).2 hcrit]

/-- the resumed run makes `max K1 Ku` trials, `Ku` being the length of the uninterrupted run with the second parameters -/
theorem resume_max {K1 K2 Ku : Nat} (h12 : K1 ≤ K2)
    (h2 : StopsAt p1 f p2.eps p2.itersLimit K2)
    (h2min : ∀ j, K1 ≤ j → j < K2 → ¬ StopsAt p1 f p2.eps p2.itersLimit j)
    (hu : StopsAt p1 f p2.eps p2.itersLimit Ku)
    (humin : ∀ j, j < Ku → ¬ StopsAt p1 f p2.eps p2.itersLimit j) : K2 = max K1 Ku := by
  rcases Nat.le_total K1 Ku with h | h
  · rw [Nat.max_eq_right h]
    rcases Nat.lt_trichotomy K2 Ku with hlt | heq | hgt
    · exact absurd h2 (humin _ hlt)
    · exact heq
    · exact absurd hu (h2min _ h hgt)
  · rw [Nat.max_eq_left h]
    rcases Nat.eq_or_lt_of_le h12 with heq | hlt
    · exact heq.symm
    · exact absurd (hu.mono h) (h2min _ (Nat.le_refl _) hlt)

end Proc
end

/-! ### over an ordered field with a total objective nothing raises, in either phase -/

namespace Proc
open AGP AGP.Ctl C03
variable {α : Type} [Field α] [LinearOrder α] [IsStrictOrderedRing α] [Fns α]
variable {p1 p2 : Params α} {f : Nat → List α → Option α}

theorem resume_no_raise (hL : FnsLaws α) (hr : 1 < p1.r) (hn : 0 < p1.n) (htot : ∀ i pt, f i pt ≠ none)
    (hs : SameMethod p1 p2) :
    (solveLoop p1 f (p1.itersLimit + 1) {}).2 = false ∧
    (solveLoop p2 f (p2.itersLimit + 1) (solve p1 f (fun _ => none) {})).2 = false ∧
    (solveLoop p2 f (p2.itersLimit + 1) {}).2 = false := by
  have hr2 : 1 < p2.r := by rw [hs.2.1]; exact hr
  have hn2 : 0 < p2.n := by rw [hs.1]; exact hn
  obtain ⟨h1, hok1⟩ := solveLoop_total hL hr hn htot (p1.itersLimit + 1) (procOK_fresh p1)
  have hok : ProcOK p1 (solve p1 f (fun _ => none) {}) := by
    refine procOK_of_core ?_ hok1
    rw [solve_eq]; rfl
  exact ⟨h1, (solveLoop_total hL hr2 hn2 htot _ ((procOK_sameMethod hs).2 hok)).1,
    (solveLoop_total hL hr2 hn2 htot _ (procOK_fresh p2)).1⟩

end Proc

/-! ### any number of resumptions -/

section
variable {α : Type} [Add α] [Sub α] [Mul α] [Div α] [Neg α] [LT α] [LE α]
  [DecidableLT α] [DecidableLE α] [OfNat α 0] [OfNat α 1] [OfNat α 2] [OfNat α 4] [Fns α]

namespace Proc
open AGP AGP.Ctl

/-- `Solve` with each parameter object (and refinement) of the list in turn -/
def solveMany (f : Nat → List α → Option α) :
    List (Params α × (PState α → Option (LocalResult α))) → PState α → PState α
  | [], ps => ps
  | (q, r) :: t, ps => solveMany f t (solve q f r ps)

/-- none of the `Solve` calls of `solveMany` catches an exception -/
def NoRaiseMany (f : Nat → List α → Option α) :
    List (Params α × (PState α → Option (LocalResult α))) → PState α → Prop
  | [], _ => True
  | (q, r) :: t, ps => (solveLoop q f (q.itersLimit + 1) ps).2 = false ∧ NoRaiseMany f t (solve q f r ps)

/-- `ps` is, up to the event log and what a local refinement overwrites, state `K` of the canonical sequence from a
fresh solver -/
def Along (p : Params α) (f : Nat → List α → Option α) (K : Nat) (ps : PState α) : Prop :=
  ∃ psK ids, iterN p f K {} = .ok (psK, ids) ∧ ps.forget.core = psK.forget.core

theorem along_fresh (p : Params α) (f : Nat → List α → Option α) : Along p f 0 ({} : PState α) :=
  ⟨{}, [], rfl, rfl⟩

theorem fields_of_forget_core {a b : PState α} (h : a.forget.core = b.forget.core) :
    a.evals = b.evals ∧ a.calls = b.calls ∧ a.nTrials = b.nTrials ∧ a.iters = b.iters ∧
    a.minDelta = b.minDelta ∧ ∀ q : Params α, stopNow q a = stopNow q b := by
  have h' : a.core.forget = b.core.forget := h
  obtain ⟨h1, h2, -, h4, h5, h6, h7⟩ := fields_of_forget h'
  exact ⟨h1, h2, h4, h5, h6, h7⟩

/-- the state `psK` carrying the event log of `ps` -/
theorem along_repr {ps psK : PState α} (hc : ps.forget.core = psK.forget.core) :
    ps.forget = ({ psK with log := ps.log } : PState α).forget :=
  PState.ext_core_log hc rfl

end Proc
end

section
variable {α : Type} [Add α] [Sub α] [Mul α] [Div α] [Neg α] [LinearOrder α]
  [OfNat α 0] [OfNat α 1] [OfNat α 2] [OfNat α 4] [Fns α]

namespace Proc
open AGP AGP.Ctl C03
variable {p q : Params α} {f : Nat → List α → Option α}

/-- **One more `Solve`, with parameters `q`, from a state along the canonical sequence**: it goes on along the same
sequence from index `K` to the first index `K' ≥ K` at which the criterion of `q` holds. -/
theorem solve_along (hs : SameMethod p q) {K : Nat} {ps : PState α} (ha : Along p f K ps)
    (hnr : (solveLoop q f (q.itersLimit + 1) ps).2 = false) (refine : PState α → Option (LocalResult α)) :
    ∃ K', K ≤ K' ∧ Along p f K' (solve q f refine ps) ∧
      StopsAt p f q.eps q.itersLimit K' ∧ (∀ j, K ≤ j → j < K' → ¬ StopsAt p f q.eps q.itersLimit j) ∧
      stopNow q (solve q f refine ps) = true := by
  obtain ⟨psK, ids, hrun, hc⟩ := ha
  have hF := along_repr hc
  have h0 : iterN q f K {} = .ok (psK, ids) := by rw [iterN_sameMethod hs]; exact hrun
  rw [(solveLoop_forget_congr q f _ hF).2] at hnr
  obtain ⟨j, psj, ids', hrunj, hpre, hcase⟩ :=
    solveLoop_after (ps1 := ({ psK with log := ps.log } : PState α)) h0 rfl
  rcases hcase with ⟨hst, X, hcX, hsl⟩ | ⟨-, pe, e, X, -, -, hsl⟩
  · have hS := solve_forget_congr q f refine (fun _ => none) hF
    have hX : solve q f (fun _ => none) ({ psK with log := ps.log } : PState α) =
        X.appendLog [Event.methodStop (stopNow q X)] := by
      rw [solve_eq, hsl]; rfl
    refine ⟨K + j, Nat.le_add_right _ _, ⟨psj, ids ++ ids', ?_, ?_⟩, ?_, ?_, ?_⟩
    · rw [← iterN_sameMethod hs]; exact hrunj
    · rw [hS, hX]
      show X.core.forget = psj.core.forget
      rw [hcX]
    · exact (crit_iff_stopsAt hs f _).1 ((stopNow_iff_crit hrunj).1 hst)
    · intro i hi1 hi2 hcrit
      obtain ⟨psi, idsi, hri, hns⟩ := hpre (i - K) (by omega)
      have hi : K + (i - K) = i := by omega
      rw [hi] at hri
      have := (stopNow_iff_crit hri).2 ((crit_iff_stopsAt hs f _).2 hcrit)
      rw [hns] at this; cases this
    · rw [stopNow_forget_congr hS q, hX, stopNow_congr (PState.appendLog_core _ _), stopNow_congr hcX, hst]
  · rw [hsl] at hnr; cases hnr

/-- number of trials of ONE uninterrupted `Solve` with the parameters `q` on a fresh solver -/
def trialsAlone (f : Nat → List α → Option α) (q : Params α) : Nat := (solve q f (fun _ => none) {}).nTrials

theorem trialsAlone_spec (hs : SameMethod p q) (hnr : (solveLoop q f (q.itersLimit + 1) {}).2 = false) :
    StopsAt p f q.eps q.itersLimit (trialsAlone f q) ∧
    (∀ j, j < trialsAlone f q → ¬ StopsAt p f q.eps q.itersLimit j) ∧
    Along p f (trialsAlone f q) (solve q f (fun _ => none) {}) := by
  obtain ⟨Ku, psU, idsU, XU, hrunU, hstU, hminU, hcXU, hU⟩ := uninterrupted_spec hs hnr (fun _ => none)
  have hK : trialsAlone f q = Ku := by
    unfold trialsAlone
    rw [hU]
    exact (fields_of_run hrunU hcXU (fun _ => none) [Event.methodStop true]).1
  rw [hK]
  refine ⟨hstU, hminU, psU, idsU, hrunU, ?_⟩
  rw [hU]
  show XU.core.forget = psU.core.forget
  rw [hcXU]

/-- **Any number of resumptions**: `Solve` with each `q ∈ qs` in turn (all with the method of `p`), none catching an
exception, from a state along the canonical sequence at index `K`: the result is along the same sequence at index
`max(K, max_q Ku(q))`, `Ku(q)` being the number of trials of one uninterrupted `Solve` with `q`. -/
theorem solveMany_along (qs : List (Params α × (PState α → Option (LocalResult α))))
    (hs : ∀ x ∈ qs, SameMethod p x.1) (hU : ∀ x ∈ qs, (solveLoop x.1 f (x.1.itersLimit + 1) {}).2 = false)
    {K : Nat} {ps : PState α} (ha : Along p f K ps) (hnr : NoRaiseMany f qs ps) :
    Along p f ((qs.map fun x => trialsAlone f x.1).foldl max K) (solveMany f qs ps) ∧
    (∀ x, qs.getLast? = some x → stopNow x.1 (solveMany f qs ps) = true) := by
  induction qs generalizing K ps with
  | nil => exact ⟨ha, fun x hx => by cases hx⟩
  | cons x t ih =>
    obtain ⟨q, r⟩ := x
    obtain ⟨hnr1, hnrt⟩ := hnr
    have hsq : SameMethod p q := hs (q, r) List.mem_cons_self
    obtain ⟨K', hKK', ha', hst, hmin, hstop⟩ := solve_along hsq ha hnr1 r
    obtain ⟨hstU, hminU, -⟩ := trialsAlone_spec hsq (hU (q, r) List.mem_cons_self)
    have hmax : K' = max K (trialsAlone f q) := resume_max (p1 := p) (p2 := q) hKK' hst hmin hstU hminU
    have := ih (fun y hy => hs y (List.mem_cons_of_mem _ hy)) (fun y hy => hU y (List.mem_cons_of_mem _ hy)) ha' hnrt
    rw [hmax] at this
    refine ⟨this.1, ?_⟩
    intro y hy
    cases t with
    | nil =>
      simp only [List.getLast?_singleton, Option.some.injEq] at hy
      subst hy
      exact hstop
    | cons z t' =>
      rw [List.getLast?_cons_cons] at hy
      exact this.2 y hy

end Proc
end

theorem Proc.le_foldl_max (l : List Nat) (a : Nat) : a ≤ l.foldl max a ∧ ∀ x ∈ l, x ≤ l.foldl max a := by
  induction l generalizing a with
  | nil => exact ⟨Nat.le_refl _, fun x hx => by cases hx⟩
  | cons y t ih =>
    obtain ⟨h1, h2⟩ := ih (max a y)
    refine ⟨Nat.le_trans (Nat.le_max_left _ _) h1, ?_⟩
    intro x hx
    rcases List.mem_cons.1 hx with rfl | hx
    · exact Nat.le_trans (Nat.le_max_right _ _) h1
    · exact h2 x hx

namespace Proc
open AGP AGP.Ctl C03
variable {α : Type} [Field α] [LinearOrder α] [IsStrictOrderedRing α] [Fns α]
variable {p q : Params α} {f : Nat → List α → Option α}

/-- over an ordered field with a total objective, `Solve` from a state along the canonical sequence catches no exception -/
theorem along_no_raise (hL : FnsLaws α) (hr : 1 < p.r) (hn : 0 < p.n) (htot : ∀ i pt, f i pt ≠ none)
    (hs : SameMethod p q) {K : Nat} {ps : PState α} (ha : Along p f K ps) (fuel : Nat) :
    (solveLoop q f fuel ps).2 = false := by
  have hr2 : 1 < q.r := by rw [hs.2.1]; exact hr
  have hn2 : 0 < q.n := by rw [hs.1]; exact hn
  obtain ⟨psK, ids, hrun, hc⟩ := ha
  rw [(solveLoop_forget_congr q f fuel (along_repr hc)).2]
  have hok : ProcOK q ({ psK with log := ps.log } : PState α) :=
    procOK_of_core (ps := psK) rfl ((procOK_sameMethod hs).2 (iterN_procOK (procOK_fresh p) hrun))
  exact (solveLoop_total hL hr2 hn2 htot fuel hok).1

theorem noRaiseMany_total (hL : FnsLaws α) (hr : 1 < p.r) (hn : 0 < p.n) (htot : ∀ i pt, f i pt ≠ none)
    (qs : List (Params α × (PState α → Option (LocalResult α)))) (hs : ∀ x ∈ qs, SameMethod p x.1)
    {K : Nat} {ps : PState α} (ha : Along p f K ps) : NoRaiseMany f qs ps := by
  induction qs generalizing K ps with
  | nil => trivial
  | cons x t ih =>
    obtain ⟨q, r⟩ := x
    have hsq : SameMethod p q := hs (q, r) List.mem_cons_self
    have h1 := along_no_raise hL hr hn htot hsq ha (q.itersLimit + 1)
    obtain ⟨K', -, ha', -⟩ := solve_along hsq ha h1 r
    exact ⟨h1, ih (fun y hy => hs y (List.mem_cons_of_mem _ hy)) ha'⟩

end Proc
