import IOptProofs.World
/-!
# C12 helpers: what the local step leaves alone

`lstep_frame`: the local step never frees or moves a cell, changes only the old cells listed in `Out.wrote`, creates
exactly the cells listed in `Out.allocated` beyond the old end of the region, and only ever appends to `handed`.
-/

namespace World
variable {V : Type}

theorem lCalculate_frame {c c' : Comp V} {sol n : Ref} {z : V} {wr : List Ref}
    (h : lCalculate c sol n z = some (c', wr)) :
    HeapFrame c c' wr ∧ c'.heap.length = c.heap.length ∧ c'.st = c.st ∧ c'.handed = c.handed := by
  unfold lCalculate at h
  cases h1 : Cell.fv? (lread c n) with
  | none => simp [h1] at h
  | some fl =>
    cases h2 : Cell.head? (lread c fl) with
    | none => simp [h1, h2] at h
    | some hd =>
      cases h3 : Cell.value? (lread c hd) with
      | none => simp [h1, h2, h3] at h
      | some v =>
        cases h4 : Cell.sol? (lread (lwrite (lwrite c hd (.holder z)) fl (.list (some hd))) sol) with
        | none => simp [h1, h2, h3, h4] at h
        | some p =>
          simp [h1, h2, h3, h4] at h
          obtain ⟨rfl, rfl⟩ := h
          refine ⟨?_, by simp, rfl, rfl⟩
          have := ((heapFrame_lwrite c hd (.holder z)).trans
            (heapFrame_lwrite _ fl (.list (some hd)))).trans (heapFrame_lwrite _ sol (.solution p.1 (p.2 + 1)))
          simpa using this

theorem lStoreBest_frame {c c' : Comp V} {sol b : Ref} {wr : List Ref}
    (h : lStoreBest c sol b = some (c', wr)) :
    HeapFrame c c' wr ∧ c'.heap.length = c.heap.length ∧ c'.st = c.st ∧ c'.handed = c.handed := by
  unfold lStoreBest at h
  cases h1 : Cell.sol? (lread c sol) with
  | none => simp [h1] at h
  | some p =>
    cases h2 : Cell.head? (lread c p.1) with
    | none => simp [h1, h2] at h
    | some hd =>
      simp [h1, h2] at h
      obtain ⟨rfl, rfl⟩ := h
      exact ⟨heapFrame_lwrite _ _ _, by simp, rfl, rfl⟩

section
variable [OfNat V 0]

theorem lNewItem_frame (i : Nat) (c : Comp V) :
    HeapFrame c (lNewItem i c).1 [] ∧ (lNewItem i c).1.heap.length = c.heap.length + 3 ∧
    (lNewItem i c).1.st = c.st ∧ (lNewItem i c).1.handed = c.handed ∧
    ∀ r ∈ (lNewItem i c).2.2, c.heap.length ≤ r.idx ∧ r.idx < c.heap.length + 3 := by
  refine ⟨?_, by simp [lNewItem], rfl, rfl, ?_⟩
  · have := ((heapFrame_lalloc i c (.holder 0)).trans (heapFrame_lalloc i _ (.list (some (lalloc i c (.holder 0)).2)))).trans
      (heapFrame_lalloc i _ (.item (lalloc i (lalloc i c (.holder 0)).1 (.list (some (lalloc i c (.holder 0)).2))).2))
    simpa [lNewItem] using this
  · intro r hr
    simp only [lNewItem, List.mem_cons, List.not_mem_nil, or_false] at hr
    rcases hr with rfl | rfl | rfl <;> simp <;> omega

/-- frame facts of the local step -/
structure StepFrame (c c' : Comp V) (o : Out) : Prop where
  frame : HeapFrame c c' o.wrote
  fresh : ∀ r ∈ o.allocated, c.heap.length ≤ r.idx ∧ r.idx < c'.heap.length
  handed : ∃ t, c'.handed = c.handed ++ t
  returned : ∀ r, o.returned = some r → r ∈ c'.handed

theorem lstep_frame {i : Nat} {c c' : Comp V} {op : Op V} {o : Out} (h : lstep i c op = some (c', o)) :
    StepFrame c c' o := by
  cases op with
  | construct =>
    simp only [lstep] at h
    cases hst : c.st with
    | some s => simp [hst] at h
    | none =>
      simp [hst] at h
      obtain ⟨rfl, rfl⟩ := h
      refine ⟨?_, ?_, ⟨[], by simp⟩, by simp⟩
      · refine ⟨by simp; omega, fun k hk _ => ?_⟩
        simp only [lalloc, List.append_assoc]
        exact List.getElem?_append_left hk
      · intro r hr
        simp only [List.mem_cons, List.not_mem_nil, or_false] at hr
        rcases hr with rfl | rfl | rfl | rfl <;> simp <;> omega
  | results =>
    simp only [lstep] at h
    cases hst : c.st with
    | none => simp [hst] at h
    | some s =>
      simp [hst] at h
      obtain ⟨rfl, rfl⟩ := h
      exact ⟨HeapFrame.of_heap_eq rfl, by simp, ⟨[s.solution], rfl⟩, by simp⟩
  | first z =>
    simp only [lstep] at h
    cases hst : c.st with
    | none => simp [hst] at h
    | some s =>
      simp only [hst, Option.bind_eq_bind, Option.bind_some] at h
      by_cases hstarted : s.started = true
      · simp [hstarted] at h
      · simp only [hstarted, Bool.false_eq_true, if_false] at h
        obtain ⟨hf1, hl1, -, hh1, ha1⟩ := lNewItem_frame i c
        obtain ⟨hf2, hl2, -, hh2, ha2⟩ := lNewItem_frame i (lNewItem i c).1
        obtain ⟨hf3, hl3, -, hh3, ha3⟩ := lNewItem_frame i (lNewItem i (lNewItem i c).1).1
        cases hcal : lCalculate (lNewItem i (lNewItem i (lNewItem i c).1).1).1 s.solution (lNewItem i c).2.1 z with
        | none => simp [hcal] at h
        | some p =>
          obtain ⟨c4, w1⟩ := p
          obtain ⟨hf4, hl4, -, hh4⟩ := lCalculate_frame hcal
          simp only [hcal, Option.bind_some] at h
          cases hsb : lStoreBest c4 s.solution (lNewItem i c).2.1 with
          | none => simp [hsb] at h
          | some q =>
            obtain ⟨c5, w2⟩ := q
            obtain ⟨hf5, hl5, -, hh5⟩ := lStoreBest_frame hsb
            simp only [hsb, Option.bind_some, Option.some.injEq, Prod.mk.injEq] at h
            obtain ⟨rfl, rfl⟩ := h
            refine ⟨?_, ?_, ⟨[], ?_⟩, by simp⟩
            · have : HeapFrame c c5 (w1 ++ w2) := by
                simpa using (((hf1.trans hf2).trans hf3).trans hf4).trans hf5
              exact ⟨this.1, this.2⟩
            · intro r hr
              simp only [List.mem_append] at hr
              show c.heap.length ≤ r.idx ∧ r.idx < c5.heap.length
              rw [hl5, hl4, hl3, hl2, hl1]
              rcases hr with (hr | hr) | hr
              · have := ha1 r hr; omega
              · have := ha2 r hr; omega
              · have := ha3 r hr; omega
            · show c5.handed = c.handed ++ []
              rw [hh5, hh4, hh3, hh2, hh1]; simp
  | iter z better =>
    simp only [lstep] at h
    cases hst : c.st with
    | none => simp [hst] at h
    | some s =>
      simp only [hst, Option.bind_eq_bind, Option.bind_some] at h
      by_cases hstarted : s.started = true
      · simp only [hstarted, Bool.not_true, Bool.false_eq_true, if_false] at h
        cases hb : s.best with
        | none => simp [hb] at h
        | some b =>
          simp only [hb, Option.bind_some] at h
          obtain ⟨hf1, hl1, -, hh1, ha1⟩ := lNewItem_frame i c
          cases hcal : lCalculate (lNewItem i c).1 s.solution (lNewItem i c).2.1 z with
          | none => simp [hcal] at h
          | some p =>
            obtain ⟨c4, w1⟩ := p
            obtain ⟨hf4, hl4, -, hh4⟩ := lCalculate_frame hcal
            simp only [hcal, Option.bind_some] at h
            cases hsb : lStoreBest c4 s.solution (if better = true then (lNewItem i c).2.1 else b) with
            | none => simp [hsb] at h
            | some q =>
              obtain ⟨c5, w2⟩ := q
              obtain ⟨hf5, hl5, -, hh5⟩ := lStoreBest_frame hsb
              simp only [hsb, Option.bind_some, Option.some.injEq, Prod.mk.injEq] at h
              obtain ⟨rfl, rfl⟩ := h
              refine ⟨?_, ?_, ⟨[], ?_⟩, by simp⟩
              · have : HeapFrame c c5 (w1 ++ w2) := by
                  simpa using (hf1.trans hf4).trans hf5
                exact ⟨this.1, this.2⟩
              · intro r hr
                show c.heap.length ≤ r.idx ∧ r.idx < c5.heap.length
                rw [hl5, hl4, hl1]
                have := ha1 r hr; omega
              · show c5.handed = c.handed ++ []
                rw [hh5, hh4, hh1]; simp
      · simp [hstarted] at h

end
end World
