import IOptProofs.EvGenGlue
import IOptProofs.EvFin
/-!
# Evolvent for every dimension, part 4: the certificate `EvCert n` holds for EVERY `n ≥ 2`

The raw facts about `node` (`EvGenNode.lean`, `EvGenGlue.lean`) are transported through the
transposition `0 ↔ it` (`swap0` on vectors, `relabel` on indices), which gives the five Boolean checks of
`Ev.itOK n it` for every `it < n`, hence `Ev.EvCert n = true` and, by `Ev.evFacts_of_cert`,
`Ev.EvFacts n` — with no enumeration.
-/

namespace Ev.All

open Ev.Inv

/-! ### the transposition `0 ↔ it` -/

theorem relabel_invol (i it : Nat) : relabel (relabel i it) it = i := by
  unfold relabel
  by_cases h0 : i = 0
  · subst h0; by_cases h1 : it = 0 <;> simp [h1]
  · by_cases h1 : i = it
    · subst h1; simp [h0]
    · simp [h0, h1]

theorem relabel_lt' {n i it : Nat} (hi : i < n) (hit : it < n) : relabel i it < n := by
  unfold relabel; split
  · exact hit
  · split
    · omega
    · exact hi

theorem relabel_eq_zero_iff (i it : Nat) : relabel i it = 0 ↔ i = it := by
  unfold relabel
  by_cases h0 : i = 0
  · subst h0; simp; omega
  · by_cases h1 : i = it
    · simp [h1]
    · simp [h0, h1]

theorem relabel_eq_iff (i j it : Nat) : relabel i it = j ↔ i = relabel j it := by
  constructor
  · rintro rfl; rw [relabel_invol]
  · rintro rfl; rw [relabel_invol]

/-- `i` is sent to `0` by the transposition `0 ↔ relabel l it` iff the transposition `0 ↔ it` sends it to `l` -/
theorem cond_corner (i l it : Nat) : relabel i (relabel l it) = 0 ↔ relabel i it = l := by
  rw [relabel_eq_zero_iff]; exact (relabel_eq_iff i l it).symm

theorem length_swap0' (a : List Int) (it : Nat) : (swap0 a it).length = a.length := by
  simp [swap0]

theorem getI_swap0 {a : List Int} {it i : Nat} (hit : it < a.length) :
    getI (swap0 a it) i = getI a (relabel i it) := by
  unfold swap0 relabel
  by_cases h1 : i = it
  · subst h1
    rw [getI_set_eq _ (by simpa using hit)]
    by_cases h0 : i = 0 <;> simp [h0]
  · rw [getI_set_ne _ h1]
    by_cases h0 : i = 0
    · subst h0; rw [getI_set_eq _ (by omega)]; simp
    · rw [getI_set_ne _ h0]; simp [h0, h1]

theorem swap0_swap0' {n : Nat} {a : List Int} {it : Nat} (ha : a.length = n) (hit : it < n) :
    swap0 (swap0 a it) it = a := by
  apply ext_getI (n := n) (by rw [length_swap0', length_swap0', ha]) ha
  intro i _
  rw [getI_swap0 (by rw [length_swap0', ha]; exact hit), getI_swap0 (by rw [ha]; exact hit),
    relabel_invol]

theorem signVec_swap0 {n : Nat} {a : List Int} {it : Nat} (ha : signVec n a) (hit : it < n) :
    signVec n (swap0 a it) := by
  apply signVec_of_getI (by rw [length_swap0', ha.1])
  intro i hi
  rw [getI_swap0 (by rw [ha.1]; exact hit)]
  exact signVec_getI ha (relabel_lt' hi hit)

theorem signVec_iff_pm1 {n : Nat} {a : List Int} : signVec n a ↔ a.length = n ∧ pm1 a = true := by
  unfold signVec
  constructor
  · rintro ⟨h1, h2⟩; exact ⟨h1, pm1_of_forall h2⟩
  · rintro ⟨h1, h2⟩; exact ⟨h1, forall_of_pm1 h2⟩

theorem signVec_of_mem_signVecs : ∀ {n : Nat} {o : List Int}, o ∈ signVecs n → signVec n o
  | 0, o, h => by
    simp [signVecs] at h; subst h; exact ⟨rfl, by simp⟩
  | n+1, o, h => by
    simp only [signVecs, List.mem_flatMap, List.mem_cons, List.not_mem_nil, or_false] at h
    obtain ⟨t, ht, rfl | rfl⟩ := h
    · have := signVec_of_mem_signVecs ht
      exact ⟨by simp [this.1], fun w hw => by
        rcases List.mem_cons.1 hw with rfl | hw
        · exact Or.inl rfl
        · exact this.2 w hw⟩
    · have := signVec_of_mem_signVecs ht
      exact ⟨by simp [this.1], fun w hw => by
        rcases List.mem_cons.1 hw with rfl | hw
        · exact Or.inr rfl
        · exact this.2 w hw⟩

/-! ### the unsigned level data in coordinates -/

section
variable {n : Nat} (hn : 2 ≤ n)
include hn

theorem node_signVec {d : Nat} (hd : d < 2^n) :
    (node n d).1 < n ∧ signVec n (node n d).2.1 ∧ signVec n (node n d).2.2 := by
  obtain ⟨h1, h2, h3, h4, h5⟩ := node_wf hn hd
  exact ⟨h1, signVec_iff_pm1.2 ⟨h2, h4⟩, signVec_iff_pm1.2 ⟨h3, h5⟩⟩

theorem all_closed {it d : Nat} (hit : it < n) (hd : d < 2^n) :
    signVec n (U n it d) ∧ signVec n (V n it d) ∧ T n it d < n := by
  obtain ⟨h1, h2, h3⟩ := node_signVec hn hd
  exact ⟨signVec_swap0 h2 hit, signVec_swap0 h3 hit, relabel_lt' h1 hit⟩

theorem getI_U {it d i : Nat} (hit : it < n) (hd : d < 2^n) :
    getI (U n it d) i = getI (node n d).2.1 (relabel i it) :=
  getI_swap0 (by rw [(node_signVec hn hd).2.1.1]; exact hit)

theorem getI_V {it d i : Nat} (hit : it < n) (hd : d < 2^n) :
    getI (V n it d) i = getI (node n d).2.2 (relabel i it) :=
  getI_swap0 (by rw [(node_signVec hn hd).2.2.1]; exact hit)

theorem getI_X0 {it d e i : Nat} (hit : it < n) (hd : d < 2^n) (he : e < 2^n) (hi : i < n) :
    getI (X0 n it d e) i =
      getI (node n e).2.1 (relabel i (T n it d)) * (- getI (node n d).2.2 (relabel i it)) := by
  obtain ⟨_, hV, hT⟩ := all_closed hn hit hd
  obtain ⟨hU, _, _⟩ := all_closed hn hT he
  rw [X0, getI_zipWith (by rw [hU.1]; exact hi) (by rw [hV.1]; exact hi), getI_U hn hT he,
    getI_V hn hit hd]

theorem all_inj {it d : Nat} (hit : it < n) (hd : d < 2^n) : decU n it (U n it d) = d := by
  obtain ⟨_, h2, _⟩ := node_signVec hn hd
  rw [decU, U, swap0_swap0' h2.1 hit, numbr_node_all hn hd]

theorem all_surj {it : Nat} {v : List Int} (hit : it < n) (hv : signVec n v) :
    decU n it v < 2^n ∧ U n it (decU n it v) = v := by
  have hs := signVec_swap0 hv hit
  have h := numbrOK_all hn hs.1 (signVec_iff_pm1.1 hs).2
  simp only [numbrOK, Bool.and_eq_true, decide_eq_true_eq, beq_iff_eq] at h
  refine ⟨h.1, ?_⟩
  rw [U, decU, h.2]
  exact swap0_swap0' hv.1 hit

theorem all_self {it : Nat} (hit : it < n) :
    X0 n it 0 0 = U n it 0 ∧ X0 n it (2^n-1) (2^n-1) = U n it (2^n-1) := by
  have h0 : 0 < 2^n := Nat.two_pow_pos n
  have hL : 2^n - 1 < 2^n := by omega
  constructor
  · obtain ⟨hU, hV, hT⟩ := all_closed hn hit h0
    apply ext_getI (n := n) (by rw [X0, List.length_zipWith, (all_closed hn hT h0).1.1, hV.1]; simp) hU.1
    intro i hi
    rw [getI_X0 hn hit h0 h0 hi, getI_U hn hit h0, node_zero_u (relabel_lt' hi hT),
      node_zero_v (relabel_lt' hi hit), node_zero_u (relabel_lt' hi hit)]
    rfl
  · obtain ⟨hU, hV, hT⟩ := all_closed hn hit hL
    apply ext_getI (n := n) (by rw [X0, List.length_zipWith, (all_closed hn hT hL).1.1, hV.1]; simp) hU.1
    intro i hi
    have hl : (node n (2^n-1)).1 = n - 1 := by rw [node_last (by omega)]
    rw [getI_X0 hn hit hL hL hi, getI_U hn hit hL, node_last_u (by omega) (relabel_lt' hi hT),
      node_last_v hn (relabel_lt' hi hit), node_last_u (by omega) (relabel_lt' hi hit)]
    simp only [T, cond_corner, hl]
    have hj := relabel_lt' hi hit
    generalize relabel i it = j at hj ⊢
    by_cases h1 : j = n - 1
    · rw [if_pos h1, if_pos (Or.inr h1), if_neg (by omega)]; rfl
    · rw [if_neg h1]
      by_cases h2 : j = 0
      · rw [if_pos (Or.inl h2), if_pos h2]; rfl
      · rw [if_neg (by omega), if_neg h2]; rfl

theorem all_glue {it d : Nat} (hit : it < n) (hd : d + 1 < 2^n) : ∃ c, c < n ∧
    getI (U n it d) c ≠ getI (U n it (d+1)) c ∧
    getI (X0 n it d (2^n-1)) c = getI (U n it (d+1)) c ∧
    getI (X0 n it (d+1) 0) c = getI (U n it d) c ∧
    ∀ i, i < n → i ≠ c →
      getI (U n it d) i = getI (U n it (d+1)) i ∧
      getI (X0 n it d (2^n-1)) i = getI (X0 n it (d+1) 0) i := by
  have h0 : 0 < 2^n := Nat.two_pow_pos n
  have hL : 2^n - 1 < 2^n := by omega
  have hd0 : d < 2^n := by omega
  obtain ⟨c, hc, g1, g2, g3, g4⟩ := raw_glue hn hd
  -- the two corner vectors in coordinates
  have hX : ∀ i, i < n → getI (X0 n it d (2^n-1)) i =
      dl (relabel i it) (node n d).1 * getI (node n d).2.2 (relabel i it) := by
    intro i hi
    have hT := (all_closed hn hit hd0).2.2
    rw [getI_X0 hn hit hd0 hL hi, node_last_u (by omega) (relabel_lt' hi hT)]
    simp only [T, cond_corner, dl]
    split <;> omega
  have hE : ∀ i, i < n → getI (X0 n it (d+1) 0) i = getI (node n (d+1)).2.2 (relabel i it) := by
    intro i hi
    have hT := (all_closed hn hit hd).2.2
    rw [getI_X0 hn hit hd h0 hi, node_zero_u (relabel_lt' hi hT)]; omega
  have hcc : relabel c it < n := relabel_lt' hc hit
  refine ⟨relabel c it, hcc, ?_, ?_, ?_, ?_⟩
  · rw [getI_U hn hit hd0, getI_U hn hit hd, relabel_invol]; exact g1
  · rw [hX _ hcc, getI_U hn hit hd, relabel_invol]; exact g2
  · rw [hE _ hcc, getI_U hn hit hd0, relabel_invol]; exact g3
  · intro i hi hic
    have hj : relabel i it ≠ c := fun e => hic ((relabel_eq_iff _ _ _).1 e)
    obtain ⟨a1, a2⟩ := g4 _ (relabel_lt' hi hit) hj
    rw [getI_U hn hit hd0, getI_U hn hit hd, hX i hi, hE i hi]
    exact ⟨a1, a2⟩

/-- **the Boolean certificate holds in every dimension `n ≥ 2`** -/
theorem evCert_all : EvCert n = true := by
  simp only [EvCert, List.all_eq_true, List.mem_range]
  intro it hit
  simp only [itOK, Bool.and_eq_true]
  refine ⟨⟨⟨⟨?_, ?_⟩, ?_⟩, ?_⟩, ?_⟩
  · simp only [closedB, List.all_eq_true, List.mem_range, Bool.and_eq_true, signVecB_iff,
      decide_eq_true_eq]
    intro d hd
    obtain ⟨h1, h2, h3⟩ := all_closed hn hit hd
    exact ⟨⟨h1, h2⟩, h3⟩
  · simp only [injB, List.all_eq_true, List.mem_range, beq_iff_eq]
    intro d hd
    exact all_inj hn hit hd
  · simp only [surjB, List.all_eq_true, Bool.and_eq_true, decide_eq_true_eq, beq_iff_eq]
    intro v hv
    exact all_surj hn hit (signVec_of_mem_signVecs hv)
  · simp only [selfB, Bool.and_eq_true, beq_iff_eq]
    exact all_self hn hit
  · simp only [glueB, List.all_eq_true, List.mem_range, List.any_eq_true]
    intro d hd
    obtain ⟨c, hc, g1, g2, g3, g4⟩ := all_glue hn hit (d := d) (by omega)
    refine ⟨c, hc, ?_⟩
    simp only [glueAt, Bool.and_eq_true, bne_iff_ne, ne_eq, beq_iff_eq, List.all_eq_true,
      List.mem_range, Bool.or_eq_true]
    refine ⟨⟨⟨g1, g2⟩, g3⟩, fun i hi => ?_⟩
    by_cases hic : i = c
    · exact Or.inl hic
    · exact Or.inr (g4 i hi hic)

end

/-- **the finite facts (F1)-(F3) about one level of the evolvent hold in every dimension `n ≥ 2`** -/
theorem _root_.Ev.evFacts_all (n : Nat) (h : 2 ≤ n) : EvFacts n := evFacts_of_cert (evCert_all h)

end Ev.All
