import IOptProofs.MethodCommit
/-!
# Runs of the AGP iteration, the evaluation log, and the invariants that relate them
-/
set_option linter.unusedSectionVars false

namespace AGP
variable {α : Type} [Field α] [LinearOrder α] [IsStrictOrderedRing α] [Fns α]

/-- `Run p hist log`: `hist` lists the states of a run of the method, newest first
(`s₁ = firstIteration p z₁`, `s_{k+1} = commit p pr_k z_{k+1}` with `prepare p s_k = .ok pr_k`; the values
`z_k` returned by the objective are arbitrary); `log` is the evaluation log, oldest first: the points
handed to the objective with the values returned (as `Proc.PState.evals`). -/
inductive Run (p : Params α) : List (State α) → List (List α × α) → Prop
  | first (z : α) : Run p [firstIteration p z] [(firstPoint p, z)]
  | step {s : State α} {hist : List (State α)} {log : List (List α × α)} {pr : Prep α} (z : α) :
      Run p (s :: hist) log → prepare p s = .ok pr →
      Run p (commit p pr z :: s :: hist) (log ++ [(pr.point, z)])

/-- `s` is reachable with evaluation log `log` -/
def Reach (p : Params α) (s : State α) (log : List (List α × α)) : Prop := ∃ hist, Run p (s :: hist) log

theorem Reach.first (p : Params α) (z : α) : Reach p (firstIteration p z) [(firstPoint p, z)] :=
  ⟨[], Run.first z⟩

theorem Reach.step {p : Params α} {s : State α} {log : List (List α × α)} {pr : Prep α} (z : α)
    (h : Reach p s log) (hp : prepare p s = .ok pr) : Reach p (commit p pr z) (log ++ [(pr.point, z)]) := by
  obtain ⟨hist, hr⟩ := h
  exact ⟨s :: hist, Run.step z hr hp⟩

/-- induction principle for `Reach` -/
theorem Reach.induction {p : Params α} {P : State α → List (List α × α) → Prop}
    (h1 : ∀ z, P (firstIteration p z) [(firstPoint p, z)])
    (h2 : ∀ s log pr z, Reach p s log → P s log → prepare p s = .ok pr →
      P (commit p pr z) (log ++ [(pr.point, z)]))
    {s : State α} {log : List (List α × α)} (h : Reach p s log) : P s log := by
  obtain ⟨hist, hr⟩ := h
  have key : ∀ l log, Run p l log → ∀ s hist, l = s :: hist → P s log := by
    intro l log hr
    induction hr with
    | first z => intro s hist hl; cases hl; exact h1 z
    | step z hr hp ih =>
      intro s hist hl
      cases hl
      exact h2 _ _ _ z ⟨_, hr⟩ (ih _ _ rfl) hp
  exact key _ _ hr _ _ rfl

section
variable {p : Params α}

theorem prepare_spec' (hL : FnsLaws α) (hr : 1 < p.r) (hn : 0 < p.n) {s : State α} {pr : Prep α}
    (h : Inv p s) (hp : prepare p s = .ok pr) : PrepSpec p s pr := by
  obtain ⟨pr', hp', hs⟩ := prepare_spec hL hr hn h
  rw [hp] at hp'
  cases hp'
  exact hs

/-- every reachable state satisfies the invariant -/
theorem Reach.inv (hL : FnsLaws α) (hr : 1 < p.r) (hn : 0 < p.n) {s : State α} {log : List (List α × α)}
    (h : Reach p s log) : Inv p s := by
  refine Reach.induction (P := fun s _ => Inv p s) ?_ ?_ h
  · intro z; exact firstIteration_inv p z
  · intro s log pr z _ ih hp; exact commit_inv hL (prepare_spec' hL hr hn ih hp) z

/-- every state of a run satisfies the invariant -/
theorem Run.inv_all (hL : FnsLaws α) (hr : 1 < p.r) (hn : 0 < p.n) {hist : List (State α)}
    {log : List (List α × α)} (h : Run p hist log) : ∀ s ∈ hist, Inv p s := by
  induction h with
  | first z => intro s hs; simp at hs; subst hs; exact firstIteration_inv p z
  | step z hr' hp ih =>
    intro s' hs'
    rcases List.mem_cons.1 hs' with rfl | hs'
    · exact commit_inv hL (prepare_spec' hL hr hn (ih _ (by simp)) hp) z
    · exact ih _ hs'

/-! ## The evaluation log -/

/-- the `(point, value)` pairs of the evaluated items, in list order -/
def evalsOf (l : List (Item α)) : List (List α × α) :=
  l.filterMap (fun it => if it.ev then some (it.point, it.z) else none)

theorem evalsOf_eq (l : List (Item α)) :
    evalsOf l = (l.filter (·.ev)).map (fun it => (it.point, it.z)) := by
  induction l with
  | nil => rfl
  | cons a t ih =>
    unfold evalsOf at ih ⊢
    by_cases h : a.ev = true
    · simp [h, ih]
    · simp [h, ih]

theorem evalsOf_transfer {l l' : List (Item α)} (h : l'.map eraseR = l.map eraseR) :
    evalsOf l' = evalsOf l := by
  have : ∀ l : List (Item α), evalsOf l = evalsOf (l.map eraseR) := by
    intro l; unfold evalsOf; rw [List.filterMap_map]; rfl
  rw [this l', h, ← this l]

/-- How the state relates to the evaluation log. -/
structure LogInv (s : State α) (log : List (List α × α)) : Prop where
  nextId : s.nextId = log.length + 2
  /-- the trial with id `j + 2` is the `j`-th evaluation -/
  idx : ∀ it ∈ s.items, it.ev = true → 2 ≤ it.id ∧ log[it.id - 2]? = some (it.point, it.z)
  surj : ∀ j < log.length, ∃ it ∈ s.items, it.ev = true ∧ it.id = j + 2
  perm : (evalsOf s.items).Perm log

theorem firstIteration_logInv (p : Params α) (z : α) :
    LogInv (firstIteration p z) [(firstPoint p, z)] := by
  refine ⟨rfl, ?_, ?_, ?_⟩
  · simp [firstIteration, firstPoint]
  · simp [firstIteration]
  · simp [firstIteration, firstPoint, evalsOf]

theorem commit_logInv {s : State α} {pr : Prep α} {log : List (List α × α)} (h : PrepSpec p s pr)
    (hl : LogInv s log) (z : α) : LogInv (commit p pr z) (log ++ [(pr.point, z)]) := by
  obtain ⟨pre, post, e, _⟩ := h.decomp
  have hit := commit_items h z e
  have hnext : (commit p pr z).nextId = pr.s.nextId + 1 := by rw [commit_eq]
  have hidx : ∀ it ∈ pr.s.items, it.ev = true → 2 ≤ it.id ∧ log[it.id - 2]? = some (it.point, it.z) :=
    (forall_transfer (P := fun it => it.ev = true → 2 ≤ it.id ∧ log[it.id - 2]? = some (it.point, it.z))
      h.items_eq (fun _ => Iff.rfl)).2 hl.idx
  have hsurj : ∀ j < log.length, ∃ it ∈ pr.s.items, it.ev = true ∧ it.id = j + 2 := by
    intro j hj
    exact (exists_transfer (P := fun it => it.ev = true ∧ it.id = j + 2) h.items_eq (fun _ => Iff.rfl)).2
      (hl.surj j hj)
  have hperm : (evalsOf pr.s.items).Perm log := by rw [evalsOf_transfer h.items_eq]; exact hl.perm
  have hnx : pr.s.nextId = log.length + 2 := by rw [h.nextId_eq]; exact hl.nextId
  refine ⟨?_, ?_, ?_, ?_⟩
  · rw [hnext, hnx]; simp
  · rw [hit]
    rw [e] at hidx
    have hlt := h.inv.ids_lt; rw [e] at hlt
    refine forall_ins (b := pr.old) ?_ ?_ (fun hb => hb)
    · intro it hi hev
      obtain ⟨h2, hg⟩ := hidx it hi hev
      refine ⟨h2, ?_⟩
      have : it.id - 2 < log.length := by have := hlt it hi; omega
      rw [List.getElem?_append_left this]; exact hg
    · intro _
      show 2 ≤ pr.s.nextId ∧ (log ++ [(pr.point, z)])[pr.s.nextId - 2]? = some (pr.point, z)
      rw [hnx]; simp
  · intro j hj
    rw [hit]
    simp only [List.length_append, List.length_singleton] at hj
    by_cases hj' : j < log.length
    · have := hsurj j hj'; rw [e] at this
      exact exists_ins this (fun hb => hb)
    · have hj2 : j = log.length := by omega
      refine ⟨cNew2 p pr z, by simp, rfl, ?_⟩
      show pr.s.nextId = j + 2
      omega
  · rw [hit]
    rw [e] at hperm
    have h1 : (cNew2 p pr z).ev = true := rfl
    have e1 : evalsOf (pre ++ pr.left :: cNew2 p pr z :: cOld2 p pr z :: post)
        = evalsOf (pre ++ [pr.left]) ++ (pr.point, z) :: evalsOf (pr.old :: post) := by
      have : pre ++ pr.left :: cNew2 p pr z :: cOld2 p pr z :: post
          = (pre ++ [pr.left]) ++ cNew2 p pr z :: cOld2 p pr z :: post := by simp
      rw [this]
      unfold evalsOf
      rw [List.filterMap_append, List.filterMap_cons, List.filterMap_cons, List.filterMap_cons]
      simp only [h1, if_true]
      rfl
    have e2 : evalsOf (pre ++ pr.left :: pr.old :: post)
        = evalsOf (pre ++ [pr.left]) ++ evalsOf (pr.old :: post) := by
      have : pre ++ pr.left :: pr.old :: post = (pre ++ [pr.left]) ++ pr.old :: post := by simp
      rw [this]; unfold evalsOf; rw [List.filterMap_append]
    rw [e1]
    rw [e2] at hperm
    refine List.perm_middle.trans ?_
    refine (List.Perm.cons _ hperm).trans ?_
    exact (List.perm_append_singleton _ _).symm

/-- every reachable state is related to its log -/
theorem Reach.logInv (hL : FnsLaws α) (hr : 1 < p.r) (hn : 0 < p.n) {s : State α} {log : List (List α × α)}
    (h : Reach p s log) : LogInv s log := by
  refine Reach.induction (P := fun s log => LogInv s log) ?_ ?_ h
  · intro z; exact firstIteration_logInv p z
  · intro s log pr z hre ih hp
    exact commit_logInv (prepare_spec' hL hr hn (hre.inv hL hr hn) hp) ih z

/-! ## `M` along a run -/

theorem prepare_commit_M_mono (hL : FnsLaws α) (hr : 1 < p.r) (hn : 0 < p.n) {s : State α} {pr : Prep α}
    (h : Inv p s) (hp : prepare p s = .ok pr) (z : α) : s.M ≤ (commit p pr z).M := by
  rw [← (prepare_spec' hL hr hn h hp).M_eq]; exact commit_M_mono hL z

/-- after `commit`, `M` is the old `M` or the slope of one of the two new neighbouring pairs -/
theorem commit_M_attained (hL : FnsLaws α) {s : State α} {pr : Prep α} (h : PrepSpec p s pr) (z : α) :
    (commit p pr z).M = s.M ∨ ∃ a b, Neighbours (commit p pr z).items a b ∧ a.ev = true ∧ b.ev = true ∧
      (commit p pr z).M = |b.z - a.z| / b.delta := by
  obtain ⟨pre, post, e, _⟩ := h.decomp
  have hit := commit_items h z e
  have hMeq : (commit p pr z).M = (cM2 p pr z).1 := by rw [commit_eq]
  have sp1 := (calcM_spec hL pr.s.M (cRc0 pr z) pr.left (cNew1 p pr z)).2.2
  have sp2 := (calcM_spec hL (cM1 p pr z).1 (cM1 p pr z).2 (cNew1 p pr z) (cOld1 p pr)).2.2
  change ((cM1 p pr z).1 = pr.s.M ∧ _) ∨ (_ ∧ (cM1 p pr z).1 = _ ∧ _) at sp1
  change ((cM2 p pr z).1 = (cM1 p pr z).1 ∧ _) ∨ (_ ∧ (cM2 p pr z).1 = _ ∧ _) at sp2
  rw [hMeq, hit]
  rcases sp2 with ⟨h21, _⟩ | ⟨hev, h21, _⟩
  · rcases sp1 with ⟨h11, _⟩ | ⟨hev, h11, _⟩
    · left; rw [h21, h11, h.M_eq]
    · right
      refine ⟨pr.left, cNew2 p pr z, ⟨pre, cOld2 p pr z :: post, rfl⟩, hev, rfl, ?_⟩
      rw [h21, h11]; rfl
  · right
    refine ⟨cNew2 p pr z, cOld2 p pr z, ⟨pre ++ [pr.left], post, by simp⟩, rfl, hev.symm, ?_⟩
    rw [h21]; rfl

/-- `M` along a run: it is at least 1, dominates the slope of every neighbouring evaluated pair of
every state so far, and is 1 or one of those slopes. -/
theorem Run.M_hist (hL : FnsLaws α) (hr : 1 < p.r) (hn : 0 < p.n) {s : State α} {hist : List (State α)}
    {log : List (List α × α)} (h : Run p (s :: hist) log) :
    1 ≤ s.M ∧
    (∀ s' ∈ s :: hist, ∀ a b, Neighbours s'.items a b → a.ev = true → b.ev = true →
      |b.z - a.z| / b.delta ≤ s.M) ∧
    (s.M = 1 ∨ ∃ s' ∈ s :: hist, ∃ a b, Neighbours s'.items a b ∧ a.ev = true ∧ b.ev = true ∧
      s.M = |b.z - a.z| / b.delta) := by
  have key : ∀ l log, Run p l log → ∀ s hist, l = s :: hist →
      (∀ s' ∈ s :: hist, ∀ a b, Neighbours s'.items a b → a.ev = true → b.ev = true →
        |b.z - a.z| / b.delta ≤ s.M) ∧
      (s.M = 1 ∨ ∃ s' ∈ s :: hist, ∃ a b, Neighbours s'.items a b ∧ a.ev = true ∧ b.ev = true ∧
        s.M = |b.z - a.z| / b.delta) := by
    intro l log hrun
    induction hrun with
    | first z =>
      intro s hist hl; cases hl
      refine ⟨?_, Or.inl (by simp [firstIteration])⟩
      intro s' hs' a b hab ha hb
      simp only [List.mem_singleton] at hs'
      subst hs'
      exact (firstIteration_inv p z).nb_slope hab ha hb
    | step z hrun hp ih =>
      rename_i s0 hist0 log0 pr
      intro s hist hl; cases hl
      obtain ⟨ihd, iha⟩ := ih _ _ rfl
      have hI0 : Inv p s0 := Run.inv_all hL hr hn hrun _ (by simp)
      have spec := prepare_spec' hL hr hn hI0 hp
      have hmono := prepare_commit_M_mono hL hr hn hI0 hp z
      have hI1 : Inv p (commit p pr z) := commit_inv hL spec z
      refine ⟨?_, ?_⟩
      · intro s' hs' a b hab ha hb
        rcases List.mem_cons.1 hs' with rfl | hs'
        · exact hI1.nb_slope hab ha hb
        · exact le_trans (ihd s' hs' a b hab ha hb) hmono
      · rcases commit_M_attained hL spec z with hM | ⟨a, b, hab, ha, hb, hM⟩
        · rcases iha with h1 | ⟨s', hs', a, b, hab, ha, hb, hM'⟩
          · left; rw [hM, h1]
          · right; exact ⟨s', List.mem_cons_of_mem _ hs', a, b, hab, ha, hb, by rw [hM, hM']⟩
        · right; exact ⟨_, by simp, a, b, hab, ha, hb, hM⟩
  exact ⟨(Run.inv_all hL hr hn h _ (by simp)).M_ge, key _ _ h _ _ rfl⟩

end
end AGP
