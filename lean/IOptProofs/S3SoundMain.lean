import IOptProofs.S3SoundBox
import IOptProofs.S3Cert
import Mathlib.Topology.Order.Compact
import Mathlib.Topology.Algebra.Order.Field
import Mathlib.Analysis.SpecialFunctions.Exp
import Mathlib.Tactic.FunProp
/-!
# StronginC3: the three clauses of C10 from the kernel-evaluated certificates
-/

namespace S3

attribute [local irreducible] U ONE EUP ELO E2UP C12

/-- the declared optimum coordinate (both coordinates are the double `0.941176`) -/
noncomputable def pR : ℝ := dyR pD
/-- the declared optimum value (the double `-1.489444`) -/
noncomputable def vR : ℝ := dyR vD

theorem pR_eq : pR = 8477359765780108 / 2 ^ 53 := by
  unfold pR; rw [show pD = (8477359765780108, 53) by decide +kernel, dyR_pair]; norm_num

theorem vR_eq : vR = -6707859443389221 / 2 ^ 52 := by
  unfold vR; rw [show vD = (-6707859443389221, 52) by decide +kernel, dyR_pair]; norm_num

/-- the feasible witness -/
noncomputable def w1 : ℝ := 63246749 / 2 ^ 26
noncomputable def w2 : ℝ := 130536807 / 2 ^ 26 - 1

theorem f_lower (a1 b1 a2 b2 : Nat) (x1 x2 : ℝ) (h : InBox a1 b1 a2 b2 x1 x2) :
    -((ub a1 b1 a2 b2 : ℝ) / 2 ^ 64) ≤ f x1 x2 := by
  rw [f_eq]
  have := ub_sound a1 b1 a2 b2 x1 x2 h
  rw [neg_le_neg_iff, le_div_iff₀ (by positivity)]
  exact this

theorem f_upper (a1 b1 a2 b2 : Nat) (x1 x2 : ℝ) (h : InBox a1 b1 a2 b2 x1 x2) :
    f x1 x2 ≤ -((lbA a1 b1 a2 b2 : ℝ) / 2 ^ 64) := by
  rw [f_eq]
  have := lbA_sound a1 b1 a2 b2 x1 x2 h
  have hB := B_nonneg x1 x2
  rw [neg_le_neg_iff, div_le_iff₀ (by positivity)]
  nlinarith

/-! ### value clause -/

theorem p_inBox : InBox PX (Nat.add PX 1) PY (Nat.add PY 1) pR pR := by
  unfold InBox
  rw [pR_eq]
  simp only [Nat.add_eq]
  norm_num [PX, PY]

theorem clauseV : |f pR pR - vR| ≤ 1 / 10000 := by
  have hc := certV_true
  unfold certV at hc
  simp only [Bool.and_eq_true, Nat.ble_eq] at hc
  obtain ⟨hu, hl⟩ := hc
  have h1 := f_lower _ _ _ _ pR pR p_inBox
  have h2 := f_upper _ _ _ _ pR pR p_inBox
  have hu' : ((ub PX (Nat.add PX 1) PY (Nat.add PY 1) : Nat) : ℝ) ≤ (VUP : ℝ) := by exact_mod_cast hu
  have hl' : (VLO : ℝ) ≤ ((lbA PX (Nat.add PX 1) PY (Nat.add PY 1) : Nat) : ℝ) := by exact_mod_cast hl
  have hV1 : (VUP : ℝ) / 2 ^ 64 ≤ -vR + 1 / 10000 := by
    rw [vR_eq, div_le_iff₀ (by positivity)]; norm_num [VUP]
  have hV2 : -vR - 1 / 10000 ≤ (VLO : ℝ) / 2 ^ 64 := by
    rw [vR_eq, le_div_iff₀ (by positivity)]; norm_num [VLO]
  have d1 : ((ub PX (Nat.add PX 1) PY (Nat.add PY 1) : Nat) : ℝ) / 2 ^ 64 ≤ (VUP : ℝ) / 2 ^ 64 :=
    div_le_div_of_nonneg_right hu' (by positivity)
  have d2 : (VLO : ℝ) / 2 ^ 64 ≤ ((lbA PX (Nat.add PX 1) PY (Nat.add PY 1) : Nat) : ℝ) / 2 ^ 64 :=
    div_le_div_of_nonneg_right hl' (by positivity)
  rw [abs_le]
  constructor <;> linarith

/-! ### global clause -/

theorem mul4U_cast : ((Nat.mul 4 U : Nat) : ℝ) = 4 * 2 ^ 26 := by
  rw [Nat.mul_eq, Nat.cast_mul, U_cast]; norm_num

theorem box_inBox (x1 x2 : ℝ) (h1 : 0 ≤ x1) (h2 : x1 ≤ 4) (h3 : -1 ≤ x2) (h4 : x2 ≤ 3) :
    InBox 0 (Nat.mul 4 U) 0 (Nat.mul 4 U) x1 x2 := by
  unfold InBox
  rw [mul4U_cast]
  refine ⟨by simp; positivity, by nlinarith, ?_, by nlinarith⟩
  have : (0 : ℝ) ≤ x2 + 1 := by linarith
  simp; positivity

theorem not_inR0 (x1 x2 : ℝ) : ¬ InRect R0 x1 x2 := by
  rintro ⟨h1, h2, _, _⟩
  have : ((R0.r1 : Nat) : ℝ) = 1 := by norm_num [R0]
  have h' : ((R0.s1 : Nat) : ℝ) = 0 := by norm_num [R0]
  rw [this] at h1; rw [h'] at h2
  linarith

theorem vR_lt : vR < -1 := by rw [vR_eq]; norm_num

theorem clauseG (x1 x2 : ℝ) (h1 : 0 ≤ x1) (h2 : x1 ≤ 4) (h3 : -1 ≤ x2) (h4 : x2 ≤ 3) (hg : g1 x1 x2 ≤ 0) :
    vR - 2 / 1000 * max 1 |vR| ≤ f x1 x2 := by
  have hc := certG_true
  unfold certG at hc
  have := bnb_sound TG R0 60 0 (Nat.mul 4 U) 0 (Nat.mul 4 U) hc x1 x2 (box_inBox x1 x2 h1 h2 h3 h4) hg
  rcases this with h | h
  · exact absurd h (not_inR0 x1 x2)
  · rw [f_eq]
    have hv := vR_lt
    have hmax : max 1 |vR| = -vR := by
      rw [abs_of_neg (by linarith), max_eq_right (by linarith)]
    rw [hmax]
    have hT : (TG : ℝ) / 2 ^ 64 ≤ -(vR - 2 / 1000 * -vR) := by
      rw [vR_eq, div_le_iff₀ (by positivity)]; norm_num [TG]
    have : A x1 x2 + B x1 x2 < (TG : ℝ) / 2 ^ 64 := by
      rw [lt_div_iff₀ (by positivity)]; exact h
    linarith

/-! ### location clause -/

theorem w_inBox : InBox WX WX WY WY w1 w2 := by
  unfold InBox w1 w2
  norm_num [WX, WY]

/-- the certified upper bound of `f(w)` -/
noncomputable def fwBound : ℝ := -((lbA WX WX WY WY : ℝ) / 2 ^ 64)

theorem f_w_le : f w1 w2 ≤ fwBound := f_upper _ _ _ _ w1 w2 w_inBox

theorem clauseP (x1 x2 : ℝ) (h1 : 0 ≤ x1) (h2 : x1 ≤ 4) (h3 : -1 ≤ x2) (h4 : x2 ≤ 3) (hg : g1 x1 x2 ≤ 0)
    (hout : ¬ InRect RP x1 x2) : f w1 w2 < f x1 x2 := by
  have hc := certP_true
  unfold certP at hc
  have := bnb_sound _ RP 60 0 (Nat.mul 4 U) 0 (Nat.mul 4 U) hc x1 x2 (box_inBox x1 x2 h1 h2 h3 h4) hg
  rcases this with h | h
  · exact absurd h hout
  · refine lt_of_le_of_lt f_w_le ?_
    unfold fwBound
    rw [f_eq, neg_lt_neg_iff, lt_div_iff₀ (by positivity)]
    exact h

/-- a point of the rectangle `RP` is within `0.008` / `0.018` of the declared point, per coordinate -/
theorem inRP_close (x1 x2 : ℝ) (h : InRect RP x1 x2) :
    |x1 - pR| ≤ 8 / 1000 ∧ |x2 - pR| ≤ 18 / 1000 := by
  obtain ⟨h1, h2, h3, h4⟩ := h
  have e1 : ((RP.r1 : Nat) : ℝ) = 62758600 := by norm_num [RP]
  have e2 : ((RP.s1 : Nat) : ℝ) = 63698123 := by norm_num [RP]
  have e3 : ((RP.r2 : Nat) : ℝ) = 129330593 := by norm_num [RP]
  have e4 : ((RP.s2 : Nat) : ℝ) = 131478075 := by norm_num [RP]
  rw [e1] at h1; rw [e2] at h2; rw [e3] at h3; rw [e4] at h4
  rw [pR_eq, abs_le, abs_le]
  norm_num at h1 h2 h3 h4 ⊢
  refine ⟨⟨by linarith, by linarith⟩, ⟨by linarith, by linarith⟩⟩

/-! ### the metadata row -/

theorem tag_eq (i row : Nat) : tag i row = row := by
  show row + (i - i) = row
  omega

theorem famRows_complete (fam : Nat) : ∀ (l : List Nat) (n : Nat), l.length ≤ n →
    ∀ row ∈ l, Dy.word row 0 = fam → row ∈ famRows fam l n
  | [], _, _, row, h, _ => by simp at h
  | x :: t, 0, hn, _, _, _ => by simp at hn
  | x :: t, n + 1, hn, row, h, hf => by
    have hn' : t.length ≤ n := by simpa using hn
    simp only [famRows, tag_eq]
    rcases List.mem_cons.1 h with rfl | h'
    · have : Nat.beq (Dy.word row 0) fam = true := by rw [hf]; exact Nat.beq_refl fam
      rw [this, cond_true]; exact List.mem_cons_self
    · have ih := famRows_complete fam t n hn' row h' hf
      cases Nat.beq (Dy.word x 0) fam
      · rw [cond_false]; exact ih
      · rw [cond_true]; exact List.mem_cons_of_mem _ ih

/-- every row of family code 7 of the metadata table is the last row -/
theorem family7_unique (row : Nat) (h : row ∈ Gen.metaRowsPacked.toList) (hf : (Gen.metaDecode row).family = 7) :
    row = Gen.metaRowsPacked.back! := by
  have := famRows_complete 7 _ _ metaRows_length_le row h hf
  rw [family7_rows] at this
  simpa using this

theorem dy0_val : dyR dy0 = 0 := by
  rw [show dy0 = (0, 1074) by decide +kernel, dyR_pair]; norm_num
theorem dyM1_val : dyR dyM1 = -1 := by
  rw [show dyM1 = (-4503599627370496, 52) by decide +kernel, dyR_pair]; norm_num
theorem dy4_val : dyR dy4 = 4 := by
  rw [show dy4 = (4503599627370496, 50) by decide +kernel, dyR_pair]; norm_num
theorem dy3_val : dyR dy3 = 3 := by
  rw [show dy3 = (6755399441055744, 51) by decide +kernel, dyR_pair]; norm_num

/-- the declared point is not itself a global minimiser: the feasible witness `w` has a smaller value -/
theorem f_w_lt_f_p : f w1 w2 < f pR pR := by
  have hc := certW_true
  rw [Nat.blt_eq] at hc
  have hc' : ((ub PX (Nat.add PX 1) PY (Nat.add PY 1) : Nat) : ℝ) < ((lbA WX WX WY WY : Nat) : ℝ) := by
    exact_mod_cast hc
  have h1 := f_lower _ _ _ _ pR pR p_inBox
  have h2 := f_upper _ _ _ _ w1 w2 w_inBox
  have : ((ub PX (Nat.add PX 1) PY (Nat.add PY 1) : Nat) : ℝ) / 2 ^ 64 < ((lbA WX WX WY WY : Nat) : ℝ) / 2 ^ 64 :=
    div_lt_div_of_pos_right hc' (by positivity)
  linarith

end S3
