import IOptProofs.HillDefs
/-! kernel-evaluated certificates (V), (G), (P), (L) of the Hill functions 140..159 (one block per file, identical template) -/
namespace Hill
set_option maxRecDepth 100000 in
theorem hill_block_7 : ∀ i ∈ List.range' 140 20, hillOK i = true := by decide +kernel
end Hill
