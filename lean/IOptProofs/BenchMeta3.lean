import IOptProofs.BenchMeta
import IOptProofs.BenchShekelDefs
/-!
The metadata rows 1000..1999 are the Shekel functions 0..999 and declare exactly the optimum of the
`minShekel` table (`Gen.shekelMinValue`, `Gen.shekelMinPoint`) and the box `[0, 10]`.
(The two packed tables are walked in parallel, once: random access into a 1000-row literal costs the
kernel a traversal of the literal per access.)
-/
namespace BenchMeta
open Gen
set_option maxRecDepth 100000

/-- the double `10.0` -/
def dy10 : Dy := Dy.ofBits 0x4024000000000000

/-- skip `s` rows of `ms`, then check `f i m s` on the pairs `(ms[s+j], ss[j])`, `i = i0 + j`, for ALL rows of `ss` -/
def checkPairs (f : Nat → Nat → Nat → Bool) : List Nat → List Nat → Nat → Nat → Bool
  | _, [], _, _ => true
  | [], _ :: _, _, _ => false
  | _ :: ms, s :: ss, k + 1, i => checkPairs f ms (s :: ss) k i
  | m :: ms, s :: ss, 0, i => f i (tag i m) s && Shk.forceNat (i + 1) fun i' => checkPairs f ms ss 0 i'

theorem forceNat_eq' (n : Nat) (k : Nat → Bool) : Shk.forceNat n k = k n := by cases n <;> rfl

theorem checkPairs_sound (f : Nat → Nat → Nat → Bool) :
    ∀ (ms ss : List Nat) (k i0 : Nat), checkPairs f ms ss k i0 = true →
      ∀ j, (hj : j < ss.length) → ∃ hm : k + j < ms.length, f (i0 + j) ms[k + j] ss[j] = true
  | _, [], _, _, _, j, hj => by simp at hj
  | [], _ :: _, _, _, h, _, _ => by simp [checkPairs] at h
  | _ :: ms, s :: ss, k + 1, i, h, j, hj => by
    obtain ⟨hm, hf⟩ := checkPairs_sound f ms (s :: ss) k i (by simpa [checkPairs] using h) j hj
    refine ⟨by simp only [List.length_cons]; omega, ?_⟩
    have : k + 1 + j = (k + j) + 1 := by omega
    simp only [this, List.getElem_cons_succ]
    exact hf
  | m :: ms, s :: ss, 0, i, h, j, hj => by
    simp only [checkPairs, tag_eq, forceNat_eq', Bool.and_eq_true] at h
    cases j with
    | zero => exact ⟨by simp, by simpa using h.1⟩
    | succ j =>
      obtain ⟨hm, hf⟩ := checkPairs_sound f ms ss 0 (i + 1) h.2 j (by simpa using hj)
      refine ⟨by simp only [List.length_cons]; omega, ?_⟩
      have e1 : 0 + (j + 1) = (0 + j) + 1 := by omega
      have e2 : i + (j + 1) = i + 1 + j := by omega
      simp only [e1, e2, List.getElem_cons_succ]
      exact hf

/-- metadata row `m` is the Shekel function `i` whose table row is `s`: family 1, argument `i`, declared
point `[minShekel[i][1]]`, declared value `minShekel[i][0]`, box `[0,10]` -/
def shekelPairOK (i m s : Nat) : Bool :=
  (metaDecode m).family == 1 && (metaDecode m).arg0 == i &&
  (metaDecode m).optPoint == [Dy.get s 31] && (metaDecode m).optValue == Dy.get s 30 &&
  (metaDecode m).lower == [dyZero] && (metaDecode m).upper == [dy10]

theorem meta_shekel_pairs :
    checkPairs shekelPairOK metaRowsPacked.toList shekelRows.toList 1000 0 = true := by decide +kernel

theorem shekelRows_size : shekelRows.size = 1000 := by decide +kernel

/-- for every Shekel function `i < 1000`, metadata row `1000 + i` is its row: it declares the optimum of
the `minShekel` table and the box `[0,10]` -/
theorem shekel_meta_row (i : Nat) (hi : i < 1000) :
    1000 + i < metaRowsPacked.size ∧ (metaDecode metaRowsPacked[1000 + i]!).family = 1 ∧
      (metaDecode metaRowsPacked[1000 + i]!).arg0 = i ∧
      (metaDecode metaRowsPacked[1000 + i]!).optPoint = [shekelMinPoint i] ∧
      (metaDecode metaRowsPacked[1000 + i]!).optValue = shekelMinValue i ∧
      (metaDecode metaRowsPacked[1000 + i]!).lower = [dyZero] ∧
      (metaDecode metaRowsPacked[1000 + i]!).upper = [dy10] := by
  have hsz : i < shekelRows.toList.length := by rw [Array.length_toList, shekelRows_size]; exact hi
  obtain ⟨hm, hf⟩ := checkPairs_sound _ _ _ _ _ meta_shekel_pairs i hsz
  have hm' : 1000 + i < metaRowsPacked.size := by simpa using hm
  have hrow := getElem!_eq_toList metaRowsPacked (1000 + i) hm'
  have hs : shekelRows[i]! = shekelRows.toList[i] :=
    getElem!_eq_toList shekelRows i (by rw [shekelRows_size]; exact hi)
  simp only [shekelPairOK, Bool.and_eq_true, beq_iff_eq, Nat.zero_add] at hf
  obtain ⟨⟨⟨⟨⟨h1, h2⟩, h3⟩, h4⟩, h5⟩, h6⟩ := hf
  rw [← hrow] at h1 h2 h3 h4 h5 h6
  refine ⟨hm', h1, h2, ?_, ?_, h5, h6⟩
  · rw [h3]; show [Dy.get shekelRows.toList[i] 31] = [Dy.get shekelRows[i]! 31]; rw [hs]
  · rw [h4]; show Dy.get shekelRows.toList[i] 30 = Dy.get shekelRows[i]! 30; rw [hs]

end BenchMeta
