import IOptProofs.GrishDefs
/-! kernel-evaluated certificates (V), (G), (P) of the Grishagin functions 26..30 (one block per file, identical template;
one theorem per function so that the kernel's reduction cache is released between functions) -/
namespace Grish
set_option maxRecDepth 100000
theorem grish_ok_26 : grishOK 26 = true := by decide +kernel
theorem grish_ok_27 : grishOK 27 = true := by decide +kernel
theorem grish_ok_28 : grishOK 28 = true := by decide +kernel
theorem grish_ok_29 : grishOK 29 = true := by decide +kernel
theorem grish_ok_30 : grishOK 30 = true := by decide +kernel
theorem grish_block_5 : ∀ k ∈ List.range' 26 5, grishOK k = true := by
  intro k hk
  simp only [List.mem_range'_1] at hk
  obtain ⟨h1, h2⟩ := hk
  have : k = 26 ∨ k = 27 ∨ k = 28 ∨ k = 29 ∨ k = 30 := by omega
  rcases this with rfl | rfl | rfl | rfl | rfl
  · exact grish_ok_26
  · exact grish_ok_27
  · exact grish_ok_28
  · exact grish_ok_29
  · exact grish_ok_30
end Grish
